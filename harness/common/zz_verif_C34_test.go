//go:build verif

package common

import (
	"bytes"
	"encoding/hex"
	"fmt"
	"math/big"
	"sort"
	"testing"

	"github.com/MixinNetwork/mixin/crypto"
	"pgregory.net/rapid"
	kit "verifkit"
)

// ---------------------------------------------------------------------------
// C34 — custodian updates are accepted only in canonical, fully signed form.
//
// Layout read from custodian.go:
//   extra = custodian spend32 view32 | n * entry353 | approval sig64
//   entry = 01 | custodian spend32 view32 | payee spend32 view32 | node id32 |
//           signer sig64 | payee sig64 | custodian sig64
//   payee and custodian sign Blake3(entry[:161]); the approval is the PREVIOUS
//   custodian's signature over Blake3(extra without the last 64 bytes).
//   price = 100 XIN per entry whose custodian address is unknown to the previous
//   state + 1 XIN per entry whose payee address changed.
// "unique keys" = the spend keys that identify custodians and payees (DESIGN C34).
// ---------------------------------------------------------------------------

const (
	vpC34Entry = 353
)

type vpC34Store struct {
	prev  *CustodianUpdateRequest
	calls []uint64
}

func (s *vpC34Store) ReadCustodian(ts uint64) (*CustodianUpdateRequest, error) {
	s.calls = append(s.calls, ts)
	return s.prev, nil
}

// vpC34Seed expands a drawn master seed into the i-th 64-byte key seed.
func vpC34Seed(master []byte, i int) []byte {
	a := crypto.Blake3Hash(append(append([]byte{}, master...), byte(i), byte(i>>8), 0))
	b := crypto.Blake3Hash(append(append([]byte{}, master...), byte(i), byte(i>>8), 1))
	return append(a[:], b[:]...)
}

func vpC34Addr(seed []byte) Address {
	spend := crypto.NewKeyFromSeed(seed)
	a := Address{PrivateSpendKey: spend, PublicSpendKey: spend.Public()}
	a.PrivateViewKey = a.PublicSpendKey.DeterministicHashDerive()
	a.PublicViewKey = a.PrivateViewKey.Public()
	return a
}

type vpC34Node struct {
	Custodian Address
	Payee     Address
	Signer    Address
	Rel       string // relation to the previous state: new, changed, same
	Extra     []byte
}

type vpC34Case struct {
	freeViewPayees int // payees whose view key is not derived from the spend key
	Network   crypto.Hash
	Prev      *CustodianUpdateRequest
	PrevAddr  Address // previous custodian account (with private keys)
	NewAddr   Address // custodian account named by the update
	SameAcct  bool
	Nodes     []*vpC34Node // sorted by custodian spend key
	Removed   int          // previous nodes that do not appear in the update
	keyIndex  int
	master    []byte
	PriceUnit *big.Int // price in 1e-8 units
}

func (cs *vpC34Case) nextAddr() Address {
	cs.keyIndex++
	return vpC34Addr(vpC34Seed(cs.master, cs.keyIndex))
}

func (cs *vpC34Case) encodeNode(n *vpC34Node) {
	n.Extra = EncodeCustodianNode(&n.Custodian, &n.Payee, &n.Signer.PrivateSpendKey, &n.Payee.PrivateSpendKey, &n.Custodian.PrivateSpendKey, cs.Network)
}

func vpC34SortNodes(ns []*vpC34Node) {
	sort.SliceStable(ns, func(i, j int) bool {
		return bytes.Compare(ns[i].Custodian.PublicSpendKey[:], ns[j].Custodian.PublicSpendKey[:]) < 0
	})
}

// vpC34Gen draws an update that satisfies every rule, together with a previous state.
func vpC34Gen(t *rapid.T) *vpC34Case {
	cs := &vpC34Case{}
	cs.master = rapid.SliceOfN(rapid.Byte(), 32, 32).Draw(t, "master")
	copy(cs.Network[:], rapid.SliceOfN(rapid.Byte(), 32, 32).Draw(t, "network"))
	var n int
	switch c := rapid.IntRange(0, 19).Draw(t, "n_c"); {
	case c < 12:
		n = rapid.IntRange(7, 9).Draw(t, "n_small")
	case c < 18:
		n = rapid.IntRange(10, 24).Draw(t, "n_mid")
	case c < 19:
		n = rapid.IntRange(25, 50).Draw(t, "n_big")
	default:
		n = 50
	}
	cs.PrevAddr = cs.nextAddr()
	mode := rapid.SampledFrom([]string{"genesis-like", "same-account", "new-account", "new-account"}).Draw(t, "mode")
	cs.SameAcct = mode == "same-account"
	if cs.SameAcct {
		cs.NewAddr = cs.PrevAddr
	} else {
		cs.NewAddr = cs.nextAddr()
	}
	prev := &CustodianUpdateRequest{Custodian: &Address{PublicSpendKey: cs.PrevAddr.PublicSpendKey, PublicViewKey: cs.PrevAddr.PublicViewKey},
		Timestamp: rapid.Uint64().Draw(t, "prev_ts")}
	for i := 0; i < n; i++ {
		nd := &vpC34Node{Custodian: cs.nextAddr(), Payee: cs.nextAddr(), Signer: cs.nextAddr()}
		if rapid.IntRange(0, 2).Draw(t, "payee_free_view") == 0 {
			// an ordinary account as payee: its view key is its own, not derived
			// from the spend key the way kernel node keys are
			v := crypto.NewKeyFromSeed(vpC34Seed(cs.master, 100000+cs.keyIndex))
			nd.Payee.PrivateViewKey, nd.Payee.PublicViewKey = v, v.Public()
			cs.freeViewPayees++
		}
		rel := "new"
		switch mode {
		case "same-account":
			rel = rapid.SampledFrom([]string{"same", "same", "changed"}).Draw(t, fmt.Sprintf("rel%d", i))
		case "new-account":
			rel = rapid.SampledFrom([]string{"same", "changed", "new"}).Draw(t, fmt.Sprintf("rel%d", i))
		}
		nd.Rel = rel
		switch rel {
		case "same":
			prev.Nodes = append(prev.Nodes, &CustodianNode{Custodian: vpC34Pub(nd.Custodian), Payee: vpC34Pub(nd.Payee)})
		case "changed":
			prev.Nodes = append(prev.Nodes, &CustodianNode{Custodian: vpC34Pub(nd.Custodian), Payee: vpC34Pub(cs.nextAddr())})
		}
		cs.encodeNode(nd)
		cs.Nodes = append(cs.Nodes, nd)
	}
	if mode == "new-account" {
		cs.Removed = rapid.IntRange(0, 3).Draw(t, "removed")
		for i := 0; i < cs.Removed; i++ {
			prev.Nodes = append(prev.Nodes, &CustodianNode{Custodian: vpC34Pub(cs.nextAddr()), Payee: vpC34Pub(cs.nextAddr())})
		}
	}
	// previous nodes are stored in their own (custodian key) order, not in ours
	sort.SliceStable(prev.Nodes, func(i, j int) bool {
		return bytes.Compare(prev.Nodes[i].Custodian.PublicSpendKey[:], prev.Nodes[j].Custodian.PublicSpendKey[:]) < 0
	})
	cs.Prev = prev
	vpC34SortNodes(cs.Nodes)
	return cs
}

func vpC34Pub(a Address) Address {
	return Address{PublicSpendKey: a.PublicSpendKey, PublicViewKey: a.PublicViewKey}
}

// vpC34Extra assembles header | entries | approval by approver.
func vpC34Extra(custodian Address, entries [][]byte, approver *crypto.Key) []byte {
	extra := append([]byte{}, custodian.PublicSpendKey[:]...)
	extra = append(extra, custodian.PublicViewKey[:]...)
	for _, e := range entries {
		extra = append(extra, e...)
	}
	sig := approver.Sign(crypto.Blake3Hash(extra))
	return append(extra, sig[:]...)
}

func vpC34Resign(extra []byte, approver *crypto.Key) []byte {
	body := append([]byte{}, extra[:len(extra)-64]...)
	sig := approver.Sign(crypto.Blake3Hash(body))
	return append(body, sig[:]...)
}

func (cs *vpC34Case) entries() [][]byte {
	out := make([][]byte, len(cs.Nodes))
	for i, n := range cs.Nodes {
		out[i] = n.Extra
	}
	return out
}

func vpC34Tx(extra []byte, amount Integer) *Transaction {
	tx := NewTransactionV5(XINAssetId)
	tx.Extra = extra
	k := crypto.Key{7}
	tx.Outputs = []*Output{{Type: OutputTypeCustodianUpdateNodes, Amount: amount, Keys: []*crypto.Key{&k}, Script: NewThresholdScript(Operator64)}}
	return tx
}

// vpC34Verdict is the harness's own evaluation of the statement's conditions,
// from the raw bytes.
type vpC34Verdict struct {
	Layout, Count, Actions, Sorted, Unique, EntrySigs, Approval, Price bool
	New, Changed                                                     int
	PriceUnits                                                       *big.Int
	DupViewOnly                                                      bool
}

func (v *vpC34Verdict) ok() bool {
	return v.Layout && v.Count && v.Actions && v.Sorted && v.Unique && v.EntrySigs && v.Approval && v.Price
}

func (v *vpC34Verdict) String() string {
	return fmt.Sprintf("layout=%v count>=7=%v actions=%v sorted=%v unique-spend-keys=%v entry-signatures=%v approval=%v price=%v (new=%d changed=%d)",
		v.Layout, v.Count, v.Actions, v.Sorted, v.Unique, v.EntrySigs, v.Approval, v.Price, v.New, v.Changed)
}

func vpC34Model(tx *Transaction, prev *CustodianUpdateRequest) *vpC34Verdict {
	v := &vpC34Verdict{PriceUnits: new(big.Int)}
	extra := tx.Extra
	if len(extra) < 128 || (len(extra)-128)%vpC34Entry != 0 {
		return v
	}
	v.Layout = true
	n := (len(extra) - 128) / vpC34Entry
	v.Count = n >= 7
	type ent struct{ cs, cv, ps, pv crypto.Key }
	ents := make([]ent, n)
	v.Actions, v.Sorted, v.Unique, v.EntrySigs = true, true, true, true
	spend := map[crypto.Key]int{}
	view := map[crypto.Key]int{}
	for i := 0; i < n; i++ {
		e := extra[64+i*vpC34Entry : 64+(i+1)*vpC34Entry]
		if e[0] != 1 {
			v.Actions = false
		}
		copy(ents[i].cs[:], e[1:33])
		copy(ents[i].cv[:], e[33:65])
		copy(ents[i].ps[:], e[65:97])
		copy(ents[i].pv[:], e[97:129])
		spend[ents[i].cs]++
		spend[ents[i].ps]++
		view[ents[i].cv]++
		view[ents[i].pv]++
		if i > 0 && bytes.Compare(ents[i-1].cs[:], ents[i].cs[:]) > 0 {
			v.Sorted = false
		}
		eh := crypto.Blake3Hash(e[:161])
		var ps, csig crypto.Signature
		copy(ps[:], e[225:289])
		copy(csig[:], e[289:353])
		pk, ck := ents[i].ps, ents[i].cs
		if !pk.Verify(eh, ps) || !ck.Verify(eh, csig) {
			v.EntrySigs = false
		}
	}
	for _, c := range spend {
		if c > 1 {
			v.Unique = false
		}
	}
	for _, c := range view {
		if c > 1 && v.Unique {
			v.DupViewOnly = true
		}
	}
	if prev != nil && prev.Custodian != nil {
		var sig crypto.Signature
		copy(sig[:], extra[len(extra)-64:])
		pk := prev.Custodian.PublicSpendKey
		v.Approval = pk.Verify(crypto.Blake3Hash(extra[:len(extra)-64]), sig)
	}
	known := map[[64]byte][64]byte{}
	if prev != nil {
		for _, pn := range prev.Nodes {
			var k, p [64]byte
			copy(k[:32], pn.Custodian.PublicSpendKey[:])
			copy(k[32:], pn.Custodian.PublicViewKey[:])
			copy(p[:32], pn.Payee.PublicSpendKey[:])
			copy(p[32:], pn.Payee.PublicViewKey[:])
			known[k] = p
		}
	}
	for _, e := range ents {
		var k, p [64]byte
		copy(k[:32], e.cs[:])
		copy(k[32:], e.cv[:])
		copy(p[:32], e.ps[:])
		copy(p[32:], e.pv[:])
		old, found := known[k]
		if !found {
			v.New++
		} else if old != p {
			v.Changed++
		}
		delete(known, k) // a second entry for the same custodian address counts as new, like the first lookup miss
	}
	v.PriceUnits.SetInt64(int64(100*v.New + v.Changed))
	v.PriceUnits.Mul(v.PriceUnits, big.NewInt(100000000))
	if len(tx.Outputs) > 0 {
		v.Price = tx.Outputs[0].Amount.i.Cmp(v.PriceUnits) >= 0
	}
	return v
}

func vpC34Validate(t interface{ Fatalf(string, ...any) }, tx *Transaction, st *vpC34Store, now uint64) error {
	var err error
	if p := vpCatch(func() { err = tx.validateCustodianUpdateNodes(st, now) }); p != nil {
		t.Fatalf("validateCustodianUpdateNodes panicked: %v", p)
	}
	return err
}

func vpC34Units(u *big.Int) Integer {
	return vpIntegerFromBig(u)
}

func vpC34FP(b []byte) string {
	h := crypto.Blake3Hash(b)
	return hex.EncodeToString(h[:8])
}

// vpC34Twins lists the mutated variants derived from one valid update.
var vpC34TwinKinds = []string{"swap-adjacent", "swap-any", "dup-custodian-spend", "dup-payee-spend", "payee-is-other-custodian", "payee-is-own-custodian", "payee-spend-is-own-custodian-spend", "custodian-spend-is-own-payee-spend",
	"dup-view-only", "flip-action", "flip-custodian-spend", "flip-custodian-view", "flip-payee-spend", "flip-payee-view", "flip-node-id",
	"flip-signer-sig", "flip-payee-sig", "flip-custodian-sig", "flip-header", "flip-approval", "flip-anywhere-unsigned", "swap-payee-custodian-sigs",
	"wrong-approver-new", "wrong-approver-random", "approval-over-wrong-message", "count-6", "trailing-bytes", "trailing-entry-zero", "truncated",
	"amount-minus-one", "amount-zero", "sig-from-other-entry", "unsorted-reverse",
	"shape-asset", "shape-output-type", "shape-script", "shape-keys", "shape-outputs"}

var vpC34Regions = map[string][2]int{"flip-action": {0, 1}, "flip-custodian-spend": {1, 33}, "flip-custodian-view": {33, 65}, "flip-payee-spend": {65, 97},
	"flip-payee-view": {97, 129}, "flip-node-id": {129, 161}, "flip-signer-sig": {161, 225}, "flip-payee-sig": {225, 289}, "flip-custodian-sig": {289, 353}}

// vpC34Twin builds one mutated transaction; observedOnly means no statement
// clause is known to be violated (the verdict model decides anyway).
func vpC34Twin(t *rapid.T, cs *vpC34Case, kind string, amount Integer) *Transaction {
	approver := &cs.PrevAddr.PrivateSpendKey
	ents := cs.entries()
	n := len(ents)
	cpEnts := func() [][]byte {
		out := make([][]byte, n)
		for i := range ents {
			out[i] = append([]byte{}, ents[i]...)
		}
		return out
	}
	rebuild := func(nodes []*vpC34Node, sorted bool) []byte {
		if sorted {
			vpC34SortNodes(nodes)
		}
		es := make([][]byte, len(nodes))
		for i, nd := range nodes {
			es[i] = nd.Extra
		}
		return vpC34Extra(cs.NewAddr, es, approver)
	}
	cloneNodes := func() []*vpC34Node {
		out := make([]*vpC34Node, n)
		for i, nd := range cs.Nodes {
			c := *nd
			out[i] = &c
		}
		return out
	}
	pick := func(label string) int { return rapid.IntRange(0, n-1).Draw(t, label) }
	pick2 := func() (int, int) {
		i := rapid.IntRange(0, n-2).Draw(t, "i")
		j := rapid.IntRange(i+1, n-1).Draw(t, "j")
		return i, j
	}
	switch kind {
	case "swap-adjacent":
		es := cpEnts()
		i := rapid.IntRange(0, n-2).Draw(t, "i")
		es[i], es[i+1] = es[i+1], es[i]
		return vpC34Tx(vpC34Extra(cs.NewAddr, es, approver), amount)
	case "swap-any":
		es := cpEnts()
		i, j := pick2()
		es[i], es[j] = es[j], es[i]
		return vpC34Tx(vpC34Extra(cs.NewAddr, es, approver), amount)
	case "unsorted-reverse":
		es := cpEnts()
		for i, j := 0, n-1; i < j; i, j = i+1, j-1 {
			es[i], es[j] = es[j], es[i]
		}
		return vpC34Tx(vpC34Extra(cs.NewAddr, es, approver), amount)
	case "dup-custodian-spend", "dup-payee-spend", "payee-is-other-custodian", "payee-is-own-custodian", "payee-spend-is-own-custodian-spend", "custodian-spend-is-own-payee-spend", "dup-view-only":
		nodes := cloneNodes()
		i, j := pick2()
		switch kind {
		case "dup-custodian-spend":
			nodes[j].Custodian = nodes[i].Custodian
		case "dup-payee-spend":
			nodes[j].Payee = nodes[i].Payee
		case "payee-is-other-custodian":
			nodes[j].Payee = nodes[i].Custodian
		case "payee-is-own-custodian":
			nodes[j].Payee = nodes[j].Custodian
		case "payee-spend-is-own-custodian-spend":
			// same spend key, another view key: the two addresses differ as text
			view := nodes[i].Payee
			nodes[j].Payee = nodes[j].Custodian
			nodes[j].Payee.PrivateViewKey, nodes[j].Payee.PublicViewKey = view.PrivateViewKey, view.PublicViewKey
		case "custodian-spend-is-own-payee-spend":
			view := nodes[i].Custodian
			nodes[j].Custodian = nodes[j].Payee
			nodes[j].Custodian.PrivateViewKey, nodes[j].Custodian.PublicViewKey = view.PrivateViewKey, view.PublicViewKey
		case "dup-view-only":
			nodes[j].Payee.PrivateViewKey = nodes[i].Payee.PrivateViewKey
			nodes[j].Payee.PublicViewKey = nodes[i].Payee.PublicViewKey
		}
		cs.encodeNode(nodes[j])
		return vpC34Tx(rebuild(nodes, true), amount)
	case "flip-action", "flip-custodian-spend", "flip-custodian-view", "flip-payee-spend", "flip-payee-view", "flip-node-id",
		"flip-signer-sig", "flip-payee-sig", "flip-custodian-sig":
		es := cpEnts()
		r := vpC34Regions[kind]
		k := pick("entry")
		es[k][rapid.IntRange(r[0], r[1]-1).Draw(t, "at")] ^= byte(1) << uint(rapid.IntRange(0, 7).Draw(t, "bit"))
		return vpC34Tx(vpC34Extra(cs.NewAddr, es, approver), amount) // approval re-signed over the mutated body
	case "swap-payee-custodian-sigs":
		es := cpEnts()
		k := pick("entry")
		tmp := append([]byte{}, es[k][225:289]...)
		copy(es[k][225:289], es[k][289:353])
		copy(es[k][289:353], tmp)
		return vpC34Tx(vpC34Extra(cs.NewAddr, es, approver), amount)
	case "sig-from-other-entry":
		es := cpEnts()
		i, j := pick2()
		copy(es[j][225:353], es[i][225:353])
		return vpC34Tx(vpC34Extra(cs.NewAddr, es, approver), amount)
	case "flip-header":
		extra := vpC34Extra(cs.NewAddr, ents, approver)
		extra[rapid.IntRange(0, 63).Draw(t, "at")] ^= byte(1) << uint(rapid.IntRange(0, 7).Draw(t, "bit"))
		return vpC34Tx(extra, amount) // not re-signed: the approval covers the header
	case "flip-approval":
		extra := vpC34Extra(cs.NewAddr, ents, approver)
		extra[len(extra)-1-rapid.IntRange(0, 63).Draw(t, "at")] ^= byte(1) << uint(rapid.IntRange(0, 7).Draw(t, "bit"))
		return vpC34Tx(extra, amount)
	case "flip-anywhere-unsigned":
		extra := vpC34Extra(cs.NewAddr, ents, approver)
		extra[rapid.IntRange(0, len(extra)-1).Draw(t, "at")] ^= byte(1) << uint(rapid.IntRange(0, 7).Draw(t, "bit"))
		return vpC34Tx(extra, amount)
	case "wrong-approver-new":
		other := cs.nextAddr()
		if !cs.SameAcct {
			other = cs.NewAddr
		}
		return vpC34Tx(vpC34Extra(cs.NewAddr, ents, &other.PrivateSpendKey), amount)
	case "wrong-approver-random":
		other := cs.nextAddr()
		return vpC34Tx(vpC34Extra(cs.NewAddr, ents, &other.PrivateSpendKey), amount)
	case "approval-over-wrong-message":
		extra := vpC34Extra(cs.NewAddr, ents, approver)
		sig := approver.Sign(crypto.Blake3Hash(extra)) // signs the body including the old signature
		copy(extra[len(extra)-64:], sig[:])
		return vpC34Tx(extra, amount)
	case "count-6":
		return vpC34Tx(vpC34Extra(cs.NewAddr, ents[:6], approver), amount)
	case "trailing-bytes":
		extra := vpC34Extra(cs.NewAddr, ents, approver)
		k := rapid.IntRange(1, vpC34Entry-1).Draw(t, "k")
		return vpC34Tx(vpC34Resign(append(extra, make([]byte, k)...), approver), amount)
	case "trailing-entry-zero":
		es := append(cpEnts(), make([]byte, vpC34Entry))
		return vpC34Tx(vpC34Extra(cs.NewAddr, es, approver), amount)
	case "truncated":
		extra := vpC34Extra(cs.NewAddr, ents, approver)
		k := rapid.IntRange(1, vpC34Entry+64).Draw(t, "k")
		return vpC34Tx(extra[:len(extra)-k], amount)
	case "amount-minus-one":
		tx := vpC34Tx(vpC34Extra(cs.NewAddr, ents, approver), amount)
		if cs.PriceUnit.Sign() > 0 {
			tx.Outputs[0].Amount = vpC34Units(new(big.Int).Sub(cs.PriceUnit, big.NewInt(1)))
		}
		return tx
	case "amount-zero":
		tx := vpC34Tx(vpC34Extra(cs.NewAddr, ents, approver), amount)
		tx.Outputs[0].Amount = Zero
		return tx
	}
	tx := vpC34Tx(vpC34Extra(cs.NewAddr, ents, approver), amount)
	switch kind {
	case "shape-asset":
		tx.Asset[rapid.IntRange(0, 31).Draw(t, "at")] ^= 1
	case "shape-output-type":
		tx.Outputs[0].Type = rapid.SampledFrom([]uint8{OutputTypeScript, OutputTypeCustodianSlashNodes, OutputTypeNodePledge}).Draw(t, "otype")
	case "shape-script":
		tx.Outputs[0].Script = NewThresholdScript(uint8(rapid.IntRange(0, 63).Draw(t, "thr")))
	case "shape-keys":
		if rapid.Bool().Draw(t, "nokeys") {
			tx.Outputs[0].Keys = nil
		} else {
			tx.Outputs[0].Keys = append(tx.Outputs[0].Keys, &crypto.Key{9})
		}
	case "shape-outputs":
		if rapid.Bool().Draw(t, "none") {
			tx.Outputs = nil
		} else {
			tx.Outputs = append(tx.Outputs, &Output{Type: OutputTypeScript, Amount: NewInteger(1)})
		}
	}
	return tx
}

func TestVP_C34_validate(t *testing.T) {
	c := kit.New(t, "C34", "rapid: a fully valid custodian update (7..50 entries from EncodeCustodianNode with keys derived from a drawn seed, sorted by custodian key; previous state genesis-like, same custodian account, or a new account with same/changed/new/removed nodes; amount = price, price+x) must be accepted; then ~36 mutated twins of it (order, duplicate spend keys, bit flips per region with re-signed approval, wrong approver, count 6, trailing/truncated bytes, price-1, shape). Whatever is accepted must satisfy, by the harness's own evaluation of the raw bytes: layout, count>=7, sorted by custodian key, unique spend keys, valid payee and custodian signatures, valid approval by the previous custodian, amount>=100*new+1*changed. non-trivial = base update with >=1 new and >=1 changed entry, or any twin; distinct by hash of extra+amount")
	c.Require("base-accepted", "mode:genesis-like", "mode:same-account", "mode:new-account", "base:new+changed", "amount=price", "amount>price", "n=50", "n=7")
	c.Require(vpC34TwinKinds...)
	c.Require("twin-accepted", "twin-rejected")
	kit.SetChecks(kit.N(150, 5000))
	rapid.Check(t, func(t *rapid.T) {
		cs := vpC34Gen(t)
		st := &vpC34Store{prev: cs.Prev}
		now := rapid.Uint64().Draw(t, "now")
		base := vpC34Extra(cs.NewAddr, cs.entries(), &cs.PrevAddr.PrivateSpendKey)
		m0 := vpC34Model(vpC34Tx(base, Zero), cs.Prev)
		cs.PriceUnit = m0.PriceUnits
		// the generator's own bookkeeping agrees with the model
		nNew, nChanged := 0, 0
		for _, nd := range cs.Nodes {
			switch nd.Rel {
			case "new":
				nNew++
			case "changed":
				nChanged++
			}
		}
		if nNew != m0.New || nChanged != m0.Changed {
			t.Fatalf("harness: generator (%d new, %d changed) and model (%d, %d) disagree", nNew, nChanged, m0.New, m0.Changed)
		}
		var amount Integer
		acls := "amount=price"
		if rapid.Bool().Draw(t, "exact") {
			amount = vpC34Units(m0.PriceUnits)
		} else {
			amount = vpC34Units(new(big.Int).Add(m0.PriceUnits, vpGenBig(t, "over")))
			if amount.i.Cmp(m0.PriceUnits) > 0 {
				acls = "amount>price"
			}
		}
		tx := vpC34Tx(base, amount)
		m := vpC34Model(tx, cs.Prev)
		if !m.ok() {
			t.Fatalf("harness: constructed update fails the model: %s", m)
		}
		err := vpC34Validate(t, tx, st, now)
		if err != nil {
			t.Fatalf("fully valid update rejected: %v\nmodel: %s mode same-account=%v n=%d", err, m, cs.SameAcct, len(cs.Nodes))
		}
		if len(st.calls) != 1 || st.calls[0] != now {
			t.Fatalf("previous custodian read %v, want one read at %d", st.calls, now)
		}
		mode := "mode:new-account"
		if cs.SameAcct {
			mode = "mode:same-account"
		} else if len(cs.Prev.Nodes) == 0 {
			mode = "mode:genesis-like"
		}
		cl := []string{"base-accepted", mode, acls}
		if m.New > 0 && m.Changed > 0 {
			cl = append(cl, "base:new+changed")
		}
		if len(cs.Nodes) == 50 {
			cl = append(cl, "n=50")
		} else if len(cs.Nodes) == 7 {
			cl = append(cl, "n=7")
		}
		c.Case(vpC34FP(base)+amount.String(), m.New > 0 && m.Changed > 0, cl...)
		c.Sample(map[string]any{"n": len(cs.Nodes), "mode": mode, "new": m.New, "changed": m.Changed, "removed": cs.Removed, "amount": amount.String()})

		// twins
		kinds := vpC34TwinKinds
		if len(cs.Nodes) > 12 { // large sets: a drawn subset keeps the case cheap
			idx := rapid.SliceOfNDistinct(rapid.IntRange(0, len(vpC34TwinKinds)-1), 6, 6, rapid.ID[int]).Draw(t, "twin_subset")
			kinds = nil
			for _, i := range idx {
				kinds = append(kinds, vpC34TwinKinds[i])
			}
		}
		for _, kind := range kinds {
			tw := vpC34Twin(t, cs, kind, amount)
			stw := &vpC34Store{prev: cs.Prev}
			err := vpC34Validate(t, tw, stw, now)
			mt := vpC34Model(tw, cs.Prev)
			tcl := []string{kind}
			if err == nil {
				tcl = append(tcl, "twin-accepted", "accepted:"+kind)
				if !mt.ok() {
					t.Fatalf("twin %q accepted although a required condition fails: %s", kind, mt)
				}
				if mt.DupViewOnly {
					tcl = append(tcl, "observed:duplicate-view-key-accepted")
				}
			} else {
				tcl = append(tcl, "twin-rejected")
				if mt.ok() {
					tcl = append(tcl, "observed:model-ok-but-rejected:"+kind)
				}
			}
			fp := append(append([]byte{}, tw.Extra...), []byte(kind)...)
			c.Case(vpC34FP(fp), true, tcl...)
		}
	})
}

// TestVP_C34_previous_states: one fixed valid update against random previous
// states; acceptance implies approval by exactly that previous custodian and
// the price computed against exactly that previous node list.
func TestVP_C34_previous_states(t *testing.T) {
	c := kit.New(t, "C34", "rapid: a valid update evaluated against a different random previous state (other custodian account, subsets/supersets of the nodes with kept or changed payees, view-key-only differences, amounts around the recomputed price); accepted implies the model's conditions against that state; model-ok updates under a different account are accepted; non-trivial = every case; distinct by hash of previous state + amount")
	c.Require("accepted", "rejected:approval", "rejected:price", "amount=price-1", "amount=price", "prev-view-differs")
	kit.SetChecks(kit.N(250, 10000))
	rapid.Check(t, func(t *rapid.T) {
		cs := vpC34Gen(t)
		if len(cs.Nodes) > 12 {
			cs.Nodes = cs.Nodes[:12]
		}
		// rebuild the previous state independently of the generator's relations
		prev := &CustodianUpdateRequest{}
		approverOK := rapid.IntRange(0, 4).Draw(t, "approver_ok") != 0
		if approverOK {
			prev.Custodian = &Address{PublicSpendKey: cs.PrevAddr.PublicSpendKey, PublicViewKey: cs.PrevAddr.PublicViewKey}
		} else {
			o := cs.nextAddr()
			if rapid.Bool().Draw(t, "approver_is_new") && !cs.SameAcct {
				o = cs.NewAddr
			}
			prev.Custodian = &Address{PublicSpendKey: o.PublicSpendKey, PublicViewKey: o.PublicViewKey}
		}
		cl := []string{}
		for i, nd := range cs.Nodes {
			switch rapid.IntRange(0, 4).Draw(t, fmt.Sprintf("p%d", i)) {
			case 0: // unknown
			case 1: // known, same payee
				prev.Nodes = append(prev.Nodes, &CustodianNode{Custodian: vpC34Pub(nd.Custodian), Payee: vpC34Pub(nd.Payee)})
			case 2: // known, other payee
				prev.Nodes = append(prev.Nodes, &CustodianNode{Custodian: vpC34Pub(nd.Custodian), Payee: vpC34Pub(cs.nextAddr())})
			case 3: // known by spend key but a different view key: a different address
				cu := vpC34Pub(nd.Custodian)
				cu.PublicViewKey = cs.nextAddr().PublicViewKey
				prev.Nodes = append(prev.Nodes, &CustodianNode{Custodian: cu, Payee: vpC34Pub(nd.Payee)})
				cl = append(cl, "prev-view-differs")
			case 4: // payee differs by view key only
				pa := vpC34Pub(nd.Payee)
				pa.PublicViewKey = cs.nextAddr().PublicViewKey
				prev.Nodes = append(prev.Nodes, &CustodianNode{Custodian: vpC34Pub(nd.Custodian), Payee: pa})
				cl = append(cl, "prev-view-differs")
			}
		}
		for i := rapid.IntRange(0, 2).Draw(t, "extra_prev"); i > 0; i-- {
			prev.Nodes = append(prev.Nodes, &CustodianNode{Custodian: vpC34Pub(cs.nextAddr()), Payee: vpC34Pub(cs.nextAddr())})
		}
		extra := vpC34Extra(cs.NewAddr, cs.entries(), &cs.PrevAddr.PrivateSpendKey)
		m0 := vpC34Model(vpC34Tx(extra, Zero), prev)
		delta := rapid.SampledFrom([]int64{-1, 0, 0, 1, 100000000}).Draw(t, "delta")
		units := new(big.Int).Add(m0.PriceUnits, big.NewInt(delta))
		if units.Sign() < 0 {
			units.SetInt64(0)
		}
		tx := vpC34Tx(extra, vpC34Units(units))
		m := vpC34Model(tx, prev)
		err := vpC34Validate(t, tx, &vpC34Store{prev: prev}, 1)
		switch {
		case units.Cmp(m0.PriceUnits) < 0:
			cl = append(cl, "amount=price-1")
		case units.Cmp(m0.PriceUnits) == 0:
			cl = append(cl, "amount=price")
		}
		if err == nil {
			if !m.ok() {
				t.Fatalf("accepted although a required condition fails against this previous state: %s", m)
			}
			cl = append(cl, "accepted")
		} else {
			if !m.Approval {
				cl = append(cl, "rejected:approval")
			} else if !m.Price {
				cl = append(cl, "rejected:price")
			} else if m.ok() {
				// all listed conditions hold; the code's extra rule for an unchanged custodian
				// account (node set must be the same) is the only legitimate reason left
				same := prev.Custodian.PublicSpendKey == cs.NewAddr.PublicSpendKey && prev.Custodian.PublicViewKey == cs.NewAddr.PublicViewKey
				if !same {
					t.Fatalf("update with a new custodian account satisfying every condition was rejected: %v (%s)", err, m)
				}
				cl = append(cl, "rejected:same-account-node-set")
			}
		}
		var ph []byte
		for _, pn := range prev.Nodes {
			ph = append(ph, pn.Custodian.PublicSpendKey[:]...)
			ph = append(ph, pn.Payee.PublicViewKey[:]...)
		}
		c.Case(vpC34FP(append(ph, extra...))+units.String(), true, vpC34Uniq(cl)...)
	})
}

func vpC34Uniq(in []string) []string {
	seen := map[string]bool{}
	out := []string{}
	for _, s := range in {
		if !seen[s] {
			seen[s] = true
			out = append(out, s)
		}
	}
	return out
}

func TestVP_C34_parse_roundtrip(t *testing.T) {
	c := kit.New(t, "C34", "rapid: 7..50 encoded entries sorted by custodian key -> ParseCustodianUpdateNodesExtra returns the same custodian account, approval signature and the same entries (public keys and raw bytes) in the same order; with genesis=true the same holds for entries whose signatures were destroyed; any non-sorted permutation is refused; non-trivial = every case; distinct by hash of extra")
	c.Require("roundtrip", "genesis-roundtrip", "permutation-refused", "n=50", "payee-with-own-view-key")
	kit.SetChecks(kit.N(200, 6000))
	rapid.Check(t, func(t *rapid.T) {
		cs := vpC34Gen(t)
		extra := vpC34Extra(cs.NewAddr, cs.entries(), &cs.PrevAddr.PrivateSpendKey)
		check := func(extra []byte, genesis bool, ents [][]byte) {
			var cur *CustodianUpdateRequest
			var err error
			if p := vpCatch(func() { cur, err = ParseCustodianUpdateNodesExtra(extra, genesis) }); p != nil {
				t.Fatalf("parse panicked: %v", p)
			}
			if err != nil {
				t.Fatalf("parse(genesis=%v) of an encoded update failed: %v", genesis, err)
			}
			if cur.Custodian.PublicSpendKey != cs.NewAddr.PublicSpendKey || cur.Custodian.PublicViewKey != cs.NewAddr.PublicViewKey {
				t.Fatalf("custodian account differs after parse")
			}
			if !bytes.Equal(cur.Signature[:], extra[len(extra)-64:]) {
				t.Fatalf("approval signature differs after parse")
			}
			if len(cur.Nodes) != len(ents) {
				t.Fatalf("%d entries parsed, %d encoded", len(cur.Nodes), len(ents))
			}
			for i, nd := range cur.Nodes {
				want := cs.Nodes[i]
				if !bytes.Equal(nd.Extra, ents[i]) {
					t.Fatalf("entry %d raw bytes differ", i)
				}
				if nd.Custodian.PublicSpendKey != want.Custodian.PublicSpendKey || nd.Custodian.PublicViewKey != want.Custodian.PublicViewKey ||
					nd.Payee.PublicSpendKey != want.Payee.PublicSpendKey || nd.Payee.PublicViewKey != want.Payee.PublicViewKey {
					t.Fatalf("entry %d keys differ", i)
				}
			}
		}
		check(extra, false, cs.entries())
		cl := []string{"roundtrip"}
		if cs.freeViewPayees > 0 {
			cl = append(cl, "payee-with-own-view-key")
		}
		if len(cs.Nodes) == 50 {
			cl = append(cl, "n=50")
		}
		// genesis parsing does not verify entry signatures
		broken := make([][]byte, len(cs.Nodes))
		for i, e := range cs.entries() {
			broken[i] = append([]byte{}, e...)
			broken[i][225+rapid.IntRange(0, 127).Draw(t, fmt.Sprintf("brk%d", i))] ^= 0x40
		}
		gx := vpC34Extra(cs.NewAddr, broken, &cs.PrevAddr.PrivateSpendKey)
		check(gx, true, broken)
		cl = append(cl, "genesis-roundtrip")
		if _, err := ParseCustodianUpdateNodesExtra(gx, false); err == nil {
			t.Fatalf("entries with destroyed signatures parsed with genesis=false")
		}
		// a permutation that is not the sorted order is refused
		perm := rapid.Permutation(cs.entries()).Draw(t, "perm")
		sortedAlready := true
		for i := range perm {
			if !bytes.Equal(perm[i], cs.Nodes[i].Extra) {
				sortedAlready = false
			}
		}
		if !sortedAlready {
			px := vpC34Extra(cs.NewAddr, perm, &cs.PrevAddr.PrivateSpendKey)
			for _, g := range []bool{false, true} {
				if cur, err := ParseCustodianUpdateNodesExtra(px, g); err == nil {
					t.Fatalf("unsorted entries parsed (genesis=%v): %d nodes", g, len(cur.Nodes))
				}
			}
			cl = append(cl, "permutation-refused")
		}
		c.Case(vpC34FP(extra), true, cl...)
	})
}
