//go:build verif

package common

import (
	"bytes"
	"fmt"
	"math/big"
	"testing"

	"github.com/MixinNetwork/mixin/crypto"
	"pgregory.net/rapid"
	kit "verifkit"
)

// ---------------------------------------------------------------------------
// C06 part 2: payload sensitivity of the hash, injectivity of the payload
// encoding, byte-level mutations, arbitrary bytes, native fuzz target.
// ---------------------------------------------------------------------------

func vpC06PayloadOf(t vpC06TB, tx *SignedTransaction) ([]byte, crypto.Hash) {
	var pm []byte
	var h crypto.Hash
	if p := vpCatch(func() {
		ver := vpC06Clone(tx).AsVersioned()
		pm = ver.PayloadMarshal()
		h = ver.PayloadHash()
	}); p != nil {
		t.Fatalf("payload encoding panicked: %v\n%s", p, vpC06Trunc(vpC06View(tx)))
	}
	return pm, h
}

func vpC06FlipHash(t *rapid.T, h *crypto.Hash, label string) {
	h[rapid.IntRange(0, 31).Draw(t, label+"_byte")] ^= byte(1) << uint(rapid.IntRange(0, 7).Draw(t, label+"_bit"))
}

func vpC06FlipKey(t *rapid.T, k *crypto.Key, label string) {
	k[rapid.IntRange(0, 31).Draw(t, label+"_byte")] ^= byte(1) << uint(rapid.IntRange(0, 7).Draw(t, label+"_bit"))
}

// vpC06EditBytes changes a byte string: flip a bit, append, drop, or (when
// empty) create one byte.
func vpC06EditBytes(t *rapid.T, b []byte, label string) []byte {
	out := append([]byte{}, b...)
	if len(out) == 0 {
		return []byte{rapid.Byte().Draw(t, label+"_new")}
	}
	op := rapid.IntRange(0, 3).Draw(t, label+"_op")
	if op == 0 && len(out) >= 65535 {
		op = 1
	}
	switch op {
	case 0:
		return append(out, rapid.Byte().Draw(t, label+"_app"))
	case 1:
		return out[:len(out)-1]
	case 2:
		return out[1:]
	default:
		out[rapid.IntRange(0, len(out)-1).Draw(t, label+"_at")] ^= byte(1) << uint(rapid.IntRange(0, 7).Draw(t, label+"_bit"))
		return out
	}
}

func vpC06EditInt(t *rapid.T, x Integer, label string) Integer {
	var v Integer
	if x.i.BitLen() > 8*60000 { // stay inside the 16-bit length field
		v.i.Rsh(&x.i, 8)
		return v
	}
	switch rapid.IntRange(0, 2).Draw(t, label+"_op") {
	case 0:
		v.i.Add(&x.i, vpC06BigOrOne(vpIntegerFromBig(vpGenBig(t, label+"_d"))))
	case 1:
		v.i.Lsh(&x.i, 8)
		if v.i.Sign() == 0 {
			v.i.SetInt64(256)
		}
	default:
		v.i.Xor(&x.i, vpC06BigOrOne(vpIntegerFromBig(vpGenBig(t, label+"_x"))))
	}
	return v
}

var vpC06PayloadEdits = []string{"version", "asset", "input-add", "input-remove", "input-swap", "input-hash", "input-index", "genesis",
	"deposit-toggle", "deposit-chain", "deposit-assetkey", "deposit-transaction", "deposit-index", "deposit-amount",
	"mint-toggle", "mint-group", "mint-batch", "mint-amount",
	"output-add", "output-remove", "output-swap", "output-type", "output-amount", "key-change", "key-add", "key-remove", "key-swap",
	"mask", "script", "withdrawal-toggle", "withdrawal-address", "withdrawal-tag",
	"ref-add", "ref-remove", "ref-change", "ref-swap", "extra"}

var vpC06AuthEdits = []string{"sigmap-add", "sigmap-remove", "sig-byte", "sig-index", "sig-entry-add", "agg-toggle", "agg-bytes", "agg-signers", "auth-clear"}

// vpC06Edit enriches base so that the edit applies, then returns an edited deep
// copy. base itself is modified only by the enrichment.
func vpC06Edit(t *rapid.T, base *SignedTransaction, edit string) *SignedTransaction {
	pickIn := func() int {
		if len(base.Inputs) == 0 {
			base.Inputs = append(base.Inputs, vpC06Input(t, "enrich_in", false))
		}
		return rapid.IntRange(0, len(base.Inputs)-1).Draw(t, "in_i")
	}
	pickOut := func() int {
		if len(base.Outputs) == 0 {
			base.Outputs = append(base.Outputs, vpC06Output(t, "enrich_out", false))
		}
		return rapid.IntRange(0, len(base.Outputs)-1).Draw(t, "out_i")
	}
	needDeposit := func(i int) {
		if base.Inputs[i].Deposit == nil {
			base.Inputs[i].Deposit = &DepositData{Chain: vpC06Hash(t, "e_chain"), AssetKey: "ak", Transaction: "tx", Index: 1, Amount: NewInteger(5)}
		}
	}
	needMint := func(i int) {
		if base.Inputs[i].Mint == nil {
			base.Inputs[i].Mint = &MintData{Group: "UNIVERSAL", Batch: 3, Amount: NewInteger(7)}
		}
	}
	needKeys := func(i, n int) {
		for len(base.Outputs[i].Keys) < n {
			base.Outputs[i].Keys = append(base.Outputs[i].Keys, vpC06Key(t, fmt.Sprintf("e_key%d", len(base.Outputs[i].Keys))))
		}
	}
	needWd := func(i int) {
		if base.Outputs[i].Withdrawal == nil {
			base.Outputs[i].Withdrawal = &WithdrawalData{Address: "addr", Tag: "tag"}
		}
	}
	var i, j int
	switch edit { // enrichment phase
	case "input-remove", "input-hash", "input-index", "genesis", "deposit-toggle", "mint-toggle":
		i = pickIn()
	case "deposit-chain", "deposit-assetkey", "deposit-transaction", "deposit-index", "deposit-amount":
		i = pickIn()
		needDeposit(i)
	case "mint-group", "mint-batch", "mint-amount":
		i = pickIn()
		needMint(i)
	case "input-swap":
		for len(base.Inputs) < 2 {
			base.Inputs = append(base.Inputs, vpC06Input(t, fmt.Sprintf("e_in%d", len(base.Inputs)), false))
		}
		i = rapid.IntRange(0, len(base.Inputs)-2).Draw(t, "swap_i")
		j = rapid.IntRange(i+1, len(base.Inputs)-1).Draw(t, "swap_j")
		if vpC06PayloadView(&Transaction{Inputs: []*Input{base.Inputs[i]}}) == vpC06PayloadView(&Transaction{Inputs: []*Input{base.Inputs[j]}}) {
			base.Inputs[j].Hash[0] ^= 1
		}
	case "output-remove", "output-type", "output-amount", "key-add", "mask", "script", "withdrawal-toggle":
		i = pickOut()
	case "key-change", "key-remove":
		i = pickOut()
		needKeys(i, 1)
	case "key-swap":
		i = pickOut()
		needKeys(i, 2)
		if *base.Outputs[i].Keys[0] == *base.Outputs[i].Keys[1] {
			base.Outputs[i].Keys[1][0] ^= 1
		}
	case "withdrawal-address", "withdrawal-tag":
		i = pickOut()
		needWd(i)
	case "output-swap":
		for len(base.Outputs) < 2 {
			base.Outputs = append(base.Outputs, vpC06Output(t, fmt.Sprintf("e_out%d", len(base.Outputs)), false))
		}
		i = rapid.IntRange(0, len(base.Outputs)-2).Draw(t, "swap_i")
		j = rapid.IntRange(i+1, len(base.Outputs)-1).Draw(t, "swap_j")
		if vpC06PayloadView(&Transaction{Outputs: []*Output{base.Outputs[i]}}) == vpC06PayloadView(&Transaction{Outputs: []*Output{base.Outputs[j]}}) {
			base.Outputs[j].Mask[0] ^= 1
		}
	case "ref-remove", "ref-change":
		if len(base.References) == 0 {
			base.References = append(base.References, vpC06Hash(t, "e_ref"))
		}
		i = rapid.IntRange(0, len(base.References)-1).Draw(t, "ref_i")
	case "ref-swap":
		for len(base.References) < 2 {
			base.References = append(base.References, vpC06Hash(t, fmt.Sprintf("e_ref%d", len(base.References))))
		}
		if base.References[0] == base.References[1] {
			base.References[1][0] ^= 1
		}
	case "input-add":
		if len(base.Inputs) >= SliceCountLimit {
			base.Inputs = base.Inputs[:SliceCountLimit-1]
		}
	case "output-add":
		if len(base.Outputs) >= SliceCountLimit {
			base.Outputs = base.Outputs[:SliceCountLimit-1]
		}
	case "ref-add":
		if len(base.References) >= SliceCountLimit {
			base.References = base.References[:SliceCountLimit-1]
		}
	case "sigmap-remove", "sig-byte", "sig-index", "sig-entry-add":
		base.AggregatedSignature = nil
		if len(base.SignaturesMap) == 0 || len(base.SignaturesMap[0]) == 0 {
			base.SignaturesMap = []map[uint16]*crypto.Signature{{3: vpC06Sig(t, "e_sig")}}
		}
		if len(base.SignaturesMap) >= SliceCountLimit {
			base.SignaturesMap = base.SignaturesMap[:8]
		}
	case "sigmap-add":
		base.AggregatedSignature = nil
		if len(base.SignaturesMap) >= SliceCountLimit {
			base.SignaturesMap = base.SignaturesMap[:8]
		}
	case "agg-bytes", "agg-signers":
		if base.AggregatedSignature == nil {
			base.SignaturesMap = nil
			base.AggregatedSignature = &AggregatedSignature{Signers: []int{0, 2}, Signature: *vpC06Sig(t, "e_agg")}
		}
	}
	if edit == "key-add" && len(base.Outputs[i].Keys) >= SliceCountLimit {
		base.Outputs[i].Keys = base.Outputs[i].Keys[:SliceCountLimit-1]
	}

	e := vpC06Clone(base)
	switch edit { // edit phase
	case "asset":
		vpC06FlipHash(t, &e.Asset, "asset")
	case "input-add":
		at := rapid.IntRange(0, len(e.Inputs)).Draw(t, "add_at")
		e.Inputs = append(e.Inputs[:at], append([]*Input{vpC06Input(t, "new_in", false)}, e.Inputs[at:]...)...)
	case "input-remove":
		e.Inputs = append(e.Inputs[:i], e.Inputs[i+1:]...)
	case "input-swap":
		e.Inputs[i], e.Inputs[j] = e.Inputs[j], e.Inputs[i]
	case "input-hash":
		vpC06FlipHash(t, &e.Inputs[i].Hash, "in_hash")
	case "input-index":
		old := e.Inputs[i].Index
		e.Inputs[i].Index = uint(rapid.IntRange(0, InputIndexLimit-1).Draw(t, "new_index"))
		if e.Inputs[i].Index >= old {
			e.Inputs[i].Index++
		}
	case "genesis":
		e.Inputs[i].Genesis = vpC06EditBytes(t, e.Inputs[i].Genesis, "genesis")
	case "deposit-toggle":
		if e.Inputs[i].Deposit == nil {
			e.Inputs[i].Deposit = &DepositData{} // the emptiest possible deposit still differs from none
			if rapid.Bool().Draw(t, "rich_deposit") {
				e.Inputs[i].Deposit = &DepositData{AssetKey: "a", Amount: NewInteger(1)}
			}
		} else {
			e.Inputs[i].Deposit = nil
		}
	case "deposit-chain":
		vpC06FlipHash(t, &e.Inputs[i].Deposit.Chain, "chain")
	case "deposit-assetkey":
		e.Inputs[i].Deposit.AssetKey = string(vpC06EditBytes(t, []byte(e.Inputs[i].Deposit.AssetKey), "ak"))
	case "deposit-transaction":
		e.Inputs[i].Deposit.Transaction = string(vpC06EditBytes(t, []byte(e.Inputs[i].Deposit.Transaction), "dtx"))
	case "deposit-index":
		e.Inputs[i].Deposit.Index ^= uint64(1) << uint(rapid.IntRange(0, 63).Draw(t, "didx_bit"))
	case "deposit-amount":
		e.Inputs[i].Deposit.Amount = vpC06EditInt(t, e.Inputs[i].Deposit.Amount, "damt")
	case "mint-toggle":
		if e.Inputs[i].Mint == nil {
			e.Inputs[i].Mint = &MintData{}
		} else {
			e.Inputs[i].Mint = nil
		}
	case "mint-group":
		e.Inputs[i].Mint.Group = string(vpC06EditBytes(t, []byte(e.Inputs[i].Mint.Group), "grp"))
	case "mint-batch":
		e.Inputs[i].Mint.Batch ^= uint64(1) << uint(rapid.IntRange(0, 63).Draw(t, "batch_bit"))
	case "mint-amount":
		e.Inputs[i].Mint.Amount = vpC06EditInt(t, e.Inputs[i].Mint.Amount, "mamt")
	case "output-add":
		at := rapid.IntRange(0, len(e.Outputs)).Draw(t, "add_at")
		e.Outputs = append(e.Outputs[:at], append([]*Output{vpC06Output(t, "new_out", false)}, e.Outputs[at:]...)...)
	case "output-remove":
		e.Outputs = append(e.Outputs[:i], e.Outputs[i+1:]...)
	case "output-swap":
		e.Outputs[i], e.Outputs[j] = e.Outputs[j], e.Outputs[i]
	case "output-type":
		e.Outputs[i].Type ^= byte(1) << uint(rapid.IntRange(0, 7).Draw(t, "type_bit"))
	case "output-amount":
		e.Outputs[i].Amount = vpC06EditInt(t, e.Outputs[i].Amount, "oamt")
	case "key-change":
		vpC06FlipKey(t, e.Outputs[i].Keys[rapid.IntRange(0, len(e.Outputs[i].Keys)-1).Draw(t, "key_i")], "key")
	case "key-add":
		e.Outputs[i].Keys = append(e.Outputs[i].Keys, vpC06Key(t, "new_key"))
	case "key-remove":
		k := rapid.IntRange(0, len(e.Outputs[i].Keys)-1).Draw(t, "key_rm")
		e.Outputs[i].Keys = append(e.Outputs[i].Keys[:k], e.Outputs[i].Keys[k+1:]...)
	case "key-swap":
		e.Outputs[i].Keys[0], e.Outputs[i].Keys[1] = e.Outputs[i].Keys[1], e.Outputs[i].Keys[0]
	case "mask":
		vpC06FlipKey(t, &e.Outputs[i].Mask, "mask")
	case "script":
		e.Outputs[i].Script = Script(vpC06EditBytes(t, e.Outputs[i].Script, "script"))
	case "withdrawal-toggle":
		if e.Outputs[i].Withdrawal == nil {
			e.Outputs[i].Withdrawal = &WithdrawalData{}
		} else {
			e.Outputs[i].Withdrawal = nil
		}
	case "withdrawal-address":
		e.Outputs[i].Withdrawal.Address = string(vpC06EditBytes(t, []byte(e.Outputs[i].Withdrawal.Address), "addr"))
	case "withdrawal-tag":
		e.Outputs[i].Withdrawal.Tag = string(vpC06EditBytes(t, []byte(e.Outputs[i].Withdrawal.Tag), "tag"))
	case "ref-add":
		at := rapid.IntRange(0, len(e.References)).Draw(t, "add_at")
		e.References = append(e.References[:at], append([]crypto.Hash{vpC06Hash(t, "new_ref")}, e.References[at:]...)...)
	case "ref-remove":
		e.References = append(e.References[:i], e.References[i+1:]...)
	case "ref-change":
		vpC06FlipHash(t, &e.References[i], "ref")
	case "ref-swap":
		e.References[0], e.References[1] = e.References[1], e.References[0]
	case "extra":
		e.Extra = vpC06EditBytes(t, e.Extra, "extra")
	// authorization edits
	case "sigmap-add":
		e.SignaturesMap = append(e.SignaturesMap, map[uint16]*crypto.Signature{vpC06SigIndex(t, "new_idx"): vpC06Sig(t, "new_sig")})
	case "sigmap-remove":
		e.SignaturesMap = e.SignaturesMap[1:]
	case "sig-byte":
		for _, s := range e.SignaturesMap[0] {
			s[rapid.IntRange(0, 63).Draw(t, "sig_at")] ^= byte(rapid.IntRange(1, 255).Draw(t, "sig_x"))
			break
		}
	case "sig-index":
		for k, s := range e.SignaturesMap[0] {
			delete(e.SignaturesMap[0], k)
			nk := k + 1
			for e.SignaturesMap[0][nk] != nil {
				nk++
			}
			e.SignaturesMap[0][nk] = s
			break
		}
	case "sig-entry-add":
		nk := vpC06SigIndex(t, "add_idx")
		for e.SignaturesMap[0][nk] != nil {
			nk++
		}
		e.SignaturesMap[0][nk] = vpC06Sig(t, "add_sig")
	case "agg-toggle":
		if e.AggregatedSignature != nil {
			e.AggregatedSignature = nil
		} else {
			e.SignaturesMap = nil
			e.AggregatedSignature = &AggregatedSignature{Signers: []int{1, 900}, Signature: *vpC06Sig(t, "tog_agg")}
		}
	case "agg-bytes":
		e.AggregatedSignature.Signature[rapid.IntRange(0, 63).Draw(t, "agg_at")] ^= byte(rapid.IntRange(1, 255).Draw(t, "agg_x"))
	case "agg-signers":
		s, _ := vpC06Signers(t)
		e.AggregatedSignature.Signers = s
	case "auth-clear":
		e.AggregatedSignature, e.SignaturesMap = nil, nil
	}
	return e
}

var vpC06BigOne = big.NewInt(1)

func vpC06BigOrOne(x Integer) *big.Int {
	if x.i.Sign() == 0 {
		return vpC06BigOne
	}
	return new(big.Int).Set(&x.i)
}

func TestVP_C06_payload_hash(t *testing.T) {
	c := kit.New(t, "C06", "rapid: a generated transaction and one edited copy; a payload edit (version, asset, any input/deposit/mint field, any output/key/mask/script/withdrawal field, references, extra, element added/removed/swapped) must change PayloadMarshal and PayloadHash; an authorization edit (signature maps, aggregate signature and signer set) must change neither but must change Marshal; non-trivial = every edit; distinct by (payload hash, edit)")
	c.Require(vpC06PayloadEdits...)
	c.Require(vpC06AuthEdits...)
	kit.SetChecks(kit.N(4000, 150000))
	all := append(append([]string{}, vpC06PayloadEdits...), vpC06AuthEdits...)
	isAuth := map[string]bool{}
	for _, a := range vpC06AuthEdits {
		isAuth[a] = true
	}
	rapid.Check(t, func(t *rapid.T) {
		base, _ := vpC06GenTx(t)
		if len(base.Extra) > 4096 {
			base.Extra = base.Extra[:4096]
		}
		edit := rapid.SampledFrom(all).Draw(t, "edit")
		if edit == "version" {
			// only one version can go through PayloadHash; the version byte is observed on
			// the encoder that payloadMarshal uses
			pm0, h0 := vpC06PayloadOf(t, base)
			other := vpC06Clone(base)
			other.Version = TxVersionHashSignature + byte(rapid.IntRange(1, 200).Draw(t, "dv"))
			other.AggregatedSignature, other.SignaturesMap = nil, nil
			var pm1 []byte
			if p := vpCatch(func() { pm1 = NewEncoder().EncodeTransaction(other) }); p != nil {
				c.Case(vpC06FP(h0[:])+edit, true, edit, "version-unencodable")
				return
			}
			if bytes.Equal(pm0, pm1) {
				t.Fatalf("payload encoding does not depend on the version")
			}
			c.Case(vpC06FP(h0[:])+edit, true, edit)
			return
		}
		ed := vpC06Edit(t, base, edit)
		pm0, h0 := vpC06PayloadOf(t, base)
		pm1, h1 := vpC06PayloadOf(t, ed)
		pvEq := vpC06PayloadView(&base.Transaction) == vpC06PayloadView(&ed.Transaction)
		if isAuth[edit] {
			if !pvEq {
				t.Fatalf("harness: authorization edit %s changed the payload view", edit)
			}
			if !bytes.Equal(pm0, pm1) || h0 != h1 {
				t.Fatalf("authorization edit %q changed the payload encoding or hash", edit)
			}
			if vpC06AuthView(base) != vpC06AuthView(ed) {
				b0, b1 := vpC06RoundTrip(t, base), vpC06RoundTrip(t, ed)
				if bytes.Equal(b0, b1) {
					t.Fatalf("authorization edit %q did not change the signed encoding", edit)
				}
			}
		} else {
			if pvEq {
				t.Fatalf("harness: payload edit %s left the payload view unchanged", edit)
			}
			if bytes.Equal(pm0, pm1) {
				t.Fatalf("payload edit %q did not change the payload encoding", edit)
			}
			if h0 == h1 {
				t.Fatalf("payload edit %q did not change the payload hash", edit)
			}
			vpC06RoundTrip(t, ed)
		}
		c.Case(vpC06FP(h0[:])+edit, true, edit)
	})
}

// vpC06Twin moves bytes between adjacent variable-length fields (or between a
// list and the field that follows it) so that the concatenation of the raw
// field contents stays the same while the structure differs.
var vpC06Twins = []string{"assetkey|transaction", "address|tag", "genesis|deposit", "keys|mask", "refs|extra", "script|withdrawal",
	"extra|signature", "input|output", "group-split", "amount|keys"}

func vpC06Twin(t *rapid.T, base *SignedTransaction, kind string) *SignedTransaction {
	in0 := func() *Input {
		if len(base.Inputs) == 0 {
			base.Inputs = append(base.Inputs, vpC06Input(t, "tw_in", false))
		}
		return base.Inputs[len(base.Inputs)-1]
	}
	out0 := func() *Output {
		if len(base.Outputs) == 0 {
			base.Outputs = append(base.Outputs, vpC06Output(t, "tw_out", false))
		}
		return base.Outputs[len(base.Outputs)-1]
	}
	switch kind {
	case "assetkey|transaction":
		in := in0()
		if in.Deposit == nil {
			in.Deposit = &DepositData{}
		}
		if len(in.Deposit.AssetKey)+len(in.Deposit.Transaction) == 0 {
			in.Deposit.AssetKey = string(rapid.SliceOfN(rapid.Byte(), 1, 6).Draw(t, "tw_ak"))
		}
		if len(in.Deposit.AssetKey) > 60000 || len(in.Deposit.Transaction) > 60000 {
			in.Deposit.AssetKey, in.Deposit.Transaction = "abc", "de"
		}
	case "address|tag":
		o := out0()
		if o.Withdrawal == nil {
			o.Withdrawal = &WithdrawalData{}
		}
		if len(o.Withdrawal.Address)+len(o.Withdrawal.Tag) == 0 {
			o.Withdrawal.Tag = string(rapid.SliceOfN(rapid.Byte(), 1, 6).Draw(t, "tw_tag"))
		}
		if len(o.Withdrawal.Address) > 60000 || len(o.Withdrawal.Tag) > 60000 {
			o.Withdrawal.Address, o.Withdrawal.Tag = "abc", "de"
		}
	case "genesis|deposit":
		in := in0()
		in.Deposit = nil
		in.Mint = nil
		if len(in.Genesis) < 4 || len(in.Genesis) > 60000 {
			in.Genesis = rapid.SliceOfN(rapid.Byte(), 4, 12).Draw(t, "tw_gen")
		}
	case "keys|mask":
		o := out0()
		for len(o.Keys) < 1 {
			o.Keys = append(o.Keys, vpC06Key(t, "tw_key"))
		}
	case "refs|extra":
		if len(base.References) == 0 {
			base.References = append(base.References, vpC06Hash(t, "tw_ref"))
		}
		if len(base.Extra) > 4096 {
			base.Extra = base.Extra[:4096]
		}
	case "script|withdrawal":
		o := out0()
		o.Withdrawal = nil
		if len(o.Script) < 4 || len(o.Script) > 60000 {
			o.Script = Script(rapid.SliceOfN(rapid.Byte(), 4, 12).Draw(t, "tw_script"))
		}
	case "extra|signature":
		base.AggregatedSignature = nil
		base.SignaturesMap = nil
		if len(base.Extra) < 2 || len(base.Extra) > 4096 {
			base.Extra = rapid.SliceOfN(rapid.Byte(), 2, 70).Draw(t, "tw_extra")
		}
	case "input|output":
		in0()
	case "group-split":
		in := in0()
		if in.Mint == nil {
			in.Mint = &MintData{Batch: 1, Amount: NewInteger(1)}
		}
		if len(in.Mint.Group) < 1 || len(in.Mint.Group) > 60000 {
			in.Mint.Group = "UNIVERSAL"
		}
	case "amount|keys":
		o := out0()
		if o.Amount.i.BitLen() < 16 || o.Amount.i.BitLen() > 8*60000 {
			o.Amount = NewInteger(uint64(rapid.IntRange(1, 1<<30).Draw(t, "tw_amt")))
		}
	}
	e := vpC06Clone(base)
	last := func() *Input { return e.Inputs[len(e.Inputs)-1] }
	lastOut := func() *Output { return e.Outputs[len(e.Outputs)-1] }
	switch kind {
	case "assetkey|transaction":
		d := last().Deposit
		all := d.AssetKey + d.Transaction
		cut := rapid.IntRange(0, len(all)-1).Draw(t, "cut")
		if cut >= len(d.AssetKey) {
			cut++
		}
		d.AssetKey, d.Transaction = all[:cut], all[cut:]
	case "address|tag":
		w := lastOut().Withdrawal
		all := w.Address + w.Tag
		cut := rapid.IntRange(0, len(all)-1).Draw(t, "cut")
		if cut >= len(w.Address) {
			cut++
		}
		w.Address, w.Tag = all[:cut], all[cut:]
	case "genesis|deposit":
		// the last two genesis bytes become the deposit marker position: genesis shortened,
		// and the bytes that followed are re-read differently
		in := last()
		g := in.Genesis
		in.Genesis = g[:len(g)-2]
		if g[len(g)-2] == 0x77 && g[len(g)-1] == 0x77 {
			in.Deposit = &DepositData{}
		} else {
			in.Mint = &MintData{Group: string(g[len(g)-2:])}
		}
	case "keys|mask":
		o := lastOut()
		k := *o.Keys[len(o.Keys)-1]
		o.Keys = o.Keys[:len(o.Keys)-1]
		old := o.Mask
		o.Mask = k
		o.Script = Script(append(append([]byte{}, old[:]...), o.Script...))
		if len(o.Script) > 65535 {
			o.Script = o.Script[:65535]
		}
	case "refs|extra":
		r := e.References[len(e.References)-1]
		e.References = e.References[:len(e.References)-1]
		e.Extra = append(append([]byte{}, r[:]...), e.Extra...)
	case "script|withdrawal":
		o := lastOut()
		s := o.Script
		o.Script = s[:len(s)-2]
		o.Withdrawal = &WithdrawalData{Address: string(s[len(s)-2:])}
	case "extra|signature":
		// the tail of extra re-read as a signature-map count is not a payload matter, but
		// the payload encodings of the two must still differ
		e.Extra = e.Extra[:len(e.Extra)-2]
	case "input|output":
		in := last()
		e.Inputs = e.Inputs[:len(e.Inputs)-1]
		o := &Output{Type: byte(in.Index), Mask: crypto.Key(in.Hash), Script: Script(in.Genesis)}
		e.Outputs = append([]*Output{o}, e.Outputs...)
		if len(e.Outputs) > SliceCountLimit {
			e.Outputs = e.Outputs[:SliceCountLimit]
		}
	case "group-split":
		m := last().Mint
		g := m.Group
		if len(last().Genesis) < 60000 {
			last().Genesis = append(append([]byte{}, last().Genesis...), g[0])
			m.Group = g[1:]
		} else {
			m.Group = g[1:]
		}
	case "amount|keys":
		o := lastOut()
		b := o.Amount.i.Bytes()
		var v Integer
		v.i.SetBytes(b[:len(b)-1])
		o.Amount = v
	}
	return e
}

func TestVP_C06_injectivity(t *testing.T) {
	c := kit.New(t, "C06", "rapid: (a) near-twin pairs that keep the concatenated field contents but move bytes across a field boundary (asset key|transaction, address|tag, genesis|deposit marker, last key|mask, last reference|extra, script|withdrawal, extra tail, last input|first output, genesis|group, amount tail); (b) all pairs among 8 transactions drawn from a tiny alphabet; payload encodings are equal exactly when the payload structures are equal; non-trivial = every pair with different structures; distinct by pair hash")
	c.Require(vpC06Twins...)
	c.Require("tiny-pair-equal", "tiny-pair-different")
	kit.SetChecks(kit.N(2500, 80000))
	rapid.Check(t, func(t *rapid.T) {
		if rapid.IntRange(0, 2).Draw(t, "family") == 0 {
			txs := make([]*SignedTransaction, 8)
			views := make([]string, 8)
			pms := make([][]byte, 8)
			for i := range txs {
				txs[i] = vpC06GenTiny(t, fmt.Sprintf("t%d", i))
				if i >= 4 { // a structural copy (nil and empty exchanged) or a one-byte neighbour of an earlier one
					switch rapid.IntRange(0, 2).Draw(t, fmt.Sprintf("t%d_rel", i)) {
					case 0:
						txs[i] = vpC06Clone(txs[i-4])
						vpC06SwapNilEmpty(txs[i])
					case 1:
						txs[i] = vpC06Clone(txs[i-4])
						txs[i].Extra = append(txs[i].Extra, 0)
					}
				}
				views[i] = vpC06PayloadView(&txs[i].Transaction)
				pms[i], _ = vpC06PayloadOf(t, txs[i])
			}
			for i := 0; i < 8; i++ {
				for j := i + 1; j < 8; j++ {
					ve, pe := views[i] == views[j], bytes.Equal(pms[i], pms[j])
					if ve != pe {
						t.Fatalf("payload structures equal=%v but payload encodings equal=%v\nA %s\nB %s", ve, pe, views[i], views[j])
					}
					if ve {
						c.Case("tiny-eq", false, "tiny-pair-equal")
					} else {
						c.Case(vpC06FP(append(append([]byte{}, pms[i]...), pms[j]...)), true, "tiny-pair-different")
					}
				}
			}
			return
		}
		base, _ := vpC06GenTx(t)
		kind := rapid.SampledFrom(vpC06Twins).Draw(t, "twin")
		tw := vpC06Twin(t, base, kind)
		va, vb := vpC06PayloadView(&base.Transaction), vpC06PayloadView(&tw.Transaction)
		if va == vb {
			t.Fatalf("harness: twin %s is structurally equal", kind)
		}
		pa, ha := vpC06PayloadOf(t, base)
		pb, hb := vpC06PayloadOf(t, tw)
		if bytes.Equal(pa, pb) {
			t.Fatalf("two different payloads share one payload encoding (twin %s)\nA %s\nB %s", kind, vpC06Trunc(va), vpC06Trunc(vb))
		}
		if ha == hb {
			t.Fatalf("two different payloads share one hash (twin %s)", kind)
		}
		c.Case(vpC06FP(append(pa, pb...)), true, kind)
	})
}

// vpC06GenTiny draws from an alphabet so small that equal pairs are common.
func vpC06GenTiny(t *rapid.T, label string) *SignedTransaction {
	hs := []crypto.Hash{{}, {1}}
	bs := [][]byte{nil, {0}, {0, 0}, {0x77, 0x77}}
	ss := []string{"", "a", "ab", "b"}
	amts := []Integer{Zero, vpIntegerFromBig(vpC06BigOne), NewInteger(1)}
	pick := func(n int, l string) int { return rapid.IntRange(0, n-1).Draw(t, label+l) }
	tx := &SignedTransaction{}
	tx.Version = TxVersionHashSignature
	tx.Asset = hs[pick(2, "asset")]
	for i := pick(3, "nin"); i > 0; i-- {
		in := &Input{Hash: hs[pick(2, "ih")], Index: uint(pick(2, "ii")), Genesis: bs[pick(4, "ig")]}
		if pick(3, "hd") == 0 {
			in.Deposit = &DepositData{Chain: hs[pick(2, "dc")], AssetKey: ss[pick(4, "dak")], Transaction: ss[pick(4, "dtx")], Index: uint64(pick(2, "di")), Amount: amts[pick(3, "da")]}
		}
		if pick(3, "hm") == 0 {
			in.Mint = &MintData{Group: ss[pick(4, "mg")], Batch: uint64(pick(2, "mb")), Amount: amts[pick(3, "ma")]}
		}
		tx.Inputs = append(tx.Inputs, in)
	}
	for i := pick(3, "nout"); i > 0; i-- {
		o := &Output{Type: []byte{0, 0xa1}[pick(2, "ot")], Amount: amts[pick(3, "oa")], Mask: crypto.Key(hs[pick(2, "om")]), Script: Script(bs[pick(4, "os")])}
		for k := pick(3, "onk"); k > 0; k-- {
			kk := crypto.Key(hs[pick(2, "ok")])
			o.Keys = append(o.Keys, &kk)
		}
		if pick(3, "hw") == 0 {
			o.Withdrawal = &WithdrawalData{Address: ss[pick(4, "wa")], Tag: ss[pick(4, "wt")]}
		}
		tx.Outputs = append(tx.Outputs, o)
	}
	for i := pick(3, "nref"); i > 0; i-- {
		tx.References = append(tx.References, hs[pick(2, "r")])
	}
	tx.Extra = bs[pick(4, "extra")]
	return tx
}

// vpC06SwapNilEmpty exchanges nil and empty slices everywhere (same structure).
func vpC06SwapNilEmpty(tx *SignedTransaction) {
	sw := func(b []byte) []byte {
		if b == nil {
			return []byte{}
		}
		if len(b) == 0 {
			return nil
		}
		return b
	}
	tx.Extra = sw(tx.Extra)
	if tx.References == nil {
		tx.References = []crypto.Hash{}
	} else if len(tx.References) == 0 {
		tx.References = nil
	}
	if tx.Inputs == nil {
		tx.Inputs = []*Input{}
	} else if len(tx.Inputs) == 0 {
		tx.Inputs = nil
	}
	if tx.Outputs == nil {
		tx.Outputs = []*Output{}
	} else if len(tx.Outputs) == 0 {
		tx.Outputs = nil
	}
	for _, in := range tx.Inputs {
		in.Genesis = sw(in.Genesis)
	}
	for _, o := range tx.Outputs {
		o.Script = Script(sw(o.Script))
		if o.Keys == nil {
			o.Keys = []*crypto.Key{}
		} else if len(o.Keys) == 0 {
			o.Keys = nil
		}
	}
}

// The encoding and the hash are functions of the transaction's content, not of
// what was called on the object before: every accessor result on an object with
// a call history must equal the result on a fresh copy that has no history, and
// byte slices handed out earlier must not change under later calls (the
// payload encoding is cached inside the object; signatures may be attached or
// replaced between calls, as the signing helpers do).
func TestVP_C06_call_sequences(t *testing.T) {
	c := kit.New(t, "C06", "rapid: one transaction object per case (tiny or full generator) on which a drawn sequence of 3..12 calls is made: PayloadMarshal, PayloadHash, Marshal, signature section replaced (maps -> other maps / aggregate / none) between calls; oracle: each result equals the result of the same accessor on a fresh deep copy of the current content, results handed out earlier are still byte-identical afterwards, the payload encoding/hash never change when only signatures change; non-trivial = sequence with a Marshal between two payload accessors and a signature change; distinct by payload hash + call list")
	c.Require("marshal-between-payload-calls", "signature-change", "first-call-payload", "first-call-marshal", "first-call-hash")
	kit.SetChecks(kit.N(600, 40000))
	rapid.Check(t, func(t *rapid.T) {
		var tx *SignedTransaction
		if rapid.Bool().Draw(t, "tiny") {
			tx = vpC06GenTiny(t, "cs")
		} else {
			tx, _ = vpC06GenTx(t)
			if len(tx.Extra) > 20000 {
				tx.Extra = tx.Extra[:20000]
			}
		}
		ver := &VersionedTransaction{SignedTransaction: *vpC06Clone(tx)}
		fresh := func() *VersionedTransaction {
			return &VersionedTransaction{SignedTransaction: *vpC06Clone(&ver.SignedTransaction)}
		}
		type handed struct {
			what string
			got  []byte
			want []byte
		}
		var out []handed
		var calls []string
		var payload0 []byte
		n := rapid.IntRange(3, 12).Draw(t, "ncalls")
		sawPayload, marshalAfterPayload, sigChange := false, false, false
		for i := 0; i < n; i++ {
			op := rapid.SampledFrom([]string{"payload", "hash", "marshal", "marshal", "resign"}).Draw(t, "call")
			if i == 0 {
				c.Class("first-call-" + op)
			}
			calls = append(calls, op)
			switch op {
			case "payload":
				var got, want []byte
				if p := vpCatch(func() { got = ver.PayloadMarshal(); want = fresh().PayloadMarshal() }); p != nil {
					t.Skip("not encodable")
				}
				if !bytes.Equal(got, want) {
					t.Fatalf("PayloadMarshal after %v differs from a fresh object's:\n got  …%x\n want …%x", calls, got[max(0, len(got)-12):], want[max(0, len(want)-12):])
				}
				if payload0 == nil {
					payload0 = append([]byte{}, got...)
				} else if !bytes.Equal(payload0, got) {
					t.Fatalf("payload encoding changed although only signatures changed (calls %v)", calls)
				}
				out = append(out, handed{"PayloadMarshal", got, append([]byte{}, got...)})
				if marshalAfterPayload {
					c.Class("marshal-between-payload-calls")
				}
				sawPayload = true
			case "hash":
				var got, want crypto.Hash
				if p := vpCatch(func() { got = ver.PayloadHash(); want = fresh().PayloadHash() }); p != nil {
					t.Skip("not encodable")
				}
				if got != want {
					t.Fatalf("PayloadHash after %v is %s, a fresh object with the same content gives %s", calls, got, want)
				}
				if marshalAfterPayload {
					c.Class("marshal-between-payload-calls")
				}
				sawPayload = true
			case "marshal":
				var got, want []byte
				if p := vpCatch(func() { got = ver.Marshal(); want = fresh().Marshal() }); p != nil {
					t.Skip("not encodable")
				}
				if !bytes.Equal(got, want) {
					t.Fatalf("Marshal after %v differs from a fresh object's (%d vs %d bytes)", calls, len(got), len(want))
				}
				out = append(out, handed{"Marshal", got, append([]byte{}, got...)})
				if sawPayload {
					marshalAfterPayload = true
				}
			case "resign":
				switch rapid.IntRange(0, 2).Draw(t, "resign_kind") {
				case 0:
					ver.AggregatedSignature, ver.SignaturesMap = nil, nil
				case 1:
					ver.AggregatedSignature = nil
					ver.SignaturesMap = []map[uint16]*crypto.Signature{{vpC06SigIndex(t, "rs_idx"): vpC06Sig(t, "rs_sig")}}
					if rapid.Bool().Draw(t, "rs_two") {
						ver.SignaturesMap = append(ver.SignaturesMap, map[uint16]*crypto.Signature{})
					}
				default:
					ver.SignaturesMap = nil
					ver.AggregatedSignature = &AggregatedSignature{Signers: []int{0, 3}, Signature: *vpC06Sig(t, "rs_agg")}
				}
				sigChange = true
				c.Class("signature-change")
			}
			for _, h := range out {
				if !bytes.Equal(h.got, h.want) {
					t.Fatalf("bytes returned earlier by %s were overwritten by a later call (calls %v)", h.what, calls)
				}
			}
		}
		fp := ""
		if payload0 != nil {
			fp = vpC06FP(payload0)
		}
		c.Case(fp+fmt.Sprint(calls), marshalAfterPayload && sigChange)
	})
}
