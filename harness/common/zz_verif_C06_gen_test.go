//go:build verif

package common

import (
	"bytes"
	"encoding/binary"
	"encoding/hex"
	"fmt"
	"math/big"
	"sort"

	"github.com/MixinNetwork/mixin/crypto"
	"pgregory.net/rapid"
)

// ---------------------------------------------------------------------------
// C06 helpers: structural view (equality with the decoder's nil/empty
// normalisation), independent reference writer, generators (G-tx-structure).
// ---------------------------------------------------------------------------

type vpC06TB interface {
	Fatalf(format string, args ...any)
}

func vpC06FP(b []byte) string {
	h := crypto.Blake3Hash(b)
	return hex.EncodeToString(h[:8])
}

func vpC06Blob(w *bytes.Buffer, name string, b []byte) {
	if len(b) <= 48 {
		fmt.Fprintf(w, "%s=%d:%x ", name, len(b), b)
		return
	}
	h := crypto.Blake3Hash(b)
	fmt.Fprintf(w, "%s=%d:#%x ", name, len(b), h[:])
}

// vpC06PayloadView renders every payload field; nil and empty are the same.
func vpC06PayloadView(tx *Transaction) string {
	w := &bytes.Buffer{}
	fmt.Fprintf(w, "v=%d asset=%x nin=%d\n", tx.Version, tx.Asset[:], len(tx.Inputs))
	for _, in := range tx.Inputs {
		fmt.Fprintf(w, " in h=%x i=%d ", in.Hash[:], in.Index)
		vpC06Blob(w, "g", in.Genesis)
		if d := in.Deposit; d == nil {
			w.WriteString("dep=nil ")
		} else {
			fmt.Fprintf(w, "dep{c=%x ", d.Chain[:])
			vpC06Blob(w, "ak", []byte(d.AssetKey))
			vpC06Blob(w, "tx", []byte(d.Transaction))
			fmt.Fprintf(w, "i=%d a=%s} ", d.Index, d.Amount.i.Text(16))
		}
		if m := in.Mint; m == nil {
			w.WriteString("mint=nil\n")
		} else {
			w.WriteString("mint{")
			vpC06Blob(w, "g", []byte(m.Group))
			fmt.Fprintf(w, "b=%d a=%s}\n", m.Batch, m.Amount.i.Text(16))
		}
	}
	fmt.Fprintf(w, "nout=%d\n", len(tx.Outputs))
	for _, o := range tx.Outputs {
		fmt.Fprintf(w, " out t=%d a=%s nk=%d ", o.Type, o.Amount.i.Text(16), len(o.Keys))
		if len(o.Keys) > 8 {
			kb := make([]byte, 0, 32*len(o.Keys))
			for _, k := range o.Keys {
				kb = append(kb, k[:]...)
			}
			vpC06Blob(w, "keys", kb)
		} else {
			for _, k := range o.Keys {
				fmt.Fprintf(w, "%x,", k[:])
			}
		}
		fmt.Fprintf(w, " m=%x ", o.Mask[:])
		vpC06Blob(w, "s", o.Script)
		if wd := o.Withdrawal; wd == nil {
			w.WriteString("wd=nil\n")
		} else {
			w.WriteString("wd{")
			vpC06Blob(w, "a", []byte(wd.Address))
			vpC06Blob(w, "t", []byte(wd.Tag))
			w.WriteString("}\n")
		}
	}
	fmt.Fprintf(w, "nref=%d ", len(tx.References))
	if len(tx.References) > 8 {
		rb := make([]byte, 0, 32*len(tx.References))
		for _, r := range tx.References {
			rb = append(rb, r[:]...)
		}
		vpC06Blob(w, "refs", rb)
	} else {
		for _, r := range tx.References {
			fmt.Fprintf(w, "%x,", r[:])
		}
	}
	vpC06Blob(w, "\nextra", tx.Extra)
	return w.String()
}

type vpC06IdxSig struct {
	Index uint16
	Sig   *crypto.Signature
}

func vpC06SortedSigs(sm map[uint16]*crypto.Signature) []vpC06IdxSig {
	out := make([]vpC06IdxSig, 0, len(sm))
	for i, s := range sm {
		out = append(out, vpC06IdxSig{i, s})
	}
	sort.Slice(out, func(a, b int) bool { return out[a].Index < out[b].Index })
	return out
}

// vpC06AuthView renders the authorization data (order-free for maps).
func vpC06AuthView(tx *SignedTransaction) string {
	w := &bytes.Buffer{}
	if a := tx.AggregatedSignature; a != nil {
		fmt.Fprintf(w, "agg{sig=%x n=%d %v}", a.Signature[:], len(a.Signers), a.Signers)
		return w.String() // the encoder ignores signature maps when an aggregate is present
	}
	fmt.Fprintf(w, "maps=%d\n", len(tx.SignaturesMap))
	for _, sm := range tx.SignaturesMap {
		fmt.Fprintf(w, " map n=%d ", len(sm))
		for _, e := range vpC06SortedSigs(sm) {
			fmt.Fprintf(w, "%d:%x,", e.Index, e.Sig[:])
		}
		w.WriteString("\n")
	}
	return w.String()
}

func vpC06View(tx *SignedTransaction) string {
	return vpC06PayloadView(&tx.Transaction) + "\n--\n" + vpC06AuthView(tx)
}

// ---------------------------------------------------------------------------
// reference writer
// ---------------------------------------------------------------------------

// vpC06Var selects a deliberately non-canonical rendering of the same value.
type vpC06Var struct {
	SigOrder    string // "", "reverse", "rotate": order of entries inside every signature map with >=2 entries
	DupSigIndex bool   // repeat the first entry of the first non-empty map (count incremented)
	MaskForm    int    // 0 canonical choice, 1 force sparse, 2 force ordinary
	MaskPad     int    // extra zero bytes at the end of an ordinary mask
	SparseOrder string // "", "reverse", "dup": order of a sparse signer list
	IntPadAt    int    // pad the IntPadAt-th (1-based) integer written ...
	IntPad      int    // ... with this many leading zero bytes
	Trailing    []byte // appended after the end
	ints        int
}

type vpC06W struct {
	b        []byte
	overflow bool // some value did not fit its 16-bit field: the bytes describe another value
}

func (w *vpC06W) u16(v int) {
	if v < 0 || v > 0xffff {
		w.overflow = true
	}
	w.b = binary.BigEndian.AppendUint16(w.b, uint16(v))
}
func (w *vpC06W) u32(v int)     { w.b = binary.BigEndian.AppendUint32(w.b, uint32(v)) }
func (w *vpC06W) u64(v uint64)  { w.b = binary.BigEndian.AppendUint64(w.b, v) }
func (w *vpC06W) raw(p []byte)  { w.b = append(w.b, p...) }
func (w *vpC06W) lp(p []byte)   { w.u16(len(p)); w.raw(p) }
func (w *vpC06W) marker(y bool) {
	if y {
		w.raw([]byte{0x77, 0x77})
	} else {
		w.raw([]byte{0, 0})
	}
}

func (w *vpC06W) integer(x Integer, v *vpC06Var) {
	mag := x.i.Bytes() // minimal big-endian magnitude, empty for zero
	if v != nil {
		v.ints++
		if v.ints == v.IntPadAt {
			mag = append(make([]byte, v.IntPad), mag...)
		}
	}
	w.lp(mag)
}

func vpC06RefPayload(w *vpC06W, tx *Transaction, v *vpC06Var) {
	w.raw([]byte{0x77, 0x77, 0x00, tx.Version})
	w.raw(tx.Asset[:])
	w.u16(len(tx.Inputs))
	for _, in := range tx.Inputs {
		w.raw(in.Hash[:])
		w.u16(int(in.Index))
		w.lp(in.Genesis)
		w.marker(in.Deposit != nil)
		if d := in.Deposit; d != nil {
			w.raw(d.Chain[:])
			w.lp([]byte(d.AssetKey))
			w.lp([]byte(d.Transaction))
			w.u64(d.Index)
			w.integer(d.Amount, v)
		}
		w.marker(in.Mint != nil)
		if m := in.Mint; m != nil {
			w.lp([]byte(m.Group))
			w.u64(m.Batch)
			w.integer(m.Amount, v)
		}
	}
	w.u16(len(tx.Outputs))
	for _, o := range tx.Outputs {
		w.raw([]byte{0, o.Type})
		w.integer(o.Amount, v)
		w.u16(len(o.Keys))
		for _, k := range o.Keys {
			w.raw(k[:])
		}
		w.raw(o.Mask[:])
		w.lp(o.Script)
		w.marker(o.Withdrawal != nil)
		if wd := o.Withdrawal; wd != nil {
			w.lp([]byte(wd.Address))
			w.lp([]byte(wd.Tag))
		}
	}
	w.u16(len(tx.References))
	for _, r := range tx.References {
		w.raw(r[:])
	}
	w.u32(len(tx.Extra))
	w.raw(tx.Extra)
}

// vpC06MaskSparse is the documented rule: the sparse list is used when the bit
// mask would need more than twice as many bytes as there are signers.
func vpC06MaskSparse(signers []int) bool {
	max := signers[len(signers)-1]
	return max/8+1 > 2*len(signers)
}

func vpC06RefAuth(w *vpC06W, tx *SignedTransaction, v *vpC06Var) {
	if v == nil {
		v = &vpC06Var{}
	}
	if a := tx.AggregatedSignature; a != nil {
		w.u16(0xffff)
		w.u16(0xff01)
		w.raw(a.Signature[:])
		if len(a.Signers) == 0 && v.MaskForm != 1 {
			w.raw([]byte{0})
			w.u16(v.MaskPad)
			w.raw(make([]byte, v.MaskPad))
			return
		}
		sparse := len(a.Signers) == 0 || vpC06MaskSparse(a.Signers)
		if v.MaskForm == 1 {
			sparse = true
		} else if v.MaskForm == 2 {
			sparse = false
		}
		if sparse {
			list := append([]int{}, a.Signers...)
			switch v.SparseOrder {
			case "reverse":
				for i, j := 0, len(list)-1; i < j; i, j = i+1, j-1 {
					list[i], list[j] = list[j], list[i]
				}
			case "dup":
				list = append(list, list[len(list)-1])
			}
			w.raw([]byte{1})
			w.u16(len(list))
			for _, s := range list {
				w.u16(s)
			}
			return
		}
		max := a.Signers[len(a.Signers)-1]
		mask := make([]byte, max/8+1+v.MaskPad)
		for _, s := range a.Signers {
			mask[s/8] |= 1 << uint(s%8)
		}
		w.raw([]byte{0})
		w.lp(mask)
		return
	}
	w.u16(len(tx.SignaturesMap))
	dup := v.DupSigIndex
	for _, sm := range tx.SignaturesMap {
		es := vpC06SortedSigs(sm)
		if len(es) >= 2 {
			switch v.SigOrder {
			case "reverse":
				for i, j := 0, len(es)-1; i < j; i, j = i+1, j-1 {
					es[i], es[j] = es[j], es[i]
				}
			case "rotate":
				es = append(es[1:], es[0])
			}
		}
		if dup && len(es) > 0 {
			es = append(es, es[0])
			dup = false
		}
		w.u16(len(es))
		for _, e := range es {
			w.u16(int(e.Index))
			w.raw(e.Sig[:])
		}
	}
}

func vpC06RefEncode(tx *SignedTransaction, v *vpC06Var) []byte {
	w := &vpC06W{}
	vpC06RefPayload(w, &tx.Transaction, v)
	vpC06RefAuth(w, tx, v)
	if v != nil {
		w.raw(v.Trailing)
	}
	return w.b
}

// vpC06RefEncodeFits is vpC06RefEncode for values that may lie outside the wire
// format: ok is false when some count, length or index does not fit its field.
func vpC06RefEncodeFits(tx *SignedTransaction) (b []byte, ok bool) {
	w := &vpC06W{}
	for _, in := range tx.Inputs {
		if in.Index > 0xffff {
			return nil, false
		}
	}
	var v *vpC06Var
	if a := tx.AggregatedSignature; a != nil {
		for i := 1; i < len(a.Signers); i++ {
			if a.Signers[i] <= a.Signers[i-1] {
				// only the sparse list can carry an unsorted or repeated signer
				// list; a bit mask of it would describe the sorted set instead
				v = &vpC06Var{MaskForm: 1}
			}
		}
	}
	vpC06RefPayload(w, &tx.Transaction, v)
	vpC06RefAuth(w, tx, v)
	return w.b, !w.overflow
}

func vpC06RefPayloadBytes(tx *Transaction) []byte {
	return vpC06RefEncode(&SignedTransaction{Transaction: *tx}, nil)
}

// ---------------------------------------------------------------------------
// deep copy
// ---------------------------------------------------------------------------

func vpC06CloneInt(x Integer) (v Integer) {
	v.i.Set(&x.i)
	return
}

func vpC06Clone(tx *SignedTransaction) *SignedTransaction {
	c := &SignedTransaction{}
	c.Version, c.Asset = tx.Version, tx.Asset
	if tx.Inputs != nil {
		c.Inputs = make([]*Input, len(tx.Inputs))
	}
	for i, in := range tx.Inputs {
		n := &Input{Hash: in.Hash, Index: in.Index}
		if in.Genesis != nil {
			n.Genesis = append([]byte{}, in.Genesis...)
		}
		if d := in.Deposit; d != nil {
			n.Deposit = &DepositData{Chain: d.Chain, AssetKey: d.AssetKey, Transaction: d.Transaction, Index: d.Index, Amount: vpC06CloneInt(d.Amount)}
		}
		if m := in.Mint; m != nil {
			n.Mint = &MintData{Group: m.Group, Batch: m.Batch, Amount: vpC06CloneInt(m.Amount)}
		}
		c.Inputs[i] = n
	}
	if tx.Outputs != nil {
		c.Outputs = make([]*Output, len(tx.Outputs))
	}
	for i, o := range tx.Outputs {
		n := &Output{Type: o.Type, Amount: vpC06CloneInt(o.Amount), Mask: o.Mask}
		if o.Keys != nil {
			n.Keys = make([]*crypto.Key, len(o.Keys))
			for j, k := range o.Keys {
				kk := *k
				n.Keys[j] = &kk
			}
		}
		if o.Script != nil {
			n.Script = append(Script{}, o.Script...)
		}
		if wd := o.Withdrawal; wd != nil {
			n.Withdrawal = &WithdrawalData{Address: wd.Address, Tag: wd.Tag}
		}
		c.Outputs[i] = n
	}
	if tx.References != nil {
		c.References = append([]crypto.Hash{}, tx.References...)
	}
	if tx.Extra != nil {
		c.Extra = append([]byte{}, tx.Extra...)
	}
	if a := tx.AggregatedSignature; a != nil {
		c.AggregatedSignature = &AggregatedSignature{Signature: a.Signature}
		if a.Signers != nil {
			c.AggregatedSignature.Signers = append([]int{}, a.Signers...)
		}
	}
	if tx.SignaturesMap != nil {
		c.SignaturesMap = make([]map[uint16]*crypto.Signature, len(tx.SignaturesMap))
		for i, sm := range tx.SignaturesMap {
			if sm == nil {
				continue
			}
			nm := make(map[uint16]*crypto.Signature, len(sm))
			for k, s := range sm {
				ss := *s
				nm[k] = &ss
			}
			c.SignaturesMap[i] = nm
		}
	}
	return c
}

// ---------------------------------------------------------------------------
// generators
// ---------------------------------------------------------------------------

func vpC06Hash(t *rapid.T, label string) crypto.Hash {
	var h crypto.Hash
	if rapid.IntRange(0, 7).Draw(t, label+"_z") == 0 {
		return h
	}
	copy(h[:], rapid.SliceOfN(rapid.Byte(), 32, 32).Draw(t, label))
	return h
}

// vpC06Count draws a collection size in 0..256, biased to 0, 1, small and the limit.
func vpC06Count(t *rapid.T, label string, allowBig bool) int {
	c := rapid.IntRange(0, 99).Draw(t, label+"_c")
	switch {
	case c < 15:
		return 0
	case c < 45:
		return 1
	case c < 88:
		return rapid.IntRange(2, 4).Draw(t, label+"_s")
	case c < 96 || !allowBig:
		return rapid.IntRange(5, 40).Draw(t, label+"_m")
	case c < 98:
		return rapid.IntRange(254, 256).Draw(t, label+"_hi")
	default:
		return 256
	}
}

// vpC06Fill expands a short drawn seed into n bytes (large fields are filled
// deterministically from the seed: drawing 64 KiB byte by byte is wasteful).
func vpC06Fill(seed []byte, n int) []byte {
	out := make([]byte, n)
	if len(seed) == 0 {
		return out
	}
	for i := range out {
		out[i] = seed[i%len(seed)] + byte(i/len(seed))
	}
	return out
}

// vpC06Bytes draws a variable-length field 0..65535 bytes; nil or empty when 0.
func vpC06Bytes(t *rapid.T, label string, allowHuge bool) []byte {
	c := rapid.IntRange(0, 99).Draw(t, label+"_c")
	switch {
	case c < 12:
		return nil
	case c < 20:
		return []byte{}
	case c < 75:
		return rapid.SliceOfN(rapid.Byte(), 1, 8).Draw(t, label+"_s")
	case c < 94:
		return rapid.SliceOfN(rapid.Byte(), 9, 80).Draw(t, label+"_m")
	case c < 99 || !allowHuge:
		n := rapid.IntRange(81, 700).Draw(t, label+"_ln")
		return vpC06Fill(rapid.SliceOfN(rapid.Byte(), 1, 16).Draw(t, label+"_seed"), n)
	default:
		n := rapid.SampledFrom([]int{65535, 65534, 32768, 4096}).Draw(t, label+"_hn")
		return vpC06Fill(rapid.SliceOfN(rapid.Byte(), 1, 16).Draw(t, label+"_seed"), n)
	}
}

func vpC06Integer(t *rapid.T, label string, allowHuge bool) Integer {
	if allowHuge && rapid.IntRange(0, 199).Draw(t, label+"_huge") == 0 {
		n := rapid.SampledFrom([]int{65535, 65534, 300}).Draw(t, label+"_hn")
		b := vpC06Fill(rapid.SliceOfN(rapid.Byte(), 1, 8).Draw(t, label+"_seed"), n)
		b[0] |= 1
		return vpIntegerFromBig(new(big.Int).SetBytes(b))
	}
	return vpIntegerFromBig(vpGenBig(t, label))
}

func vpC06Input(t *rapid.T, label string, huge bool) *Input {
	in := &Input{Hash: vpC06Hash(t, label+"_hash")}
	switch rapid.IntRange(0, 5).Draw(t, label+"_ic") {
	case 0:
		in.Index = 0
	case 1:
		in.Index = InputIndexLimit - uint(rapid.IntRange(0, 1).Draw(t, label+"_il"))
	default:
		in.Index = uint(rapid.IntRange(0, InputIndexLimit).Draw(t, label+"_idx"))
	}
	if rapid.IntRange(0, 2).Draw(t, label+"_hasg") == 0 {
		in.Genesis = vpC06Bytes(t, label+"_gen", huge)
	}
	if rapid.IntRange(0, 2).Draw(t, label+"_hasd") == 0 {
		in.Deposit = &DepositData{
			Chain:       vpC06Hash(t, label+"_chain"),
			AssetKey:    string(vpC06Bytes(t, label+"_ak", huge)),
			Transaction: string(vpC06Bytes(t, label+"_dtx", huge)),
			Index:       vpC06U64(t, label+"_didx"),
			Amount:      vpC06Integer(t, label+"_damt", huge),
		}
	}
	if rapid.IntRange(0, 3).Draw(t, label+"_hasm") == 0 {
		in.Mint = &MintData{
			Group:  string(vpC06Bytes(t, label+"_grp", huge)),
			Batch:  vpC06U64(t, label+"_batch"),
			Amount: vpC06Integer(t, label+"_mamt", huge),
		}
	}
	return in
}

// vpC06U64 draws a boundary-biased uint64.
func vpC06U64(t *rapid.T, label string) uint64 {
	switch rapid.IntRange(0, 3).Draw(t, label+"_c") {
	case 0:
		return uint64(rapid.IntRange(0, 3).Draw(t, label+"_s"))
	case 1:
		return ^uint64(0) - uint64(rapid.IntRange(0, 2).Draw(t, label+"_m"))
	default:
		return rapid.Uint64().Draw(t, label+"_u")
	}
}

var vpC06OutputTypes = []uint8{OutputTypeScript, OutputTypeScript, OutputTypeScript, OutputTypeWithdrawalSubmit, OutputTypeNodePledge,
	OutputTypeNodeAccept, outputTypeNodeResign, OutputTypeNodeRemove, OutputTypeWithdrawalClaim, OutputTypeNodeCancel,
	OutputTypeCustodianUpdateNodes, OutputTypeCustodianSlashNodes, 0x01, 0x77, 0xff}

func vpC06Key(t *rapid.T, label string) *crypto.Key {
	var k crypto.Key
	copy(k[:], rapid.SliceOfN(rapid.Byte(), 32, 32).Draw(t, label))
	return &k
}

func vpC06Output(t *rapid.T, label string, huge bool) *Output {
	o := &Output{Type: rapid.SampledFrom(vpC06OutputTypes).Draw(t, label+"_type")}
	o.Amount = vpC06Integer(t, label+"_amt", huge)
	nk := vpC06Count(t, label+"_nk", huge)
	if nk > 0 || rapid.Bool().Draw(t, label+"_emptykeys") {
		if nk > 8 { // many keys: derive from one seed
			seed := rapid.SliceOfN(rapid.Byte(), 8, 8).Draw(t, label+"_kseed")
			o.Keys = make([]*crypto.Key, nk)
			for i := range o.Keys {
				var k crypto.Key
				copy(k[:], vpC06Fill(append(seed, byte(i), byte(i>>8)), 32))
				o.Keys[i] = &k
			}
		} else {
			o.Keys = make([]*crypto.Key, nk)
			for i := range o.Keys {
				o.Keys[i] = vpC06Key(t, fmt.Sprintf("%s_k%d", label, i))
			}
		}
	}
	o.Mask = crypto.Key(vpC06Hash(t, label+"_mask"))
	switch rapid.IntRange(0, 3).Draw(t, label+"_sc") {
	case 0:
		o.Script = NewThresholdScript(uint8(rapid.IntRange(0, 255).Draw(t, label+"_thr")))
	case 1:
		o.Script = Script(vpC06Bytes(t, label+"_script", huge))
	}
	if rapid.IntRange(0, 3).Draw(t, label+"_haswd") == 0 {
		o.Withdrawal = &WithdrawalData{
			Address: string(vpC06Bytes(t, label+"_addr", huge)),
			Tag:     string(vpC06Bytes(t, label+"_tag", huge)),
		}
	}
	return o
}

func vpC06Sig(t *rapid.T, label string) *crypto.Signature {
	var s crypto.Signature
	copy(s[:], rapid.SliceOfN(rapid.Byte(), 64, 64).Draw(t, label))
	return &s
}

func vpC06SigIndex(t *rapid.T, label string) uint16 {
	switch rapid.IntRange(0, 4).Draw(t, label+"_c") {
	case 0:
		return 0xffff - uint16(rapid.IntRange(0, 1).Draw(t, label+"_hi"))
	case 1:
		return rapid.Uint16().Draw(t, label+"_u")
	case 2:
		return uint16(rapid.IntRange(250, 260).Draw(t, label+"_b"))
	default:
		return uint16(rapid.IntRange(0, 6).Draw(t, label+"_s"))
	}
}

func vpC06SigMaps(t *rapid.T, huge bool) []map[uint16]*crypto.Signature {
	n := vpC06Count(t, "nmaps", huge)
	if n == 0 {
		if rapid.Bool().Draw(t, "emptymaps") {
			return []map[uint16]*crypto.Signature{}
		}
		return nil
	}
	maps := make([]map[uint16]*crypto.Signature, n)
	var shared *crypto.Signature
	if n > 8 {
		shared = vpC06Sig(t, "shared_sig")
	}
	for i := range maps {
		if n > 8 {
			maps[i] = map[uint16]*crypto.Signature{uint16(i * 3): shared}
			if i%7 == 0 {
				maps[i][uint16(i*3+1)] = shared
			}
			continue
		}
		ne := rapid.IntRange(0, 5).Draw(t, fmt.Sprintf("map%d_n", i))
		if ne == 0 && rapid.Bool().Draw(t, fmt.Sprintf("map%d_nil", i)) {
			maps[i] = nil
			continue
		}
		maps[i] = make(map[uint16]*crypto.Signature, ne)
		for j := 0; j < ne; j++ {
			maps[i][vpC06SigIndex(t, fmt.Sprintf("map%d_i%d", i, j))] = vpC06Sig(t, fmt.Sprintf("map%d_s%d", i, j))
		}
	}
	return maps
}

// vpC06Signers draws a strictly increasing signer list and names its position
// relative to the sparse/ordinary switch (mask bytes m = max/8+1 vs 2n).
func vpC06Signers(t *rapid.T) ([]int, string) {
	c := rapid.IntRange(0, 99).Draw(t, "nsigners_c")
	var n int
	switch {
	case c < 8:
		if rapid.Bool().Draw(t, "signers_nil") {
			return nil, "signers-empty"
		}
		return []int{}, "signers-empty"
	case c < 40:
		n = 1
	case c < 85:
		n = rapid.IntRange(2, 6).Draw(t, "nsigners_s")
	case c < 97:
		n = rapid.IntRange(7, 64).Draw(t, "nsigners_m")
	default:
		n = rapid.IntRange(65, 300).Draw(t, "nsigners_l")
	}
	var m int // mask byte count target
	pos := rapid.SampledFrom([]string{"2n-1", "2n", "2n+1", "2n+2", "dense", "far", "any"}).Draw(t, "mask_pos")
	switch pos {
	case "2n-1":
		m = 2*n - 1
	case "2n":
		m = 2 * n
	case "2n+1":
		m = 2*n + 1
	case "2n+2":
		m = 2*n + 2
	case "dense":
		m = (n-1)/8 + 1
	case "far":
		m = 8192 - rapid.IntRange(0, 3).Draw(t, "far_off")
	default:
		m = rapid.IntRange((n-1)/8+1, 8192).Draw(t, "mask_bytes")
	}
	lo, hi := 8*(m-1), 8*m-1
	if lo < n-1 {
		lo = n - 1
	}
	if hi > 0xffff {
		hi = 0xffff
	}
	max := rapid.IntRange(lo, hi).Draw(t, "max_signer")
	set := map[int]bool{max: true}
	for len(set) < n {
		v := rapid.IntRange(0, max-1).Draw(t, "signer")
		for set[v] {
			v = (v + 1) % max
		}
		set[v] = true
	}
	out := make([]int, 0, n)
	for v := range set {
		out = append(out, v)
	}
	sort.Ints(out)
	cls := "mask-ordinary"
	if vpC06MaskSparse(out) {
		cls = "mask-sparse"
	}
	return out, cls + "," + "mask@" + pos
}

type vpC06Info struct {
	Classes []string
}

// vpC06GenTx draws a structurally valid transaction inside the encoder's limits.
func vpC06GenTx(t *rapid.T) (*SignedTransaction, *vpC06Info) {
	info := &vpC06Info{}
	huge := rapid.IntRange(0, 9).Draw(t, "allow_huge") == 0
	tx := &SignedTransaction{}
	tx.Version = TxVersionHashSignature
	tx.Asset = vpC06Hash(t, "asset")
	ni := vpC06Count(t, "nin", huge)
	if ni > 0 || rapid.Bool().Draw(t, "emptyin") {
		tx.Inputs = make([]*Input, ni)
		for i := range tx.Inputs {
			tx.Inputs[i] = vpC06Input(t, fmt.Sprintf("in%d", i), huge && ni < 8)
		}
	}
	no := vpC06Count(t, "nout", huge)
	if no > 0 || rapid.Bool().Draw(t, "emptyout") {
		tx.Outputs = make([]*Output, no)
		for i := range tx.Outputs {
			tx.Outputs[i] = vpC06Output(t, fmt.Sprintf("out%d", i), huge && no < 8)
		}
	}
	nr := vpC06Count(t, "nref", true)
	if nr > 0 || rapid.Bool().Draw(t, "emptyref") {
		tx.References = make([]crypto.Hash, nr)
		if nr > 8 {
			seed := rapid.SliceOfN(rapid.Byte(), 8, 8).Draw(t, "refseed")
			for i := range tx.References {
				copy(tx.References[i][:], vpC06Fill(append(seed, byte(i), byte(i>>8)), 32))
			}
		} else {
			for i := range tx.References {
				tx.References[i] = vpC06Hash(t, fmt.Sprintf("ref%d", i))
			}
		}
	}
	switch c := rapid.IntRange(0, 99).Draw(t, "extra_c"); {
	case c < 10:
	case c < 15:
		tx.Extra = []byte{}
	case c < 70:
		tx.Extra = rapid.SliceOfN(rapid.Byte(), 1, 64).Draw(t, "extra")
	case c < 90:
		n := rapid.SampledFrom([]int{255, 256, 257, 1024, 300}).Draw(t, "extra_n")
		tx.Extra = vpC06Fill(rapid.SliceOfN(rapid.Byte(), 1, 16).Draw(t, "extra_seed"), n)
	default:
		n := rapid.SampledFrom([]int{65535, 65536, 65537, 70000, 1 << 20}).Draw(t, "extra_big")
		if n == 1<<20 && !huge {
			n = 65536
		}
		tx.Extra = vpC06Fill(rapid.SliceOfN(rapid.Byte(), 1, 16).Draw(t, "extra_seed"), n)
		info.Classes = append(info.Classes, "extra>=64KiB")
	}
	switch rapid.IntRange(0, 4).Draw(t, "auth") {
	case 0, 1:
		tx.SignaturesMap = vpC06SigMaps(t, huge)
		if len(tx.SignaturesMap) > 0 {
			info.Classes = append(info.Classes, "sigmaps")
		} else {
			info.Classes = append(info.Classes, "unsigned")
		}
		for _, sm := range tx.SignaturesMap {
			if len(sm) >= 2 {
				info.Classes = append(info.Classes, "sigmap>=2")
				break
			}
		}
	case 2, 3:
		signers, cls := vpC06Signers(t)
		tx.AggregatedSignature = &AggregatedSignature{Signers: signers, Signature: *vpC06Sig(t, "aggsig")}
		info.Classes = append(info.Classes, "aggregate")
		for _, s := range bytes.Split([]byte(cls), []byte(",")) {
			info.Classes = append(info.Classes, string(s))
		}
	default:
		info.Classes = append(info.Classes, "unsigned")
	}
	for name, n := range map[string]int{"inputs": len(tx.Inputs), "outputs": len(tx.Outputs), "references": len(tx.References), "sigmaps#": len(tx.SignaturesMap)} {
		if n == 256 {
			info.Classes = append(info.Classes, name+"=256")
		}
	}
	for _, o := range tx.Outputs {
		if len(o.Keys) == 256 {
			info.Classes = append(info.Classes, "keys=256")
			break
		}
	}
	sort.Strings(info.Classes)
	return tx, info
}
