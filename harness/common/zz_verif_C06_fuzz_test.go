//go:build verif

package common

import (
	"bytes"
	"testing"

	"github.com/MixinNetwork/mixin/crypto"
	"pgregory.net/rapid"
	kit "verifkit"
)

// ---------------------------------------------------------------------------
// C06 part 3: byte-level mutations, arbitrary bytes, native fuzz target.
// ---------------------------------------------------------------------------

// vpC06GenSmall draws an in-limit transaction with a compact encoding (dense
// mutation targets).
func vpC06GenSmall(t *rapid.T) *SignedTransaction {
	tx, _ := vpC06GenTx(t)
	if len(tx.Inputs) > 2 {
		tx.Inputs = tx.Inputs[:2]
	}
	if len(tx.Outputs) > 2 {
		tx.Outputs = tx.Outputs[:2]
	}
	for _, o := range tx.Outputs {
		if len(o.Keys) > 2 {
			o.Keys = o.Keys[:2]
		}
		if len(o.Script) > 8 {
			o.Script = o.Script[:8]
		}
		if o.Amount.i.BitLen() > 600 {
			o.Amount = NewInteger(12345)
		}
		if w := o.Withdrawal; w != nil {
			if len(w.Address) > 8 {
				w.Address = w.Address[:8]
			}
			if len(w.Tag) > 8 {
				w.Tag = w.Tag[:8]
			}
		}
	}
	for _, in := range tx.Inputs {
		if len(in.Genesis) > 8 {
			in.Genesis = in.Genesis[:8]
		}
		if d := in.Deposit; d != nil {
			if len(d.AssetKey) > 8 {
				d.AssetKey = d.AssetKey[:8]
			}
			if len(d.Transaction) > 8 {
				d.Transaction = d.Transaction[:8]
			}
			if d.Amount.i.BitLen() > 600 {
				d.Amount = NewInteger(7)
			}
		}
		if m := in.Mint; m != nil {
			if len(m.Group) > 8 {
				m.Group = m.Group[:8]
			}
			if m.Amount.i.BitLen() > 600 {
				m.Amount = NewInteger(9)
			}
		}
	}
	if len(tx.References) > 2 {
		tx.References = tx.References[:2]
	}
	if len(tx.Extra) > 12 {
		tx.Extra = tx.Extra[:12]
	}
	if len(tx.SignaturesMap) > 2 {
		tx.SignaturesMap = tx.SignaturesMap[:2]
	}
	for i, sm := range tx.SignaturesMap {
		if len(sm) > 2 {
			tx.SignaturesMap[i] = vpC06SortedSigsKeep(sm, 2)
		}
	}
	if a := tx.AggregatedSignature; a != nil && len(a.Signers) > 6 {
		a.Signers = a.Signers[:6]
	}
	return tx
}

func vpC06SortedSigsKeep(sm map[uint16]*crypto.Signature, n int) map[uint16]*crypto.Signature {
	out := map[uint16]*crypto.Signature{}
	for _, e := range vpC06SortedSigs(sm)[:n] {
		out[e.Index] = e.Sig
	}
	return out
}

func TestVP_C06_mutations(t *testing.T) {
	c := kit.New(t, "C06", "rapid: 1..3 byte-level mutations (bit flip, byte insert, byte delete, 16-bit length/count field bumped) of the encoding of a small generated transaction, plus every truncation and 1..4-byte extension; whatever the decoder accepts must re-encode to exactly the input; non-trivial = accepted mutated encoding; distinct by byte-string hash")
	c.Require("mutated-accepted", "mutated-rejected", "truncation", "extension")
	kit.SetChecks(kit.N(2500, 100000))
	rapid.Check(t, func(t *rapid.T) {
		tx := vpC06GenSmall(t)
		base := vpC06RoundTrip(t, tx)
		b := append([]byte{}, base...)
		for m := rapid.IntRange(1, 3).Draw(t, "mutations"); m > 0; m-- {
			switch rapid.IntRange(0, 4).Draw(t, "op") {
			case 0, 1:
				b[rapid.IntRange(0, len(b)-1).Draw(t, "at")] ^= byte(1) << uint(rapid.IntRange(0, 7).Draw(t, "bit"))
			case 2:
				i := rapid.IntRange(0, len(b)).Draw(t, "ins_at")
				b = append(b[:i], append([]byte{rapid.Byte().Draw(t, "ins")}, b[i:]...)...)
			case 3:
				if len(b) > 1 {
					i := rapid.IntRange(0, len(b)-1).Draw(t, "del_at")
					b = append(b[:i], b[i+1:]...)
				}
			case 4:
				i := rapid.IntRange(0, len(b)-1).Draw(t, "inc_at")
				b[i] += byte(rapid.SampledFrom([]int{1, 255}).Draw(t, "inc"))
			}
		}
		_, acc := vpC06Probe(t, b)
		cls := "mutated-rejected"
		if acc {
			cls = "mutated-accepted"
			if bytes.Equal(b, base) {
				cls = "mutation-cancelled"
			}
		}
		c.Case(vpC06FP(b), cls == "mutated-accepted", cls)
		// truncations and extensions of the unmutated encoding
		if len(base) <= 400 {
			for k := 0; k < len(base); k++ {
				if _, acc := vpC06Probe(t, base[:k]); acc {
					c.Class("truncation-accepted")
				}
				c.Class("truncation")
			}
		}
		ext := rapid.SliceOfN(rapid.Byte(), 4, 4).Draw(t, "ext")
		for k := 1; k <= 4; k++ {
			for _, e := range [][]byte{ext[:k], make([]byte, k)} {
				if _, acc := vpC06Probe(t, append(append([]byte{}, base...), e...)); acc {
					c.Class("extension-accepted")
				}
				c.Class("extension")
			}
		}
	})
}

// TestVP_C06_every_offset: all single-bit flips and single-byte deletions of 50
// generated small encodings.
func TestVP_C06_every_offset(t *testing.T) {
	if kit.Replaying() {
		return
	}
	c := kit.New(t, "C06", "deterministic: for 50 generated small transactions (rapid Example seeds) every single-bit flip, single-byte deletion and single-byte duplication of the encoding; accepted strings must re-encode to themselves; non-trivial = accepted mutant; distinct by byte-string hash")
	c.Exhaustive("all single-bit flips, single-byte deletions and duplications of 50 small transaction encodings (<= 700 bytes)")
	gen := rapid.Custom(vpC06GenSmall)
	done := 0
	shard, _ := kit.Shard() // each thorough shard sweeps its own 50 bases
	for i := 0; done < 50 && i < 2000; i++ {
		tx := gen.Example(7000 + shard*2000 + i)
		base := vpC06RoundTrip(t, tx)
		if len(base) > 700 || len(base) < 60 {
			continue
		}
		done++
		for off := 0; off < len(base); off++ {
			for bit := 0; bit < 8; bit++ {
				b := append([]byte{}, base...)
				b[off] ^= 1 << uint(bit)
				_, acc := vpC06Probe(t, b)
				c.Case(vpC06FP(b), acc, "bitflip")
				if acc {
					c.Class("bitflip-accepted")
				}
			}
			b := append(append([]byte{}, base[:off]...), base[off+1:]...)
			_, acc := vpC06Probe(t, b)
			c.Case(vpC06FP(b), acc, "delete")
			b = append(append(append([]byte{}, base[:off+1]...), base[off]), base[off+1:]...)
			_, acc = vpC06Probe(t, b)
			c.Case(vpC06FP(b), acc, "duplicate-byte")
		}
	}
	c.Set("bases", done)
	if done < 50 {
		kit.Inconclusive(t, "only %d small transactions generated", done)
	}
}

func TestVP_C06_arbitrary_bytes(t *testing.T) {
	c := kit.New(t, "C06", "rapid: random byte strings, random bytes behind a valid header, and a valid payload prefix followed by a random authorization section (signature-map counts, aggregate prefix, mask tags); accepted strings must re-encode to themselves; non-trivial = accepted string; distinct by byte-string hash")
	c.Require("random", "random-with-header", "random-auth-section", "accepted")
	kit.SetChecks(kit.N(3000, 300000))
	rapid.Check(t, func(t *rapid.T) {
		var b []byte
		cls := ""
		switch rapid.IntRange(0, 3).Draw(t, "kind") {
		case 0:
			b = rapid.SliceOfN(rapid.Byte(), 0, 200).Draw(t, "random")
			cls = "random"
		case 1:
			b = append([]byte{0x77, 0x77, 0, 5}, rapid.SliceOfN(rapid.Byte(), 0, 200).Draw(t, "body")...)
			cls = "random-with-header"
		default:
			tx := vpC06GenSmall(t)
			w := &vpC06W{}
			vpC06RefPayload(w, &tx.Transaction, nil)
			b = w.b
			// a structured but arbitrary authorization section
			switch rapid.IntRange(0, 3).Draw(t, "auth_kind") {
			case 0:
				w2 := &vpC06W{}
				w2.u16(0xffff)
				w2.u16(rapid.SampledFrom([]int{0xff01, 0xff01, 0xff01, 0xff02, 0}).Draw(t, "prefix"))
				w2.raw(make([]byte, 64))
				w2.raw([]byte{rapid.SampledFrom([]byte{0, 0, 1, 1, 2}).Draw(t, "tag")})
				w2.raw(rapid.SliceOfN(rapid.Byte(), 0, 12).Draw(t, "mask_body"))
				b = append(b, w2.b...)
			case 1:
				n := rapid.IntRange(0, 3).Draw(t, "nmaps")
				w2 := &vpC06W{}
				w2.u16(n)
				for i := 0; i < n; i++ {
					ne := rapid.IntRange(0, 3).Draw(t, "nent")
					w2.u16(ne)
					for j := 0; j < ne; j++ {
						w2.u16(rapid.IntRange(0, 3).Draw(t, "idx"))
						w2.raw(make([]byte, 64))
					}
				}
				b = append(b, w2.b...)
			default:
				b = append(b, rapid.SliceOfN(rapid.Byte(), 0, 80).Draw(t, "auth_bytes")...)
			}
			cls = "random-auth-section"
		}
		_, acc := vpC06Probe(t, b)
		if acc {
			c.Case(vpC06FP(b), true, cls, "accepted")
		} else {
			c.Case(vpC06FP(b), false, cls)
		}
	})
}

// vpC06FuzzOracle: claim (1) on arbitrary input plus stability of the decoded
// value under a second round trip.
func vpC06FuzzOracle(t vpC06TB, data []byte) bool {
	ver, ok := vpC06Probe(t, data)
	if !ok {
		return false
	}
	want := vpC06View(&ver.SignedTransaction)
	b := vpC06RoundTrip(t, &ver.SignedTransaction)
	if !bytes.Equal(b, data) {
		t.Fatalf("second round trip changed the bytes")
	}
	if vpC06View(&ver.SignedTransaction) != want {
		t.Fatalf("round trip modified the decoded value")
	}
	if ref := vpC06RefEncode(&ver.SignedTransaction, nil); !bytes.Equal(ref, data) {
		t.Fatalf("accepted byte string differs from the reference encoding of its decoded value")
	}
	return true
}

func vpC06FuzzSeeds() [][]byte {
	seeds := [][]byte{}
	gen := rapid.Custom(vpC06GenSmall)
	for i := 0; i < 60; i++ {
		tx := gen.Example(9000 + i)
		b := vpC06RefEncode(tx, nil)
		seeds = append(seeds, b)
		if i%5 == 0 && len(b) > 8 {
			seeds = append(seeds, b[:len(b)-3], append(append([]byte{}, b...), 0))
		}
		if i%3 == 0 {
			seeds = append(seeds, vpC06RefEncode(tx, &vpC06Var{SigOrder: "reverse", MaskForm: 1}))
			seeds = append(seeds, vpC06RefEncode(tx, &vpC06Var{MaskForm: 2, MaskPad: 1, IntPadAt: 1, IntPad: 1}))
		}
	}
	hdr := []byte{0x77, 0x77, 0, 5}
	z := func(n int) []byte { return make([]byte, n) }
	cat := func(parts ...[]byte) []byte { return bytes.Join(parts, nil) }
	empty := cat(hdr, z(32), z(2), z(2), z(2), z(4)) // no inputs, outputs, references, extra
	seeds = append(seeds,
		nil, hdr, []byte{0x77, 0x77, 0, 4}, []byte{0x77, 0x77, 0, 6},
		cat(empty, z(2)),                                       // unsigned
		cat(empty, []byte{0xff, 0xff}),                         // aggregate marker, truncated
		cat(empty, []byte{0xff, 0xff, 0xff, 0x01}, z(64), []byte{0, 0, 0}),          // aggregate, empty ordinary mask
		cat(empty, []byte{0xff, 0xff, 0xff, 0x01}, z(64), []byte{1, 0, 0}),          // aggregate, empty sparse list
		cat(empty, []byte{0xff, 0xff, 0xff, 0x01}, z(64), []byte{0, 0, 1, 1}),       // ordinary {0}
		cat(empty, []byte{0xff, 0xff, 0xff, 0x01}, z(64), []byte{1, 0, 1, 0, 0}),    // sparse {0}: non-canonical
		cat(empty, []byte{0xff, 0xff, 0xff, 0x01}, z(64), []byte{1, 0, 1, 0, 24}),   // sparse {24}: canonical
		cat(empty, []byte{0xff, 0xff, 0xff, 0x01}, z(64), []byte{0, 0, 4, 0, 0, 0, 1}), // ordinary {24}: non-canonical
		cat(empty, []byte{0xff, 0xff, 0xff, 0x01}, z(64), []byte{0, 0, 2, 0, 0x80}), // ordinary {15}: 2 bytes == 2n
		cat(empty, []byte{0xff, 0xff, 0xff, 0x01}, z(64), []byte{1, 0, 1, 0, 15}),   // sparse {15}: non-canonical
		cat(empty, []byte{0xff, 0xff, 0xff, 0x01}, z(64), []byte{1, 0xff, 0xff}),    // sparse, 0xffff entries
		cat(empty, []byte{0xff, 0xff, 0xff, 0x01}, z(64), []byte{0, 0xff, 0xff}),    // ordinary, 0xffff bytes
		cat(empty, []byte{0xff, 0xff, 0xff, 0x02}, z(64), []byte{0, 0, 0}),          // unknown prefix
		cat(empty, []byte{0, 1, 0, 2, 0, 1}, z(64), []byte{0, 0}, z(64)),            // signature map 1,0: unsorted
		cat(empty, []byte{0, 1, 0, 2, 0, 0}, z(64), []byte{0, 1}, z(64)),            // signature map 0,1: sorted
		cat(empty, []byte{0, 1, 0, 2, 0, 0}, z(64), []byte{0, 0}, z(64)),            // duplicate index
		cat(empty, []byte{0xff, 0xfe}),                         // 65534 signature maps
		cat(empty, []byte{1, 1}, bytes.Repeat([]byte{0, 0}, 257)),                   // 257 empty maps
		cat(hdr, z(32), []byte{0xff, 0xff}),                    // 65535 inputs
		cat(hdr, z(32), []byte{1, 1}),                          // 257 inputs
		cat(hdr, z(32), z(2), []byte{0, 1, 0, 0, 0, 2, 0, 1}, z(2), z(32), z(2), z(2), z(2), z(4), z(2)), // amount 0x0001 with a leading zero
		cat(hdr, z(32), z(2), z(2), z(2), []byte{0xff, 0xff, 0xff, 0xff}),           // extra 4 GiB
		cat(hdr, z(32), z(2), z(2), z(2), []byte{0, 0x40, 0, 1}),                    // extra 4 MiB + 1
	)
	return seeds
}

func TestVP_C06_fuzz_seeds(t *testing.T) {
	if kit.Replaying() {
		return
	}
	c := kit.New(t, "C06", "deterministic: the seed corpus of FuzzVP_C06_decode (generated encodings, truncated/extended/non-canonical spellings, hostile constants around the aggregate mask switch, count limits and length fields) through the fuzz oracle; non-trivial = accepted seed; distinct by byte-string hash")
	c.Require("accepted", "rejected")
	for _, s := range vpC06FuzzSeeds() {
		if vpC06FuzzOracle(t, s) {
			c.Case(vpC06FP(s), true, "accepted")
		} else {
			c.Case(vpC06FP(s), false, "rejected")
		}
	}
}

func FuzzVP_C06_decode(f *testing.F) {
	for _, s := range vpC06FuzzSeeds() {
		f.Add(s)
	}
	f.Fuzz(func(t *testing.T, data []byte) {
		if len(data) > 1<<17 {
			return
		}
		vpC06FuzzOracle(t, data)
	})
}
