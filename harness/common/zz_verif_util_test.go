//go:build verif

package common

import (
	"fmt"
	"math/big"

	"pgregory.net/rapid"
)

// vpCatch runs f and returns the recovered panic value (nil when f returned).
func vpCatch(f func()) (p any) {
	defer func() {
		if r := recover(); r != nil {
			p = fmt.Sprint(r)
			if p == "" {
				p = "panic"
			}
		}
	}()
	f()
	return nil
}

var vpBigBoundaries = []string{
	"0", "1", "2", "99999999", "100000000", "100000001", "9223372036854775807", "9223372036854775808",
	"18446744073709551615", "18446744073709551616", "1844674407370955161500000000", "1844674407370955161600000000",
	"340282366920938463463374607431768211456",
	"115792089237316195423570985008687907853269984665640564039457584007913129639936",
}

// vpGenBig draws a non-negative integer from 0 to 2^520, biased to boundaries.
func vpGenBig(t *rapid.T, label string) *big.Int {
	switch rapid.IntRange(0, 5).Draw(t, label+"_class") {
	case 0:
		return big.NewInt(int64(rapid.IntRange(0, 1000).Draw(t, label+"_small")))
	case 1:
		b, _ := new(big.Int).SetString(rapid.SampledFrom(vpBigBoundaries).Draw(t, label+"_bnd"), 10)
		d := int64(rapid.IntRange(-3, 3).Draw(t, label+"_delta"))
		b.Add(b, big.NewInt(d))
		if b.Sign() < 0 {
			b.SetInt64(0)
		}
		return b
	case 2:
		return new(big.Int).SetUint64(rapid.Uint64().Draw(t, label+"_u64"))
	case 3:
		n := rapid.IntRange(0, 65).Draw(t, label+"_len")
		bs := rapid.SliceOfN(rapid.Byte(), n, n).Draw(t, label+"_bytes")
		return new(big.Int).SetBytes(bs)
	case 4:
		e := uint(rapid.IntRange(0, 519).Draw(t, label+"_exp"))
		b := new(big.Int).Lsh(big.NewInt(1), e)
		d := int64(rapid.IntRange(-2, 2).Draw(t, label+"_delta"))
		b.Add(b, big.NewInt(d))
		if b.Sign() < 0 {
			b.SetInt64(0)
		}
		return b
	default:
		// decimal-looking: units * 10^k
		u := int64(rapid.IntRange(0, 99999).Draw(t, label+"_units"))
		k := int64(rapid.IntRange(0, 40).Draw(t, label+"_pow"))
		b := new(big.Int).Exp(big.NewInt(10), big.NewInt(k), nil)
		return b.Mul(b, big.NewInt(u))
	}
}

func vpIntegerFromBig(b *big.Int) (v Integer) {
	v.i.Set(b)
	return
}
