//go:build verif

package common

import (
	"bytes"
	"fmt"
	"testing"

	"github.com/MixinNetwork/mixin/config"
	"github.com/MixinNetwork/mixin/crypto"
	"pgregory.net/rapid"
	kit "verifkit"
)

// ---------------------------------------------------------------------------
// C06 — transaction encoding is canonical, hash is content-addressed.
// Part 1: oracles, round trip, limits, non-canonical renderings.
// ---------------------------------------------------------------------------

func vpC06Unmarshal(t vpC06TB, b []byte) (*VersionedTransaction, error) {
	var ver *VersionedTransaction
	var err error
	if p := vpCatch(func() { ver, err = UnmarshalVersionedTransaction(b) }); p != nil {
		t.Fatalf("decoder panicked on %d bytes %x...: %v", len(b), vpC06Head(b), p)
	}
	return ver, err
}

func vpC06Head(b []byte) []byte {
	if len(b) > 200 {
		return b[:200]
	}
	return b
}

// vpC06CheckAccepted is claim (1): an accepted byte string re-encodes to
// itself; the decoded value is stable under one more decode; its payload
// encoding is itself an accepted, signature-free transaction with the same hash.
func vpC06CheckAccepted(t vpC06TB, b []byte, ver *VersionedTransaction) {
	if ver == nil {
		t.Fatalf("accepted but returned nil")
		return
	}
	var re []byte
	if p := vpCatch(func() { re = ver.Marshal() }); p != nil {
		t.Fatalf("accepted %x... but the decoded transaction cannot be encoded: %v", vpC06Head(b), p)
	}
	if !bytes.Equal(re, b) {
		t.Fatalf("accepted byte string is not canonical: input %d bytes, re-encoding %d bytes\n in=%x\n re=%x", len(b), len(re), vpC06Head(b), vpC06Head(re))
	}
	if len(b) > config.TransactionMaximumSize {
		t.Fatalf("accepted %d bytes, above the transaction maximum", len(b))
	}
	var pm []byte
	var ph crypto.Hash
	if p := vpCatch(func() { pm = ver.PayloadMarshal(); ph = ver.PayloadHash() }); p != nil {
		t.Fatalf("payload encoding of an accepted transaction panicked: %v", p)
	}
	if ph != crypto.Blake3Hash(pm) {
		t.Fatalf("PayloadHash is not the hash of PayloadMarshal")
	}
	pv, err := vpC06Unmarshal(t, pm)
	if err != nil {
		t.Fatalf("payload encoding of an accepted transaction is rejected: %v", err)
	}
	if pv.AggregatedSignature != nil || len(pv.SignaturesMap) != 0 {
		t.Fatalf("payload encoding carries authorization data")
	}
	if vpC06PayloadView(&pv.Transaction) != vpC06PayloadView(&ver.Transaction) {
		t.Fatalf("payload encoding decodes to a different payload")
	}
	if pv.PayloadHash() != ph {
		t.Fatalf("payload hash differs between the signed transaction and its payload")
	}
}

// vpC06Probe decodes b and applies claim (1) when accepted.
func vpC06Probe(t vpC06TB, b []byte) (*VersionedTransaction, bool) {
	ver, err := vpC06Unmarshal(t, b)
	if err != nil {
		return nil, false
	}
	vpC06CheckAccepted(t, b, ver)
	return ver, true
}

func vpC06Nontrivial(tx *SignedTransaction, b []byte) bool {
	return len(b) > 100 && len(tx.Inputs) >= 1 && len(tx.Outputs) >= 1
}

// vpC06RoundTrip is claim (2) for an in-limit transaction; returns the encoding.
func vpC06RoundTrip(t vpC06TB, tx *SignedTransaction) []byte {
	want := vpC06View(tx)
	ver := vpC06Clone(tx).AsVersioned()
	var b []byte
	if p := vpCatch(func() { b = ver.Marshal() }); p != nil {
		t.Fatalf("encoder panicked on an in-limit transaction: %v\n%s", p, vpC06Trunc(want))
	}
	if vpC06View(&ver.SignedTransaction) != want {
		t.Fatalf("encoding modified the transaction")
	}
	dec, err := vpC06Unmarshal(t, b)
	if err != nil {
		t.Fatalf("encoding of an in-limit transaction rejected: %v\n%s", err, vpC06Trunc(want))
	}
	if got := vpC06View(&dec.SignedTransaction); got != want {
		t.Fatalf("decode(encode(tx)) != tx\nwant %s\ngot  %s", vpC06Trunc(want), vpC06Trunc(got))
	}
	vpC06CheckAccepted(t, b, dec)
	// decoder's own normalisation: zero-length fields come back nil
	for _, in := range dec.Inputs {
		if in.Genesis != nil && len(in.Genesis) == 0 {
			t.Fatalf("decoder returned an empty non-nil genesis")
		}
	}
	if dec.PayloadHash() != vpC06Clone(tx).AsVersioned().PayloadHash() {
		t.Fatalf("payload hash changes across encode/decode")
	}
	return b
}

func vpC06Trunc(s string) string {
	if len(s) > 3000 {
		return s[:3000] + "..."
	}
	return s
}

func TestVP_C06_roundtrip(t *testing.T) {
	c := kit.New(t, "C06", "rapid: structurally valid transactions inside the encoder limits (0..256 inputs/outputs/keys/references/signature maps, all input kinds, every output type, fields 0..65535 bytes, amounts to 2^520 and 65535 bytes, extra to 1 MiB, signature maps with sparse indexes or an aggregate with signer sets placed around the sparse/ordinary switch); Marshal -> Unmarshal -> structural equality (nil==empty) -> Marshal; non-trivial = encoding > 100 bytes with >=1 input and >=1 output; distinct by encoding hash")
	c.Require("aggregate", "mask-sparse", "mask-ordinary", "mask@2n", "mask@2n+1", "sigmaps", "sigmap>=2", "unsigned", "signers-empty",
		"inputs=256", "outputs=256", "references=256", "keys=256", "extra>=64KiB", "deposit", "mint", "withdrawal")
	kit.SetChecks(kit.N(2000, 80000))
	rapid.Check(t, func(t *rapid.T) {
		tx, info := vpC06GenTx(t)
		b := vpC06RoundTrip(t, tx)
		cl := append([]string{}, info.Classes...)
		for _, in := range tx.Inputs {
			if in.Deposit != nil {
				cl = append(cl, "deposit")
			}
			if in.Mint != nil {
				cl = append(cl, "mint")
			}
		}
		for _, o := range tx.Outputs {
			if o.Withdrawal != nil {
				cl = append(cl, "withdrawal")
			}
		}
		c.Case(vpC06FP(b), vpC06Nontrivial(tx, b), vpC06Uniq(cl)...)
		c.Sample(map[string]any{"len": len(b), "inputs": len(tx.Inputs), "outputs": len(tx.Outputs), "refs": len(tx.References),
			"extra": len(tx.Extra), "classes": info.Classes})
	})
}

func vpC06Uniq(in []string) []string {
	seen := map[string]bool{}
	out := []string{}
	for _, s := range in {
		if !seen[s] {
			seen[s] = true
			out = append(out, s)
		}
	}
	return out
}

// TestVP_C06_reference_encoding pins the wire format: the production encoder
// and an independent writer (written from the format description) agree on
// every in-limit transaction, for the signed and for the payload encoding.
// A consistent drift of encoder+decoder (e.g. a moved sparse/ordinary switch)
// is invisible to round-trip oracles but changes bytes every node must agree on.
func TestVP_C06_reference_encoding(t *testing.T) {
	c := kit.New(t, "C06", "rapid: in-limit transactions; Marshal and PayloadMarshal compared byte for byte with an independent writer; non-trivial = encoding > 100 bytes with >=1 input and >=1 output; distinct by encoding hash")
	c.Require("aggregate", "mask-sparse", "mask-ordinary", "mask@2n", "mask@2n+1", "mask@2n-1", "mask@2n+2", "sigmap>=2")
	kit.SetChecks(kit.N(1500, 60000))
	rapid.Check(t, func(t *rapid.T) {
		tx, info := vpC06GenTx(t)
		ver := vpC06Clone(tx).AsVersioned()
		var b, pm []byte
		if p := vpCatch(func() { b = ver.Marshal(); pm = ver.PayloadMarshal() }); p != nil {
			t.Fatalf("encoder panicked on an in-limit transaction: %v", p)
		}
		if ref := vpC06RefEncode(tx, nil); !bytes.Equal(ref, b) {
			i := 0
			for i < len(ref) && i < len(b) && ref[i] == b[i] {
				i++
			}
			t.Fatalf("Marshal differs from the reference encoding at byte %d (len %d vs %d) classes %v", i, len(b), len(ref), info.Classes)
		}
		if ref := vpC06RefPayloadBytes(&tx.Transaction); !bytes.Equal(ref, pm) {
			t.Fatalf("PayloadMarshal differs from the reference payload encoding (len %d vs %d)", len(pm), len(ref))
		}
		c.Case(vpC06FP(b), vpC06Nontrivial(tx, b), info.Classes...)
	})
}

// TestVP_C06_size_boundary places the whole encoding at TransactionMaximumSize
// -1 / exactly / +1 by sizing the extra field.
func TestVP_C06_size_boundary(t *testing.T) {
	c := kit.New(t, "C06", "rapid: a small generated transaction whose extra is sized so that the whole encoding is TransactionMaximumSize-1, exactly the maximum, or one above; at or below: round trip; above: the encoder must panic or the decoder reject (no silent acceptance); non-trivial = every case; distinct by encoding hash")
	c.Require("max-1", "max", "max+1")
	kit.SetChecks(kit.N(3, 60))
	rapid.Check(t, func(t *rapid.T) {
		tx, _ := vpC06GenTx(t)
		tx.Extra = nil
		base := len(vpC06RefEncode(tx, nil))
		if base > 1<<20 {
			tx.Inputs, tx.Outputs = nil, nil
			base = len(vpC06RefEncode(tx, nil))
		}
		seed := rapid.SliceOfN(rapid.Byte(), 1, 8).Draw(t, "seed")
		for _, delta := range []int{-1, 0, 1} {
			n := config.TransactionMaximumSize - base + delta
			tx.Extra = vpC06Fill(seed, n)
			if delta <= 0 {
				b := vpC06RoundTrip(t, tx)
				if len(b) != config.TransactionMaximumSize+delta {
					t.Fatalf("boundary sizing off: %d", len(b))
				}
				c.Case(vpC06FP(b), true, map[int]string{-1: "max-1", 0: "max"}[delta])
				continue
			}
			ver := vpC06Clone(tx).AsVersioned()
			var b []byte
			if p := vpCatch(func() { b = ver.marshal() }); p == nil {
				if dec, ok := vpC06Probe(t, b); ok {
					t.Fatalf("encoding of %d bytes accepted (%d inputs)", len(b), len(dec.Inputs))
				}
			}
			if p := vpCatch(func() { _ = vpC06Clone(tx).AsVersioned().Marshal() }); p == nil && config.Debug {
				t.Fatalf("Marshal returned an encoding above the maximum that the decoder rejects, without panicking")
			}
			c.Case(fmt.Sprintf("over:%d:%x", base, seed), true, "max+1")
		}
	})
}

// vpC06Break pushes one dimension of tx outside the encoder's limits.
func vpC06Break(t *rapid.T, tx *SignedTransaction) string {
	kinds := []string{"inputs=257", "outputs=257", "keys=257", "references=257", "index=1025", "sigmaps=257", "signers-unsorted",
		"signers-duplicate", "signer>65535", "version", "field=65536", "integer=65536B", "extra>4MiB"}
	k := rapid.SampledFrom(kinds).Draw(t, "break")
	fill := func(i int) crypto.Hash {
		var h crypto.Hash
		h[0], h[1], h[31] = byte(i), byte(i>>8), 7
		return h
	}
	ensureOut := func() *Output {
		if len(tx.Outputs) == 0 {
			tx.Outputs = []*Output{{Type: 0, Amount: NewInteger(1)}}
		}
		return tx.Outputs[rapid.IntRange(0, len(tx.Outputs)-1).Draw(t, "out_i")]
	}
	ensureIn := func() *Input {
		if len(tx.Inputs) == 0 {
			tx.Inputs = []*Input{{}}
		}
		return tx.Inputs[rapid.IntRange(0, len(tx.Inputs)-1).Draw(t, "in_i")]
	}
	over := rapid.SampledFrom([]int{257, 258, 300, 1000}).Draw(t, "over")
	switch k {
	case "inputs=257":
		for i := 0; len(tx.Inputs) < over; i++ {
			tx.Inputs = append(tx.Inputs, &Input{Hash: fill(i), Index: uint(i % 7)})
		}
	case "outputs=257":
		for i := 0; len(tx.Outputs) < over; i++ {
			tx.Outputs = append(tx.Outputs, &Output{Type: 0, Amount: NewInteger(uint64(i))})
		}
	case "keys=257":
		o := ensureOut()
		for i := 0; len(o.Keys) < over; i++ {
			kk := crypto.Key(fill(i))
			o.Keys = append(o.Keys, &kk)
		}
	case "references=257":
		for i := 0; len(tx.References) < over; i++ {
			tx.References = append(tx.References, fill(i))
		}
	case "index=1025":
		ensureIn().Index = uint(rapid.SampledFrom([]int{1025, 1026, 4096, 65535, 65536, 65536 + 3, 65536 + 1024, 65536 + 1025, 1 << 17, 1<<32 + 7, 1 << 48}).Draw(t, "bad_index"))
	case "sigmaps=257":
		tx.AggregatedSignature = nil
		sig := &crypto.Signature{1}
		n := rapid.SampledFrom([]int{257, 300, 65534, 65535, 65536}).Draw(t, "nmaps_over")
		for len(tx.SignaturesMap) < n {
			tx.SignaturesMap = append(tx.SignaturesMap, map[uint16]*crypto.Signature{0: sig})
		}
	case "signers-unsorted":
		tx.SignaturesMap = nil
		tx.AggregatedSignature = &AggregatedSignature{Signers: []int{5, 3, 9}}
	case "signers-duplicate":
		tx.SignaturesMap = nil
		tx.AggregatedSignature = &AggregatedSignature{Signers: []int{1, 4, 4}}
	case "signer>65535":
		tx.SignaturesMap = nil
		tx.AggregatedSignature = &AggregatedSignature{Signers: []int{1, rapid.SampledFrom([]int{65536, 65537, 1 << 20}).Draw(t, "big_signer")}}
	case "version":
		tx.Version = rapid.SampledFrom([]uint8{0, 1, 4, 6, 0xff}).Draw(t, "bad_version")
	case "field=65536":
		big := make([]byte, 65536)
		switch rapid.IntRange(0, 3).Draw(t, "which_field") {
		case 0:
			ensureIn().Genesis = big
		case 1:
			ensureOut().Script = big
		case 2:
			ensureOut().Withdrawal = &WithdrawalData{Address: string(big)}
		case 3:
			ensureIn().Deposit = &DepositData{AssetKey: "a", Transaction: string(big)}
		}
	case "integer=65536B":
		b := make([]byte, 65536)
		b[0] = 1
		var v Integer
		v.i.SetBytes(b)
		ensureOut().Amount = v
	case "extra>4MiB":
		tx.Extra = make([]byte, ExtraSizeStorageCapacity+1)
	}
	return k
}

func TestVP_C06_outside_limits(t *testing.T) {
	c := kit.New(t, "C06", "rapid: an in-limit transaction with exactly one dimension pushed outside the encoder's documented limits (257+ inputs/outputs/keys/references/signature maps, input index > 1024, unsorted/duplicate/oversized aggregate signers, unknown version, 65536-byte field or amount, extra > 4 MiB); the encoder must panic, or the decoder must reject its output, or the decoded value must equal the input: never a silent different acceptance; non-trivial = every case; distinct by kind+payload hash")
	c.Require("inputs=257", "outputs=257", "keys=257", "references=257", "index=1025", "sigmaps=257", "signers-unsorted", "encoder-panic", "decoder-reject")
	kit.SetChecks(kit.N(400, 20000))
	rapid.Check(t, func(t *rapid.T) {
		tx, _ := vpC06GenTx(t)
		if len(tx.Extra) > 70000 {
			tx.Extra = tx.Extra[:70000]
		}
		kind := vpC06Break(t, tx)
		want := vpC06View(tx)
		outcome := ""
		var b []byte
		p := vpCatch(func() {
			sc := vpC06Clone(tx)
			b = (&VersionedTransaction{SignedTransaction: *sc}).marshal()
		})
		if p != nil {
			outcome = "encoder-panic"
		} else if dec, err := vpC06Unmarshal(t, b); err != nil {
			outcome = "decoder-reject"
		} else {
			vpC06CheckAccepted(t, b, dec)
			if got := vpC06View(&dec.SignedTransaction); got != want {
				t.Fatalf("out-of-limit transaction (%s) silently accepted as a different transaction\nwant %s\ngot  %s", kind, vpC06Trunc(want), vpC06Trunc(got))
			}
			outcome = "accepted-equal"
		}
		// the same out-of-limit value written by the independent writer (the
		// production encoder refuses most of them, a peer's bytes need not come
		// from it): the decoder must reject it or return exactly this value,
		// and must not crash
		var rb []byte
		fits := false
		if vpCatch(func() { rb, fits = vpC06RefEncodeFits(vpC06Clone(tx)) }) == nil && fits && len(rb) <= config.TransactionMaximumSize {
			if dec, err := vpC06Unmarshal(t, rb); err == nil {
				if got := vpC06View(&dec.SignedTransaction); got != want {
					t.Fatalf("out-of-limit encoding (%s) from the reference writer accepted as a different transaction\nwant %s\ngot  %s", kind, vpC06Trunc(want), vpC06Trunc(got))
				}
				c.Class("ref-encoding-accepted-equal")
			} else {
				c.Class("ref-encoding-rejected")
			}
		}
		// the public entry point panics in either rejecting case (Debug build)
		if outcome != "accepted-equal" && config.Debug && tx.Version >= TxVersionHashSignature {
			if p := vpCatch(func() { _ = vpC06Clone(tx).AsVersioned().Marshal() }); p == nil {
				t.Fatalf("Marshal returned normally for %s although the encoding is not decodable", kind)
			}
		}
		c.Case(kind+vpC06FP([]byte(want)), true, kind, outcome)
	})
}

// vpC06Variant picks a non-canonical rendering applicable to tx, adapting tx when needed.
func vpC06Variant(t *rapid.T, tx *SignedTransaction) (*vpC06Var, string) {
	kinds := []string{"sig-order", "sig-dup-index", "mask-force-sparse", "mask-force-ordinary", "mask-padded", "sparse-reversed",
		"sparse-duplicate", "integer-leading-zero", "trailing-bytes", "empty-signers-sparse"}
	k := rapid.SampledFrom(kinds).Draw(t, "variant")
	v := &vpC06Var{}
	needMaps := func(min int) {
		tx.AggregatedSignature = nil
		for _, sm := range tx.SignaturesMap {
			if len(sm) >= min {
				return
			}
		}
		sm := map[uint16]*crypto.Signature{}
		for len(sm) < min+rapid.IntRange(0, 2).Draw(t, "more_sigs") {
			sm[vpC06SigIndex(t, fmt.Sprintf("vi%d", len(sm)))] = vpC06Sig(t, fmt.Sprintf("vs%d", len(sm)))
		}
		tx.SignaturesMap = append(tx.SignaturesMap, sm)
	}
	needAgg := func(sparse bool) {
		tx.SignaturesMap = nil
		a := tx.AggregatedSignature
		if a != nil && len(a.Signers) > 0 && vpC06MaskSparse(a.Signers) == sparse {
			return
		}
		n := rapid.IntRange(1, 5).Draw(t, "vn")
		signers := make([]int, n)
		for i := range signers {
			signers[i] = i * 2
		}
		if sparse {
			signers[n-1] = 8*(2*n) + rapid.IntRange(0, 500).Draw(t, "vfar") // mask bytes >= 2n+1
		} else if n > 1 {
			signers[n-1] = rapid.IntRange(2*(n-1)-1, 8*2*n-1).Draw(t, "vnear") // mask bytes <= 2n
		}
		tx.AggregatedSignature = &AggregatedSignature{Signers: signers, Signature: *vpC06Sig(t, "vagg")}
	}
	switch k {
	case "sig-order":
		needMaps(2)
		v.SigOrder = rapid.SampledFrom([]string{"reverse", "rotate"}).Draw(t, "order")
	case "sig-dup-index":
		needMaps(1)
		v.DupSigIndex = true
	case "mask-force-sparse":
		needAgg(false)
		v.MaskForm = 1
	case "mask-force-ordinary":
		needAgg(true)
		v.MaskForm = 2
	case "mask-padded":
		needAgg(false)
		v.MaskForm = 2
		v.MaskPad = rapid.IntRange(1, 3).Draw(t, "pad")
	case "sparse-reversed":
		needAgg(true)
		if len(tx.AggregatedSignature.Signers) < 2 {
			tx.AggregatedSignature.Signers = []int{3, 4000}
		}
		v.SparseOrder = "reverse"
	case "sparse-duplicate":
		needAgg(true)
		v.SparseOrder = "dup"
	case "empty-signers-sparse":
		tx.SignaturesMap = nil
		tx.AggregatedSignature = &AggregatedSignature{Signature: *vpC06Sig(t, "vagg0")}
		v.MaskForm = 1
	case "integer-leading-zero":
		small := func(x *Integer) { // keep length+padding inside the 16-bit length field
			if x.i.BitLen() > 8*60000 {
				*x = NewInteger(3)
			}
		}
		for _, in := range tx.Inputs {
			if in.Deposit != nil {
				small(&in.Deposit.Amount)
			}
			if in.Mint != nil {
				small(&in.Mint.Amount)
			}
		}
		for _, o := range tx.Outputs {
			small(&o.Amount)
		}
		ints := 0
		for _, in := range tx.Inputs {
			if in.Deposit != nil {
				ints++
			}
			if in.Mint != nil {
				ints++
			}
		}
		ints += len(tx.Outputs)
		if ints == 0 {
			tx.Outputs = append(tx.Outputs, &Output{Amount: vpC06Integer(t, "vamt", false)})
			ints = 1
		}
		v.IntPadAt = rapid.IntRange(1, ints).Draw(t, "pad_at")
		v.IntPad = rapid.IntRange(1, 2).Draw(t, "pad_n")
	case "trailing-bytes":
		v.Trailing = rapid.SliceOfN(rapid.Byte(), 1, 4).Draw(t, "trailing")
		if rapid.Bool().Draw(t, "zero_trailing") {
			v.Trailing = make([]byte, len(v.Trailing))
		}
	}
	return v, k
}

func TestVP_C06_noncanonical(t *testing.T) {
	c := kit.New(t, "C06", "rapid: an in-limit transaction written by the independent writer in a deliberately non-canonical way (signature map entries out of index order or repeated, sparse list where the bit mask is canonical and vice versa, zero-padded bit mask, reversed/duplicated sparse list, empty signer set as sparse list, amount with leading zero bytes, trailing bytes); a different byte string for the same value must be rejected; non-trivial = every case; distinct by byte-string hash")
	kinds := []string{"sig-order", "sig-dup-index", "mask-force-sparse", "mask-force-ordinary", "mask-padded", "sparse-reversed",
		"sparse-duplicate", "integer-leading-zero", "trailing-bytes", "empty-signers-sparse"}
	c.Require(kinds...)
	c.Require("canonical-twin-accepted")
	kit.SetChecks(kit.N(2000, 100000))
	rapid.Check(t, func(t *rapid.T) {
		tx, _ := vpC06GenTx(t)
		if len(tx.Extra) > 4096 {
			tx.Extra = tx.Extra[:4096]
		}
		v, kind := vpC06Variant(t, tx)
		canon := vpC06RefEncode(tx, nil)
		b := vpC06RefEncode(tx, v)
		if bytes.Equal(b, canon) {
			t.Fatalf("harness: variant %s produced the canonical bytes", kind)
		}
		cl := []string{kind}
		if _, ok := vpC06Probe(t, canon); ok {
			cl = append(cl, "canonical-twin-accepted")
			// the canonical twin is accepted, so a second spelling of the same value must not be
			if dec, ok := vpC06Probe(t, b); ok {
				t.Fatalf("non-canonical spelling (%s) accepted alongside the canonical one: %s", kind, vpC06Trunc(vpC06AuthView(&dec.SignedTransaction)))
			}
		} else {
			vpC06Probe(t, b) // claim (1) still applies to whatever is accepted
		}
		c.Case(vpC06FP(b), true, cl...)
	})
}
