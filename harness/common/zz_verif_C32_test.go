//go:build verif

package common

import (
	"crypto/sha512"
	"encoding/binary"
	"encoding/json"
	"fmt"
	"strings"
	"sync"
	"testing"

	"github.com/MixinNetwork/mixin/crypto"
	"github.com/MixinNetwork/mixin/util/base58"
	"pgregory.net/rapid"
	kit "verifkit"
)

const vpC32Alphabet = "123456789ABCDEFGHJKLMNPQRSTUVWXYZabcdefghijkmnopqrstuvwxyz"

func vpC32Seed64(base []byte, tag string, i int) []byte {
	buf := append([]byte{}, base...)
	buf = append(buf, tag...)
	buf = binary.BigEndian.AppendUint32(buf, uint32(i))
	d := sha512.Sum512(buf)
	return d[:]
}

var (
	vpC32ZeroOnce  sync.Once
	vpC32ZeroSeeds [][]byte
)

// vpC32LeadingZeroSeeds finds a few seeds whose public spend key starts with a
// zero byte (its printed form then starts with the base58 zero digit).
func vpC32LeadingZeroSeeds() [][]byte {
	vpC32ZeroOnce.Do(func() {
		for i := 0; len(vpC32ZeroSeeds) < 4 && i < 20000; i++ {
			seed := vpC32Seed64([]byte("c32-leading-zero"), "grind", i)
			spend := crypto.NewKeyFromSeed(seed)
			if spend.Public()[0] == 0 {
				vpC32ZeroSeeds = append(vpC32ZeroSeeds, seed)
			}
		}
	})
	return vpC32ZeroSeeds
}

// vpC32Print builds the printed form of 64 payload bytes with a correct
// checksum, independently of Address.String.
func vpC32Print(payload []byte) string {
	sum := crypto.Sha256Hash(append([]byte("XIN"), payload[:64]...))
	return "XIN" + base58.Encode(append(append([]byte{}, payload[:64]...), sum[:4]...))
}

// vpC32Judge is the oracle for one candidate string: rejected, or accepted and
// printing back identically (and parsing back to the same value).
func vpC32Judge(s string) (accepted bool, err error) {
	var a Address
	var perr error
	if p := vpCatch(func() { a, perr = NewAddressFromString(s) }); p != nil {
		return false, fmt.Errorf("NewAddressFromString(%q) panicked: %v", s, p)
	}
	if perr != nil {
		return false, nil
	}
	if got := a.String(); got != s {
		return true, fmt.Errorf("accepted address string %q prints back as %q", s, got)
	}
	b, perr := NewAddressFromString(a.String())
	if perr != nil || b != a {
		return true, fmt.Errorf("accepted address %q does not parse back to the same value (%v)", s, perr)
	}
	return true, nil
}

func vpC32MutateChar(t *rapid.T, s string) (string, string) {
	switch rapid.IntRange(0, 9).Draw(t, "mut_kind") {
	case 0, 1, 2: // replace one payload character by another alphabet character
		pos := rapid.IntRange(3, len(s)-1).Draw(t, "pos")
		c := vpC32Alphabet[rapid.IntRange(0, 57).Draw(t, "char")]
		if s[pos] == c {
			c = vpC32Alphabet[(strings.IndexByte(vpC32Alphabet, c)+1)%58]
		}
		return s[:pos] + string(c) + s[pos+1:], "replace-alphabet"
	case 3: // the last character: touches the low checksum byte only
		c := vpC32Alphabet[rapid.IntRange(0, 57).Draw(t, "char")]
		if s[len(s)-1] == c {
			c = vpC32Alphabet[(strings.IndexByte(vpC32Alphabet, c)+1)%58]
		}
		return s[:len(s)-1] + string(c), "replace-last"
	case 4: // a character outside the alphabet
		pos := rapid.IntRange(0, len(s)-1).Draw(t, "pos")
		c := rapid.SampledFrom([]string{"0", "O", "I", "l", " ", "\n", "\x00", "+", "/", "é", "\xff", "１"}).Draw(t, "junk")
		return s[:pos] + c + s[pos+1:], "replace-junk"
	case 5: // insert
		pos := rapid.IntRange(0, len(s)).Draw(t, "pos")
		c := rapid.SampledFrom([]string{"1", "1", "2", "z", " ", "0"}).Draw(t, "ins")
		return s[:pos] + c + s[pos:], "insert"
	case 6: // delete
		pos := rapid.IntRange(0, len(s)-1).Draw(t, "pos")
		return s[:pos] + s[pos+1:], "delete"
	case 7: // prefix variants
		p := rapid.SampledFrom([]string{"xin", "Xin", "XIN ", " XIN", "XINXIN", "", "XI", "XIN1"}).Draw(t, "prefix")
		return p + s[3:], "prefix"
	case 8: // surrounding white space / case
		v := rapid.SampledFrom([]string{s + " ", s + "\n", "\t" + s, strings.ToUpper(s), strings.ToLower(s), s + s[3:]}).Draw(t, "wrap")
		return v, "wrap"
	default: // transpose two neighbours
		pos := rapid.IntRange(3, len(s)-2).Draw(t, "pos")
		if s[pos] == s[pos+1] {
			return s[:pos] + "2" + s[pos+1:], "replace-alphabet"
		}
		return s[:pos] + string(s[pos+1]) + string(s[pos]) + s[pos+2:], "transpose"
	}
}

func TestVP_C32_address(t *testing.T) {
	col := kit.New(t, "C32", "rapid: addresses from seed bytes (incl. public spend keys with a leading zero byte), print/parse/JSON round trip; then candidates derived from the printed form: single-character replacement / insertion / deletion / transposition, junk characters, prefix and white-space variants, one payload or checksum byte changed and re-encoded, key bytes replaced (small-order, non-canonical, random, other valid key) with a recomputed checksum, and random strings with the XIN prefix; oracle: every candidate is rejected or prints back identically; non-trivial = mutated string that keeps the XIN prefix and a valid alphabet; distinct by candidate string")
	col.Require("roundtrip", "leading-zero-key", "replace-alphabet", "replace-last", "replace-junk", "insert", "delete", "prefix", "wrap", "transpose",
		"byte-payload", "byte-checksum", "payload-with-tail", "rekey-valid-accepted", "rekey-invalid-point", "random-string", "accepted-candidate")
	kit.SetChecks(kit.N(2000, 100000))
	stale := false
	defer func() {
		if stale {
			kit.Inconclusive(t, "Address.String() no longer is XIN + base58(spend || view || sha3-256(XIN||spend||view)[:4]); the candidate builder must be updated")
		}
	}()
	rapid.Check(t, func(t *rapid.T) {
		base := rapid.SliceOfN(rapid.Byte(), 16, 16).Draw(t, "seed")
		seed := vpC32Seed64(base, "addr", 0)
		classes := []string{"roundtrip"}
		if zs := vpC32LeadingZeroSeeds(); len(zs) > 0 && rapid.IntRange(0, 9).Draw(t, "zero_key") == 0 {
			seed = zs[rapid.IntRange(0, len(zs)-1).Draw(t, "zero_pick")]
		}
		var a Address
		if p := vpCatch(func() { a = NewAddressFromSeed(seed) }); p != nil {
			t.Fatalf("NewAddressFromSeed(%x) panicked: %v", seed, p)
		}
		if a.PublicSpendKey[0] == 0 {
			classes = append(classes, "leading-zero-key")
		}
		if a.PublicSpendKey != a.PrivateSpendKey.Public() || a.PublicViewKey != a.PrivateViewKey.Public() {
			t.Fatalf("address from seed: public keys do not belong to the private keys")
		}
		s := a.String()
		if s != vpC32Print(append(append([]byte{}, a.PublicSpendKey[:]...), a.PublicViewKey[:]...)) {
			// the harness builds checksum-valid candidates with its own copy of the layout;
			// a different layout is not a violation of the round-trip property
			stale = true
			return
		}
		pub := Address{PublicSpendKey: a.PublicSpendKey, PublicViewKey: a.PublicViewKey}
		got, err := NewAddressFromString(s)
		if err != nil || got != pub {
			t.Fatalf("parse(print(a)) for %q: %v, same value = %v", s, err, got == pub)
		}
		if ok, err := vpC32Judge(s); err != nil || !ok {
			t.Fatalf("printed address %q: accepted=%v %v", s, ok, err)
		}
		js, err := json.Marshal(a)
		if err != nil || string(js) != `"`+s+`"` {
			t.Fatalf("Address JSON = %s, %v", js, err)
		}
		var viaJSON Address
		if err := json.Unmarshal(js, &viaJSON); err != nil || viaJSON != pub {
			t.Fatalf("Address JSON round trip of %s: %v", js, err)
		}
		col.Case("rt:"+s, false, classes...)

		judge := func(cand, class string) {
			ok, err := vpC32Judge(cand)
			if err != nil {
				t.Fatalf("[%s] %v (derived from %q)", class, err, s)
			}
			cl := []string{class}
			if ok {
				cl = append(cl, "accepted-candidate")
			}
			alphabetOnly := strings.HasPrefix(cand, "XIN") && strings.Trim(cand[3:], vpC32Alphabet) == ""
			col.Case("cand:"+cand, alphabetOnly && cand != s, cl...)
		}

		// character-level mutations of the printed form
		for i := 0; i < 3; i++ {
			cand, class := vpC32MutateChar(t, s)
			judge(cand, class)
		}
		// the valid 68 bytes followed by more bytes, re-encoded: a longer string
		// with a correct payload and checksum in front
		{
			payload := append(append([]byte{}, a.PublicSpendKey[:]...), a.PublicViewKey[:]...)
			sum := crypto.Sha256Hash(append([]byte("XIN"), payload...))
			body := append(append([]byte{}, payload...), sum[:4]...)
			extra := rapid.SliceOfN(rapid.Byte(), 1, 5).Draw(t, "tail_bytes")
			if rapid.Bool().Draw(t, "tail_zero") {
				extra[0] = 0
			}
			judge("XIN"+base58.Encode(append(append([]byte{}, body...), extra...)), "payload-with-tail")
			judge("XIN"+base58.Encode(append(append([]byte{}, extra...), body...)), "payload-with-head")
		}
		// non-ASCII aliases: a multi-byte character whose low byte is a base58
		// letter, standing in for that letter (one for one) or for a "1x" pair
		// (two for one, which keeps the byte length and the decoder's grouping)
		if pos := rapid.IntRange(3, len(s)-1).Draw(t, "alias_pos"); true {
			r := rune(0x100*rapid.SampledFrom([]int{1, 2, 7, 0x20, 0xff}).Draw(t, "alias_page") + int(s[pos]))
			judge(s[:pos]+string(r)+s[pos+1:], "rune-alias")
		}
		for i := 3; i+1 < len(s); i++ {
			if s[i] == '1' {
				judge(s[:i]+string(rune(0x100+int(s[i+1])))+s[i+2:], "rune-alias-pair")
			}
		}
		// byte-level: one payload or checksum byte changed, checksum left alone
		data := base58.Decode(s[3:])
		if len(data) != 68 {
			t.Fatalf("printed address %q decodes to %d bytes", s, len(data))
		}
		pos := rapid.OneOf(rapid.IntRange(0, 67), rapid.IntRange(64, 67)).Draw(t, "byte_pos")
		mut := append([]byte{}, data...)
		mut[pos] ^= byte(rapid.IntRange(1, 255).Draw(t, "byte_xor"))
		if pos >= 64 {
			judge("XIN"+base58.Encode(mut), "byte-checksum")
		} else {
			judge("XIN"+base58.Encode(mut), "byte-payload")
		}
		// keys replaced, checksum recomputed: passes the checksum, must pass or fail on the keys alone
		payload := append([]byte{}, data[:64]...)
		which := 32 * rapid.IntRange(0, 1).Draw(t, "which_key")
		switch rapid.IntRange(0, 4).Draw(t, "rekey") {
		case 0: // another valid key
			other := crypto.NewKeyFromSeed(vpC32Seed64(base, "other", 0)).Public()
			copy(payload[which:], other[:])
			cand := vpC32Print(payload)
			ok, err := vpC32Judge(cand)
			if err != nil || !ok {
				t.Fatalf("address with a valid replaced key and correct checksum %q: accepted=%v %v", cand, ok, err)
			}
			col.Case("cand:"+cand, true, "rekey-valid-accepted", "accepted-candidate")
		case 1: // small order points
			sm := []string{"0100000000000000000000000000000000000000000000000000000000000000", "ecffffffffffffffffffffffffffffffffffffffffffffffffffffffffffff7f",
				"0000000000000000000000000000000000000000000000000000000000000000", "26e8958fc2b227b045c3f489f2ef98f0d5dfac05d3c63339b13802886d53fc05"}
			k, _ := crypto.KeyFromString(rapid.SampledFrom(sm).Draw(t, "small"))
			copy(payload[which:], k[:])
			judge(vpC32Print(payload), "rekey-invalid-point")
		case 2: // non-canonical encodings
			nc := []string{"0100000000000000000000000000000000000000000000000000000000000080", "eeffffffffffffffffffffffffffffffffffffffffffffffffffffffffffff7f",
				"edffffffffffffffffffffffffffffffffffffffffffffffffffffffffffff7f", "ffffffffffffffffffffffffffffffffffffffffffffffffffffffffffffffff"}
			k, _ := crypto.KeyFromString(rapid.SampledFrom(nc).Draw(t, "noncanon"))
			copy(payload[which:], k[:])
			judge(vpC32Print(payload), "rekey-invalid-point")
		case 3: // random bytes (about half are not on the curve, most of the rest carry torsion)
			copy(payload[which:], vpC32Seed64(base, "random-key", 0)[:32])
			judge(vpC32Print(payload), "rekey-random-bytes")
		default: // flip the sign bit / one bit of a valid key
			bit := rapid.IntRange(0, 255).Draw(t, "key_bit")
			payload[which+bit/8] ^= 1 << uint(bit%8)
			judge(vpC32Print(payload), "rekey-bitflip")
		}
		// random strings with the prefix
		n := rapid.IntRange(0, 100).Draw(t, "rand_len")
		rs := make([]byte, n)
		for i := range rs {
			rs[i] = vpC32Alphabet[rapid.IntRange(0, 57).Draw(t, "rc")]
		}
		judge("XIN"+string(rs), "random-string")
		col.Sample(map[string]string{"address": s})
	})
}

// FuzzVP_C32_address: native fuzzing of the address parser. Any accepted string
// prints back identically; raw key material with a recomputed checksum gets the
// fuzzer past the checksum.
func FuzzVP_C32_address(f *testing.F) {
	for i := 0; i < 8; i++ {
		a := NewAddressFromSeed(vpC32Seed64([]byte("c32-fuzz"), "addr", i))
		s := a.String()
		f.Add(s, append(append([]byte{}, a.PublicSpendKey[:]...), a.PublicViewKey[:]...))
		f.Add(s[:len(s)-1]+"1", []byte{})
		f.Add("XIN"+strings.Repeat("1", i*11), make([]byte, 64))
		f.Add(strings.ToLower(s), []byte(s))
	}
	for _, z := range vpC32LeadingZeroSeeds() {
		a := NewAddressFromSeed(z)
		f.Add(a.String(), append(append([]byte{}, a.PublicSpendKey[:]...), a.PublicViewKey[:]...))
	}
	f.Add("", []byte{})
	f.Add("XIN", []byte{1})
	f.Fuzz(func(t *testing.T, s string, raw []byte) {
		if _, err := vpC32Judge(s); err != nil {
			t.Fatal(err)
		}
		if len(raw) >= 64 {
			cand := vpC32Print(raw[:64])
			ok, err := vpC32Judge(cand)
			if err != nil {
				t.Fatal(err)
			}
			_ = ok
		}
	})
}

// ---- sender / recipient through the transaction API ---------------------------

type vpC32Reader map[string]*UTXOKeys

func (r vpC32Reader) ReadUTXOKeys(hash crypto.Hash, index uint) (*UTXOKeys, error) {
	return r[fmt.Sprintf("%s:%d", hash, index)], nil
}

// The sender derives one-time keys when it adds outputs (AddOutputWithType, by
// output position); the recipient derives the private keys when it spends them
// (SignInput / SignUTXO, by the spent output's index, wherever the input sits
// in the spending transaction). Both sides must meet in the same key.
func TestVP_C32_sender_recipient_api(t *testing.T) {
	c := kit.New(t, "C32", "rapid: 1..4 accounts from drawn seeds; a funding transaction with 1..6 outputs (script and other output types) to drawn owner subsets, keys made by AddOutputWithType; a spending transaction whose 1..4 inputs reference drawn outputs in drawn order, so input position and output index differ; oracle: SignInput and SignUTXO succeed for the owners, every signature verifies under the output's one-time key at that owner's position, viewing the key with the owner's private view key recovers the owner's public spend key, and a non-owner cannot sign; non-trivial = an input whose position differs from the spent output's index; distinct by (seeds, layout)")
	c.Require("position!=index", "multi-owner", "non-owner-refused", "SignUTXO", "view-script-output-behind-other-type")
	kit.SetChecks(kit.N(300, 20000))
	rapid.Check(t, func(t *rapid.T) {
		base := rapid.SliceOfN(rapid.Byte(), 16, 16).Draw(t, "seed")
		na := rapid.IntRange(2, 4).Draw(t, "accounts")
		var accts []*Address
		for i := 0; i < na; i++ {
			a := NewAddressFromSeed(vpC32Seed64(base, "acct", i))
			accts = append(accts, &a)
		}
		viewShifted := false
		fund := NewTransactionV5(XINAssetId)
		fund.AddInput(crypto.Blake3Hash(base), 0)
		nout := rapid.IntRange(1, 6).Draw(t, "outputs")
		owners := make([][]int, nout)
		for o := 0; o < nout; o++ {
			k := rapid.IntRange(1, na-1).Draw(t, "owners")
			owners[o] = rapid.Permutation(vpC32Range(na)).Draw(t, "owner_set")[:k]
			var as []*Address
			for _, ai := range owners[o] {
				as = append(as, accts[ai])
			}
			ot := rapid.SampledFrom([]uint8{OutputTypeScript, OutputTypeScript, OutputTypeScript, OutputTypeNodeRemove, OutputTypeCustodianUpdateNodes}).Draw(t, "otype")
			fund.AddOutputWithType(ot, as, NewThresholdScript(uint8(k)), NewInteger(uint64(o+1)), vpC32Seed64(base, "out", o))
		}
		// the transaction-level view (ViewGhostKey) answers per script output, in
		// order, with the spend keys the outputs were made for; other output types
		// (with or without keys) sit in between
		for ai, acct := range accts {
			viewed := fund.ViewGhostKey(&acct.PrivateViewKey)
			vi := 0
			for o, out := range fund.Outputs {
				if out.Type != OutputTypeScript {
					continue
				}
				if vi >= len(viewed) || len(viewed[vi].Keys) != len(out.Keys) {
					t.Fatalf("ViewGhostKey returned %d outputs, script output %d (position %d) has no counterpart", len(viewed), vi, o)
				}
				for ki, owner := range owners[o] {
					if owner == ai && *viewed[vi].Keys[ki] != acct.PublicSpendKey {
						t.Fatalf("ViewGhostKey with the view key of account %d: key %d of output %d (script output #%d) gives %s, the owner's spend key is %s", ai, ki, o, vi, viewed[vi].Keys[ki], acct.PublicSpendKey)
					}
				}
				if vi != o {
					viewShifted = true
				}
				vi++
			}
		}
		fh := fund.AsVersioned().PayloadHash()
		reader := vpC32Reader{}
		for o, out := range fund.Outputs {
			reader[fmt.Sprintf("%s:%d", fh, o)] = &UTXOKeys{Mask: out.Mask, Keys: out.Keys}
		}
		nin := rapid.IntRange(1, min(4, nout)).Draw(t, "inputs")
		picks := rapid.Permutation(vpC32Range(nout)).Draw(t, "spent")[:nin]
		spend := NewTransactionV5(XINAssetId)
		for _, o := range picks {
			spend.AddInput(fh, uint(o))
		}
		spend.AddScriptOutput([]*Address{accts[0]}, NewThresholdScript(1), NewInteger(1), vpC32Seed64(base, "spend-out", 0))
		signed := &SignedTransaction{Transaction: *spend}
		msg := signed.AsVersioned().PayloadHash()
		classes := []string{}
		if viewShifted {
			classes = append(classes, "view-script-output-behind-other-type")
		}
		nt := false
		for p, o := range picks {
			var as []*Address
			for _, ai := range owners[o] {
				as = append(as, accts[ai])
			}
			if len(as) > 1 {
				classes = append(classes, "multi-owner")
			}
			if p != o {
				nt = true
				classes = append(classes, "position!=index")
			}
			if err := signed.SignInput(reader, p, as); err != nil {
				t.Fatalf("the owners of output %d cannot sign it as input %d: %v", o, p, err)
			}
			sigs := signed.SignaturesMap[len(signed.SignaturesMap)-1]
			if len(sigs) != len(as) {
				t.Fatalf("input %d: %d signatures for %d owners", p, len(sigs), len(as))
			}
			out := fund.Outputs[o]
			for i, ai := range owners[o] {
				sig := sigs[uint16(i)]
				if sig == nil || !out.Keys[i].Verify(msg, *sig) {
					t.Fatalf("output %d spent as input %d: signature of owner %d does not verify under the one-time key the sender derived", o, p, ai)
				}
				if got := crypto.ViewGhostOutputKey(out.Keys[i], &accts[ai].PrivateViewKey, &out.Mask, uint64(o)); *got != accts[ai].PublicSpendKey {
					t.Fatalf("output %d key %d viewed with the owner's view key gives %s, owner spend key %s", o, i, got, accts[ai].PublicSpendKey)
				}
			}
			// the same through SignUTXO
			s2 := &SignedTransaction{Transaction: *spend}
			if err := s2.SignUTXO(&UTXO{Input: Input{Hash: fh, Index: uint(o)}, Output: *out}, as); err != nil {
				t.Fatalf("SignUTXO of output %d: %v", o, err)
			}
			for i := range owners[o] {
				if sig := s2.SignaturesMap[0][uint16(i)]; sig == nil || !out.Keys[i].Verify(msg, *sig) {
					t.Fatalf("SignUTXO: signature %d of output %d does not verify", i, o)
				}
			}
			classes = append(classes, "SignUTXO")
			// somebody who is not an owner cannot produce a key of this output
			for ai := range accts {
				isOwner := false
				for _, x := range owners[o] {
					isOwner = isOwner || x == ai
				}
				if !isOwner {
					s3 := &SignedTransaction{Transaction: *spend}
					if err := s3.SignInput(reader, p, []*Address{accts[ai]}); err == nil {
						t.Fatalf("account %d, not an owner of output %d, signed it", ai, o)
					}
					classes = append(classes, "non-owner-refused")
					break
				}
			}
		}
		c.Case(fmt.Sprintf("%x|%v|%v", base, owners, picks), nt, classes...)
		c.Sample(map[string]any{"outputs": nout, "spent_in_order": picks, "owners": owners})
	})
}

func vpC32Range(n int) []int {
	r := make([]int, n)
	for i := range r {
		r[i] = i
	}
	return r
}
