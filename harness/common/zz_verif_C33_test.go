//go:build verif

package common

import (
	"encoding/json"
	"fmt"
	"math/big"
	"strings"
	"testing"

	"pgregory.net/rapid"
	kit "verifkit"
)

var vpPow8 = big.NewInt(100000000)

// vpRefString prints units as integer part, '.', exactly eight digits.
func vpRefString(u *big.Int) string {
	q, r := new(big.Int).QuoRem(u, vpPow8, new(big.Int))
	return fmt.Sprintf("%s.%08d", q.String(), r.Int64())
}

type vpDecimal struct {
	text string
	neg  bool     // value strictly below zero
	val  *big.Rat // exact value
}

// vpGenDecimal builds a decimal literal from the grammar shopspring/decimal
// documents: [sign] digits [. digits] [e [sign] digits], with an exact value.
func vpGenDecimal(t *rapid.T) vpDecimal {
	ni := rapid.IntRange(0, 30).Draw(t, "int_digits")
	nf := rapid.IntRange(0, 20).Draw(t, "frac_digits")
	if ni == 0 && nf == 0 {
		ni = 1
	}
	digit := rapid.SampledFrom([]byte("0000123456789999"))
	ip := string(rapid.SliceOfN(digit, ni, ni).Draw(t, "ip"))
	fp := string(rapid.SliceOfN(digit, nf, nf).Draw(t, "fp"))
	sign := rapid.SampledFrom([]string{"", "", "", "+", "-"}).Draw(t, "sign")
	text := sign + ip
	if nf > 0 || rapid.IntRange(0, 9).Draw(t, "dot") == 0 {
		if ni == 0 || nf > 0 {
			text += "." + fp
		}
	}
	exp := 0
	if rapid.IntRange(0, 3).Draw(t, "has_exp") == 0 {
		exp = rapid.IntRange(-30, 30).Draw(t, "exp")
		text += rapid.SampledFrom([]string{"e", "E"}).Draw(t, "e") + fmt.Sprintf("%d", exp)
	}
	digits := ip + fp
	if digits == "" {
		digits = "0"
	}
	num, _ := new(big.Int).SetString(digits, 10)
	val := new(big.Rat).SetInt(num)
	scale := exp - len(fp)
	p := new(big.Int).Exp(big.NewInt(10), big.NewInt(int64(vpAbs(scale))), nil)
	if scale >= 0 {
		val.Mul(val, new(big.Rat).SetInt(p))
	} else {
		val.Quo(val, new(big.Rat).SetInt(p))
	}
	neg := sign == "-" && num.Sign() != 0
	if sign == "-" {
		val.Neg(val)
	}
	return vpDecimal{text: text, neg: neg, val: val}
}

func vpAbs(x int) int {
	if x < 0 {
		return -x
	}
	return x
}

func vpFloorUnits(r *big.Rat) *big.Int {
	n := new(big.Int).Mul(r.Num(), vpPow8)
	return n.Div(n, r.Denom()) // Euclidean division: floor for positive denominators
}

func TestVP_C33_parse_print(t *testing.T) {
	c := kit.New(t, "C33", "rapid: decimal literals (0..30 integer, 0..20 fractional digits, exponent |e|<=30, optional sign) and units 0..2^520; reference = big.Rat floor at 8 places; non-trivial = more than 8 fractional digits, an exponent, or units >= 2^64; distinct by literal/units")
	c.Require("frac>8", "exponent", "negative-rejected", "units>=2^64")
	kit.SetChecks(kit.N(4000, 400000))
	rapid.Check(t, func(t *rapid.T) {
		d := vpGenDecimal(t)
		var got Integer
		p := vpCatch(func() { got = NewIntegerFromString(d.text) })
		if d.neg {
			c.Case("neg:"+d.text, true, "negative-rejected")
			if p == nil {
				t.Fatalf("negative literal %q accepted as %s", d.text, got)
			}
			return
		}
		if p != nil {
			t.Fatalf("valid literal %q rejected: %v", d.text, p)
		}
		want := vpFloorUnits(d.val)
		if got.i.Cmp(want) != 0 {
			t.Fatalf("parse %q: got %s units want %s", d.text, got.i.String(), want.String())
		}
		s := got.String()
		if s != vpRefString(want) {
			t.Fatalf("print of %q: got %q want %q", d.text, s, vpRefString(want))
		}
		back := NewIntegerFromString(s)
		if back.Cmp(got) != 0 {
			t.Fatalf("parse(print(%s)) = %s", s, back)
		}
		classes := []string{}
		nt := false
		if i := strings.IndexByte(d.text, '.'); i >= 0 {
			fr := d.text[i+1:]
			if j := strings.IndexAny(fr, "eE"); j >= 0 {
				fr = fr[:j]
			}
			if len(fr) > 8 {
				classes = append(classes, "frac>8")
				nt = true
			}
		}
		if strings.ContainsAny(d.text, "eE") {
			classes = append(classes, "exponent")
			nt = true
		}
		c.Case("lit:"+d.text, nt, classes...)
		c.Sample(map[string]string{"literal": d.text, "parsed": s})

		// units side: print/parse/JSON round trip for arbitrary magnitudes
		u := vpGenBig(t, "u")
		v := vpIntegerFromBig(u)
		vs := v.String()
		if vs != vpRefString(u) {
			t.Fatalf("String(%s units) = %q want %q", u, vs, vpRefString(u))
		}
		if r := NewIntegerFromString(vs); r.i.Cmp(u) != 0 {
			t.Fatalf("parse(print(%s units)) = %s units", u, r.i.String())
		}
		js, err := json.Marshal(v)
		if err != nil || string(js) != `"`+vs+`"` {
			t.Fatalf("MarshalJSON(%s) = %s, %v", vs, js, err)
		}
		var w Integer
		if err := json.Unmarshal(js, &w); err != nil || w.i.Cmp(u) != 0 {
			t.Fatalf("UnmarshalJSON(%s) = %s units, %v", js, w.i.String(), err)
		}
		big64 := u.BitLen() > 64
		cl := []string{}
		if big64 {
			cl = append(cl, "units>=2^64")
		}
		c.Case("units:"+u.String(), big64, cl...)
	})
}

func TestVP_C33_arith(t *testing.T) {
	c := kit.New(t, "C33", "rapid: operand pairs 0..2^520 (boundary biased, incl. negative left operands built in-package), multipliers/divisors from {-1,0,1..2^31}; oracle = math/big exact arithmetic with floor and the operand-guard rejection table; non-trivial = an operand >= 2^64 or a guard-rejected call; distinct by operands")
	c.Require("operand>=2^64", "rejected", "count-ok", "ration")
	kit.SetChecks(kit.N(6000, 600000))
	rapid.Check(t, func(t *rapid.T) {
		xb := vpGenBig(t, "x")
		yb := vpGenBig(t, "y")
		if rapid.IntRange(0, 19).Draw(t, "negx") == 0 {
			xb = new(big.Int).Neg(xb)
		}
		if rapid.IntRange(0, 5).Draw(t, "yrel") == 0 {
			// make y close to x so Sub/Count guards and small quotients are exercised
			yb = new(big.Int).Add(new(big.Int).Abs(xb), big.NewInt(int64(rapid.IntRange(-2, 2).Draw(t, "ydelta"))))
			if yb.Sign() < 0 {
				yb.SetInt64(0)
			}
		}
		if rapid.IntRange(0, 5).Draw(t, "ysmall") == 0 {
			yb = big.NewInt(int64(rapid.IntRange(0, 1000).Draw(t, "ys")))
		}
		m := rapid.OneOf(rapid.IntRange(-1, 3), rapid.IntRange(1, 1<<31), rapid.SampledFrom([]int{10, 100000000, 1<<31 - 1, 1 << 31})).Draw(t, "m")
		x, y := vpIntegerFromBig(xb), vpIntegerFromBig(yb)
		rejected := false
		check := func(op string, wantPanic bool, want *big.Int, f func() *big.Int) {
			var got *big.Int
			p := vpCatch(func() { got = f() })
			if wantPanic {
				rejected = true
				if p == nil {
					t.Fatalf("%s(%s, %s, m=%d) must be rejected, returned %s", op, xb, yb, m, got)
				}
				return
			}
			if p != nil {
				t.Fatalf("%s(%s, %s, m=%d) failed: %v", op, xb, yb, m, p)
			}
			if got.Cmp(want) != 0 {
				t.Fatalf("%s(%s, %s, m=%d) = %s want %s", op, xb, yb, m, got, want)
			}
		}
		xneg, ynp := xb.Sign() < 0, yb.Sign() <= 0
		check("Add", xneg || ynp, new(big.Int).Add(xb, yb), func() *big.Int { v := x.Add(y); return &v.i })
		check("Sub", xneg || ynp || xb.Cmp(yb) < 0, new(big.Int).Sub(xb, yb), func() *big.Int { v := x.Sub(y); return &v.i })
		mb := big.NewInt(int64(m))
		check("Mul", xneg || m <= 0, new(big.Int).Mul(xb, mb), func() *big.Int { v := x.Mul(m); return &v.i })
		var wantDiv *big.Int
		if m > 0 && !xneg {
			wantDiv = new(big.Int).Div(xb, mb)
		}
		check("Div", xneg || m <= 0, wantDiv, func() *big.Int { v := x.Div(m); return &v.i })
		var wantCount *big.Int
		countRej := xb.Sign() <= 0 || ynp || xb.Cmp(yb) < 0
		if !countRej {
			wantCount = new(big.Int).Div(xb, yb)
			if !wantCount.IsUint64() {
				countRej = true
			}
		}
		check("Count", countRej, wantCount, func() *big.Int { return new(big.Int).SetUint64(x.Count(y)) })
		if !countRej {
			c.Class("count-ok")
		}
		if got := x.Cmp(y); got != xb.Cmp(yb) {
			t.Fatalf("Cmp(%s,%s) = %d", xb, yb, got)
		}
		if got := x.Sign(); got != xb.Sign() {
			t.Fatalf("Sign(%s) = %d", xb, got)
		}
		// ratios
		zb := vpGenBig(t, "z")
		z := vpIntegerFromBig(zb)
		var r RationalNumber
		p := vpCatch(func() { r = x.Ration(y) })
		if xneg || ynp {
			rejected = true
			if p == nil {
				t.Fatalf("Ration(%s,%s) must be rejected", xb, yb)
			}
		} else {
			if p != nil {
				t.Fatalf("Ration(%s,%s) failed: %v", xb, yb, p)
			}
			c.Class("ration")
			want := new(big.Int).Mul(zb, xb)
			want.Div(want, yb)
			check("Product", false, want, func() *big.Int { v := r.Product(z); return &v.i })
			one := new(big.Int).Div(new(big.Int).Mul(vpPow8, xb), yb)
			if r.String() != vpRefString(one) {
				t.Fatalf("Ration(%s,%s).String() = %s want %s", xb, yb, r.String(), vpRefString(one))
			}
			// compare with a second ratio by cross multiplication
			ub, wb := vpGenBig(t, "u2"), vpGenBig(t, "w2")
			if wb.Sign() > 0 {
				r2 := vpIntegerFromBig(ub).Ration(vpIntegerFromBig(wb))
				wantCmp := new(big.Int).Mul(xb, wb).Cmp(new(big.Int).Mul(ub, yb))
				if got := r.Cmp(r2); got != wantCmp {
					t.Fatalf("(%s/%s).Cmp(%s/%s) = %d want %d", xb, yb, ub, wb, got, wantCmp)
				}
				if r.Cmp(r) != 0 {
					t.Fatalf("ratio not equal to itself")
				}
			}
		}
		nt := xb.BitLen() > 64 || yb.BitLen() > 64 || rejected
		cl := []string{}
		if xb.BitLen() > 64 || yb.BitLen() > 64 {
			cl = append(cl, "operand>=2^64")
		}
		if rejected {
			cl = append(cl, "rejected")
		}
		c.Case(fmt.Sprintf("%s|%s|%d|%s", xb, yb, m, zb), nt, cl...)
		c.Sample(map[string]any{"x_units": xb.String(), "y_units": yb.String(), "m": m, "z_units": zb.String(), "rejected_some": rejected})
	})
}

// NewInteger(x) is x whole coins for every uint64.
func TestVP_C33_new_integer(t *testing.T) {
	c := kit.New(t, "C33", "rapid: NewInteger(uint64) == x*10^8 units; non-trivial = x >= 2^32")
	kit.SetChecks(kit.N(2000, 100000))
	rapid.Check(t, func(t *rapid.T) {
		x := rapid.Uint64().Draw(t, "x")
		want := new(big.Int).Mul(new(big.Int).SetUint64(x), vpPow8)
		got := NewInteger(x)
		if got.i.Cmp(want) != 0 {
			t.Fatalf("NewInteger(%d) = %s units", x, got.i.String())
		}
		c.Case(fmt.Sprint(x), x >= 1<<32)
	})
}
