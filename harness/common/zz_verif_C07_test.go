//go:build verif

package common

import (
	"bytes"
	"encoding/binary"
	"encoding/hex"
	"fmt"
	"sort"
	"testing"

	"github.com/MixinNetwork/mixin/crypto"
	"pgregory.net/rapid"
	kit "verifkit"
)

// ---------------------------------------------------------------------------
// C07 — snapshot encoding is canonical; the snapshot hash commits the payload.
//
// Contract as read from the code (decoding.go/encoding.go/snapshot.go):
//   enc(s)  = 7777 00 ver | node32 | round u64 | refs (u16 0 | u16 2 + 64) |
//             u16 n | n*32 sorted tx hashes | ts u64 | mask u64 [| sig64 if mask != 0]
//   a nil signature is written as mask 0 and nothing else; ReadCosiSignature
//   returns nil for mask 0, so "nil signature" and "mask 0" are the same thing.
//   VersionedMarshal always emits enc(s) + topo u64. The decoder also accepts
//   enc(s) alone (topology 0). Nothing else may be accepted.
// ---------------------------------------------------------------------------

type vpC07TB interface {
	Fatalf(format string, args ...any)
}

// vpC07Raw is the harness-side description of a (possibly malformed) encoding.
type vpC07Raw struct {
	Version  byte
	Node     crypto.Hash
	Round    uint64
	RefCount int // value written in the references count field
	Self     crypto.Hash
	External crypto.Hash
	RefBytes int // number of reference bytes actually written (normally 64 when RefCount==2)
	TxCount  int // value written in the count field
	Txs      []crypto.Hash
	Ts       uint64
	Mask     uint64
	Sig      crypto.Signature
	SigBytes int // number of signature bytes written (normally 64 when Mask != 0)
	HasTopo  bool
	Topo     uint64
}

// vpC07RefEncode writes exactly what the description says, independently of
// the production encoder (no sorting, no checks).
func vpC07RefEncode(r *vpC07Raw) []byte {
	b := []byte{0x77, 0x77, 0x00, r.Version}
	b = append(b, r.Node[:]...)
	b = binary.BigEndian.AppendUint64(b, r.Round)
	b = binary.BigEndian.AppendUint16(b, uint16(r.RefCount))
	rb := append(append([]byte{}, r.Self[:]...), r.External[:]...)
	b = append(b, rb[:r.RefBytes]...)
	b = binary.BigEndian.AppendUint16(b, uint16(r.TxCount))
	for _, h := range r.Txs {
		b = append(b, h[:]...)
	}
	b = binary.BigEndian.AppendUint64(b, r.Ts)
	b = binary.BigEndian.AppendUint64(b, r.Mask)
	b = append(b, r.Sig[:r.SigBytes]...)
	if r.HasTopo {
		b = binary.BigEndian.AppendUint64(b, r.Topo)
	}
	return b
}

func vpC07GenHash(t *rapid.T, label string) crypto.Hash {
	var h crypto.Hash
	copy(h[:], rapid.SliceOfN(rapid.Byte(), 32, 32).Draw(t, label))
	return h
}

// vpC07GenHashes draws n distinct hashes, in generation (unsorted) order.
// Mode 1 and 2 make the hashes differ only in their last bytes / share long
// prefixes so that the ordering comparison has to look at every byte.
func vpC07GenHashes(t *rapid.T, n int, label string) []crypto.Hash {
	mode := rapid.IntRange(0, 3).Draw(t, label+"_mode")
	raw := rapid.SliceOfN(rapid.Byte(), 32*n, 32*n).Draw(t, label+"_raw")
	seen := make(map[crypto.Hash]bool, n)
	out := make([]crypto.Hash, 0, n)
	for i := 0; i < n; i++ {
		var h crypto.Hash
		copy(h[:], raw[32*i:32*i+32])
		switch mode {
		case 1: // only the last two bytes vary
			for j := 0; j < 30; j++ {
				h[j] = 0
			}
		case 2: // only the first byte and the last byte vary, 0xff filler
			for j := 1; j < 31; j++ {
				h[j] = 0xff
			}
		case 3: // only one byte position varies
			p := int(raw[0]) % 32
			v := h[p]
			h = crypto.Hash{}
			h[p] = v
		}
		for seen[h] { // deterministic collision repair
			for j := 31; j >= 0; j-- {
				h[j]++
				if h[j] != 0 {
					break
				}
			}
		}
		seen[h] = true
		out = append(out, h)
	}
	return out
}

func vpC07GenU64(t *rapid.T, label string) uint64 {
	switch rapid.IntRange(0, 4).Draw(t, label+"_c") {
	case 0:
		return uint64(rapid.IntRange(0, 3).Draw(t, label+"_s"))
	case 1:
		return ^uint64(0) - uint64(rapid.IntRange(0, 2).Draw(t, label+"_m"))
	case 2:
		return uint64(1) << uint(rapid.IntRange(0, 63).Draw(t, label+"_p"))
	default:
		return rapid.Uint64().Draw(t, label+"_u")
	}
}

func vpC07GenCount(t *rapid.T) int {
	switch rapid.IntRange(0, 9).Draw(t, "ntx_c") {
	case 0:
		return 255
	case 1:
		return rapid.IntRange(250, 255).Draw(t, "ntx_hi")
	case 2:
		return rapid.IntRange(1, 255).Draw(t, "ntx_any")
	case 3, 4:
		return 1
	default:
		return rapid.IntRange(2, 6).Draw(t, "ntx_small")
	}
}

// vpC07GenValid draws a valid snapshot description (G-snapshot).
func vpC07GenValid(t *rapid.T) *vpC07Raw {
	r := &vpC07Raw{Version: SnapshotVersionCommonEncoding}
	r.Node = vpC07GenHash(t, "node")
	if rapid.IntRange(0, 3).Draw(t, "round0") == 0 {
		r.Round = 0
		r.TxCount = 1
	} else {
		r.Round = vpC07GenU64(t, "round")
		if r.Round == 0 {
			r.Round = 1
		}
		r.RefCount = 2
		r.RefBytes = 64
		r.Self = vpC07GenHash(t, "self")
		r.External = vpC07GenHash(t, "external")
		r.TxCount = vpC07GenCount(t)
	}
	r.Txs = vpC07GenHashes(t, r.TxCount, "txs")
	r.Ts = vpC07GenU64(t, "ts")
	if rapid.IntRange(0, 2).Draw(t, "signed") != 0 {
		r.Mask = vpC07GenU64(t, "mask")
		if r.Mask == 0 {
			r.Mask = 1
		}
		copy(r.Sig[:], rapid.SliceOfN(rapid.Byte(), 64, 64).Draw(t, "sig"))
		r.SigBytes = 64
	}
	r.HasTopo = true
	r.Topo = vpC07GenU64(t, "topo")
	return r
}

// vpC07Snapshot builds the production value for a valid description; the
// transaction slice keeps the description's (unsorted) order.
func vpC07Snapshot(r *vpC07Raw) *SnapshotWithTopologicalOrder {
	s := &Snapshot{Version: r.Version, NodeId: r.Node, RoundNumber: r.Round, Timestamp: r.Ts}
	if r.RefCount == 2 {
		s.References = &RoundLink{Self: r.Self, External: r.External}
	}
	s.Transactions = append([]crypto.Hash{}, r.Txs...)
	if r.Mask != 0 {
		s.Signature = &crypto.CosiSignature{Mask: r.Mask, Signature: r.Sig}
	}
	return &SnapshotWithTopologicalOrder{Snapshot: s, TopologicalOrder: r.Topo}
}

func vpC07Sorted(hs []crypto.Hash) []crypto.Hash {
	out := append([]crypto.Hash{}, hs...)
	sort.Slice(out, func(i, j int) bool { return bytes.Compare(out[i][:], out[j][:]) < 0 })
	return out
}

// vpC07CheckAccepted is the canonical-form oracle: b was accepted and decoded
// to d; every clause of the statement about accepted byte strings must hold.
func vpC07CheckAccepted(t vpC07TB, b []byte, d *SnapshotWithTopologicalOrder) (suffix bool) {
	if d == nil || d.Snapshot == nil {
		t.Fatalf("accepted %x but returned a nil snapshot", b)
		return
	}
	s := d.Snapshot
	if n := len(s.Transactions); n < 1 || n > 255 {
		t.Fatalf("accepted snapshot with %d transactions: %x", n, vpC07Head(b))
	}
	for i := 1; i < len(s.Transactions); i++ {
		if bytes.Compare(s.Transactions[i-1][:], s.Transactions[i][:]) >= 0 {
			t.Fatalf("accepted snapshot whose transactions are not strictly increasing at %d: %x", i, vpC07Head(b))
		}
	}
	if s.RoundNumber == 0 {
		if len(s.Transactions) != 1 || s.References != nil {
			t.Fatalf("accepted round-0 snapshot with %d transactions, references %v", len(s.Transactions), s.References)
		}
	} else if s.References == nil {
		t.Fatalf("accepted round-%d snapshot without references", s.RoundNumber)
	}
	if s.Signature != nil && s.Signature.Mask == 0 {
		t.Fatalf("accepted snapshot decoded to a signature with empty mask")
	}
	// re-encode a private copy (the encoder sorts its argument in place)
	cp := *s
	cp.Transactions = append([]crypto.Hash{}, s.Transactions...)
	var full []byte
	if p := vpCatch(func() {
		full = (&SnapshotWithTopologicalOrder{Snapshot: &cp, TopologicalOrder: d.TopologicalOrder}).VersionedMarshal()
	}); p != nil {
		t.Fatalf("accepted %x but the decoded snapshot cannot be encoded: %v", vpC07Head(b), p)
	}
	if bytes.Equal(b, full) {
		return true
	}
	if d.TopologicalOrder == 0 && len(full) >= 8 && bytes.Equal(b, full[:len(full)-8]) {
		return false
	}
	t.Fatalf("accepted a byte string that is neither enc(s)+topology nor enc(s): len=%d canonical len=%d topo=%d tail=%x",
		len(b), len(full), d.TopologicalOrder, vpC07Tail(b))
	return
}

func vpC07Head(b []byte) []byte {
	if len(b) > 160 {
		return b[:160]
	}
	return b
}

func vpC07Tail(b []byte) []byte {
	if len(b) > 96 {
		return b[len(b)-96:]
	}
	return b
}

func vpC07FP(b []byte) string {
	h := crypto.Blake3Hash(b)
	return hex.EncodeToString(h[:8])
}

// vpC07Decode runs the decoder; a panic is a violation (the decoder must be
// total on arbitrary bytes for the acceptance statement to mean anything).
func vpC07Decode(t vpC07TB, b []byte) (*SnapshotWithTopologicalOrder, error) {
	var d *SnapshotWithTopologicalOrder
	var err error
	if p := vpCatch(func() { d, err = UnmarshalVersionedSnapshot(b) }); p != nil {
		t.Fatalf("decoder panicked on %x: %v", vpC07Head(b), p)
	}
	return d, err
}

// vpC07Probe decodes b and applies the oracle when accepted.
func vpC07Probe(t vpC07TB, b []byte) (accepted, suffix bool) {
	d, err := vpC07Decode(t, b)
	if err != nil {
		return false, false
	}
	return true, vpC07CheckAccepted(t, b, d)
}

func vpC07Classes(r *vpC07Raw) []string {
	cl := []string{}
	if r.Round == 0 {
		cl = append(cl, "round0")
	} else {
		cl = append(cl, "round>0")
	}
	if r.Mask != 0 {
		cl = append(cl, "signed")
	} else {
		cl = append(cl, "nil-signature")
	}
	switch {
	case r.TxCount == 255:
		cl = append(cl, "txs=255")
	case r.TxCount == 1:
		cl = append(cl, "txs=1")
	default:
		cl = append(cl, "txs=2..254")
	}
	if r.Topo == 0 {
		cl = append(cl, "topo=0")
	}
	return cl
}

// ---------------------------------------------------------------------------

func TestVP_C07_roundtrip(t *testing.T) {
	c := kit.New(t, "C07", "rapid: valid snapshots (round 0 / >0, 1..255 distinct tx hashes in random order incl. near-equal hashes, nil or masked signature, any topology); encoded by VersionedMarshal and by an independent reference writer, decoded, compared field by field, re-encoded; non-trivial = accepted encoding; distinct by encoding hash")
	c.Require("round0", "round>0", "signed", "nil-signature", "txs=255", "txs=1", "txs=2..254", "shuffled-input", "nosuffix-accepted", "ref-encoding-equal")
	kit.SetChecks(kit.N(1500, 60000))
	rapid.Check(t, func(t *rapid.T) {
		r := vpC07GenValid(t)
		sn := vpC07Snapshot(r)
		sortedTxs := vpC07Sorted(r.Txs)
		classes := vpC07Classes(r)
		for i := range r.Txs {
			if r.Txs[i] != sortedTxs[i] {
				classes = append(classes, "shuffled-input")
				break
			}
		}
		var full []byte
		if p := vpCatch(func() { full = sn.VersionedMarshal() }); p != nil {
			t.Fatalf("encoder panicked on a valid snapshot: %v", p)
		}
		// the independent writer produces the same canonical bytes (observed, not
		// asserted: it only qualifies the writer for the hostile-structure test)
		rs := *r
		rs.Txs = sortedTxs
		if bytes.Equal(vpC07RefEncode(&rs), full) {
			classes = append(classes, "ref-encoding-equal")
		}

		for _, form := range []struct {
			name string
			b    []byte
			topo uint64
		}{{"full", full, r.Topo}, {"nosuffix", full[:len(full)-8], 0}} {
			d, err := vpC07Decode(t, form.b)
			if err != nil {
				if form.name == "full" {
					t.Fatalf("VersionedMarshal output rejected: %v", err)
				}
				classes = append(classes, "nosuffix-rejected")
				continue
			}
			suffix := vpC07CheckAccepted(t, form.b, d)
			if form.name == "full" && !suffix && r.Topo != 0 {
				t.Fatalf("full form decoded as suffix-less")
			}
			if form.name == "nosuffix" {
				classes = append(classes, "nosuffix-accepted")
			}
			s := d.Snapshot
			if s.Version != r.Version || s.NodeId != r.Node || s.RoundNumber != r.Round || s.Timestamp != r.Ts {
				t.Fatalf("%s: scalar fields differ after decode: %+v vs %+v", form.name, s, r)
			}
			if (s.References == nil) != (r.RefCount == 0) {
				t.Fatalf("%s: references presence differs", form.name)
			}
			if s.References != nil && (s.References.Self != r.Self || s.References.External != r.External) {
				t.Fatalf("%s: references differ", form.name)
			}
			if len(s.Transactions) != len(sortedTxs) {
				t.Fatalf("%s: %d transactions decoded, %d encoded", form.name, len(s.Transactions), len(sortedTxs))
			}
			for i := range sortedTxs {
				if s.Transactions[i] != sortedTxs[i] {
					t.Fatalf("%s: transaction %d differs", form.name, i)
				}
			}
			if (s.Signature == nil) != (r.Mask == 0) {
				t.Fatalf("%s: signature presence differs (mask %d)", form.name, r.Mask)
			}
			if s.Signature != nil && (s.Signature.Mask != r.Mask || s.Signature.Signature != r.Sig) {
				t.Fatalf("%s: signature differs", form.name)
			}
			if d.TopologicalOrder != form.topo {
				t.Fatalf("%s: topology %d decoded, want %d", form.name, d.TopologicalOrder, form.topo)
			}
			if s.PayloadHash() != sn.PayloadHash() {
				t.Fatalf("%s: payload hash of the decoded snapshot differs", form.name)
			}
		}
		c.Case(vpC07FP(full), true, classes...)
		c.Sample(map[string]any{"round": r.Round, "txs": r.TxCount, "mask": r.Mask, "topo": r.Topo, "len": len(full)})
	})
}

// vpC07Extensions checks every extension of 1..9 bytes of both canonical forms.
// Returns the number of decoder probes made.
func vpC07Extensions(t vpC07TB, full []byte, ext []byte) int {
	n := 0
	nos := full[:len(full)-8]
	for k := 1; k <= 9; k++ {
		// enc(s)+topology followed by k stray bytes can never be canonical
		b := append(append([]byte{}, full...), ext[:k]...)
		if acc, _ := vpC07Probe(t, b); acc {
			t.Fatalf("canonical encoding with topology followed by %d stray bytes was accepted", k)
		}
		// enc(s) followed by k bytes: canonical only for k == 8 (that is the topology)
		b = append(append([]byte{}, nos...), ext[:k]...)
		acc, _ := vpC07Probe(t, b)
		if acc && k != 8 {
			t.Fatalf("canonical encoding without topology followed by %d stray bytes was accepted", k)
		}
		n += 2
	}
	return n
}

func TestVP_C07_cuts_and_extensions(t *testing.T) {
	c := kit.New(t, "C07", "rapid: for each valid snapshot every truncation of enc(s)+topology (all cut points up to 600 bytes from either end, sampled in between) and every 1..9-byte extension (random and zero bytes) of both canonical forms is decoded; accepted strings must be canonical; non-trivial = every probed truncation/extension; distinct by (encoding hash, cut)")
	c.Require("cut-accepted-nosuffix", "extension+8-accepted", "signed", "nil-signature", "round0", "round>0")
	kit.SetChecks(kit.N(1500, 40000))
	rapid.Check(t, func(t *rapid.T) {
		r := vpC07GenValid(t)
		full := vpC07Snapshot(r).VersionedMarshal()
		fp := vpC07FP(full)
		classes := vpC07Classes(r)
		probes := 0
		for k := 0; k < len(full); k++ {
			if k > 600 && k < len(full)-600 && k%37 != int(full[5])%37 {
				continue
			}
			acc, _ := vpC07Probe(t, full[:k])
			probes++
			if acc {
				if k != len(full)-8 {
					t.Fatalf("truncation to %d of %d bytes accepted", k, len(full))
				}
				classes = append(classes, "cut-accepted-nosuffix")
			}
		}
		ext := rapid.SliceOfN(rapid.Byte(), 9, 9).Draw(t, "ext")
		if rapid.IntRange(0, 2).Draw(t, "zero_ext") == 0 {
			ext = make([]byte, 9)
		}
		probes += vpC07Extensions(t, full, ext)
		if acc, _ := vpC07Probe(t, append(append([]byte{}, full[:len(full)-8]...), ext[:8]...)); acc {
			classes = append(classes, "extension+8-accepted")
		}
		c.Case(fp, true, classes...)
		c.ClassN("probes", probes)
	})
}

// TestVP_C07_regress_partial_suffix is the plain regression for the repaired
// defect (known_findings C07-F3): a valid encoding followed by 1..7 bytes was
// accepted as a snapshot with topology 0.
func TestVP_C07_regress_partial_suffix(t *testing.T) {
	if kit.Replaying() {
		return
	}
	c := kit.New(t, "C07", "deterministic: 200 generated valid snapshots (rapid Example seeds 0..199) plus hand-made minimal ones; enc(s) followed by 1..7 and 9 bytes (zero, 0xff and mixed) must be rejected, enc(s)+8 bytes is the topology form; enc(s)+topology followed by 1..9 bytes must be rejected; non-trivial = every snapshot; distinct by encoding hash")
	c.Require("signed", "nil-signature", "round0", "round>0")
	gen := rapid.Custom(vpC07GenValid)
	raws := []*vpC07Raw{}
	// hand-made: genesis-like (round 0, nil signature) and a signed round-1 snapshot
	g := &vpC07Raw{Version: 2, TxCount: 1, Txs: []crypto.Hash{{1}}, Ts: 1, HasTopo: true}
	raws = append(raws, g)
	s1 := &vpC07Raw{Version: 2, Round: 1, RefCount: 2, RefBytes: 64, Self: crypto.Hash{2}, External: crypto.Hash{3},
		TxCount: 2, Txs: []crypto.Hash{{4}, {5}}, Ts: 7, Mask: 5, SigBytes: 64, HasTopo: true, Topo: 9}
	raws = append(raws, s1)
	for i := 0; i < 200; i++ {
		raws = append(raws, gen.Example(i))
	}
	exts := [][]byte{
		make([]byte, 9),
		bytes.Repeat([]byte{0xff}, 9),
		{0, 0, 0, 0, 0, 0, 0, 1, 0},
		{1, 2, 3, 4, 5, 6, 7, 8, 9},
	}
	for _, r := range raws {
		full := vpC07Snapshot(r).VersionedMarshal()
		nos := full[:len(full)-8]
		for _, ext := range exts {
			for _, k := range []int{1, 2, 3, 4, 5, 6, 7, 9} {
				b := append(append([]byte{}, nos...), ext[:k]...)
				if d, err := UnmarshalVersionedSnapshot(b); err == nil {
					t.Fatalf("enc(s) + %d stray bytes %x accepted (topology %d): partial topology suffix", k, ext[:k], d.TopologicalOrder)
				}
			}
			vpC07Extensions(t, full, ext)
			b := append(append([]byte{}, nos...), ext[:8]...)
			if d, err := UnmarshalVersionedSnapshot(b); err == nil {
				if d.TopologicalOrder != binary.BigEndian.Uint64(ext[:8]) {
					t.Fatalf("enc(s)+8 bytes decoded to topology %d", d.TopologicalOrder)
				}
				vpC07CheckAccepted(t, b, d)
				c.Class("suffix8-accepted")
			}
		}
		c.Case(vpC07FP(full), true, vpC07Classes(r)...)
	}
}

// vpC07Hostile applies one structural defect to a valid description and
// returns its name; the reference writer then emits it literally.
func vpC07Hostile(t *rapid.T, r *vpC07Raw) string {
	kinds := []string{"swap-adjacent", "duplicate", "count0", "count256", "round0-with-refs", "round0-two-txs",
		"round>0-no-refs", "refcount1", "refcount3", "version", "magic", "mask0-with-sig", "mask-without-sig",
		"count-less", "count-more", "descending", "valid"}
	k := rapid.SampledFrom(kinds).Draw(t, "hostile")
	sorted := vpC07Sorted(r.Txs)
	r.Txs = sorted
	switch k {
	case "swap-adjacent":
		if len(r.Txs) < 2 {
			r.Round, r.RefCount, r.RefBytes = 5, 2, 64
			r.Txs = vpC07Sorted(append(r.Txs, vpC07GenHash(t, "extra_tx")))
			if r.Txs[0] == r.Txs[1] {
				r.Txs[1][31] ^= 1
				r.Txs = vpC07Sorted(r.Txs)
			}
			r.TxCount = 2
		}
		i := rapid.IntRange(0, len(r.Txs)-2).Draw(t, "swap_at")
		r.Txs[i], r.Txs[i+1] = r.Txs[i+1], r.Txs[i]
	case "descending":
		for i, j := 0, len(r.Txs)-1; i < j; i, j = i+1, j-1 {
			r.Txs[i], r.Txs[j] = r.Txs[j], r.Txs[i]
		}
		if len(r.Txs) < 2 {
			return "valid"
		}
	case "duplicate":
		if r.Round == 0 {
			r.Round, r.RefCount, r.RefBytes = 3, 2, 64
		}
		i := rapid.IntRange(0, len(r.Txs)-1).Draw(t, "dup_at")
		if len(r.Txs) == 255 {
			r.Txs = r.Txs[:254]
			if i > 253 {
				i = 253
			}
		}
		r.Txs = append(r.Txs[:i+1], r.Txs[i:]...) // element i twice, adjacent, order kept
		r.TxCount = len(r.Txs)
	case "count0":
		if r.Round == 0 {
			r.Round, r.RefCount, r.RefBytes = 1, 2, 64
		}
		r.Txs, r.TxCount = nil, 0
	case "count256":
		if r.Round == 0 {
			r.Round, r.RefCount, r.RefBytes = 1, 2, 64
		}
		r.Txs = vpC07Sorted(vpC07GenHashes(t, 256, "txs256"))
		r.TxCount = 256
	case "round0-with-refs":
		r.Round, r.RefCount, r.RefBytes = 0, 2, 64
		r.Txs, r.TxCount = r.Txs[:1], 1
	case "round0-two-txs":
		r.Round, r.RefCount, r.RefBytes = 0, 0, 0
		if len(r.Txs) < 2 {
			h := r.Txs[0]
			h[31] ^= 1
			r.Txs = vpC07Sorted(append(r.Txs, h))
		}
		n := rapid.IntRange(2, len(r.Txs)).Draw(t, "r0_n")
		r.Txs, r.TxCount = r.Txs[:n], n
	case "round>0-no-refs":
		if r.Round == 0 {
			r.Round = 1
		}
		r.RefCount, r.RefBytes = 0, 0
	case "refcount1":
		r.RefCount, r.RefBytes = 1, 32
	case "refcount3":
		r.RefCount, r.RefBytes = 3, 64
	case "version":
		r.Version = rapid.SampledFrom([]byte{0, 1, 3, 5, 0xff}).Draw(t, "bad_version")
	case "mask0-with-sig":
		r.Mask, r.SigBytes = 0, 64
	case "mask-without-sig":
		if r.Mask == 0 {
			r.Mask = 1
		}
		r.SigBytes = 0
	case "count-less":
		if len(r.Txs) < 2 {
			return "valid"
		}
		r.TxCount = len(r.Txs) - 1
	case "count-more":
		if len(r.Txs) >= 255 {
			return "valid"
		}
		r.TxCount = len(r.Txs) + 1
	}
	return k
}

func TestVP_C07_hostile_structures(t *testing.T) {
	c := kit.New(t, "C07", "rapid: a valid snapshot description with one structural defect (unsorted/duplicate/0/256 transactions, round-0 with references or 2+ transactions, later round without references, bad reference count, bad version/magic, signature/mask mismatch, wrong count field), written literally by the reference writer with and without topology; accepted strings must satisfy every clause; non-trivial = every case; distinct by encoding hash")
	req := []string{"swap-adjacent", "duplicate", "count0", "count256", "round0-with-refs", "round0-two-txs", "round>0-no-refs", "valid-accepted", "descending"}
	c.Require(req...)
	kit.SetChecks(kit.N(2500, 100000))
	mustReject := map[string]bool{"swap-adjacent": true, "duplicate": true, "count0": true, "count256": true, "round0-with-refs": true,
		"round0-two-txs": true, "round>0-no-refs": true, "descending": true, "version": true}
	rapid.Check(t, func(t *rapid.T) {
		r := vpC07GenValid(t)
		kind := vpC07Hostile(t, r)
		magicBroken := false
		r.HasTopo = rapid.Bool().Draw(t, "with_topo")
		b := vpC07RefEncode(r)
		if kind == "magic" {
			b[rapid.IntRange(0, 2).Draw(t, "magic_at")] ^= byte(rapid.IntRange(1, 255).Draw(t, "magic_x"))
			magicBroken = true
		}
		acc, _ := vpC07Probe(t, b)
		if acc && (mustReject[kind] || magicBroken) {
			t.Fatalf("hostile structure %q accepted: %x", kind, vpC07Head(b))
		}
		cl := []string{kind}
		if kind == "valid" && acc {
			cl = append(cl, "valid-accepted")
		}
		if acc {
			cl = append(cl, "accepted")
		}
		c.Case(vpC07FP(b), true, cl...)
	})
}

func TestVP_C07_arbitrary_bytes(t *testing.T) {
	c := kit.New(t, "C07", "rapid: (a) 1..3 byte-level mutations (replace, insert, delete) of a valid encoding of either form, (b) a valid header followed by random bytes, (c) random bytes; accepted strings must be canonical and satisfy every clause; non-trivial = an accepted mutated encoding; distinct by byte-string hash")
	c.Require("mutated-accepted", "mutated-rejected", "random")
	kit.SetChecks(kit.N(4000, 400000))
	rapid.Check(t, func(t *rapid.T) {
		var b []byte
		class := ""
		switch rapid.IntRange(0, 5).Draw(t, "kind") {
		case 0:
			b = rapid.SliceOfN(rapid.Byte(), 0, 300).Draw(t, "random")
			class = "random"
		case 1:
			b = append([]byte{0x77, 0x77, 0, 2}, rapid.SliceOfN(rapid.Byte(), 0, 300).Draw(t, "random_body")...)
			class = "random-with-header"
		default:
			r := vpC07GenValid(t)
			if r.TxCount > 8 { // keep mutation targets dense
				r.Txs = r.Txs[:8]
				r.TxCount = 8
			}
			r.Txs = vpC07Sorted(r.Txs)
			r.HasTopo = rapid.Bool().Draw(t, "with_topo")
			b = vpC07RefEncode(r)
			for m := rapid.IntRange(1, 3).Draw(t, "mutations"); m > 0; m-- {
				switch rapid.IntRange(0, 3).Draw(t, "op") {
				case 0, 1:
					i := rapid.IntRange(0, len(b)-1).Draw(t, "at")
					b[i] ^= byte(1) << uint(rapid.IntRange(0, 7).Draw(t, "bit"))
				case 2:
					i := rapid.IntRange(0, len(b)).Draw(t, "ins_at")
					b = append(b[:i], append([]byte{rapid.Byte().Draw(t, "ins")}, b[i:]...)...)
				case 3:
					i := rapid.IntRange(0, len(b)-1).Draw(t, "del_at")
					b = append(b[:i], b[i+1:]...)
				}
			}
			class = "mutated"
		}
		acc, _ := vpC07Probe(t, b)
		if class == "mutated" {
			if acc {
				class = "mutated-accepted"
			} else {
				class = "mutated-rejected"
			}
		}
		c.Case(vpC07FP(b), acc && class == "mutated-accepted", class)
	})
}

// TestVP_C07_every_offset flips every bit of a few small encodings and removes
// or duplicates every byte: a deterministic complement to the random mutations.
func TestVP_C07_every_offset(t *testing.T) {
	if kit.Replaying() {
		return
	}
	c := kit.New(t, "C07", "deterministic: for 24 generated small snapshots (<= 4 transactions, both forms) every single-bit flip, every single-byte deletion and every single-byte duplication; accepted strings must be canonical; non-trivial = accepted mutant; distinct by byte-string hash")
	c.Exhaustive("all single-bit flips, single-byte deletions and duplications of 24 small snapshot encodings in both canonical forms")
	gen := rapid.Custom(vpC07GenValid)
	done := 0
	shard, _ := kit.Shard() // each thorough shard sweeps its own 24 bases
	for i := 1000; done < 24 && i < 3000; i++ {
		r := gen.Example(shard*3000 + i)
		if r.TxCount > 4 {
			continue
		}
		done++
		r.Txs = vpC07Sorted(r.Txs)
		for _, topo := range []bool{true, false} {
			r.HasTopo = topo
			base := vpC07RefEncode(r)
			if acc, _ := vpC07Probe(t, base); !acc {
				c.Class("base-rejected")
				continue
			}
			for off := 0; off < len(base); off++ {
				for bit := 0; bit < 8; bit++ {
					b := append([]byte{}, base...)
					b[off] ^= 1 << uint(bit)
					acc, _ := vpC07Probe(t, b)
					c.Case(vpC07FP(b), acc, "bitflip")
					if acc {
						c.Class("bitflip-accepted")
					}
				}
				b := append(append([]byte{}, base[:off]...), base[off+1:]...)
				acc, _ := vpC07Probe(t, b)
				c.Case(vpC07FP(b), acc, "delete")
				b = append(append(append([]byte{}, base[:off+1]...), base[off]), base[off+1:]...)
				acc, _ = vpC07Probe(t, b)
				c.Case(vpC07FP(b), acc, "duplicate-byte")
			}
		}
	}
	c.Set("bases", done)
	if done < 24 {
		kit.Inconclusive(t, "only %d small snapshots generated", done)
	}
}

func TestVP_C07_payload_hash(t *testing.T) {
	c := kit.New(t, "C07", "rapid: valid snapshot and one edit; payload edits (node, round, each reference, a transaction replaced/added/removed, timestamp, version byte of the payload encoding) must change PayloadHash, non-payload edits (signature added/removed/changed, topology, cached Hash field, transaction order) must not; non-trivial = every edit; distinct by (snapshot hash, edit)")
	edits := []string{"node", "round", "ref-self", "ref-external", "tx-replace", "tx-add", "tx-remove", "timestamp", "version",
		"sig-toggle", "sig-mask", "sig-bytes", "topology", "hash-field", "tx-order"}
	c.Require(edits...)
	kit.SetChecks(kit.N(3000, 200000))
	rapid.Check(t, func(t *rapid.T) {
		r := vpC07GenValid(t)
		if r.TxCount > 12 && rapid.IntRange(0, 3).Draw(t, "shrink_txs") != 0 {
			r.Txs, r.TxCount = r.Txs[:12], 12
		}
		base := vpC07Snapshot(r)
		h0 := base.Snapshot.PayloadHash()
		if base.PayloadHash() != h0 {
			t.Fatalf("hash through the topology wrapper differs")
		}
		e := *r
		e.Txs = append([]crypto.Hash{}, r.Txs...)
		edit := rapid.SampledFrom(edits).Draw(t, "edit")
		payload := true
		bit := func(h *crypto.Hash, label string) {
			h[rapid.IntRange(0, 31).Draw(t, label+"_byte")] ^= byte(1) << uint(rapid.IntRange(0, 7).Draw(t, label+"_bit"))
		}
		switch edit {
		case "node":
			bit(&e.Node, "node")
		case "round":
			if e.Round == 0 {
				edit = "timestamp" // round 0 has no other valid round with the same shape
				e.Ts ^= 1
			} else {
				e.Round ^= uint64(1) << uint(rapid.IntRange(0, 63).Draw(t, "round_bit"))
				if e.Round == 0 {
					e.Round = r.Round + 1
					if e.Round == 0 {
						e.Round = 7
					}
				}
			}
		case "ref-self", "ref-external":
			if e.RefCount == 0 {
				edit = "node"
				bit(&e.Node, "node")
			} else if edit == "ref-self" {
				bit(&e.Self, "self")
			} else {
				bit(&e.External, "ext")
			}
		case "tx-replace":
			i := rapid.IntRange(0, len(e.Txs)-1).Draw(t, "tx_i")
			bit(&e.Txs[i], "tx")
			for j := range e.Txs { // keep the set duplicate free: a collision would not be a valid snapshot
				if j != i && e.Txs[j] == e.Txs[i] {
					e.Txs[i][0] ^= 0x80
					e.Txs[i][31] ^= 0x55
				}
			}
			if len(vpC07Distinct(e.Txs)) != len(e.Txs) {
				return
			}
		case "tx-add":
			if e.Round == 0 || len(e.Txs) >= 255 {
				edit = "timestamp"
				e.Ts ^= 2
			} else {
				h := vpC07GenHash(t, "new_tx")
				e.Txs = append(e.Txs, h)
				e.TxCount++
				if len(vpC07Distinct(e.Txs)) != len(e.Txs) {
					return
				}
			}
		case "tx-remove":
			if len(e.Txs) < 2 {
				edit = "node"
				bit(&e.Node, "node")
			} else {
				i := rapid.IntRange(0, len(e.Txs)-1).Draw(t, "rm_i")
				e.Txs = append(e.Txs[:i], e.Txs[i+1:]...)
				e.TxCount--
			}
		case "timestamp":
			e.Ts ^= uint64(1) << uint(rapid.IntRange(0, 63).Draw(t, "ts_bit"))
		case "version":
			// only one version can be hashed through PayloadHash; the version byte is
			// observed through the payload encoder that PayloadHash hashes.
			p := &Snapshot{Version: 3, NodeId: r.Node, RoundNumber: r.Round, Timestamp: r.Ts, Transactions: append([]crypto.Hash{}, r.Txs...)}
			if r.RefCount == 2 {
				p.References = &RoundLink{Self: r.Self, External: r.External}
			}
			var hv crypto.Hash
			if pn := vpCatch(func() { hv = crypto.Blake3Hash(NewEncoder().EncodeSnapshotPayload(p)) }); pn != nil {
				c.Case(vpC07FP(h0[:])+edit, true, edit, "version-unencodable")
				return
			}
			if hv == h0 {
				t.Fatalf("payload encoding (hence hash) does not depend on the version")
			}
			c.Case(vpC07FP(h0[:])+edit, true, edit)
			return
		case "sig-toggle":
			payload = false
			if e.Mask == 0 {
				e.Mask, e.SigBytes = 1+uint64(rapid.IntRange(0, 1000).Draw(t, "new_mask")), 64
				copy(e.Sig[:], rapid.SliceOfN(rapid.Byte(), 64, 64).Draw(t, "new_sig"))
			} else {
				e.Mask, e.SigBytes = 0, 0
			}
		case "sig-mask":
			payload = false
			e.Mask ^= uint64(1) << uint(rapid.IntRange(0, 63).Draw(t, "mask_bit"))
			if e.Mask == 0 {
				e.Mask = 3
			}
			e.SigBytes = 64
		case "sig-bytes":
			payload = false
			if e.Mask == 0 {
				e.Mask, e.SigBytes = 9, 64
			}
			e.Sig[rapid.IntRange(0, 63).Draw(t, "sig_byte")] ^= byte(rapid.IntRange(1, 255).Draw(t, "sig_x"))
		case "topology":
			payload = false
			e.Topo ^= uint64(1) << uint(rapid.IntRange(0, 63).Draw(t, "topo_bit"))
		case "hash-field", "tx-order":
			payload = false
		}
		ed := vpC07Snapshot(&e)
		switch edit {
		case "hash-field":
			ed.Hash = vpC07GenHash(t, "cached_hash")
		case "tx-order":
			ed.Transactions = vpC07Sorted(ed.Transactions)
			if rapid.Bool().Draw(t, "reverse") {
				for i, j := 0, len(ed.Transactions)-1; i < j; i, j = i+1, j-1 {
					ed.Transactions[i], ed.Transactions[j] = ed.Transactions[j], ed.Transactions[i]
				}
			}
		}
		var h1 crypto.Hash
		if p := vpCatch(func() { h1 = ed.PayloadHash() }); p != nil {
			t.Fatalf("PayloadHash panicked after edit %s: %v", edit, p)
		}
		if payload && h1 == h0 {
			t.Fatalf("payload edit %q did not change the snapshot hash", edit)
		}
		if !payload && h1 != h0 {
			t.Fatalf("non-payload edit %q changed the snapshot hash", edit)
		}
		// the hash of what the decoder returns for the edited snapshot's encoding agrees too
		if d, err := UnmarshalVersionedSnapshot(ed.VersionedMarshal()); err != nil {
			t.Fatalf("edited snapshot (%s) does not round trip: %v", edit, err)
		} else if d.PayloadHash() != h1 {
			t.Fatalf("decoded edited snapshot (%s) hashes differently", edit)
		}
		c.Case(vpC07FP(h0[:])+edit, true, edit)
	})
}

func vpC07Distinct(hs []crypto.Hash) map[crypto.Hash]bool {
	m := make(map[crypto.Hash]bool, len(hs))
	for _, h := range hs {
		m[h] = true
	}
	return m
}

// vpC07FuzzOracle is shared by the native fuzz target and the quick-tier run
// over its seed corpus.
func vpC07FuzzOracle(t vpC07TB, data []byte) bool {
	acc, _ := vpC07Probe(t, data)
	if !acc {
		return false
	}
	// an accepted string: every 1..7 and 9 byte extension of the suffix-less
	// form and every truncation must obey the same rule
	d, _ := UnmarshalVersionedSnapshot(data)
	cp := *d.Snapshot
	cp.Transactions = append([]crypto.Hash{}, d.Transactions...)
	full := (&SnapshotWithTopologicalOrder{Snapshot: &cp, TopologicalOrder: d.TopologicalOrder}).VersionedMarshal()
	vpC07Extensions(t, full, []byte{0, 0, 0, 0, 0, 0, 0, 0, 0})
	vpC07Extensions(t, full, []byte{9, 8, 7, 6, 5, 4, 3, 2, 1})
	for k := len(full) - 1; k >= 0 && k >= len(full)-90; k-- {
		if acc, _ := vpC07Probe(t, full[:k]); acc && k != len(full)-8 {
			t.Fatalf("truncation to %d of %d bytes accepted", k, len(full))
		}
	}
	return true
}

func vpC07FuzzSeeds() [][]byte {
	seeds := [][]byte{}
	gen := rapid.Custom(vpC07GenValid)
	for i := 0; i < 40; i++ {
		r := gen.Example(5000 + i)
		if r.TxCount > 20 {
			r.Txs, r.TxCount = r.Txs[:20], 20
		}
		full := vpC07Snapshot(r).VersionedMarshal()
		seeds = append(seeds, full, full[:len(full)-8])
		if i%4 == 0 {
			seeds = append(seeds, append(append([]byte{}, full[:len(full)-8]...), 0, 0, 0), full[:len(full)-3])
		}
	}
	// hostile constants
	hdr := []byte{0x77, 0x77, 0, 2}
	z := func(n int) []byte { return make([]byte, n) }
	cat := func(parts ...[]byte) []byte { return bytes.Join(parts, nil) }
	seeds = append(seeds,
		nil, hdr, []byte{0x77, 0x77, 0, 1}, []byte{0x77, 0x77, 0, 3},
		cat(hdr, z(32), z(8), []byte{0, 0}, []byte{0, 0}, z(8), z(8)),                      // count 0
		cat(hdr, z(32), z(8), []byte{0, 0}, []byte{0xff, 0xff}, z(64)),                     // count 0xffff
		cat(hdr, z(32), z(8), []byte{0xff, 0xff}, z(64)),                                   // references 0xffff
		cat(hdr, z(32), z(8), []byte{0, 0}, []byte{0, 1}, z(32), z(8), z(8)),               // minimal genesis-like, no suffix
		cat(hdr, z(32), z(8), []byte{0, 0}, []byte{0, 1}, z(32), z(8), z(8), z(8)),         // same with topology 0
		cat(hdr, z(32), z(8), []byte{0, 0}, []byte{0, 1}, z(32), z(8), z(8), z(4)),         // partial suffix
		cat(hdr, z(32), z(8), []byte{0, 0}, []byte{0, 1}, z(32), z(8)),                     // no signature field at all
		cat(hdr, z(32), z(8), []byte{0, 2}, z(64), []byte{0, 1}, z(32), z(8), z(8)),        // round 0 with references
		cat(hdr, z(32), []byte{0, 0, 0, 0, 0, 0, 0, 1}, []byte{0, 0}, []byte{0, 1}, z(32), z(8), z(8)), // round 1 without references
		cat(hdr, z(32), []byte{0, 0, 0, 0, 0, 0, 0, 1}, []byte{0, 2}, z(64), []byte{0, 2}, z(64), z(8), z(8)), // duplicate txs
		cat(hdr, z(32), []byte{0, 0, 0, 0, 0, 0, 0, 1}, []byte{0, 2}, z(64), []byte{0, 1}, z(32), z(8), bytes.Repeat([]byte{0xff}, 8), z(64)),
		cat(hdr, z(32), []byte{0, 0, 0, 0, 0, 0, 0, 1}, []byte{0, 2}, z(64), []byte{0, 1}, z(32), z(8), bytes.Repeat([]byte{0xff}, 8), z(64), z(8)),
	)
	return seeds
}

func TestVP_C07_fuzz_seeds(t *testing.T) {
	if kit.Replaying() {
		return
	}
	c := kit.New(t, "C07", "deterministic: the seed corpus of FuzzVP_C07_decode (generated encodings in both forms, partial suffixes, hostile constants) through the fuzz oracle; non-trivial = accepted seed; distinct by byte-string hash")
	c.Require("accepted", "rejected")
	for _, s := range vpC07FuzzSeeds() {
		if vpC07FuzzOracle(t, s) {
			c.Case(vpC07FP(s), true, "accepted")
		} else {
			c.Case(vpC07FP(s), false, "rejected")
		}
	}
}

func FuzzVP_C07_decode(f *testing.F) {
	for _, s := range vpC07FuzzSeeds() {
		f.Add(s)
	}
	f.Fuzz(func(t *testing.T, data []byte) {
		if len(data) > 1<<16 {
			return
		}
		vpC07FuzzOracle(t, data)
	})
}

var _ = fmt.Sprintf
