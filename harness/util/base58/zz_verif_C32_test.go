//go:build verif

package base58

import (
	"bytes"
	"fmt"
	"math/big"
	"strings"
	"testing"

	"pgregory.net/rapid"
	kit "verifkit"
)

// vpC32RefEncode is the textbook conversion: big-endian number in base 58, one
// zero digit per leading zero byte.
func vpC32RefEncode(b []byte) string {
	x := new(big.Int).SetBytes(b)
	r := big.NewInt(58)
	m := new(big.Int)
	var out []byte
	for x.Sign() > 0 {
		x.DivMod(x, r, m)
		out = append(out, alphabet[m.Int64()])
	}
	for _, v := range b {
		if v != 0 {
			break
		}
		out = append(out, alphabet[0])
	}
	for i, j := 0, len(out)-1; i < j; i, j = i+1, j-1 {
		out[i], out[j] = out[j], out[i]
	}
	return string(out)
}

func TestVP_C32_base58(t *testing.T) {
	col := kit.New(t, "C32", "rapid: byte strings of 0..100 bytes with 0..6 leading zero bytes (also all-zero and 0xff..), and digit strings over the alphabet with 0..6 leading zero digits, plus strings holding one foreign character; oracle: Decode(Encode(b)) == b, Encode(b) == textbook big-integer conversion, and every string that decodes to something non-empty prints back identically; non-trivial = input with at least one leading zero byte/digit or longer than 10 digits (more than one 58^10 limb); distinct by input")
	col.Require("leading-zeros", "all-zero", "empty", "len=68", "multi-limb", "string-leading-zero-digit", "string-foreign-char")
	kit.SetChecks(kit.N(3000, 100000))
	rapid.Check(t, func(t *rapid.T) {
		zeros := rapid.SampledFrom([]int{0, 0, 0, 1, 1, 2, 3, 6}).Draw(t, "zeros")
		n := rapid.OneOf(rapid.IntRange(0, 100), rapid.SampledFrom([]int{0, 1, 7, 8, 9, 32, 64, 68})).Draw(t, "len")
		body := rapid.SliceOfN(rapid.Byte(), n, n).Draw(t, "body")
		classes := []string{}
		switch rapid.IntRange(0, 9).Draw(t, "shape") {
		case 0:
			for i := range body {
				body[i] = 0
			}
		case 1:
			for i := range body {
				body[i] = 0xff
			}
		}
		b := append(make([]byte, zeros), body...)
		enc := Encode(b)
		if strings.Trim(enc, alphabet) != "" {
			t.Fatalf("Encode(%x) = %q has characters outside the alphabet", b, enc)
		}
		if ref := vpC32RefEncode(b); enc != ref {
			t.Fatalf("Encode(%x) = %q, textbook conversion gives %q", b, enc, ref)
		}
		dec := Decode(enc)
		if !bytes.Equal(dec, b) {
			t.Fatalf("Decode(Encode(%x)) = %x (printed %q)", b, dec, enc)
		}
		lead := 0
		for lead < len(b) && b[lead] == 0 {
			lead++
		}
		if lead > 0 {
			classes = append(classes, "leading-zeros")
		}
		if lead == len(b) && len(b) > 0 {
			classes = append(classes, "all-zero")
		}
		if len(b) == 0 {
			classes = append(classes, "empty")
		}
		if len(b) == 68 {
			classes = append(classes, "len=68")
		}
		if len(enc)-lead > 10 {
			classes = append(classes, "multi-limb")
		}
		col.Case(fmt.Sprintf("b:%x", b), lead > 0 || len(enc) > 10, classes...)

		// string side
		sz := rapid.SampledFrom([]int{0, 0, 1, 2, 6}).Draw(t, "szeros")
		sn := rapid.IntRange(0, 120).Draw(t, "slen")
		sb := make([]byte, 0, sz+sn+1)
		for i := 0; i < sz; i++ {
			sb = append(sb, alphabet[0])
		}
		for i := 0; i < sn; i++ {
			sb = append(sb, alphabet[rapid.IntRange(0, 57).Draw(t, "digit")])
		}
		s := string(sb)
		scl := []string{}
		if len(s) > 0 && s[0] == alphabet[0] {
			scl = append(scl, "string-leading-zero-digit")
		}
		if rapid.IntRange(0, 5).Draw(t, "foreign") == 0 {
			pos := rapid.IntRange(0, len(s)).Draw(t, "fpos")
			s = s[:pos] + rapid.SampledFrom([]string{"0", "O", "I", "l", " ", "-", "\x00", "\x7f", "\x80", "\xff", "é", "１"}).Draw(t, "fchar") + s[pos:]
			scl = append(scl, "string-foreign-char")
		}
		var d []byte
		if p := vpC32Catch(func() { d = Decode(s) }); p != nil {
			t.Fatalf("Decode(%q) panicked: %v", s, p)
		}
		if len(d) > 0 {
			if back := Encode(d); back != s {
				t.Fatalf("Decode(%q) = %x prints back as %q", s, d, back)
			}
		}
		if strings.Trim(s, alphabet) == "" && len(s) > 0 && len(d) == 0 {
			t.Fatalf("Decode(%q) of a non-empty digit string is empty", s)
		}
		col.Case("s:"+s, len(scl) > 0 || len(s) > 10, scl...)
		col.Sample(map[string]string{"bytes": fmt.Sprintf("%x", b), "printed": enc})
	})
}

func vpC32Catch(f func()) (p any) {
	defer func() {
		if r := recover(); r != nil {
			p = fmt.Sprint(r)
		}
	}()
	f()
	return nil
}
