//go:build verif

package kernel

// C11 (kernel part) — historical consensus views depend only on earlier records.
//
// Strictness derived from the code: NodesListWithoutState(q) uses the newest
// state sequence with Timestamp < q, which was built from the records with
// Timestamp < seq.Timestamp+1; every other view (ConsensusKeys,
// ConsensusThreshold, PledgingNode, electSnapshotNode, the predictive removal
// candidate evaluated at a window start <= q) goes through it. So the records
// that "precede" q are exactly those with Timestamp < q; a record AT q is not
// consulted. The truncation relation keeps Timestamp < q, the append relation
// adds only Timestamp > q.

import (
	"fmt"
	"strings"
	"testing"

	"github.com/MixinNetwork/mixin/common"
	"github.com/MixinNetwork/mixin/config"
	"github.com/MixinNetwork/mixin/crypto"
	"pgregory.net/rapid"
	kit "verifkit"
)

func vpC11ListString(nodes []*CNode) string {
	var sb strings.Builder
	for _, n := range nodes {
		fmt.Fprintf(&sb, "%s/%s/%d/%s/%s/%s/%d;", n.IdForNetwork.String()[:12], n.State, n.Timestamp, n.Transaction.String()[:8],
			n.Signer.PublicSpendKey.String()[:8], n.Payee.PublicSpendKey.String()[:8], n.ConsensusIndex)
	}
	return sb.String()
}

// vpC11View renders every time-indexed view the property names, at q.
// pledging (may be nil) configures the pledging-chain object; acceptedId the
// accepted-chain object; electable says whether electSnapshotNode may be asked.
func vpC11View(node *Node, q uint64, acceptedId crypto.Hash, pledging *CNode, electable bool) map[string]string {
	v := make(map[string]string)
	v["list"] = vpC11ListString(node.NodesListWithoutState(q, false))
	v["list-accepted"] = vpC11ListString(node.NodesListWithoutState(q, true))
	v["threshold"] = fmt.Sprintf("%d/%d", node.ConsensusThreshold(q, false), node.ConsensusThreshold(q, true))
	if p := node.PledgingNode(q); p != nil {
		v["pledging"] = vpC11ListString([]*CNode{p})
	} else {
		v["pledging"] = "nil"
	}
	chains := map[string]*Chain{"acc": vpKMChain(node, acceptedId, nil)}
	if pledging != nil {
		chains["plg"] = vpKMChain(node, pledging.IdForNetwork, pledging)
	}
	for name, ch := range chains {
		for _, r := range []uint64{0, 1} {
			ids, keys := ch.ConsensusKeys(r, q)
			var sb strings.Builder
			for i := range ids {
				fmt.Fprintf(&sb, "%s:%s;", ids[i].String()[:12], keys[i].String()[:12])
			}
			v[fmt.Sprintf("keys-%s-r%d", name, r)] = sb.String()
		}
	}
	if electable {
		var sb strings.Builder
		for _, op := range []byte{common.TransactionTypeMint, common.TransactionTypeNodeRemove, common.TransactionTypeNodePledge,
			common.TransactionTypeCustodianUpdateNodes, common.TransactionTypeCustodianSlashNodes, common.TransactionTypeScript} {
			fmt.Fprintf(&sb, "%s;", node.electSnapshotNode(op, q).String()[:12])
		}
		v["elect"] = sb.String()
	}
	return v
}

func vpC11Diff(a, b map[string]string) string {
	for k, av := range a {
		if bv, ok := b[k]; !ok || av != bv {
			return fmt.Sprintf("view %q differs:\n  A=%s\n  B=%s", k, av, b[k])
		}
	}
	if len(a) != len(b) {
		return "different view sets"
	}
	return ""
}

// vpC11Later draws 0..4 extra records, all strictly later than q, continuing
// the lifecycle of the truncated history (removals of accepted nodes, a new
// pledge and its accept/cancel).
func vpC11Later(rt *rapid.T, h *vpKMHist, before []*CNode, q uint64) []*CNode {
	shadow := vpKMNewHist(h.Epoch, h.Network, h.Salt^0x9e3779b97f4a7c15, false)
	k := rapid.IntRange(0, 4).Draw(rt, "later_n")
	cur := q + 1
	var accepted []*CNode
	for _, r := range vpKMModelList(before, ^uint64(0)) {
		if r.State == common.NodeStateAccepted {
			accepted = append(accepted, r)
		}
	}
	var pledging *CNode
	for _, r := range vpKMModelList(before, ^uint64(0)) {
		if r.State == common.NodeStatePledging {
			pledging = r
		}
	}
	for i := 0; i < k; i++ {
		step := rapid.SampledFrom([]uint64{0, 0, 1, vpKMMature30s, vpKMMature12h, 3 * vpKMDay}).Draw(rt, "later_step")
		cur += step
		switch {
		case pledging != nil:
			st := rapid.SampledFrom([]string{common.NodeStateAccepted, common.NodeStateCancelled}).Draw(rt, "later_follow")
			if cur <= pledging.Timestamp {
				cur = pledging.Timestamp + 1
			}
			shadow.Follow(pledging, st, cur)
			pledging = nil
			cur++
		case len(accepted) > 0 && rapid.IntRange(0, 1).Draw(rt, "later_kind") == 0:
			j := rapid.IntRange(0, len(accepted)-1).Draw(rt, "later_rm")
			shadow.Follow(accepted[j], common.NodeStateRemoved, cur)
			accepted = append(accepted[:j:j], accepted[j+1:]...)
		default:
			pledging = shadow.Pledge(cur)
		}
	}
	return shadow.Records
}

func TestVP_C11_views(t *testing.T) {
	c := kit.New(t, "C11", "rapid: G-membership histories (7..12 genesis quick / ..50 thorough, equal/adjacent genesis timestamps, 0..12 lifecycle operations with equal, +1ns, 30s, 12h, 7d and window-aligned steps) x 12 query times from {t-1,t,t+1} of records, maturity and window edges; relations: view(H,q) == view(records with ts<q, q) == view(those + drawn records with ts>q, q), repeated/shuffled query order on one Node, membership list and ConsensusIndex against a reference list; views = NodesListWithoutState(q,false|true), ConsensusKeys(0|1,q) on accepted and pledging chain objects, ConsensusThreshold(q,false|true), PledgingNode, electSnapshotNode (when >=7 accepted); non-trivial = records on both sides of q; distinct by (salt,q)")
	c.Require("record-at-q", "record-at-q+1", "records-both-sides", "later-appended", "elect-compared", "removed-before-q", "pledging-at-q", "removal-candidate-at-q")
	kit.SetChecks(kit.N(500, 12000))
	maxG := 12
	if kit.Thorough() {
		maxG = 50
	}
	rapid.Check(t, func(rt *rapid.T) {
		h := vpKMGenHist(rt, vpKMOpts{Epoch: vpKMEpochDefault, Network: vpKMNetwork("c11"), MinGenesis: 7, MaxGenesis: maxG, MaxOps: 12, AllowBelow7: true, ValidBias: 50, GenesisModes: []string{"equal", "incr", "mixed", "mixed"}})
		full := vpKMNewNode(h, h.Records, nil)
		sorted := h.Sorted()
		var pledgingInfo *CNode
		for _, r := range vpKMModelList(sorted, ^uint64(0)) {
			if r.State == common.NodeStatePledging {
				pledgingInfo = r
			}
		}
		if pledgingInfo == nil {
			// a chain object of a node that pledged at some point (stale identity)
			for _, r := range sorted {
				if r.State == common.NodeStatePledging {
					pledgingInfo = r
				}
			}
		}
		acceptedId := sorted[0].IdForNetwork

		type query struct {
			q         uint64
			electable bool
		}
		var qs []query
		answers := make(map[uint64]map[string]string)
		for i := 0; i < 12; i++ {
			q := vpKMDrawTime(rt, h, fmt.Sprintf("q%d", i))
			m := vpKMModel(h, sorted, q)
			electable := q >= h.Epoch && len(m.Accepted) >= config.KernelMinimumNodesCount
			qs = append(qs, query{q, electable})

			vFull := vpC11View(full, q, acceptedId, pledgingInfo, electable)
			answers[q] = vFull

			before := vpKMBefore(sorted, q)
			trunc := vpKMNewNode(h, before, nil)
			vTrunc := vpC11View(trunc, q, acceptedId, pledgingInfo, electable)
			if d := vpC11Diff(vFull, vTrunc); d != "" {
				rt.Fatalf("truncation to records before q=epoch+%d changes the view: %s\nops=%v", int64(q-h.Epoch), d, h.Ops)
			}
			later := vpC11Later(rt, h, before, q)
			plus := vpKMNewNode(h, append(append([]*CNode{}, before...), later...), nil)
			vPlus := vpC11View(plus, q, acceptedId, pledgingInfo, electable)
			if d := vpC11Diff(vFull, vPlus); d != "" {
				rt.Fatalf("appending %d later records changes the view at q=epoch+%d: %s\nops=%v", len(later), int64(q-h.Epoch), d, h.Ops)
			}

			// reference: membership list, state, timestamps and consensus indexes
			for _, acceptedOnly := range []bool{false, true} {
				got := full.NodesListWithoutState(q, acceptedOnly)
				var want []*CNode
				idx := 0
				for _, r := range m.List {
					cp := *r
					cp.ConsensusIndex = idx
					if r.State == common.NodeStateAccepted || r.State == common.NodeStatePledging {
						idx++
					}
					if acceptedOnly && r.State != common.NodeStateAccepted {
						continue
					}
					want = append(want, &cp)
				}
				if acceptedOnly {
					// indexes of the accepted-only list count accepted nodes only
					for i := range want {
						want[i].ConsensusIndex = i
					}
				}
				if g, w := vpC11ListString(got), vpC11ListString(want); g != w {
					rt.Fatalf("membership list (acceptedOnly=%t) at q=epoch+%d\n got=%s\nwant=%s\nops=%v", acceptedOnly, int64(q-h.Epoch), g, w, h.Ops)
				}
			}

			classes := []string{}
			after := 0
			atQ, atQ1 := false, false
			for _, r := range sorted {
				if r.Timestamp >= q {
					after++
				}
				if r.Timestamp == q {
					atQ = true
				}
				if r.Timestamp == q+1 || r.Timestamp+1 == q {
					atQ1 = true
				}
			}
			both := len(before) > 0 && after > 0
			if atQ {
				classes = append(classes, "record-at-q")
			}
			if atQ1 {
				classes = append(classes, "record-at-q+1")
			}
			if both {
				classes = append(classes, "records-both-sides")
			}
			if len(later) > 0 {
				classes = append(classes, "later-appended")
			}
			if electable {
				classes = append(classes, "elect-compared")
			}
			if m.Pledging != nil {
				classes = append(classes, "pledging-at-q")
			}
			if m.Removing != nil {
				classes = append(classes, "removal-candidate-at-q")
			}
			for _, r := range m.List {
				if r.State == common.NodeStateRemoved {
					classes = append(classes, "removed-before-q")
					break
				}
			}
			c.Case(fmt.Sprintf("%d|%d", h.Salt, q), both, classes...)
		}

		// query order independence on one Node object
		n := len(qs)
		for k := 0; k < 2*n; k++ {
			qq := qs[rapid.IntRange(0, n-1).Draw(rt, "reorder")]
			again := vpC11View(full, qq.q, acceptedId, pledgingInfo, qq.electable)
			if d := vpC11Diff(answers[qq.q], again); d != "" {
				rt.Fatalf("repeated query at epoch+%d in another order answers differently: %s", int64(qq.q-h.Epoch), d)
			}
		}
		if len(h.Records) < 11 {
			c.Sample(map[string]any{"ops": h.Ops})
		}
	})
}

// TestVP_C11_views_after_reloads: a long-lived node follows the ledger record
// by record (LoadConsensusNodes after every arrival, as reloadConsensusState
// does), one record arriving late; its views must equal those of a node that
// loads the complete ledger at once.
func TestVP_C11_views_after_reloads(t *testing.T) {
	c := kit.New(t, "C11", "rapid: G-membership histories as in TestVP_C11_views (equal and adjacent timestamps); one Node object starts with the genesis records and reloads (LoadConsensusNodes on a record store) after every further record arrives in timestamp order, one drawn record arriving last; oracle: after the last reload every view (lists, pledging node, thresholds, key vectors of an accepted and the pledging chain, elected operators) at 8 boundary-biased query times equals the view of a node that loaded the complete history at once; non-trivial = history with a timestamp tie among lifecycle records or a late record; distinct by (ops, late index, query time)")
	c.Require("incremental-reloads", "late-record", "timestamp-tie")
	kit.SetChecks(kit.N(300, 8000))
	rapid.Check(t, func(rt *rapid.T) {
		h := vpKMGenHist(rt, vpKMOpts{Epoch: vpKMEpochDefault, Network: vpKMNetwork("c11r"), MinGenesis: 7, MaxGenesis: 10, MaxOps: 10, AllowBelow7: true, ValidBias: 60, GenesisModes: []string{"equal", "mixed"}})
		recs := h.Sorted()
		var later []int
		for i, r := range recs {
			if !h.Genesis[r.IdForNetwork] || r.State != common.NodeStateAccepted || r.Timestamp > h.Epoch+uint64(1000) {
				later = append(later, i)
			}
		}
		if len(later) == 0 {
			rt.Skip("genesis only")
		}
		late := -1
		if rapid.Bool().Draw(rt, "with_late") {
			late = later[rapid.IntRange(0, len(later)-1).Draw(rt, "late")]
		}
		isLater := map[int]bool{}
		for _, i := range later {
			isLater[i] = true
		}
		st := &vpKMStubStore{}
		add := func(r *CNode) {
			st.nodes = append(st.nodes, &common.Node{Signer: r.Signer, Payee: r.Payee, State: r.State, Transaction: r.Transaction, Timestamp: r.Timestamp})
		}
		for i, r := range recs {
			if !isLater[i] {
				add(r)
			}
		}
		node := &Node{Epoch: h.Epoch, networkId: h.Network, genesisNodesMap: h.Genesis, persistStore: st}
		if err := node.LoadConsensusNodes(); err != nil {
			rt.Fatalf("load: %v", err)
		}
		tie := false
		var prevTs uint64
		for _, i := range later {
			if i == late {
				continue
			}
			if recs[i].Timestamp == prevTs {
				tie = true
			}
			prevTs = recs[i].Timestamp
			add(recs[i])
			if err := node.LoadConsensusNodes(); err != nil {
				rt.Fatalf("reload: %v", err)
			}
		}
		if late >= 0 {
			add(recs[late])
			if err := node.LoadConsensusNodes(); err != nil {
				rt.Fatalf("reload: %v", err)
			}
		}
		full := vpKMLoadNode(h, recs)
		var pledgingInfo *CNode
		for _, r := range vpKMModelList(recs, ^uint64(0)) {
			if r.State == common.NodeStatePledging {
				pledgingInfo = r
			}
		}
		classes := []string{"incremental-reloads"}
		if late >= 0 {
			classes = append(classes, "late-record")
		}
		if tie {
			classes = append(classes, "timestamp-tie")
		}
		for qi := 0; qi < 8; qi++ {
			q := vpKMDrawTime(rt, h, fmt.Sprintf("q%d", qi))
			if q < h.Epoch {
				continue
			}
			acc := full.NodesListWithoutState(q, true)
			if len(acc) == 0 {
				continue
			}
			id := acc[len(acc)/2].IdForNetwork
			electable := len(acc) >= config.KernelMinimumNodesCount
			a := vpC11View(node, q, id, pledgingInfo, electable)
			b := vpC11View(full, q, id, pledgingInfo, electable)
			if d := vpC11Diff(a, b); d != "" {
				rt.Fatalf("a node that followed the ledger record by record (late record: %v) and a node that loaded it at once disagree at epoch+%d: %s\nops=%v", late >= 0, int64(q-h.Epoch), d, h.Ops)
			}
			c.Case(fmt.Sprintf("%v|%d|%d", h.Ops, late, q-h.Epoch), tie || late >= 0, classes...)
		}
	})
}
