//go:build verif

package kernel

import (
	"fmt"
	"sort"
	"testing"
	"time"

	"github.com/MixinNetwork/mixin/common"
	"github.com/MixinNetwork/mixin/config"
	"github.com/MixinNetwork/mixin/crypto"
	"pgregory.net/rapid"
	kit "verifkit"
)

type vpC24Tx struct {
	ver       *common.VersionedTransaction
	hash      crypto.Hash
	finalized bool
	inCache   bool
	inPersist bool
}

type vpC24Prop struct {
	snap    *common.Snapshot
	txs     []int
	expired bool
	done    bool // threshold of commitments reached and every response in
	retired bool
}

func TestVP_C24_retire_requeues(t *testing.T) {
	c := kit.New(t, "C24", "rapid: on a real node's own chain, 1..6 in-flight local proposals (aggregators + verifier entries installed exactly as an announcement does) over 2..8 transactions with overlaps; per transaction: finalized or not, body in the cache / only in the ledger store / nowhere; per proposal: snapshot time relative to now (expired after a round gap or not), commitment and response counts relative to the threshold; all transactions start in flight (queued, then retrieved); in a third of the cases the own chain's round then moves on through the finalization path (two certified snapshots of the own chain delivered by peers, the second opening the next round) while the proposals of the previous round stay in flight; one retirement operation runs: expiry at 'now', abandon-and-retry of one proposal, or a round reset with an owned set; oracle: draining the cache queue afterwards must contain every transaction of a retired proposal that is unfinalized, has a body and is not in a still-active proposal (reset: not owned); must not contain transactions that belong only to still-active proposals, are finalized, have no body, or are owned; shared retired/active transactions may go either way; retired aggregators are gone, active ones and their verifier entries stay (reset clears all); no transaction remains guarded (verifier entry of the current round younger than a round gap, the duplicate rule of cosiSendAnnouncement) by a retired proposal; non-trivial = >=2 proposals sharing a transaction with both a retired and an active one; distinct by scenario")
	c.Require("expire", "retry", "reset", "shared-retired-active", "finalized-tx", "bodyless-tx", "persist-only-body", "completed-not-expired", "owned", "challenge-phase", "retired-within-gap", "expire-after-round-moved-on", "retry-after-round-moved-on")
	kit.SetChecks(kit.N(120, 3000))
	rapid.Check(t, func(t *rapid.T) {
		e := vpC16Start("c24")
		defer e.Close()
		node := e.k.Node
		chain := node.chain
		store := node.persistStore
		now := e.clock + uint64(time.Hour)
		ntx := rapid.IntRange(2, 8).Draw(t, "ntx")
		var txs []*vpC24Tx
		classes := map[string]bool{}
		for i := 0; i < ntx; i++ {
			e.seq++
			tx := &vpC24Tx{ver: e.net.BTCDeposit(common.NewInteger(1), i%4, fmt.Sprintf("0xc24-%d", e.seq), e.seq)}
			tx.hash = tx.ver.PayloadHash()
			if err := store.CacheQueueTransaction(tx.ver); err != nil {
				t.Fatal(err)
			}
			tx.inCache = true
			txs = append(txs, tx)
		}
		// in flight: retrieved from the queue by the batcher
		if got, err := store.CacheRetrieveTransactions(1000); err != nil || len(got) != ntx {
			t.Fatalf("putting transactions in flight: %d %v", len(got), err)
		}
		for _, tx := range txs {
			switch rapid.IntRange(0, 5).Draw(t, "tx_state") {
			case 0: // finalized through another chain
				e.clock += uint64(50 * time.Millisecond)
				s := e.k.NextSnapshot(1+rapid.IntRange(0, 5).Draw(t, "fin_chain"), []crypto.Hash{tx.hash}, e.clock, false, 0)
				e.k.Certify(s, 0)
				fin, pan, err := e.finalize(s, []*common.VersionedTransaction{tx.ver})
				if !fin || pan != nil || err != nil {
					t.Fatalf("finalizing: %v %v %v", fin, pan, err)
				}
				tx.finalized, tx.inPersist = true, true
				classes["finalized-tx"] = true
			case 1: // body nowhere
				if err := store.CacheRemoveTransactions([]crypto.Hash{tx.hash}); err != nil {
					t.Fatal(err)
				}
				tx.inCache = false
				classes["bodyless-tx"] = true
			case 2: // admitted into the ledger store (locked, body persisted), cache copy gone
				if err := tx.ver.Validate(store, now, false); err != nil {
					t.Fatalf("validate: %v", err)
				}
				if err := node.lockAndPersistTransaction(tx.ver, false); err != nil {
					t.Fatalf("persist: %v", err)
				}
				if err := store.CacheRemoveTransactions([]crypto.Hash{tx.hash}); err != nil {
					t.Fatal(err)
				}
				tx.inCache, tx.inPersist = false, true
				classes["persist-only-body"] = true
			}
		}
		base := node.ConsensusThreshold(now, false)
		nprop := rapid.IntRange(1, 6).Draw(t, "nprop")
		var props []*vpC24Prop
		for i := 0; i < nprop; i++ {
			k := rapid.IntRange(1, min(4, ntx)).Draw(t, "prop_ntx")
			idx := rapid.Permutation(vpC24Range(ntx)).Draw(t, "prop_txs")[:k]
			sort.Ints(idx)
			p := &vpC24Prop{txs: idx, expired: rapid.Bool().Draw(t, "expired")}
			ts := now - uint64(rapid.IntRange(1, 2900).Draw(t, "age_ms"))*uint64(time.Millisecond)
			if p.expired {
				ts = now - config.SnapshotRoundGap - uint64(rapid.IntRange(0, 5000).Draw(t, "over_ms"))*uint64(time.Millisecond)
			}
			s := &common.Snapshot{Version: common.SnapshotVersionCommonEncoding, NodeId: chain.ChainId, RoundNumber: chain.State.CacheRound.Number, References: chain.State.CacheRound.References.Copy(), Timestamp: ts + uint64(i)}
			for _, ti := range idx {
				s.AddTransaction(txs[ti].hash)
			}
			s.Hash = s.PayloadHash()
			p.snap = s
			p.expired = now >= s.Timestamp+config.SnapshotRoundGap // "expires after a round gap"
			agg := &CosiAggregator{Snapshot: s, WantTxs: map[crypto.Hash][]crypto.Hash{}, FullChallenges: map[crypto.Hash]bool{}, Commitments: map[int]*crypto.Key{}, Responses: map[int]*[32]byte{}}
			nc := rapid.IntRange(1, 7).Draw(t, "commitments")
			nr := rapid.IntRange(0, nc).Draw(t, "responses")
			if rapid.IntRange(0, 3).Draw(t, "complete") == 0 {
				nc, nr = base+rapid.IntRange(0, 7-base).Draw(t, "extra_commit"), 0
				nr = nc
			}
			for j := 0; j < nc; j++ {
				k := crypto.NewKeyFromSeed(vpKSeed("c24-commit", i, j)).Public()
				agg.Commitments[j] = &k
			}
			for j := 0; j < nr; j++ {
				agg.Responses[j] = &[32]byte{byte(j + 1)}
			}
			if nc >= base && rapid.IntRange(0, 3).Draw(t, "challenged") != 0 {
				// challenge phase: once the commitment threshold is reached the
				// proposer attaches the aggregate commitment and mask to its
				// snapshot and waits for the responses
				cs := &crypto.CosiSignature{}
				for j := 0; j < nc; j++ {
					cs.Mask |= 1 << uint(j)
				}
				copy(cs.Signature[:], vpKSeed("c24-agg", i))
				s.Signature = cs
				c.Class("challenge-phase")
			}
			p.done = nc >= base && nr == nc
			v := &CosiVerifier{Snapshot: s}
			chain.CosiVerifiers[s.Hash] = v
			for _, h := range s.Transactions {
				chain.CosiVerifiers[h] = v
			}
			chain.CosiAggregators[s.Hash] = agg
			props = append(props, p)
		}
		// while the proposals are in flight the own chain's round may move on
		// through the finalization path (peers deliver finalized snapshots of the
		// node's own chain: one in the running round, one opening the next)
		movedOn := false
		if rapid.IntRange(0, 2).Draw(t, "round_moves_on") == 0 {
			before := chain.State.CacheRound.Number
			for step := 0; step < 2; step++ {
				if step == 0 && len(chain.State.CacheRound.Snapshots) > 0 {
					continue
				}
				e.seq++
				dep := e.net.BTCDeposit(common.NewInteger(1), step, fmt.Sprintf("0xc24-own-%d", e.seq), e.seq)
				e.clock += uint64(50 * time.Millisecond)
				if step == 1 {
					e.clock += config.SnapshotRoundGap + uint64(100*time.Millisecond)
				}
				s := e.k.NextSnapshot(0, []crypto.Hash{dep.PayloadHash()}, e.clock, step == 1, 1+rapid.IntRange(0, 5).Draw(t, "own_ext"))
				e.k.Certify(s, 0)
				fin, pan, err := e.finalize(s, []*common.VersionedTransaction{dep})
				if !fin || pan != nil || err != nil {
					t.Fatalf("harness: own chain snapshot (step %d): %v %v %v", step, fin, pan, err)
				}
			}
			if chain.State.CacheRound.Number != before+1 {
				t.Fatalf("harness: own chain round %d -> %d", before, chain.State.CacheRound.Number)
			}
			if e.clock >= now {
				t.Fatalf("harness: ledger clock passed now")
			}
			movedOn = true
			classes["round-moved-on"] = true
		}
		// operation
		op := rapid.SampledFrom([]string{"expire", "expire", "retry", "reset"}).Draw(t, "op")
		owned := map[crypto.Hash]bool{}
		switch op {
		case "expire":
			for _, p := range props {
				p.retired = p.expired && !p.done
				if p.expired && p.done {
					classes["completed-not-expired"] = true
				}
			}
			chain.expireCosiAggregators(now)
		case "retry":
			p := props[rapid.IntRange(0, len(props)-1).Draw(t, "retry_which")]
			p.retired = true
			chain.retryCosiSnapshot(p.snap)
		case "reset":
			var list []crypto.Hash
			for _, ti := range rapid.Permutation(vpC24Range(ntx)).Draw(t, "owned")[:rapid.IntRange(0, min(3, ntx)).Draw(t, "nowned")] {
				owned[txs[ti].hash] = true
				list = append(list, txs[ti].hash)
				classes["owned"] = true
			}
			for _, p := range props {
				p.retired = true
			}
			chain.resetCosiStateForNewRound(list)
		}
		classes[op] = true
		if movedOn {
			classes[op+"-after-round-moved-on"] = true
		}
		drained, err := store.CacheRetrieveTransactions(1000)
		if err != nil {
			t.Fatal(err)
		}
		inD := map[crypto.Hash]int{}
		for _, d := range drained {
			inD[d.PayloadHash()]++
		}
		shared := false
		for ti, tx := range txs {
			inRetired, inActive := false, false
			for _, p := range props {
				for _, x := range p.txs {
					if x == ti {
						if p.retired {
							inRetired = true
						} else {
							inActive = true
						}
					}
				}
			}
			if inRetired && inActive {
				shared = true
			}
			hasBody := tx.inCache || tx.inPersist
			mustBe := inRetired && !inActive && !tx.finalized && hasBody && !owned[tx.hash]
			mustNot := !inRetired || tx.finalized || !hasBody || owned[tx.hash]
			if mustBe && inD[tx.hash] == 0 {
				t.Fatalf("%s: transaction %d (%s) of a retired proposal is unfinalized, has a body (cache=%v store=%v) and is in no active proposal, but is not eligible again", op, ti, tx.hash, tx.inCache, tx.inPersist)
			}
			if mustNot && inD[tx.hash] > 0 {
				t.Fatalf("%s: transaction %d (%s) re-queued although retired=%v active=%v finalized=%v body=%v owned=%v", op, ti, tx.hash, inRetired, inActive, tx.finalized, hasBody, owned[tx.hash])
			}
			if inD[tx.hash] > 1 {
				t.Fatalf("transaction %s returned twice by one retrieval", tx.hash)
			}
		}
		if shared {
			classes["shared-retired-active"] = true
		}
		for _, p := range props {
			_, hasAgg := chain.CosiAggregators[p.snap.Hash]
			_, hasVer := chain.CosiVerifiers[p.snap.Hash]
			if p.retired && (hasAgg || hasVer) {
				t.Fatalf("%s: retired proposal %s still has aggregator=%v verifier=%v", op, p.snap.Hash, hasAgg, hasVer)
			}
			if !p.retired && (!hasAgg || !hasVer) {
				t.Fatalf("%s: active proposal %s lost aggregator=%v verifier=%v", op, p.snap.Hash, !hasAgg, !hasVer)
			}
		}
		// "eligible for proposal again" has a second half: a proposal made now in
		// this round is deferred as a duplicate for every transaction still guarded
		// by a verifier entry younger than a round gap (cosiSendAnnouncement). Such
		// a guard may only belong to a proposal that is still active.
		for ti, tx := range txs {
			v := chain.CosiVerifiers[tx.hash]
			if v == nil || v.Snapshot == nil {
				continue
			}
			for _, p := range props {
				if !p.retired || p.snap.Hash != v.Snapshot.Hash {
					continue
				}
				if v.Snapshot.RoundNumber > 0 && v.Snapshot.RoundNumber == chain.State.CacheRound.Number && now < v.Snapshot.Timestamp+config.SnapshotRoundGap {
					t.Fatalf("%s: transaction %d (%s) is still guarded by the verifier entry of retired proposal %s: a new proposal in round %d before %d would be deferred as a duplicate and the transaction dropped", op, ti, tx.hash, p.snap.Hash, v.Snapshot.RoundNumber, v.Snapshot.Timestamp+config.SnapshotRoundGap)
				}
			}
		}
		for _, p := range props {
			if p.retired && !p.expired && op != "reset" && p.snap.RoundNumber > 0 {
				classes["retired-within-gap"] = true
			}
		}
		if op == "reset" && (len(chain.CosiAggregators) != 0 || len(chain.CosiVerifiers) != 0) {
			t.Fatalf("round reset left %d aggregators and %d verifier entries", len(chain.CosiAggregators), len(chain.CosiVerifiers))
		}
		var cl []string
		for k := range classes {
			cl = append(cl, k)
		}
		sort.Strings(cl)
		nretired := 0
		for _, p := range props {
			if p.retired {
				nretired++
			}
		}
		c.Case(fmt.Sprint(op, ntx, nprop, len(drained), cl, props[0].snap.Hash), shared && nprop >= 2, cl...)
		c.Sample(map[string]any{"op": op, "transactions": ntx, "proposals": nprop, "retired": nretired, "requeued": len(drained), "classes": cl})
	})
}

func vpC24Range(n int) []int {
	r := make([]int, n)
	for i := range r {
		r[i] = i
	}
	return r
}
