//go:build verif

package kernel

// C05 at the kernel layer: hostile but decodable transactions are pushed
// through the admission paths of a real node (QueueTransaction,
// CacheQueueTransactions, CacheStoreTransactions, popAndProcessCacheQueue) and
// through the snapshot-side validator validateSnapshotTransaction. None of
// them may panic: the loops that call them do not recover.

import (
	"fmt"
	"math/big"
	"os"
	"strings"
	"testing"
	"time"

	"github.com/MixinNetwork/mixin/common"
	"github.com/MixinNetwork/mixin/crypto"
	"github.com/MixinNetwork/mixin/kernel/internal/clock"
	"github.com/MixinNetwork/mixin/p2p"
	"pgregory.net/rapid"
	kit "verifkit"
)

type vpC05Out struct {
	tx    *common.VersionedTransaction
	idx   int
	owner int
	used  bool // locked by a transaction that passed the snapshot-side validator
}

func (o *vpC05Out) amount() common.Integer { return o.tx.Outputs[o.idx].Amount }

type vpC05Env struct {
	k        *vpKNode
	net      *vpKNet
	dir      string
	nodes    int
	self     int
	clock    uint64
	seq      int
	mode     string // "wall" or "ledger": what the kernel's clock reads
	genesis  []*common.VersionedTransaction
	pool     []*vpC05Out // finalized single-key script outputs
	funds    []*vpC05Out // finalized pledge-sized XIN deposits (output 0), inputs of the util builders
	byRef    map[string]*vpC05Out
	known    []crypto.Hash // finalized transactions
	lastCons crypto.Hash
}

func vpC05Int(b *big.Int) common.Integer {
	return common.NewIntegerFromString(new(big.Rat).SetFrac(b, big.NewInt(100000000)).FloatString(8))
}

func (e *vpC05Env) Close() {
	clock.Reset()
	e.k.Stop()
	os.RemoveAll(e.dir)
}

func (e *vpC05Env) finalize(ci int, txs []*common.VersionedTransaction) error {
	e.clock += uint64(10 * time.Millisecond)
	var hs []crypto.Hash
	for _, tx := range txs {
		hs = append(hs, tx.PayloadHash())
	}
	chain := e.k.Node.getOrCreateChain(e.net.NodeIds[ci])
	newRound := false
	if cache := chain.State.CacheRound; len(cache.Snapshots) > 0 {
		start, _ := cache.Gap()
		newRound = e.clock >= start+uint64(2*time.Second)
	}
	s := e.k.NextSnapshot(ci, hs, e.clock, newRound, (ci+1)%e.nodes)
	e.k.Certify(s, 0)
	fin, err := e.k.Deliver(s, txs)
	if err != nil || !fin {
		return fmt.Errorf("funding snapshot not finalized: %v %v", fin, err)
	}
	for _, tx := range txs {
		e.known = append(e.known, tx.PayloadHash())
	}
	return nil
}

func (e *vpC05Env) register(list *[]*vpC05Out, tx *common.VersionedTransaction, idx, owner int) {
	o := &vpC05Out{tx: tx, idx: idx, owner: owner}
	*list = append(*list, o)
	e.byRef[fmt.Sprintf("%s:%d", tx.PayloadHash(), idx)] = o
}

func vpC05Start(t *rapid.T) (*vpC05Env, error) {
	tag := fmt.Sprintf("c05k-%d", rapid.IntRange(0, 1<<20).Draw(t, "net"))
	nodes := rapid.SampledFrom([]int{7, 7, 7, 8}).Draw(t, "nodes")
	self := rapid.SampledFrom([]int{-1, -1, 0, 3}).Draw(t, "self")
	mode := rapid.SampledFrom([]string{"wall", "ledger", "behind"}).Draw(t, "clock")
	return vpC05StartWith(tag, nodes, self, mode, rapid.IntRange(0, nodes-1).Draw(t, "fund_rot"))
}

// vpC05StartWith starts the node and finalizes the funding transactions, one
// snapshot on every chain (rot shifts the assignment), so that every head round
// carries a snapshot at the ledger time.
func vpC05StartWith(tag string, nodes, self int, mode string, rot int) (*vpC05Env, error) {
	e := &vpC05Env{nodes: nodes, self: self, mode: mode, byRef: map[string]*vpC05Out{}}
	e.net = vpKNewNet(e.nodes, tag, 4)
	e.dir = vpKTempDir("c05k")
	clock.Reset()
	k, err := vpKStart(e.net, e.dir, e.self, nil)
	if err != nil {
		os.RemoveAll(e.dir)
		return nil, err
	}
	e.k = k
	// as the C31 harness: a Peer without neighbours; every outgoing bundle is
	// wrapped for the (absent) relayers and dropped
	k.Node.Peer = p2p.NewPeer(k.Node, k.Node.IdForNetwork, "127.0.0.1:0", false)
	e.clock = e.net.Epoch + uint64(36*time.Hour)
	_, _, gtxs, err := e.net.Gns.BuildSnapshots()
	if err != nil {
		e.Close()
		return nil, err
	}
	e.genesis = gtxs
	last, err := k.Node.persistStore.ReadLastConsensusSnapshot()
	if err != nil || last == nil {
		e.Close()
		return nil, fmt.Errorf("no consensus snapshot: %v", err)
	}
	e.lastCons = last.Transactions[0]

	p1 := e.net.XINDeposit(common.KernelNodePledgeAmount, 0, "0xc05k-p1", 1)
	p2 := e.net.XINDeposit(common.KernelNodePledgeAmount, 1, "0xc05k-p2", 2)
	p3 := e.net.XINDeposit(common.KernelNodePledgeAmount, 2, "0xc05k-p3", 3)
	dx := e.net.XINDeposit(common.NewInteger(600), 2, "0xc05k-x", 4)
	db := e.net.BTCDeposit(common.NewInteger(60), 3, "0xc05k-b", 5)
	fund := []*common.VersionedTransaction{p1, p2, p3, dx, db}
	for i := 7; i < e.nodes; i++ {
		fund = append(fund, e.net.BTCDeposit(common.NewInteger(1), 0, fmt.Sprintf("0xc05k-e%d", i), 10+i))
	}
	at := 0
	for _, f := range fund {
		if err := e.finalize((rot+at)%e.nodes, []*common.VersionedTransaction{f}); err != nil {
			e.Close()
			return nil, err
		}
		at++
	}
	to := []int{0, 1, 2, 3, 0, 1, 2, 3}
	tx := e.net.Transfer(dx, 2, to, 6, nil, nil)
	tb := e.net.Transfer(db, 3, to, 7, nil, nil)
	for _, f := range []*common.VersionedTransaction{tx, tb} {
		if err := e.finalize((rot+at)%e.nodes, []*common.VersionedTransaction{f}); err != nil {
			e.Close()
			return nil, err
		}
		at++
	}
	for i, a := range to {
		e.register(&e.pool, tx, i, a)
		e.register(&e.pool, tb, i, a)
	}
	e.register(&e.funds, p1, 0, 0)
	e.register(&e.funds, p2, 0, 1)
	e.register(&e.funds, p3, 0, 2)
	e.seq = 100

	if e.self >= 0 {
		// the peers report this node's own final round: the node counts as
		// broadcasted and caught up, so that it may propose the batch itself
		spm := map[crypto.Hash]*p2p.SyncPoint{}
		final := k.Node.chain.State.FinalRound
		for _, id := range e.net.NodeIds {
			spm[id] = &p2p.SyncPoint{NodeId: id, Number: final.Number, Hash: final.Hash}
		}
		k.Node.SyncPointsMap = spm
	}
	switch e.mode {
	case "ledger":
		clock.MockDiff(time.Unix(0, int64(e.clock)).Add(2 * time.Second).Sub(time.Now()))
	case "behind": // the node's clock lags the ledger by a day: no head round may be extended, nobody can propose
		clock.MockDiff(time.Unix(0, int64(e.clock)).Add(-24 * time.Hour).Sub(time.Now()))
	}
	return e, nil
}

func (e *vpC05Env) ownerSig(o *vpC05Out, msg crypto.Hash) *crypto.Signature {
	po := o.tx.Outputs[o.idx]
	a := &e.net.Accts[o.owner]
	priv := crypto.DeriveGhostPrivateKey(&po.Mask, &a.PrivateViewKey, &a.PrivateSpendKey, uint64(o.idx))
	sig := priv.Sign(msg)
	return &sig
}

// takePool draws up to n pool outputs of one asset, unused ones first.
func (e *vpC05Env) takePool(t *rapid.T, n int) []*vpC05Out {
	var asset crypto.Hash
	var picked []*vpC05Out
	for len(picked) < n {
		var fresh, stale []*vpC05Out
		for _, o := range e.pool {
			dup := false
			for _, p := range picked {
				dup = dup || p == o
			}
			if dup || (len(picked) > 0 && o.tx.Asset != asset) {
				continue
			}
			if o.used {
				stale = append(stale, o)
			} else {
				fresh = append(fresh, o)
			}
		}
		cand := fresh
		if len(cand) == 0 || (len(stale) > 0 && rapid.IntRange(0, 9).Draw(t, "take_used") == 0) {
			cand = stale
		}
		if len(cand) == 0 {
			break
		}
		o := cand[rapid.IntRange(0, len(cand)-1).Draw(t, "take")]
		asset = o.tx.Asset
		picked = append(picked, o)
	}
	return picked
}

func (e *vpC05Env) takeFund(t *rapid.T) *vpC05Out {
	var fresh []*vpC05Out
	for _, o := range e.funds {
		if !o.used {
			fresh = append(fresh, o)
		}
	}
	if len(fresh) == 0 || rapid.IntRange(0, 9).Draw(t, "fund_used") == 0 {
		fresh = e.funds
	}
	return fresh[rapid.IntRange(0, len(fresh)-1).Draw(t, "fund")]
}

// spend builds an owner-signed transaction over pool outputs.
func (e *vpC05Env) spend(ins []*vpC05Out, refs []crypto.Hash, extra []byte, outs func(tx *common.Transaction, total common.Integer)) *common.VersionedTransaction {
	tx := common.NewTransactionV5(ins[0].tx.Asset)
	var total common.Integer
	for i, in := range ins {
		tx.AddInput(in.tx.PayloadHash(), uint(in.idx))
		if i == 0 {
			total = in.amount()
		} else {
			total = total.Add(in.amount())
		}
	}
	outs(tx, total)
	tx.References = refs
	tx.Extra = extra
	signed := &common.SignedTransaction{Transaction: *tx}
	msg := tx.AsVersioned().PayloadHash()
	for _, in := range ins {
		signed.SignaturesMap = append(signed.SignaturesMap, map[uint16]*crypto.Signature{0: e.ownerSig(in, msg)})
	}
	return signed.AsVersioned()
}

var vpC05Templates = []string{"deposit", "transfer", "submit", "custodian", "pledge", "accept", "remove", "mint"}

// template builds one valid (or, for the kinds that need a ledger state the
// harness does not produce, validly shaped) transaction.
func (e *vpC05Env) template(t *rapid.T) (*common.VersionedTransaction, string) {
	e.seq++
	kind := rapid.SampledFrom(vpC05Templates).Draw(t, "template")
	switch kind {
	case "deposit":
		amt := common.NewInteger(uint64(rapid.IntRange(1, 20).Draw(t, "dep_amount")))
		if rapid.Bool().Draw(t, "dep_xin") {
			return e.net.XINDeposit(amt, rapid.IntRange(0, 3).Draw(t, "dep_owner"), fmt.Sprintf("0xc05k-d%d", e.seq), e.seq), kind
		}
		return e.net.BTCDeposit(amt, rapid.IntRange(0, 3).Draw(t, "dep_owner"), fmt.Sprintf("0xc05k-d%d", e.seq), e.seq), kind
	case "transfer", "submit":
		ins := e.takePool(t, rapid.IntRange(1, 2).Draw(t, "nin"))
		nout := rapid.IntRange(1, 3).Draw(t, "nout")
		return e.spend(ins, nil, nil, func(tx *common.Transaction, total common.Integer) {
			rest := total
			if kind == "submit" {
				w := total.Div(2)
				tx.Outputs = append(tx.Outputs, &common.Output{Type: common.OutputTypeWithdrawalSubmit, Amount: w, Withdrawal: &common.WithdrawalData{Address: fmt.Sprintf("addr-%d", e.seq), Tag: "t"}})
				rest = total.Sub(w)
			}
			share := rest.Div(nout)
			for i := 0; i < nout; i++ {
				amt := share
				if i == nout-1 && nout > 1 {
					amt = rest.Sub(share.Mul(nout - 1))
				}
				tx.AddOutputWithType(common.OutputTypeScript, []*common.Address{&e.net.Accts[(e.seq+i)%4]}, common.NewThresholdScript(1), amt, vpKSeed("c05k-out", e.seq, i))
			}
		}), kind
	case "custodian":
		f := e.takeFund(t)
		return e.net.CustodianUpdate(f.tx, f.owner, e.lastCons, e.seq), kind
	case "pledge":
		f := e.takeFund(t)
		return e.net.NodePledge(f.tx, f.owner, vpKNodeAddr(vpKSeed("c05k-signer", e.seq)), vpKNodeAddr(vpKSeed("c05k-payee", e.seq)), e.lastCons), kind
	case "accept":
		f := e.takeFund(t)
		signer := vpKNodeAddr(vpKSeed("c05k-signer", e.seq))
		pledge := e.net.NodePledge(f.tx, f.owner, signer, vpKNodeAddr(vpKSeed("c05k-payee", e.seq)), e.lastCons)
		return e.net.NodeAccept(pledge, signer, e.lastCons), kind
	case "remove":
		ts := e.clock + uint64(rapid.IntRange(0, 10).Draw(t, "remove_hours"))*uint64(time.Hour)
		acc := e.k.Node.NodesListWithoutState(ts, true)
		cand := acc[rapid.SampledFrom([]int{0, 0, 0, 1, len(acc) - 1}).Draw(t, "remove_cand")]
		for _, g := range e.genesis {
			if g.PayloadHash() == cand.Transaction {
				return e.net.NodeRemove(g, cand.Signer, cand.Payee, e.lastCons), kind
			}
		}
		panic("genesis accept transaction not found")
	default: // a universal mint shaped the way the kernel signs one
		tx := common.NewTransactionV5(common.XINAssetId)
		amt := common.NewInteger(uint64(rapid.IntRange(1, 90).Draw(t, "mint_amount")))
		tx.AddUniversalMintInput(uint64(rapid.IntRange(0, 1200).Draw(t, "mint_batch")), amt)
		tx.AddOutputWithType(common.OutputTypeScript, []*common.Address{&e.net.Accts[0]}, common.NewThresholdScript(1), amt, vpKSeed("c05k-mint", e.seq))
		signed := &common.SignedTransaction{Transaction: *tx}
		if err := signed.SignRaw(e.net.Signers[0].PrivateSpendKey); err != nil {
			panic(err)
		}
		return signed.AsVersioned(), kind
	}
}

var vpC05OutTypes = []uint8{common.OutputTypeScript, common.OutputTypeWithdrawalSubmit, common.OutputTypeWithdrawalClaim, common.OutputTypeNodePledge,
	common.OutputTypeNodeAccept, common.OutputTypeNodeRemove, common.OutputTypeNodeCancel, common.OutputTypeCustodianUpdateNodes,
	common.OutputTypeCustodianSlashNodes, 0xa5, 0x7f}

func vpC05Amount(t *rapid.T, label string) common.Integer {
	switch rapid.IntRange(0, 6).Draw(t, label) {
	case 0:
		return common.NewInteger(0)
	case 1:
		return common.NewIntegerFromString("0.0001")
	case 2:
		return common.KernelNodePledgeAmount
	case 3:
		return vpC05Int(new(big.Int).Lsh(big.NewInt(1), uint(rapid.IntRange(60, 110).Draw(t, label+"_exp"))))
	case 4:
		return vpC05Int(new(big.Int).Lsh(big.NewInt(1), uint(rapid.IntRange(111, 6000).Draw(t, label+"_hugeexp"))))
	default:
		return common.NewInteger(uint64(rapid.IntRange(1, 700).Draw(t, label+"_coins")))
	}
}

var vpC05Mutations = []string{"maps-none", "maps-short", "maps-long", "maps-shift", "out-type", "out-amount", "in-repoint", "in-special",
	"storage-out", "aggregate", "refs", "extra", "remove-typed-unsigned", "out-add", "asset"}

// mutate applies 0..3 structural mutations to a copy of base and re-signs
// honestly where the harness owns the keys, so that the structure decides.
func (e *vpC05Env) mutate(t *rapid.T, base *common.VersionedTransaction) (*common.SignedTransaction, []string) {
	st := base.SignedTransaction
	st.Inputs = nil
	for _, in := range base.Inputs {
		ic := *in
		st.Inputs = append(st.Inputs, &ic)
	}
	st.Outputs = nil
	for _, o := range base.Outputs {
		oc := *o
		oc.Keys = append([]*crypto.Key{}, o.Keys...)
		st.Outputs = append(st.Outputs, &oc)
	}
	st.References = append([]crypto.Hash{}, base.References...)
	st.Extra = append([]byte{}, base.Extra...)
	maps := st.SignaturesMap
	st.SignaturesMap = nil
	for _, m := range maps {
		mc := map[uint16]*crypto.Signature{}
		for i, s := range m {
			mc[i] = s
		}
		st.SignaturesMap = append(st.SignaturesMap, mc)
	}
	var classes []string
	resign, sigmut := false, []string{}
	for n := rapid.SampledFrom([]int{0, 1, 1, 2, 2, 3}).Draw(t, "nmut"); n > 0; n-- {
		mk := rapid.SampledFrom(vpC05Mutations).Draw(t, "mutation")
		classes = append(classes, "mut-"+mk)
		k := rapid.IntRange(0, len(st.Outputs)-1).Draw(t, "mut_out")
		switch mk {
		case "maps-none", "maps-short", "maps-long", "maps-shift", "aggregate":
			sigmut = append(sigmut, mk)
		case "out-type":
			st.Outputs[k].Type = rapid.SampledFrom(vpC05OutTypes).Draw(t, "mut_type")
			resign = true
		case "out-amount":
			st.Outputs[k].Amount = vpC05Amount(t, "mut_amount")
			resign = true
		case "in-repoint":
			at := rapid.IntRange(0, len(st.Inputs)-1).Draw(t, "mut_in_at")
			in := &common.Input{}
			switch rapid.IntRange(0, 4).Draw(t, "mut_in_to") {
			case 0: // a genesis node accept output
				g := e.genesis[rapid.IntRange(0, e.nodes-1).Draw(t, "mut_in_node")]
				in.Hash = g.PayloadHash()
				classes = append(classes, "in-genesis-accept")
			case 1: // the genesis custodian output
				in.Hash = e.genesis[len(e.genesis)-1].PayloadHash()
				classes = append(classes, "in-genesis-custodian")
			case 2: // nowhere
				in.Hash = crypto.Blake3Hash([]byte(fmt.Sprint("c05k-missing", e.seq)))
				in.Index = uint(rapid.SampledFrom([]int{0, 1, 255, 1024, 65535, 70000}).Draw(t, "mut_in_idx"))
				classes = append(classes, "in-missing")
			case 3: // a spent output (the deposits behind the pool)
				in.Hash = e.pool[rapid.IntRange(0, 1).Draw(t, "mut_in_spent")].tx.Inputs[0].Hash
				classes = append(classes, "in-spent")
			default: // some pool output, any asset
				o := e.pool[rapid.IntRange(0, len(e.pool)-1).Draw(t, "mut_in_pool")]
				in.Hash, in.Index = o.tx.PayloadHash(), uint(o.idx)
				classes = append(classes, "in-pool")
			}
			st.Inputs[at] = in
			resign = true
		case "in-special":
			at := rapid.IntRange(0, len(st.Inputs)-1).Draw(t, "mut_sp_at")
			in := *st.Inputs[at]
			if rapid.Bool().Draw(t, "mut_sp_mint") {
				in.Mint = &common.MintData{Group: "UNIVERSAL", Batch: uint64(rapid.IntRange(0, 1200).Draw(t, "mut_sp_batch")), Amount: vpC05Amount(t, "mut_sp_amount")}
				in.Deposit = nil
			} else {
				in.Deposit = &common.DepositData{Chain: common.BitcoinAssetId, AssetKey: "c6d0c728-2624-429b-8e0d-d9d19b6592fa", Transaction: fmt.Sprintf("0xc05k-s%d", e.seq), Amount: vpC05Amount(t, "mut_sp_amount")}
				in.Mint = nil
			}
			st.Inputs[at] = &in
			resign = true
		case "storage-out":
			o := st.Outputs[k]
			o.Type = common.OutputTypeScript
			o.Script = common.Script{common.OperatorCmp, common.OperatorSum, 0x40}
			key := crypto.NewKeyFromSeed(vpKSeed("c05k-stkey", e.seq, k)).Public()
			o.Keys = []*crypto.Key{&key}
			o.Mask = crypto.NewKeyFromSeed(vpKSeed("c05k-stmask", e.seq, k)).Public()
			o.Withdrawal = nil
			if rapid.Bool().Draw(t, "mut_st_amount") {
				o.Amount = vpC05Amount(t, "mut_st_amt")
			}
			if rapid.Bool().Draw(t, "mut_st_xin") {
				st.Asset = common.XINAssetId
			}
			if rapid.Bool().Draw(t, "mut_st_extra") {
				st.Extra = make([]byte, rapid.SampledFrom([]int{257, 1024, 1025, 5000}).Draw(t, "mut_st_len"))
			}
			resign = true
		case "refs":
			switch rapid.IntRange(0, 3).Draw(t, "mut_refs") {
			case 0:
				st.References = nil
			case 1:
				st.References = append(st.References, crypto.Blake3Hash([]byte("c05k-noref")))
			case 2:
				st.References = append([]crypto.Hash{e.known[rapid.IntRange(0, len(e.known)-1).Draw(t, "mut_ref_known")]}, st.References...)
			default:
				for len(st.References) < 17 {
					st.References = append(st.References, e.lastCons)
				}
			}
			resign = true
		case "extra":
			switch rapid.IntRange(0, 3).Draw(t, "mut_extra") {
			case 0:
				st.Extra = nil
			case 1:
				st.Extra = st.Extra[:rapid.IntRange(0, len(st.Extra)).Draw(t, "mut_extra_cut")]
			case 2:
				st.Extra = append([]byte{}, e.genesis[rapid.IntRange(0, len(e.genesis)-1).Draw(t, "mut_extra_gen")].Extra...)
			default:
				st.Extra = append(st.Extra, make([]byte, rapid.SampledFrom([]int{1, 32, 64, 200, 300}).Draw(t, "mut_extra_add"))...)
			}
			resign = true
		case "remove-typed-unsigned":
			st.Outputs[k].Type = common.OutputTypeNodeRemove
			if st.Outputs[k].Withdrawal != nil || len(st.Outputs[k].Keys) == 0 {
				key := crypto.NewKeyFromSeed(vpKSeed("c05k-rmkey", e.seq, k)).Public()
				st.Outputs[k].Keys = []*crypto.Key{&key}
				st.Outputs[k].Mask = crypto.NewKeyFromSeed(vpKSeed("c05k-rmmask", e.seq, k)).Public()
				st.Outputs[k].Script = common.NewThresholdScript(1)
				st.Outputs[k].Withdrawal = nil
			}
			resign = true
			sigmut = append(sigmut, rapid.SampledFrom([]string{"maps-none", "maps-short"}).Draw(t, "mut_rm_maps"))
		case "out-add":
			o := &common.Output{Type: rapid.SampledFrom(vpC05OutTypes).Draw(t, "mut_add_type"), Amount: vpC05Amount(t, "mut_add_amount")}
			if rapid.Bool().Draw(t, "mut_add_keys") {
				key := crypto.NewKeyFromSeed(vpKSeed("c05k-addkey", e.seq, n)).Public()
				o.Keys = []*crypto.Key{&key}
				o.Mask = crypto.NewKeyFromSeed(vpKSeed("c05k-addmask", e.seq, n)).Public()
				o.Script = common.NewThresholdScript(1)
			}
			st.Outputs = append(st.Outputs, o)
			resign = true
		case "asset":
			st.Asset = rapid.SampledFrom([]crypto.Hash{common.XINAssetId, common.BitcoinAssetId, crypto.Blake3Hash([]byte("c05k-asset"))}).Draw(t, "mut_asset")
			resign = true
		}
	}
	if resign && st.AggregatedSignature == nil && st.SignaturesMap != nil && rapid.IntRange(0, 4).Draw(t, "resign") != 0 {
		var msg crypto.Hash
		if p := vpKCatch(func() { msg = st.Transaction.AsVersioned().PayloadHash() }); p != nil {
			return nil, append(classes, "not-encodable")
		}
		for i, in := range st.Inputs {
			if i >= len(st.SignaturesMap) {
				break
			}
			m := map[uint16]*crypto.Signature{}
			if o := e.byRef[fmt.Sprintf("%s:%d", in.Hash, in.Index)]; o != nil && in.Mint == nil && in.Deposit == nil {
				m[0] = e.ownerSig(o, msg)
			} else {
				sig := e.net.Custodian.PrivateSpendKey.Sign(msg)
				m[0] = &sig
			}
			st.SignaturesMap[i] = m
		}
	}
	for _, mk := range sigmut {
		switch mk {
		case "maps-none":
			st.SignaturesMap, st.AggregatedSignature = nil, nil
		case "maps-short":
			if len(st.SignaturesMap) > 0 {
				st.SignaturesMap = st.SignaturesMap[:len(st.SignaturesMap)-1]
			}
		case "maps-long":
			extra := map[uint16]*crypto.Signature{}
			if len(st.SignaturesMap) > 0 && rapid.Bool().Draw(t, "mut_long_copy") {
				for i, s := range st.SignaturesMap[0] {
					extra[i] = s
				}
			}
			st.SignaturesMap = append(st.SignaturesMap, extra)
		case "maps-shift":
			if len(st.SignaturesMap) > 0 {
				at := rapid.IntRange(0, len(st.SignaturesMap)-1).Draw(t, "mut_shift_at")
				shift := rapid.SampledFrom([]uint16{1, 2, 255, 256, 65534}).Draw(t, "mut_shift")
				nm := map[uint16]*crypto.Signature{}
				for i, s := range st.SignaturesMap[at] {
					nm[i+shift] = s
					if rapid.Bool().Draw(t, "mut_shift_keep") {
						nm[i] = s
					}
				}
				st.SignaturesMap[at] = nm
			}
		case "aggregate":
			as := &common.AggregatedSignature{}
			copy(as.Signature[:], vpKSeed("c05k-agg", e.seq))
			m := -1
			for j := rapid.IntRange(0, 4).Draw(t, "mut_agg_n"); j > 0; j-- {
				m += rapid.IntRange(1, 3).Draw(t, "mut_agg_gap")
				as.Signers = append(as.Signers, m)
			}
			st.AggregatedSignature, st.SignaturesMap = as, nil
		}
	}
	return &st, classes
}

func vpC05Reached(err error) string {
	if err == nil {
		return "accepted"
	}
	s := err.Error()
	for _, early := range []string{"invalid tx version", "invalid tx type", "invalid tx inputs or outputs", "invalid input index", "invalid extra size", "invalid transaction size", "invalid signatures map", "invalid tx signature number", "too many references", "reference not found"} {
		if strings.HasPrefix(s, early) {
			return "early"
		}
	}
	return "deep"
}

type vpC05Tx struct {
	ver     *common.VersionedTransaction
	classes []string
	deep    bool // got past the structural checks of Validate inside some entry point
	cached  bool
	queued  bool
}

func (x *vpC05Tx) hex() string {
	h := fmt.Sprintf("%x", x.ver.Marshal())
	if len(h) > 1600 {
		h = h[:1600] + "..."
	}
	return h
}

// logDelta counts the store calls of one name made since mark.
func vpC05LogDelta(p *vpKStore, mark int, name string) int {
	p.mu.Lock()
	defer p.mu.Unlock()
	n := 0
	for _, l := range p.Log[mark:] {
		if l == name {
			n++
		}
	}
	return n
}

func vpC05LogMark(p *vpKStore) int {
	p.mu.Lock()
	defer p.mu.Unlock()
	return len(p.Log)
}

func (e *vpC05Env) chainIndex(id crypto.Hash) int {
	for i, n := range e.net.NodeIds {
		if n == id {
			return i
		}
	}
	return -1
}

func TestVP_C05_kernel_admission(t *testing.T) {
	c := kit.New(t, "C05", "rapid: a real node (7 or 8 genesis nodes; observer or member with peers reporting its round; kernel clock at the wall time, mocked to the ledger time or one day behind the ledger; Peer without neighbours as in C31) with finalized XIN/BTC outputs; batches of 2..6 transactions = valid templates (deposit, transfer, withdrawal submit, custodian update, node pledge, accept- and remove-shaped, mint-shaped) with 0..3 structural mutations (signature maps none/short/long/shifted, aggregate signature with arbitrary signers, output type confusion, huge/zero amounts, inputs re-pointed at genesis accept / custodian / spent / missing / other-asset outputs, mint or deposit payload riding on an ordinary input, storage-output shape, references none/unknown/known/17, extra cut/grown/genesis, node-remove typed without signature maps, extra outputs, other asset), re-signed with the owners' keys, round-tripped through Marshal/Unmarshal; each is handed to QueueTransaction, CacheQueueTransactions and/or CacheStoreTransactions, then popAndProcessCacheQueue runs, then validateSnapshotTransaction(s, false|true) on snapshots naming 1..3 of them (chain elected for the operation or drawn, times in and outside the operation windows); oracle: no call panics; non-trivial = the transaction got past the structural checks of Validate inside an entry point (rejected later or accepted); distinct by encoding hash")
	c.Require("queue-tx:accepted", "queue-tx:deep", "queue-tx:early", "queue-tx:requeue", "cache-queue", "cache-store", "pop:accepted", "pop:deep", "pop:early", "pop-relayed-or-proposed",
		"snap:accepted", "snap:deep", "snap:early", "snap:missing", "snap-finalized", "snap-ordinary", "snap-batch", "snap-kernel-rule",
		"template-deposit", "template-transfer", "template-submit", "template-custodian", "template-pledge", "template-accept", "template-remove", "template-mint",
		"mut-maps-none", "mut-maps-short", "mut-maps-long", "mut-maps-shift", "mut-out-type", "mut-out-amount", "mut-in-repoint", "mut-in-special", "mut-storage-out", "mut-aggregate", "mut-refs", "mut-extra", "mut-remove-typed-unsigned",
		"in-genesis-accept", "in-genesis-custodian", "type-9", "type-0", "unmutated", "self-observer", "self-member", "clock-wall", "clock-ledger", "clock-behind", "nodes-8")
	kit.SetChecks(kit.N(40, 1600))
	rapid.Check(t, func(t *rapid.T) {
		e, err := vpC05Start(t)
		if err != nil {
			t.Fatalf("harness: node setup failed: %v", err)
		}
		defer e.Close()
		node := e.k.Node
		setup := []string{"clock-" + e.mode, fmt.Sprintf("nodes-%d", e.nodes), "self-member"}
		if e.self < 0 {
			setup[2] = "self-observer"
		}
		c.Class(setup...)
		peer := e.net.NodeIds[1]
		batches := rapid.IntRange(2, 6).Draw(t, "batches")
		for b := 0; b < batches; b++ {
			var batch []*vpC05Tx
			for i, n := 0, rapid.IntRange(2, 6).Draw(t, "batch"); i < n; i++ {
				base, kind := e.template(t)
				st, classes := e.mutate(t, base)
				if st == nil {
					c.Class("not-encodable")
					continue
				}
				classes = append(classes, "template-"+kind)
				if len(classes) == 1 {
					classes = append(classes, "unmutated")
				}
				var enc []byte
				if p := vpKCatch(func() { enc = st.AsVersioned().Marshal() }); p != nil {
					c.Class("not-encodable")
					continue
				}
				dec, err := common.UnmarshalVersionedTransaction(enc)
				if err != nil {
					c.Class("not-decodable")
					continue
				}
				classes = append(classes, fmt.Sprintf("type-%d", dec.TransactionType()))
				batch = append(batch, &vpC05Tx{ver: dec, classes: classes})
			}
			// admission
			for _, x := range batch {
				paths := rapid.IntRange(1, 7).Draw(t, "paths")
				if paths&1 != 0 {
					had, _ := node.persistStore.CacheGetTransaction(x.ver.PayloadHash())
					var qerr error
					if p := vpKCatch(func() { _, qerr = node.QueueTransaction(x.ver) }); p != nil {
						t.Fatalf("QueueTransaction panicked: %v\ntransaction type %d (%v): %s", p, x.ver.TransactionType(), x.classes, x.hex())
					}
					if had != nil {
						x.classes = append(x.classes, "queue-tx:requeue")
					} else {
						r := vpC05Reached(qerr)
						x.classes = append(x.classes, "queue-tx:"+r)
						x.deep = x.deep || r != "early"
					}
					if qerr == nil {
						x.cached, x.queued = true, true
					}
				}
				if paths&2 != 0 {
					list := []*common.VersionedTransaction{x.ver}
					with := []*vpC05Tx{x}
					if rapid.Bool().Draw(t, "bundle") {
						for _, y := range batch {
							if y != x && rapid.Bool().Draw(t, "bundle_with") {
								list = append(list, y.ver)
								with = append(with, y)
							}
						}
					}
					var qerr error
					if p := vpKCatch(func() { qerr = node.CacheQueueTransactions(peer, list) }); p != nil {
						t.Fatalf("CacheQueueTransactions panicked: %v\nfirst transaction type %d (%v): %s", p, x.ver.TransactionType(), x.classes, x.hex())
					}
					if qerr != nil {
						x.classes = append(x.classes, "cache-queue-error")
					} else {
						for _, y := range with {
							y.cached, y.queued = true, true
						}
						x.classes = append(x.classes, "cache-queue")
					}
				}
				if paths&4 != 0 {
					var serr error
					if p := vpKCatch(func() { serr = node.CacheStoreTransactions(peer, []*common.VersionedTransaction{x.ver}) }); p != nil {
						t.Fatalf("CacheStoreTransactions panicked: %v\ntransaction type %d (%v): %s", p, x.ver.TransactionType(), x.classes, x.hex())
					}
					if serr != nil {
						x.classes = append(x.classes, "cache-store-error")
					} else {
						x.cached = true
						x.classes = append(x.classes, "cache-store")
					}
				}
			}
			// the queue loop body
			mark := vpC05LogMark(e.k.Proxy)
			processed, pooled := 0, 0
			if node.chain != nil {
				pooled = len(node.chain.CachePool)
			}
			if p := vpKCatch(func() { processed = node.popAndProcessCacheQueue() }); p != nil {
				var l []string
				for _, x := range batch {
					if x.queued {
						l = append(l, fmt.Sprintf("type %d (%v): %s", x.ver.TransactionType(), x.classes, x.hex()))
					}
				}
				t.Fatalf("popAndProcessCacheQueue panicked: %v\nqueued transactions:\n%s", p, strings.Join(l, "\n"))
			}
			c.ClassN("pop-processed", processed)
			if node.chain != nil && len(node.chain.CachePool) > pooled {
				c.Class("pop-self-proposed")
			}
			if n := vpC05LogDelta(e.k.Proxy, mark, "LockGhostKeys"); n > 0 {
				c.ClassN("pop-validated-through-outputs", n)
			}
			now := clock.NowUnixNano()
			for _, x := range batch {
				if !x.queued || processed == 0 {
					continue
				}
				// what the loop's Validate call returned for this transaction (same
				// store, same clock reading up to the elapsed microseconds)
				var verr error
				if p := vpKCatch(func() { verr = x.ver.Validate(node.persistStore, now, false) }); p != nil {
					t.Fatalf("Validate against the node's store panicked (the queue loop had processed %d transactions without): %v\ntransaction type %d (%v): %s", processed, p, x.ver.TransactionType(), x.classes, x.hex())
				}
				r := vpC05Reached(verr)
				x.classes = append(x.classes, "pop:"+r)
				x.deep = x.deep || r != "early"
				if verr == nil {
					x.classes = append(x.classes, "pop-relayed-or-proposed")
				}
			}
			// the snapshot side
			order := rapid.Permutation(batch).Draw(t, "snap_order")
			for len(order) > 0 {
				n := rapid.SampledFrom([]int{1, 1, 1, 2, 3}).Draw(t, "snap_size")
				if n > len(order) {
					n = len(order)
				}
				members := order[:n]
				order = order[n:]
				ts := e.clock + uint64(rapid.IntRange(1, 3000).Draw(t, "snap_ms"))*uint64(time.Millisecond)
				if rapid.Bool().Draw(t, "snap_later") {
					ts += uint64(rapid.IntRange(1, 30).Draw(t, "snap_hours")) * uint64(time.Hour)
				}
				ci := rapid.IntRange(0, e.nodes-1).Draw(t, "snap_chain")
				if n == 1 && rapid.IntRange(0, 3).Draw(t, "snap_elected") != 0 {
					switch op := members[0].ver.TransactionType(); op {
					case common.TransactionTypeMint, common.TransactionTypeNodePledge, common.TransactionTypeNodeRemove, common.TransactionTypeCustodianUpdateNodes:
						if idx := e.chainIndex(node.electSnapshotNode(op, ts)); idx >= 0 {
							ci = idx
						}
					}
				}
				var hs []crypto.Hash
				classes := []string{}
				distinct := members[:0:0]
				for _, x := range members {
					dup := false
					for _, h := range hs {
						dup = dup || h == x.ver.PayloadHash()
					}
					if dup { // a snapshot names a transaction once
						continue
					}
					distinct = append(distinct, x)
					hs = append(hs, x.ver.PayloadHash())
					if !x.cached {
						classes = append(classes, "snap:missing")
					}
				}
				members, n = distinct, len(distinct)
				s := e.k.NextSnapshot(ci, hs, ts, false, (ci+1)%e.nodes)
				if n == 1 && rapid.IntRange(0, 5).Draw(t, "snap_round0") == 0 {
					s.RoundNumber = 0
				}
				s.Hash = s.PayloadHash()
				finalized := rapid.Bool().Draw(t, "snap_finalized")
				mark := vpC05LogMark(e.k.Proxy)
				var found map[crypto.Hash]*common.VersionedTransaction
				var verr error
				if p := vpKCatch(func() { found, _, verr = node.validateSnapshotTransaction(s, finalized) }); p != nil {
					var l []string
					for _, x := range members {
						l = append(l, fmt.Sprintf("type %d (%v): %s", x.ver.TransactionType(), x.classes, x.hex()))
					}
					t.Fatalf("validateSnapshotTransaction(finalized=%v) panicked: %v\nsnapshot chain %d round %d time epoch+%v, transactions:\n%s", finalized, p, ci, s.RoundNumber, time.Duration(ts-e.net.Epoch), strings.Join(l, "\n"))
				}
				if finalized {
					classes = append(classes, "snap-finalized")
				} else {
					classes = append(classes, "snap-ordinary")
				}
				if n > 1 {
					classes = append(classes, "snap-batch")
				}
				r := vpC05Reached(verr)
				if verr != nil && vpC05LogDelta(e.k.Proxy, mark, "LockGhostKeys") > 0 {
					// some member passed the whole of Validate and a kernel-side
					// rule (or a later member) refused the snapshot
					classes = append(classes, "snap-kernel-rule")
				}
				for _, x := range members {
					if !x.cached {
						continue
					}
					if n == 1 || verr == nil {
						x.classes = append(x.classes, "snap:"+r)
						x.deep = x.deep || r != "early"
					}
					if verr == nil && found[x.ver.PayloadHash()] != nil {
						for _, in := range x.ver.Inputs {
							if o := e.byRef[fmt.Sprintf("%s:%d", in.Hash, in.Index)]; o != nil {
								o.used = true
							}
						}
					}
				}
				c.Class(classes...)
			}
			for _, x := range batch {
				c.Case(crypto.Blake3Hash(x.ver.Marshal()).String(), x.deep, x.classes...)
				c.Sample(map[string]any{"type": x.ver.TransactionType(), "inputs": len(x.ver.Inputs), "outputs": len(x.ver.Outputs), "classes": x.classes})
			}
		}
	})
}

// Witnesses of the two repaired C05 defects, through the node's entry points.
func TestVP_C05_kernel_regress(t *testing.T) {
	if kit.Replaying() {
		return
	}
	c := kit.New(t, "C05", "deterministic: the witnesses of C05-F1 (node-remove typed spend of a script output without signature maps) and C05-F2 (XIN storage output of 2^100 units) handed to QueueTransaction, CacheQueueTransactions + popAndProcessCacheQueue and validateSnapshotTransaction of a real observer node; oracle: no panic; distinct by witness and entry point")
	func(rt *testing.T) {
		e, err := vpC05StartWith("c05k-regress", 7, -1, "wall", 0)
		if err != nil {
			rt.Fatalf("harness: node setup failed: %v", err)
		}
		defer e.Close()
		node := e.k.Node
		in := e.pool[0] // XIN
		f1 := e.spend([]*vpC05Out{in}, nil, nil, func(tx *common.Transaction, total common.Integer) {
			tx.AddOutputWithType(common.OutputTypeNodeRemove, []*common.Address{&e.net.Accts[1]}, common.NewThresholdScript(1), total, vpKSeed("c05k-f1"))
		})
		f1.SignaturesMap = nil
		in2 := e.pool[2]
		f2 := e.spend([]*vpC05Out{in2}, nil, make([]byte, 300), func(tx *common.Transaction, total common.Integer) {
			tx.AddOutputWithType(common.OutputTypeScript, []*common.Address{&e.net.Accts[0]}, common.Script{common.OperatorCmp, common.OperatorSum, 0x40}, vpC05Int(new(big.Int).Lsh(big.NewInt(1), 100)), vpKSeed("c05k-f2"))
		})
		for name, w := range map[string]*common.VersionedTransaction{"F1": f1, "F2": f2} {
			dec, err := common.UnmarshalVersionedTransaction(w.Marshal())
			if err != nil {
				rt.Fatalf("witness %s does not decode: %v", name, err)
			}
			if p := vpKCatch(func() { _, err = node.QueueTransaction(dec) }); p != nil {
				rt.Fatalf("witness %s: QueueTransaction panicked: %v", name, p)
			} else if err == nil {
				rt.Fatalf("witness %s accepted", name)
			}
			c.Case(name+"-queue", true, name)
			if p := vpKCatch(func() {
				if err := node.CacheQueueTransactions(e.net.NodeIds[1], []*common.VersionedTransaction{dec}); err != nil {
					panic(err)
				}
				if n := node.popAndProcessCacheQueue(); n != 1 {
					panic(fmt.Sprint("queue loop processed ", n))
				}
			}); p != nil {
				rt.Fatalf("witness %s: CacheQueueTransactions + popAndProcessCacheQueue panicked: %v", name, p)
			}
			c.Case(name+"-pop", true, name)
			s := e.k.NextSnapshot(0, []crypto.Hash{dec.PayloadHash()}, e.clock+uint64(time.Second), false, 1)
			s.Hash = s.PayloadHash()
			for _, fin := range []bool{false, true} {
				if p := vpKCatch(func() { _, _, err = node.validateSnapshotTransaction(s, fin) }); p != nil {
					rt.Fatalf("witness %s: validateSnapshotTransaction(%v) panicked: %v", name, fin, p)
				} else if err == nil {
					rt.Fatalf("witness %s passed the snapshot validator", name)
				}
				c.Case(fmt.Sprint(name, "-snap-", fin), true, name)
			}
		}
	}(t)
}
