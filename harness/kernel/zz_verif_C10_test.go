//go:build verif

package kernel

// C10 — any two threshold certificates share more than a third of the signer set.
//
// For every membership configuration and snapshot timestamp:
//   n = len(ConsensusKeys(round, ts)) on the chain, T = ConsensusThreshold(ts, true)
//   either T > n (no certificate can exist) or 3*(2T-n) > n; n <= 64 whenever T <= n;
//   and when fewer than 7 matured accepted nodes are effective, T > 64 and T > n.

import (
	"fmt"
	"testing"
	"time"

	"github.com/MixinNetwork/mixin/common"
	"github.com/MixinNetwork/mixin/config"
	"github.com/MixinNetwork/mixin/crypto"
	"pgregory.net/rapid"
	kit "verifkit"
)

type vpC10Fail func(format string, args ...any)

// vpC10CurrentPledging: the node whose latest record in the whole history is a
// pledge (its chain object exists with State == nil, i.e. IsPledging()).
func vpC10CurrentPledging(recs []*CNode) *CNode {
	list := vpKMModelList(recs, ^uint64(0))
	for _, r := range list {
		if r.State == common.NodeStatePledging {
			return r
		}
	}
	return nil
}

// vpC10Judge evaluates the oracle for every (chain, round) at ts and returns
// the number of evaluations excluded as known finding C10-F6.
func vpC10Judge(c *kit.Collector, h *vpKMHist, recs []*CNode, node *Node, ts uint64, fail vpC10Fail) {
	m := vpKMModel(h, recs, ts)
	T := node.ConsensusThreshold(ts, true)
	var acceptedId crypto.Hash
	if len(m.Accepted) > 0 {
		acceptedId = m.Accepted[len(m.Accepted)/2].IdForNetwork
	}
	type chainCase struct {
		name  string
		chain *Chain
	}
	chains := []chainCase{{"accepted", vpKMChain(node, acceptedId, nil)}}
	if p := vpC10CurrentPledging(recs); p != nil {
		chains = append(chains, chainCase{"pledging", vpKMChain(node, p.IdForNetwork, p)})
	}
	mainnet := h.Network == vpKMMainnet()
	for _, cc := range chains {
		for _, round := range []uint64{0, 1} {
			ids, keys := cc.chain.ConsensusKeys(round, ts)
			n := len(keys)
			if len(ids) != n {
				fail("ConsensusKeys ids %d keys %d", len(ids), n)
			}
			pr0 := cc.name == "pledging" && round == 0
			b := m.Mature30s
			if pr0 && b >= config.KernelMinimumNodesCount && b%3 != 0 && m.Mature12h == b {
				// known finding C10-F6: n = b+1 keys, T = floor(2b/3)+1
				c.Class("excluded-known")
				continue
			}
			classes := []string{"chain-" + cc.name + fmt.Sprintf("-round%d", round)}
			if T <= n {
				classes = append(classes, "T<=n")
				if 3*(2*T-n) <= n {
					fail("quorum overlap: ts=epoch+%d chain=%s round=%d n=%d T=%d 3(2T-n)=%d <= n (mature30s=%d mature12h=%d removing=%v)\nops=%v",
						int64(ts-h.Epoch), cc.name, round, n, T, 3*(2*T-n), m.Mature30s, m.Mature12h, m.Removing != nil, h.Ops)
				}
				if n > 64 {
					fail("mask width: n=%d > 64 with T=%d", n, T)
				}
			} else {
				classes = append(classes, "T>n")
			}
			if m.Mature30s < config.KernelMinimumNodesCount {
				classes = append(classes, "below-minimum")
				if T <= 64 || T <= n {
					fail("below minimum: ts=epoch+%d effective matured accepted=%d but T=%d n=%d\nops=%v", int64(ts-h.Epoch), m.Mature30s, T, n, h.Ops)
				}
			}
			if pr0 {
				classes = append(classes, "pledging-round0-judged")
				if T <= n && b%3 == 0 {
					classes = append(classes, "pledging-round0-b%3==0")
				}
			}
			if m.Removing != nil {
				classes = append(classes, "removal-window")
			}
			if m.Mature30s > m.Mature12h {
				classes = append(classes, "fresh-accepted(30s..12h)")
			}
			if len(m.Accepted) > m.Mature30s+vpC10Bool(m.Removing != nil) {
				classes = append(classes, "immature(<=30s)")
			}
			if m.Pledging != nil {
				classes = append(classes, "pledging-present")
			}
			if mainnet {
				if vpKMPredictive(h, ts) {
					classes = append(classes, "mainnet-after-fork")
				} else {
					classes = append(classes, "mainnet-before-fork")
				}
			}
			nonGenesisMember := m.Pledging != nil
			for _, a := range m.Accepted {
				if !h.Genesis[a.IdForNetwork] {
					nonGenesisMember = true
				}
			}
			fp := fmt.Sprintf("n=%d T=%d %s r%d rm=%t fresh=%t pl=%t main=%t", n, T, cc.name, round, m.Removing != nil,
				m.Mature30s > m.Mature12h, m.Pledging != nil, mainnet)
			c.Case(fp, T <= n && nonGenesisMember, classes...)
		}
	}
}

func vpC10Bool(b bool) int {
	if b {
		return 1
	}
	return 0
}

// ---------------------------------------------------------------------------

// TestVP_C10_known_1: witness of C10-F6. b matured accepted nodes and one node
// pledging for more than 12 h; the round-0 acceptance certificate on the
// pledging chain is checked against n = b+1 keys with T = floor(2b/3)+1.
func TestVP_C10_known_1(t *testing.T) {
	if kit.Replaying() {
		return
	}
	var bad []string
	vpKMNoPanic(t, func() { bad = vpC10Witness(t) })
	if len(bad) > 0 {
		kit.ReportKnown(t, "C10", "C10-F6", fmt.Sprintf("round-0 acceptance certificate on the pledging chain: n=b+1 keys but T=floor(2b/3)+1; two certificates may overlap in <= n/3 signers: %v", bad))
	}
}

func vpC10Witness(t *testing.T) (bad []string) {
	for _, b := range []int{7, 8, 10, 11} {
		h := vpKMNewHist(vpKMEpochDefault, vpKMNetwork("c10"), uint64(b), false)
		for i := 0; i < b; i++ {
			h.AddGenesis(h.Epoch)
		}
		p := h.Pledge(h.Epoch + 2*vpKMDay + 10*vpKMHour)
		ts := h.Epoch + 3*vpKMDay + 14*vpKMHour // 28 h after the pledge, inside the accept window
		node := vpKMNewNode(h, h.Records, nil)
		chain := vpKMChain(node, p.IdForNetwork, p)
		if !chain.IsPledging() {
			t.Fatalf("witness chain is not pledging")
		}
		_, keys := chain.ConsensusKeys(0, ts)
		n, T := len(keys), node.ConsensusThreshold(ts, true)
		if T <= n && 3*(2*T-n) <= n {
			bad = append(bad, fmt.Sprintf("b=%d n=%d T=%d 3(2T-n)=%d<=n", b, n, T, 3*(2*T-n)))
		}
	}
	return bad
}

// TestVP_C10_sweep: every genesis size 7..50 x {plain, one later accepted node
// of each age class, a pledging node of each age class, removed node, removal
// window} x window-edge timestamps, on a non-mainnet network.
func TestVP_C10_sweep(t *testing.T) {
	if kit.Replaying() {
		return
	}
	c := kit.New(t, "C10", "deterministic sweep: g=7..50 genesis nodes x variants {none, +1 accepted aged 29s/30s/30s+1ns/11h/12h/12h+1ns/2d, +1 pledging aged 1h/11.5h/12h+1ns/2d, one removed, two removed} x 8 timestamps around the 13:00-20:00 window; every chain (accepted, pledging) and round 0/1; non-trivial = T<=n with a non-genesis or pledging member; distinct by (n,T,flags)")
	c.Require("T<=n", "removal-window", "pledging-round0-b%3==0", "excluded-known", "fresh-accepted(30s..12h)", "below-minimum")
	c.Exhaustive("all genesis sizes 7..50 x 14 variants x 8 timestamps")
	fail := func(f string, a ...any) { t.Fatalf(f, a...) }
	day := uint64(5)
	hours := []uint64{
		12*vpKMHour + vpKMHour - 1, 13 * vpKMHour, 13*vpKMHour + 1, 16 * vpKMHour,
		19*vpKMHour + vpKMHour - 1, 20 * vpKMHour, 3 * vpKMHour, 23*vpKMHour + 1234,
	}
	vpKMNoPanic(t, func() { vpC10SweepBody(c, day, hours, fail) })
}

func vpC10SweepBody(c *kit.Collector, day uint64, hours []uint64, fail vpC10Fail) {
	acceptAges := []uint64{29 * vpKMSecond, 30 * vpKMSecond, 30*vpKMSecond + 1, 11 * vpKMHour, 12 * vpKMHour, 12*vpKMHour + 1, 2 * vpKMDay}
	pledgeAges := []uint64{vpKMHour, 12*vpKMHour - 90*vpKMSecond, 12*vpKMHour + 1, 2 * vpKMDay}
	for g := 7; g <= 50; g++ {
		for _, off := range hours {
			ts := vpKMEpochDefault + day*vpKMDay + off
			build := func(mut func(h *vpKMHist)) {
				h := vpKMNewHist(vpKMEpochDefault, vpKMNetwork("c10"), uint64(g), false)
				for i := 0; i < g; i++ {
					h.AddGenesis(h.Epoch + uint64(i%3))
				}
				mut(h)
				node := vpKMNewNode(h, h.Records, nil)
				vpC10Judge(c, h, h.Sorted(), node, ts, fail)
			}
			build(func(h *vpKMHist) {})
			for _, age := range acceptAges {
				if g == 50 {
					continue
				}
				build(func(h *vpKMHist) {
					p := h.Pledge(ts - age - 13*vpKMHour)
					h.Follow(p, common.NodeStateAccepted, ts-age)
				})
			}
			for _, age := range pledgeAges {
				if g == 50 {
					continue
				}
				build(func(h *vpKMHist) { h.Pledge(ts - age) })
			}
			build(func(h *vpKMHist) { h.Follow(h.Records[0], common.NodeStateRemoved, ts-3*vpKMDay) })
			build(func(h *vpKMHist) {
				h.Follow(h.Records[0], common.NodeStateRemoved, ts-3*vpKMDay)
				h.Follow(h.Records[1], common.NodeStateRemoved, ts-2*vpKMDay)
			})
		}
	}
}

// vpC10GenConfig draws a configuration directly (not through the lifecycle
// generator): genesis set, later accepted nodes by age class, optional
// pledging / removed / cancelled nodes, on a non-mainnet or the mainnet id.
func vpC10GenConfig(t *rapid.T) (*vpKMHist, []uint64) {
	mainnet := rapid.IntRange(0, 4).Draw(t, "mainnet") == 0
	epoch, network := vpKMEpochDefault, vpKMNetwork("c10")
	if mainnet {
		network = vpKMMainnet()
		epoch = mainnetConsensusNodeRemovalSignerSetForkAt - 100*vpKMDay - uint64(config.KernelNodeAcceptTimeBegin)*vpKMHour
	}
	h := vpKMNewHist(epoch, network, rapid.Uint64().Draw(t, "salt"), false)
	var g int
	switch rapid.IntRange(0, 3).Draw(t, "gclass") {
	case 0, 1:
		g = rapid.IntRange(7, 12).Draw(t, "g")
	case 2:
		g = rapid.IntRange(13, 30).Draw(t, "g")
	default:
		g = rapid.IntRange(31, 50).Draw(t, "g")
	}
	for i := 0; i < g; i++ {
		h.AddGenesis(epoch + uint64(rapid.IntRange(0, 2).Draw(t, "goff")))
	}
	// reference timestamp: day 95..105 (straddles the mainnet fork at day 100, 13:00)
	dayIdx := uint64(rapid.IntRange(95, 105).Draw(t, "day"))
	hr := uint64(rapid.IntRange(0, 23).Draw(t, "hour"))
	ts := epoch + dayIdx*vpKMDay + hr*vpKMHour + vpKMDrawOffset(t, "ts")
	ageOf := func(label string, classes []uint64) uint64 {
		base := rapid.SampledFrom(classes).Draw(t, label+"_age")
		d := uint64(rapid.IntRange(0, 2).Draw(t, label+"_d"))
		return base - 1 + d
	}
	accepted := g
	na := rapid.IntRange(0, 4).Draw(t, "later_accepted")
	for i := 0; i < na && accepted < config.KernelMaximumNodesCount; i++ {
		age := ageOf("acc", []uint64{1, 15 * vpKMSecond, 30 * vpKMSecond, 5 * vpKMHour, 12 * vpKMHour, 30 * vpKMHour, 9 * vpKMDay})
		p := h.Pledge(ts - age - 12*vpKMHour - uint64(rapid.IntRange(0, 100).Draw(t, "pl"))*vpKMHour)
		h.Follow(p, common.NodeStateAccepted, ts-age)
		accepted++
	}
	nr := rapid.IntRange(0, 3).Draw(t, "removed")
	if rapid.IntRange(0, 5).Draw(t, "many_removed") == 0 {
		nr = rapid.IntRange(0, g-4).Draw(t, "removed_many")
	}
	for i := 0; i < nr && i < g; i++ {
		age := ageOf("rm", []uint64{1, 30 * vpKMSecond, 5 * vpKMHour, 12 * vpKMHour, 40 * vpKMHour, 9 * vpKMDay})
		h.Follow(h.Records[i], common.NodeStateRemoved, ts-age)
	}
	if rapid.IntRange(0, 3).Draw(t, "cancelled") == 0 {
		p := h.Pledge(ts - 20*vpKMDay)
		h.Follow(p, common.NodeStateCancelled, ts-19*vpKMDay)
	}
	if accepted < config.KernelMaximumNodesCount && rapid.IntRange(0, 2).Draw(t, "pledging") == 0 {
		age := ageOf("pledge", []uint64{1, vpKMHour, 12*vpKMHour - 90*vpKMSecond, 12 * vpKMHour, 30 * vpKMHour, 6 * vpKMDay})
		h.Pledge(ts - age)
	}
	// query timestamps: ts itself, its neighbours, and window edges of its day
	qs := []uint64{ts}
	nq := rapid.IntRange(3, 8).Draw(t, "nq")
	for i := 0; i < nq; i++ {
		switch rapid.IntRange(0, 3).Draw(t, "qkind") {
		case 0:
			qs = append(qs, ts-1+uint64(rapid.IntRange(0, 2).Draw(t, "qd")))
		case 1:
			edge := rapid.SampledFrom([]uint64{13, 20, 16}).Draw(t, "qedge")
			qs = append(qs, epoch+dayIdx*vpKMDay+edge*vpKMHour-1+uint64(rapid.IntRange(0, 2).Draw(t, "qd")))
		case 2:
			qs = append(qs, ts+uint64(rapid.Int64Range(0, int64(3*vpKMDay)).Draw(t, "qafter")))
		default:
			qs = append(qs, ts-uint64(rapid.Int64Range(0, int64(3*vpKMDay)).Draw(t, "qbefore")))
		}
	}
	return h, qs
}

func TestVP_C10_configs(t *testing.T) {
	c := kit.New(t, "C10", "rapid: direct configurations — 7..50 genesis nodes, 0..4 later accepted nodes aged {1ns,15s,30s,5h,12h,30h,9d}+-1ns relative to ts, 0..g-4 removed, optional cancelled and pledging (aged {1ns,1h,11.5h,12h,30h,6d}+-1ns) nodes, ts at any hour of day 95..105, 4..9 query times around ts and the window edges; non-mainnet and mainnet id (before/after the signer-set fork); every chain (accepted, pledging) x round 0/1; non-trivial = T<=n with a non-genesis or pledging member; distinct by (n,T,flags)")
	c.Require("T<=n", "T>n", "below-minimum", "removal-window", "pledging-round0-b%3==0", "excluded-known", "fresh-accepted(30s..12h)", "immature(<=30s)", "mainnet-after-fork", "mainnet-before-fork")
	kit.SetChecks(kit.N(2500, 120000))
	rapid.Check(t, func(rt *rapid.T) {
		h, qs := vpC10GenConfig(rt)
		node := vpKMNewNode(h, h.Records, nil)
		recs := h.Sorted()
		fail := func(f string, a ...any) { rt.Fatalf(f, a...) }
		for _, q := range qs {
			vpC10Judge(c, h, recs, node, q, fail)
		}
		if len(h.Records) < 14 {
			c.Sample(map[string]any{"ops": h.Ops, "queries": len(qs)})
		}
	})
}

func TestVP_C10_histories(t *testing.T) {
	c := kit.New(t, "C10", "rapid: G-membership lifecycle histories (7..16 genesis quick / ..50 thorough, 0..12 operations, removals may go below 7 accepted) queried at 8 boundary-biased timestamps; every chain (accepted, pledging) x round 0/1; non-trivial = T<=n with a non-genesis or pledging member; distinct by (n,T,flags)")
	c.Require("T<=n", "T>n", "removal-window", "excluded-known", "fresh-accepted(30s..12h)")
	kit.SetChecks(kit.N(1500, 60000))
	maxG := 16
	if kit.Thorough() {
		maxG = 50
	}
	rapid.Check(t, func(rt *rapid.T) {
		h := vpKMGenHist(rt, vpKMOpts{Epoch: vpKMEpochDefault, Network: vpKMNetwork("c10"), MinGenesis: 7, MaxGenesis: maxG, MaxOps: 12, AllowBelow7: true, ValidBias: 60})
		node := vpKMNewNode(h, h.Records, nil)
		recs := h.Sorted()
		fail := func(f string, a ...any) { rt.Fatalf(f, a...) }
		for i := 0; i < 8; i++ {
			q := vpKMDrawTime(rt, h, fmt.Sprintf("q%d", i))
			if q < h.Epoch {
				continue
			}
			vpC10Judge(c, h, recs, node, q, fail)
		}
	})
}

// TestVP_C10_reload: the threshold and the key vector a certificate is checked
// against must come from the same membership also on a long-lived node: one
// Node and one Chain object answer a question, then a membership record that
// precedes the question's time arrives (finalization order is not timestamp
// order) and the node reloads its membership the way reloadConsensusState
// does; the same question on the same objects is judged again.
func TestVP_C10_reload(t *testing.T) {
	c := kit.New(t, "C10", "rapid: G-membership lifecycle histories as in TestVP_C10_histories; a node is loaded (LoadConsensusNodes on a record store) with the history minus one drawn non-genesis record, a chain object of an accepted node answers ConsensusKeys(round, q) for q after that record's time, the missing record is added to the store and the same Node runs LoadConsensusNodes again; oracle: the answers of the SAME node and chain objects after the reload satisfy the overlap rule 3(2T-n) > n (T<=n), and equal those of freshly built objects over the full history; non-trivial = the late record changes n or T at q; distinct by (n,T before, n,T after)")
	c.Require("late-record-changes-n-or-T", "late-remove", "late-accept")
	kit.SetChecks(kit.N(1200, 40000))
	rapid.Check(t, func(rt *rapid.T) {
		h := vpKMGenHist(rt, vpKMOpts{Epoch: vpKMEpochDefault, Network: vpKMNetwork("c10r"), MinGenesis: 7, MaxGenesis: 16, MaxOps: 10, AllowBelow7: false, ValidBias: 80})
		recs := h.Sorted()
		var late []int
		for i, r := range recs {
			if r.Timestamp > h.Epoch {
				late = append(late, i)
			}
		}
		if len(late) == 0 {
			rt.Skip("no lifecycle record")
		}
		li := late[rapid.IntRange(0, len(late)-1).Draw(rt, "late")]
		lateRec := recs[li]
		st := &vpKMStubStore{}
		for i, r := range recs {
			if i != li {
				st.nodes = append(st.nodes, &common.Node{Signer: r.Signer, Payee: r.Payee, State: r.State, Transaction: r.Transaction, Timestamp: r.Timestamp})
			}
		}
		node := &Node{Epoch: h.Epoch, networkId: h.Network, genesisNodesMap: h.Genesis, persistStore: st}
		if err := node.LoadConsensusNodes(); err != nil {
			rt.Fatalf("load: %v", err)
		}
		q := lateRec.Timestamp + rapid.SampledFrom([]uint64{1, uint64(31 * time.Second), uint64(13 * time.Hour), uint64(25 * time.Hour), uint64(40 * 24 * time.Hour)}).Draw(rt, "after")
		// a genesis node that is accepted at q in the full history, if any
		full := vpKMNewNode(h, h.Records, nil)
		acc := full.NodesListWithoutState(q, true)
		if len(acc) == 0 {
			rt.Skip("nobody accepted")
		}
		id := acc[rapid.IntRange(0, len(acc)-1).Draw(rt, "chain")].IdForNetwork
		if id == lateRec.IdForNetwork {
			rt.Skip("the chain of the late record's own node")
		}
		chain := vpKMChain(node, id, nil)
		round := uint64(rapid.IntRange(0, 1).Draw(rt, "round"))
		_, k1 := chain.ConsensusKeys(round, q)
		T1 := node.ConsensusThreshold(q, true)
		// the record arrives, the node reloads
		st.nodes = append(st.nodes, &common.Node{Signer: lateRec.Signer, Payee: lateRec.Payee, State: lateRec.State, Transaction: lateRec.Transaction, Timestamp: lateRec.Timestamp})
		if err := node.LoadConsensusNodes(); err != nil {
			rt.Fatalf("reload: %v", err)
		}
		ids2, k2 := chain.ConsensusKeys(round, q)
		T2 := node.ConsensusThreshold(q, true)
		fids, fk := vpKMChain(full, id, nil).ConsensusKeys(round, q)
		fT := full.ConsensusThreshold(q, true)
		n := len(k2)
		if T2 <= n && 3*(2*T2-n) <= n {
			rt.Fatalf("after the reload the same node checks certificates at epoch+%d (round %d) against n=%d keys with T=%d: 3(2T-n)=%d <= n (before the late %s record: n=%d T=%d; fresh objects: n=%d T=%d)\nops=%v", int64(q-h.Epoch), round, n, T2, 3*(2*T2-n), lateRec.State, len(k1), T1, len(fk), fT, h.Ops)
		}
		if T2 != fT || len(k2) != len(fk) {
			rt.Fatalf("after the reload the node answers n=%d T=%d at epoch+%d, freshly built objects over the same records answer n=%d T=%d (late %s record)\nops=%v", len(k2), T2, int64(q-h.Epoch), len(fk), fT, lateRec.State, h.Ops)
		}
		for i := range ids2 {
			if ids2[i] != fids[i] || *k2[i] != *fk[i] {
				rt.Fatalf("after the reload key %d of the vector differs from the one freshly built objects give", i)
			}
		}
		classes := []string{}
		changed := len(k1) != len(k2) || T1 != T2
		if changed {
			classes = append(classes, "late-record-changes-n-or-T")
		}
		switch lateRec.State {
		case common.NodeStateRemoved:
			classes = append(classes, "late-remove")
		case common.NodeStateAccepted:
			classes = append(classes, "late-accept")
		}
		c.Case(fmt.Sprintf("%d/%d->%d/%d r%d", len(k1), T1, len(k2), T2, round), changed, classes...)
	})
}
