//go:build verif

package kernel

import (
	"encoding/binary"
	"fmt"
	"testing"

	"github.com/MixinNetwork/mixin/common"
	"github.com/MixinNetwork/mixin/config"
	"github.com/MixinNetwork/mixin/crypto"
	"github.com/MixinNetwork/mixin/storage"
	"pgregory.net/rapid"
	kit "verifkit"
)

// C28 (kernel part).
// (a) TestVP_C28_batch_*: a snapshot with more than one transaction passes the
//     kernel snapshot rule only if every transaction it was checked against is of
//     a batchable class (script, deposit, withdrawal submit, withdrawal claim); so
//     every mint, membership or custodian operation is alone in its snapshot.
// (b) TestVP_C28_refs_*: a consensus operation passes the reference rule only if
//     it is the recorded last operation itself, or its first reference is the last
//     recorded operation and its snapshot is strictly later; hence the operations
//     recorded one after the other form a single chain.

type vpC28Class struct {
	name      string
	typ       uint8
	batchable bool
	consensus bool
}

var vpC28Classes = []vpC28Class{
	{"script", common.TransactionTypeScript, true, false},
	{"deposit", common.TransactionTypeDeposit, true, false},
	{"withdrawal-submit", common.TransactionTypeWithdrawalSubmit, true, false},
	{"withdrawal-claim", common.TransactionTypeWithdrawalClaim, true, false},
	{"mint", common.TransactionTypeMint, false, true},
	{"node-pledge", common.TransactionTypeNodePledge, false, true},
	{"node-accept", common.TransactionTypeNodeAccept, false, true},
	{"node-remove", common.TransactionTypeNodeRemove, false, true},
	{"node-cancel", common.TransactionTypeNodeCancel, false, true},
	{"custodian-update", common.TransactionTypeCustodianUpdateNodes, false, true},
	{"custodian-slash", common.TransactionTypeCustodianSlashNodes, false, true},
	{"unknown", common.TransactionTypeUnknown, false, false},
}

// vpC28Batchable is the statement's list, by transaction type value.
func vpC28Batchable(typ uint8) bool {
	switch typ {
	case 0x00, 0x02, 0x03, 0x05: // script, deposit, withdrawal submit, withdrawal claim
		return true
	}
	return false
}

func vpC28Hash(t *rapid.T, label string) crypto.Hash {
	var h crypto.Hash
	copy(h[:], rapid.SliceOfN(rapid.Byte(), 32, 32).Draw(t, label))
	return h
}

func vpC28Output(t *rapid.T, typ uint8, k int) *common.Output {
	o := &common.Output{Type: typ, Amount: common.NewInteger(uint64(1 + k))}
	switch typ {
	case common.OutputTypeWithdrawalSubmit:
		o.Withdrawal = &common.WithdrawalData{Address: "vp-address", Tag: "vp"}
	case common.OutputTypeWithdrawalClaim, common.OutputTypeNodePledge, common.OutputTypeNodeCancel, common.OutputTypeNodeAccept:
	default:
		key := crypto.Key(vpC28Hash(t, "out_key"))
		o.Keys = []*crypto.Key{&key}
		o.Mask = crypto.Key(vpC28Hash(t, "out_mask"))
		o.Script = common.NewThresholdScript(1)
	}
	return o
}

var vpC28OutputOf = map[uint8]uint8{
	common.TransactionTypeWithdrawalSubmit:     common.OutputTypeWithdrawalSubmit,
	common.TransactionTypeWithdrawalClaim:      common.OutputTypeWithdrawalClaim,
	common.TransactionTypeNodePledge:           common.OutputTypeNodePledge,
	common.TransactionTypeNodeAccept:           common.OutputTypeNodeAccept,
	common.TransactionTypeNodeRemove:           common.OutputTypeNodeRemove,
	common.TransactionTypeNodeCancel:           common.OutputTypeNodeCancel,
	common.TransactionTypeCustodianUpdateNodes: common.OutputTypeCustodianUpdateNodes,
	common.TransactionTypeCustodianSlashNodes:  common.OutputTypeCustodianSlashNodes,
}

// vpC28Tx builds a structurally typed transaction of the class (not ledger-valid:
// the batch and reference rules look at types, references and hashes only).
// salt makes the hash unique. When mixed is true a second, different marker is
// added behind the class-defining one (the first marker decides the class).
// vpC28LegacyMint biases generated mint batches to the legacy range (set by a test around its draws).
var vpC28LegacyMint bool

func vpC28Tx(t *rapid.T, cl vpC28Class, refs []crypto.Hash, salt uint64, mixed bool) *common.VersionedTransaction {
	asset := common.XINAssetId
	if rapid.Bool().Draw(t, "other_asset") {
		asset = vpC28Hash(t, "asset")
	}
	tx := common.NewTransactionV5(asset)
	plainInput := func() {
		tx.AddInput(vpC28Hash(t, "in_hash"), uint(rapid.IntRange(0, 3).Draw(t, "in_index")))
	}
	switch cl.typ {
	case common.TransactionTypeMint:
		batch := uint64(rapid.IntRange(1707, 9000).Draw(t, "mint_batch"))
		if vpC28LegacyMint {
			// batches of the first new-kernel year, which mainnet nodes take from peers without re-deriving the amount
			batch = uint64(rapid.IntRange(1707, 1801).Draw(t, "legacy_mint_batch"))
		}
		tx.AddUniversalMintInput(batch, common.NewInteger(uint64(rapid.IntRange(1, 90).Draw(t, "mint_amount"))))
		tx.Outputs = append(tx.Outputs, vpC28Output(t, common.OutputTypeScript, 0))
	case common.TransactionTypeDeposit:
		tx.Inputs = append(tx.Inputs, &common.Input{Deposit: &common.DepositData{
			Chain: vpC28Hash(t, "dep_chain"), AssetKey: "0xa974c709cfb4566686553a20790685a47aceaa33",
			Transaction: fmt.Sprintf("0x%x", salt), Index: uint64(rapid.IntRange(0, 9).Draw(t, "dep_index")), Amount: common.NewInteger(7),
		}})
		tx.Outputs = append(tx.Outputs, vpC28Output(t, common.OutputTypeScript, 0))
	case common.TransactionTypeScript:
		plainInput()
		for i, n := 0, rapid.IntRange(1, 3).Draw(t, "script_outputs"); i < n; i++ {
			tx.Outputs = append(tx.Outputs, vpC28Output(t, common.OutputTypeScript, i))
		}
	case common.TransactionTypeUnknown:
		switch rapid.IntRange(0, 2).Draw(t, "unknown_kind") {
		case 0:
			tx.Inputs = append(tx.Inputs, &common.Input{Genesis: []byte("vp-genesis")})
			tx.Outputs = append(tx.Outputs, vpC28Output(t, common.OutputTypeScript, 0))
		case 1:
			plainInput()
			tx.Outputs = append(tx.Outputs, vpC28Output(t, 0xa5, 0)) // retired node-resign output
		default:
			plainInput()
			tx.Outputs = append(tx.Outputs, vpC28Output(t, common.OutputTypeScript, 0), vpC28Output(t, 0x77, 1))
		}
	default:
		plainInput()
		if rapid.Bool().Draw(t, "second_input") {
			plainInput()
		}
		// a leading script (change) output does not alter the class
		if rapid.Bool().Draw(t, "script_first") {
			tx.Outputs = append(tx.Outputs, vpC28Output(t, common.OutputTypeScript, 5))
		}
		tx.Outputs = append(tx.Outputs, vpC28Output(t, vpC28OutputOf[cl.typ], 0))
		if rapid.Bool().Draw(t, "script_change") {
			tx.Outputs = append(tx.Outputs, vpC28Output(t, common.OutputTypeScript, 1))
		}
	}
	if mixed {
		// a later marker of another class: the class is decided by inputs first, then by the first typed output
		other := rapid.SampledFrom([]uint8{common.OutputTypeWithdrawalSubmit, common.OutputTypeWithdrawalClaim, common.OutputTypeNodePledge, common.OutputTypeNodeAccept, common.OutputTypeNodeRemove, common.OutputTypeNodeCancel, common.OutputTypeCustodianUpdateNodes, common.OutputTypeCustodianSlashNodes}).Draw(t, "mixed_output")
		tx.Outputs = append(tx.Outputs, vpC28Output(t, other, 2))
	}
	tx.References = refs
	tx.Extra = binary.BigEndian.AppendUint64([]byte("vpC28"), salt)
	return tx.AsVersioned()
}

// vpC28Store is a storage.Store of which only the methods the batch and reference
// rules call are implemented (every other method panics on the nil interface).
type vpC28Store struct {
	storage.Store
	txs    map[crypto.Hash]*common.VersionedTransaction
	snapOf map[crypto.Hash]string
	last   *common.Snapshot
	reads  int
}

func (s *vpC28Store) ReadTransaction(h crypto.Hash) (*common.VersionedTransaction, string, error) {
	s.reads++
	return s.txs[h], s.snapOf[h], nil
}

func (s *vpC28Store) CacheGetTransaction(h crypto.Hash) (*common.VersionedTransaction, error) {
	return nil, nil
}

func (s *vpC28Store) ReadLastConsensusSnapshot() (*common.Snapshot, error) {
	return s.last, nil
}

type vpC28Member struct {
	tx    *common.VersionedTransaction
	class vpC28Class
	mixed bool
}

// vpC28Typ is the class the oracle uses: the intended class for pure
// transactions, the repository's own first-marker classification for mixed ones.
func (m vpC28Member) typ() uint8 {
	if m.mixed {
		return m.tx.TransactionType()
	}
	return m.class.typ
}

func vpC28Members(t *rapid.T, salt *uint64) []vpC28Member {
	n := rapid.IntRange(2, 6).Draw(t, "members")
	allBatchable := rapid.IntRange(0, 2).Draw(t, "all_batchable") == 0
	out := make([]vpC28Member, 0, n)
	for i := 0; i < n; i++ {
		var cl vpC28Class
		if allBatchable || rapid.IntRange(0, 2).Draw(t, "pick_batchable") > 0 {
			cl = vpC28Classes[rapid.IntRange(0, 3).Draw(t, "batchable_class")]
		} else {
			cl = vpC28Classes[rapid.IntRange(4, len(vpC28Classes)-1).Draw(t, "other_class")]
		}
		mixed := cl.typ != common.TransactionTypeUnknown && rapid.IntRange(0, 9).Draw(t, "mixed") == 0
		*salt++
		out = append(out, vpC28Member{tx: vpC28Tx(t, cl, nil, *salt, mixed), class: cl, mixed: mixed})
	}
	return out
}

func vpC28Snapshot(t *rapid.T, hashes []crypto.Hash) *common.Snapshot {
	s := &common.Snapshot{
		Version:      common.SnapshotVersionCommonEncoding,
		NodeId:       vpC28Hash(t, "snap_node"),
		RoundNumber:  uint64(rapid.IntRange(1, 1000).Draw(t, "snap_round")),
		References:   &common.RoundLink{Self: vpC28Hash(t, "snap_self"), External: vpC28Hash(t, "snap_ext")},
		Timestamp:    uint64(rapid.Int64Range(1_700_000_000_000_000_000, 1_800_000_000_000_000_000).Draw(t, "snap_ts")),
		Transactions: append([]crypto.Hash{}, hashes...),
	}
	s.Hash = s.PayloadHash()
	return s
}

func vpC28MemberClasses(members []vpC28Member, found map[crypto.Hash]*common.VersionedTransaction) (classes []string, nonBatch int, fp string) {
	for _, m := range members {
		if _, ok := found[m.tx.PayloadHash()]; !ok {
			fp += "-"
			continue
		}
		name := m.class.name
		if m.mixed {
			name = "mixed"
			classes = append(classes, "member:mixed-first-"+m.class.name)
		}
		classes = append(classes, "member:"+name)
		if !vpC28Batchable(m.typ()) {
			nonBatch++
		}
		fp += fmt.Sprintf("%s/%x,", name, m.typ())
	}
	return
}

func TestVP_C28_batch_rule(t *testing.T) {
	c := kit.New(t, "C28", "rapid: snapshots of 2..6 structurally typed transactions drawn from all 11 classes plus unknown (genesis input, retired output type, unlisted output type) and mixed-marker transactions; validateKernelSnapshot is called with all or a subset of the members found, finalized or not; oracle: nil => every found member is script/deposit/submit/claim by an independent type table; non-trivial = batch with >=1 non-batchable member (must be rejected); distinct by the member class sequence")
	c.Require("accepted-multi", "rejected-multi", "mixed-batch", "member:mint", "member:node-pledge", "member:node-accept", "member:node-remove", "member:node-cancel", "member:custodian-update", "member:custodian-slash", "member:unknown", "member:mixed", "member:deposit", "member:withdrawal-submit", "member:withdrawal-claim", "member:script", "partial-found")
	kit.SetChecks(kit.N(3000, 100000))
	var salt uint64
	rapid.Check(t, func(t *rapid.T) {
		members := vpC28Members(t, &salt)
		hashes := make([]crypto.Hash, 0, len(members)+1)
		found := map[crypto.Hash]*common.VersionedTransaction{}
		partial := rapid.IntRange(0, 3).Draw(t, "partial") == 0
		for i, m := range members {
			// intended class is what the repository's classifier reports for a pure transaction
			if !m.mixed && m.tx.TransactionType() != m.class.typ {
				t.Fatalf("a %s transaction is classified as type %#x", m.class.name, m.tx.TransactionType())
			}
			hashes = append(hashes, m.tx.PayloadHash())
			if partial && i > 0 && rapid.Bool().Draw(t, "not_found") {
				continue
			}
			found[m.tx.PayloadHash()] = m.tx
		}
		if rapid.IntRange(0, 5).Draw(t, "unknown_hash") == 0 {
			hashes = append(hashes, vpC28Hash(t, "never_seen"))
		}
		s := vpC28Snapshot(t, hashes)
		node := &Node{networkId: vpC28Hash(t, "network"), IdForNetwork: vpC28Hash(t, "me")}
		finalized := rapid.Bool().Draw(t, "finalized")
		err := node.validateKernelSnapshot(s, found, finalized)
		classes, nonBatch, fp := vpC28MemberClasses(members, found)
		if err == nil {
			for _, m := range members {
				if _, ok := found[m.tx.PayloadHash()]; ok && !vpC28Batchable(m.typ()) {
					t.Fatalf("snapshot with %d transactions accepted although it holds a %s transaction (type %#x)", len(s.Transactions), m.class.name, m.typ())
				}
			}
			classes = append(classes, "accepted-multi")
		} else {
			classes = append(classes, "rejected-multi")
		}
		if nonBatch > 0 && nonBatch < len(found) {
			classes = append(classes, "mixed-batch")
		}
		if len(found) < len(members) {
			classes = append(classes, "partial-found")
		}
		c.Case(fp, nonBatch > 0, classes...)
		if nonBatch > 0 {
			c.Sample(map[string]any{"members": fp, "finalized": finalized, "error": fmt.Sprint(err)})
		}
	})
}

func TestVP_C28_batch_pipeline(t *testing.T) {
	c := kit.New(t, "C28", "rapid: the same member generator, driven through validateSnapshotTransaction against a fake store that holds some members as stored transactions (unfinalized, finalized in this snapshot, or finalized elsewhere) and lacks the others (reported missing); oracle: nil error for a multi-transaction snapshot => every returned found transaction is batchable, found and missing partition the snapshot's hashes; non-trivial = snapshot with >=1 stored non-batchable member; distinct by member class sequence")
	c.Require("accepted-multi", "rejected-multi", "with-missing", "member:mint", "member:node-remove", "member:custodian-update", "member:unknown")
	kit.SetChecks(kit.N(2000, 60000))
	var salt uint64 = 1 << 40
	rapid.Check(t, func(t *rapid.T) {
		members := vpC28Members(t, &salt)
		store := &vpC28Store{txs: map[crypto.Hash]*common.VersionedTransaction{}, snapOf: map[crypto.Hash]string{}}
		hashes := make([]crypto.Hash, 0, len(members))
		for _, m := range members {
			hashes = append(hashes, m.tx.PayloadHash())
		}
		// member order inside the snapshot is the encoder's (sorted); shuffle to show independence
		hashes = rapid.Permutation(hashes).Draw(t, "order")
		s := vpC28Snapshot(t, hashes)
		stored := map[crypto.Hash]*common.VersionedTransaction{}
		for i, m := range members {
			h := m.tx.PayloadHash()
			switch rapid.IntRange(0, 7).Draw(t, "where") {
			case 0:
				if i > 0 {
					continue // unknown to the node: missing
				}
				fallthrough
			case 1:
				store.txs[h], store.snapOf[h] = m.tx, s.Hash.String()
			case 2:
				store.txs[h], store.snapOf[h] = m.tx, vpC28Hash(t, "other_snapshot").String()
			default:
				store.txs[h] = m.tx
			}
			stored[h] = m.tx
		}
		node := &Node{networkId: vpC28Hash(t, "network"), IdForNetwork: vpC28Hash(t, "me"), persistStore: store}
		finalized := rapid.Bool().Draw(t, "finalized")
		found, missing, err := node.validateSnapshotTransaction(s, finalized)
		classes, nonBatch, fp := vpC28MemberClasses(members, stored)
		if err == nil {
			seen := map[crypto.Hash]bool{}
			for h, tx := range found {
				if tx == nil || tx.PayloadHash() != h || stored[h] == nil {
					t.Fatalf("found[%s] is not the stored transaction", h)
				}
				seen[h] = true
			}
			for _, h := range missing {
				if seen[h] || stored[h] != nil {
					t.Fatalf("hash %s reported missing although stored/found", h)
				}
				seen[h] = true
			}
			for _, h := range s.Transactions {
				if !seen[h] {
					t.Fatalf("hash %s of the snapshot neither found nor missing", h)
				}
			}
			if len(seen) != len(s.Transactions) {
				t.Fatalf("found+missing = %d hashes for a snapshot of %d", len(seen), len(s.Transactions))
			}
			for _, m := range members {
				if _, ok := found[m.tx.PayloadHash()]; ok && !vpC28Batchable(m.typ()) {
					t.Fatalf("snapshot with %d transactions validated although it holds a %s transaction (type %#x)", len(s.Transactions), m.class.name, m.typ())
				}
			}
			classes = append(classes, "accepted-multi")
			if len(missing) > 0 {
				classes = append(classes, "with-missing")
			}
		} else {
			classes = append(classes, "rejected-multi")
		}
		c.Case(fp, nonBatch > 0, classes...)
	})
}

// ---- (b) reference rule ----

type vpC28Op struct {
	tx *common.VersionedTransaction
	ts uint64
}

func TestVP_C28_refs_chain(t *testing.T) {
	c := kit.New(t, "C28", "rapid: per case a recorded consensus history (fake store serving ReadLastConsensusSnapshot) is extended by 4..12 proposals; each proposal is a single structurally typed transaction (7 consensus classes, sometimes a batchable one) whose references are {last op, last op + extra, an older op, random, none, [random,last], [older,last]} and whose snapshot timestamp is {last-1, last, last+1, later, 0, much earlier}, or the recorded last op itself again; oracle: validateConsensusTransactionReferences nil for a consensus class => tx is the recorded last op, or References[0] = last op and timestamp > last timestamp; accepted new ops are recorded (as WriteConsensusSnapshot would) and the recorded history must stay one chain; non-trivial = >=3 chained ops and >=1 rejected; distinct by the (class, reference mode, timestamp mode, verdict) sequence")
	c.Require("chained>=3&rejected>=1", "accept:chain", "accept:replay-last", "reject:ref-older", "reject:ref-random", "reject:ref-none", "reject:ref-last-not-first", "reject:ts-equal", "reject:ts-earlier", "batchable-unchecked", "class:mint", "class:node-pledge", "class:node-accept", "class:node-remove", "class:node-cancel", "class:custodian-update", "class:custodian-slash", "validator-accepted-mainnet-legacy-mint")
	c.Assume("the store's last consensus record exists (non-mainnet network; the mainnet bootstrap fallback of ReadLastConsensusSnapshotWithHack is not exercised)")
	kit.SetChecks(kit.N(3000, 100000))
	var salt uint64 = 1 << 50
	rapid.Check(t, func(t *rapid.T) {
		store := &vpC28Store{}
		node := &Node{networkId: vpC28Hash(t, "network"), IdForNetwork: vpC28Hash(t, "me"), persistStore: store}
		// a third of the histories run under the main network id, where the
		// validator has legacy shortcuts; the reference rule holds there as well
		// for every snapshot after the fork time
		mainnet := rapid.IntRange(0, 2).Draw(t, "mainnet") == 0
		if mainnet {
			nid, _ := crypto.HashFromString(config.KernelNetworkId)
			node.networkId = nid
		}
		vpC28LegacyMint = mainnet
		defer func() { vpC28LegacyMint = false }()
		t0 := uint64(rapid.Int64Range(1_700_000_000_000_000_000, 1_790_000_000_000_000_000).Draw(t, "t0"))
		if mainnet && t0 < mainnetConsensusReferenceForkAt && rapid.IntRange(0, 3).Draw(t, "after_fork") != 0 {
			t0 += 40_000_000_000_000_000
		}
		salt++
		genesis := vpC28Tx(t, vpC28Classes[6], nil, salt, false) // a node accept, as a genesis ledger ends with
		hist := []vpC28Op{{genesis, t0}}
		record := func(op vpC28Op) {
			store.last = &common.Snapshot{
				Version: common.SnapshotVersionCommonEncoding, NodeId: vpC28Hash(t, "rec_node"), RoundNumber: 1,
				Timestamp: op.ts, Transactions: []crypto.Hash{op.tx.PayloadHash()},
			}
		}
		record(hist[0])
		steps := rapid.IntRange(4, 12).Draw(t, "steps")
		rejected := 0
		fp := ""
		classSet := map[string]int{}
		for step := 0; step < steps; step++ {
			last := hist[len(hist)-1]
			ltx := last.tx.PayloadHash()
			var cl vpC28Class
			if rapid.IntRange(0, 7).Draw(t, "batchable_op") == 0 {
				cl = vpC28Classes[rapid.IntRange(0, 3).Draw(t, "batchable_class")]
			} else {
				cl = vpC28Classes[rapid.IntRange(4, 10).Draw(t, "consensus_class")]
			}
			if mainnet && rapid.Bool().Draw(t, "mainnet_mint") {
				for _, k := range vpC28Classes {
					if k.typ == common.TransactionTypeMint {
						cl = k
					}
				}
			}
			refMode := rapid.SampledFrom([]string{"last", "last", "last", "last", "last+extra", "older", "random", "none", "last-not-first", "older-then-last", "replay-last"}).Draw(t, "ref_mode")
			if refMode == "replay-last" && len(hist) < 2 && rapid.Bool().Draw(t, "skip_genesis_replay") {
				refMode = "last"
			}
			older := hist[rapid.IntRange(0, len(hist)-1).Draw(t, "older_i")].tx.PayloadHash()
			if len(hist) > 1 && older == ltx {
				older = hist[len(hist)-2].tx.PayloadHash()
			}
			var refs []crypto.Hash
			switch refMode {
			case "last":
				refs = []crypto.Hash{ltx}
			case "last+extra":
				refs = []crypto.Hash{ltx, vpC28Hash(t, "extra_ref")}
			case "older":
				refs = []crypto.Hash{older}
				if older == ltx {
					refMode = "last"
				}
			case "random":
				refs = []crypto.Hash{vpC28Hash(t, "random_ref")}
			case "none":
				refs = nil
			case "last-not-first":
				refs = []crypto.Hash{vpC28Hash(t, "random_first"), ltx}
			case "older-then-last":
				refs = []crypto.Hash{older, ltx}
				if older == ltx {
					refMode = "last+extra"
				}
			}
			tsMode := rapid.SampledFrom([]string{"later", "later", "later", "last+1", "last", "last-1", "zero", "much-earlier"}).Draw(t, "ts_mode")
			var ts uint64
			switch tsMode {
			case "later":
				ts = last.ts + uint64(rapid.Int64Range(2, int64(OneDay)).Draw(t, "later_by"))
			case "last+1":
				ts = last.ts + 1
			case "last":
				ts = last.ts
			case "last-1":
				ts = last.ts - 1
			case "zero":
				ts = 0
			case "much-earlier":
				ts = last.ts - uint64(rapid.Int64Range(2, int64(30*OneDay)).Draw(t, "earlier_by"))
			}
			var tx *common.VersionedTransaction
			if refMode == "replay-last" {
				tx = last.tx
				for _, k := range vpC28Classes {
					if k.typ == tx.TransactionType() {
						cl = k
					}
				}
			} else {
				salt++
				tx = vpC28Tx(t, cl, refs, salt, false)
			}
			if tx.TransactionType() != cl.typ {
				t.Fatalf("a %s transaction is classified as type %#x", cl.name, tx.TransactionType())
			}
			s := &common.Snapshot{
				Version: common.SnapshotVersionCommonEncoding, NodeId: vpC28Hash(t, "op_node"),
				RoundNumber: uint64(rapid.IntRange(1, 99).Draw(t, "op_round")),
				References:  &common.RoundLink{Self: vpC28Hash(t, "op_self"), External: vpC28Hash(t, "op_ext")},
				Timestamp:   ts, Transactions: []crypto.Hash{tx.PayloadHash()},
			}
			s.Hash = s.PayloadHash()
			err := node.validateConsensusTransactionReferences(s, tx)
			verdict := "reject"
			if err == nil {
				verdict = "accept"
			}
			fp += fmt.Sprintf("%s/%s/%s/%s;", cl.name, refMode, tsMode, verdict)
			classSet["class:"+cl.name]++
			if !cl.consensus {
				// not a consensus operation: the rule does not apply
				classSet["batchable-unchecked"]++
				continue
			}
			// the same rule as seen through the snapshot validator that calls it:
			// whatever validateKernelSnapshot lets through (most classes fail their
			// own validation against this skeleton store, legacy mints on the main
			// network do not) obeys the reference rule, except finalized main
			// network snapshots from before the fork time
			{
				fin := rapid.Bool().Draw(t, "finalized")
				var verr error
				pnc := vpKCatch(func() {
					verr = node.validateKernelSnapshot(s, map[crypto.Hash]*common.VersionedTransaction{tx.PayloadHash(): tx}, fin)
				})
				if pnc == nil && verr == nil && !(mainnet && fin && s.Timestamp < mainnetConsensusReferenceForkAt) {
					isLast := tx.PayloadHash() == ltx
					chained := len(tx.References) > 0 && tx.References[0] == ltx && s.Timestamp > last.ts
					if !isLast && !chained {
						t.Fatalf("step %d: validateKernelSnapshot(finalized=%v, mainnet=%v) accepted a %s op with refs=%s ts=%s (last ts %d, op ts %d): neither the recorded last op nor chained to it", step, fin, mainnet, cl.name, refMode, tsMode, last.ts, ts)
					}
					classSet["validator-accepted"]++
					if mainnet {
						classSet["validator-accepted-mainnet-legacy-mint"]++
					}
				}
			}
			if err == nil {
				isLast := tx.PayloadHash() == ltx
				chained := len(tx.References) > 0 && tx.References[0] == ltx && s.Timestamp > last.ts
				if !isLast && !chained {
					t.Fatalf("step %d: %s op accepted with refs=%s ts=%s (last ts %d, op ts %d): neither the recorded last op nor chained to it", step, cl.name, refMode, tsMode, last.ts, ts)
				}
				if isLast {
					classSet["accept:replay-last"]++
				} else {
					classSet["accept:chain"]++
					hist = append(hist, vpC28Op{tx, ts})
					record(hist[len(hist)-1])
				}
			} else {
				rejected++
				switch {
				case refMode == "replay-last":
					// in practice only the reference-less genesis op (the count test precedes
					// the identity test); rejections are always allowed
					classSet["reject:replay-last"]++
				case refMode == "older" || refMode == "older-then-last":
					classSet["reject:ref-older"]++
				case refMode == "random":
					classSet["reject:ref-random"]++
				case refMode == "none":
					classSet["reject:ref-none"]++
				case refMode == "last-not-first":
					classSet["reject:ref-last-not-first"]++
				case tsMode == "last":
					classSet["reject:ts-equal"]++
				case tsMode == "last-1" || tsMode == "zero" || tsMode == "much-earlier":
					classSet["reject:ts-earlier"]++
				default:
					classSet["reject:other"]++
				}
			}
			// the recorded history is one chain
			for i := 1; i < len(hist); i++ {
				prev, cur := hist[i-1], hist[i]
				if len(cur.tx.References) == 0 || cur.tx.References[0] != prev.tx.PayloadHash() || cur.ts <= prev.ts {
					t.Fatalf("recorded consensus history is not a chain at position %d (ts %d after %d)", i, cur.ts, prev.ts)
				}
			}
		}
		nt := len(hist) >= 4 && rejected >= 1 // genesis + 3 chained ops
		classes := []string{}
		if nt {
			classes = append(classes, "chained>=3&rejected>=1")
		}
		c.Case(fp, nt, classes...)
		for k, v := range classSet {
			c.ClassN(k, v)
		}
		if nt {
			c.Sample(map[string]any{"history": fp, "chained": len(hist) - 1, "rejected": rejected})
		}
	})
}
