//go:build verif

package kernel

// Shared kernel driver: a real Node from SetupNode on a generated genesis with
// the background loops mocked off; the harness plays the rest of the network
// (it owns every signer key), builds CoSi-certified snapshots and pushes them
// through the node's own finalization path synchronously. A proxy around the
// store numbers every mutating call and can cut execution there (crash).

import (
	"runtime/debug"
	"bytes"
	"fmt"
	"os"
	"sort"
	"sync"

	"filippo.io/edwards25519"
	"github.com/MixinNetwork/mixin/common"
	"github.com/MixinNetwork/mixin/config"
	"github.com/MixinNetwork/mixin/crypto"
	"github.com/MixinNetwork/mixin/kernel/internal"
	"github.com/MixinNetwork/mixin/storage"
	"github.com/dgraph-io/ristretto/v2"
)

const vpKEpoch = int64(1700000000)

func vpKCatch(f func()) (p any) {
	defer func() {
		if r := recover(); r != nil {
			p = r
			if os.Getenv("VERIF_STACK") != "" {
				fmt.Printf("vpKCatch: %v\n%s\n", r, debug.Stack())
			}
		}
	}()
	f()
	return nil
}

func vpKSeed(parts ...any) []byte {
	h := crypto.Blake3Hash([]byte(fmt.Sprint(parts...)))
	h2 := crypto.Blake3Hash(h[:])
	return append(h[:], h2[:]...)
}

func vpKAddr(seed []byte) common.Address { return common.NewAddressFromSeedInternalVanish(seed) }

func vpKNodeAddr(seed []byte) common.Address {
	a := common.NewAddressFromSeedInternalVanish(seed)
	a.PrivateViewKey = a.PublicSpendKey.DeterministicHashDerive()
	a.PublicViewKey = a.PrivateViewKey.Public()
	return a
}

// vpKNet is a generated network: genesis plus every private key.
type vpKNet struct {
	Gns        *common.Genesis
	NetId      crypto.Hash
	Epoch      uint64
	Signers    []common.Address
	Payees     []common.Address
	Custodians []common.Address
	Custodian  common.Address
	Accts      []common.Address
	NodeIds    []crypto.Hash
	byPublic   map[crypto.Key]*common.Address
}

func vpKNewNet(n int, tag string, accounts int) *vpKNet {
	net := &vpKNet{byPublic: map[crypto.Key]*common.Address{}}
	gns := &common.Genesis{Epoch: vpKEpoch}
	for i := 0; i < n; i++ {
		signer := vpKNodeAddr(vpKSeed(tag, "signer", i))
		payee := vpKNodeAddr(vpKSeed(tag, "payee", i))
		cust := vpKAddr(vpKSeed(tag, "custodian", i))
		net.Signers = append(net.Signers, signer)
		net.Payees = append(net.Payees, payee)
		net.Custodians = append(net.Custodians, cust)
		s, p, c := signer, payee, cust
		gns.Nodes = append(gns.Nodes, &struct {
			Signer    *common.Address `json:"signer"`
			Payee     *common.Address `json:"payee"`
			Custodian *common.Address `json:"custodian"`
			Balance   common.Integer  `json:"balance"`
		}{Signer: &s, Payee: &p, Custodian: &c, Balance: common.KernelNodePledgeAmount})
	}
	net.Custodian = vpKAddr(vpKSeed(tag, "root-custodian"))
	cc := net.Custodian
	gns.Custodian = &cc
	net.Gns = gns
	net.NetId = gns.NetworkId()
	net.Epoch = gns.EpochTimestamp()
	for i := range net.Signers {
		net.NodeIds = append(net.NodeIds, net.Signers[i].Hash().ForNetwork(net.NetId))
		net.byPublic[net.Signers[i].PublicSpendKey] = &net.Signers[i]
	}
	for i := 0; i < accounts; i++ {
		net.Accts = append(net.Accts, vpKAddr(vpKSeed(tag, "acct", i)))
	}
	return net
}

// AddSigner registers a later (pledged) node's key so it can co-sign.
func (net *vpKNet) AddSigner(a common.Address) {
	net.Signers = append(net.Signers, a)
	net.NodeIds = append(net.NodeIds, a.Hash().ForNetwork(net.NetId))
	net.byPublic[a.PublicSpendKey] = &net.Signers[len(net.Signers)-1]
}

// ---------------------------------------------------------------------------
// store proxy

type vpKCrash struct {
	K     int
	Name  string
	Phase string
}

// vpKStore delegates to the real store; every mutating call is numbered and
// reported to Hook before and after it runs. Hook may panic (crash) or run
// other work (owned interleaving).
type vpKStore struct {
	storage.Store
	mu      sync.Mutex
	K       int
	Log     []string
	Hook    func(k int, name, phase string)
	Written map[crypto.Hash]uint64 // snapshot hash -> position, for every WriteSnapshot that returned nil
	WOrder  []crypto.Hash
}

func (p *vpKStore) enter(name string) int {
	p.mu.Lock()
	p.K++
	k := p.K
	p.Log = append(p.Log, name)
	h := p.Hook
	p.mu.Unlock()
	if h != nil {
		h(k, name, "before")
	}
	return k
}

func (p *vpKStore) leave(k int, name string) {
	p.mu.Lock()
	h := p.Hook
	p.mu.Unlock()
	if h != nil {
		h(k, name, "after")
	}
}

func (p *vpKStore) LoadGenesis(r []*common.Round, s []*common.SnapshotWithTopologicalOrder, t []*common.VersionedTransaction) error {
	k := p.enter("LoadGenesis")
	err := p.Store.LoadGenesis(r, s, t)
	p.leave(k, "LoadGenesis")
	return err
}
func (p *vpKStore) AddNodeOperation(tx *common.VersionedTransaction, ts, th uint64, f bool) error {
	k := p.enter("AddNodeOperation")
	err := p.Store.AddNodeOperation(tx, ts, th, f)
	p.leave(k, "AddNodeOperation")
	return err
}
func (p *vpKStore) WriteTransaction(tx *common.VersionedTransaction) error {
	k := p.enter("WriteTransaction")
	err := p.Store.WriteTransaction(tx)
	p.leave(k, "WriteTransaction")
	return err
}
func (p *vpKStore) StartNewRound(n crypto.Hash, num uint64, r *common.RoundLink, fs uint64) error {
	k := p.enter("StartNewRound")
	err := p.Store.StartNewRound(n, num, r, fs)
	p.leave(k, "StartNewRound")
	return err
}
func (p *vpKStore) UpdateEmptyHeadRound(n crypto.Hash, num uint64, r *common.RoundLink) error {
	k := p.enter("UpdateEmptyHeadRound")
	err := p.Store.UpdateEmptyHeadRound(n, num, r)
	p.leave(k, "UpdateEmptyHeadRound")
	return err
}
func (p *vpKStore) WriteConsensusSnapshot(s *common.Snapshot, tx *common.VersionedTransaction, h *common.Snapshot) error {
	k := p.enter("WriteConsensusSnapshot")
	err := p.Store.WriteConsensusSnapshot(s, tx, h)
	p.leave(k, "WriteConsensusSnapshot")
	return err
}
func (p *vpKStore) LockUTXOs(in []*common.Input, tx crypto.Hash, f bool) error {
	k := p.enter("LockUTXOs")
	err := p.Store.LockUTXOs(in, tx, f)
	p.leave(k, "LockUTXOs")
	return err
}
func (p *vpKStore) LockDepositInput(d *common.DepositData, tx crypto.Hash, f bool) error {
	k := p.enter("LockDepositInput")
	err := p.Store.LockDepositInput(d, tx, f)
	p.leave(k, "LockDepositInput")
	return err
}
func (p *vpKStore) LockMintInput(m *common.MintData, tx crypto.Hash, f bool) error {
	k := p.enter("LockMintInput")
	err := p.Store.LockMintInput(m, tx, f)
	p.leave(k, "LockMintInput")
	return err
}
func (p *vpKStore) LockGhostKeys(keys []*crypto.Key, tx crypto.Hash, f bool) error {
	k := p.enter("LockGhostKeys")
	err := p.Store.LockGhostKeys(keys, tx, f)
	p.leave(k, "LockGhostKeys")
	return err
}
func (p *vpKStore) WriteSnapshot(s *common.SnapshotWithTopologicalOrder, signers []crypto.Hash) error {
	k := p.enter("WriteSnapshot")
	err := p.Store.WriteSnapshot(s, signers)
	if err == nil {
		p.mu.Lock()
		if p.Written == nil {
			p.Written = map[crypto.Hash]uint64{}
		}
		p.Written[s.PayloadHash()] = s.TopologicalOrder
		p.WOrder = append(p.WOrder, s.PayloadHash())
		p.mu.Unlock()
	}
	p.leave(k, "WriteSnapshot")
	return err
}
func (p *vpKStore) CacheStoreTransaction(tx *common.VersionedTransaction) error {
	k := p.enter("CacheStoreTransaction")
	err := p.Store.CacheStoreTransaction(tx)
	p.leave(k, "CacheStoreTransaction")
	return err
}
func (p *vpKStore) CacheQueueTransaction(tx *common.VersionedTransaction) error {
	k := p.enter("CacheQueueTransaction")
	err := p.Store.CacheQueueTransaction(tx)
	p.leave(k, "CacheQueueTransaction")
	return err
}
func (p *vpKStore) CacheRemoveTransactions(h []crypto.Hash) error {
	k := p.enter("CacheRemoveTransactions")
	err := p.Store.CacheRemoveTransactions(h)
	p.leave(k, "CacheRemoveTransactions")
	return err
}
func (p *vpKStore) WriteRoundWork(n crypto.Hash, r uint64, s []*common.SnapshotWork, c bool) error {
	k := p.enter("WriteRoundWork")
	err := p.Store.WriteRoundWork(n, r, s, c)
	p.leave(k, "WriteRoundWork")
	return err
}

// ---------------------------------------------------------------------------
// node lifecycle

type vpKNode struct {
	Net    *vpKNet
	Dir    string
	Badger *storage.BadgerStore
	Proxy  *vpKStore
	Node   *Node
	Cache  *ristretto.Cache[[]byte, any]
	Self   int
}

func vpKCustom(net *vpKNet, self int) *config.Custom {
	custom := &config.Custom{}
	if self < 0 {
		// an observer: a node whose signer is not (yet) a member of the network
		custom.Node.Signer = crypto.NewKeyFromSeed(vpKSeed("observer", net.NetId.String()))
	} else {
		custom.Node.Signer = net.Signers[self].PrivateSpendKey
	}
	custom.Node.MemoryCacheSize = 8
	custom.Node.CacheTTL = 7200
	custom.Node.KernelOprationPeriod = 700
	return custom
}

// vpKStart opens (or reopens) the Badger directory and runs SetupNode.
func vpKStart(net *vpKNet, dir string, self int, hook func(k int, name, phase string)) (*vpKNode, error) {
	internal.ToggleMockRunAggregators(true)
	custom := vpKCustom(net, self)
	bs, err := storage.NewBadgerStore(custom, dir)
	if err != nil {
		return nil, err
	}
	cache, err := ristretto.NewCache(&ristretto.Config[[]byte, any]{NumCounters: 8 * 1024 * 10, MaxCost: 8 * 1024 * 1024, BufferItems: 64})
	if err != nil {
		bs.Close()
		return nil, err
	}
	proxy := &vpKStore{Store: bs, Hook: hook}
	k := &vpKNode{Net: net, Dir: dir, Badger: bs, Proxy: proxy, Cache: cache, Self: self}
	var node *Node
	var serr error
	if p := vpKCatch(func() { node, serr = SetupNode(custom, proxy, cache, net.Gns) }); p != nil {
		bs.Close()
		cache.Close()
		if c, ok := p.(vpKCrash); ok {
			return nil, fmt.Errorf("crash during setup: %v", c)
		}
		return nil, fmt.Errorf("SetupNode panicked: %v", p)
	}
	if serr != nil {
		bs.Close()
		cache.Close()
		return nil, serr
	}
	k.Node = node
	return k, nil
}

// Stop discards the node (as a process exit would) and closes the store.
func (k *vpKNode) Stop() {
	if k.Node != nil {
		vpKCatch(func() { close(k.Node.done) })
		k.Node = nil
	}
	if k.Badger != nil {
		k.Badger.Close()
		k.Badger = nil
	}
	if k.Cache != nil {
		k.Cache.Close()
		k.Cache = nil
	}
}

func vpKTempDir(tag string) string {
	// Badger syncs every commit of the snapshot database; a memory-backed
	// directory keeps that cheap (the crash model cuts between store calls and
	// closes Badger cleanly, so real durability of the medium is not needed).
	base := ""
	if st, err := os.Stat("/dev/shm"); err == nil && st.IsDir() {
		if d, err := os.MkdirTemp("/dev/shm", "vpk-"+tag+"-"); err == nil {
			return d
		}
	}
	d, err := os.MkdirTemp(base, "vpk-"+tag+"-")
	if err != nil {
		panic(err)
	}
	return d
}

// ---------------------------------------------------------------------------
// transactions

// Deposit builds a custodian-signed deposit of amount into one single-key output of account owner.
func (net *vpKNet) Deposit(asset crypto.Hash, chain crypto.Hash, key string, amount common.Integer, owner int, txid string, index uint64, seq int) *common.VersionedTransaction {
	tx := common.NewTransactionV5(asset)
	tx.AddDepositInput(&common.DepositData{Chain: chain, AssetKey: key, Transaction: txid, Index: index, Amount: amount})
	tx.AddOutputWithType(common.OutputTypeScript, []*common.Address{&net.Accts[owner]}, common.NewThresholdScript(1), amount, vpKSeed("dep-out", txid, index, seq))
	signed := &common.SignedTransaction{Transaction: *tx}
	if err := signed.SignRaw(net.Custodian.PrivateSpendKey); err != nil {
		panic(err)
	}
	return signed.AsVersioned()
}

func (net *vpKNet) XINDeposit(amount common.Integer, owner int, txid string, seq int) *common.VersionedTransaction {
	return net.Deposit(common.XINAssetId, common.XINAsset.Chain, common.XINAsset.AssetKey, amount, owner, txid, 0, seq)
}

func (net *vpKNet) BTCDeposit(amount common.Integer, owner int, txid string, seq int) *common.VersionedTransaction {
	return net.Deposit(common.BitcoinAssetId, common.BitcoinAssetId, "c6d0c728-2624-429b-8e0d-d9d19b6592fa", amount, owner, txid, 0, seq)
}

// Transfer spends output 0 of prev (owned by account from) into outputs for the given accounts.
func (net *vpKNet) Transfer(prev *common.VersionedTransaction, from int, to []int, seq int, refs []crypto.Hash, extra []byte) *common.VersionedTransaction {
	tx := common.NewTransactionV5(prev.Asset)
	tx.AddInput(prev.PayloadHash(), 0)
	total := prev.Outputs[0].Amount
	share := total.Div(len(to))
	for i, a := range to {
		amt := share
		if i == len(to)-1 && len(to) > 1 {
			amt = total.Sub(share.Mul(len(to) - 1))
		}
		tx.AddOutputWithType(common.OutputTypeScript, []*common.Address{&net.Accts[a]}, common.NewThresholdScript(1), amt, vpKSeed("tr-out", prev.PayloadHash().String(), i, seq))
	}
	tx.References = refs
	tx.Extra = extra
	signed := &common.SignedTransaction{Transaction: *tx}
	msg := tx.AsVersioned().PayloadHash()
	po := prev.Outputs[0]
	priv := crypto.DeriveGhostPrivateKey(&po.Mask, &net.Accts[from].PrivateViewKey, &net.Accts[from].PrivateSpendKey, 0)
	sig := priv.Sign(msg)
	signed.SignaturesMap = []map[uint16]*crypto.Signature{{0: &sig}}
	return signed.AsVersioned()
}

// CustodianUpdate builds a custodian update keeping the genesis custodian and
// node set (price zero), funded by output 0 of prev (XIN, owned by from),
// referencing the last consensus transaction.
func (net *vpKNet) CustodianUpdate(prev *common.VersionedTransaction, from int, lastConsensus crypto.Hash, seq int) *common.VersionedTransaction {
	tx := common.NewTransactionV5(common.XINAssetId)
	tx.AddInput(prev.PayloadHash(), 0)
	receiver := common.NewAddressFromSeedInternalVanish(make([]byte, 64))
	tx.AddOutputWithType(common.OutputTypeCustodianUpdateNodes, []*common.Address{&receiver}, common.NewThresholdScript(64), prev.Outputs[0].Amount, vpKSeed("cust-out", seq))
	extra := append([]byte{}, net.Custodian.PublicSpendKey[:]...)
	extra = append(extra, net.Custodian.PublicViewKey[:]...)
	type ent struct {
		key   crypto.Key
		extra []byte
	}
	n := len(net.Gns.Nodes)
	ents := make([]ent, 0, n)
	for i := 0; i < n; i++ {
		e := common.EncodeCustodianNode(&net.Custodians[i], &net.Payees[i], &net.Signers[i].PrivateSpendKey, &net.Payees[i].PrivateSpendKey, &net.Custodians[i].PrivateSpendKey, net.NetId)
		ents = append(ents, ent{net.Custodians[i].PublicSpendKey, e})
	}
	sort.Slice(ents, func(i, j int) bool { return bytes.Compare(ents[i].key[:], ents[j].key[:]) < 0 })
	for _, e := range ents {
		extra = append(extra, e.extra...)
	}
	sig := net.Custodian.PrivateSpendKey.Sign(crypto.Blake3Hash(extra))
	extra = append(extra, sig[:]...)
	tx.Extra = extra
	tx.References = []crypto.Hash{lastConsensus}
	signed := &common.SignedTransaction{Transaction: *tx}
	msg := tx.AsVersioned().PayloadHash()
	po := prev.Outputs[0]
	priv := crypto.DeriveGhostPrivateKey(&po.Mask, &net.Accts[from].PrivateViewKey, &net.Accts[from].PrivateSpendKey, 0)
	s := priv.Sign(msg)
	signed.SignaturesMap = []map[uint16]*crypto.Signature{{0: &s}}
	return signed.AsVersioned()
}

// NodePledge builds a node-pledge transaction: spends output 0 of prev (XIN,
// exactly the pledge amount, owned by account from) into one NodePledge output;
// extra = signer public spend key || payee public spend key; references the
// last consensus transaction.
func (net *vpKNet) NodePledge(prev *common.VersionedTransaction, from int, signer, payee common.Address, lastConsensus crypto.Hash) *common.VersionedTransaction {
	tx := common.NewTransactionV5(common.XINAssetId)
	tx.AddInput(prev.PayloadHash(), 0)
	tx.AddOutputWithType(common.OutputTypeNodePledge, nil, common.Script{}, prev.Outputs[0].Amount, []byte{})
	tx.Extra = append(append([]byte{}, signer.PublicSpendKey[:]...), payee.PublicSpendKey[:]...)
	tx.References = []crypto.Hash{lastConsensus}
	signed := &common.SignedTransaction{Transaction: *tx}
	msg := tx.AsVersioned().PayloadHash()
	po := prev.Outputs[0]
	priv := crypto.DeriveGhostPrivateKey(&po.Mask, &net.Accts[from].PrivateViewKey, &net.Accts[from].PrivateSpendKey, 0)
	s := priv.Sign(msg)
	signed.SignaturesMap = []map[uint16]*crypto.Signature{{0: &s}}
	return signed.AsVersioned()
}

// NodeAccept builds the node-accept transaction of a pledge the way
// kernel/election.go:buildNodeAcceptTransaction does, signed by the pledged
// signer key (tryToSendAcceptTransaction).
func (net *vpKNet) NodeAccept(pledge *common.VersionedTransaction, signer common.Address, lastConsensus crypto.Hash) *common.VersionedTransaction {
	tx := common.NewTransactionV5(common.XINAssetId)
	tx.AddInput(pledge.PayloadHash(), 0)
	tx.AddOutputWithType(common.OutputTypeNodeAccept, nil, common.Script{}, pledge.Outputs[0].Amount, []byte{})
	tx.Extra = append([]byte{}, pledge.Extra...)
	tx.References = []crypto.Hash{lastConsensus}
	ver := tx.AsVersioned()
	sig := signer.PrivateSpendKey.Sign(ver.PayloadHash())
	ver.SignaturesMap = []map[uint16]*crypto.Signature{{0: &sig}}
	return ver
}

// NodeRemove builds the (unsigned) node-remove transaction of an accepted node
// the way kernel/election.go:buildNodeRemoveTransaction does; accept is the
// node's accept (or genesis) transaction, signer/payee its recorded addresses.
func (net *vpKNet) NodeRemove(accept *common.VersionedTransaction, signer, payee common.Address, lastConsensus crypto.Hash) *common.VersionedTransaction {
	tx := common.NewTransactionV5(common.XINAssetId)
	tx.AddInput(accept.PayloadHash(), 0)
	tx.Extra = append([]byte{}, accept.Extra...)
	in := fmt.Sprintf("NODEREMOVE%s", signer.String())
	si := crypto.Blake3Hash([]byte(payee.String() + in))
	seed := append(si[:], si[:]...)
	tx.AddOutputWithType(common.OutputTypeNodeRemove, []*common.Address{&payee}, common.NewThresholdScript(1), accept.Outputs[0].Amount, seed)
	tx.References = []crypto.Hash{lastConsensus}
	return tx.AsVersioned()
}

// InitialSnapshot prepares the uncertified round-0 snapshot that carries the
// accept transaction on the pledged node's own chain.
func (k *vpKNode) InitialSnapshot(nodeId crypto.Hash, tx crypto.Hash, ts uint64) *common.Snapshot {
	s := &common.Snapshot{Version: common.SnapshotVersionCommonEncoding, NodeId: nodeId, Timestamp: ts}
	s.AddTransaction(tx)
	return s
}

// CertifyRot is Certify with the signer selection rotated: threshold+extra
// members are taken from the key vector starting at position rot (wrapping),
// so that late positions (a freshly accepted node) get to co-sign.
func (k *vpKNode) CertifyRot(s *common.Snapshot, extra, rot int) {
	chain := k.Node.getOrCreateChain(s.NodeId)
	s.Hash = s.PayloadHash()
	_, publics := chain.ConsensusKeys(s.RoundNumber, s.Timestamp)
	want := k.Node.ConsensusThreshold(s.Timestamp, true) + extra
	if want > len(publics) {
		want = len(publics)
	}
	sum := edwards25519.NewScalar()
	var mask uint64
	cnt := 0
	for j := 0; j < len(publics) && cnt < want; j++ {
		i := (j + rot) % len(publics)
		a := k.Net.byPublic[*publics[i]]
		if a == nil {
			continue
		}
		sc, err := edwards25519.NewScalar().SetCanonicalBytes(a.PrivateSpendKey[:])
		if err != nil {
			panic(err)
		}
		sum.Add(sum, sc)
		mask |= 1 << uint(i)
		cnt++
	}
	var agg crypto.Key
	copy(agg[:], sum.Bytes())
	sig := agg.Sign(s.Hash)
	s.Signature = &crypto.CosiSignature{Mask: mask, Signature: sig}
}

// ---------------------------------------------------------------------------
// snapshots and certificates

// Certify signs s with the first `extra` + threshold consensus members at its
// timestamp (positions in the key vector the node itself reports).
func (k *vpKNode) Certify(s *common.Snapshot, extra int) {
	chain := k.Node.getOrCreateChain(s.NodeId)
	s.Hash = s.PayloadHash()
	_, publics := chain.ConsensusKeys(s.RoundNumber, s.Timestamp)
	threshold := k.Node.ConsensusThreshold(s.Timestamp, true)
	want := threshold + extra
	if want > len(publics) {
		want = len(publics)
	}
	sum := edwards25519.NewScalar()
	var mask uint64
	cnt := 0
	for i, pub := range publics {
		if cnt >= want {
			break
		}
		a := k.Net.byPublic[*pub]
		if a == nil {
			continue
		}
		sc, err := edwards25519.NewScalar().SetCanonicalBytes(a.PrivateSpendKey[:])
		if err != nil {
			panic(err)
		}
		sum.Add(sum, sc)
		mask |= 1 << uint(i)
		cnt++
	}
	var agg crypto.Key
	copy(agg[:], sum.Bytes())
	sig := agg.Sign(s.Hash)
	s.Signature = &crypto.CosiSignature{Mask: mask, Signature: sig}
}

// NextSnapshot prepares an uncertified snapshot for chain on its head round
// (newRound=false) or on a new round referencing external chain ext.
func (k *vpKNode) NextSnapshot(chainIdx int, txs []crypto.Hash, ts uint64, newRound bool, ext int) *common.Snapshot {
	id := k.Net.NodeIds[chainIdx]
	chain := k.Node.getOrCreateChain(id)
	cache := chain.State.CacheRound
	s := &common.Snapshot{Version: common.SnapshotVersionCommonEncoding, NodeId: id, Timestamp: ts}
	if newRound && len(cache.Snapshots) > 0 {
		final := cache.asFinal()
		ec := k.Node.getOrCreateChain(k.Net.NodeIds[ext])
		s.RoundNumber = cache.Number + 1
		s.References = &common.RoundLink{Self: final.Hash, External: ec.State.FinalRound.Hash}
	} else {
		s.RoundNumber = cache.Number
		s.References = cache.References.Copy()
	}
	sorted := append([]crypto.Hash{}, txs...)
	sort.Slice(sorted, func(i, j int) bool { return bytes.Compare(sorted[i][:], sorted[j][:]) < 0 })
	for _, h := range sorted {
		s.AddTransaction(h)
	}
	return s
}

// Deliver hands bodies and a certified snapshot to the node exactly as a
// syncing peer does: bodies into the cache, then the finalization action.
func (k *vpKNode) Deliver(s *common.Snapshot, bodies []*common.VersionedTransaction) (finalized bool, err error) {
	for _, b := range bodies {
		if e := k.Node.persistStore.CacheStoreTransaction(b); e != nil {
			return false, e
		}
	}
	chain := k.Node.getOrCreateChain(s.NodeId)
	m := &CosiAction{PeerId: k.Net.NodeIds[(k.Self+1+len(k.Net.Gns.Nodes))%len(k.Net.Gns.Nodes)], Action: CosiActionFinalization, Snapshot: s}
	err = chain.cosiHandleFinalization(m)
	return m.finalized, err
}
