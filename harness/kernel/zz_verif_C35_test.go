//go:build verif

package kernel

import (
	"fmt"
	"sync"
	"testing"
	"time"

	"github.com/MixinNetwork/mixin/common"
	"github.com/MixinNetwork/mixin/crypto"
	"pgregory.net/rapid"
	kit "verifkit"
)

type vpC35Entry struct {
	pos  uint64
	hash crypto.Hash
}

// The node keeps per-minute statistics about the positions it assigned (a
// goroutine started with the counter). Positions must keep increasing across
// such a tick. The pair of tests below brackets the other tests of this unit:
// the first one starts a node and assigns two positions, the last one waits
// until that node is older than one statistics period and assigns a third.
var vpC35Tick struct {
	e     *vpC16Env
	start time.Time
	last  uint64
}

func vpC35TickWrite(e *vpC16Env, tag string) (uint64, error) {
	e.seq++
	tx := e.net.BTCDeposit(common.NewInteger(1), 0, fmt.Sprintf("0xc35tick-%s-%d", tag, e.seq), e.seq)
	e.clock += uint64(500 * time.Millisecond)
	s := e.k.NextSnapshot(e.seq%7, []crypto.Hash{tx.PayloadHash()}, e.clock, false, 0)
	e.k.Certify(s, 0)
	fin, pan, err := e.finalize(s, []*common.VersionedTransaction{tx})
	if pan != nil || err != nil || !fin {
		return 0, fmt.Errorf("finalized=%v err=%v panic=%v", fin, err, pan)
	}
	back, err := e.k.Node.persistStore.ReadSnapshot(s.Hash)
	if err != nil || back == nil {
		return 0, fmt.Errorf("written snapshot unreadable: %v", err)
	}
	return back.TopologicalOrder, nil
}

func TestVP_C35_a_tick_begin(t *testing.T) {
	if kit.Replaying() {
		return
	}
	e := vpC16Start("c35tick")
	vpC35Tick.e, vpC35Tick.start = e, time.Now()
	for i := 0; i < 2; i++ {
		pos, err := vpC35TickWrite(e, "before")
		if err != nil {
			t.Fatalf("write before the statistics tick: %v", err)
		}
		if pos <= vpC35Tick.last {
			t.Fatalf("position %d assigned after %d", pos, vpC35Tick.last)
		}
		vpC35Tick.last = pos
	}
}

func TestVP_C35_topo_write(t *testing.T) {
	c := kit.New(t, "C35", "rapid: histories of 5..60 snapshots finalized through the real node (TopoWrite) over 7 chains with round transitions and batches (a fifth of the snapshots carry, alone or next to new ones, a transaction that another chain's snapshot finalized before), interleaved with cursor listings (offset in {0, existing, gap, last, last+1, 2^64-1}, count in {0,1,7,500,501}), by-hash lookups and node restarts (store reopened, counter rebuilt); oracle: model list of (position, hash) in assignment order: assigned positions strictly increase and never repeat (also across restarts), a listing equals the first count model entries at or after the offset in increasing order with each entry's own position and payload hash, count above 500 is refused, lookup by hash returns the model position; non-trivial = listing returning >=2 entries from a non-zero offset; distinct by (history length, offset, count)")
	c.Assume("a certified snapshot never repeats a transaction its own chain already holds (honest signers refuse such a proposal; the store answers it with its 'snapshot duplication' assertion)")
	c.Require("restart", "listing-nonzero-offset>=2", "count-501-refused", "offset-beyond-last", "batch", "lookup", "member-finalized-before", "listing-through-node")
	kit.SetChecks(kit.N(60, 1500))
	rapid.Check(t, func(t *rapid.T) {
		e := vpC16Start("c35")
		defer func() { e.Close() }()
		var model []vpC35Entry
		// genesis entries
		gs, err := e.k.Node.persistStore.ReadSnapshotsSinceTopology(0, 500)
		if err != nil {
			t.Fatal(err)
		}
		for _, s := range gs {
			model = append(model, vpC35Entry{s.TopologicalOrder, s.Hash})
		}
		taken := 0
		var finalizedTxs []*common.VersionedTransaction
		chainsOf := map[crypto.Hash]map[crypto.Hash]bool{} // transaction -> chains that hold it
		sync := func() {
			// positions the node assigned since the last sync, in assignment order
			w := e.k.Proxy
			for ; taken < len(w.WOrder); taken++ {
				h := w.WOrder[taken]
				pos := w.Written[h]
				last := model[len(model)-1].pos
				if pos <= last {
					t.Fatalf("TopoWrite assigned position %d after %d", pos, last)
				}
				model = append(model, vpC35Entry{pos, h})
			}
		}
		steps := rapid.IntRange(5, 60).Draw(t, "steps")
		for i := 0; i < steps; i++ {
			switch op := rapid.IntRange(0, 9).Draw(t, "op"); {
			case op <= 4: // finalize a snapshot
				n := 1
				if rapid.IntRange(0, 3).Draw(t, "batch") == 0 {
					n = rapid.IntRange(2, 4).Draw(t, "batch_n")
					c.Class("batch")
				}
				var txs []*common.VersionedTransaction
				for j := 0; j < n; j++ {
					e.seq++
					txs = append(txs, e.net.BTCDeposit(common.NewInteger(1), j%4, fmt.Sprintf("0xc35-%d", e.seq), e.seq))
				}
				var again *common.VersionedTransaction
				if len(finalizedTxs) > 0 && rapid.IntRange(0, 4).Draw(t, "again") == 0 {
					// a transaction some chain has finalized already arrives once more in
					// another chain's snapshot (alone, or next to new ones): the snapshot
					// is stored and takes a position of its own
					old := finalizedTxs[rapid.IntRange(0, len(finalizedTxs)-1).Draw(t, "again_tx")]
					if rapid.Bool().Draw(t, "again_alone") {
						txs = nil
					}
					txs = append(txs, old)
					again = old
				}
				s := e.snapshotFor(t, txs)
				if again != nil && chainsOf[again.PayloadHash()][s.NodeId] {
					// a chain holds a transaction once; no honest signer certifies a
					// second snapshot of the same chain with it
					e.seq++
					txs[len(txs)-1] = e.net.BTCDeposit(common.NewInteger(1), 0, fmt.Sprintf("0xc35-%d", e.seq), e.seq)
					again = nil
					s = e.snapshotFor(t, txs)
				}
				if again != nil {
					c.Class("member-finalized-before")
				}
				fin, pan, err := e.finalize(s, txs)
				if !fin || pan != nil || err != nil {
					t.Fatalf("finalize: %v %v %v", fin, pan, err)
				}
				for _, tx := range txs {
					if chainsOf[tx.PayloadHash()] == nil {
						chainsOf[tx.PayloadHash()] = map[crypto.Hash]bool{}
						finalizedTxs = append(finalizedTxs, tx)
					}
					chainsOf[tx.PayloadHash()][s.NodeId] = true
				}
				sync()
			case op == 5: // restart
				e.k.Stop()
				k, err := vpKStart(e.net, e.dir, 0, nil)
				if err != nil {
					t.Fatalf("restart: %v", err)
				}
				e.k = k
				taken = 0
				if got, want := k.Node.TopoCounter.seq, model[len(model)-1].pos; got != want {
					t.Fatalf("counter after restart %d, last assigned position %d", got, want)
				}
				c.Class("restart")
			case op <= 8: // listing
				last := model[len(model)-1].pos
				var offset uint64
				switch rapid.IntRange(0, 5).Draw(t, "offset_class") {
				case 0:
					offset = 0
				case 1:
					offset = model[rapid.IntRange(0, len(model)-1).Draw(t, "offset_idx")].pos
				case 2:
					offset = last
				case 3:
					offset = last + 1
					c.Class("offset-beyond-last")
				case 4:
					offset = ^uint64(0)
					c.Class("offset-beyond-last")
				default:
					offset = uint64(rapid.IntRange(0, int(last)+3).Draw(t, "offset_any"))
				}
				count := rapid.SampledFrom([]uint64{0, 1, 7, 500, 501, 3}).Draw(t, "count")
				// through the node (what sync peers and the RPC handle call) or
				// straight from the store: the same answer is expected
				var got []*common.SnapshotWithTopologicalOrder
				var err error
				if rapid.Bool().Draw(t, "via_node") {
					got, err = e.k.Node.ReadSnapshotsSinceTopology(offset, count)
					c.Class("listing-through-node")
				} else {
					got, err = e.k.Node.persistStore.ReadSnapshotsSinceTopology(offset, count)
				}
				if count > 500 {
					if err == nil {
						t.Fatalf("listing with count %d accepted", count)
					}
					c.Class("count-501-refused")
					continue
				}
				if err != nil {
					t.Fatalf("listing(%d,%d): %v", offset, count, err)
				}
				var want []vpC35Entry
				for _, m := range model {
					if m.pos >= offset && uint64(len(want)) < count {
						want = append(want, m)
					}
				}
				if len(got) != len(want) {
					t.Fatalf("listing(%d,%d) returned %d entries, model %d", offset, count, len(got), len(want))
				}
				for j := range got {
					if got[j].TopologicalOrder != want[j].pos || got[j].Hash != want[j].hash || got[j].PayloadHash() != want[j].hash {
						t.Fatalf("listing(%d,%d)[%d] = (%d,%s), model (%d,%s)", offset, count, j, got[j].TopologicalOrder, got[j].Hash, want[j].pos, want[j].hash)
					}
					if j > 0 && got[j].TopologicalOrder <= got[j-1].TopologicalOrder {
						t.Fatalf("listing not increasing at %d", j)
					}
				}
				nt := offset > 0 && len(got) >= 2
				cl := []string{}
				if nt {
					cl = append(cl, "listing-nonzero-offset>=2")
				}
				c.Case(fmt.Sprint(len(model), offset, count), nt, cl...)
			default: // lookup by hash
				m := model[rapid.IntRange(0, len(model)-1).Draw(t, "lookup")]
				s, err := e.k.Node.persistStore.ReadSnapshot(m.hash)
				if err != nil || s == nil || s.TopologicalOrder != m.pos {
					t.Fatalf("lookup of %s gives %v (%v), model position %d", m.hash, s, err, m.pos)
				}
				c.Class("lookup")
			}
		}
		_ = time.Now
		c.Sample(map[string]any{"snapshots": len(model), "last_position": model[len(model)-1].pos})
	})
}

// Two chains finalize at the same time (each chain has its own goroutine in the
// node; only TopoWrite is serialized). The store proxy owns the schedule: the
// first snapshot write to arrive is held back until another snapshot write has
// completed or 250 ms have passed. If assigning a position and storing it are
// one critical section, the second writer cannot overtake and positions reach
// the store in increasing order; a listing taken after any write then never
// shows a position whose predecessor appears later.
func TestVP_C35_concurrent_commit_order(t *testing.T) {
	c := kit.New(t, "C35", "rapid: 3..8 rounds in which two different chains each finalize one snapshot concurrently through the real finalization path, with the store proxy holding the first arriving WriteSnapshot until the other one completed (or 250 ms); oracle: positions reach the store in strictly increasing order (commit order = position order), and the listing from the first position of the round taken after each write never misses a smaller position that is stored later; non-trivial = round in which both writes were in flight together; distinct by (round count, chains)")
	c.Require("round", "held-writer")
	kit.SetChecks(kit.N(4, 120))
	rapid.Check(t, func(t *rapid.T) {
		e := vpC16Start("c35c")
		defer func() { e.Close() }()
		var mu sync.Mutex
		var commitOrder []uint64
		var held bool
		var release chan struct{}
		inflight := 0
		e.k.Proxy.Hook = func(k int, name, phase string) {
			if name != "WriteSnapshot" {
				return
			}
			mu.Lock()
			if phase == "before" {
				inflight++
				if !held && release != nil {
					held = true
					ch := release
					mu.Unlock()
					select {
					case <-ch:
					case <-time.After(250 * time.Millisecond):
					}
					return
				}
				mu.Unlock()
				return
			}
			// after: the write is in the store
			w := e.k.Proxy
			w.mu.Lock()
			if n := len(w.WOrder); n > 0 {
				commitOrder = append(commitOrder, w.Written[w.WOrder[n-1]])
			}
			w.mu.Unlock()
			inflight--
			if held && release != nil {
				select {
				case <-release:
				default:
					close(release)
				}
			}
			mu.Unlock()
		}
		rounds := rapid.IntRange(3, 8).Draw(t, "rounds")
		for r := 0; r < rounds; r++ {
			a := rapid.IntRange(0, 6).Draw(t, "chain_a")
			b := (a + 1 + rapid.IntRange(0, 5).Draw(t, "chain_b")) % 7
			mk := func(ci int) (*common.Snapshot, []*common.VersionedTransaction) {
				e.seq++
				e.clock += uint64(50 * time.Millisecond)
				tx := e.net.BTCDeposit(common.NewInteger(1), 0, fmt.Sprintf("0xc35c-%d", e.seq), e.seq)
				chain := e.k.Node.getOrCreateChain(e.net.NodeIds[ci])
				newRound := false
				if cache := chain.State.CacheRound; len(cache.Snapshots) > 0 {
					start, _ := cache.Gap()
					newRound = e.clock >= start+uint64(3*time.Second)
				}
				s := e.k.NextSnapshot(ci, []crypto.Hash{tx.PayloadHash()}, e.clock, newRound, (ci+3)%7)
				e.k.Certify(s, 0)
				return s, []*common.VersionedTransaction{tx}
			}
			s1, b1 := mk(a)
			s2, b2 := mk(b)
			mu.Lock()
			held = false
			release = make(chan struct{})
			start := len(commitOrder)
			mu.Unlock()
			var wg sync.WaitGroup
			errs := make([]string, 2)
			run := func(i int, s *common.Snapshot, bodies []*common.VersionedTransaction) {
				defer wg.Done()
				fin, pan, err := e.finalize(s, bodies)
				if pan != nil || err != nil || !fin {
					errs[i] = fmt.Sprintf("finalize: %v %v %v", fin, err, pan)
				}
			}
			wg.Add(2)
			go run(0, s1, b1)
			go run(1, s2, b2)
			wg.Wait()
			mu.Lock()
			release = nil
			got := append([]uint64{}, commitOrder[start:]...)
			wasHeld := held
			mu.Unlock()
			for _, m := range errs {
				if m != "" {
					t.Fatalf("round %d: %s", r, m)
				}
			}
			if len(got) != 2 {
				t.Fatalf("round %d: %d snapshot writes observed, want 2", r, len(got))
			}
			if got[1] <= got[0] {
				t.Fatalf("round %d: topology position %d reached the store after position %d: a cursor listing taken in between shows %d without %d, which then appears behind the cursor (chains %d and %d)", r, got[0], got[1], got[1], got[0], a, b)
			}
			cl := []string{"round"}
			if wasHeld {
				cl = append(cl, "held-writer")
			}
			c.Case(fmt.Sprint(rounds, r, a, b), wasHeld, cl...)
		}
		e.k.Proxy.Hook = nil
		// final listing is gap-free from the first assigned position on
		snaps, err := e.k.Node.persistStore.ReadSnapshotsSinceTopology(0, 500)
		if err != nil {
			t.Fatal(err)
		}
		for i := 1; i < len(snaps); i++ {
			if snaps[i].TopologicalOrder != snaps[i-1].TopologicalOrder+1 {
				t.Fatalf("positions %d then %d: the node skipped or repeated a position", snaps[i-1].TopologicalOrder, snaps[i].TopologicalOrder)
			}
		}
	})
}

func TestVP_C35_z_tick_end(t *testing.T) {
	if kit.Replaying() || vpC35Tick.e == nil {
		return
	}
	c := kit.New(t, "C35", "deterministic: one node lives through a statistics period of its topology counter (61 s; the other tests of the unit run meanwhile): two positions assigned right after start, one after the period; oracle: the third position is above the second, the node's in-memory sequence equals it, and a listing from the second position returns both; non-trivial = the period was crossed; distinct by phase")
	e := vpC35Tick.e
	defer e.Close()
	if wait := 61*time.Second - time.Since(vpC35Tick.start); wait > 0 {
		time.Sleep(wait)
	}
	pos, err := vpC35TickWrite(e, "after")
	if err != nil {
		t.Fatalf("write after the statistics tick (node is %v old): %v", time.Since(vpC35Tick.start).Round(time.Second), err)
	}
	if pos <= vpC35Tick.last {
		t.Fatalf("position %d assigned after the statistics tick, %d had been assigned before it", pos, vpC35Tick.last)
	}
	if seq := e.k.Node.TopologicalOrder(); seq != pos {
		t.Fatalf("in-memory sequence %d after assigning position %d", seq, pos)
	}
	got, err := e.k.Node.ReadSnapshotsSinceTopology(vpC35Tick.last, 10)
	if err != nil || len(got) != 2 || got[0].TopologicalOrder != vpC35Tick.last || got[1].TopologicalOrder != pos {
		t.Fatalf("listing from %d across the tick: %v %v", vpC35Tick.last, got, err)
	}
	c.Case("tick-crossed", true, "stats-tick-crossed")
	c.Case("tick-listing", true, "stats-tick-crossed")
}
