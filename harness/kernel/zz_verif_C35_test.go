//go:build verif

package kernel

import (
	"fmt"
	"testing"
	"time"

	"github.com/MixinNetwork/mixin/common"
	"github.com/MixinNetwork/mixin/crypto"
	"pgregory.net/rapid"
	kit "verifkit"
)

type vpC35Entry struct {
	pos  uint64
	hash crypto.Hash
}

func TestVP_C35_topo_write(t *testing.T) {
	c := kit.New(t, "C35", "rapid: histories of 5..60 snapshots finalized through the real node (TopoWrite) over 7 chains with round transitions and batches, interleaved with cursor listings (offset in {0, existing, gap, last, last+1, 2^64-1}, count in {0,1,7,500,501}), by-hash lookups and node restarts (store reopened, counter rebuilt); oracle: model list of (position, hash) in assignment order: assigned positions strictly increase and never repeat (also across restarts), a listing equals the first count model entries at or after the offset in increasing order with each entry's own position and payload hash, count above 500 is refused, lookup by hash returns the model position; non-trivial = listing returning >=2 entries from a non-zero offset; distinct by (history length, offset, count)")
	c.Require("restart", "listing-nonzero-offset>=2", "count-501-refused", "offset-beyond-last", "batch", "lookup")
	kit.SetChecks(kit.N(60, 1500))
	rapid.Check(t, func(t *rapid.T) {
		e := vpC16Start("c35")
		defer func() { e.Close() }()
		var model []vpC35Entry
		// genesis entries
		gs, err := e.k.Node.persistStore.ReadSnapshotsSinceTopology(0, 500)
		if err != nil {
			t.Fatal(err)
		}
		for _, s := range gs {
			model = append(model, vpC35Entry{s.TopologicalOrder, s.Hash})
		}
		taken := 0
		sync := func() {
			// positions the node assigned since the last sync, in assignment order
			w := e.k.Proxy
			for ; taken < len(w.WOrder); taken++ {
				h := w.WOrder[taken]
				pos := w.Written[h]
				last := model[len(model)-1].pos
				if pos <= last {
					t.Fatalf("TopoWrite assigned position %d after %d", pos, last)
				}
				model = append(model, vpC35Entry{pos, h})
			}
		}
		steps := rapid.IntRange(5, 60).Draw(t, "steps")
		for i := 0; i < steps; i++ {
			switch op := rapid.IntRange(0, 9).Draw(t, "op"); {
			case op <= 4: // finalize a snapshot
				n := 1
				if rapid.IntRange(0, 3).Draw(t, "batch") == 0 {
					n = rapid.IntRange(2, 4).Draw(t, "batch_n")
					c.Class("batch")
				}
				var txs []*common.VersionedTransaction
				for j := 0; j < n; j++ {
					e.seq++
					txs = append(txs, e.net.BTCDeposit(common.NewInteger(1), j%4, fmt.Sprintf("0xc35-%d", e.seq), e.seq))
				}
				s := e.snapshotFor(t, txs)
				fin, pan, err := e.finalize(s, txs)
				if !fin || pan != nil || err != nil {
					t.Fatalf("finalize: %v %v %v", fin, pan, err)
				}
				sync()
			case op == 5: // restart
				e.k.Stop()
				k, err := vpKStart(e.net, e.dir, 0, nil)
				if err != nil {
					t.Fatalf("restart: %v", err)
				}
				e.k = k
				taken = 0
				if got, want := k.Node.TopoCounter.seq, model[len(model)-1].pos; got != want {
					t.Fatalf("counter after restart %d, last assigned position %d", got, want)
				}
				c.Class("restart")
			case op <= 8: // listing
				last := model[len(model)-1].pos
				var offset uint64
				switch rapid.IntRange(0, 5).Draw(t, "offset_class") {
				case 0:
					offset = 0
				case 1:
					offset = model[rapid.IntRange(0, len(model)-1).Draw(t, "offset_idx")].pos
				case 2:
					offset = last
				case 3:
					offset = last + 1
					c.Class("offset-beyond-last")
				case 4:
					offset = ^uint64(0)
					c.Class("offset-beyond-last")
				default:
					offset = uint64(rapid.IntRange(0, int(last)+3).Draw(t, "offset_any"))
				}
				count := rapid.SampledFrom([]uint64{0, 1, 7, 500, 501, 3}).Draw(t, "count")
				got, err := e.k.Node.persistStore.ReadSnapshotsSinceTopology(offset, count)
				if count > 500 {
					if err == nil {
						t.Fatalf("listing with count %d accepted", count)
					}
					c.Class("count-501-refused")
					continue
				}
				if err != nil {
					t.Fatalf("listing(%d,%d): %v", offset, count, err)
				}
				var want []vpC35Entry
				for _, m := range model {
					if m.pos >= offset && uint64(len(want)) < count {
						want = append(want, m)
					}
				}
				if len(got) != len(want) {
					t.Fatalf("listing(%d,%d) returned %d entries, model %d", offset, count, len(got), len(want))
				}
				for j := range got {
					if got[j].TopologicalOrder != want[j].pos || got[j].Hash != want[j].hash || got[j].PayloadHash() != want[j].hash {
						t.Fatalf("listing(%d,%d)[%d] = (%d,%s), model (%d,%s)", offset, count, j, got[j].TopologicalOrder, got[j].Hash, want[j].pos, want[j].hash)
					}
					if j > 0 && got[j].TopologicalOrder <= got[j-1].TopologicalOrder {
						t.Fatalf("listing not increasing at %d", j)
					}
				}
				nt := offset > 0 && len(got) >= 2
				cl := []string{}
				if nt {
					cl = append(cl, "listing-nonzero-offset>=2")
				}
				c.Case(fmt.Sprint(len(model), offset, count), nt, cl...)
			default: // lookup by hash
				m := model[rapid.IntRange(0, len(model)-1).Draw(t, "lookup")]
				s, err := e.k.Node.persistStore.ReadSnapshot(m.hash)
				if err != nil || s == nil || s.TopologicalOrder != m.pos {
					t.Fatalf("lookup of %s gives %v (%v), model position %d", m.hash, s, err, m.pos)
				}
				c.Class("lookup")
			}
		}
		_ = time.Now
		c.Sample(map[string]any{"snapshots": len(model), "last_position": model[len(model)-1].pos})
	})
}
