//go:build verif

package kernel

// C28, proposer side of CoSi. A real node that IS the chain the kernel elects
// for a custodian update proposes that operation itself: the announcement
// (SelfEmpty), the commitments of its peers (SelfCommitment, or
// SelfFullCommitment for peers that pre-committed nonces) and their responses
// (SelfResponse) all run through the real chain.cosiHook on the node's own
// chain; the harness plays every peer (it owns their keys). At a drawn point of
// that exchange another consensus operation (a node pledge, elected on another
// chain) that references the same last recorded consensus operation is
// finalized through the finalization path and recorded. The proposer must then
// never finalize its own, now stale, operation; without interference it must
// finalize it. In every run the recorded consensus history is one chain.
//
// This file only depends on zz_verif_util_test.go.

import (
	"bytes"
	"fmt"
	"os"
	"sort"
	"sync"
	"testing"
	"time"

	"github.com/MixinNetwork/mixin/common"
	"github.com/MixinNetwork/mixin/config"
	"github.com/MixinNetwork/mixin/crypto"
	"github.com/MixinNetwork/mixin/kernel/internal/clock"
	"github.com/MixinNetwork/mixin/p2p"
	"pgregory.net/rapid"
	kit "verifkit"
)

const vpC28pTag = "c28p"
const vpC28pDays = 12

var vpC28pTable struct {
	once      sync.Once
	custodian []int // day -> index of the node elected for custodian updates
	pledge    []int // day -> index of the node elected for pledges
	err       error
}

// vpC28pElection asks a throwaway node which member the kernel elects per day
// (the member set is the genesis set, so the answer does not depend on self).
func vpC28pElection(net *vpKNet) ([]int, []int, error) {
	vpC28pTable.once.Do(func() {
		dir := vpKTempDir("c28p-elect")
		defer os.RemoveAll(dir)
		k, err := vpKStart(net, dir, 0, nil)
		if err != nil {
			vpC28pTable.err = err
			return
		}
		defer k.Stop()
		index := func(id crypto.Hash) int {
			for i, n := range net.NodeIds {
				if n == id {
					return i
				}
			}
			return -1
		}
		for d := 0; d < vpC28pDays; d++ {
			ts := net.Epoch + uint64(d)*OneDay + uint64(12*time.Hour)
			vpC28pTable.custodian = append(vpC28pTable.custodian, index(k.Node.electSnapshotNode(common.TransactionTypeCustodianUpdateNodes, ts)))
			vpC28pTable.pledge = append(vpC28pTable.pledge, index(k.Node.electSnapshotNode(common.TransactionTypeNodePledge, ts)))
		}
	})
	return vpC28pTable.custodian, vpC28pTable.pledge, vpC28pTable.err
}

func vpC28pSetClock(target uint64) {
	clock.Reset()
	clock.MockDiff(time.Unix(0, int64(target)).Sub(time.Now()))
}

// vpC28pDeliver certifies txs in one snapshot of chain idx at time ts (head
// round when the round rules allow it, a new round referencing chain ext
// otherwise) and pushes it through the node's finalization path.
func vpC28pDeliver(k *vpKNode, idx int, txs []*common.VersionedTransaction, ts uint64, ext int) (*common.Snapshot, bool, any, error) {
	ch := k.Node.getOrCreateChain(k.Net.NodeIds[idx])
	cache := ch.State.CacheRound
	newRound := false
	if len(cache.Snapshots) > 0 {
		start, _ := cache.Copy().Gap()
		newRound = ts >= start+config.SnapshotRoundGap || ts/OneDay != start/OneDay
	}
	if ext == idx {
		ext = (idx + 1) % len(k.Net.Gns.Nodes)
	}
	var hs []crypto.Hash
	for _, tx := range txs {
		hs = append(hs, tx.PayloadHash())
	}
	s := k.NextSnapshot(idx, hs, ts, newRound, ext)
	k.Certify(s, int(ts%3))
	var fin bool
	var err error
	pan := vpKCatch(func() { fin, err = k.Deliver(s, txs) })
	return s, fin, pan, err
}

type vpC28pOp struct {
	Tx       crypto.Hash
	Snapshot crypto.Hash
	Ts       uint64
	Genesis  bool
}

// vpC28pWalk reads the recorded last consensus operation and follows
// References[0] back to a genesis operation: every operation on the way must be
// finalized in exactly the snapshot the walk came through, alone in it, and
// strictly later than its predecessor.
func vpC28pWalk(node *Node) ([]vpC28pOp, error) {
	store := node.persistStore
	last, err := store.ReadLastConsensusSnapshot()
	if err != nil || last == nil {
		return nil, fmt.Errorf("no recorded last consensus operation (err %v)", err)
	}
	var ops []vpC28pOp
	cur := last
	for {
		if len(ops) > 16 {
			return ops, fmt.Errorf("consensus history does not end after %d operations (cycle?)", len(ops))
		}
		if len(cur.Transactions) != 1 {
			return ops, fmt.Errorf("recorded consensus snapshot %s holds %d transactions", cur.Hash, len(cur.Transactions))
		}
		h := cur.Transactions[0]
		tx, in, err := store.ReadTransaction(h)
		if err != nil || tx == nil {
			return ops, fmt.Errorf("recorded consensus operation %s has no body (err %v)", h, err)
		}
		if in != cur.PayloadHash().String() {
			return ops, fmt.Errorf("recorded consensus operation %s is finalized in %q, the history holds it in %s", h, in, cur.PayloadHash())
		}
		op := vpC28pOp{Tx: h, Snapshot: cur.PayloadHash(), Ts: cur.Timestamp, Genesis: len(tx.Inputs) == 1 && tx.Inputs[0].Genesis != nil}
		ops = append(ops, op)
		if op.Genesis {
			return ops, nil
		}
		if len(tx.References) < 1 {
			return ops, fmt.Errorf("recorded consensus operation %s has no reference", h)
		}
		ptx, pin, err := store.ReadTransaction(tx.References[0])
		if err != nil || ptx == nil || pin == "" {
			return ops, fmt.Errorf("recorded consensus operation %s references %s, which is not finalized (err %v)", h, tx.References[0], err)
		}
		ph, err := crypto.HashFromString(pin)
		if err != nil {
			return ops, err
		}
		ps, err := store.ReadSnapshot(ph)
		if err != nil || ps == nil {
			return ops, fmt.Errorf("snapshot %s of consensus operation %s unreadable (err %v)", pin, tx.References[0], err)
		}
		if ps.Timestamp >= cur.Timestamp {
			return ops, fmt.Errorf("consensus operation %s at %d is not strictly later than its predecessor %s at %d", h, cur.Timestamp, tx.References[0], ps.Timestamp)
		}
		cur = ps.Snapshot
	}
}

type vpC28pPeer struct {
	idx      int
	id       crypto.Hash
	nonce    *crypto.CosiNonce
	R        crypto.Key
	pre      bool // pre-committed its nonce (full commitment / full challenge flow)
	accepted bool // its commitment is part of the proposal
	answered bool
}

func TestVP_C28_proposer_phases(t *testing.T) {
	c := kit.New(t, "C28", "rapid: a real node started as the member the kernel elects for custodian updates at a drawn day (1..9) and hour (outside the forbidden hours) proposes a custodian update that references the recorded last consensus operation, alone in its snapshot, through the real chain.cosiHook on its own chain: SelfEmpty (own head round untouched / holding a snapshot of the running round / holding an expired round so that the announcement starts a new round), then the commitments of the peers in drawn order (SelfCommitment with harness nonces; peers that pre-committed a nonce through ExternalCommitments get the SelfFullCommitment the kernel queued itself; drawn repeats and surplus commitments) until the kernel builds the challenge, then the responses of the committed peers in drawn order (computed from the kernel's challenge with the peers' real keys; drawn repeats). At a drawn point (before the announcement, after it, after 1..3 peer commitments, after the threshold commitment, after 1..2 peer responses, before the last response, or never) a node pledge referencing the same last consensus operation, certified by the harness for the chain elected for pledges with a timestamp drawn before or after the proposal's, is finalized through the finalization path (recorded by reloadConsensusState). Oracle on the proposer's store afterwards: no hook call panicked or returned an error (the poll loop panics on one); without interference the proposal is finalized and its operation is the recorded last consensus operation (or the predecessor of a drawn follow-up pledge finalized afterwards); with interference the proposal's snapshot and operation are not finalized and the pledge is the recorded last operation; always, walking the recorded last operation back along References[0] reaches genesis through operations that are alone in their snapshots with strictly increasing timestamps, and every consensus operation the store holds as finalized lies on that walk (no second successor of one operation). non-trivial = interference after the announcement; distinct by drawn schedule")
	c.Require("finalized-without-interference", "interference-before-last-response", "interference-after-threshold-commitment",
		"interference-before-announcement", "interference-after-announcement", "interference-between-commitments", "interference-between-responses",
		"full-commitment-peer", "own-head-in-round")
	c.Assume("peers are honest: they commit once per nonce and respond only to the challenge the proposer built")
	kit.SetChecks(kit.N(50, 1800))
	t.Cleanup(clock.Reset)

	net := vpKNewNet(7, vpC28pTag, 4)
	custodianOf, pledgeOf, err := vpC28pElection(net)
	if err != nil {
		t.Fatalf("harness: election table: %v", err)
	}
	ms := uint64(time.Millisecond)

	rapid.Check(t, func(t *rapid.T) {
		clock.Reset()
		defer clock.Reset()
		classes := map[string]bool{}

		// ---- time and proposer
		day := rapid.IntRange(1, 9).Draw(t, "day")
		hour := rapid.SampledFrom([]int{0, 2, 5, 11, 12, 20, 23}).Draw(t, "hour")
		base := net.Epoch + uint64(day)*OneDay + uint64(hour)*uint64(time.Hour) + uint64(rapid.IntRange(1, 50).Draw(t, "minute"))*uint64(time.Minute)
		self, q := custodianOf[day], pledgeOf[day]
		if self < 0 || q < 0 || self == q {
			t.Fatalf("harness: election table day %d: custodian %d pledge %d", day, self, q)
		}
		dir := vpKTempDir("c28p")
		defer os.RemoveAll(dir)
		k, err := vpKStart(net, dir, self, nil)
		if err != nil {
			t.Fatalf("harness: start: %v", err)
		}
		defer k.Stop()
		node := k.Node
		chain := node.chain
		store := node.persistStore
		node.Peer = p2p.NewPeer(node, node.IdForNetwork, "test", false)
		if node.IdForNetwork != net.NodeIds[self] || chain == nil || chain.ChainId != node.IdForNetwork {
			t.Fatalf("harness: node identity")
		}
		if node.electSnapshotNode(common.TransactionTypeCustodianUpdateNodes, base) != node.IdForNetwork || node.electSnapshotNode(common.TransactionTypeNodePledge, base) != net.NodeIds[q] {
			t.Fatalf("harness: election table does not match the node at day %d", day)
		}
		classes[fmt.Sprintf("proposer-member-%d", self)] = true

		genesisLast, err := store.ReadLastConsensusSnapshot()
		if err != nil || genesisLast == nil || len(genesisLast.Transactions) != 1 {
			t.Fatalf("harness: last consensus snapshot after genesis: %v %v", genesisLast, err)
		}
		L := genesisLast.Transactions[0]

		// ---- schedule
		kind := rapid.SampledFrom([]string{"none", "none", "none", "before-announcement", "before-announcement", "after-announcement", "after-announcement",
			"between-commitments", "between-commitments", "after-threshold-commitment", "after-threshold-commitment", "between-responses", "between-responses",
			"before-last-response", "before-last-response"}).Draw(t, "interference")
		after := 0 // for the "between" kinds: number of accepted peer commitments / responses before the interference
		switch kind {
		case "between-commitments":
			after = rapid.IntRange(1, 3).Draw(t, "after_commitments")
		case "between-responses":
			after = rapid.IntRange(1, 2).Draw(t, "after_responses")
		}
		earlier := rapid.Bool().Draw(t, "interference_earlier")
		shift := uint64(rapid.IntRange(1, 1400).Draw(t, "interference_shift_ms")) * ms
		head := rapid.SampledFrom([]string{"empty", "empty", "in-round", "in-round", "new-round"}).Draw(t, "own_head")
		followUp := kind == "none" && rapid.Bool().Draw(t, "follow_up")
		order := rapid.Permutation([]int{0, 1, 2, 3, 4, 5}).Draw(t, "peer_order")
		respOrder := rapid.Permutation([]int{0, 1, 2, 3, 4, 5}).Draw(t, "response_order")
		repeatCommit := rapid.IntRange(0, 3).Draw(t, "repeat_commitment") == 0
		surplus := rapid.Bool().Draw(t, "surplus_commitments")
		repeatResp := rapid.IntRange(0, 3).Draw(t, "repeat_response") == 0

		// ---- ledger prefix: the funding deposits, on chains other than the pledge chain and the proposer's
		ledger := base
		seq := 0
		fund := func(amount common.Integer, label string) (*common.VersionedTransaction, int) {
			seq++
			owner := rapid.IntRange(0, 3).Draw(t, label+"_owner")
			tx := net.XINDeposit(amount, owner, fmt.Sprintf("0xc28p-%s-%d", label, seq), seq)
			var cand []int
			for i := 0; i < 7; i++ {
				if i != q && i != self {
					cand = append(cand, i)
				}
			}
			idx := rapid.SampledFrom(cand).Draw(t, label+"_chain")
			ledger += uint64(rapid.IntRange(1, 300).Draw(t, label+"_dt_ms")) * ms
			s, fin, pan, err := vpC28pDeliver(k, idx, []*common.VersionedTransaction{tx}, ledger, rapid.IntRange(0, 6).Draw(t, label+"_ext"))
			if !fin || pan != nil || err != nil {
				t.Fatalf("harness: funding deposit %s on chain %d: finalized=%v panic=%v err=%v", s.Hash, idx, fin, pan, err)
			}
			return tx, owner
		}
		opFund, opOwner := fund(common.NewInteger(uint64(rapid.IntRange(1, 9).Draw(t, "op_amount"))), "opfund")
		pledgeFund, pledgeOwner := fund(common.KernelNodePledgeAmount, "pledgefund")
		var followFund *common.VersionedTransaction
		var followOwner int
		if followUp {
			followFund, followOwner = fund(common.KernelNodePledgeAmount, "followfund")
		}

		// the announcement happens at now0 on the proposer's clock
		now0 := ledger + uint64(rapid.IntRange(2000, 4000).Draw(t, "announce_after_ms"))*ms
		switch head {
		case "in-round", "new-round":
			// the proposer's own head round holds a snapshot: of the running round, or of a round that is over
			back := uint64(rapid.IntRange(1, 1500).Draw(t, "own_head_back_ms")) * ms
			if head == "new-round" {
				back = uint64(rapid.IntRange(3000, 9000).Draw(t, "own_head_back_ms")) * ms
			}
			seq++
			tx := net.BTCDeposit(common.NewInteger(1), 0, fmt.Sprintf("0xc28p-own-%d", seq), seq)
			ts := now0 - back
			s, fin, pan, err := vpC28pDeliver(k, self, []*common.VersionedTransaction{tx}, ts, rapid.IntRange(0, 6).Draw(t, "own_ext"))
			if !fin || pan != nil || err != nil {
				t.Fatalf("harness: own head snapshot %s: finalized=%v panic=%v err=%v", s.Hash, fin, pan, err)
			}
		}
		if cr := node.getOrCreateChain(net.NodeIds[q]).State.CacheRound; len(cr.Snapshots) != 0 {
			t.Fatalf("harness: pledge chain head is not empty")
		}

		// ---- the two competing operations, both referencing L
		seq++
		op := net.CustodianUpdate(opFund, opOwner, L, seq)
		opHash := op.PayloadHash()
		joinSigner, joinPayee := vpKNodeAddr(vpKSeed(vpC28pTag, "join-signer")), vpKNodeAddr(vpKSeed(vpC28pTag, "join-payee"))
		pledge := net.NodePledge(pledgeFund, pledgeOwner, joinSigner, joinPayee, L)
		pledgeHash := pledge.PayloadHash()

		// ---- hook plumbing
		var violation string
		hook := func(what string, m *CosiAction) {
			var herr error
			if p := vpKCatch(func() { _, herr = chain.cosiHook(m) }); p != nil && violation == "" {
				violation = fmt.Sprintf("%s: chain.cosiHook panicked: %v", what, p)
			} else if herr != nil && violation == "" {
				violation = fmt.Sprintf("%s: chain.cosiHook returned %v (QueuePollSnapshots panics on it)", what, herr)
			}
		}
		var proposal *common.Snapshot // the announced snapshot, nil while not announced
		aggregator := func() *CosiAggregator {
			if proposal == nil {
				return nil
			}
			return chain.CosiAggregators[proposal.Hash]
		}
		interfered := false
		var interferenceTs uint64
		interfere := func(where string) {
			if interfered {
				return
			}
			interfered = true
			ref := now0
			if proposal != nil {
				ref = proposal.Timestamp
			}
			interferenceTs = ref + shift
			if earlier || proposal == nil {
				interferenceTs = ref - shift
			}
			// the other chain's snapshot is not from the proposer's future (the
			// kernel looks a freshly pledged node up at its own clock's time)
			if proposal != nil && clock.NowUnixNano() <= interferenceTs {
				vpC28pSetClock(interferenceTs + 20*ms)
			}
			s, fin, pan, err := vpC28pDeliver(k, q, []*common.VersionedTransaction{pledge}, interferenceTs, rapid.IntRange(0, 6).Draw(t, "pledge_ext"))
			if !fin || pan != nil || err != nil {
				t.Fatalf("harness: interfering pledge %s (%s) on chain %d at %d: finalized=%v panic=%v err=%v", s.Hash, where, q, interferenceTs, fin, pan, err)
			}
			rec, err := store.ReadLastConsensusSnapshot()
			if err != nil || rec == nil || rec.Transactions[0] != pledgeHash {
				t.Fatalf("harness: the finalized pledge is not the recorded last consensus operation (%v, %v)", rec, err)
			}
			classes["interference-"+where] = true
			if proposal != nil {
				if interferenceTs < proposal.Timestamp {
					classes["interference-timestamp-earlier-than-proposal"] = true
				} else {
					classes["interference-timestamp-later-than-proposal"] = true
				}
			}
		}

		// ---- peers
		var peers []*vpC28pPeer
		for _, o := range order {
			i := (self + 1 + o) % 7
			p := &vpC28pPeer{idx: i, id: net.NodeIds[i]}
			p.nonce = crypto.CosiCommitNonce(bytes.NewReader(vpKSeed(vpC28pTag, "nonce", i, day, hour, kind, after, fmt.Sprint(order))))
			p.R = p.nonce.Public()
			p.pre = rapid.IntRange(0, 3).Draw(t, fmt.Sprintf("precommit_%d", o)) == 0
			peers = append(peers, p)
		}
		spm := map[crypto.Hash]*p2p.SyncPoint{}
		for _, p := range peers {
			final := chain.State.FinalRound
			spm[p.id] = &p2p.SyncPoint{NodeId: node.IdForNetwork, Number: final.Number, Hash: final.Hash}
		}
		node.SyncPointsMap = spm

		// ---- the operation is queued and popped (in flight), as the cache queue loop does
		if err := store.CacheQueueTransaction(op); err != nil {
			t.Fatal(err)
		}
		popped, err := store.CacheRetrieveTransactions(100)
		if err != nil || len(popped) != 1 || popped[0].PayloadHash() != opHash {
			t.Fatalf("harness: popping the operation: %d %v", len(popped), err)
		}

		if kind == "before-announcement" {
			interfere("before-announcement")
		}

		// ---- (a) announcement
		vpC28pSetClock(now0)
		if rn := node.GetRemovingOrSlashingNode(node.IdForNetwork); rn != nil {
			t.Fatalf("harness: the elected proposer is predicted to be removed")
		}
		for _, p := range peers {
			if p.pre {
				r := p.R
				hook("pre-commitments", &CosiAction{PeerId: p.id, Action: CosiActionExternalCommitments, Commitments: []*crypto.Key{&r}})
			}
		}
		preCache, _ := chain.StateCopy()
		snap := &common.Snapshot{Version: common.SnapshotVersionCommonEncoding, NodeId: node.IdForNetwork}
		snap.AddTransaction(opHash)
		hook("announcement", &CosiAction{PeerId: node.IdForNetwork, Action: CosiActionSelfEmpty, Snapshot: snap})
		if agg := chain.CosiAggregators[snap.Hash]; snap.Hash.HasValue() && agg != nil && agg.Snapshot == snap {
			proposal = snap
			if len(snap.Transactions) != 1 || snap.Transactions[0] != opHash {
				t.Fatalf("the announced snapshot holds %v, not the operation alone", snap.Transactions)
			}
			if snap.RoundNumber > preCache.Number {
				classes["own-head-new-round"] = true
			} else if len(preCache.Snapshots) > 0 {
				classes["own-head-in-round"] = true
			} else {
				classes["own-head-empty"] = true
			}
		}
		switch {
		case proposal == nil && !interfered:
			if len(preCache.Snapshots) > 0 {
				if cft := preCache.Snapshots[0].Timestamp; head == "in-round" && snap.Timestamp > cft+config.SnapshotRoundGap*4/5 {
					// the process stalled between setting the clock and the hook
					c.Class("excluded-clock-stall")
					return
				}
			}
			if head == "new-round" && violation == "" {
				// starting a new round needs a best external round; declined announcements of this shape are C24's subject
				c.Class("excluded-new-round-declined")
				return
			}
			t.Fatalf("without interference the proposer (member %d, day %d hour %d, own head %s) did not announce its custodian update %s (hook: %q)", self, day, hour, head, opHash, violation)
		case proposal != nil && interfered:
			// announcing a stale operation is not yet accepting it: the peers play
			// along and the oracle judges what the proposer finalizes
			classes["announced-after-interference"] = true
		}
		// full commitments the kernel queued for peers that pre-committed
		queued := map[crypto.Hash]*CosiAction{}
		for m := chain.CachePool.Poll(); m != nil; m = chain.CachePool.Poll() {
			if m.Action != CosiActionSelfFullCommitment || proposal == nil || m.SnapshotHash != proposal.Hash {
				t.Fatalf("harness: unexpected queued action %d for %s", m.Action, m.SnapshotHash)
			}
			queued[m.PeerId] = m
		}
		if kind == "after-announcement" {
			interfere("after-announcement")
		}

		// ---- (b) commitments
		hash := crypto.Blake3Hash([]byte("c28p-never-announced"))
		if proposal != nil {
			hash = proposal.Hash
		}
		challenged := func() bool {
			return proposal != nil && proposal.Signature != nil
		}
		commit := func(p *vpC28pPeer) {
			m := queued[p.id]
			if m != nil {
				if m.Commitment == nil || *m.Commitment != p.R {
					t.Fatalf("harness: queued full commitment of peer %d is not its pre-committed nonce", p.idx)
				}
				classes["full-commitment-peer"] = true
			} else {
				r := p.R
				m = &CosiAction{PeerId: p.id, Action: CosiActionSelfCommitment, SnapshotHash: hash, Commitment: &r}
			}
			hook(fmt.Sprintf("commitment of peer %d", p.idx), &CosiAction{PeerId: m.PeerId, Action: m.Action, SnapshotHash: m.SnapshotHash, Commitment: m.Commitment, Snapshot: m.Snapshot})
		}
		committedPeers := 0
		for _, p := range peers {
			if challenged() && !surplus {
				break
			}
			was := challenged()
			refused := node.GetRemovingOrSlashingNode(p.id) != nil
			commit(p)
			if agg := aggregator(); agg != nil {
				for _, cn := range chain.consensusNodes(proposal.RoundNumber, proposal.Timestamp) {
					if cn.IdForNetwork == p.id && agg.Commitments[cn.ConsensusIndex] != nil && *agg.Commitments[cn.ConsensusIndex] == p.R {
						p.accepted = true
					}
				}
			}
			switch {
			case p.accepted:
				committedPeers++
				if repeatCommit && committedPeers == 1 {
					commit(p)
					classes["repeat-commitment"] = true
				}
			case was:
				classes["surplus-commitment"] = true
			case refused:
				classes["predicted-removal-peer-refused"] = true
			}
			if p.accepted && !challenged() && kind == "between-commitments" && committedPeers == after {
				interfere("between-commitments")
			}
			if !was && challenged() && kind == "after-threshold-commitment" {
				interfere("after-threshold-commitment")
			}
		}

		// ---- (c) responses to the proposer's challenge
		if challenged() {
			agg := aggregator()
			if agg == nil {
				t.Fatalf("harness: challenge without aggregator")
			}
			_, publics := chain.ConsensusKeys(proposal.RoundNumber, proposal.Timestamp)
			var responders []*vpC28pPeer
			for _, o := range respOrder {
				if p := peers[o]; p.accepted {
					responders = append(responders, p)
				}
			}
			if len(responders)+1 != len(agg.Commitments) {
				t.Fatalf("harness: %d committed peers, aggregator holds %d commitments", len(responders), len(agg.Commitments))
			}
			for n, p := range responders {
				if n == len(responders)-1 && kind == "before-last-response" {
					interfere("before-last-response")
				}
				priv := net.Signers[p.idx].PrivateSpendKey
				resp, err := p.nonce.Response(proposal.Signature, &priv, publics, proposal.Hash)
				if err != nil {
					t.Fatalf("harness: response of peer %d: %v", p.idx, err)
				}
				send := func() {
					r := *resp
					hook(fmt.Sprintf("response of peer %d", p.idx), &CosiAction{PeerId: p.id, Action: CosiActionSelfResponse, SnapshotHash: proposal.Hash, Response: &r})
				}
				send()
				p.answered = true
				if repeatResp && n == 0 && len(responders) > 1 {
					send()
					classes["repeat-response"] = true
				}
				if kind == "between-responses" && n+1 == after && n+1 < len(responders) {
					interfere("between-responses")
				}
			}
		}
		if kind != "none" && !interfered && violation == "" {
			// the exchange stopped before the drawn point (never on the unchanged
			// tree: every interference class is required)
			c.Class("excluded-point-not-reached")
			return
		}

		// ---- a later operation that follows the proposer's
		var followHash crypto.Hash
		if followUp && violation == "" && proposal != nil {
			f := net.NodePledge(followFund, followOwner, joinSigner, joinPayee, opHash)
			followHash = f.PayloadHash()
			if clock.NowUnixNano() <= proposal.Timestamp+shift {
				vpC28pSetClock(proposal.Timestamp + shift + 20*ms)
			}
			s, fin, pan, err := vpC28pDeliver(k, q, []*common.VersionedTransaction{f}, proposal.Timestamp+shift, rapid.IntRange(0, 6).Draw(t, "follow_ext"))
			if back, _ := store.ReadSnapshot(proposal.Hash); back != nil && (!fin || pan != nil || err != nil) {
				t.Fatalf("a pledge %s referencing the proposer's finalized operation %s, later than it, was not finalized: finalized=%v panic=%v err=%v", s.Hash, opHash, fin, pan, err)
			}
			classes["follow-up-operation"] = true
		}
		clock.Reset()

		// ---- oracle
		desc := fmt.Sprintf("member %d, day %d hour %d, own head %s, interference %s/%d (earlier %v, shift %dms)", self, day, hour, head, kind, after, earlier, shift/ms)
		if violation != "" {
			state := "never announced"
			if proposal != nil {
				back, _ := store.ReadSnapshot(proposal.Hash)
				state = fmt.Sprintf("proposal %s persisted as finalized: %v", proposal.Hash, back != nil)
			}
			rec, _ := store.ReadLastConsensusSnapshot()
			t.Fatalf("%s: %s (%s; operation %s references %s; interfering pledge %s recorded: %v; recorded last consensus snapshot %v)", desc, violation, state, opHash, L, pledgeHash, interfered, rec)
		}
		last, err := store.ReadLastConsensusSnapshot()
		if err != nil || last == nil || len(last.Transactions) != 1 {
			t.Fatalf("%s: recorded last consensus snapshot unreadable: %v %v", desc, last, err)
		}
		finalizedIn := func(h crypto.Hash) string {
			_, in, err := store.ReadTransaction(h)
			if err != nil {
				t.Fatal(err)
			}
			return in
		}
		var mine *common.SnapshotWithTopologicalOrder
		if proposal != nil {
			if mine, err = store.ReadSnapshot(proposal.Hash); err != nil {
				t.Fatal(err)
			}
		}
		if interfered {
			if mine != nil || finalizedIn(opHash) != "" {
				t.Fatalf("%s: the proposer finalized its custodian update %s (snapshot %s at %d, finalized in %q) although the pledge %s at %d had been recorded as the successor of %s before the proposer's last response",
					desc, opHash, hash, snap.Timestamp, finalizedIn(opHash), pledgeHash, interferenceTs, L)
			}
			if last.Transactions[0] != pledgeHash {
				t.Fatalf("%s: the recorded last consensus operation is %s, expected the pledge %s", desc, last.Transactions[0], pledgeHash)
			}
		} else {
			if mine == nil || finalizedIn(opHash) != proposal.Hash.String() {
				t.Fatalf("%s: without interference the proposer did not finalize its custodian update %s (snapshot %s readable %v, operation finalized in %q)", desc, opHash, proposal.Hash, mine != nil, finalizedIn(opHash))
			}
			want := opHash
			if followHash.HasValue() {
				want = followHash
			}
			if last.Transactions[0] != want {
				t.Fatalf("%s: the recorded last consensus operation is %s, expected %s", desc, last.Transactions[0], want)
			}
			classes["finalized-without-interference"] = true
		}
		ops, werr := vpC28pWalk(node)
		if werr != nil {
			t.Fatalf("%s: recorded consensus history is not one chain: %v", desc, werr)
		}
		onWalk := map[crypto.Hash]bool{}
		for _, o := range ops {
			if onWalk[o.Tx] {
				t.Fatalf("%s: consensus operation %s twice in the recorded history", desc, o.Tx)
			}
			onWalk[o.Tx] = true
		}
		known := 0
		for _, h := range []crypto.Hash{opHash, pledgeHash, followHash} {
			if !h.HasValue() || finalizedIn(h) == "" {
				continue
			}
			known++
			if !onWalk[h] {
				t.Fatalf("%s: consensus operation %s is finalized (in %s) but is not part of the recorded chain ending at %s: two successors of one operation", desc, h, finalizedIn(h), last.Transactions[0])
			}
		}
		if len(ops) != known+1 || ops[len(ops)-1].Tx != L {
			t.Fatalf("%s: recorded consensus history has %d operations ending at %s, expected %d ending at the genesis operation %s", desc, len(ops), ops[len(ops)-1].Tx, known+1, L)
		}
		classes[fmt.Sprintf("history-length-%d", len(ops))] = true

		var cl []string
		for name := range classes {
			cl = append(cl, name)
		}
		sort.Strings(cl)
		nontrivial := interfered && proposal != nil
		c.Case(fmt.Sprint(self, day, hour, base, head, kind, after, earlier, shift, order, respOrder, repeatCommit, surplus, repeatResp, followUp, cl), nontrivial, cl...)
		answered := 0
		for _, p := range peers {
			if p.answered {
				answered++
			}
		}
		c.Sample(map[string]any{"proposer": self, "pledge_chain": q, "day": day, "hour": hour, "own_head": head, "interference": kind, "after": after,
			"announced": proposal != nil, "peer_commitments_accepted": committedPeers, "peer_responses_sent": answered, "proposal_finalized": mine != nil,
			"history": len(ops), "classes": cl})
	})
}
