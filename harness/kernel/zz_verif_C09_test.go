//go:build verif

package kernel

// C09 — a snapshot is final only with a threshold certificate from historical keys.
//
// verifyFinalization must answer "finalized" exactly when an independent
// verifier (own point aggregation and Schnorr equation on filippo.io/edwards25519)
// accepts the certificate against the consensus key vector and threshold at the
// snapshot's timestamp; signers are the ids at the masked positions; repeated
// (memoized) queries answer identically.

import (
	"bytes"
	"crypto/sha512"
	"encoding/binary"
	"fmt"
	"math/bits"
	"testing"

	"filippo.io/edwards25519"
	"github.com/MixinNetwork/mixin/common"
	"github.com/MixinNetwork/mixin/config"
	"github.com/MixinNetwork/mixin/crypto"
	"pgregory.net/rapid"
	kit "verifkit"
)

// vpC09Verify is the independent certificate verifier.
func vpC09Verify(keys []*crypto.Key, threshold int, msg crypto.Hash, sig crypto.Signature, mask uint64) bool {
	if threshold <= 0 || bits.OnesCount64(mask) < threshold || mask == 0 {
		return false
	}
	A := edwards25519.NewIdentityPoint()
	for i := 0; i < 64; i++ {
		if mask&(uint64(1)<<uint(i)) == 0 {
			continue
		}
		if i >= len(keys) {
			return false
		}
		p, err := new(edwards25519.Point).SetBytes(keys[i][:])
		if err != nil || !bytes.Equal(p.Bytes(), keys[i][:]) {
			return false
		}
		A.Add(A, p)
	}
	R, err := new(edwards25519.Point).SetBytes(sig[:32])
	if err != nil || !bytes.Equal(R.Bytes(), sig[:32]) {
		return false
	}
	s, err := new(edwards25519.Scalar).SetCanonicalBytes(sig[32:])
	if err != nil {
		return false
	}
	h := sha512.New()
	h.Write(sig[:32])
	h.Write(A.Bytes())
	h.Write(msg[:])
	k, err := new(edwards25519.Scalar).SetUniformBytes(h.Sum(nil))
	if err != nil {
		return false
	}
	// s*B == R + k*A
	left := new(edwards25519.Point).ScalarBaseMult(s)
	right := new(edwards25519.Point).ScalarMult(k, A)
	right.Add(right, R)
	return left.Equal(right) == 1
}

// vpC09Sign produces a certificate with the real CoSi API: commit, aggregate
// commitments, respond, aggregate responses (strict). Nonces come from seed.
func vpC09Sign(publics []*crypto.Key, privs []*crypto.Key, positions []int, msg crypto.Hash, seed []byte) (*crypto.CosiSignature, error) {
	nonces := make(map[int]*crypto.CosiNonce, len(positions))
	commitments := make(map[int]*crypto.Key, len(positions))
	for _, i := range positions {
		b := append(append([]byte{}, seed...), binary.BigEndian.AppendUint64(nil, uint64(i))...)
		d := sha512.Sum512(b)
		nonce := crypto.CosiCommitNonce(bytes.NewReader(d[:]))
		pub := nonce.Public()
		nonces[i] = nonce
		commitments[i] = &pub
	}
	sig, err := crypto.CosiAggregateCommitment(commitments)
	if err != nil {
		return nil, err
	}
	responses := make(map[int]*[32]byte, len(positions))
	for _, i := range positions {
		r, err := nonces[i].Response(sig, privs[i], publics, msg)
		if err != nil {
			return nil, err
		}
		responses[i] = r
	}
	if err := sig.AggregateResponse(publics, responses, msg, true); err != nil {
		return nil, err
	}
	return sig, nil
}

func vpC09MaskBits(mask uint64) []int {
	var out []int
	for i := 0; i < 64; i++ {
		if mask&(uint64(1)<<uint(i)) != 0 {
			out = append(out, i)
		}
	}
	return out
}

type vpC09Target struct {
	name  string
	h     *vpKMHist
	recs  []*CNode // sorted
	node  *Node
	plg   *CNode // current pledging node of that history (nil if none)
	accId crypto.Hash
}

func vpC09NewTarget(name string, h *vpKMHist, recs []*CNode, cacheNode *Node) *vpC09Target {
	t := &vpC09Target{name: name, h: h, recs: vpKMSortRecords(recs)}
	t.node = vpKMNewNode(h, recs, cacheNode.cacheStore)
	for _, r := range vpKMModelList(t.recs, ^uint64(0)) {
		if r.State == common.NodeStatePledging {
			t.plg = r
		}
	}
	t.accId = t.recs[0].IdForNetwork
	return t
}

func (t *vpC09Target) chain(pledging bool) *Chain {
	return t.chainFor(pledging, t.accId)
}

// chainFor: the pledging node's own chain, or the (state-carrying) chain of id.
func (t *vpC09Target) chainFor(pledging bool, id crypto.Hash) *Chain {
	if pledging && t.plg != nil {
		return vpKMChain(t.node, t.plg.IdForNetwork, t.plg)
	}
	return vpKMChain(t.node, id, nil)
}

type vpC09Query struct {
	label    string
	target   *vpC09Target
	pledging bool
	snap     *common.Snapshot
	// filled at first evaluation
	asked    int
	first    bool
	firstIds []crypto.Hash
}

func TestVP_C09_finalization(t *testing.T) {
	c := kit.New(t, "C09", "rapid: G-membership histories with real keys (7..10 genesis quick / ..24 thorough, 0..8 lifecycle operations, removals below 7 allowed), non-mainnet id; per history 6 base queries: chain (accepted, or the pledging node with round 0), snapshot timestamp from the boundary set, signer subset of size {T-1,T,T+1,n,1,random} of the key vector the code reports at the signing (history, time), honest certificate through the real CoSi API with drawn nonce seeds; twins: mask bit added/removed/moved/>=n, R or s bit flip, snapshot field edit, replay on another snapshot, verification on another history (prefix, extra removal, extra fresh accept) or with keys of another time; every query asked 1..4 times in mixed order with cache Wait() in between; oracle = independent edwards25519 verifier + reference key vector; non-trivial = accepted honest certificate on a history with non-genesis records, or a tampered twin; distinct by snapshot hash+signature+mask+target")
	c.Require("honest-accepted", "honest-below-threshold", "exact-threshold", "mask-added", "mask-removed", "mask-moved", "mask-bit>=n", "sig-R-flip", "sig-s-flip",
		"snapshot-edit", "replay-other-snapshot", "other-history", "other-history-accepted", "other-time-keys", "cache-hit", "cache-miss", "pledging-chain-round0", "non-genesis-history",
		"removal-window", "threshold-unreachable", "no-signature", "accepted-chain-round0", "legacy-vector-cert", "legacy-retry-accepted", "legacy-retry-refused")
	kit.SetChecks(kit.N(800, 20000))
	cache := vpKMNewCache()
	defer cache.Close()
	maxG := 10
	if kit.Thorough() {
		maxG = 24
	}
	rapid.Check(t, func(rt *rapid.T) {
		// one history in four lives on the mainnet id with all its records before the
		// signer-set fork (epoch 100 days before it): there a certificate that fails
		// against the key set at its timestamp is retried against the key set and
		// threshold from just before the day's node-operation window (legacy rule)
		epoch, network := vpKMEpochDefault, vpKMNetwork("c09")
		mainnet := rapid.IntRange(0, 3).Draw(rt, "mainnet") == 0
		if mainnet {
			network = vpKMMainnet()
			epoch = mainnetConsensusNodeRemovalSignerSetForkAt - 100*vpKMDay - uint64(config.KernelNodeAcceptTimeBegin)*vpKMHour
		}
		h := vpKMGenHist(rt, vpKMOpts{Epoch: epoch, Network: network, MinGenesis: 7, MaxGenesis: maxG, MaxOps: 8, RealKeys: true, AllowBelow7: true, ValidBias: 60})
		// legacyTime: for a mainnet pre-fork timestamp inside the operation window, the
		// instant just before that day's window (0 otherwise)
		legacyTime := func(ts uint64) uint64 {
			if !mainnet || ts < h.Epoch || ts >= mainnetConsensusNodeRemovalSignerSetForkAt {
				return 0
			}
			hour := (ts - h.Epoch) / vpKMHour % 24
			if hour < uint64(config.KernelNodeAcceptTimeBegin) || hour > uint64(config.KernelNodeAcceptTimeEnd) {
				return 0
			}
			return ts - (hour+1-uint64(config.KernelNodeAcceptTimeBegin))*vpKMHour
		}
		holder := &Node{cacheStore: cache}
		main := vpC09NewTarget("main", h, h.Records, holder)
		targets := []*vpC09Target{main}
		seed := rapid.SliceOfN(rapid.Byte(), 32, 32).Draw(rt, "nonce_seed")
		var queries []*vpC09Query
		var lastSig *crypto.CosiSignature

		addQuery := func(label string, tg *vpC09Target, pledging bool, snap *common.Snapshot) {
			queries = append(queries, &vpC09Query{label: label, target: tg, pledging: pledging, snap: snap})
		}
		mkSnap := func(nodeId crypto.Hash, round, ts uint64, tag string) *common.Snapshot {
			s := &common.Snapshot{Version: common.SnapshotVersionCommonEncoding, NodeId: nodeId, RoundNumber: round, Timestamp: ts,
				Transactions: []crypto.Hash{crypto.Blake3Hash(append([]byte(tag), seed...))}}
			s.Hash = s.PayloadHash()
			return s
		}
		withSig := func(s *common.Snapshot, sig crypto.Signature, mask uint64) *common.Snapshot {
			cp := *s
			cp.Signature = &crypto.CosiSignature{Signature: sig, Mask: mask}
			return &cp
		}

		for qi := 0; qi < 6; qi++ {
			lbl := fmt.Sprintf("q%d", qi)
			ts := vpKMDrawTime(rt, h, lbl)
			pledging := main.plg != nil && rapid.IntRange(0, 2).Draw(rt, lbl+"_plg") > 0
			round := uint64(1 + rapid.IntRange(0, 3).Draw(rt, lbl+"_round"))
			if pledging && rapid.IntRange(0, 4).Draw(rt, lbl+"_r0") > 0 {
				round = 0
			} else if !pledging && rapid.IntRange(0, 5).Draw(rt, lbl+"_r0acc") == 0 {
				round = 0
			}
			// signing side: usually the same history and time
			signT, signTs := main, ts
			if rapid.IntRange(0, 7).Draw(rt, lbl+"_othertime") == 0 {
				signTs = vpKMDrawTime(rt, h, lbl+"_signts")
			}
			// the chain the snapshot sits on: usually the first genesis node's, or any
			// other node of the history (freshly accepted ones included)
			accId := main.accId
			if rapid.IntRange(0, 2).Draw(rt, lbl+"_anychain") == 0 {
				accId = main.recs[rapid.IntRange(0, len(main.recs)-1).Draw(rt, lbl+"_chainrec")].IdForNetwork
			}
			if lt := legacyTime(ts); lt != 0 && rapid.Bool().Draw(rt, lbl+"_legacysign") {
				// a certificate made on the key set from before the window
				signTs = lt
				c.Class("legacy-vector-cert")
			}
			chain := signT.chainFor(pledging, accId)
			if !pledging && round == 0 {
				c.Class("accepted-chain-round0")
			}
			snap := mkSnap(chain.ChainId, round, ts, lbl)
			_, signKeys := chain.ConsensusKeys(round, signTs)
			signIds, _ := chain.ConsensusKeys(round, signTs)
			T := main.node.ConsensusThreshold(ts, true)
			n := len(signKeys)
			if ts < h.Epoch {
				c.Class("before-epoch")
			}
			if n == 0 {
				// nothing can sign: a forged certificate must be refused
				var forged crypto.Signature
				copy(forged[:], seed)
				copy(forged[32:], seed)
				forged[63] &= 0x0f
				addQuery("forged-empty-keyset", main, pledging, withSig(snap, forged, 1+uint64(rapid.IntRange(0, 1000).Draw(rt, lbl+"_fmask"))))
				continue
			}
			var k int
			switch rapid.IntRange(0, 6).Draw(rt, lbl+"_size") {
			case 0:
				k = T - 1
			case 1, 2:
				k = T
			case 3:
				k = T + 1
			case 4:
				k = n
			case 5:
				k = 1
			default:
				k = rapid.IntRange(1, n).Draw(rt, lbl+"_k")
			}
			if k > n {
				k = n
			}
			if k < 1 {
				k = 1
			}
			perm := rapid.Permutation(vpC09Range(n)).Draw(rt, lbl+"_perm")
			positions := append([]int{}, perm[:k]...)
			privs := make([]*crypto.Key, n)
			for i, id := range signIds {
				privs[i] = h.Privs[id]
			}
			sig, err := vpC09Sign(signKeys, privs, positions, snap.Hash, append(append([]byte{}, seed...), byte(qi)))
			if err != nil {
				rt.Fatalf("honest CoSi signing failed: %v", err)
			}
			honest := withSig(snap, sig.Signature, sig.Mask)
			hl := "honest"
			if signTs != ts {
				hl = "other-time-keys"
			}
			addQuery(hl, main, pledging, honest)

			// tampered twins
			nt := rapid.IntRange(1, 3).Draw(rt, lbl+"_twins")
			for j := 0; j < nt; j++ {
				tl := fmt.Sprintf("%s_t%d", lbl, j)
				switch rapid.IntRange(0, 9).Draw(rt, tl+"_kind") {
				case 0: // mask bit added (< n)
					if k < n {
						addQuery("mask-added", main, pledging, withSig(snap, sig.Signature, sig.Mask|uint64(1)<<uint(perm[k])))
					}
				case 1: // mask bit >= n
					b := n + rapid.IntRange(0, 63-n).Draw(rt, tl+"_hi")
					addQuery("mask-bit>=n", main, pledging, withSig(snap, sig.Signature, sig.Mask|uint64(1)<<uint(b)))
				case 2: // removed
					if k > 1 {
						addQuery("mask-removed", main, pledging, withSig(snap, sig.Signature, sig.Mask&^(uint64(1)<<uint(positions[0]))))
					}
				case 3: // moved (same popcount)
					if k < n {
						m := sig.Mask&^(uint64(1)<<uint(positions[0])) | uint64(1)<<uint(perm[k])
						addQuery("mask-moved", main, pledging, withSig(snap, sig.Signature, m))
					}
				case 4:
					f := sig.Signature
					bit := rapid.IntRange(0, 255).Draw(rt, tl+"_bit")
					f[bit/8] ^= 1 << uint(bit%8)
					addQuery("sig-R-flip", main, pledging, withSig(snap, f, sig.Mask))
				case 5:
					f := sig.Signature
					bit := rapid.IntRange(0, 255).Draw(rt, tl+"_bit")
					f[32+bit/8] ^= 1 << uint(bit%8)
					addQuery("sig-s-flip", main, pledging, withSig(snap, f, sig.Mask))
				case 6: // snapshot field edit: the hash changes, the certificate stays
					ed := *snap
					switch rapid.IntRange(0, 3).Draw(rt, tl+"_field") {
					case 0:
						ed.Timestamp = ts + 1
					case 1:
						ed.Transactions = []crypto.Hash{crypto.Blake3Hash([]byte(tl))}
					case 2:
						ed.RoundNumber = round + 1
					default:
						ed.References = &common.RoundLink{Self: crypto.Blake3Hash([]byte("s" + tl)), External: crypto.Blake3Hash([]byte("e" + tl))}
					}
					ed.Hash = ed.PayloadHash()
					addQuery("snapshot-edit", main, pledging, withSig(&ed, sig.Signature, sig.Mask))
				case 7: // a certificate of another snapshot replayed here
					if lastSig != nil {
						addQuery("replay-other-snapshot", main, pledging, withSig(snap, lastSig.Signature, lastSig.Mask))
					}
				default: // the same certificate judged on another history
					var alt []*CNode
					kind := rapid.IntRange(0, 2).Draw(rt, tl+"_alt")
					switch kind {
					case 0: // a prefix of the history (at least the genesis)
						cut := rapid.IntRange(len(h.Genesis), len(main.recs)).Draw(rt, tl+"_cut")
						alt = append(alt, main.recs[:cut]...)
					case 1: // an accepted node removed shortly before ts
						alt = append(alt, main.recs...)
						m := vpKMModel(h, main.recs, ts)
						if len(m.Accepted) > 0 && ts > h.Epoch+10 {
							victim := m.Accepted[rapid.IntRange(0, len(m.Accepted)-1).Draw(rt, tl+"_victim")]
							rmTs := ts - uint64(rapid.IntRange(1, 5).Draw(rt, tl+"_rmago"))
							if rmTs > victim.Timestamp {
								cp := *victim
								cp.State, cp.Timestamp = common.NodeStateRemoved, rmTs
								cp.Transaction = vpKMTxHash(cp.IdForNetwork, cp.State, rmTs)
								alt = append(alt, &cp)
							}
						}
					default: // one more node accepted 30 s .. 12 h before ts: same keys, larger threshold base
						alt = append(alt, main.recs...)
						age := uint64(rapid.IntRange(31, 43000).Draw(rt, tl+"_age")) * vpKMSecond
						if ts > h.Epoch+age+vpKMDay {
							sh := vpKMNewHist(h.Epoch, h.Network, h.Salt^uint64(0xa5a5+qi*16+j), false)
							p := sh.Pledge(ts - age - 13*vpKMHour)
							sh.Follow(p, common.NodeStateAccepted, ts-age)
							alt = append(alt, sh.Records...)
						}
					}
					tg := vpC09NewTarget(fmt.Sprintf("alt%d", len(targets)), h, alt, holder)
					targets = append(targets, tg)
					addQuery("other-history", tg, pledging && tg.plg != nil && main.plg != nil && tg.plg.IdForNetwork == main.plg.IdForNetwork, honest)
				}
			}
			lastSig = sig
		}
		// degenerate certificates
		if len(queries) > 0 && rapid.IntRange(0, 3).Draw(rt, "degenerate") == 0 {
			base := queries[0].snap
			cp := *base
			cp.Signature = nil
			addQuery("no-signature", main, false, &cp)
			cp2 := *base
			cp2.Signature = &crypto.CosiSignature{Signature: base.Signature.Signature, Mask: 0}
			addQuery("no-signature", main, false, &cp2)
		}

		// ask every query 1..4 times in mixed order
		var order []int
		for i := range queries {
			reps := rapid.IntRange(1, 4).Draw(rt, "reps")
			for r := 0; r < reps; r++ {
				order = append(order, i)
			}
		}
		// keep the first occurrence order (honest before its twins) for half of the
		// histories, a drawn permutation for the others
		if rapid.IntRange(0, 1).Draw(rt, "shuffle") == 1 {
			p := rapid.Permutation(order).Draw(rt, "order")
			order = p
		} else {
			var again []int
			seen := make(map[int]bool)
			var firsts []int
			for _, i := range order {
				if !seen[i] {
					seen[i] = true
					firsts = append(firsts, i)
				} else {
					again = append(again, i)
				}
			}
			order = append(firsts, again...)
		}
		for _, qi := range order {
			q := queries[qi]
			if rapid.IntRange(0, 2).Draw(rt, "wait") > 0 {
				cache.Wait()
			}
			tg := q.target
			s := q.snap
			chain := tg.chainFor(q.pledging, s.NodeId)
			hits0 := cache.Metrics.Hits()
			gotIds, got := chain.verifyFinalization(s)
			hit := cache.Metrics.Hits() > hits0

			// oracle
			want := false
			var wantIds []crypto.Hash
			var keys []*crypto.Key
			var cids []crypto.Hash
			T := 0
			if s.Signature != nil && s.Signature.Mask != 0 && s.Timestamp >= h.Epoch {
				cids, keys = chain.ConsensusKeys(s.RoundNumber, s.Timestamp)
				T = tg.node.ConsensusThreshold(s.Timestamp, true)
				want = vpC09Verify(keys, T, s.Hash, s.Signature.Signature, s.Signature.Mask)
				if want {
					for _, b := range vpC09MaskBits(s.Signature.Mask) {
						wantIds = append(wantIds, cids[b])
					}
				}
				if lt := legacyTime(s.Timestamp); !want && lt != 0 {
					// legacy rule (mainnet before the fork, inside the window): retried
					// against the pre-window key set with the pre-window threshold, only
					// when that key set is larger
					lids, lkeys := chain.ConsensusKeys(s.RoundNumber, lt)
					if len(lkeys) > len(keys) {
						LT := tg.node.ConsensusThreshold(lt, true)
						if vpC09Verify(lkeys, LT, s.Hash, s.Signature.Signature, s.Signature.Mask) {
							want = true
							wantIds = nil
							for _, b := range vpC09MaskBits(s.Signature.Mask) {
								wantIds = append(wantIds, lids[b])
							}
							c.Class("legacy-retry-accepted")
						} else {
							c.Class("legacy-retry-refused")
						}
					}
				}
				// reference key vector: matured (12 h) accepted nodes in age order, without the
				// predictable removal candidate, plus the pledging signer on its own round 0
				m := vpKMModel(h, tg.recs, s.Timestamp)
				ref := vpKMIdsOf(m.Ready)
				if chain.IsPledging() && s.RoundNumber == 0 {
					ref = append(ref, chain.ChainId)
				}
				// reference certificate threshold: more than two thirds of the accepted
				// members counted at this time (genesis, or accepted more than the
				// 30 s reference maturity ago, without the predictable removal
				// candidate); a smaller threshold would let fewer members finalize
				if m.Mature30s >= config.KernelMinimumNodesCount {
					if tref := m.Mature30s*2/3 + 1; T < tref {
						rt.Fatalf("certificate threshold at epoch+%d on %s is %d, reference %d (counted members %d)\nops=%v", int64(s.Timestamp-h.Epoch), tg.name, T, tref, m.Mature30s, h.Ops)
					}
				} else if T <= 64 {
					rt.Fatalf("certificate threshold at epoch+%d on %s is %d although only %d members count (minimum %d)\nops=%v", int64(s.Timestamp-h.Epoch), tg.name, T, m.Mature30s, config.KernelMinimumNodesCount, h.Ops)
				}
				if fmt.Sprint(ref) != fmt.Sprint(cids) {
					rt.Fatalf("consensus key vector at epoch+%d on %s differs from the reference:\n code=%v\n ref =%v\nops=%v", int64(s.Timestamp-h.Epoch), tg.name, cids, ref, h.Ops)
				}
			}
			if got != want {
				rt.Fatalf("%s on %s: verifyFinalization=%t, independent verifier=%t (ts=epoch+%d round=%d pledging=%t n=%d T=%d mask=%b cacheHit=%t asked=%d)\nops=%v",
					q.label, tg.name, got, want, int64(s.Timestamp-h.Epoch), s.RoundNumber, q.pledging, len(keys), T, vpC09Mask(s), hit, q.asked, h.Ops)
			}
			if got && fmt.Sprint(gotIds) != fmt.Sprint(wantIds) {
				rt.Fatalf("%s: signers %v, want ids at masked positions %v", q.label, gotIds, wantIds)
			}
			if q.asked > 0 && (got != q.first || fmt.Sprint(gotIds) != fmt.Sprint(q.firstIds)) {
				rt.Fatalf("%s: repeated query answered (%t,%v), first answer (%t,%v) (cacheHit=%t)", q.label, got, gotIds, q.first, q.firstIds, hit)
			}
			if q.asked == 0 {
				q.first, q.firstIds = got, gotIds
			}
			q.asked++

			classes := []string{q.label}
			if hit {
				classes = append(classes, "cache-hit")
			} else {
				classes = append(classes, "cache-miss")
			}
			nonGenesis := len(tg.recs) > len(h.Genesis)
			if nonGenesis {
				classes = append(classes, "non-genesis-history")
			}
			if q.label == "honest" {
				if got {
					classes = append(classes, "honest-accepted")
					if bits.OnesCount64(s.Signature.Mask) == T {
						classes = append(classes, "exact-threshold")
					}
				} else if s.Timestamp < h.Epoch {
					classes = append(classes, "before-epoch-rejected")
				} else if bits.OnesCount64(s.Signature.Mask) < T {
					classes = append(classes, "honest-below-threshold")
				} else {
					rt.Fatalf("honest certificate with %d >= T=%d signers rejected", bits.OnesCount64(s.Signature.Mask), T)
				}
			}
			if q.label == "other-history" && got {
				classes = append(classes, "other-history-accepted")
			}
			if chain.IsPledging() && s.RoundNumber == 0 {
				classes = append(classes, "pledging-chain-round0")
			}
			if T > len(keys) && T != 0 {
				classes = append(classes, "threshold-unreachable")
			}
			if s.Timestamp >= h.Epoch {
				if m := vpKMModel(h, tg.recs, s.Timestamp); m.Removing != nil {
					classes = append(classes, "removal-window")
				}
			}
			tampered := q.label != "honest"
			fp := fmt.Sprintf("%s|%x|%x|%s", s.Hash, vpC09SigBytes(s), vpC09Mask(s), tg.name)
			c.Case(fp, tampered || (got && nonGenesis), classes...)
		}
		if len(h.Records) < 11 {
			c.Sample(map[string]any{"ops": h.Ops, "queries": len(queries)})
		}
	})
	c.Set("cache_hits", cache.Metrics.Hits())
	c.Set("cache_misses", cache.Metrics.Misses())
	_ = config.KernelMinimumNodesCount
}

func vpC09Range(n int) []int {
	out := make([]int, n)
	for i := range out {
		out[i] = i
	}
	return out
}

func vpC09Mask(s *common.Snapshot) uint64 {
	if s.Signature == nil {
		return 0
	}
	return s.Signature.Mask
}

func vpC09SigBytes(s *common.Snapshot) []byte {
	if s.Signature == nil {
		return nil
	}
	return s.Signature.Signature[:8]
}
