//go:build verif

package kernel

import (
	"encoding/binary"
	"fmt"
	"strings"
	"testing"

	"github.com/MixinNetwork/mixin/common"
	"github.com/MixinNetwork/mixin/config"
	"github.com/MixinNetwork/mixin/crypto"
	"pgregory.net/rapid"
	kit "verifkit"
)

// C19: whatever sequence of candidates is offered to a live round through
// validateSnapshot(s, true), the accepted list keeps pairwise distinct hashes,
// timestamps and transactions, stays inside one day and spans strictly less than
// the round gap, so Gap() and asFinal() (ComputeRoundHash) never hit their
// closing assertion. Rejections are always allowed (no completeness demand).

func vpC19Hash(tag string, n uint64) crypto.Hash {
	var b [8]byte
	binary.BigEndian.PutUint64(b[:], n)
	return crypto.Blake3Hash(append([]byte("vpC19-"+tag+"-"), b[:]...))
}

// vpC19Catch runs f and reports a panic as a string ("" when f returned).
func vpC19Catch(f func()) (msg string) {
	defer func() {
		if r := recover(); r != nil {
			msg = fmt.Sprintf("panic: %v", r)
		}
	}()
	f()
	return ""
}

// vpC19Invariants checks the property's invariants on the live accepted list.
func vpC19Invariants(list []*common.Snapshot) error {
	gap := config.SnapshotRoundGap
	if len(list) == 0 {
		return nil
	}
	minT, maxT := list[0].Timestamp, list[0].Timestamp
	for i, a := range list {
		if a.Timestamp < minT {
			minT = a.Timestamp
		}
		if a.Timestamp > maxT {
			maxT = a.Timestamp
		}
		if a.Timestamp/OneDay != list[0].Timestamp/OneDay {
			return fmt.Errorf("accepted snapshots on two days: %d and %d", list[0].Timestamp, a.Timestamp)
		}
		for j := i + 1; j < len(list); j++ {
			b := list[j]
			if a.Hash == b.Hash {
				return fmt.Errorf("two accepted snapshots share hash %s (ts %d, %d)", a.Hash, a.Timestamp, b.Timestamp)
			}
			if a.Timestamp == b.Timestamp {
				return fmt.Errorf("two accepted snapshots share timestamp %d", a.Timestamp)
			}
			for _, x := range a.Transactions {
				for _, y := range b.Transactions {
					if x == y {
						return fmt.Errorf("transaction %s accepted twice (ts %d and %d)", x, a.Timestamp, b.Timestamp)
					}
				}
			}
		}
	}
	if maxT-minT >= gap {
		return fmt.Errorf("accepted round spans %d >= gap %d (start %d end %d)", maxT-minT, gap, minT, maxT)
	}
	return nil
}

type vpC19Machine struct {
	cache    *CacheRound
	base     uint64
	boundary uint64 // first day boundary strictly above base
	offered  []*common.Snapshot
	txPool   []crypto.Hash
	fresh    uint64
	accepted int
	rejected int
	closes   int
	classes  map[string]int
}

func (m *vpC19Machine) drawTimestamp(t *rapid.T) (uint64, string) {
	gap := int64(config.SnapshotRoundGap)
	anchors := []uint64{m.base}
	names := []string{"base"}
	if n := len(m.cache.Snapshots); n > 0 {
		mn, mx := m.cache.Snapshots[0].Timestamp, m.cache.Snapshots[0].Timestamp
		for _, s := range m.cache.Snapshots {
			if s.Timestamp < mn {
				mn = s.Timestamp
			}
			if s.Timestamp > mx {
				mx = s.Timestamp
			}
		}
		anchors = append(anchors, mn, mx)
		names = append(names, "start", "end")
	}
	if len(m.offered) > 0 {
		o := m.offered[rapid.IntRange(0, len(m.offered)-1).Draw(t, "anchor_offer")]
		anchors = append(anchors, o.Timestamp)
		names = append(names, "offered")
	}
	anchors = append(anchors, m.boundary)
	names = append(names, "day")
	ai := rapid.IntRange(0, len(anchors)-1).Draw(t, "anchor")
	deltas := []int64{0, 1, -1, gap - 1, gap, gap + 1, -(gap - 1), -gap, -(gap + 1), 2, -2, gap / 2, -gap / 2}
	di := rapid.IntRange(0, len(deltas)+1).Draw(t, "delta")
	var d int64
	cls := "near-" + names[ai]
	switch {
	case di < len(deltas):
		d = deltas[di]
		switch {
		case d == gap || d == -gap:
			cls = names[ai] + "±gap"
		case d == gap-1 || d == -(gap-1):
			cls = names[ai] + "±(gap-1)"
		case d == gap+1 || d == -(gap+1):
			cls = names[ai] + "±(gap+1)"
		}
	case di == len(deltas):
		d = rapid.Int64Range(-2*gap, 2*gap).Draw(t, "noise")
	default:
		d = rapid.Int64Range(-1000, 1000).Draw(t, "small_noise")
	}
	ts := int64(anchors[ai]) + d
	if ts < 1 {
		ts = 1
	}
	return uint64(ts), cls
}

func (m *vpC19Machine) drawSnapshot(t *rapid.T) (*common.Snapshot, string) {
	kind := rapid.IntRange(0, 9).Draw(t, "kind")
	if kind == 0 && len(m.offered) > 0 {
		// the very same snapshot again (same hash, timestamp, transactions)
		o := m.offered[rapid.IntRange(0, len(m.offered)-1).Draw(t, "again")]
		cp := *o
		cp.Transactions = append([]crypto.Hash{}, o.Transactions...)
		m.classes["offer:repeat-identical"]++
		return &cp, "repeat-identical"
	}
	ts, cls := m.drawTimestamp(t)
	s := &common.Snapshot{
		Version:     common.SnapshotVersionCommonEncoding,
		NodeId:      m.cache.NodeId,
		RoundNumber: m.cache.Number,
		Timestamp:   ts,
	}
	if m.cache.Number > 0 {
		s.References = m.cache.References
	}
	ntx := 1
	if m.cache.Number > 0 {
		ntx = rapid.SampledFrom([]int{1, 1, 1, 2, 3, 5}).Draw(t, "ntx")
	}
	seen := map[crypto.Hash]bool{}
	overlap := false
	for len(s.Transactions) < ntx {
		var h crypto.Hash
		if rapid.IntRange(0, 3).Draw(t, "tx_from_pool") == 0 && len(m.txPool) > 0 {
			h = m.txPool[rapid.IntRange(0, len(m.txPool)-1).Draw(t, "tx_pool_i")]
			overlap = true
		} else {
			m.fresh++
			h = vpC19Hash("tx", m.fresh)
		}
		if seen[h] {
			m.fresh++
			h = vpC19Hash("tx", m.fresh)
		}
		seen[h] = true
		s.Transactions = append(s.Transactions, h)
	}
	if overlap {
		m.classes["offer:tx-reuse"]++
	}
	s.Hash = s.PayloadHash()
	// hashing sorts the list in place; the round's rules are about the set of
	// transactions, so the order a caller happens to hold must not matter
	if len(s.Transactions) >= 2 && rapid.IntRange(0, 2).Draw(t, "tx_order") == 0 {
		perm := rapid.Permutation(append([]crypto.Hash{}, s.Transactions...)).Draw(t, "tx_perm")
		s.Transactions = perm
		m.classes["offer:tx-order-shuffled"]++
	}
	if kind == 1 && len(m.offered) > 0 {
		// a different payload carrying an already offered hash
		s.Hash = m.offered[rapid.IntRange(0, len(m.offered)-1).Draw(t, "forge")].Hash
		m.classes["offer:hash-reuse"]++
	}
	return s, cls
}

func TestVP_C19_round_machine(t *testing.T) {
	c := kit.New(t, "C19", "rapid state machine on a CacheRound: offers (validateSnapshot add=true, or ValidateSnapshot then add as the chain does) with timestamps anchored at base/start/end/earlier offers/day boundary plus {0,±1,±2,±gap/2,±(gap-1),±gap,±(gap+1),noise}, transaction sets drawn partly from already used hashes, identical re-offers and reused hashes; close = Gap()+asFinal(); non-trivial = round with >=3 accepted and >=1 rejected; distinct by offered (timestamp,verdict) sequence")
	c.Require("accepted>=3&rejected>=1", "rejected", "close-nonempty", "reject:gap", "reject:day", "reject:dup-ts-or-hash", "reject:tx", "span>gap/2")
	c.Assume("timestamps stay below 2^63 ns (callers bound snapshot time by the clock); the uint64 wrap of start+gap near 2^64 is outside the domain")
	kit.SetChecks(kit.N(3000, 120000))
	kit.SetSteps(40)
	gap := config.SnapshotRoundGap
	rapid.Check(t, func(t *rapid.T) {
		day := uint64(rapid.IntRange(1, 40000).Draw(t, "day"))
		off := rapid.SampledFrom([]uint64{0, 1, gap - 1, gap, gap + 1, OneDay / 2, OneDay - 2*gap, OneDay - gap - 1, OneDay - gap, OneDay - gap + 1, OneDay - gap/2, OneDay - 2, OneDay - 1}).Draw(t, "base_off")
		m := &vpC19Machine{base: day*OneDay + off, classes: map[string]int{}}
		m.boundary = (m.base/OneDay + 1) * OneDay
		if off < gap+2 && rapid.Bool().Draw(t, "lower_boundary") {
			m.boundary = m.base / OneDay * OneDay
		}
		number := uint64(rapid.SampledFrom([]int{0, 1, 1, 2, 7, 1000}).Draw(t, "number"))
		m.cache = &CacheRound{
			NodeId:     vpC19Hash("node", uint64(rapid.IntRange(0, 5).Draw(t, "node"))),
			Number:     number,
			Timestamp:  m.base,
			References: &common.RoundLink{Self: vpC19Hash("self", number), External: vpC19Hash("ext", number)},
			index:      newRoundIndexCache(),
		}
		var fp []byte
		check := func(what string) {
			if err := vpC19Invariants(m.cache.Snapshots); err != nil {
				t.Fatalf("after %s: %v", what, err)
			}
		}
		offer := func(t *rapid.T, probeFirst bool) {
			s, cls := m.drawSnapshot(t)
			before := len(m.cache.Snapshots)
			var err error
			if p := vpC19Catch(func() {
				if probeFirst {
					err = m.cache.ValidateSnapshot(s)
					if len(m.cache.Snapshots) != before {
						panic("ValidateSnapshot (add=false) changed the accepted list")
					}
					if err != nil {
						return
					}
				}
				err = m.cache.validateSnapshot(s, true)
			}); p != "" {
				t.Fatalf("offer ts=%d txs=%d: %s", s.Timestamp, len(s.Transactions), p)
			}
			m.offered = append(m.offered, s)
			m.txPool = append(m.txPool, s.Transactions...)
			fp = binary.BigEndian.AppendUint64(fp, s.Timestamp)
			if err == nil {
				m.accepted++
				fp = append(fp, 1)
				if len(m.cache.Snapshots) != before+1 {
					t.Fatalf("accepted offer did not extend the round: %d -> %d", before, len(m.cache.Snapshots))
				}
				m.classes["accepted"]++
				m.classes["accepted:"+cls]++
			} else {
				m.rejected++
				fp = append(fp, 0)
				if len(m.cache.Snapshots) != before {
					t.Fatalf("rejected offer changed the round: %d -> %d (%v)", before, len(m.cache.Snapshots), err)
				}
				m.classes["rejected"]++
				es := err.Error()
				switch {
				case strings.Contains(es, "error gap"):
					m.classes["reject:gap"]++
				case strings.Contains(es, "day leap"):
					m.classes["reject:day"]++
				default:
					same := false
					for _, a := range m.cache.Snapshots {
						if a.Hash == s.Hash || a.Timestamp == s.Timestamp {
							same = true
						}
					}
					if same {
						m.classes["reject:dup-ts-or-hash"]++
					} else {
						m.classes["reject:tx"]++
					}
				}
			}
			check(fmt.Sprintf("offer ts=%d (%s) err=%v", s.Timestamp, cls, err))
		}
		closeRound := func(t *rapid.T) {
			var start, end uint64
			var final *FinalRound
			if p := vpC19Catch(func() { start, end = m.cache.Gap() }); p != "" {
				t.Fatalf("Gap() on accepted round: %s", p)
			}
			if p := vpC19Catch(func() { final = m.cache.asFinal() }); p != "" {
				t.Fatalf("asFinal() on accepted round: %s", p)
			}
			m.closes++
			if n := len(m.cache.Snapshots); n == 0 {
				if final != nil {
					t.Fatalf("asFinal of an empty round = %v", final)
				}
			} else {
				m.classes["close-nonempty"]++
				mn, mx := m.cache.Snapshots[0].Timestamp, m.cache.Snapshots[0].Timestamp
				for _, s := range m.cache.Snapshots {
					mn, mx = min(mn, s.Timestamp), max(mx, s.Timestamp)
				}
				if final == nil || final.Start != mn || final.End != mx || start != mn || end != mx {
					t.Fatalf("closing: Gap=(%d,%d) final=%+v, accepted span (%d,%d)", start, end, final, mn, mx)
				}
				if final.NodeId != m.cache.NodeId || final.Number != m.cache.Number {
					t.Fatalf("closing: final %+v for round %s:%d", final, m.cache.NodeId, m.cache.Number)
				}
			}
			check("close")
		}
		t.Repeat(map[string]func(*rapid.T){
			"offer":       func(t *rapid.T) { offer(t, false) },
			"offer2":      func(t *rapid.T) { offer(t, false) },
			"probe+offer": func(t *rapid.T) { offer(t, true) },
			"close":       closeRound,
			"copy": func(t *rapid.T) {
				// the chain hands out copies of its live round (StateCopy) and keeps using the original
				cp := m.cache.Copy()
				if err := vpC19Invariants(cp.Snapshots); err != nil {
					t.Fatalf("copy: %v", err)
				}
				if rapid.Bool().Draw(t, "continue_on_copy") {
					m.cache = cp
				}
			},
		})
		// every round is closed at the end, as the chain does when it moves on
		closeRound(t)
		nt := m.accepted >= 3 && m.rejected >= 1
		classes := []string{}
		if nt {
			classes = append(classes, "accepted>=3&rejected>=1")
		}
		if n := len(m.cache.Snapshots); n > 1 {
			mn, mx := m.cache.Snapshots[0].Timestamp, m.cache.Snapshots[0].Timestamp
			for _, s := range m.cache.Snapshots {
				mn, mx = min(mn, s.Timestamp), max(mx, s.Timestamp)
			}
			if mx-mn > gap/2 {
				classes = append(classes, "span>gap/2")
			}
			if mx-mn == gap-1 {
				classes = append(classes, "span=gap-1")
			}
		}
		if m.cache.Number == 0 {
			classes = append(classes, "round-0")
		}
		c.Case(string(fp), nt, classes...)
		for k, v := range m.classes {
			c.ClassN(k, v)
		}
		if nt {
			c.Sample(map[string]any{"base": m.base, "round": m.cache.Number, "offered": len(m.offered), "accepted": m.accepted, "rejected": m.rejected, "closes": m.closes})
		}
	})
}
