//go:build verif

package kernel

// C24, "deferred" clause: a self (empty) proposal handed to the node's own
// chain that the chain declines to announce right now. The real entry point
// chain.cosiHook(CosiActionSelfEmpty) runs on a real node (harness environment
// of the C16/C24 checks) under generated ledger, clock and sync-point
// conditions; afterwards the cache queue is drained and every handed
// transaction must be accounted for.

import (
	"fmt"
	"slices"
	"sort"
	"testing"
	"time"

	"github.com/MixinNetwork/mixin/common"
	"github.com/MixinNetwork/mixin/config"
	"github.com/MixinNetwork/mixin/crypto"
	"github.com/MixinNetwork/mixin/kernel/internal/clock"
	"github.com/MixinNetwork/mixin/p2p"
	"pgregory.net/rapid"
	kit "verifkit"
)

type vpC24dTx struct {
	ver       *common.VersionedTransaction
	hash      crypto.Hash
	kind      string
	finalized bool
	handed    int // number of batches it was handed in
}

type vpC24dFund struct {
	tx    *common.VersionedTransaction
	owner int
}

// vpC24dSetClock makes the kernel's (mock) clock read target; it keeps running
// with the wall clock from there.
func vpC24dSetClock(target uint64) {
	clock.Reset()
	clock.MockDiff(time.Unix(0, int64(target)).Sub(time.Now()))
}

// vpC24dFinalize certifies and finalizes txs in one snapshot of chain idx at
// the environment's ledger time, in the chain's head round when the round
// rules allow it and wantNew is false, in a new round referencing chain ext
// otherwise.
func vpC24dFinalize(t *rapid.T, e *vpC16Env, idx int, txs []*common.VersionedTransaction, ext int, wantNew bool) *common.Snapshot {
	ch := e.k.Node.getOrCreateChain(e.net.NodeIds[idx])
	cache := ch.State.CacheRound
	newRound := false
	if len(cache.Snapshots) > 0 {
		start, _ := cache.Copy().Gap()
		newRound = wantNew || e.clock >= start+config.SnapshotRoundGap || e.clock/OneDay != start/OneDay
	}
	if ext == idx {
		ext = (idx + 1) % len(e.net.NodeIds)
	}
	var hs []crypto.Hash
	for _, tx := range txs {
		hs = append(hs, tx.PayloadHash())
	}
	s := e.k.NextSnapshot(idx, hs, e.clock, newRound, ext)
	e.k.Certify(s, 0)
	fin, pan, err := e.finalize(s, txs)
	if !fin || pan != nil || err != nil {
		t.Fatalf("harness: finalizing on chain %d (new round %v): finalized=%v panic=%v err=%v", idx, newRound, fin, pan, err)
	}
	return s
}

// vpC24dSync builds the sync points the other nodes reported about this
// node's own chain.
func vpC24dSync(t *rapid.T, e *vpC16Env, mode string) map[crypto.Hash]*p2p.SyncPoint {
	node := e.k.Node
	final := node.chain.State.FinalRound
	others := rapid.Permutation([]int{1, 2, 3, 4, 5, 6}).Draw(t, "sync_order")
	spm := map[crypto.Hash]*p2p.SyncPoint{}
	good := func(i int) {
		p := &p2p.SyncPoint{NodeId: node.IdForNetwork, Number: final.Number, Hash: final.Hash}
		if final.Number > 0 && rapid.IntRange(0, 2).Draw(t, "sync_one_behind") == 0 {
			p.Number, p.Hash = final.Number-1, crypto.Blake3Hash(vpKSeed("c24d-behind", i))
		}
		spm[e.net.NodeIds[i]] = p
	}
	rest := func(list []int) {
		for _, i := range list {
			// a peer far behind (only expressible from final round 2 on) or silent
			if final.Number >= 2 && rapid.Bool().Draw(t, "sync_lagging") {
				n := final.Number - 2 - uint64(rapid.IntRange(0, int(min(final.Number-2, 2))).Draw(t, "sync_lag"))
				spm[e.net.NodeIds[i]] = &p2p.SyncPoint{NodeId: node.IdForNetwork, Number: n, Hash: crypto.Blake3Hash(vpKSeed("c24d-lag", i))}
			}
		}
	}
	switch mode {
	case "empty":
		if rapid.Bool().Draw(t, "sync_nil") {
			return nil
		}
		return spm
	case "few":
		n := rapid.IntRange(0, 3).Draw(t, "sync_good")
		for _, i := range others[:n] {
			good(i)
		}
		rest(others[n:])
	case "slow-far", "one-ahead":
		n := rapid.IntRange(4, 5).Draw(t, "sync_good")
		for _, i := range others[:n] {
			good(i)
		}
		p := &p2p.SyncPoint{NodeId: node.IdForNetwork, Hash: crypto.Blake3Hash(vpKSeed("c24d-ahead", others[n]))}
		if mode == "slow-far" {
			p.Number = final.Number + 2 + uint64(rapid.IntRange(0, 3).Draw(t, "sync_ahead"))
		} else {
			p.Number = final.Number + 1
			if cf := node.chain.State.CacheRound.asFinal(); cf != nil && rapid.IntRange(0, 2).Draw(t, "sync_head_match") != 0 {
				p.Hash = cf.Hash
			}
		}
		spm[e.net.NodeIds[others[n]]] = p
		rest(others[n+1:])
	default: // ok
		n := rapid.IntRange(4, 6).Draw(t, "sync_good")
		for _, i := range others[:n] {
			good(i)
		}
		rest(others[n:])
	}
	return spm
}

func TestVP_C24_deferred(t *testing.T) {
	c := kit.New(t, "C24", "rapid: a real node (7 genesis members, own chain = member 0, peer without neighbours) gets a generated ledger prefix (0..4 certified snapshots on drawn chains with drawn gaps, new rounds where the round rules demand or by choice, the own chain topped up to a drawn depth: untouched head, head with snapshots, head in round >=2; optionally the own chain's last snapshot just before a day boundary; optionally every other chain pushed ahead of the node's clock), then a batch of 1..4 valid pending transactions (BTC/XIN deposits, transfers of finalized outputs) is queued, popped from the cache queue (in flight) and handed in drawn order to the real chain.cosiHook(CosiActionSelfEmpty) under drawn conditions: zero or one member finalized by a competing snapshot on another chain after the pop; sync points of the peers (enough/too few/none/one peer two or more rounds ahead/one round ahead with matching or foreign head hash); the kernel clock (mock) placed relative to the own head round (inside the round, after the 4/5 cutoff, past the round gap, not after the head round's timestamp, across the day boundary, after an empty head); optionally an earlier batch of 1..2 handed the same way before (its live proposal may share one resubmitted member with the batch, or be discarded by the round transition the batch triggers); optionally the chain's action pool is full (AppendSelfEmpty). Oracle after the hook returns: every handed transaction that is unfinalized and still has a body (cache or ledger store) is owned by a live proposal (an entry of chain.CosiAggregators listing it) or returned by draining the cache queue, never both (only a resubmitted member that was already owned by a live proposal when the batch was handed may be both, and only when the whole batch was handed back, not on the duplicate refusal or an announcement); finalized transactions are not in the queue; nothing is returned twice. The path taken (which refusal, or announcement) is observed, not demanded. non-trivial = batch of >=2 that was declined, or a round transition that discarded an earlier live proposal; distinct by batch, conditions and outcome")
	required := []string{"deferred-finalized-member", "deferred-not-broadcasted", "deferred-slow-catchup", "announced", "batch>=2", "transfer-member"}
	if kit.Thorough() {
		// each of these is a few percent of the cases: always present in a quick
		// run in practice (see the evidence), demanded where the count makes a
		// miss impossible
		required = append(required, "deferred-round-cutoff", "deferred-new-best-external", "deferred-timestamp-not-after-head", "deferred-no-best-round", "deferred-day-boundary",
			"deferred-duplicate-of-live-proposal", "deferred-pool-full", "announced-new-round", "announced-in-round", "announced-empty-head", "round-transition-discards-earlier-proposal")
	}
	c.Require(required...)
	kit.SetChecks(kit.N(150, 6000))
	t.Cleanup(clock.Reset)
	rapid.Check(t, func(t *rapid.T) {
		clock.Reset()
		e := vpC16Start("c24d")
		defer e.Close()
		defer clock.Reset()
		node := e.k.Node
		chain := node.chain
		store := node.persistStore
		node.Peer = p2p.NewPeer(node, node.IdForNetwork, "test", false)
		gap := config.SnapshotRoundGap
		ms := uint64(time.Millisecond)
		classes := map[string]bool{}

		// ---- ledger prefix
		var funds []vpC24dFund
		fund := func(label string) ([]*common.VersionedTransaction, vpC24dFund) {
			e.seq++
			owner := rapid.IntRange(0, 3).Draw(t, label+"_owner")
			var tx *common.VersionedTransaction
			if rapid.Bool().Draw(t, label+"_xin") {
				tx = e.net.XINDeposit(common.NewInteger(uint64(rapid.IntRange(1, 9).Draw(t, label+"_amount"))), owner, fmt.Sprintf("0xc24d-f%d", e.seq), e.seq)
			} else {
				tx = e.net.BTCDeposit(common.NewInteger(uint64(rapid.IntRange(1, 9).Draw(t, label+"_amount"))), owner, fmt.Sprintf("0xc24d-f%d", e.seq), e.seq)
			}
			return []*common.VersionedTransaction{tx}, vpC24dFund{tx: tx, owner: owner}
		}
		advance := func(label string) {
			switch rapid.IntRange(0, 2).Draw(t, label+"_gap_kind") {
			case 0:
				e.clock += uint64(rapid.IntRange(1, 400).Draw(t, label+"_gap_ms")) * ms
			case 1:
				e.clock += uint64(rapid.IntRange(500, 2900).Draw(t, label+"_gap_ms")) * ms
			default:
				e.clock += uint64(rapid.IntRange(3000, 8000).Draw(t, label+"_gap_ms")) * ms
			}
		}
		// how far the own chain has got: 0 = untouched head round after genesis,
		// 1 = head round holds snapshots, 2 = that head round is round 2 or later
		depth := rapid.SampledFrom([]int{0, 0, 1, 1, 2, 2, 2}).Draw(t, "own_depth")
		special := rapid.SampledFrom([]string{"", "", "", "", "", "", "", "day-edge", "others-ahead", "others-ahead", "pool-full"}).Draw(t, "special")
		prelim := special == "" && rapid.IntRange(0, 2).Draw(t, "prelim") == 0
		steps := rapid.IntRange(0, 4).Draw(t, "prefix_steps")
		for i := 0; i < steps; i++ {
			advance("prefix")
			idx := rapid.SampledFrom([]int{0, 0, 0, 1, 2, 3, 4, 5, 6}).Draw(t, "prefix_chain")
			if idx == 0 && depth == 0 {
				idx = 1 + rapid.IntRange(0, 5).Draw(t, "prefix_other")
			}
			txs, f := fund("prefix")
			vpC24dFinalize(t, e, idx, txs, (idx+1+rapid.IntRange(0, 5).Draw(t, "prefix_ext"))%7, rapid.IntRange(0, 3).Draw(t, "prefix_newround") == 0)
			funds = append(funds, f)
		}
		if depth == 0 && rapid.Bool().Draw(t, "other_advanced") {
			// some other chain has completed a round well after the round the own
			// (empty) head references
			j := 1 + rapid.IntRange(0, 5).Draw(t, "advanced_chain")
			for k := 0; node.getOrCreateChain(e.net.NodeIds[j]).State.FinalRound.Number == 0; k++ {
				if k > 2 {
					t.Fatalf("harness: chain %d cannot be advanced", j)
				}
				advance("advanced")
				txs, f := fund("advanced")
				vpC24dFinalize(t, e, j, txs, (j+1+rapid.IntRange(0, 5).Draw(t, "advanced_ext"))%7, true)
				funds = append(funds, f)
			}
		}
		for k := 0; (depth >= 1 && len(chain.State.CacheRound.Snapshots) == 0) || (depth == 2 && chain.State.CacheRound.Number < 2); k++ {
			if k > 3 {
				t.Fatalf("harness: own chain cannot reach depth %d", depth)
			}
			advance("own")
			txs, f := fund("own")
			vpC24dFinalize(t, e, 0, txs, 1+rapid.IntRange(0, 5).Draw(t, "own_ext"), depth == 2)
			funds = append(funds, f)
		}
		var dayBoundary uint64
		if special == "day-edge" {
			// the own chain's head round starts shortly before a day boundary
			dayBoundary = (e.clock/OneDay + 1) * OneDay
			e.clock = dayBoundary - uint64(rapid.IntRange(100, 2000).Draw(t, "day_before_ms"))*ms
			txs, f := fund("day")
			vpC24dFinalize(t, e, 0, txs, 1+rapid.IntRange(0, 5).Draw(t, "day_ext"), true)
			funds = append(funds, f)
		}
		if special == "others-ahead" && len(chain.State.CacheRound.Snapshots) == 0 {
			advance("ahead_own")
			txs, f := fund("ahead_own")
			vpC24dFinalize(t, e, 0, txs, 1, false)
			funds = append(funds, f)
		}

		// ---- transactions
		var all []*vpC24dTx
		byHash := map[crypto.Hash]*vpC24dTx{}
		mk := func(label string) *vpC24dTx {
			e.seq++
			x := &vpC24dTx{}
			switch k := rapid.IntRange(0, 3).Draw(t, label+"_kind"); {
			case k <= 1 && len(funds) > 0:
				fi := rapid.IntRange(0, len(funds)-1).Draw(t, label+"_fund")
				f := funds[fi]
				funds = append(funds[:fi:fi], funds[fi+1:]...)
				to := []int{rapid.IntRange(0, 3).Draw(t, label+"_to")}
				if rapid.Bool().Draw(t, label+"_two_outputs") {
					to = append(to, rapid.IntRange(0, 3).Draw(t, label+"_to2"))
				}
				x.ver, x.kind = e.net.Transfer(f.tx, f.owner, to, e.seq, nil, nil), "transfer"
				classes["transfer-member"] = true
			case k == 2:
				x.ver, x.kind = e.net.XINDeposit(common.NewInteger(1), rapid.IntRange(0, 3).Draw(t, label+"_owner"), fmt.Sprintf("0xc24d-%d", e.seq), e.seq), "deposit"
			default:
				x.ver, x.kind = e.net.BTCDeposit(common.NewInteger(1), rapid.IntRange(0, 3).Draw(t, label+"_owner"), fmt.Sprintf("0xc24d-%d", e.seq), e.seq), "deposit"
			}
			x.hash = x.ver.PayloadHash()
			all = append(all, x)
			byHash[x.hash] = x
			return x
		}
		// queue the new transactions, pop everything (in flight), return the
		// popped batch in a drawn order
		inflight := func(label string, fresh []*vpC24dTx) []*vpC24dTx {
			for _, x := range fresh {
				if err := store.CacheQueueTransaction(x.ver); err != nil {
					t.Fatal(err)
				}
			}
			got, err := store.CacheRetrieveTransactions(1000)
			if err != nil {
				t.Fatalf("putting transactions in flight: %v", err)
			}
			var batch []*vpC24dTx
			for _, g := range got {
				x := byHash[g.PayloadHash()]
				if x == nil || slices.Contains(batch, x) {
					t.Fatalf("harness: popped an unknown or repeated transaction %s", g.PayloadHash())
				}
				batch = append(batch, x)
			}
			for _, x := range fresh {
				if !slices.Contains(batch, x) {
					t.Fatalf("harness: queued transaction %s was not popped", x.hash)
				}
			}
			order := rapid.Permutation(vpC24Range(len(batch))).Draw(t, label+"_order")
			out := make([]*vpC24dTx, len(batch))
			for i, o := range order {
				out[i] = batch[o]
				batch[o].handed++
			}
			return out
		}
		selfEmpty := func(batch []*vpC24dTx) *common.Snapshot {
			s := &common.Snapshot{Version: common.SnapshotVersionCommonEncoding, NodeId: node.IdForNetwork}
			for _, x := range batch {
				s.AddTransaction(x.hash)
			}
			return s
		}
		owned := func(h crypto.Hash) bool {
			for _, agg := range chain.CosiAggregators {
				if slices.Contains(agg.Snapshot.Transactions, h) {
					return true
				}
			}
			return false
		}
		installed := func(s *common.Snapshot) bool {
			agg := chain.CosiAggregators[s.Hash]
			return s.Hash.HasValue() && agg != nil && agg.Snapshot == s
		}
		// placeClock draws where the node's clock stands relative to its own head round
		placeClock := func(label string, kinds []string) (string, uint64) {
			cache := chain.State.CacheRound
			if len(cache.Snapshots) == 0 {
				return "after-empty-head", e.clock + uint64(rapid.IntRange(1, 5000).Draw(t, label+"_after_ms"))*ms
			}
			start, _ := cache.Copy().Gap()
			switch kind := rapid.SampledFrom(kinds).Draw(t, label+"_place"); kind {
			case "cutoff":
				return kind, start + uint64(rapid.IntRange(2450, 2990).Draw(t, label+"_ms"))*ms
			case "new-round":
				if rapid.IntRange(0, 4).Draw(t, label+"_long") == 0 {
					return kind, start + uint64(rapid.IntRange(310, 400).Draw(t, label+"_s"))*uint64(time.Second)
				}
				return kind, start + uint64(rapid.IntRange(3000, 9000).Draw(t, label+"_ms"))*ms
			case "behind":
				if cache.Number >= 2 {
					return kind, cache.Timestamp - uint64(rapid.IntRange(0, 1500).Draw(t, label+"_ms"))*ms
				}
			}
			return "in-round", start + uint64(rapid.IntRange(1, 2300).Draw(t, label+"_ms"))*ms
		}

		// ---- optionally an earlier batch, handed under good conditions
		var lastNow uint64
		if prelim {
			var fresh []*vpC24dTx
			for i, n := 0, rapid.IntRange(1, 2).Draw(t, "prelim_n"); i < n; i++ {
				fresh = append(fresh, mk("prelim"))
			}
			batch := inflight("prelim", fresh)
			node.SyncPointsMap = vpC24dSync(t, e, "ok")
			_, now := placeClock("prelim", []string{"in-round", "in-round", "new-round"})
			sa := selfEmpty(batch)
			vpC24dSetClock(now)
			if _, err := chain.cosiHook(&CosiAction{PeerId: node.IdForNetwork, Action: CosiActionSelfEmpty, Snapshot: sa}); err != nil {
				t.Fatalf("earlier batch: hook error %v", err)
			}
			lastNow = max(now, sa.Timestamp)
			if installed(sa) {
				classes["earlier-proposal-live"] = true
				if rapid.Bool().Draw(t, "resubmit") {
					// a member of the live proposal is submitted again (QueueTransaction of a
					// transaction whose body is cached queues it again)
					x := batch[rapid.IntRange(0, len(batch)-1).Draw(t, "resubmit_which")]
					if err := store.CacheQueueTransaction(x.ver); err != nil {
						t.Fatal(err)
					}
					classes["resubmitted-live-member"] = true
				}
			} else {
				classes["earlier-batch-declined"] = true
			}
		}

		// ---- the batch
		var fresh []*vpC24dTx
		maxn := 4
		if prelim {
			maxn = 3
		}
		for i, n := 0, rapid.IntRange(1, maxn).Draw(t, "batch_n"); i < n; i++ {
			fresh = append(fresh, mk("batch"))
		}
		batch := inflight("batch", fresh)
		sharedLive := map[crypto.Hash]bool{}
		for _, x := range batch {
			if owned(x.hash) {
				sharedLive[x.hash] = true
			}
		}

		var place string
		var now uint64
		switch {
		case prelim:
			place = "after-earlier-batch"
			kinds := []int{0, 1, 2, 2}
			if len(sharedLive) > 0 {
				// within a round gap of the live proposal the shared member is guarded
				place, kinds = "after-earlier-batch-sharing-a-member", []int{0, 0, 0, 1, 2}
			}
			switch rapid.SampledFrom(kinds).Draw(t, "since_kind") {
			case 0:
				now = lastNow + uint64(rapid.IntRange(5, 2000).Draw(t, "since_ms"))*ms
			case 1:
				now = lastNow + uint64(rapid.IntRange(2450, 2990).Draw(t, "since_ms"))*ms
			default:
				now = lastNow + uint64(rapid.IntRange(3000, 9000).Draw(t, "since_ms"))*ms
			}
		case special == "day-edge":
			before := dayBoundary - vpC24dHeadStart(chain)
			place, now = "across-day", dayBoundary+uint64(rapid.IntRange(1, int((2350*ms-before)/ms)).Draw(t, "day_after_ms"))*ms
		case special == "others-ahead":
			// the node's clock is past its own round gap, every other chain's
			// final round starts later than that clock
			start, _ := chain.State.CacheRound.Copy().Gap()
			place, now = "new-round-others-ahead", start+gap+uint64(rapid.IntRange(0, 1500).Draw(t, "ahead_ms"))*ms
			if e.clock < now+uint64(time.Second) {
				e.clock = now + uint64(time.Second)
			}
			for j := 1; j <= 6; j++ {
				cj := node.getOrCreateChain(e.net.NodeIds[j])
				for k := 0; cj.State.FinalRound.Number == 0 || cj.State.FinalRound.Start <= now; k++ {
					if k > 3 {
						t.Fatalf("harness: chain %d cannot be pushed ahead", j)
					}
					e.clock += 20 * ms
					txs, _ := fund("ahead")
					vpC24dFinalize(t, e, j, txs, (j+1+rapid.IntRange(0, 5).Draw(t, "ahead_ext"))%7, true)
				}
			}
		default:
			place, now = placeClock("batch", []string{"in-round", "cutoff", "new-round", "behind", "behind", "behind"})
		}
		// the refusals inside prepareAnnouncement are only reached when the
		// sanity checks pass: favour good sync points and no competitor there
		competitorOdds, syncModes := 2, []string{"ok", "ok", "ok", "ok", "empty", "few", "slow-far", "one-ahead"}
		switch place {
		case "cutoff", "behind", "across-day", "new-round-others-ahead", "after-empty-head", "after-earlier-batch-sharing-a-member":
			competitorOdds, syncModes = 5, []string{"ok", "ok", "ok", "ok", "ok", "ok", "ok", "ok", "empty", "few", "slow-far", "one-ahead"}
		}

		// between the pop and the hook: a competing snapshot on another chain finalizes one member
		victim := -1
		if rapid.IntRange(0, competitorOdds).Draw(t, "competitor") == 0 {
			victim = rapid.IntRange(0, len(batch)-1).Draw(t, "victim")
			e.clock += 50 * ms
			idx := 1 + rapid.IntRange(0, 5).Draw(t, "fin_chain")
			vpC24dFinalize(t, e, idx, []*common.VersionedTransaction{batch[victim].ver}, (idx+1+rapid.IntRange(0, 5).Draw(t, "fin_ext"))%7, false)
			batch[victim].finalized = true
		}

		syncMode := rapid.SampledFrom(syncModes).Draw(t, "sync")
		node.SyncPointsMap = vpC24dSync(t, e, syncMode)

		snap := selfEmpty(batch)
		preCache, _ := chain.StateCopy()
		preStart, _ := preCache.Copy().Gap()
		liveBefore := len(chain.CosiAggregators)
		vpC24dSetClock(now)
		if rn := node.GetRemovingOrSlashingNode(node.IdForNetwork); rn != nil {
			// the proposer itself is being removed: its batch is dropped by design
			c.Class("excluded-removing-self")
			return
		}
		bc, cu := node.CheckBroadcastedToPeers(), node.CheckCatchUpWithPeers()
		var herr error
		if special == "pool-full" {
			for chain.CachePool.Offer(&CosiAction{Action: CosiActionSelfCommitment, PeerId: e.net.NodeIds[1]}) == nil {
			}
			herr = chain.AppendSelfEmpty(snap)
		} else {
			_, herr = chain.cosiHook(&CosiAction{PeerId: node.IdForNetwork, Action: CosiActionSelfEmpty, Snapshot: snap})
		}
		clock.Reset()

		// ---- what happened
		announced := installed(snap)
		ts := snap.Timestamp
		postCache := chain.State.CacheRound
		transition := postCache.Number > preCache.Number
		retiredByTransition := transition && liveBefore > 0
		outcome := ""
		switch {
		case herr != nil:
			outcome = "hook-error"
		case announced && transition:
			outcome = "announced-new-round"
		case announced && len(preCache.Snapshots) == 0:
			outcome = "announced-empty-head"
		case announced:
			outcome = "announced-in-round"
		case special == "pool-full":
			outcome = "deferred-pool-full"
		case !bc:
			outcome = "deferred-not-broadcasted"
		case !cu:
			outcome = "deferred-slow-catchup"
		case victim >= 0:
			outcome = "deferred-finalized-member"
		case ts <= preCache.Timestamp:
			outcome = "deferred-timestamp-not-after-head"
		case len(preCache.Snapshots) == 0 && postCache.References.External != preCache.References.External:
			outcome = "deferred-new-best-external"
		case len(preCache.Snapshots) > 0 && ts >= preStart+gap:
			outcome = "deferred-no-best-round"
		case len(preCache.Snapshots) > 0 && ts > preStart+gap*4/5:
			outcome = "deferred-round-cutoff"
		case len(preCache.Snapshots) > 0 && ts/OneDay != preStart/OneDay:
			outcome = "deferred-day-boundary"
		case len(sharedLive) > 0:
			outcome = "deferred-duplicate-of-live-proposal"
		default:
			outcome = "deferred-unclassified"
		}
		classes[outcome] = true
		if announced {
			classes["announced"] = true
		}
		if len(batch) >= 2 {
			classes["batch>=2"] = true
		}
		if retiredByTransition {
			classes["round-transition-discards-earlier-proposal"] = true
		}
		if syncMode == "one-ahead" && bc && cu {
			classes["peer-one-round-ahead-accepted"] = true
		}

		// ---- oracle
		drained, err := store.CacheRetrieveTransactions(1000)
		if err != nil {
			t.Fatal(err)
		}
		inQ := map[crypto.Hash]int{}
		for _, d := range drained {
			h := d.PayloadHash()
			if inQ[h]++; inQ[h] > 1 {
				t.Fatalf("%s: transaction %s returned twice by one retrieval", outcome, h)
			}
			if byHash[h] == nil {
				t.Fatalf("%s: the queue returned %s, which was never handed", outcome, h)
			}
		}
		requeued := 0
		for i, x := range all {
			if x.handed == 0 {
				t.Fatalf("harness: transaction %d never handed", i)
			}
			ptx, fsnap, err := store.ReadTransaction(x.hash)
			if err != nil {
				t.Fatal(err)
			}
			finalized := len(fsnap) > 0
			if finalized != x.finalized {
				t.Fatalf("harness: transaction %s finalized=%v, expected %v", x.hash, finalized, x.finalized)
			}
			ctx, err := store.CacheGetTransaction(x.hash)
			if err != nil {
				t.Fatal(err)
			}
			body := ptx != nil || ctx != nil
			own, q := owned(x.hash), inQ[x.hash] > 0
			if q {
				requeued++
			}
			desc := fmt.Sprintf("%s (sync %s, clock %s, batch of %d, hook error %v): %s %d/%d %s", outcome, syncMode, place, len(batch), herr, x.kind, i, len(all), x.hash)
			switch {
			case finalized:
				if q {
					t.Fatalf("%s is finalized but was queued again", desc)
				}
			case !body:
				classes["body-gone"] = true
			case !own && !q:
				t.Fatalf("%s is unfinalized and has a body (ledger store %v, cache %v) but is neither owned by a live proposal nor eligible again: lost", desc, ptx != nil, ctx != nil)
			case own && q && !(sharedLive[x.hash] && !announced && outcome != "deferred-duplicate-of-live-proposal"):
				// the refusals that hand the whole batch back (sanity checks, the
				// refusals of prepareAnnouncement) also hand back a resubmitted member
				// that an earlier live proposal owns, as the existing C24 unit accepts
				// for transactions shared by a retired and an active proposal; the
				// duplicate refusal and the announcement must not
				t.Fatalf("%s is owned by a live proposal and queued again", desc)
			case own && q:
				classes["resubmitted-live-member-queued-again"] = true
			}
		}
		var cl []string
		for k := range classes {
			cl = append(cl, k)
		}
		sort.Strings(cl)
		nontrivial := (len(batch) >= 2 && !announced) || retiredByTransition
		c.Case(fmt.Sprint(outcome, syncMode, place, now, len(batch), victim, batch[0].hash, cl), nontrivial, cl...)
		c.Sample(map[string]any{"outcome": outcome, "sync": syncMode, "clock": place, "batch": len(batch), "handed_total": len(all), "finalized_member": victim >= 0, "requeued": requeued, "live_proposals": len(chain.CosiAggregators), "classes": cl})
	})
}

// vpC24dHeadStart returns the earliest snapshot time of the chain's head round.
func vpC24dHeadStart(chain *Chain) uint64 {
	start, _ := chain.State.CacheRound.Copy().Gap()
	return start
}
