//go:build verif

package kernel

// C31, the snapshot exchange of a proposing member. The batch the unmodified
// batcher forms on a member node is announced through the real chain.cosiHook;
// the harness plays the peers: each commits with a drawn list of transaction
// bodies it lacks (none / some / all of the batch). When the threshold
// commitment arrives the kernel builds one challenge message per committed
// peer that carries the bodies that peer asked for. The node's Peer has no
// neighbours, so every message goes through the bundle builder (which refuses
// more than 255 entries) and the relay wrapper (which refuses a message above
// the transport maximum): a refusal is a panic inside the hook.
//
// Needs zz_verif_C28_proposer_test.go (peer type, clock helper, deliver).

import (
	"bytes"
	"fmt"
	"os"
	"sort"
	"testing"
	"time"

	"github.com/MixinNetwork/mixin/common"
	"github.com/MixinNetwork/mixin/crypto"
	"github.com/MixinNetwork/mixin/kernel/internal/clock"
	"github.com/MixinNetwork/mixin/p2p"
	"pgregory.net/rapid"
	kit "verifkit"
)

const vpC31pTag = "c31p"

// vpC31pStorage spends output 0 of a finalized XIN deposit into one storage
// output (one key, threshold 64), which admits an extra of up to 4 MiB.
func vpC31pStorage(net *vpKNet, dep *common.VersionedTransaction, owner int, extra []byte, seq int) *common.VersionedTransaction {
	tx := common.NewTransactionV5(common.XINAssetId)
	tx.AddInput(dep.PayloadHash(), 0)
	tx.AddOutputWithType(common.OutputTypeScript, []*common.Address{&net.Accts[1]}, common.NewThresholdScript(64), dep.Outputs[0].Amount, vpKSeed(vpC31pTag, "storage-out", seq))
	tx.Extra = extra
	signed := &common.SignedTransaction{Transaction: *tx}
	po := dep.Outputs[0]
	priv := crypto.DeriveGhostPrivateKey(&po.Mask, &net.Accts[owner].PrivateViewKey, &net.Accts[owner].PrivateSpendKey, 0)
	sig := priv.Sign(tx.AsVersioned().PayloadHash())
	signed.SignaturesMap = []map[uint16]*crypto.Signature{{0: &sig}}
	return signed.AsVersioned()
}

func TestVP_C31_proposer_challenge(t *testing.T) {
	c := kit.New(t, "C31", "rapid: a real member node (drawn member 0..6 of 7) on which the unmodified batcher (popAndProcessCacheQueue) forms its own proposal from a queued batch: 1..255 deposits, or 2..5 storage transactions with extras of 1..4 MiB (signed total below the batcher's cut-off), or both mixed; the announcement (the SelfEmpty action the batcher queued) and the commitments of the peers run through the real chain.cosiHook on the node's own chain in drawn order; every committing peer lists the bodies it lacks (none / a drawn subset / all of the batch, optionally one hash that is not in the snapshot), peers that pre-committed a nonce take the full-challenge flow; when the threshold commitment arrives the kernel builds the challenge messages (bodies wanted by each peer) through the real p2p builders on a Peer without neighbours, where the bundle builder refuses more than 255 entries and the relay wrapper refuses more than the transport maximum; then the committed peers respond and the snapshot is finalized. Oracle: no hook call panics or returns an error at any step (a refusal by the message builders is a panic), the announced snapshot holds the whole batch, and after the responses it is finalized with every member. non-trivial = at least two peers on the announcement path ask for bodies; distinct by drawn schedule")
	c.Require("wanting-peers>=2", "wanting-peers>=3", "batch>=128", "large-bodies", "full-challenge-peer", "all-peers-want-all", "finalized")
	c.Assume("peers are honest: a commitment lists each missing body at most once")
	kit.SetChecks(kit.N(32, 480))
	t.Cleanup(clock.Reset)

	net := vpKNewNet(7, vpC31pTag, 4)
	ms := uint64(time.Millisecond)

	rapid.Check(t, func(t *rapid.T) {
		clock.Reset()
		defer clock.Reset()
		classes := map[string]bool{}

		self := rapid.IntRange(0, 6).Draw(t, "self")
		dir := vpKTempDir("c31p")
		defer os.RemoveAll(dir)
		k, err := vpKStart(net, dir, self, nil)
		if err != nil {
			t.Fatalf("harness: start: %v", err)
		}
		defer k.Stop()
		node := k.Node
		chain := node.chain
		store := node.persistStore
		node.Peer = p2p.NewPeer(node, node.IdForNetwork, "127.0.0.1:0", false)
		if chain == nil || chain.ChainId != node.IdForNetwork || node.IdForNetwork != net.NodeIds[self] {
			t.Fatalf("harness: node identity")
		}

		base := net.Epoch + uint64(36*time.Hour) + uint64(rapid.IntRange(1, 50).Draw(t, "minute"))*uint64(time.Minute)
		ledger := base
		seq := 0

		// ---- the batch
		shape := rapid.SampledFrom([]string{"many-small", "many-small", "many-small", "few-large", "few-large", "mixed"}).Draw(t, "shape")
		var batch []*common.VersionedTransaction
		if shape != "many-small" {
			nl := rapid.IntRange(2, 5).Draw(t, "large_count")
			room := p2p.TransportMessageMaxSize*2/3 - 64*1024
			for i := 0; i < nl; i++ {
				size := rapid.SampledFrom([]int{1 << 20, 5 << 19, 4<<20 - 2048}).Draw(t, "extra_size")
				if size > room-8192 {
					break
				}
				seq++
				owner := rapid.IntRange(0, 3).Draw(t, "large_owner")
				dep := net.XINDeposit(common.NewInteger(1), owner, fmt.Sprintf("0xc31p-%d", seq), seq)
				idx := (self + 1 + rapid.IntRange(0, 5).Draw(t, "fund_chain")) % 7
				ledger += uint64(rapid.IntRange(1, 300).Draw(t, "fund_dt_ms")) * ms
				s, fin, pan, err := vpC28pDeliver(k, idx, []*common.VersionedTransaction{dep}, ledger, rapid.IntRange(0, 6).Draw(t, "fund_ext"))
				if !fin || pan != nil || err != nil {
					t.Fatalf("harness: funding deposit %s on chain %d: finalized=%v panic=%v err=%v", s.Hash, idx, fin, pan, err)
				}
				extra := bytes.Repeat(vpKSeed(vpC31pTag, "extra", seq), size/32+1)[:size]
				tx := vpC31pStorage(net, dep, owner, extra, seq)
				room -= len(tx.Marshal())
				batch = append(batch, tx)
			}
			classes["large-bodies"] = true
		}
		if shape != "few-large" {
			ns := rapid.SampledFrom([]int{1, 2, 17, 64, 86, 127, 128, 129, 170, 200, 254, 255, 255}).Draw(t, "small_count")
			if ns+len(batch) > common.SnapshotTransactionsMaximum {
				ns = common.SnapshotTransactionsMaximum - len(batch)
			}
			for i := 0; i < ns; i++ {
				seq++
				batch = append(batch, net.BTCDeposit(vpC31Units(1), i%4, fmt.Sprintf("0xc31p-small-%d", seq), seq))
			}
		}
		if len(batch) >= 128 {
			classes["batch>=128"] = true
		}
		want := map[crypto.Hash]bool{}
		signed := 0
		for _, tx := range batch {
			want[tx.PayloadHash()] = true
			signed += len(tx.Marshal())
			if err := store.CacheQueueTransaction(tx); err != nil {
				t.Fatalf("harness: queue: %v", err)
			}
		}

		// ---- peers
		order := rapid.Permutation([]int{0, 1, 2, 3, 4, 5}).Draw(t, "peer_order")
		wantAll := rapid.IntRange(0, 2).Draw(t, "everybody_wants_everything") == 0
		var peers []*vpC28pPeer
		for _, o := range order {
			i := (self + 1 + o) % 7
			p := &vpC28pPeer{idx: i, id: net.NodeIds[i]}
			p.nonce = crypto.CosiCommitNonce(bytes.NewReader(vpKSeed(vpC31pTag, "nonce", i, self, base, fmt.Sprint(order))))
			p.R = p.nonce.Public()
			p.pre = !wantAll && rapid.IntRange(0, 4).Draw(t, fmt.Sprintf("precommit_%d", o)) == 0
			peers = append(peers, p)
		}
		spm := map[crypto.Hash]*p2p.SyncPoint{}
		for _, p := range peers {
			final := chain.State.FinalRound
			spm[p.id] = &p2p.SyncPoint{NodeId: node.IdForNetwork, Number: final.Number, Hash: final.Hash}
		}
		node.SyncPointsMap = spm

		var violation string
		hook := func(what string, m *CosiAction) {
			var herr error
			if p := vpKCatch(func() { _, herr = chain.cosiHook(m) }); p != nil && violation == "" {
				ps := fmt.Sprint(p)
				if len(ps) > 160 {
					ps = ps[:160] + fmt.Sprintf("... (%d characters)", len(ps))
				}
				violation = fmt.Sprintf("%s: chain.cosiHook panicked: %s", what, ps)
			} else if herr != nil && violation == "" {
				violation = fmt.Sprintf("%s: chain.cosiHook returned %v (QueuePollSnapshots panics on it)", what, herr)
			}
		}

		// ---- the batcher forms the proposal
		now0 := ledger + uint64(rapid.IntRange(2000, 4000).Draw(t, "announce_after_ms"))*ms
		vpC28pSetClock(now0)
		for _, p := range peers {
			if p.pre {
				r := p.R
				hook("pre-commitments", &CosiAction{PeerId: p.id, Action: CosiActionExternalCommitments, Commitments: []*crypto.Key{&r}})
			}
		}
		var processed int
		if p := vpKCatch(func() { processed = node.popAndProcessCacheQueue() }); p != nil {
			t.Fatalf("the batcher panicked on %d admissible transactions (%d signed bytes): %.200v", len(batch), signed, p)
		}
		var announce *CosiAction
		for m := chain.CachePool.Poll(); m != nil; m = chain.CachePool.Poll() {
			if m.Action == CosiActionSelfEmpty && announce == nil {
				announce = m
			}
		}
		if announce == nil || announce.Snapshot == nil {
			t.Fatalf("harness: the batcher (processed %d of %d) queued no proposal on member %d", processed, len(batch), self)
		}
		if len(announce.Snapshot.Transactions) != len(batch) {
			t.Fatalf("harness: the batcher proposed %d of %d queued transactions (%d signed bytes)", len(announce.Snapshot.Transactions), len(batch), signed)
		}
		hook("announcement", announce)
		snap := announce.Snapshot
		agg := chain.CosiAggregators[snap.Hash]
		if violation == "" && (agg == nil || !snap.Hash.HasValue()) {
			t.Fatalf("harness: member %d did not announce its batch of %d", self, len(batch))
		}
		if violation == "" {
			for _, h := range snap.Transactions {
				if !want[h] {
					t.Fatalf("the announced snapshot holds %s, which was not queued", h)
				}
			}
		}
		queued := map[crypto.Hash]*CosiAction{}
		for m := chain.CachePool.Poll(); m != nil; m = chain.CachePool.Poll() {
			if m.Action == CosiActionSelfFullCommitment && m.SnapshotHash == snap.Hash {
				queued[m.PeerId] = m
			}
		}

		// ---- commitments with the bodies each peer lacks
		challenged := func() bool { return snap.Signature != nil }
		wanting, committed := 0, 0
		totalWanted := 0
		for _, p := range peers {
			if violation != "" || challenged() {
				break
			}
			m := queued[p.id]
			if m != nil {
				classes["full-challenge-peer"] = true
				m = &CosiAction{PeerId: m.PeerId, Action: m.Action, SnapshotHash: m.SnapshotHash, Commitment: m.Commitment, Snapshot: m.Snapshot}
			} else {
				var wl []crypto.Hash
				mode := "all"
				if !wantAll {
					mode = rapid.SampledFrom([]string{"all", "all", "some", "none"}).Draw(t, fmt.Sprintf("want_%d", p.idx))
				}
				for _, h := range snap.Transactions {
					if mode == "all" || (mode == "some" && rapid.Bool().Draw(t, "lacks")) {
						wl = append(wl, h)
					}
				}
				if mode != "none" && rapid.IntRange(0, 5).Draw(t, "unknown_hash") == 0 && len(wl) < common.SnapshotTransactionsMaximum {
					wl = append(wl, crypto.Blake3Hash(vpKSeed(vpC31pTag, "unknown", p.idx)))
					classes["wants-unknown-hash"] = true
				}
				if len(wl) > 0 {
					wanting++
					totalWanted += len(wl)
				}
				r := p.R
				m = &CosiAction{PeerId: p.id, Action: CosiActionSelfCommitment, SnapshotHash: snap.Hash, Commitment: &r, WantTxs: wl}
			}
			hook(fmt.Sprintf("commitment of peer %d (%d bodies wanted; %d peers asked for %d bodies so far, batch of %d, %d signed bytes)", p.idx, len(m.WantTxs), wanting, totalWanted, len(batch), signed), m)
			if agg != nil {
				for _, cn := range chain.consensusNodes(snap.RoundNumber, snap.Timestamp) {
					if cn.IdForNetwork == p.id && agg.Commitments[cn.ConsensusIndex] != nil && *agg.Commitments[cn.ConsensusIndex] == p.R {
						p.accepted = true
						committed++
					}
				}
			}
		}
		if violation != "" {
			t.Fatalf("member %d, batch of %d transactions (%d signed bytes, shape %s): %s", self, len(batch), signed, shape, violation)
		}
		if !challenged() {
			t.Fatalf("harness: %d accepted commitments did not complete the challenge", committed)
		}
		if wanting >= 2 {
			classes["wanting-peers>=2"] = true
		}
		if wanting >= 3 {
			classes["wanting-peers>=3"] = true
		}
		if wantAll {
			classes["all-peers-want-all"] = true
		}

		// ---- responses
		_, publics := chain.ConsensusKeys(snap.RoundNumber, snap.Timestamp)
		for _, p := range peers {
			if !p.accepted {
				continue
			}
			priv := net.Signers[p.idx].PrivateSpendKey
			resp, err := p.nonce.Response(snap.Signature, &priv, publics, snap.Hash)
			if err != nil {
				t.Fatalf("harness: response of peer %d: %v", p.idx, err)
			}
			r := *resp
			hook(fmt.Sprintf("response of peer %d", p.idx), &CosiAction{PeerId: p.id, Action: CosiActionSelfResponse, SnapshotHash: snap.Hash, Response: &r})
		}
		clock.Reset()
		if violation != "" {
			t.Fatalf("member %d, batch of %d transactions (%d signed bytes, shape %s): %s", self, len(batch), signed, shape, violation)
		}
		back, err := store.ReadSnapshot(snap.Hash)
		if err != nil {
			t.Fatal(err)
		}
		if back == nil {
			t.Fatalf("member %d: the proposal %s of %d transactions was not finalized after %d peer responses", self, snap.Hash, len(batch), committed)
		}
		for _, tx := range batch {
			if _, in, err := store.ReadTransaction(tx.PayloadHash()); err != nil || in != snap.Hash.String() {
				t.Fatalf("member %s of the finalized proposal %s is finalized in %q (%v)", tx.PayloadHash(), snap.Hash, in, err)
			}
		}
		classes["finalized"] = true

		var cl []string
		for name := range classes {
			cl = append(cl, name)
		}
		sort.Strings(cl)
		c.Case(fmt.Sprint(self, base, shape, len(batch), signed, order, wanting, totalWanted, cl), wanting >= 2, cl...)
		c.Sample(map[string]any{"member": self, "shape": shape, "batch": len(batch), "signed_bytes": signed, "peers_asking_for_bodies": wanting,
			"bodies_asked_for": totalWanted, "committed_peers": committed, "classes": cl})
	})
}
