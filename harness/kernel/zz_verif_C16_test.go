//go:build verif

package kernel

import (
	"fmt"
	"os"
	"testing"
	"time"

	"github.com/MixinNetwork/mixin/common"
	"github.com/MixinNetwork/mixin/crypto"
	"pgregory.net/rapid"
	kit "verifkit"
)

type vpC16Asset struct {
	id    crypto.Hash
	chain crypto.Hash
	key   string
	cap   uint64 // whole coins the generator keeps finalized+pending deposits below (0 = unbounded default capacity)
	used  uint64
	name  string
}

type vpC16Env struct {
	k      *vpKNode
	net    *vpKNet
	dir    string
	clock  uint64
	seq    int
	assets []*vpC16Asset
	// finalized single-key outputs available for transfers: tx and owner
	outs []vpC16Out
}

type vpC16Out struct {
	tx    *common.VersionedTransaction
	owner int
}

func vpC16Start(tag string) *vpC16Env {
	net := vpKNewNet(7, tag, 4)
	dir := vpKTempDir("c16")
	k, err := vpKStart(net, dir, 0, nil)
	if err != nil {
		panic(err)
	}
	e := &vpC16Env{k: k, net: net, dir: dir, clock: net.Epoch + uint64(36*time.Hour)}
	e.assets = []*vpC16Asset{
		{id: common.XINAssetId, chain: common.XINAsset.Chain, key: common.XINAsset.AssetKey, cap: 750000 - 94773 - 1, name: "XIN"},
		{id: common.BitcoinAssetId, chain: common.BitcoinAssetId, key: "c6d0c728-2624-429b-8e0d-d9d19b6592fa", cap: 2499, name: "BTC"},
		{id: crypto.Sha256Hash([]byte(tag + "-unlisted")), chain: common.EthereumAssetId, key: "0x0000000000000000000000000000000000000007", name: "UNL"},
	}
	return e
}

func (e *vpC16Env) Close() {
	e.k.Stop()
	os.RemoveAll(e.dir)
}

type vpC16Pending struct {
	snap *common.Snapshot
	txs  []*common.VersionedTransaction
}

// snapshotFor builds a certified snapshot of txs on a drawn chain at the next time.
func (e *vpC16Env) snapshotFor(t *rapid.T, txs []*common.VersionedTransaction) *common.Snapshot {
	e.clock += uint64(rapid.IntRange(1, 400).Draw(t, "dt_ms")) * uint64(time.Millisecond)
	chainIdx := rapid.IntRange(0, 6).Draw(t, "chain")
	chain := e.k.Node.getOrCreateChain(e.net.NodeIds[chainIdx])
	newRound := false
	if cache := chain.State.CacheRound; len(cache.Snapshots) > 0 {
		start, _ := cache.Gap()
		newRound = e.clock >= start+uint64(3*time.Second) || e.clock/OneDay != start/OneDay || rapid.IntRange(0, 4).Draw(t, "newround") == 0
	}
	var hs []crypto.Hash
	for _, tx := range txs {
		hs = append(hs, tx.PayloadHash())
	}
	s := e.k.NextSnapshot(chainIdx, hs, e.clock, newRound, (chainIdx+1+rapid.IntRange(0, 5).Draw(t, "ext"))%7)
	e.k.Certify(s, rapid.IntRange(0, 2).Draw(t, "extra_signers"))
	return s
}

// validate runs the node's own snapshot-transaction validation (which also
// locks and persists) and reports whether every member passed.
func (e *vpC16Env) validate(s *common.Snapshot, txs []*common.VersionedTransaction, finalized bool) (bool, error) {
	for _, b := range txs {
		if err := e.k.Node.persistStore.CacheStoreTransaction(b); err != nil {
			return false, err
		}
	}
	found, missing, err := e.k.Node.validateSnapshotTransaction(s, finalized)
	if err != nil || len(missing) > 0 || len(found) != len(s.Transactions) {
		return false, err
	}
	return true, nil
}

// finalize pushes the certified snapshot through the node's finalization path.
func (e *vpC16Env) finalize(s *common.Snapshot, txs []*common.VersionedTransaction) (finalized bool, panicked any, err error) {
	panicked = vpKCatch(func() { finalized, err = e.k.Deliver(s, txs) })
	return
}

func TestVP_C16_validated_finalizes(t *testing.T) {
	c := kit.New(t, "C16", "rapid: histories of 6..20 snapshots on a real node (7 chains, round transitions): each snapshot batches 1..4 pending transactions (deposits of XIN / BTC (capacity 2500, amounts up to 1200 so the cap is reachable) / an unlisted asset, several deposits of one asset pending at once, transfers of finalized outputs); every member is pushed through the node's own validateSnapshotTransaction (ordinary path first for 'pending' snapshots that are finalized later, finalization path otherwise); oracle: validation passed for every member => the finalization path writes the snapshot without error or panic and it becomes readable; the listed known-finding classes (pending+finalized deposits reaching capacity; contradicting asset bindings pending together) are excluded by construction and counted; non-trivial = snapshot with >=2 members or >=2 deposits of one asset pending across consecutive snapshots; distinct by snapshot hash")
	c.Require("batch>=2", "pending-deposits-same-asset", "transfer", "late-finalize", "near-capacity")
	kit.SetChecks(kit.N(25, 900))
	rapid.Check(t, func(t *rapid.T) {
		e := vpC16Start("c16")
		defer e.Close()
		var pending []*vpC16Pending
		pendDeposits := map[crypto.Hash]int{}
		steps := rapid.IntRange(6, 20).Draw(t, "steps")
		for i := 0; i < steps; i++ {
			// late finalization of an earlier validated snapshot
			if len(pending) > 0 && rapid.IntRange(0, 2).Draw(t, "finalize_pending") == 0 {
				p := pending[0]
				pending = pending[1:]
				// rebuild the snapshot against the current head (the proposer re-announces); same transactions
				s := e.snapshotFor(t, p.txs)
				ok, verr := e.validate(s, p.txs, true)
				fin, pan, err := e.finalize(s, p.txs)
				if ok && (pan != nil || err != nil || !fin) {
					t.Fatalf("snapshot %s whose %d members all validated could not be finalized: finalized=%v err=%v panic=%v", s.Hash, len(p.txs), fin, err, pan)
				}
				for _, tx := range p.txs {
					if tx.DepositData() != nil {
						pendDeposits[tx.Asset]--
					}
					if fin {
						e.outs = append(e.outs, vpC16Out{tx, vpC16Owner(e, tx)})
					}
				}
				c.Case(s.Hash.String(), true, "late-finalize")
				_ = verr
				continue
			}
			n := rapid.IntRange(1, 4).Draw(t, "members")
			var txs []*common.VersionedTransaction
			var cl []string
			sameAssetPending := false
			for m := 0; m < n; m++ {
				e.seq++
				if len(e.outs) > 0 && rapid.IntRange(0, 2).Draw(t, "member_kind") == 0 {
					k := rapid.IntRange(0, len(e.outs)-1).Draw(t, "spend")
					o := e.outs[k]
					e.outs = append(e.outs[:k], e.outs[k+1:]...)
					txs = append(txs, e.net.Transfer(o.tx, o.owner, []int{rapid.IntRange(0, 3).Draw(t, "to"), rapid.IntRange(0, 3).Draw(t, "to2")}, e.seq, nil, nil))
					cl = append(cl, "transfer")
					continue
				}
				a := e.assets[rapid.IntRange(0, 2).Draw(t, "asset")]
				amt := uint64(rapid.IntRange(1, 1200).Draw(t, "amount"))
				if a.cap > 0 && a.used+amt > a.cap {
					c.Class("excluded-known")
					if a.used >= a.cap {
						continue
					}
					amt = a.cap - a.used // fill up to one unit below the capacity
					cl = append(cl, "near-capacity")
				}
				a.used += amt
				owner := rapid.IntRange(0, 3).Draw(t, "owner")
				tx := e.net.Deposit(a.id, a.chain, a.key, common.NewInteger(amt), owner, fmt.Sprintf("0xc16-%d", e.seq), uint64(rapid.IntRange(0, 2).Draw(t, "dep_index")), e.seq)
				if pendDeposits[a.id] > 0 {
					sameAssetPending = true
				}
				pendDeposits[a.id]++
				txs = append(txs, tx)
			}
			if len(txs) == 0 {
				continue
			}
			if len(txs) >= 2 {
				cl = append(cl, "batch>=2")
			}
			if sameAssetPending {
				cl = append(cl, "pending-deposits-same-asset")
			}
			s := e.snapshotFor(t, txs)
			if rapid.IntRange(0, 3).Draw(t, "defer") == 0 {
				// validated on the ordinary path now (locks, bodies), finalized by a later step
				s.Hash = s.PayloadHash()
				ok, _ := e.validate(s, txs, false)
				if ok {
					pending = append(pending, &vpC16Pending{snap: s, txs: txs})
					c.Class("deferred")
					continue
				}
			}
			ok, verr := e.validate(s, txs, true)
			fin, pan, err := e.finalize(s, txs)
			if ok && (pan != nil || err != nil || !fin) {
				t.Fatalf("snapshot %s whose %d members all validated could not be finalized: finalized=%v err=%v panic=%v", s.Hash, len(txs), fin, err, pan)
			}
			if !ok {
				t.Fatalf("model-valid snapshot members rejected by validation: %v", verr)
			}
			if back, _ := e.k.Node.persistStore.ReadSnapshot(s.Hash); back == nil {
				t.Fatalf("finalized snapshot %s not readable", s.Hash)
			}
			for _, tx := range txs {
				if tx.DepositData() != nil {
					pendDeposits[tx.Asset]--
					e.outs = append(e.outs, vpC16Out{tx, vpC16Owner(e, tx)})
				} else {
					e.outs = append(e.outs, vpC16Out{tx, vpC16Owner(e, tx)})
				}
			}
			c.Case(s.Hash.String(), len(txs) >= 2 || sameAssetPending, cl...)
			c.Sample(map[string]any{"members": len(txs), "classes": cl, "round": s.RoundNumber, "chain": s.NodeId.String()[:8]})
		}
	})
}

// vpC16Owner finds which account owns output 0 of tx.
func vpC16Owner(e *vpC16Env, tx *common.VersionedTransaction) int {
	o := tx.Outputs[0]
	for i := range e.net.Accts {
		a := &e.net.Accts[i]
		if len(o.Keys) > 0 {
			pub := crypto.ViewGhostOutputKey(o.Keys[0], &a.PrivateViewKey, &o.Mask, 0)
			if *pub == a.PublicSpendKey {
				return i
			}
		}
	}
	return 0
}

// Known finding C16-F4: deposits that each pass validation cannot all be
// finalized. Three witnesses of one root cause (deposit validation looks only
// at finalized asset state).
func TestVP_C16_known_F4(t *testing.T) {
	if kit.Replaying() {
		return
	}
	c := kit.New(t, "C16", "deterministic witnesses of known finding C16-F4 (a: two validated BTC deposits of 1500 against capacity 2500; b: two validated deposits binding one unlisted asset id to different (chain,key) pairs)")
	run := func(name string, mk func(e *vpC16Env) [2]*common.VersionedTransaction) (failed bool, what string) {
		e := vpC16Start("c16w" + name)
		defer e.Close()
		pair := mk(e)
		var snaps [2]*common.Snapshot
		for i, tx := range pair {
			e.clock += uint64(100 * time.Millisecond)
			s := e.k.NextSnapshot(1+i, []crypto.Hash{tx.PayloadHash()}, e.clock, false, 0)
			e.k.Certify(s, 0)
			ok, err := e.validate(s, []*common.VersionedTransaction{tx}, false)
			if !ok {
				return false, fmt.Sprintf("deposit %d no longer passes validation: %v", i, err)
			}
			snaps[i] = s
		}
		for i, tx := range pair {
			fin, pan, err := e.finalize(snaps[i], []*common.VersionedTransaction{tx})
			if pan != nil || err != nil || !fin {
				return true, fmt.Sprintf("deposit %d validated but finalization gave finalized=%v err=%v panic=%v", i, fin, err, pan)
			}
		}
		return false, "both finalized"
	}
	failedA, whatA := run("a", func(e *vpC16Env) [2]*common.VersionedTransaction {
		return [2]*common.VersionedTransaction{e.net.BTCDeposit(common.NewInteger(1500), 0, "0xf4a1", 1), e.net.BTCDeposit(common.NewInteger(1500), 1, "0xf4a2", 2)}
	})
	failedB, whatB := run("b", func(e *vpC16Env) [2]*common.VersionedTransaction {
		id := crypto.Sha256Hash([]byte("c16-f4b"))
		return [2]*common.VersionedTransaction{
			e.net.Deposit(id, common.EthereumAssetId, "0x01", common.NewInteger(1), 0, "0xf4b1", 0, 1),
			e.net.Deposit(id, common.EthereumAssetId, "0x02", common.NewInteger(1), 1, "0xf4b2", 0, 2)}
	})
	c.Case("F4a", true)
	c.Case("F4b", true)
	c.Sample(map[string]any{"F4a": whatA, "F4b": whatB})
	if failedA {
		kit.ReportKnown(t, "C16", "C16-F4", "two BTC deposits of 1500 both pass validation (capacity 2500, only finalized total is consulted); the second finalization panics in the asset total assertion: "+whatA)
	}
	if failedB {
		kit.ReportKnown(t, "C16", "C16-F4", "two deposits binding one new asset id to different (chain,key) pairs both pass validation; the second cannot be finalized: "+whatB)
	}
}
