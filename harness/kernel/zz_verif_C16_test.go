//go:build verif

package kernel

import (
	"fmt"
	"os"
	"strings"
	"testing"
	"time"

	"github.com/MixinNetwork/mixin/common"
	"github.com/MixinNetwork/mixin/crypto"
	"pgregory.net/rapid"
	kit "verifkit"
)

type vpC16Asset struct {
	id    crypto.Hash
	chain crypto.Hash
	key   string
	cap   uint64 // whole coins the generator keeps finalized+pending deposits below (0 = unbounded default capacity)
	used  uint64
	name  string
	bound bool // a deposit of this asset id has been finalized (its chain/key binding is on record)
}

type vpC16Env struct {
	k      *vpKNode
	net    *vpKNet
	dir    string
	clock  uint64
	seq    int
	assets []*vpC16Asset
	// finalized single-key outputs available for spending
	outs []vpC16Out
	// withdrawal submits: finalized ones can be claimed
	submits        []crypto.Hash
	submitsPending []*common.VersionedTransaction
	// one-time keys of finalized outputs (bound to their transactions for good)
	finalKeys []*crypto.Key
}

// noteFinalized updates the generator's bookkeeping for a finalized transaction.
func (e *vpC16Env) noteFinalized(tx *common.VersionedTransaction) {
	e.addOuts(tx)
	for _, o := range tx.Outputs {
		e.finalKeys = append(e.finalKeys, o.Keys...)
	}
	if tx.DepositData() != nil {
		for _, a := range e.assets {
			if a.id == tx.Asset {
				a.bound = true
			}
		}
	}
	for i, p := range e.submitsPending {
		if p.PayloadHash() == tx.PayloadHash() {
			e.submits = append(e.submits, tx.PayloadHash())
			e.submitsPending = append(e.submitsPending[:i], e.submitsPending[i+1:]...)
			break
		}
	}
}

type vpC16Out struct {
	tx    *common.VersionedTransaction
	owner int
	idx   int // output index inside tx (single-key script outputs only)
}

// spend builds a transaction consuming the given finalized single-key outputs
// (all of one asset), signed by their owners; outs fills in the outputs and
// gets the input total.
func (e *vpC16Env) spend(ins []vpC16Out, refs []crypto.Hash, extra []byte, outs func(tx *common.Transaction, total common.Integer)) *common.VersionedTransaction {
	tx := common.NewTransactionV5(ins[0].tx.Asset)
	var total common.Integer
	for i, in := range ins {
		tx.AddInput(in.tx.PayloadHash(), uint(in.idx))
		if i == 0 {
			total = in.tx.Outputs[in.idx].Amount
		} else {
			total = total.Add(in.tx.Outputs[in.idx].Amount)
		}
	}
	outs(tx, total)
	tx.References = refs
	tx.Extra = extra
	signed := &common.SignedTransaction{Transaction: *tx}
	msg := tx.AsVersioned().PayloadHash()
	for _, in := range ins {
		po := in.tx.Outputs[in.idx]
		a := &e.net.Accts[in.owner]
		priv := crypto.DeriveGhostPrivateKey(&po.Mask, &a.PrivateViewKey, &a.PrivateSpendKey, uint64(in.idx))
		sig := priv.Sign(msg)
		signed.SignaturesMap = append(signed.SignaturesMap, map[uint16]*crypto.Signature{0: &sig})
	}
	return signed.AsVersioned()
}

// addOuts registers the single-key script outputs of a finalized transaction.
func (e *vpC16Env) addOuts(tx *common.VersionedTransaction) {
	for i, o := range tx.Outputs {
		if o.Type != common.OutputTypeScript || len(o.Keys) != 1 {
			continue
		}
		for ai := range e.net.Accts {
			a := &e.net.Accts[ai]
			if pub := crypto.ViewGhostOutputKey(o.Keys[0], &a.PrivateViewKey, &o.Mask, uint64(i)); *pub == a.PublicSpendKey {
				e.outs = append(e.outs, vpC16Out{tx: tx, owner: ai, idx: i})
				break
			}
		}
	}
}

// takeOuts removes and returns up to n pool outputs of one asset.
func (e *vpC16Env) takeOuts(t *rapid.T, n int, asset *crypto.Hash) []vpC16Out {
	var picked []vpC16Out
	for len(picked) < n {
		var cand []int
		for i, o := range e.outs {
			if (asset == nil || o.tx.Asset == *asset) && (len(picked) == 0 || o.tx.Asset == picked[0].tx.Asset) {
				cand = append(cand, i)
			}
		}
		if len(cand) == 0 {
			break
		}
		k := cand[rapid.IntRange(0, len(cand)-1).Draw(t, "take")]
		picked = append(picked, e.outs[k])
		e.outs = append(e.outs[:k], e.outs[k+1:]...)
	}
	return picked
}

func vpC16Start(tag string) *vpC16Env {
	net := vpKNewNet(7, tag, 4)
	dir := vpKTempDir("c16")
	k, err := vpKStart(net, dir, 0, nil)
	if err != nil {
		panic(err)
	}
	e := &vpC16Env{k: k, net: net, dir: dir, clock: net.Epoch + uint64(36*time.Hour)}
	e.assets = []*vpC16Asset{
		{id: common.XINAssetId, chain: common.XINAsset.Chain, key: common.XINAsset.AssetKey, cap: 750000 - 94773 - 1, name: "XIN"},
		{id: common.BitcoinAssetId, chain: common.BitcoinAssetId, key: "c6d0c728-2624-429b-8e0d-d9d19b6592fa", cap: 2499, name: "BTC"},
		{id: crypto.Sha256Hash([]byte(tag + "-unlisted")), chain: common.EthereumAssetId, key: "0x0000000000000000000000000000000000000007", name: "UNL"},
	}
	return e
}

func (e *vpC16Env) Close() {
	e.k.Stop()
	os.RemoveAll(e.dir)
}

type vpC16Pending struct {
	snap *common.Snapshot
	txs  []*common.VersionedTransaction
}

// snapshotFor builds a certified snapshot of txs on a drawn chain at the next time.
func (e *vpC16Env) snapshotFor(t *rapid.T, txs []*common.VersionedTransaction) *common.Snapshot {
	e.clock += uint64(rapid.IntRange(1, 400).Draw(t, "dt_ms")) * uint64(time.Millisecond)
	chainIdx := rapid.IntRange(0, 6).Draw(t, "chain")
	chain := e.k.Node.getOrCreateChain(e.net.NodeIds[chainIdx])
	newRound := false
	if cache := chain.State.CacheRound; len(cache.Snapshots) > 0 {
		start, _ := cache.Gap()
		newRound = e.clock >= start+uint64(3*time.Second) || e.clock/OneDay != start/OneDay || rapid.IntRange(0, 4).Draw(t, "newround") == 0
	}
	var hs []crypto.Hash
	for _, tx := range txs {
		hs = append(hs, tx.PayloadHash())
	}
	s := e.k.NextSnapshot(chainIdx, hs, e.clock, newRound, (chainIdx+1+rapid.IntRange(0, 5).Draw(t, "ext"))%7)
	e.k.Certify(s, rapid.IntRange(0, 2).Draw(t, "extra_signers"))
	return s
}

// validate runs the node's own snapshot-transaction validation (which also
// locks and persists) and reports whether every member passed.
func (e *vpC16Env) validate(s *common.Snapshot, txs []*common.VersionedTransaction, finalized bool) (bool, error) {
	for _, b := range txs {
		if err := e.k.Node.persistStore.CacheStoreTransaction(b); err != nil {
			return false, err
		}
	}
	found, missing, err := e.k.Node.validateSnapshotTransaction(s, finalized)
	if err != nil || len(missing) > 0 || len(found) != len(s.Transactions) {
		return false, err
	}
	return true, nil
}

// finalize pushes the certified snapshot through the node's finalization path.
func (e *vpC16Env) finalize(s *common.Snapshot, txs []*common.VersionedTransaction) (finalized bool, panicked any, err error) {
	panicked = vpKCatch(func() { finalized, err = e.k.Deliver(s, txs) })
	return
}

func TestVP_C16_validated_finalizes(t *testing.T) {
	c := kit.New(t, "C16", "rapid: histories of 6..20 snapshots on a real node (7 chains, round transitions): each snapshot batches 1..4 pending transactions (deposits of XIN / BTC (capacity 2500, amounts up to 1200 so the cap is reachable) / an unlisted asset, several deposits of one asset pending at once; deposits naming a bound asset id with altered chain/key text, which validation may refuse; transfers with 1..3 inputs and outputs of finalized outputs at any output index, one in eight carrying in some output a one-time key of an already finalized transaction (validation may refuse); withdrawal submits with and without change, repeatedly on one asset; withdrawal claims of finalized submits); every member is pushed through the node's own validateSnapshotTransaction (ordinary path first for 'pending' snapshots that are finalized later, finalization path otherwise); oracle: validation passed for every member => the finalization path writes the snapshot without error or panic and it becomes readable; the listed known-finding classes (pending+finalized deposits reaching capacity; contradicting asset bindings pending together) are excluded by construction and counted; non-trivial = snapshot with >=2 members or >=2 deposits of one asset pending across consecutive snapshots; distinct by snapshot hash")
	c.Require("batch>=2", "pending-deposits-same-asset", "transfer", "transfer-multi-input", "submit", "submit-with-change", "claim", "deposit-info-variant", "late-finalize", "near-capacity", "submit-odd-output", "output-key-of-finalized-transaction")
	kit.SetChecks(kit.N(60, 1200))
	rapid.Check(t, func(t *rapid.T) {
		e := vpC16Start("c16")
		defer e.Close()
		var pending []*vpC16Pending
		pendDeposits := map[crypto.Hash]int{}
		steps := rapid.IntRange(6, 20).Draw(t, "steps")
		for i := 0; i < steps; i++ {
			// late finalization of an earlier validated snapshot
			if len(pending) > 0 && rapid.IntRange(0, 2).Draw(t, "finalize_pending") == 0 {
				p := pending[0]
				pending = pending[1:]
				// rebuild the snapshot against the current head (the proposer re-announces); same transactions
				s := e.snapshotFor(t, p.txs)
				ok, verr := e.validate(s, p.txs, true)
				fin, pan, err := e.finalize(s, p.txs)
				if ok && (pan != nil || err != nil || !fin) {
					t.Fatalf("snapshot %s whose %d members all validated could not be finalized: finalized=%v err=%v panic=%v", s.Hash, len(p.txs), fin, err, pan)
				}
				for _, tx := range p.txs {
					if tx.DepositData() != nil {
						pendDeposits[tx.Asset]--
					}
					if fin {
						e.noteFinalized(tx)
					}
				}
				c.Case(s.Hash.String(), true, "late-finalize")
				_ = verr
				continue
			}
			n := rapid.IntRange(1, 4).Draw(t, "members")
			var txs []*common.VersionedTransaction
			var cl []string
			sameAssetPending := false
			freeform := false
			for m := 0; m < n; m++ {
				e.seq++
				if kind := rapid.IntRange(0, 8).Draw(t, "member_kind"); len(e.outs) > 0 && kind <= 4 {
					acct := func(label string) *common.Address { return &e.net.Accts[rapid.IntRange(0, 3).Draw(t, label)] }
					switch {
					case kind <= 1: // transfer: 1..3 inputs of one asset into 1..3 outputs
						ins := e.takeOuts(t, rapid.IntRange(1, 3).Draw(t, "nin"), nil)
						nout := rapid.IntRange(1, 3).Draw(t, "nout")
						txs = append(txs, e.spend(ins, nil, nil, func(tx *common.Transaction, total common.Integer) {
							rest := total
							for k := 0; k < nout; k++ {
								amt := rest
								if k < nout-1 {
									amt = total.Div(nout + 1)
									if amt.Sign() <= 0 {
										continue
									}
									rest = rest.Sub(amt)
								}
								tx.AddOutputWithType(common.OutputTypeScript, []*common.Address{acct("to")}, common.NewThresholdScript(1), amt, vpKSeed("c16-tr", e.seq, k))
							}
							if len(e.finalKeys) > 0 && rapid.IntRange(0, 7).Draw(t, "reuse_key") == 0 {
								// a wallet reusing an output seed: one output (any position) carries
								// a one-time key that already belongs to a finalized transaction.
								// Nothing is demanded of validation (it refuses this), but what it
								// lets through must finalize
								pos := rapid.IntRange(0, len(tx.Outputs)-1).Draw(t, "reuse_pos")
								k := *e.finalKeys[rapid.IntRange(0, len(e.finalKeys)-1).Draw(t, "reuse_of")]
								tx.Outputs[pos].Keys[0] = &k
								freeform = true
								cl = append(cl, "output-key-of-finalized-transaction")
								if pos < len(tx.Outputs)-1 {
									cl = append(cl, "reused-key-not-in-last-output")
								}
							}
						}))
						cl = append(cl, "transfer")
						if len(ins) >= 2 {
							cl = append(cl, "transfer-multi-input")
						}
					case kind <= 3: // withdrawal submit, mostly with a change output
						ins := e.takeOuts(t, rapid.IntRange(1, 2).Draw(t, "nin"), nil)
						withChange := rapid.IntRange(0, 3).Draw(t, "change") != 0
						txs = append(txs, e.spend(ins, nil, nil, func(tx *common.Transaction, total common.Integer) {
							w := total
							if part := total.Div(rapid.IntRange(2, 10).Draw(t, "withdraw_part")); withChange && part.Sign() > 0 {
								w = part
							}
							tx.Outputs = append(tx.Outputs, &common.Output{Type: common.OutputTypeWithdrawalSubmit, Amount: w, Withdrawal: &common.WithdrawalData{Address: fmt.Sprintf("addr-%d", e.seq), Tag: "t"}})
							if w.Cmp(total) < 0 {
								rest := total.Sub(w)
								odd := common.Zero
								if third := rest.Div(3); third.Sign() > 0 && rapid.IntRange(0, 5).Draw(t, "odd_output") == 0 {
									odd = third
									rest = rest.Sub(odd)
								}
								tx.AddOutputWithType(common.OutputTypeScript, []*common.Address{acct("change_to")}, common.NewThresholdScript(1), rest, vpKSeed("c16-ch", e.seq))
								cl = append(cl, "submit-with-change")
								if odd.Sign() > 0 {
									// a further output that is not a plain script output: nothing is
									// demanded of validation, but what it lets through must finalize
									ot := rapid.SampledFrom([]uint8{0x77, common.OutputTypeWithdrawalClaim, common.OutputTypeNodePledge, common.OutputTypeNodeRemove, common.OutputTypeWithdrawalSubmit, 0xb2}).Draw(t, "odd_type")
									tx.AddOutputWithType(ot, []*common.Address{acct("odd_to")}, common.NewThresholdScript(1), odd, vpKSeed("c16-odd", e.seq))
									freeform = true
									cl = append(cl, "submit-odd-output")
								}
							}
						}))
						cl = append(cl, "submit")
						e.submitsPending = append(e.submitsPending, txs[len(txs)-1])
					default: // withdrawal claim (XIN fee) for a finalized submit
						xin := common.XINAssetId
						fee := common.NewIntegerFromString("0.0001")
						if len(e.submits) == 0 && len(e.submitsPending) == 0 {
							continue
						}
						ins := e.takeOuts(t, 1, &xin)
						if len(ins) == 0 || ins[0].tx.Outputs[ins[0].idx].Amount.Cmp(fee) <= 0 {
							e.outs = append(e.outs, ins...)
							continue
						}
						var ref crypto.Hash
						if len(e.submitsPending) > 0 && (len(e.submits) == 0 || rapid.IntRange(0, 1).Draw(t, "claim_pending") == 0) {
							// the submit it names is validated and persisted but not finalized yet
							ref = e.submitsPending[rapid.IntRange(0, len(e.submitsPending)-1).Draw(t, "claim_of_pending")].PayloadHash()
							freeform = true
							cl = append(cl, "claim-of-pending-submit")
						} else {
							ref = e.submits[rapid.IntRange(0, len(e.submits)-1).Draw(t, "claim_of")]
						}
						body := []byte(fmt.Sprintf("claim-%d", e.seq))
						sig := e.net.Custodian.PrivateSpendKey.Sign(crypto.Blake3Hash(body))
						txs = append(txs, e.spend(ins, []crypto.Hash{ref}, append(sig[:], body...), func(tx *common.Transaction, total common.Integer) {
							tx.Outputs = append(tx.Outputs, &common.Output{Type: common.OutputTypeWithdrawalClaim, Amount: fee})
							tx.AddOutputWithType(common.OutputTypeScript, []*common.Address{acct("claim_change")}, common.NewThresholdScript(1), total.Sub(fee), vpKSeed("c16-cl", e.seq))
						}))
						cl = append(cl, "claim")
					}
					continue
				}
				a := e.assets[rapid.SampledFrom([]int{0, 1, 1, 2}).Draw(t, "asset")]
				amt := uint64(rapid.IntRange(1, 1200).Draw(t, "amount"))
				if a.cap > 0 && a.cap < 10000 && rapid.Bool().Draw(t, "big_amount") {
					amt = uint64(rapid.IntRange(600, 1200).Draw(t, "amount_big")) // the small capacity is reached within a few deposits
				}
				if a.cap > 0 && a.used+amt > a.cap {
					c.Class("excluded-known")
					if a.used >= a.cap {
						continue
					}
					amt = a.cap - a.used // fill up to one unit below the capacity
					cl = append(cl, "near-capacity")
				}
				a.used += amt
				owner := rapid.IntRange(0, 3).Draw(t, "owner")
				chain, key := a.chain, a.key
				if a.bound && rapid.IntRange(0, 5).Draw(t, "info_variant") == 0 {
					// a deposit naming the bound asset id with slightly different asset
					// information: nothing is demanded of validation, but whatever it
					// lets through must be finalizable
					switch rapid.IntRange(0, 3).Draw(t, "variant") {
					case 0:
						key = strings.ToUpper(key)
					case 1:
						key = strings.ToLower(key)
					case 2:
						key = key + " "
					default:
						chain = common.EthereumAssetId
						if a.chain == chain {
							chain = common.BitcoinAssetId
						}
					}
					if key != a.key || chain != a.chain {
						freeform = true
						cl = append(cl, "deposit-info-variant")
					}
				}
				tx := e.net.Deposit(a.id, chain, key, common.NewInteger(amt), owner, fmt.Sprintf("0xc16-%d", e.seq), uint64(rapid.IntRange(0, 2).Draw(t, "dep_index")), e.seq)
				if freeform {
					a.used -= amt // not counted unless it really gets finalized (it never should)
				}
				if pendDeposits[a.id] > 0 {
					sameAssetPending = true
				}
				pendDeposits[a.id]++
				txs = append(txs, tx)
			}
			if len(txs) == 0 {
				continue
			}
			if len(txs) >= 2 {
				cl = append(cl, "batch>=2")
			}
			if sameAssetPending {
				cl = append(cl, "pending-deposits-same-asset")
			}
			s := e.snapshotFor(t, txs)
			if !freeform && rapid.IntRange(0, 3).Draw(t, "defer") == 0 {
				// validated on the ordinary path now (locks, bodies), finalized by a later step
				s.Hash = s.PayloadHash()
				ok, _ := e.validate(s, txs, false)
				if ok {
					pending = append(pending, &vpC16Pending{snap: s, txs: txs})
					c.Class("deferred")
					continue
				}
			}
			ok, verr := e.validate(s, txs, true)
			fin, pan, err := e.finalize(s, txs)
			if ok && (pan != nil || err != nil || !fin) {
				t.Fatalf("snapshot %s whose %d members all validated could not be finalized: finalized=%v err=%v panic=%v", s.Hash, len(txs), fin, err, pan)
			}
			if !ok {
				if freeform {
					// a member that validation is free to refuse was refused
					c.Case(s.Hash.String(), true, append(cl, "variant-refused")...)
					continue
				}
				t.Fatalf("model-valid snapshot members rejected by validation: %v", verr)
			}
			if back, _ := e.k.Node.persistStore.ReadSnapshot(s.Hash); back == nil {
				t.Fatalf("finalized snapshot %s not readable", s.Hash)
			}
			for _, tx := range txs {
				if tx.DepositData() != nil {
					pendDeposits[tx.Asset]--
				}
				e.noteFinalized(tx)
			}
			c.Case(s.Hash.String(), len(txs) >= 2 || sameAssetPending, cl...)
			c.Sample(map[string]any{"members": len(txs), "classes": cl, "round": s.RoundNumber, "chain": s.NodeId.String()[:8]})
		}
	})
}

// vpC16Owner finds which account owns output 0 of tx.
func vpC16Owner(e *vpC16Env, tx *common.VersionedTransaction) int {
	o := tx.Outputs[0]
	for i := range e.net.Accts {
		a := &e.net.Accts[i]
		if len(o.Keys) > 0 {
			pub := crypto.ViewGhostOutputKey(o.Keys[0], &a.PrivateViewKey, &o.Mask, 0)
			if *pub == a.PublicSpendKey {
				return i
			}
		}
	}
	return 0
}

// Known finding C16-F4: deposits that each pass validation cannot all be
// finalized. Three witnesses of one root cause (deposit validation looks only
// at finalized asset state).
func TestVP_C16_known_F4(t *testing.T) {
	if kit.Replaying() {
		return
	}
	c := kit.New(t, "C16", "deterministic witnesses of known finding C16-F4 (a: two validated BTC deposits of 1500 against capacity 2500; b: two validated deposits binding one unlisted asset id to different (chain,key) pairs)")
	run := func(name string, mk func(e *vpC16Env) [2]*common.VersionedTransaction) (failed bool, what string) {
		e := vpC16Start("c16w" + name)
		defer e.Close()
		pair := mk(e)
		var snaps [2]*common.Snapshot
		for i, tx := range pair {
			e.clock += uint64(100 * time.Millisecond)
			s := e.k.NextSnapshot(1+i, []crypto.Hash{tx.PayloadHash()}, e.clock, false, 0)
			e.k.Certify(s, 0)
			ok, err := e.validate(s, []*common.VersionedTransaction{tx}, false)
			if !ok {
				return false, fmt.Sprintf("deposit %d no longer passes validation: %v", i, err)
			}
			snaps[i] = s
		}
		for i, tx := range pair {
			fin, pan, err := e.finalize(snaps[i], []*common.VersionedTransaction{tx})
			if pan != nil || err != nil || !fin {
				return true, fmt.Sprintf("deposit %d validated but finalization gave finalized=%v err=%v panic=%v", i, fin, err, pan)
			}
		}
		return false, "both finalized"
	}
	failedA, whatA := run("a", func(e *vpC16Env) [2]*common.VersionedTransaction {
		return [2]*common.VersionedTransaction{e.net.BTCDeposit(common.NewInteger(1500), 0, "0xf4a1", 1), e.net.BTCDeposit(common.NewInteger(1500), 1, "0xf4a2", 2)}
	})
	failedB, whatB := run("b", func(e *vpC16Env) [2]*common.VersionedTransaction {
		id := crypto.Sha256Hash([]byte("c16-f4b"))
		return [2]*common.VersionedTransaction{
			e.net.Deposit(id, common.EthereumAssetId, "0x01", common.NewInteger(1), 0, "0xf4b1", 0, 1),
			e.net.Deposit(id, common.EthereumAssetId, "0x02", common.NewInteger(1), 1, "0xf4b2", 0, 2)}
	})
	c.Case("F4a", true)
	c.Case("F4b", true)
	c.Sample(map[string]any{"F4a": whatA, "F4b": whatB})
	if failedA {
		kit.ReportKnown(t, "C16", "C16-F4", "two BTC deposits of 1500 both pass validation (capacity 2500, only finalized total is consulted); the second finalization panics in the asset total assertion: "+whatA)
	}
	if failedB {
		kit.ReportKnown(t, "C16", "C16-F4", "two deposits binding one new asset id to different (chain,key) pairs both pass validation; the second cannot be finalized: "+whatB)
	}
}
