//go:build verif

package kernel

import (
	"fmt"
	"os"
	"sort"
	"strings"
	"testing"
	"time"

	"github.com/MixinNetwork/mixin/common"
	"github.com/MixinNetwork/mixin/crypto"
	"pgregory.net/rapid"
	kit "verifkit"
)

type vpC20Final struct {
	node   int
	number uint64
	hash   crypto.Hash
}

type vpC20View struct {
	number  uint64
	refs    common.RoundLink
	links   map[int]uint64
	slinks  map[int]uint64
	final   crypto.Hash
	finalNo uint64
	cacheNo uint64
	crefs   common.RoundLink
}

func vpC20Observe(e *vpC16Env, ci int) (*vpC20View, error) {
	id := e.net.NodeIds[ci]
	r, err := e.k.Node.persistStore.ReadRound(id)
	if err != nil || r == nil {
		return nil, fmt.Errorf("head round unreadable: %v", err)
	}
	chain := e.k.Node.getOrCreateChain(id)
	v := &vpC20View{number: r.Number, refs: *r.References, links: map[int]uint64{}, slinks: map[int]uint64{},
		final: chain.State.FinalRound.Hash, finalNo: chain.State.FinalRound.Number, cacheNo: chain.State.CacheRound.Number, crefs: *chain.State.CacheRound.References}
	for oi, oid := range e.net.NodeIds {
		if oi == ci {
			continue
		}
		l, err := e.k.Node.persistStore.ReadLink(id, oid)
		if err != nil {
			return nil, err
		}
		v.links[oi] = l
		v.slinks[oi] = chain.State.RoundLinks[oid]
	}
	return v, nil
}

func (a *vpC20View) equal(b *vpC20View) string {
	if a.number != b.number || a.refs != b.refs || a.final != b.final || a.finalNo != b.finalNo || a.cacheNo != b.cacheNo || a.crefs != b.crefs {
		return fmt.Sprintf("round state changed: %+v -> %+v", *a, *b)
	}
	for k, v := range a.links {
		if b.links[k] != v || b.slinks[k] != a.slinks[k] {
			return fmt.Sprintf("link to chain %d changed: stored %d->%d, in memory %d->%d", k, v, b.links[k], a.slinks[k], b.slinks[k])
		}
	}
	return ""
}

// vpC20Ctx is the bookkeeping of one history: every final round seen so far,
// the classes reached and the trace.
type vpC20Ctx struct {
	e        *vpC16Env
	finals   []vpC20Final
	classes  map[string]bool
	okChains map[int]int
	trace    []string
}

func (x *vpC20Ctx) known(h crypto.Hash) *vpC20Final {
	for i := range x.finals {
		if x.finals[i].hash == h {
			return &x.finals[i]
		}
	}
	return nil
}

func (x *vpC20Ctx) note(ci int) {
	ch := x.e.k.Node.getOrCreateChain(x.e.net.NodeIds[ci])
	if ch == nil || ch.State == nil {
		return
	}
	if x.known(ch.State.FinalRound.Hash) == nil {
		x.finals = append(x.finals, vpC20Final{ci, ch.State.FinalRound.Number, ch.State.FinalRound.Hash})
	}
}

// attempt tries one round start or empty-head reference update on chain ci with
// drawn references and judges it (the oracle of C20).
func (x *vpC20Ctx) attempt(t *rapid.T, ci int, si int) {
	e, classes, okChains := x.e, x.classes, x.okChains
	known, note := x.known, x.note
	finals := x.finals
	trace := x.trace
	defer func() { x.trace = trace }()
	store := e.k.Node.persistStore
	id := e.net.NodeIds[ci]
	chain := e.k.Node.getOrCreateChain(id)
	flagDraw := func() bool { return rapid.Bool().Draw(t, "flag") }
	_ = flagDraw
		before, err := vpC20Observe(e, ci)
		if err != nil {
			t.Fatal(err)
		}
		cache, final := chain.StateCopy()
		// references
		refs := &common.RoundLink{}
		var wantSelf crypto.Hash
		startRound := len(cache.Snapshots) > 0
		if startRound {
			_, _, h := common.ComputeRoundHash(id, cache.Number, append([]*common.Snapshot{}, cache.Snapshots...))
			wantSelf = h
		} else {
			wantSelf = cache.References.Self
		}
		refs.Self = wantSelf
		kind := rapid.SampledFrom([]string{"valid", "valid", "valid", "stale", "self", "unknown", "wrong-self"}).Draw(t, "ref_kind")
		var others, stale, own []vpC20Final
		for _, f := range finals {
			if f.node == ci {
				own = append(own, f)
			} else if f.number >= before.links[f.node] {
				others = append(others, f)
			} else {
				stale = append(stale, f)
			}
		}
		switch kind {
		case "valid":
			f := others[rapid.IntRange(0, len(others)-1).Draw(t, "ext_pick")]
			refs.External = f.hash
		case "stale":
			if len(stale) == 0 {
				return
			}
			refs.External = stale[rapid.IntRange(0, len(stale)-1).Draw(t, "stale_pick")].hash
		case "self":
			refs.External = own[rapid.IntRange(0, len(own)-1).Draw(t, "own_pick")].hash
		case "unknown":
			refs.External = crypto.Blake3Hash([]byte(fmt.Sprint("unknown", si)))
		case "wrong-self":
			refs.Self = crypto.Blake3Hash([]byte(fmt.Sprint("wrong", si)))
			refs.External = others[rapid.IntRange(0, len(others)-1).Draw(t, "ext_pick")].hash
		}
		ts := e.clock + uint64(rapid.IntRange(1, 2000).Draw(t, "ts_ms"))*uint64(time.Millisecond)
		flag := rapid.Bool().Draw(t, "flag")
		var ok bool
		var dummy bool
		var opErr error
		var pan any
		if startRound {
			finalized := flag
			if !finalized {
				classes["strict"] = true
			}
			pan = vpKCatch(func() {
				_, nf, d, err := chain.startNewRoundAndPersist(cache, refs, ts, finalized)
				ok, dummy, opErr = err == nil && nf != nil, d, err
			})
			trace = append(trace, fmt.Sprintf("start(%d,%s,finalized=%v)=%v", ci, kind, finalized, ok))
		} else {
			strict := flag
			if strict {
				classes["strict"] = true
			}
			pan = vpKCatch(func() {
				opErr = chain.updateEmptyHeadRoundAndPersist(final, cache, refs, ts, strict)
				ok = opErr == nil
			})
			trace = append(trace, fmt.Sprintf("update(%d,%s,strict=%v)=%v", ci, kind, strict, ok))
		}
		if pan != nil {
			t.Fatalf("round transition with %s references panicked: %v\ntrace %v", kind, pan, trace)
		}
		after, err := vpC20Observe(e, ci)
		if err != nil {
			t.Fatal(err)
		}
		if !ok {
			if d := before.equal(after); d != "" {
				t.Fatalf("rejected transition (%s: %v) changed the chain: %s\ntrace %v", kind, opErr, d, trace)
			}
			switch kind {
			case "stale", "self", "unknown", "wrong-self":
				classes["reject-"+kind] = true
			}
			return
		}
		// success
		if kind == "stale" || kind == "self" || kind == "wrong-self" {
			t.Fatalf("transition with %s references accepted\ntrace %v", kind, trace)
		}
		if startRound {
			if after.number != before.number+1 {
				t.Fatalf("new round number %d, previous %d", after.number, before.number)
			}
			classes["start-ok"] = true
		} else {
			if after.number != before.number {
				t.Fatalf("reference update changed the round number %d -> %d", before.number, after.number)
			}
			classes["update-ok"] = true
		}
		if after.refs.Self != wantSelf {
			t.Fatalf("stored self reference %s is not the hash of the previous round %s", after.refs.Self, wantSelf)
		}
		ext := known(after.refs.External)
		if ext == nil {
			t.Fatalf("stored external reference %s is not a known final round (kind %s dummy %v)\ntrace %v", after.refs.External, kind, dummy, trace)
		}
		if ext.node == ci {
			t.Fatalf("stored external reference points at the chain's own round")
		}
		if er, _ := store.ReadRound(after.refs.External); er == nil || er.NodeId == id {
			t.Fatalf("external round unreadable or own: %v", er)
		}
		if dummy || kind == "unknown" {
			classes["dummy-external"] = true
		}
		for oi, l := range after.links {
			if l < before.links[oi] {
				t.Fatalf("stored link to chain %d decreased %d -> %d\ntrace %v", oi, before.links[oi], l, trace)
			}
			if l != after.slinks[oi] {
				t.Fatalf("stored link to chain %d is %d, in-memory link %d\ntrace %v", oi, l, after.slinks[oi], trace)
			}
		}
		if after.links[ext.node] < ext.number && !dummy {
			t.Fatalf("link to chain %d is %d after referencing its round %d", ext.node, after.links[ext.node], ext.number)
		}
		okChains[ci]++
		note(ci)
}

func TestVP_C20_round_links(t *testing.T) {
	c := kit.New(t, "C20", "rapid: a real node with 7 chains; steps = grow a chain (certified snapshot through the finalization path, optionally with its own round transition) | attempt a round start (finalization-path and strict checks) | attempt an empty-head reference update (strict and not), with references drawn from {correct self + any known final round of another chain (current or older), external = a final round of the chain itself, unknown hash, wrong self}; oracle: success => stored head number is exactly one higher (round start) or unchanged (update), self reference equals the independently recomputed hash of the previous round's snapshot set, the external reference names a known final round of a different chain, stored link never decreases and equals the in-memory link; rejection (error / nil) => stored round, links and in-memory chain state identical to before; a panic from the store's assertions is a violation (references are peer supplied); non-trivial = >=2 successful transitions on >=2 chains and >=1 rejected stale/self/unknown; distinct by trace")
	c.Require("start-ok", "update-ok", "reject-stale", "reject-self", "reject-unknown", "reject-wrong-self", "dummy-external", "strict", "nontrivial")
	kit.SetChecks(kit.N(250, 1500))
	rapid.Check(t, func(t *rapid.T) {
		e := vpC16Start("c20")
		defer e.Close()
		x := &vpC20Ctx{e: e, classes: map[string]bool{}, okChains: map[int]int{}}
		for ci := range e.net.NodeIds {
			x.note(ci)
		}
		note, classes, okChains := x.note, x.classes, x.okChains
		steps := rapid.IntRange(10, 40).Draw(t, "steps")
		for si := 0; si < steps; si++ {
			ci := rapid.IntRange(0, 6).Draw(t, "chain")
			id := e.net.NodeIds[ci]
			chain := e.k.Node.getOrCreateChain(id)
			op := rapid.IntRange(0, 4).Draw(t, "op")
			if op <= 1 { // grow
				e.seq++
				tx := e.net.BTCDeposit(common.NewInteger(1), 0, fmt.Sprintf("0xc20-%d", e.seq), e.seq)
				e.clock += uint64(rapid.IntRange(1, 900).Draw(t, "dt_ms")) * uint64(time.Millisecond)
				if rapid.IntRange(0, 7).Draw(t, "jump") == 0 {
					// hours pass: chains that do not grow fall behind, so that
					// references to their rounds become too old for the strict rules
					e.clock += uint64(rapid.IntRange(5, 9).Draw(t, "jump_h")) * uint64(time.Hour)
					classes["time-jump"] = true
				}
				newRound := false
				if cache := chain.State.CacheRound; len(cache.Snapshots) > 0 {
					start, _ := cache.Gap()
					newRound = e.clock >= start+uint64(3*time.Second) || rapid.IntRange(0, 2).Draw(t, "newround") == 0
				}
				s := e.k.NextSnapshot(ci, []crypto.Hash{tx.PayloadHash()}, e.clock, newRound, (ci+1+rapid.IntRange(0, 5).Draw(t, "ext"))%7)
				e.k.Certify(s, 0)
				fin, pan, err := e.finalize(s, []*common.VersionedTransaction{tx})
				if pan != nil || err != nil || !fin {
					t.Fatalf("growing chain %d failed: %v %v %v", ci, fin, err, pan)
				}
				note(ci)
				x.trace = append(x.trace, fmt.Sprintf("grow(%d,new=%v)", ci, newRound))
				continue
			}
			x.attempt(t, ci, si)
		}
		rejected := classes["reject-stale"] || classes["reject-self"] || classes["reject-unknown"]
		total := 0
		for _, n := range okChains {
			total += n
		}
		nt := len(okChains) >= 2 && total >= 2 && rejected
		var cl []string
		for k := range classes {
			cl = append(cl, k)
		}
		if nt {
			cl = append(cl, "nontrivial")
		}
		trace := x.trace
		c.Case(fmt.Sprint(trace), nt, cl...)
		if len(trace) > 14 {
			trace = trace[:14]
		}
		c.Sample(map[string]any{"trace_head": trace, "successful_transitions": total, "chains": len(okChains)})
	})
}

// The same oracle on a ledger with a membership history: an 8th node pledges
// and is accepted, the oldest node is removed, and the process restarts, so
// that the in-memory links are the ones loadState rebuilds from the store for
// accepted and for removed nodes alike.
func TestVP_C20_membership_restart(t *testing.T) {
	c := kit.New(t, "C20", "rapid: a real node runs a generated multi-chain workload (deposits, transfers, batches, round transitions, custodian updates) that first makes 2..4 chains reference increasing final rounds of the future removal candidate, then funds and pledges an 8th node, accepts it >= 12 h later and (2 of 3) removes the oldest node in the next window; then (3 of 4) the process is stopped and restarted on the same store; then 8..20 round starts / empty-head reference updates are attempted on drawn chains with references drawn as in TestVP_C20_round_links (valid, stale, self, unknown, wrong self; the removed node's and the new node's rounds are among the candidates); oracle: identical to TestVP_C20_round_links (accepted => number +1 / unchanged, self = recomputed hash, external = known final round of another chain, stored link never decreases and equals the in-memory link; rejected => stored round, links and chain state unchanged; stale/self/wrong-self never accepted; no panic); non-trivial = restarted after a removal and >=1 stale reference to the removed node's chain judged; distinct by trace")
	c.Require("restarted", "removed-node", "stale-to-removed-chain", "reject-stale", "update-ok", "attempt-on-new-chain")
	kit.SetChecks(kit.N(24, 900))
	rapid.Check(t, func(t *rapid.T) {
		mode := rapid.SampledFrom([]int{2, 4, 4}).Draw(t, "mode")
		drawn := vpCWDrawMode(t, mode)
		net := vpCWNewNet("c20m")
		dir := vpKTempDir("c20m")
		defer os.RemoveAll(dir)
		self := vpCWSelfOf(drawn)
		k, err := vpKStart(net, dir, self, nil)
		if err != nil {
			t.Fatalf("start: %v", err)
		}
		e := &vpC16Env{k: k, net: net, dir: dir}
		defer func() { e.k.Stop() }()
		// the node the kernel will remove: the oldest accepted one
		victim := -1
		cand := k.Node.NodesListWithoutState(vpCWBase(net), true)[0]
		for i, id := range net.NodeIds {
			if id == cand.IdForNetwork {
				victim = i
			}
		}
		// prefix: the victim's chain closes rounds, other chains reference them
		var prefix []vpCWStep
		dep := func(chain int, newRound bool, ext int) {
			prefix = append(prefix, vpCWStep{Kind: "deposit", Chain: chain, Asset: 1, Owner: len(prefix) % 4, NewRound: newRound, Ext: ext,
				Dt: uint64(rapid.IntRange(1, 900).Draw(t, "pdt_ms")) * uint64(time.Millisecond)})
		}
		levels := rapid.IntRange(1, 3).Draw(t, "levels")
		for l := 0; l < levels; l++ {
			dep(victim, false, 0)
			dep(victim, true, (victim+1+rapid.IntRange(0, 5).Draw(t, "vext"))%7)
			for j, n := 0, rapid.IntRange(1, 3).Draw(t, "referrers"); j < n; j++ {
				a := (victim + 1 + rapid.IntRange(0, 5).Draw(t, "referrer")) % 7
				dep(a, false, 0)
				dep(a, true, victim)
			}
		}
		steps := vpCWPrepend(prefix, drawn)
		run := vpCWNew(k, steps)
		x := &vpC20Ctx{e: e, classes: map[string]bool{}, okChains: map[int]int{}}
		noteAll := func() {
			for ci := range net.NodeIds {
				x.note(ci)
			}
		}
		noteAll()
		for i := range steps {
			var eerr error
			if p := vpKCatch(func() { eerr = run.exec(i) }); p != nil || eerr != nil {
				t.Fatalf("workload step %d (%s): %v %v", i, steps[i].Kind, p, eerr)
			}
			noteAll()
		}
		e.clock = run.clock
		removed := false
		for _, cn := range k.Node.NodesListWithoutState(^uint64(0)>>1, false) {
			if cn.State == common.NodeStateRemoved {
				removed = true
				x.classes["removed-node"] = true
			}
		}
		linkToVictim := false
		for ci, id := range net.NodeIds {
			if ci == victim {
				continue
			}
			if l, _ := k.Node.persistStore.ReadLink(id, net.NodeIds[victim]); l > 0 {
				linkToVictim = true
			}
		}
		if rapid.IntRange(0, 3).Draw(t, "restart") != 0 {
			e.k.Stop()
			k2, err := vpKStart(net, dir, self, nil)
			if err != nil {
				t.Fatalf("restart: %v", err)
			}
			e.k = k2
			x.classes["restarted"] = true
		}
		var live []int
		for ci, id := range net.NodeIds {
			if ch := e.k.Node.getOrCreateChain(id); ch != nil && ch.State != nil {
				live = append(live, ci)
			}
		}
		n := rapid.IntRange(8, 20).Draw(t, "attempts")
		staleToVictim := false
		for si := 0; si < n; si++ {
			ci := live[rapid.IntRange(0, len(live)-1).Draw(t, "chain")]
			if ci == vpCWJoin {
				x.classes["attempt-on-new-chain"] = true
			}
			before := len(x.trace)
			x.attempt(t, ci, si)
			if len(x.trace) > before && linkToVictim && removed && ci != victim && strings.Contains(x.trace[len(x.trace)-1], "stale") {
				// a stale candidate exists only for chains with a positive link; with
				// the prefix above these are links to the victim's chain
				staleToVictim = true
			}
		}
		if staleToVictim {
			x.classes["stale-to-removed-chain"] = true
		}
		var cl []string
		for k := range x.classes {
			cl = append(cl, k)
		}
		sort.Strings(cl)
		c.Case(fmt.Sprint(vpCWDescribe(steps), x.trace), x.classes["restarted"] && removed && staleToVictim, cl...)
		tr := x.trace
		if len(tr) > 12 {
			tr = tr[:12]
		}
		c.Sample(map[string]any{"workload": vpCWDescribe(steps), "attempts": tr, "classes": cl})
	})
}
