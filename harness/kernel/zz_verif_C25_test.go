//go:build verif

package kernel

import (
	"fmt"
	"math/big"
	"sort"
	"sync"
	"testing"
	"time"

	"github.com/MixinNetwork/mixin/common"
	"github.com/MixinNetwork/mixin/crypto"
	"github.com/MixinNetwork/mixin/storage"
	"pgregory.net/rapid"
	kit "verifkit"
)

// C25.
// (a) schedule: mintBatchSize never increases with the batch number, the sum over
//     all batches never exceeds MintPool, mintMultiBatchesSize(o,b) is the sum of
//     the single batches, and an independent math/big recurrence
//     (pool <- pool - floor(pool/10) per 365 batches) agrees.
// (b) distribution: the outputs of buildUniversalMintTransaction sum exactly to the
//     batch amount, the kernel nodes get at most floor(amount/10)*5, the custodian
//     exactly floor(amount/10)*4, every output is positive, and a node with more
//     work (1.2*lead + sign) never receives less than a node with less work.

const (
	vpC25Years = 10000 // mintBatchSize refuses batch/365 > 10000
	// A node share is floor(base*f_i/sum f) with f_i >= avg/7, sum f <= 2*avg*n and base =
	// floor(amount/10)*5, so with n <= 50 every share is at least one unit whenever the
	// amount is at least 1410 units. Distributions are generated for batches whose
	// single-batch size is at least this many units (schedule years 0..152).
	vpC25DistMinUnits = 1500
)

// ---- independent reference of the schedule (units of 1e-8) ----

type vpC25Ref struct {
	day        []*big.Int // per-batch size in schedule year y
	prefixYear []*big.Int // sum of all batches of the years before y
	firstZero  int        // first year whose per-batch size is zero
	distMax    uint64     // last batch whose size is at least vpC25DistMinUnits
	lastSub    int        // last year y such that all earlier yearly amounts are positive
}

var (
	vpC25RefOnce sync.Once
	vpC25RefVal  *vpC25Ref
)

func vpC25Reference() *vpC25Ref {
	vpC25RefOnce.Do(func() {
		r := &vpC25Ref{firstZero: -1, lastSub: vpC25Years}
		pool := new(big.Int).Mul(big.NewInt(500000), big.NewInt(100000000))
		sum := new(big.Int)
		ten, days := big.NewInt(10), big.NewInt(365)
		zeroYear := false
		for y := 0; y <= vpC25Years; y++ {
			year := new(big.Int).Div(pool, ten) // 10% of what is left
			day := new(big.Int).Div(year, days)
			r.day = append(r.day, day)
			r.prefixYear = append(r.prefixYear, new(big.Int).Set(sum))
			sum.Add(sum, new(big.Int).Mul(day, days))
			if day.Cmp(big.NewInt(vpC25DistMinUnits)) >= 0 {
				r.distMax = uint64(y)*365 + 364
			}
			if day.Sign() == 0 && r.firstZero < 0 {
				r.firstZero = y
			}
			if year.Sign() == 0 && !zeroYear {
				zeroYear = true
				r.lastSub = y
			}
			pool = new(big.Int).Sub(pool, year)
		}
		vpC25RefVal = r
	})
	return vpC25RefVal
}

// size of batch b
func (r *vpC25Ref) size(b uint64) *big.Int { return r.day[b/365] }

// sum of the sizes of batches 0..b inclusive
func (r *vpC25Ref) upTo(b uint64) *big.Int {
	y := b / 365
	s := new(big.Int).Mul(r.day[y], big.NewInt(int64(b%365)+1))
	return s.Add(s, r.prefixYear[y])
}

// sum over (o, b]
func (r *vpC25Ref) between(o, b uint64) *big.Int {
	return new(big.Int).Sub(r.upTo(b), r.upTo(o))
}

func vpC25Units(v common.Integer) *big.Int {
	b, ok := new(big.Int).SetString(vpC25StripDot(v.String()), 10)
	if !ok {
		panic(v.String())
	}
	return b
}

// vpC25StripDot turns the fixed 8-place decimal print into units.
func vpC25StripDot(s string) string {
	out := make([]byte, 0, len(s))
	for i := 0; i < len(s); i++ {
		if s[i] != '.' {
			out = append(out, s[i])
		}
	}
	return string(out)
}

func vpC25Catch(f func()) (msg string) {
	defer func() {
		if r := recover(); r != nil {
			msg = fmt.Sprintf("panic: %v", r)
		}
	}()
	f()
	return ""
}

// ---- known findings (zero amounts in the far tail of the schedule) ----

// C25-K1: once the remaining pool is below 10 units (schedule year 285 onwards)
// mintBatchSize panics in Integer.Sub(0) instead of returning 0, and
// mintMultiBatchesSize panics in Integer.Add(0) for every range that contains a
// batch of size zero (schedule year 250 onwards).
func vpC25K1Witness() (tail string, multi string) {
	r := vpC25Reference()
	tail = vpC25Catch(func() { mintBatchSize(uint64(r.lastSub+1) * 365) })
	fz := uint64(r.firstZero) * 365
	multi = vpC25Catch(func() { mintMultiBatchesSize(fz-1, fz) })
	return
}

func TestVP_C25_known_1(t *testing.T) {
	if shard, _ := kit.Shard(); kit.Replaying() || shard != 0 {
		return // deterministic witness: once per check run
	}
	tail, multi := vpC25K1Witness()
	r := vpC25Reference()
	if tail != "" || multi != "" {
		kit.ReportKnown(t, "C25", "C25-K1", fmt.Sprintf("schedule tail: mintBatchSize(%d) (year %d) -> %q; mintMultiBatchesSize(%d,%d) (first zero-size batch) -> %q", (r.lastSub+1)*365, r.lastSub+1, tail, r.firstZero*365-1, r.firstZero*365, multi))
	}
}

// ---- (a) schedule ----

func TestVP_C25_schedule_exhaustive(t *testing.T) {
	c := kit.New(t, "C25", "deterministic sweep over the schedule years 0..10000 (first, last and one inner batch of every year) against a math/big recurrence; non-trivial = every (year, batch) pair; distinct by batch number")
	if kit.Replaying() {
		return
	}
	r := vpC25Reference()
	tail, _ := vpC25K1Witness()
	limit := vpC25Years
	if tail != "" {
		// C25-K1: years after lastSub panic; that class is reported by TestVP_C25_known_1 and excluded here
		limit = r.lastSub
		c.ClassN("excluded-known", vpC25Years-limit)
	}
	// beyond year 400 every call costs O(year); the quick tier strides, the thorough tier splits the years across shards
	shard, shards := kit.Shard()
	pool := vpC25Units(MintPool)
	total := new(big.Int)
	var prev *big.Int
	years := 0
	for y := 0; y <= limit; y++ {
		full := y <= 400 || y == limit
		if !full {
			if kit.Thorough() {
				full = y%shards == shard
			} else {
				full = y%211 == 0
			}
		}
		var first *big.Int
		if full {
			inner := uint64(y)*365 + 1 + (uint64(y)*7919)%363
			for _, b := range []uint64{uint64(y) * 365, inner, uint64(y)*365 + 364} {
				var got common.Integer
				if p := vpC25Catch(func() { got = mintBatchSize(b) }); p != "" {
					t.Fatalf("mintBatchSize(%d) (year %d): %s", b, y, p)
				}
				u := vpC25Units(got)
				if u.Cmp(r.day[y]) != 0 {
					t.Fatalf("mintBatchSize(%d) = %s units, reference recurrence %s", b, u, r.day[y])
				}
				if prev != nil && u.Cmp(prev) > 0 {
					t.Fatalf("mintBatchSize increases at batch %d: %s after %s", b, u, prev)
				}
				prev = u
				if first == nil {
					first = u
				}
				c.Case(fmt.Sprint(b), true, "batch")
			}
			years++
		} else {
			first = r.day[y]
		}
		total.Add(total, new(big.Int).Mul(first, big.NewInt(365)))
		if total.Cmp(pool) > 0 {
			t.Fatalf("cumulative mint after year %d is %s units > MintPool %s", y, total, pool)
		}
	}
	c.Class("cumulative<=pool")
	c.Set("years_evaluated", years)
	c.Set("year_limit", limit)
	c.Set("cumulative_units", total.String())
	c.Set("first_zero_size_year", r.firstZero)
	if limit == vpC25Years && !kit.Thorough() {
		c.Exhaustive("schedule years 0..400 and every 211th year up to 10000: first, inner and last batch of the year")
	} else if limit == vpC25Years {
		c.Exhaustive("all 10001 schedule years (split across shards): first, inner and last batch of each year")
	} else {
		c.Exhaustive(fmt.Sprintf("all schedule years 0..%d on which mintBatchSize is defined (first, inner and last batch of each year); later years are known finding C25-K1", limit))
	}
	// the guard itself
	if p := vpC25Catch(func() { mintBatchSize(uint64(vpC25Years+1) * 365) }); p == "" {
		t.Fatalf("mintBatchSize beyond the 10000-year horizon returned instead of refusing")
	}
}

func TestVP_C25_schedule_multi(t *testing.T) {
	c := kit.New(t, "C25", "rapid: ranges (old, batch] with batch at year edges (365k-1, 365k, 365k+1) or uniform, length 1, 2, 364..366 or 1..800; mintMultiBatchesSize compared with the reference sum and, for short ranges, with the sum of mintBatchSize; non-trivial = range crossing a year edge; distinct by (old,batch)")
	c.Require("crosses-year", "single", "long")
	r := vpC25Reference()
	_, multi := vpC25K1Witness()
	maxBatch := uint64(vpC25Years)*365 + 364
	if tail, _ := vpC25K1Witness(); tail != "" {
		maxBatch = uint64(r.lastSub)*365 + 364
	}
	if multi != "" {
		// C25-K1: ranges containing a zero-size batch panic; excluded by construction
		maxBatch = uint64(r.firstZero)*365 - 1
		c.Class("excluded-known")
	}
	kit.SetChecks(kit.N(1000, 60000))
	rapid.Check(t, func(t *rapid.T) {
		var b uint64
		if rapid.Bool().Draw(t, "edge") {
			y := uint64(rapid.IntRange(1, int(maxBatch/365)).Draw(t, "edge_year"))
			b = y*365 + uint64(rapid.IntRange(0, 2).Draw(t, "edge_off")) - 1
		} else if rapid.Bool().Draw(t, "early") {
			b = uint64(rapid.IntRange(1, 4000).Draw(t, "early_batch"))
		} else {
			b = uint64(rapid.Uint64Range(1, maxBatch).Draw(t, "batch"))
		}
		if b > maxBatch {
			b = maxBatch
		}
		l := uint64(rapid.SampledFrom([]int{1, 2, 3, 364, 365, 366, 0, 0, 0}).Draw(t, "len"))
		if l == 0 {
			l = uint64(rapid.IntRange(1, 800).Draw(t, "len_any"))
		}
		if l > b {
			l = b
		}
		o := b - l
		var got common.Integer
		if p := vpC25Catch(func() { got = mintMultiBatchesSize(o, b) }); p != "" {
			t.Fatalf("mintMultiBatchesSize(%d,%d): %s", o, b, p)
		}
		want := r.between(o, b)
		if u := vpC25Units(got); u.Cmp(want) != 0 {
			t.Fatalf("mintMultiBatchesSize(%d,%d) = %s units, sum of batches %s", o, b, u, want)
		}
		classes := []string{}
		if l <= 60 {
			sum := new(big.Int)
			for i := o + 1; i <= b; i++ {
				sum.Add(sum, vpC25Units(mintBatchSize(i)))
			}
			if sum.Cmp(vpC25Units(got)) != 0 {
				t.Fatalf("mintMultiBatchesSize(%d,%d) = %s, sum of mintBatchSize = %s units", o, b, got, sum)
			}
			classes = append(classes, "summed-singles")
		}
		cross := o/365 != b/365 || (o+1)/365 != b/365
		if cross {
			classes = append(classes, "crosses-year")
		}
		if l == 1 {
			classes = append(classes, "single")
		}
		if l >= 365 {
			classes = append(classes, "long")
		}
		c.Case(fmt.Sprintf("%d-%d", o, b), cross, classes...)
	})
	// the documented refusal of an empty or inverted range
	for _, p := range [][2]uint64{{5, 5}, {6, 5}} {
		if vpC25Catch(func() { mintMultiBatchesSize(p[0], p[1]) }) == "" {
			t.Fatalf("mintMultiBatchesSize(%d,%d) returned for an empty range", p[0], p[1])
		}
	}
}

// ---- (b) distribution ----

// vpC25Store serves exactly what the mint builder reads.
type vpC25Store struct {
	storage.Store
	dist        *common.MintDistribution
	today       uint32
	worksToday  map[crypto.Hash][2]uint64
	worksPrev   map[crypto.Hash][2]uint64
	checkpoints map[crypto.Hash]*common.RoundSpace
	spaces      map[crypto.Hash][]*common.RoundSpace
	last        *common.Snapshot
	lastTx      *common.VersionedTransaction
	askedPrev   bool
}

func (s *vpC25Store) ReadLastMintDistribution(batch uint64) (*common.MintDistribution, error) {
	return s.dist, nil
}

func (s *vpC25Store) ListNodeWorks(cids []crypto.Hash, day uint32) (map[crypto.Hash][2]uint64, error) {
	src := map[crypto.Hash][2]uint64{}
	switch day {
	case s.today:
		src = s.worksToday
	case s.today - 1:
		src = s.worksPrev
		s.askedPrev = true
	}
	out := make(map[crypto.Hash][2]uint64, len(cids))
	for _, id := range cids {
		if w, ok := src[id]; ok {
			out[id] = w
		}
	}
	return out, nil
}

func (s *vpC25Store) ListAggregatedRoundSpaceCheckpoints(cids []crypto.Hash) (map[crypto.Hash]*common.RoundSpace, error) {
	out := map[crypto.Hash]*common.RoundSpace{}
	for _, id := range cids {
		if sp := s.checkpoints[id]; sp != nil {
			out[id] = sp
		}
	}
	return out, nil
}

func (s *vpC25Store) ReadNodeRoundSpacesForBatch(id crypto.Hash, batch uint64) ([]*common.RoundSpace, error) {
	return s.spaces[id], nil
}

func (s *vpC25Store) ReadLastConsensusSnapshot() (*common.Snapshot, error) { return s.last, nil }

func (s *vpC25Store) ReadTransaction(h crypto.Hash) (*common.VersionedTransaction, string, error) {
	if s.lastTx != nil && h == s.lastTx.PayloadHash() {
		return s.lastTx, s.last.Hash.String(), nil
	}
	return nil, "", nil
}

func (s *vpC25Store) LockGhostKeys(keys []*crypto.Key, tx crypto.Hash, fork bool) error { return nil }

var (
	vpC25AddrOnce sync.Once
	vpC25Addrs    []common.Address // [0..63] signers, [64..127] payees, [128] custodian
)

func vpC25Addresses() []common.Address {
	vpC25AddrOnce.Do(func() {
		for i := 0; i < 129; i++ {
			seed := make([]byte, 64)
			for j := range seed {
				seed[j] = byte(i*131 + j*7 + 1)
			}
			vpC25Addrs = append(vpC25Addrs, common.NewAddressFromSeedInternalVanish(seed))
		}
	})
	return vpC25Addrs
}

// vpC25Work is the statement's "work" of a node: 1.2*lead + sign, kept exact as 6*lead + 5*sign (fifths).
func vpC25Work(w [2]uint64) *big.Int {
	a := new(big.Int).Mul(new(big.Int).SetUint64(w[0]), big.NewInt(6))
	b := new(big.Int).Mul(new(big.Int).SetUint64(w[1]), big.NewInt(5))
	return a.Add(a, b)
}

// vpC25DrawWork draws a (lead, sign) pair whose work is about mult/den times center.
func vpC25DrawWork(t *rapid.T, center uint64, num, den uint64) [2]uint64 {
	target := new(big.Int).Mul(new(big.Int).SetUint64(center), new(big.Int).SetUint64(num))
	target.Div(target, new(big.Int).SetUint64(den))
	if !target.IsUint64() {
		target.SetUint64(^uint64(0) >> 1)
	}
	tg := target.Uint64()
	jit := uint64(rapid.IntRange(0, 3).Draw(t, "work_jitter"))
	switch rapid.IntRange(0, 3).Draw(t, "work_split") {
	case 0: // all signing work
		return [2]uint64{0, tg + jit}
	case 1: // all leading work: 1.2*lead ~ target
		return [2]uint64{tg/6*5 + jit, 0}
	case 2:
		return [2]uint64{tg / 12 * 5, tg/2 + jit}
	default:
		l := tg / 6 * 5
		if l > 0 {
			l = uint64(rapid.Uint64Range(0, l).Draw(t, "work_lead"))
		}
		rest := tg - l/5*6
		if rest > tg {
			rest = 0
		}
		return [2]uint64{l, rest + jit}
	}
}

type vpC25Case struct {
	node     *Node
	store    *vpC25Store
	accepted []crypto.Hash // ids in the order the builder lists them
	works    map[crypto.Hash][2]uint64
	ts       uint64
	batch    uint64
	old      uint64
	ready    bool
	clampHi  int
	clampLo  int
	zeroWork int
	distinct int
}

func vpC25Generate(t *rapid.T, maxNodes int) *vpC25Case {
	addrs := vpC25Addresses()
	n := rapid.IntRange(7, maxNodes).Draw(t, "nodes")
	epoch := uint64(rapid.SampledFrom([]int64{1551312000, 1700000000, 1551312000 + 3333, 86400 * 3}).Draw(t, "epoch_s")) * uint64(time.Second)
	var net crypto.Hash
	copy(net[:], rapid.SliceOfN(rapid.Byte(), 32, 32).Draw(t, "network"))
	perm := rapid.Permutation([]int{0, 1, 2, 3, 4, 5, 6, 7, 8, 9, 10, 11, 12, 13, 14, 15, 16, 17, 18, 19, 20, 21, 22, 23, 24, 25, 26, 27, 28, 29, 30, 31, 32, 33, 34, 35, 36, 37, 38, 39, 40, 41, 42, 43, 44, 45, 46, 47, 48, 49, 50, 51, 52, 53, 54, 55, 56, 57, 58, 59, 60, 61, 62, 63}).Draw(t, "address_order")

	distMax := int(vpC25Reference().distMax)
	batch := uint64(rapid.IntRange(KernelNetworkLegacyEnding+1, distMax).Draw(t, "batch"))
	switch rapid.IntRange(0, 3).Draw(t, "batch_kind") {
	case 0:
		y := uint64(rapid.IntRange(5, distMax/365).Draw(t, "batch_year"))
		batch = y*365 + uint64(rapid.IntRange(0, 2).Draw(t, "batch_edge_off")) - 1
	case 1:
		batch = uint64(rapid.IntRange(KernelNetworkLegacyEnding+1, 4000).Draw(t, "batch_early"))
	}
	hour := uint64(rapid.IntRange(7, 9).Draw(t, "hour"))
	ts := epoch + batch*OneDay + hour*uint64(time.Hour) + uint64(rapid.Int64Range(0, int64(time.Hour)-1).Draw(t, "minute"))

	// membership: genesis nodes accepted at the epoch, later nodes accepted long before the mint, optional removed nodes
	genesisCount := rapid.IntRange(0, n).Draw(t, "genesis_nodes")
	removed := rapid.IntRange(0, 2).Draw(t, "removed_nodes")
	var all []*CNode
	gmap := map[crypto.Hash]bool{}
	for i := 0; i < n+removed; i++ {
		signer, payee := addrs[perm[i]], addrs[64+perm[i]]
		cn := &CNode{
			IdForNetwork: signer.Hash().ForNetwork(net),
			Signer:       signer,
			Payee:        payee,
			Transaction:  crypto.Blake3Hash([]byte(fmt.Sprintf("vpC25-accept-%d", perm[i]))),
			State:        common.NodeStateAccepted,
		}
		switch {
		case i < genesisCount:
			cn.Timestamp = epoch
			gmap[cn.IdForNetwork] = true
		case i < n:
			cn.Timestamp = epoch + uint64(rapid.Int64Range(int64(OneDay), int64(1000*OneDay)).Draw(t, "accepted_at"))
		default:
			cn.Timestamp = epoch + uint64(rapid.Int64Range(int64(1001*OneDay), int64(1500*OneDay)).Draw(t, "removed_at"))
			cn.State = common.NodeStateRemoved
		}
		all = append(all, cn)
	}
	// a removed node has an earlier accepted record
	for i := n; i < n+removed; i++ {
		acc := *all[i]
		acc.State = common.NodeStateAccepted
		acc.Timestamp = epoch + uint64(i)
		all = append(all, &acc)
	}
	sort.Slice(all, func(i, j int) bool {
		if all[i].Timestamp != all[j].Timestamp {
			return all[i].Timestamp < all[j].Timestamp
		}
		return all[i].IdForNetwork.String() < all[j].IdForNetwork.String()
	})
	store := &vpC25Store{}
	node := &Node{Epoch: epoch, networkId: net, persistStore: store, genesisNodesMap: gmap, Signer: addrs[perm[0]]}
	node.IdForNetwork = node.Signer.Hash().ForNetwork(net)
	node.allNodesSortedWithState = all
	node.nodeStateSequences = node.buildNodeStateSequences(all, false)
	node.acceptedNodeStateSequences = node.buildNodeStateSequences(all, true)

	cs := &vpC25Case{node: node, store: store, ts: ts, batch: batch, works: map[crypto.Hash][2]uint64{}, ready: true}
	for _, cn := range node.NodesListWithoutState(ts, true) {
		cs.accepted = append(cs.accepted, cn.IdForNetwork)
	}
	if len(cs.accepted) != n {
		t.Fatalf("harness: %d accepted nodes listed, built %d", len(cs.accepted), n)
	}
	thr := n*2/3 + 1

	// last mint
	switch rapid.IntRange(0, 3).Draw(t, "last_mint") {
	case 0:
		cs.old = KernelNetworkLegacyEnding // nothing minted by this kernel yet
		if batch-cs.old > 900 {
			cs.old = batch - uint64(rapid.IntRange(1, 800).Draw(t, "gap_capped"))
		}
	case 1:
		cs.old = batch - 1
	case 2:
		cs.old = batch - uint64(rapid.IntRange(2, 30).Draw(t, "gap_short"))
	default:
		cs.old = batch - uint64(rapid.IntRange(1, 800).Draw(t, "gap"))
	}
	if cs.old < KernelNetworkLegacyEnding {
		cs.old = KernelNetworkLegacyEnding
	}
	if cs.old > KernelNetworkLegacyEnding || rapid.Bool().Draw(t, "explicit_legacy_record") {
		store.dist = &common.MintDistribution{
			MintData:    common.MintData{Group: "UNIVERSAL", Batch: cs.old, Amount: common.NewIntegerFromString("89.87671232")},
			Transaction: crypto.Blake3Hash([]byte("vpC25-last-mint")),
		}
	}

	// last consensus operation (the mint must reference it)
	lt := common.NewTransactionV5(common.XINAssetId)
	lt.AddInput(crypto.Blake3Hash([]byte("vpC25-last-op-input")), 0)
	lt.Extra = []byte(fmt.Sprintf("vpC25-%d", batch))
	store.lastTx = lt.AsVersioned()
	store.last = &common.Snapshot{Version: common.SnapshotVersionCommonEncoding, NodeId: cs.accepted[0], RoundNumber: 3,
		References: &common.RoundLink{}, Timestamp: ts - uint64(time.Hour), Transactions: []crypto.Hash{store.lastTx.PayloadHash()}}
	store.last.Hash = store.last.PayloadHash()

	// today's aggregation state
	day := ts / OneDay
	store.today = uint32(day)
	store.worksToday, store.worksPrev = map[crypto.Hash][2]uint64{}, map[crypto.Hash][2]uint64{}
	store.checkpoints, store.spaces = map[crypto.Hash]*common.RoundSpace{}, map[crypto.Hash][]*common.RoundSpace{}
	active := rapid.IntRange(thr, n).Draw(t, "active_today")
	notReady := rapid.IntRange(0, 11).Draw(t, "not_ready")
	if notReady == 10 {
		active = rapid.IntRange(0, thr-1).Draw(t, "too_few_active")
		cs.ready = false
	}
	order := rapid.Permutation(append([]crypto.Hash{}, cs.accepted...)).Draw(t, "activity_order")
	for i, id := range order {
		if i < active {
			store.worksToday[id] = [2]uint64{uint64(rapid.IntRange(1, 500).Draw(t, "lead_today")), uint64(rapid.IntRange(0, 5000).Draw(t, "sign_today"))}
			store.checkpoints[id] = &common.RoundSpace{NodeId: id, Batch: day - epoch/OneDay + uint64(rapid.IntRange(0, 1).Draw(t, "checkpoint_ahead")), Round: 9}
		} else if rapid.Bool().Draw(t, "stale_checkpoint") {
			store.checkpoints[id] = &common.RoundSpace{NodeId: id, Batch: day - epoch/OneDay - 1, Round: 9}
			store.worksToday[id] = [2]uint64{0, uint64(rapid.IntRange(0, 50).Draw(t, "sign_only_today"))}
		}
		if rapid.IntRange(0, 4).Draw(t, "has_spaces") == 0 {
			store.spaces[id] = []*common.RoundSpace{{NodeId: id, Batch: day - epoch/OneDay - 1, Round: 5, Duration: uint64(time.Minute)}}
		}
	}
	if notReady == 11 && active > 0 {
		// one checkpoint lags: the aggregators disagree
		delete(store.checkpoints, order[0])
		cs.ready = false
	}

	// yesterday's works: clustered around a center so that the clamps and their edges are hit
	center := rapid.SampledFrom([]uint64{1, 7, 50, 1000, 98765, 1000000, 7_000_000_000, 1 << 40}).Draw(t, "center")
	zero := rapid.IntRange(0, n-thr).Draw(t, "zero_work_nodes")
	if rapid.IntRange(0, 14).Draw(t, "too_many_idle") == 14 {
		zero = n - thr + 1 + rapid.IntRange(0, thr-1).Draw(t, "extra_idle")
		cs.ready = false
	}
	mults := [][2]uint64{{1, 1}, {1, 1}, {1, 1}, {99, 100}, {101, 100}, {96, 100}, {104, 100}, {1, 2}, {2, 1}, {3, 1}, {1, 7}, {10, 71}, {10, 69}, {1, 8}, {1, 10}, {69, 10}, {7, 1}, {71, 10}, {8, 1}, {10, 1}, {1000000, 1}, {1, 1000}}
	widx := rapid.Permutation(append([]crypto.Hash{}, cs.accepted...)).Draw(t, "work_order")
	for i, id := range widx {
		if i < zero {
			if rapid.Bool().Draw(t, "idle_recorded") {
				store.worksPrev[id] = [2]uint64{0, 0}
			}
			cs.works[id] = [2]uint64{0, 0}
			continue
		}
		var w [2]uint64
		switch k := rapid.IntRange(0, 24).Draw(t, "work_kind"); {
		case k == 0:
			w = [2]uint64{1 << 63, 0}
		case k == 1:
			w = [2]uint64{0, ^uint64(0)}
		case k == 2:
			w = [2]uint64{0, 1}
		case k == 3:
			w = [2]uint64{1, 0}
		default:
			m := mults[rapid.IntRange(0, len(mults)-1).Draw(t, "work_mult")]
			w = vpC25DrawWork(t, center, m[0], m[1])
		}
		if w[0] == 0 && w[1] == 0 {
			w[1] = 1
		}
		store.worksPrev[id] = w
		cs.works[id] = w
	}
	return cs
}

// vpC25Classify fills the class counters from the raw works (classification only, not an oracle).
func (cs *vpC25Case) classify() {
	var valid []*big.Int
	seen := map[string]bool{}
	for _, id := range cs.accepted {
		w := vpC25Work(cs.works[id])
		seen[w.String()] = true
		if w.Sign() == 0 {
			cs.zeroWork++
			continue
		}
		valid = append(valid, w)
	}
	cs.distinct = len(seen)
	if len(valid) < 3 {
		return
	}
	sort.Slice(valid, func(i, j int) bool { return valid[i].Cmp(valid[j]) < 0 })
	sum := new(big.Int)
	for _, w := range valid[1 : len(valid)-1] {
		sum.Add(sum, w)
	}
	avg := sum.Div(sum, big.NewInt(int64(len(valid)-2)))
	hi := new(big.Int).Mul(avg, big.NewInt(7))
	for _, id := range cs.accepted {
		w := vpC25Work(cs.works[id])
		if w.Cmp(hi) >= 0 {
			cs.clampHi++
		}
		if new(big.Int).Mul(w, big.NewInt(7)).Cmp(avg) <= 0 {
			cs.clampLo++
		}
	}
}

func TestVP_C25_distribution(t *testing.T) {
	c := kit.New(t, "C25", "rapid: 7..50 accepted nodes (genesis and later accepted, plus removed ones), batch 1707..~year 152 (single-batch size >= 1500 units) at mint hours 7..9 (year edges biased), last mint 1..800 batches back or none, works (lead,sign) clustered around a center with multipliers on both sides of avg, 7*avg and avg/7, zero-work nodes up to n-threshold, extremes (2^63 lead, 2^64-1 sign, 1), aggregation state ready or not; full buildUniversalMintTransaction against a fake store, then Validate; non-trivial = built distribution with >=3 distinct work values incl. one clamped high and one clamped low; distinct by (batch, old, works)")
	c.Require("built", "not-built", "nontrivial", "clamped-high", "clamped-low", "zero-work-node", "multi-batch", "single-batch", "equal-works-pair", "removed-node-present", "nodes>=30", "validate-only-same-batch")
	c.Assume(fmt.Sprintf("batches up to %d (single-batch size >= %d units): the smallest node share is then at least 1 unit for 50 nodes; smaller amounts are known finding C25-K2", vpC25Reference().distMax, vpC25DistMinUnits))
	c.Set("excluded_known_batches_from", vpC25Reference().distMax+1)
	kit.SetChecks(kit.N(1500, 200000))
	maxNodes := 50
	custodian := vpC25Addresses()[128]
	ref := vpC25Reference()
	outer := t
	readyNoMint, readyStates := 0, 0
	defer func() {
		if readyNoMint*10 > readyStates && !outer.Failed() {
			kit.Inconclusive(outer, "generator: %d of %d states built as ready produced no mint", readyNoMint, readyStates)
		}
	}()
	rapid.Check(t, func(t *rapid.T) {
		cs := vpC25Generate(t, maxNodes)
		cs.classify()
		if cs.ready {
			readyStates++
		}
		req := &common.CustodianUpdateRequest{Custodian: &custodian}
		validateOnly := false
		wantAmount := ref.between(cs.old, cs.batch)
		if rapid.IntRange(0, 7).Draw(t, "validate_only_same_batch") == 0 {
			// the validator rebuilds an already recorded mint of this batch from its recorded amount
			validateOnly = true
			prev := cs.batch - uint64(rapid.IntRange(1, 400).Draw(t, "recorded_gap"))
			if prev < KernelNetworkLegacyEnding {
				prev = KernelNetworkLegacyEnding
			}
			wantAmount = ref.between(prev, cs.batch)
			var amt common.Integer
			amt = common.NewIntegerFromString(vpC25Print(wantAmount))
			cs.store.dist = &common.MintDistribution{MintData: common.MintData{Group: "UNIVERSAL", Batch: cs.batch, Amount: amt}, Transaction: crypto.Blake3Hash([]byte("vpC25-recorded"))}
			cs.old = prev
		} else if rapid.Bool().Draw(t, "validate_only_flag") {
			validateOnly = true
		}
		var tx *common.VersionedTransaction
		if p := vpC25Catch(func() { tx = cs.node.buildUniversalMintTransaction(req, cs.ts, validateOnly) }); p != "" {
			t.Fatalf("buildUniversalMintTransaction(batch %d, %d nodes): %s", cs.batch, len(cs.accepted), p)
		}
		fp := fmt.Sprintf("%d/%d/%v", cs.batch, cs.old, cs.works)
		if tx == nil {
			if cs.ready {
				// not demanded by the property, but the generator relies on it: a
				// ready state should produce a mint. Counted; the run is declared
				// inconclusive at the end if it happens in more than a tenth of the
				// ready states
				readyNoMint++
				c.Case(fp, false, "ready-state-produced-no-mint")
				return
			}
			c.Case(fp, false, "not-built")
			return
		}
		n := len(cs.accepted)
		if len(tx.Inputs) != 1 || tx.Inputs[0].Mint == nil {
			t.Fatalf("mint transaction without a mint input")
		}
		mint := tx.Inputs[0].Mint
		if mint.Batch != cs.batch {
			t.Fatalf("mint batch %d at a timestamp of batch %d", mint.Batch, cs.batch)
		}
		amount := vpC25Units(mint.Amount)
		if amount.Cmp(wantAmount) != 0 {
			t.Fatalf("mint amount %s units for batches (%d,%d], schedule sum %s", amount, cs.old, cs.batch, wantAmount)
		}
		if len(tx.Outputs) != n+2 {
			t.Fatalf("%d outputs for %d accepted nodes", len(tx.Outputs), n)
		}
		tenth := new(big.Int).Div(amount, big.NewInt(10))
		sum, nodes := new(big.Int), new(big.Int)
		outs := make([]*big.Int, len(tx.Outputs))
		for i, o := range tx.Outputs {
			outs[i] = vpC25Units(o.Amount)
			if outs[i].Sign() <= 0 {
				t.Fatalf("output %d of %d is %s", i, len(tx.Outputs), o.Amount)
			}
			sum.Add(sum, outs[i])
			if i < n {
				nodes.Add(nodes, outs[i])
			}
		}
		if sum.Cmp(amount) != 0 {
			t.Fatalf("outputs sum to %s units, batch amount %s", sum, amount)
		}
		if half := new(big.Int).Mul(tenth, big.NewInt(5)); nodes.Cmp(half) > 0 {
			t.Fatalf("kernel nodes receive %s units > floor(amount/10)*5 = %s", nodes, half)
		}
		if safe := new(big.Int).Mul(tenth, big.NewInt(4)); outs[n].Cmp(safe) != 0 {
			t.Fatalf("custodian output %s units, floor(amount/10)*4 = %s", outs[n], safe)
		}
		// work-monotone
		idx := make([]int, n)
		for i := range idx {
			idx[i] = i
		}
		work := func(i int) *big.Int { return vpC25Work(cs.works[cs.accepted[i]]) }
		sort.SliceStable(idx, func(a, b int) bool { return work(idx[a]).Cmp(work(idx[b])) < 0 })
		equalPair := false
		for k := 1; k < n; k++ {
			lo, hi := idx[k-1], idx[k]
			cmp := work(hi).Cmp(work(lo))
			if outs[hi].Cmp(outs[lo]) < 0 {
				t.Fatalf("node with work %v (%s fifths) receives %s units < %s units of node with work %v (%s fifths)", cs.works[cs.accepted[hi]], work(hi), outs[hi], outs[lo], cs.works[cs.accepted[lo]], work(lo))
			}
			if cmp == 0 {
				equalPair = true
				if outs[hi].Cmp(outs[lo]) != 0 {
					t.Fatalf("two nodes with equal work %s fifths receive %s and %s units", work(hi), outs[hi], outs[lo])
				}
			}
		}
		// the mint references the last consensus operation and passes the transaction rules
		if len(tx.References) != 1 || tx.References[0] != cs.store.lastTx.PayloadHash() {
			t.Fatalf("mint references %v, last consensus operation %s", tx.References, cs.store.lastTx.PayloadHash())
		}
		if !validateOnly || cs.store.dist == nil || cs.store.dist.Batch != cs.batch {
			if err := tx.SignInput(cs.store, 0, []*common.Address{&cs.node.Signer}); err != nil {
				t.Fatalf("SignInput: %v", err)
			}
			if err := tx.Validate(cs.store, cs.ts, false); err != nil {
				t.Fatalf("built mint transaction fails Validate: %v", err)
			}
		}
		classes := []string{"built"}
		nt := cs.distinct >= 3 && cs.clampHi > 0 && cs.clampLo > 0
		if nt {
			classes = append(classes, "nontrivial")
		}
		if cs.clampHi > 0 {
			classes = append(classes, "clamped-high")
		}
		if cs.clampLo > 0 {
			classes = append(classes, "clamped-low")
		}
		if cs.zeroWork > 0 {
			classes = append(classes, "zero-work-node")
		}
		if cs.batch-cs.old > 1 {
			classes = append(classes, "multi-batch")
		} else {
			classes = append(classes, "single-batch")
		}
		if equalPair {
			classes = append(classes, "equal-works-pair")
		}
		if len(cs.node.allNodesSortedWithState) > n {
			classes = append(classes, "removed-node-present")
		}
		if n >= 30 {
			classes = append(classes, "nodes>=30")
		}
		if validateOnly && cs.store.dist != nil && cs.store.dist.Batch == cs.batch {
			classes = append(classes, "validate-only-same-batch")
		}
		if !cs.store.askedPrev {
			t.Fatalf("harness: the builder never read the previous day's works")
		}
		c.Case(fp, nt, classes...)
		if nt {
			c.Sample(map[string]any{"batch": cs.batch, "old": cs.old, "nodes": n, "amount_units": amount.String(), "node_share_units": nodes.String(), "custodian_units": outs[n].String(), "light_units": outs[n+1].String(), "clamped_high": cs.clampHi, "clamped_low": cs.clampLo, "zero_work": cs.zeroWork})
		}
	})
}

// vpC25Fixed builds a ready mint state without any random draw: n genesis nodes with
// the given works, one batch after the last recorded mint, at 08:00 of the batch day.
func vpC25Fixed(n int, batch uint64, works [][2]uint64) *vpC25Case {
	addrs := vpC25Addresses()
	epoch := uint64(1551312000) * uint64(time.Second)
	net := crypto.Blake3Hash([]byte("vpC25-fixed-network"))
	var all []*CNode
	gmap := map[crypto.Hash]bool{}
	for i := 0; i < n; i++ {
		cn := &CNode{IdForNetwork: addrs[i].Hash().ForNetwork(net), Signer: addrs[i], Payee: addrs[64+i],
			Transaction: crypto.Blake3Hash([]byte(fmt.Sprintf("vpC25-accept-%d", i))), Timestamp: epoch, State: common.NodeStateAccepted}
		gmap[cn.IdForNetwork] = true
		all = append(all, cn)
	}
	sort.Slice(all, func(i, j int) bool { return all[i].IdForNetwork.String() < all[j].IdForNetwork.String() })
	store := &vpC25Store{}
	node := &Node{Epoch: epoch, networkId: net, persistStore: store, genesisNodesMap: gmap, Signer: addrs[0]}
	node.IdForNetwork = node.Signer.Hash().ForNetwork(net)
	node.allNodesSortedWithState = all
	node.nodeStateSequences = node.buildNodeStateSequences(all, false)
	node.acceptedNodeStateSequences = node.buildNodeStateSequences(all, true)
	ts := epoch + batch*OneDay + 8*uint64(time.Hour)
	cs := &vpC25Case{node: node, store: store, ts: ts, batch: batch, old: batch - 1, works: map[crypto.Hash][2]uint64{}, ready: true}
	store.dist = &common.MintDistribution{MintData: common.MintData{Group: "UNIVERSAL", Batch: batch - 1, Amount: common.NewInteger(1)}, Transaction: crypto.Blake3Hash([]byte("vpC25-last-mint"))}
	lt := common.NewTransactionV5(common.XINAssetId)
	lt.AddInput(crypto.Blake3Hash([]byte("vpC25-last-op-input")), 0)
	store.lastTx = lt.AsVersioned()
	store.last = &common.Snapshot{Version: common.SnapshotVersionCommonEncoding, NodeId: all[0].IdForNetwork, RoundNumber: 3,
		References: &common.RoundLink{}, Timestamp: ts - uint64(time.Hour), Transactions: []crypto.Hash{store.lastTx.PayloadHash()}}
	store.last.Hash = store.last.PayloadHash()
	day := ts / OneDay
	store.today = uint32(day)
	store.worksToday, store.worksPrev = map[crypto.Hash][2]uint64{}, map[crypto.Hash][2]uint64{}
	store.checkpoints, store.spaces = map[crypto.Hash]*common.RoundSpace{}, map[crypto.Hash][]*common.RoundSpace{}
	for i, cn := range node.NodesListWithoutState(ts, true) {
		cs.accepted = append(cs.accepted, cn.IdForNetwork)
		store.worksToday[cn.IdForNetwork] = [2]uint64{1, 1}
		store.checkpoints[cn.IdForNetwork] = &common.RoundSpace{NodeId: cn.IdForNetwork, Batch: day - epoch/OneDay, Round: 9}
		store.worksPrev[cn.IdForNetwork] = works[i%len(works)]
		cs.works[cn.IdForNetwork] = works[i%len(works)]
	}
	return cs
}

// C25-K2: when the batch amount is so small that a node share (or the whole kernel
// share) rounds down to zero, buildUniversalMintTransaction panics in Integer.Add(0)
// instead of producing positive outputs or declining to mint. The witness is the
// first batch of schedule year 200 (batch size 9 units) with 7 equally working nodes.
func vpC25K2Witness() (batch uint64, amountUnits *big.Int, pnc string, zeroOutput bool) {
	batch = 200 * 365
	amountUnits = vpC25Reference().size(batch)
	cs := vpC25Fixed(7, batch, [][2]uint64{{10, 100}})
	custodian := vpC25Addresses()[128]
	var tx *common.VersionedTransaction
	pnc = vpC25Catch(func() {
		tx = cs.node.buildUniversalMintTransaction(&common.CustodianUpdateRequest{Custodian: &custodian}, cs.ts, false)
	})
	if tx != nil {
		for _, o := range tx.Outputs {
			if o.Amount.Sign() <= 0 {
				zeroOutput = true
			}
		}
	}
	return
}

func TestVP_C25_known_2(t *testing.T) {
	if shard, _ := kit.Shard(); kit.Replaying() || shard != 0 {
		return // deterministic witness: once per check run
	}
	// sanity of the fixed builder on a batch inside the domain: it must mint
	cs := vpC25Fixed(7, 3000, [][2]uint64{{10, 100}})
	custodian := vpC25Addresses()[128]
	if tx := cs.node.buildUniversalMintTransaction(&common.CustodianUpdateRequest{Custodian: &custodian}, cs.ts, false); tx == nil {
		kit.Inconclusive(t, "fixed mint state does not mint at batch 3000")
		return
	}
	batch, amount, pnc, zero := vpC25K2Witness()
	if pnc != "" || zero {
		kit.ReportKnown(t, "C25", "C25-K2", fmt.Sprintf("dust distribution: buildUniversalMintTransaction for batch %d (amount %s units, 7 nodes) -> %q zero-output=%v", batch, amount, pnc, zero))
	}
}

// vpC25Print prints units as a decimal with eight places.
func vpC25Print(u *big.Int) string {
	q, r := new(big.Int).QuoRem(u, big.NewInt(100000000), new(big.Int))
	return fmt.Sprintf("%s.%08d", q, r.Int64())
}
