//go:build verif

package kernel

import (
	"fmt"
	"os"
	"strings"
	"testing"
	"time"

	"github.com/MixinNetwork/mixin/common"
	"github.com/MixinNetwork/mixin/config"
	"github.com/MixinNetwork/mixin/crypto"
	"pgregory.net/rapid"
	kit "verifkit"
)

// A workload is pure data so that it can be replayed from genesis for every
// crash point.
type vpCWStep struct {
	Kind     string // deposit | transfer | custodian | batch | fund | pledge | accept | remove
	Chain    int    // requested chain (0..6 genesis, 7 the joining node); remapped when not eligible at the step's time
	Asset    int    // 0 XIN, 1 BTC
	Owner    int
	Prev     int // index of the deposit step spent by a transfer / funding a custodian update or a pledge; for accept: the pledge step
	NewRound bool
	Ext      int
	Dt       uint64
	Jump     uint64 // whole hours the workload clock advances before the step (membership steps additionally move into their legal hour window)
	Self     int    // on step 0 only: which node the process under test is (0 = genesis member 0, vpCWJoin = the joining node itself)
}

func vpCWSelfOf(steps []vpCWStep) int {
	if len(steps) > 0 {
		return steps[0].Self
	}
	return 0
}

const vpCWHour = uint64(time.Hour)
const vpCWJoin = 7 // index of the joining node in net.Signers / net.NodeIds / net.Payees

func vpCWIsCons(kind string) bool {
	switch kind {
	case "custodian", "pledge", "accept", "remove":
		return true
	}
	return false
}

// vpCWNewNet is the generated 7-node network plus the keys of one node that
// may join later (registered so that it can co-sign once accepted).
func vpCWNewNet(tag string) *vpKNet {
	net := vpKNewNet(7, tag, 4)
	net.AddSigner(vpKNodeAddr(vpKSeed(tag, "join-signer")))
	net.Payees = append(net.Payees, vpKNodeAddr(vpKSeed(tag, "join-payee")))
	return net
}

type vpCWRun struct {
	k         *vpKNode
	net       *vpKNet
	steps     []vpCWStep
	txOf      map[int][]*common.VersionedTransaction // step -> its transactions
	snapOf    map[int]*common.Snapshot
	clock     uint64
	lastCons  crypto.Hash
	consSnaps []*common.Snapshot // consensus-class snapshots in workload order
	seq       int
	chainOf   map[int]int
	done      map[int]bool
	joinSigns map[int]bool // steps whose certificate the joined node co-signed
	holds     map[crypto.Hash]map[int]bool // transaction -> chains a snapshot with it was made for
}

func (r *vpCWRun) holdsAny(hs []crypto.Hash, ci int) bool {
	for _, h := range hs {
		if r.holds[h][ci] {
			return true
		}
	}
	return false
}

func vpCWBase(net *vpKNet) uint64 {
	// day 2, hour 12 after the epoch: outside mint/custodian-forbidden hours,
	// a legal pledge hour, and years before the wall clock
	return net.Epoch + uint64(36*time.Hour)
}

type vpCWGen struct {
	t           *rapid.T
	steps       []vpCWStep
	deposits    []int
	xinDeposits []int
	spent       map[int]bool
	cons        int
}

func (g *vpCWGen) base(joinBias bool) vpCWStep {
	t := g.t
	st := vpCWStep{Chain: rapid.IntRange(0, vpCWJoin).Draw(t, "chain"), Owner: rapid.IntRange(0, 3).Draw(t, "owner"),
		NewRound: rapid.IntRange(0, 3).Draw(t, "newround") == 0, Ext: rapid.IntRange(0, 6).Draw(t, "ext"),
		Dt: uint64(rapid.IntRange(1, 900).Draw(t, "dt_ms")) * uint64(time.Millisecond)}
	if joinBias && rapid.IntRange(0, 1).Draw(t, "on_joiner") == 0 {
		st.Chain = vpCWJoin
	}
	return st
}

func (g *vpCWGen) free(list []int) int {
	for _, d := range list {
		if !g.spent[d] {
			return d
		}
	}
	return -1
}

// ordinary appends one step of the pre-existing kinds.
func (g *vpCWGen) ordinary(joinBias bool, jump uint64) {
	t := g.t
	i := len(g.steps)
	st := g.base(joinBias)
	st.Jump = jump
	kind := rapid.IntRange(0, 10).Draw(t, "kind")
	switch {
	case kind <= 3 || len(g.deposits) == 0:
		st.Kind = "deposit"
		st.Asset = rapid.IntRange(0, 1).Draw(t, "asset")
	case kind == 10:
		// a transaction some chain finalized already is included once more, by
		// another chain's snapshot
		st.Kind, st.Prev = "again", g.deposits[rapid.IntRange(0, len(g.deposits)-1).Draw(t, "again_of")]
		g.steps = append(g.steps, st)
		// and the round that holds the repeated transaction is closed by the next
		// snapshot of that chain (the start-up validator judges final rounds)
		seal := g.base(false)
		seal.Kind, seal.Prev, seal.Asset, seal.NewRound = "seal", i, 1, true
		g.steps = append(g.steps, seal)
		return
	case kind <= 5:
		if d := g.free(g.deposits); d >= 0 {
			st.Kind, st.Prev = "transfer", d
			g.spent[d] = true
		} else {
			st.Kind = "deposit"
		}
	case kind <= 7 && g.cons < 3:
		if d := g.free(g.xinDeposits); d >= 0 {
			st.Kind, st.Prev = "custodian", d
			g.spent[d] = true
			g.cons++
		} else {
			st.Kind, st.Asset = "deposit", 0
		}
	default:
		st.Kind = "batch"
		st.Asset = rapid.IntRange(0, 1).Draw(t, "asset")
	}
	if st.Kind == "deposit" {
		g.deposits = append(g.deposits, i)
		if st.Asset == 0 {
			g.xinDeposits = append(g.xinDeposits, i)
		}
	}
	g.steps = append(g.steps, st)
}

func (g *vpCWGen) special(kind string, prev int) int {
	st := g.base(false)
	st.Kind, st.Prev, st.Asset = kind, prev, 0
	g.steps = append(g.steps, st)
	return len(g.steps) - 1
}

// vpCWDraw draws a workload over >= 3 chains. Mode 0 is the plain workload
// (6..16 steps); the other modes embed the membership life cycle: a funding
// deposit and the pledge of an 8th node, optionally its acceptance (round 0 of
// the new chain, >= 12h later in the accept window), optionally steps after the
// new node matured (>= 12h after acceptance; some on the new chain, the new
// node co-signing) and optionally the removal of the oldest node in the next
// window. mode < 0 draws the mode.
func vpCWDrawMode(t *rapid.T, mode int) []vpCWStep {
	g := &vpCWGen{t: t, spent: map[int]bool{}}
	if mode < 0 {
		mode = rapid.SampledFrom([]int{0, 0, 1, 2, 2, 3, 3, 4, 4, 4}).Draw(t, "mode")
	}
	if mode == 0 {
		n := rapid.IntRange(6, 16).Draw(t, "steps")
		for i := 0; i < n; i++ {
			g.ordinary(false, 0)
		}
		if rapid.IntRange(0, 2).Draw(t, "with_links") == 0 {
			return vpCWPrepend(vpCWLinkPrefix(t, rapid.IntRange(0, 6).Draw(t, "link_target")), g.steps)
		}
		return g.steps
	}
	self := rapid.SampledFrom([]int{0, 0, vpCWJoin}).Draw(t, "self")
	a := rapid.IntRange(2, 5).Draw(t, "steps_before_pledge")
	fundAt := rapid.IntRange(0, a).Draw(t, "fund_at")
	fund := -1
	for i := 0; i <= a; i++ {
		if i == fundAt {
			fund = g.special("fund", 0)
			g.spent[fund] = true
		}
		if i < a {
			g.ordinary(false, 0)
		}
	}
	pledge := g.special("pledge", fund)
	for i, b := 0, rapid.IntRange(0, 3).Draw(t, "steps_while_pledging"); i < b; i++ {
		g.ordinary(false, 0)
	}
	if mode >= 2 {
		g.special("accept", pledge)
		for i, c := 0, rapid.IntRange(0, 3).Draw(t, "steps_after_accept"); i < c; i++ {
			g.ordinary(false, 0)
		}
	}
	if mode >= 3 {
		g.ordinary(true, uint64(rapid.IntRange(12, 14).Draw(t, "mature_jump_h")))
		for i, d := 0, rapid.IntRange(1, 3).Draw(t, "steps_mature"); i < d; i++ {
			g.ordinary(true, 0)
		}
	}
	if mode >= 4 {
		g.special("remove", 0)
		for i, e := 0, rapid.IntRange(0, 2).Draw(t, "steps_after_remove"); i < e; i++ {
			g.ordinary(true, 0)
		}
	}
	g.steps[0].Self = self
	if rapid.IntRange(0, 2).Draw(t, "with_links") == 0 {
		return vpCWPrepend(vpCWLinkPrefix(t, rapid.IntRange(0, 6).Draw(t, "link_target")), g.steps)
	}
	return g.steps
}

// vpCWLinkPrefix makes chain x close 1..2 rounds while 1..3 other chains start
// rounds that reference them, so that the stored reference links are positive
// and differ by direction.
func vpCWLinkPrefix(t *rapid.T, x int) []vpCWStep {
	var prefix []vpCWStep
	dep := func(chain int, newRound bool, ext int) {
		prefix = append(prefix, vpCWStep{Kind: "deposit", Chain: chain, Asset: 1, Owner: len(prefix) % 4, NewRound: newRound, Ext: ext,
			Dt: uint64(rapid.IntRange(1, 900).Draw(t, "pdt_ms")) * uint64(time.Millisecond)})
	}
	for l, levels := 0, rapid.IntRange(1, 2).Draw(t, "levels"); l < levels; l++ {
		dep(x, false, 0)
		dep(x, true, (x+1+rapid.IntRange(0, 5).Draw(t, "xext"))%7)
		for j, n := 0, rapid.IntRange(1, 3).Draw(t, "referrers"); j < n; j++ {
			a := (x + 1 + rapid.IntRange(0, 5).Draw(t, "referrer")) % 7
			dep(a, false, 0)
			dep(a, true, x)
		}
	}
	return prefix
}

// vpCWPrepend inserts prefix before a drawn workload (step indexes in Prev move).
func vpCWPrepend(prefix, steps []vpCWStep) []vpCWStep {
	out := append([]vpCWStep{}, prefix...)
	for _, st := range steps {
		switch st.Kind {
		case "transfer", "custodian", "pledge", "accept", "again", "seal":
			st.Prev += len(prefix)
		}
		out = append(out, st)
	}
	if len(steps) > 0 && len(prefix) > 0 {
		out[0].Self, out[len(prefix)].Self = steps[0].Self, 0
	}
	return out
}

func vpCWDraw(t *rapid.T, nodes int) []vpCWStep { return vpCWDrawMode(t, -1) }

func vpCWNew(k *vpKNode, steps []vpCWStep) *vpCWRun {
	r := &vpCWRun{k: k, net: k.Net, steps: steps, txOf: map[int][]*common.VersionedTransaction{}, snapOf: map[int]*common.Snapshot{}, chainOf: map[int]int{}, done: map[int]bool{}, joinSigns: map[int]bool{}, holds: map[crypto.Hash]map[int]bool{}}
	r.clock = vpCWBase(k.Net)
	last, err := k.Node.persistStore.ReadLastConsensusSnapshot()
	if err != nil || last == nil {
		panic(fmt.Sprint("no consensus snapshot ", err))
	}
	r.lastCons = last.Transactions[0]
	return r
}

func (r *vpCWRun) hourOf(ts uint64) int { return int((ts - r.net.Epoch) / vpCWHour % 24) }

// advance moves ts forward (never back) to the first instant >= min whose hour
// of the network day satisfies ok.
func (r *vpCWRun) advance(ts, min uint64, ok func(h int) bool) uint64 {
	if ts < min {
		ts = min
	}
	for !ok(r.hourOf(ts)) {
		ts = r.net.Epoch + ((ts-r.net.Epoch)/vpCWHour+1)*vpCWHour + ts%1000003
	}
	return ts
}

// lastMembership is the time of the latest membership record in the ledger.
func (r *vpCWRun) lastMembership() uint64 {
	nodes := r.k.Node.persistStore.ReadAllNodes(^uint64(0)>>1, true)
	return nodes[len(nodes)-1].Timestamp
}

func (r *vpCWRun) indexOf(id crypto.Hash) int {
	for ci, x := range r.net.NodeIds {
		if x == id {
			return ci
		}
	}
	panic(fmt.Sprint("unknown node id ", id))
}

// eligible: the chain's node is a member of the signer set at ts (accepted,
// matured when it is not a genesis node, not the predicted removal candidate
// inside the operation window) and the chain has a round to append to. This is
// what checkActionSanity demands from a proposer.
func (r *vpCWRun) eligible(ci int, ts uint64) bool {
	chain := r.k.Node.getOrCreateChain(r.net.NodeIds[ci])
	if chain == nil || chain.State == nil {
		return false
	}
	ids, _ := chain.ConsensusKeys(1, ts)
	for _, id := range ids {
		if id == chain.ChainId {
			return true
		}
	}
	return false
}

func (r *vpCWRun) pickChain(want int, ts uint64) int {
	n := len(r.net.NodeIds)
	for j := 0; j < n; j++ {
		if ci := (want + j) % n; r.eligible(ci, ts) {
			return ci
		}
	}
	panic("no eligible chain")
}

// pickExt: an external reference to a genesis chain whose node is still a
// member at ts (the new node's chain is too young to be referenced).
func (r *vpCWRun) pickExt(want, self int, ts uint64) int {
	for j := 0; j < 7; j++ {
		ci := (want + j) % 7
		if ci == self {
			continue
		}
		if r.k.Node.getAcceptedOrPledgingNode(r.net.NodeIds[ci], ts) != nil {
			return ci
		}
	}
	panic("no external chain")
}

// prepare builds (deterministically) the transactions of step i; consensus
// steps are built against the run's last consensus transaction, the removal
// against the membership at the run's clock.
func (r *vpCWRun) prepare(i int) []*common.VersionedTransaction {
	if txs, ok := r.txOf[i]; ok {
		return txs
	}
	st := r.steps[i]
	var txs []*common.VersionedTransaction
	dep := func(asset, owner, n int) *common.VersionedTransaction {
		id := fmt.Sprintf("0xw%d-%d", i, n)
		if asset == 0 {
			return r.net.XINDeposit(common.NewInteger(uint64(1+i)), owner, id, i)
		}
		return r.net.BTCDeposit(common.NewInteger(1), owner, id, i)
	}
	switch st.Kind {
	case "deposit", "seal":
		txs = append(txs, dep(st.Asset, st.Owner, 0))
	case "fund":
		txs = append(txs, r.net.XINDeposit(common.KernelNodePledgeAmount, st.Owner, fmt.Sprintf("0xw%d-fund", i), i))
	case "batch":
		txs = append(txs, dep(st.Asset, st.Owner, 0), dep(1-st.Asset, (st.Owner+1)%4, 1))
	case "again":
		txs = append(txs, r.prepare(st.Prev)[0])
	case "transfer":
		prev := r.prepare(st.Prev)[0]
		txs = append(txs, r.net.Transfer(prev, r.steps[st.Prev].Owner, []int{st.Owner, (st.Owner + 1) % 4}, i, nil, nil))
	case "custodian":
		prev := r.prepare(st.Prev)[0]
		txs = append(txs, r.net.CustodianUpdate(prev, r.steps[st.Prev].Owner, r.lastCons, i))
	case "pledge":
		prev := r.prepare(st.Prev)[0]
		txs = append(txs, r.net.NodePledge(prev, r.steps[st.Prev].Owner, r.net.Signers[vpCWJoin], r.net.Payees[vpCWJoin], r.lastCons))
	case "accept":
		pledge := r.prepare(st.Prev)[0]
		txs = append(txs, r.net.NodeAccept(pledge, r.net.Signers[vpCWJoin], r.lastCons))
	case "remove":
		acc := r.k.Node.NodesListWithoutState(r.clock, true)
		cand := acc[0] // the oldest accepted node
		accept, _, err := r.k.Node.persistStore.ReadTransaction(cand.Transaction)
		if err != nil || accept == nil {
			panic(fmt.Sprint("accept transaction of the removal candidate ", err))
		}
		txs = append(txs, r.net.NodeRemove(accept, cand.Signer, cand.Payee, r.lastCons))
	}
	r.txOf[i] = txs
	return txs
}

// snapshot builds and certifies the snapshot of step i against the node's
// current chain state (idempotent per step once built).
func (r *vpCWRun) snapshot(i int) *common.Snapshot {
	if s, ok := r.snapOf[i]; ok {
		return s
	}
	st := r.steps[i]
	node := r.k.Node
	r.clock += st.Jump*vpCWHour + st.Dt
	window := func(h int) bool {
		return h >= config.KernelNodeAcceptTimeBegin && h <= config.KernelNodeAcceptTimeEnd
	}
	half := uint64(config.KernelNodePledgePeriodMinimum)
	op := byte(0)
	switch st.Kind {
	case "custodian":
		op = common.TransactionTypeCustodianUpdateNodes
		r.clock = r.advance(r.clock, 0, func(h int) bool { return h < config.KernelMintTimeBegin-1 || h > config.KernelMintTimeEnd+1 })
	case "pledge":
		op = common.TransactionTypeNodePledge
		r.clock = r.advance(r.clock, r.lastMembership()+half+1, func(h int) bool {
			return !window(h) && (h < config.KernelMintTimeBegin || h > config.KernelMintTimeEnd)
		})
	case "accept":
		p := node.PledgingNode(r.clock)
		if p == nil {
			panic("accept step without a pledging node")
		}
		r.clock = r.advance(r.clock, p.Timestamp+uint64(config.KernelNodeAcceptPeriodMinimum)+1, window)
	case "remove":
		op = common.TransactionTypeNodeRemove
		r.clock = r.advance(r.clock, r.lastMembership()+half+1, window)
	}
	txs := r.prepare(i)
	var hs []crypto.Hash
	for _, tx := range txs {
		hs = append(hs, tx.PayloadHash())
	}
	extra, rot := int(r.clock%3), int(r.clock/3%11)
	if st.Kind == "accept" {
		r.chainOf[i] = vpCWJoin
		s := r.k.InitialSnapshot(r.net.NodeIds[vpCWJoin], hs[0], r.clock)
		r.k.CertifyRot(s, extra+int(r.clock/5%2), rot)
		r.snapOf[i] = s
		return s
	}
	chainIdx := 0
	if op != 0 {
		chainIdx = r.indexOf(node.electSnapshotNode(op, r.clock))
	} else {
		chainIdx = r.pickChain(st.Chain, r.clock)
		if prev, ok := r.chainOf[st.Prev]; st.Kind == "seal" && ok && r.eligible(prev, r.clock) {
			chainIdx = prev
		}
		// a chain holds a transaction once: a snapshot repeating one goes to a
		// chain that has not included it (no honest signer certifies another)
		for j := 1; j <= len(r.net.NodeIds) && r.holdsAny(hs, chainIdx); j++ {
			chainIdx = r.pickChain(st.Chain+j, r.clock)
		}
		if r.holdsAny(hs, chainIdx) {
			panic("every eligible chain already holds the transaction")
		}
	}
	for _, h := range hs {
		if r.holds[h] == nil {
			r.holds[h] = map[int]bool{}
		}
		r.holds[h][chainIdx] = true
	}
	r.chainOf[i] = chainIdx
	chain := node.getOrCreateChain(r.net.NodeIds[chainIdx])
	newRound := st.NewRound
	ext := r.pickExt(st.Ext, chainIdx, r.clock)
	cache := chain.State.CacheRound
	if len(cache.Snapshots) > 0 {
		start, _ := cache.Gap()
		if r.clock >= start+config.SnapshotRoundGap || r.clock/OneDay != start/OneDay {
			newRound = true
		}
	} else {
		newRound = false
	}
	s := r.k.NextSnapshot(chainIdx, hs, r.clock, newRound, ext)
	r.k.CertifyRot(s, extra, rot)
	_, pubs := chain.ConsensusKeys(s.RoundNumber, s.Timestamp)
	for pi, p := range pubs {
		if *p == r.net.Signers[vpCWJoin].PublicSpendKey && s.Signature.Mask&(1<<uint(pi)) != 0 {
			r.joinSigns[i] = true
		}
	}
	r.snapOf[i] = s
	return s
}

// applied records the effects of a finalized step on the run's view.
func (r *vpCWRun) applied(i int, s *common.Snapshot) {
	if vpCWIsCons(r.steps[i].Kind) {
		r.lastCons = r.prepare(i)[0].PayloadHash()
		r.consSnaps = append(r.consSnaps, s)
	}
	r.done[i] = true
}

// exec runs step i to completion; a crash injected by the hook surfaces as a
// vpKCrash panic to the caller.
func (r *vpCWRun) exec(i int) error {
	if r.done[i] {
		return nil
	}
	s := r.snapshot(i)
	fin, err := r.k.Deliver(s, r.prepare(i))
	if err != nil {
		return fmt.Errorf("step %d (%s): %v", i, r.steps[i].Kind, err)
	}
	if r.steps[i].Kind == "accept" {
		// the accept path does not report m.finalized; judge by its effects
		back, _ := r.k.Node.persistStore.ReadSnapshot(s.Hash)
		chain := r.k.Node.getOrCreateChain(s.NodeId)
		fin = back != nil && chain != nil && chain.State != nil && chain.State.CacheRound.Number == 1 && chain.State.FinalRound.Number == 0
	}
	if !fin {
		return fmt.Errorf("step %d (%s) snapshot %s not finalized by the node", i, r.steps[i].Kind, s.Hash)
	}
	r.applied(i, s)
	return nil
}

type vpCWCut struct {
	K       int
	Phase   string
	Nested  bool // run another chain's step at the boundary before call K (then crash there, or after call K returned when Phase is "after")
	DropTmp bool // delete the non-synced cache database before restart
}

// vpCWConsistency is the C22 oracle on a restarted node.
func vpCWConsistency(k *vpKNode, written map[crypto.Hash]uint64) error {
	store := k.Node.persistStore
	total, invalid, err := store.ValidateGraphEntries(k.Net.NetId, 1<<40)
	if err != nil || invalid != 0 {
		return fmt.Errorf("graph validator: total %d invalid %d err %v", total, invalid, err)
	}
	seen := map[uint64]crypto.Hash{}
	var maxPos uint64
	offset := uint64(0)
	for {
		snaps, err := store.ReadSnapshotsSinceTopology(offset, 500)
		if err != nil {
			return err
		}
		for _, s := range snaps {
			if prev, dup := seen[s.TopologicalOrder]; dup {
				return fmt.Errorf("topology position %d used by %s and %s", s.TopologicalOrder, prev, s.Hash)
			}
			seen[s.TopologicalOrder] = s.Hash
			if s.TopologicalOrder > maxPos {
				maxPos = s.TopologicalOrder
			}
			back, err := store.ReadSnapshot(s.Hash)
			if err != nil || back == nil || back.TopologicalOrder != s.TopologicalOrder {
				return fmt.Errorf("snapshot %s listed at %d but looked up at %v (%v)", s.Hash, s.TopologicalOrder, back, err)
			}
			for _, h := range s.Transactions {
				tx, fin, err := store.ReadTransaction(h)
				if err != nil || tx == nil {
					return fmt.Errorf("finalized transaction %s of snapshot %s lost its body (%v)", h, s.Hash, err)
				}
				if fin == "" {
					return fmt.Errorf("transaction %s of stored snapshot %s has no finalization record", h, s.Hash)
				}
				fh, _ := crypto.HashFromString(fin)
				fs, err := store.ReadSnapshot(fh)
				if err != nil || fs == nil {
					return fmt.Errorf("finalization record of %s names unreadable snapshot %s", h, fin)
				}
				found := false
				for _, x := range fs.Transactions {
					found = found || x == h
				}
				if !found {
					return fmt.Errorf("finalization snapshot %s does not contain %s", fin, h)
				}
				for oi, o := range tx.Outputs {
					if o.Type == common.OutputTypeWithdrawalSubmit || o.Type == common.OutputTypeCustodianSlashNodes {
						continue
					}
					u, err := store.ReadUTXOLock(h, uint(oi))
					if err != nil || u == nil {
						return fmt.Errorf("output %s:%d of a finalized transaction is missing (%v)", h, oi, err)
					}
				}
			}
		}
		if len(snaps) < 500 {
			break
		}
		offset = snaps[len(snaps)-1].TopologicalOrder + 1
	}
	for h, pos := range written {
		back, err := store.ReadSnapshot(h)
		if err != nil || back == nil || back.TopologicalOrder != pos {
			return fmt.Errorf("snapshot %s was written at position %d before the crash, now %v (%v)", h, pos, back, err)
		}
	}
	if k.Node.TopoCounter.seq < maxPos {
		return fmt.Errorf("restarted topology counter %d below stored maximum %d", k.Node.TopoCounter.seq, maxPos)
	}
	// the chain state the node works from is the one on disk: head round number
	// and references, and every reference link it holds in memory
	for _, id := range k.Net.NodeIds {
		chain := k.Node.getOrCreateChain(id)
		if chain == nil || chain.State == nil {
			continue
		}
		head, err := store.ReadRound(id)
		if err != nil || head == nil {
			return fmt.Errorf("chain %s has state in memory but no stored head round (%v)", id, err)
		}
		if cr := chain.State.CacheRound; cr.Number != head.Number || cr.References.Self != head.References.Self || cr.References.External != head.References.External {
			return fmt.Errorf("chain %s works from head round %d %v, the store has %d %v", id, cr.Number, *cr.References, head.Number, *head.References)
		}
		if chain.State.FinalRound.Number+1 != head.Number || chain.State.FinalRound.Hash != head.References.Self {
			return fmt.Errorf("chain %s: final round %d %s in memory does not precede the stored head %d (self %s)", id, chain.State.FinalRound.Number, chain.State.FinalRound.Hash, head.Number, head.References.Self)
		}
		for _, oid := range k.Net.NodeIds {
			l, held := chain.State.RoundLinks[oid]
			if !held {
				continue
			}
			sl, err := store.ReadLink(id, oid)
			if err != nil || sl != l {
				return fmt.Errorf("chain %s holds link %d to chain %s, the store has %d (%v)", id, l, oid, sl, err)
			}
		}
	}
	return nil
}

type vpCWOutcome struct {
	Calls      int
	Crashed    bool
	CrashAt    string
	CrashStep  int
	CrashKind  string
	ConsBefore int // consensus-class snapshots durably written before the cut
	Finalized  int
	Kinds      map[string]int // completed steps by kind before the cut
	JoinSnaps  int            // ordinary snapshots finalized on the joined node's chain (before the cut or while continuing)
	JoinSigned int            // certificates the joined node co-signed
	Continued  int            // steps executed on the restarted node
	Err22      error
	Err21      error
	Chains     int
	Log        []string
	NestedRan  bool // another chain finalized a snapshot at the boundary before call K
}

// vpCWRunCut replays the workload from genesis, crashes at cut (nil = no
// crash, just count calls), restarts and evaluates both oracles.
func vpCWRunCut(net *vpKNet, steps []vpCWStep, cut *vpCWCut) (out vpCWOutcome) {
	dir := vpKTempDir("cw")
	defer os.RemoveAll(dir)
	out.Kinds = map[string]int{}
	out.CrashStep = -1
	var run *vpCWRun
	armed := false
	inNested := false
	cur := 0
	var consWritten []*common.Snapshot
	hook := func(k int, name, phase string) {
		if !armed || inNested || cut == nil {
			return
		}
		if k == cut.K && cut.Nested && phase == "before" {
			// What another chain's goroutine may do at this boundary: finalize a
			// snapshot of its own. While a snapshot is being written the kernel
			// holds the topology lock, which every finalization needs, so that
			// schedule exists at a WriteSnapshot boundary only if the lock is free
			// there (it never is on a tree that writes under the lock).
			feasible := name != "WriteSnapshot"
			if !feasible && run.k.Node.TopoCounter.TryLock() {
				run.k.Node.TopoCounter.Unlock()
				feasible = true
			}
			for j := cur + 1; feasible && j < len(steps); j++ {
				if steps[j].Kind == "deposit" && steps[j].Jump == 0 && run.snapOf[j] == nil &&
					run.pickChain(steps[j].Chain, run.clock+steps[j].Dt) != run.chainOf[cur] {
					inNested = true
					vpKCatch(func() { _ = run.exec(j) })
					inNested = false
					out.NestedRan = true
					break
				}
			}
		}
		if k == cut.K && phase == cut.Phase {
			panic(vpKCrash{K: k, Name: name, Phase: phase})
		}
	}
	var joinId crypto.Hash
	if len(net.NodeIds) > vpCWJoin {
		joinId = net.NodeIds[vpCWJoin]
	}
	account := func(r *vpCWRun, i int) {
		s := r.snapOf[i]
		if s == nil {
			return
		}
		if s.NodeId == joinId && r.steps[i].Kind != "accept" {
			out.JoinSnaps++
		}
		if r.joinSigns[i] {
			out.JoinSigned++
		}
	}
	k, err := vpKStart(net, dir, vpCWSelfOf(steps), hook)
	if err != nil {
		out.Err22 = fmt.Errorf("initial start: %v", err)
		return
	}
	run = vpCWNew(k, steps)
	k.Proxy.K = 0
	k.Proxy.Log = nil
	armed = true
	chains := map[int]bool{}
	for i := range steps {
		cur = i
		var eerr error
		p := vpKCatch(func() { eerr = run.exec(i) })
		if p != nil {
			if c, ok := p.(vpKCrash); ok {
				out.Crashed = true
				out.CrashStep, out.CrashKind = i, steps[i].Kind
				out.CrashAt = fmt.Sprintf("%s/%s#%d in step %d (%s)", c.Name, c.Phase, c.K, i, steps[i].Kind)
				break
			}
			out.Err22 = fmt.Errorf("step %d panicked: %v", i, p)
			k.Stop()
			return
		}
		if eerr != nil {
			out.Err22 = fmt.Errorf("workload (no fault yet): %v", eerr)
			k.Stop()
			return
		}
		out.Finalized++
		out.Kinds[steps[i].Kind]++
		chains[run.chainOf[i]] = true
		account(run, i)
	}
	out.Chains = len(chains)
	out.Calls = k.Proxy.K
	out.Log = append([]string{}, k.Proxy.Log...)
	written := k.Proxy.Written
	// consensus-class snapshots whose WriteSnapshot returned before the cut
	for i, st := range steps {
		if !vpCWIsCons(st.Kind) {
			continue
		}
		if s := run.snapOf[i]; s != nil {
			if _, ok := written[s.Hash]; ok {
				consWritten = append(consWritten, s)
			}
		}
	}
	out.ConsBefore = len(consWritten)
	armed = false
	k.Stop()
	if !out.Crashed {
		return
	}
	if cut.DropTmp {
		os.RemoveAll(dir + "/cache")
	}
	k2, err := vpKStart(net, dir, vpCWSelfOf(steps), nil)
	if err != nil {
		out.Err22 = fmt.Errorf("restart after crash at %s failed: %v", out.CrashAt, err)
		return
	}
	defer k2.Stop()
	if err := vpCWConsistency(k2, written); err != nil {
		out.Err22 = fmt.Errorf("after crash at %s: %v", out.CrashAt, err)
		return
	}
	if len(consWritten) > 0 {
		c := consWritten[len(consWritten)-1]
		last, err := k2.Node.persistStore.ReadLastConsensusSnapshot()
		if err != nil || last == nil || last.Timestamp < c.Timestamp {
			var lt uint64
			if last != nil {
				lt = last.Timestamp
			}
			out.Err21 = fmt.Errorf("after crash at %s: consensus snapshot %s (ts %d) was durably finalized, restarted node records last consensus ts %d (%v)", out.CrashAt, c.Hash, c.Timestamp, lt, err)
		}
	}
	// continue the workload on the restarted node: re-deliver the in-flight
	// step, then the rest
	run2 := vpCWNew(k2, steps)
	run2.clock = run.clock
	run2.txOf = run.txOf
	run2.holds = run.holds
	for i, ci := range run.chainOf {
		run2.chainOf[i] = ci
	}
	for i := range steps {
		s := run.snapOf[i]
		if i < cur && s != nil {
			continue
		}
		if s != nil {
			// in-flight or nested: re-deliver the very same certified snapshot
			_, derr := k2.Deliver(s, run.prepare(i))
			if derr != nil {
				out.Err22 = fmt.Errorf("re-delivery of step %d after crash at %s: %v", i, out.CrashAt, derr)
				return
			}
			back, _ := k2.Node.persistStore.ReadSnapshot(s.Hash)
			if back == nil {
				// the round may have moved on only if the snapshot can no longer be applied; judge through a fresh one
				run2.snapOf[i] = nil
				delete(run2.snapOf, i)
			} else {
				if vpCWIsCons(steps[i].Kind) {
					run2.lastCons = run.prepare(i)[0].PayloadHash()
				}
				if steps[i].Kind == "accept" {
					if chain := k2.Node.getOrCreateChain(s.NodeId); chain == nil || chain.State == nil || chain.State.CacheRound.Number != 1 {
						out.Err22 = fmt.Errorf("after crash at %s and re-delivery the accept snapshot %s is stored but the new chain has no round 1 head", out.CrashAt, s.Hash)
						return
					}
				}
				continue
			}
		}
		if vpCWIsCons(steps[i].Kind) {
			// rebuild against the restarted node's recorded last consensus operation
			delete(run2.txOf, i)
			last, _ := k2.Node.persistStore.ReadLastConsensusSnapshot()
			run2.lastCons = last.Transactions[0]
		}
		var eerr error
		p := vpKCatch(func() { eerr = run2.exec(i) })
		if p != nil || eerr != nil {
			if out.Err21 != nil {
				return // consequence of the stale consensus marker already reported
			}
			out.Err22 = fmt.Errorf("continuing the workload after crash at %s failed at step %d (%s): %v %v", out.CrashAt, i, steps[i].Kind, eerr, p)
			return
		}
		out.Continued++
		account(run2, i)
	}
	if err := vpCWConsistency(k2, nil); err != nil {
		out.Err22 = fmt.Errorf("after continuing past crash at %s: %v", out.CrashAt, err)
	}
	return
}

func vpCWDescribe(steps []vpCWStep) []string {
	var d []string
	for i, s := range steps {
		x := fmt.Sprintf("%d:%s@chain%d", i, s.Kind, s.Chain)
		if vpCWIsCons(s.Kind) {
			x = fmt.Sprintf("%d:%s", i, s.Kind)
		}
		if s.Jump > 0 {
			x += fmt.Sprintf("+%dh", s.Jump)
		}
		d = append(d, x)
	}
	if vpCWSelfOf(steps) != 0 {
		d = append(d, fmt.Sprintf("self=node%d", vpCWSelfOf(steps)))
	}
	return d
}

// vpCWPlan is what the fault-free run of a workload tells about its calls.
type vpCWPlan struct {
	Calls     int
	Log       []string // name of call k at Log[k-1]
	StepOf    []int    // step of call k at StepOf[k-1]
	Windows   [][2]int // per consensus-class step: k of its WriteSnapshot, k of its WriteConsensusSnapshot
	ConsSteps []int    // the step of each window
	F8        [2]int   // accept step: k of StartNewRound(round 0) and of StartNewRound(round 1); zero without an accept step
	Member    []int    // calls of the pledge, accept and remove steps (the membership write paths)
	Accept    [2]int   // first and last call of the accept step
	Chains    map[int]int
}

var vpCWLastLog []string

func vpCWPlanOf(net *vpKNet, steps []vpCWStep) (*vpCWPlan, error) {
	dir := vpKTempDir("cwb")
	defer os.RemoveAll(dir)
	k, err := vpKStart(net, dir, vpCWSelfOf(steps), nil)
	if err != nil {
		return nil, err
	}
	defer k.Stop()
	run := vpCWNew(k, steps)
	k.Proxy.K = 0
	k.Proxy.Log = nil
	plan := &vpCWPlan{Chains: map[int]int{}}
	for i := range steps {
		from := k.Proxy.K
		var eerr error
		if p := vpKCatch(func() { eerr = run.exec(i) }); p != nil || eerr != nil {
			return nil, fmt.Errorf("fault-free run failed at step %d (%s): %v %v", i, steps[i].Kind, eerr, p)
		}
		plan.Chains[run.chainOf[i]]++
		for j := from; j < k.Proxy.K; j++ {
			plan.StepOf = append(plan.StepOf, i)
		}
		if vpCWIsCons(steps[i].Kind) {
			w := [2]int{}
			for j := from; j < k.Proxy.K; j++ {
				switch k.Proxy.Log[j] {
				case "WriteSnapshot":
					w[0] = j + 1
				case "WriteConsensusSnapshot":
					w[1] = j + 1
				}
			}
			if w[0] == 0 {
				return nil, fmt.Errorf("consensus step %d (%s) without snapshot write in the call log %v", i, steps[i].Kind, k.Proxy.Log[from:k.Proxy.K])
			}
			if w[1] == 0 {
				// no marker write at all: nothing to aim at, the oracles decide
				w[1] = k.Proxy.K
			}
			plan.Windows = append(plan.Windows, w)
			plan.ConsSteps = append(plan.ConsSteps, i)
		}
		if steps[i].Kind == "pledge" || steps[i].Kind == "accept" || steps[i].Kind == "remove" {
			for j := from; j < k.Proxy.K; j++ {
				plan.Member = append(plan.Member, j+1)
			}
		}
		if steps[i].Kind == "accept" {
			plan.Accept = [2]int{from + 1, k.Proxy.K}
			n := 0
			for j := from; j < k.Proxy.K; j++ {
				if k.Proxy.Log[j] == "StartNewRound" && n < 2 {
					plan.F8[n] = j + 1
					n++
				}
			}
			if n != 2 {
				return nil, fmt.Errorf("accept step %d: expected two round starts, call log %v", i, k.Proxy.Log[from:k.Proxy.K])
			}
		}
	}
	plan.Calls = k.Proxy.K
	plan.Log = append([]string{}, k.Proxy.Log...)
	vpCWLastLog = plan.Log
	return plan, nil
}

// vpCWConsWindows returns the call numbers (k of WriteSnapshot, k of
// WriteConsensusSnapshot) of every consensus-class step in the fault-free run.
func vpCWConsWindows(net *vpKNet, steps []vpCWStep) (calls int, windows [][2]int, err error) {
	plan, err := vpCWPlanOf(net, steps)
	if err != nil {
		return 0, nil, err
	}
	return plan.Calls, plan.Windows, nil
}

// inKnownWindow says whether a nested (other chain finalizes, then crash) cut
// falls into the known finding C21-F5: strictly after the consensus snapshot
// was written and not after its consensus marker write.
func vpCWInKnownWindow(windows [][2]int, cut *vpCWCut) bool {
	if !cut.Nested {
		return false
	}
	for _, w := range windows {
		if cut.K > w[0] && (cut.K < w[1] || cut.K == w[1] && cut.Phase == "before") {
			return true
		}
	}
	return false
}

// vpCWInF8 says whether a cut falls into known finding C22-F8: the accept path
// has created the round-0 head of the new chain (first StartNewRound returned)
// and has not yet created the round-1 head (second StartNewRound not returned).
func vpCWInF8(plan *vpCWPlan, cut *vpCWCut) bool {
	a, b := plan.F8[0], plan.F8[1]
	if a == 0 {
		return false
	}
	if cut.K == a {
		return cut.Phase == "after"
	}
	if cut.K == b {
		return cut.Phase == "before"
	}
	return cut.K > a && cut.K < b
}

func vpCWCuts(t *rapid.T, plan *vpCWPlan, steps []vpCWStep, n int) []*vpCWCut {
	calls := plan.Calls
	var cuts []*vpCWCut
	if n <= 0 { // every boundary, plain and nested
		for k := 1; k <= calls; k++ {
			for _, ph := range []string{"before", "after"} {
				cuts = append(cuts, &vpCWCut{K: k, Phase: ph, DropTmp: (k+len(ph))%3 == 0})
			}
			cuts = append(cuts, &vpCWCut{K: k, Phase: "before", Nested: true})
			if plan.Log[k-1] == "WriteSnapshot" {
				cuts = append(cuts, &vpCWCut{K: k, Phase: "after", Nested: true})
			}
		}
		return cuts
	}
	draw := func(k int) *vpCWCut {
		c := &vpCWCut{K: k, Phase: rapid.SampledFrom([]string{"before", "after"}).Draw(t, "cut_phase"),
			DropTmp: rapid.IntRange(0, 3).Draw(t, "drop_cache") == 0}
		if c.Phase == "before" || plan.Log[k-1] == "WriteSnapshot" {
			c.Nested = rapid.IntRange(0, 2).Draw(t, "nested") == 0
		}
		return c
	}
	// (1) landmarks of the membership write paths: for the accept step the
	// boundary before the first and after the second round start (what lies
	// between is known finding C22-F8) and both sides of the consensus marker;
	// for pledge and remove both sides of the snapshot write and of the marker,
	// for pledge also the node-operation lock. Every second landmark, starting
	// at a drawn offset, is cut; adjacent landmarks share their class, so each
	// workload cuts every landmark class of the operations it contains.
	var marks []*vpCWCut
	for wi, st := range plan.ConsSteps {
		w := plan.Windows[wi]
		switch steps[st].Kind {
		case "accept":
			marks = append(marks, &vpCWCut{K: plan.F8[0], Phase: "before"}, &vpCWCut{K: plan.F8[1], Phase: "after"},
				&vpCWCut{K: w[1], Phase: "before"}, &vpCWCut{K: w[1], Phase: "after"})
		case "pledge", "remove":
			marks = append(marks, &vpCWCut{K: w[0], Phase: "before"}, &vpCWCut{K: w[0], Phase: "after"},
				&vpCWCut{K: w[1], Phase: "before"}, &vpCWCut{K: w[1], Phase: "after"})
			for k, at := range plan.StepOf {
				if at == st && plan.Log[k] == "AddNodeOperation" {
					marks = append(marks, &vpCWCut{K: k + 1, Phase: "after"}, &vpCWCut{K: k + 1, Phase: "before"})
				}
			}
		}
	}
	if len(marks) > 0 {
		for i := rapid.IntRange(0, 1).Draw(t, "landmark_offset"); i < len(marks) && len(cuts) < n-2; i += 2 {
			c := marks[i]
			c.DropTmp = rapid.IntRange(0, 3).Draw(t, "drop_cache") == 0
			if c.Phase == "before" && plan.Log[c.K-1] != "WriteSnapshot" || c.Phase == "after" && plan.Log[c.K-1] == "WriteSnapshot" {
				c.Nested = rapid.IntRange(0, 2).Draw(t, "nested") == 0
			}
			cuts = append(cuts, c)
		}
	}
	// (2) stratified by step, so that late phases of the workload (after the
	// acceptance, after the removal) are cut as often as the early ones
	rest := n - len(cuts)
	bySteps := map[int][]int{}
	for k, st := range plan.StepOf {
		bySteps[st] = append(bySteps[st], k+1)
	}
	for i := 0; i < rest/2; i++ {
		ks := bySteps[plan.StepOf[len(plan.StepOf)-1]-rapid.IntRange(0, plan.StepOf[len(plan.StepOf)-1]).Draw(t, "cut_step_from_end")]
		if len(ks) == 0 {
			continue
		}
		cuts = append(cuts, draw(ks[rapid.IntRange(0, len(ks)-1).Draw(t, "cut_k")]))
	}
	// (3) stratified by call name, so that rare boundaries (round transitions,
	// the consensus marker) are cut as often as the frequent ones
	byName := map[string][]int{}
	var names []string
	for i, n := range plan.Log {
		if byName[n] == nil {
			names = append(names, n)
		}
		byName[n] = append(byName[n], i+1)
	}
	for i := 0; len(cuts) < n; i++ {
		name := names[(i+rapid.IntRange(0, len(names)-1).Draw(t, "cut_name"))%len(names)]
		ks := byName[name]
		cuts = append(cuts, draw(ks[rapid.IntRange(0, len(ks)-1).Draw(t, "cut_k")]))
	}
	return cuts
}

// vpCWClasses names what a finished cut evaluation covered.
func vpCWClasses(plan *vpCWPlan, steps []vpCWStep, cut *vpCWCut, out *vpCWOutcome) []string {
	cl := []string{}
	for _, n := range []string{"WriteSnapshot", "StartNewRound", "WriteTransaction", "LockUTXOs", "WriteConsensusSnapshot", "LockDepositInput", "LockGhostKeys", "CacheStoreTransaction", "UpdateEmptyHeadRound", "AddNodeOperation"} {
		if strings.HasPrefix(out.CrashAt, n+"/") {
			cl = append(cl, "cut-"+n)
		}
	}
	if cut.Nested {
		cl = append(cl, "nested")
	}
	if cut.DropTmp {
		cl = append(cl, "drop-cache")
	}
	if !out.Crashed {
		return cl
	}
	for _, kind := range []string{"pledge", "accept", "remove"} {
		if out.Kinds[kind] > 0 {
			cl = append(cl, kind) // the membership operation was finalized before the cut
		}
		if out.CrashKind == kind {
			cl = append(cl, "cut-in-"+kind+"-path")
			if n := plan.Log[cut.K-1]; n == "StartNewRound" || n == "WriteSnapshot" || n == "WriteConsensusSnapshot" {
				cl = append(cl, "cut-in-"+kind+"-path-"+n)
			}
		}
	}
	if out.Kinds["pledge"] > 0 && out.Kinds["accept"] == 0 && out.CrashKind != "accept" {
		cl = append(cl, "cut-while-pledging")
	}
	if out.JoinSnaps > 0 {
		cl = append(cl, "snapshot-on-joined-chain") // before the cut or while continuing on the restarted node
	}
	if out.JoinSigned > 0 {
		cl = append(cl, "joined-node-cosigned")
	}
	if vpCWSelfOf(steps) == vpCWJoin {
		cl = append(cl, "self-is-joining-node")
	}
	return cl
}

var vpC22F8Witness = []vpCWStep{
	{Kind: "deposit", Chain: 1, Asset: 1, Owner: 0, Dt: 1e8},
	{Kind: "fund", Chain: 2, Owner: 1, Dt: 1e8},
	{Kind: "pledge", Prev: 1, Dt: 1e8},
	{Kind: "deposit", Chain: 3, Asset: 1, Owner: 2, Dt: 1e8},
	{Kind: "accept", Prev: 2, Dt: 1e8},
	{Kind: "deposit", Chain: 4, Asset: 1, Owner: 3, Dt: 1e8},
}

// Known finding C22-F8: finalizeNodeAcceptSnapshot creates the round-0 head of
// the new chain, writes the accept snapshot and creates the round-1 head in
// three separate store transactions; a stop between the first and the third
// leaves a head at round 0, which chain.loadState cannot load (it asks for the
// final round number head-1): every later start-up panics.
func TestVP_C22_known_F8(t *testing.T) {
	if kit.Replaying() {
		return
	}
	c := kit.New(t, "C22", "deterministic witness of known finding C22-F8 (every cut of the round-0 window of one pledge/accept workload) and of its two delimiting boundaries")
	net := vpCWNewNet("c22w")
	plan, err := vpCWPlanOf(net, vpC22F8Witness)
	if err != nil || plan.F8[0] == 0 {
		t.Fatalf("witness workload: %v %+v", err, plan)
	}
	a, b := plan.F8[0], plan.F8[1]
	window := []*vpCWCut{{K: a, Phase: "after"}}
	for k := a + 1; k < b; k++ {
		window = append(window, &vpCWCut{K: k, Phase: "before"}, &vpCWCut{K: k, Phase: "after"})
	}
	window = append(window, &vpCWCut{K: b, Phase: "before"}, &vpCWCut{K: b, Phase: "before", Nested: true})
	failing := []string{}
	for _, cut := range window {
		if !vpCWInF8(plan, cut) {
			t.Fatalf("window predicate disagrees with the witness enumeration at %+v", *cut)
		}
		out := vpCWRunCut(net, vpC22F8Witness, cut)
		c.Case(fmt.Sprint("witness", *cut), true, "witness-window")
		c.Sample(map[string]any{"workload": vpCWDescribe(vpC22F8Witness), "cut": fmt.Sprintf("%+v", *cut), "crash_at": out.CrashAt, "calls": plan.Log[plan.Accept[0]-1 : plan.Accept[1]], "result": fmt.Sprint(out.Err22)})
		if out.Err22 != nil {
			if !strings.Contains(out.Err22.Error(), "restart after crash") {
				t.Fatalf("witness cut %+v failed differently: %v", *cut, out.Err22)
			}
			failing = append(failing, fmt.Sprintf("%s: %v", out.CrashAt, out.Err22))
		}
	}
	// the same stop when the process is the joining node itself
	asJoiner := append([]vpCWStep{}, vpC22F8Witness...)
	asJoiner[0].Self = vpCWJoin
	planJ, err := vpCWPlanOf(net, asJoiner)
	if err != nil || planJ.F8[0] == 0 {
		t.Fatalf("witness workload (joining node): %v %+v", err, planJ)
	}
	for _, cut := range []*vpCWCut{{K: planJ.F8[0], Phase: "after"}, {K: planJ.F8[1], Phase: "before"}} {
		out := vpCWRunCut(net, asJoiner, cut)
		c.Case(fmt.Sprint("witness-joiner", *cut), true, "witness-window", "self-is-joining-node")
		if out.Err22 != nil {
			if !strings.Contains(out.Err22.Error(), "restart after crash") {
				t.Fatalf("witness cut %+v (joining node) failed differently: %v", *cut, out.Err22)
			}
			failing = append(failing, fmt.Sprintf("(joining node) %s: %v", out.CrashAt, out.Err22))
		}
		window = append(window, cut)
	}
	if len(failing) > 0 {
		kit.ReportKnown(t, "C22", "C22-F8", fmt.Sprintf("%d of %d cuts between the two round starts of finalizeNodeAcceptSnapshot leave a store on which SetupNode panics; first: %s", len(failing), len(window), failing[0]))
	}
	// the boundaries just outside the window must restart and continue
	for _, cut := range []*vpCWCut{{K: a, Phase: "before"}, {K: a, Phase: "before", Nested: true}, {K: b, Phase: "after"}, {K: plan.Accept[1], Phase: "before"}, {K: plan.Accept[1], Phase: "after"}} {
		if vpCWInF8(plan, cut) {
			t.Fatalf("window predicate covers the delimiting boundary %+v", *cut)
		}
		out := vpCWRunCut(net, vpC22F8Witness, cut)
		c.Case(fmt.Sprint("boundary", *cut), true, "witness-boundary")
		if out.Err22 != nil {
			t.Fatalf("crash at the boundary of the round-0 window %+v: %v", *cut, out.Err22)
		}
	}
}

func TestVP_C22_crash_points(t *testing.T) {
	c := kit.New(t, "C22", "rapid: multi-chain workloads over a generated 7-node network driven through the real node's finalization path: deposits of two assets, batches, transfers, round transitions with external references, custodian updates on the elected chain, and in most workloads the membership life cycle (funding deposit, pledge of an 8th node on the elected chain, its acceptance as round 0 of the new chain >= 12h later in the accept window, steps after the node matured incl. snapshots on the new chain and co-signing by the new node, removal of the oldest node in the next window); the store proxy numbers every mutating call (admission cache writes, key/input locks, body writes, node-operation lock, round starts, snapshot writes, consensus marker); a cut = (call k, before|after, optionally another chain finalizing a snapshot at that boundary first, optionally losing the non-synced cache DB); quick samples 10 cuts per workload (every second landmark boundary of the pledge/accept/remove write paths when present - round starts, snapshot write, consensus marker, node-operation lock -, the rest stratified half by step, half by call name), thorough enumerates every boundary; after the cut the process state is discarded, Badger reopened, SetupNode run; oracle: start-up succeeds, graph validator reports no invalid entry, every stored snapshot's transactions keep body/finalization record/outputs, topology positions are a bijection and equal those handed out before the crash, the restarted counter is >= the stored maximum, the workload (in-flight snapshot re-delivered) continues to the end; cuts of known finding C22-F8 (between the two round starts of the accept path) are excluded by construction and counted; non-trivial = cut strictly inside the workload with >=1 finalized snapshot before it and >=2 chains touched; distinct by (workload, cut)")
	c.Require("nontrivial", "cut-WriteSnapshot", "cut-StartNewRound", "cut-WriteTransaction", "cut-LockUTXOs", "cut-WriteConsensusSnapshot", "nested", "drop-cache",
		"pledge", "accept", "cut-in-pledge-path", "cut-in-accept-path", "cut-in-accept-path-StartNewRound", "cut-in-accept-path-WriteConsensusSnapshot", "cut-in-pledge-path-WriteSnapshot", "cut-in-pledge-path-WriteConsensusSnapshot")
	perWorkload := 10
	kit.SetChecks(kit.N(10, 60))
	if kit.Thorough() {
		perWorkload = 0
	}
	net := vpCWNewNet("c22")
	rapid.Check(t, func(t *rapid.T) {
		steps := vpCWDraw(t, 7)
		plan, err := vpCWPlanOf(net, steps)
		if err != nil {
			t.Fatalf("%v\nworkload %v", err, vpCWDescribe(steps))
		}
		for _, cut := range vpCWCuts(t, plan, steps, perWorkload) {
			if vpCWInF8(plan, cut) && kit.Known("C22-F8") {
				c.Class("excluded-known")
				continue
			}
			out := vpCWRunCut(net, steps, cut)
			if out.Err22 != nil {
				t.Fatalf("%v\ncut %+v\nworkload %v\ncalls of the crashed step %v", out.Err22, *cut, vpCWDescribe(steps), vpCWStepCalls(plan, out.CrashStep))
			}
			nt := out.Crashed && out.Finalized >= 1 && out.Chains >= 2
			cl := vpCWClasses(plan, steps, cut, &out)
			if nt {
				cl = append(cl, "nontrivial")
			}
			if vpCWInKnownWindow(plan.Windows, cut) {
				cl = append(cl, "in-C21-F5-window")
			}
			c.Case(fmt.Sprint(vpCWDescribe(steps), *cut), nt, cl...)
			c.Sample(map[string]any{"workload": vpCWDescribe(steps), "cut": fmt.Sprintf("%+v", *cut), "crash_at": out.CrashAt, "finalized_before": out.Finalized, "calls": plan.Calls, "continued": out.Continued})
		}
	})
}

func vpCWStepCalls(plan *vpCWPlan, step int) []string {
	var l []string
	for k, s := range plan.StepOf {
		if s == step {
			l = append(l, fmt.Sprintf("%d:%s", k+1, plan.Log[k]))
		}
	}
	return l
}
