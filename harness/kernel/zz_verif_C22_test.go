//go:build verif

package kernel

import (
	"fmt"
	"os"
	"testing"
	"time"

	"github.com/MixinNetwork/mixin/common"
	"github.com/MixinNetwork/mixin/config"
	"github.com/MixinNetwork/mixin/crypto"
	"pgregory.net/rapid"
	kit "verifkit"
)

// A workload is pure data so that it can be replayed from genesis for every
// crash point.
type vpCWStep struct {
	Kind     string // deposit | transfer | custodian | batch
	Chain    int
	Asset    int // 0 XIN, 1 BTC
	Owner    int
	Prev     int // index of the deposit step spent by a transfer / funding a custodian update
	NewRound bool
	Ext      int
	Dt       uint64
}

type vpCWRun struct {
	k         *vpKNode
	net       *vpKNet
	steps     []vpCWStep
	txOf      map[int][]*common.VersionedTransaction // step -> its transactions
	snapOf    map[int]*common.Snapshot
	clock     uint64
	lastCons  crypto.Hash
	consSnaps []*common.Snapshot // consensus-class snapshots in workload order
	seq       int
	chainOf   map[int]int
	done      map[int]bool
}

func vpCWBase(net *vpKNet) uint64 {
	// day 2, hour 12 after the epoch: outside mint/custodian-forbidden hours
	return net.Epoch + uint64(36*time.Hour)
}

// vpCWDraw draws a workload of n steps over >= 3 chains.
func vpCWDraw(t *rapid.T, nodes int) []vpCWStep {
	n := rapid.IntRange(6, 16).Draw(t, "steps")
	var steps []vpCWStep
	var deposits, xinDeposits []int
	spent := map[int]bool{}
	cons := 0
	for i := 0; i < n; i++ {
		st := vpCWStep{Chain: rapid.IntRange(0, nodes-1).Draw(t, "chain"), Owner: rapid.IntRange(0, 3).Draw(t, "owner"),
			NewRound: rapid.IntRange(0, 3).Draw(t, "newround") == 0, Ext: rapid.IntRange(0, nodes-1).Draw(t, "ext"),
			Dt: uint64(rapid.IntRange(1, 900).Draw(t, "dt_ms")) * uint64(time.Millisecond)}
		kind := rapid.IntRange(0, 9).Draw(t, "kind")
		free := func(list []int) int {
			for _, d := range list {
				if !spent[d] {
					return d
				}
			}
			return -1
		}
		switch {
		case kind <= 3 || len(deposits) == 0:
			st.Kind = "deposit"
			st.Asset = rapid.IntRange(0, 1).Draw(t, "asset")
		case kind <= 5:
			if d := free(deposits); d >= 0 {
				st.Kind, st.Prev = "transfer", d
				spent[d] = true
			} else {
				st.Kind = "deposit"
			}
		case kind <= 7 && cons < 3:
			if d := free(xinDeposits); d >= 0 {
				st.Kind, st.Prev = "custodian", d
				spent[d] = true
				cons++
			} else {
				st.Kind, st.Asset = "deposit", 0
			}
		default:
			st.Kind = "batch"
			st.Asset = rapid.IntRange(0, 1).Draw(t, "asset")
		}
		if st.Kind == "deposit" {
			deposits = append(deposits, i)
			if st.Asset == 0 {
				xinDeposits = append(xinDeposits, i)
			}
		}
		steps = append(steps, st)
	}
	return steps
}

func vpCWNew(k *vpKNode, steps []vpCWStep) *vpCWRun {
	r := &vpCWRun{k: k, net: k.Net, steps: steps, txOf: map[int][]*common.VersionedTransaction{}, snapOf: map[int]*common.Snapshot{}, chainOf: map[int]int{}, done: map[int]bool{}}
	r.clock = vpCWBase(k.Net)
	last, err := k.Node.persistStore.ReadLastConsensusSnapshot()
	if err != nil || last == nil {
		panic(fmt.Sprint("no consensus snapshot ", err))
	}
	r.lastCons = last.Transactions[0]
	return r
}

// prepare builds (deterministically) the transactions of step i.
func (r *vpCWRun) prepare(i int) []*common.VersionedTransaction {
	if txs, ok := r.txOf[i]; ok {
		return txs
	}
	st := r.steps[i]
	var txs []*common.VersionedTransaction
	dep := func(asset, owner, n int) *common.VersionedTransaction {
		id := fmt.Sprintf("0xw%d-%d", i, n)
		if asset == 0 {
			return r.net.XINDeposit(common.NewInteger(uint64(1+i)), owner, id, i)
		}
		return r.net.BTCDeposit(common.NewInteger(1), owner, id, i)
	}
	switch st.Kind {
	case "deposit":
		txs = append(txs, dep(st.Asset, st.Owner, 0))
	case "batch":
		txs = append(txs, dep(st.Asset, st.Owner, 0), dep(1-st.Asset, (st.Owner+1)%4, 1))
	case "transfer":
		prev := r.prepare(st.Prev)[0]
		txs = append(txs, r.net.Transfer(prev, r.steps[st.Prev].Owner, []int{st.Owner, (st.Owner + 1) % 4}, i, nil, nil))
	case "custodian":
		prev := r.prepare(st.Prev)[0]
		txs = append(txs, r.net.CustodianUpdate(prev, r.steps[st.Prev].Owner, r.lastCons, i))
	}
	r.txOf[i] = txs
	return txs
}

// snapshot builds and certifies the snapshot of step i against the node's
// current chain state (idempotent per step once built).
func (r *vpCWRun) snapshot(i int) *common.Snapshot {
	if s, ok := r.snapOf[i]; ok {
		return s
	}
	st := r.steps[i]
	txs := r.prepare(i)
	r.clock += st.Dt
	chainIdx := st.Chain
	if st.Kind == "custodian" {
		eid := r.k.Node.electSnapshotNode(common.TransactionTypeCustodianUpdateNodes, r.clock)
		for ci, id := range r.net.NodeIds {
			if id == eid {
				chainIdx = ci
			}
		}
	}
	r.chainOf[i] = chainIdx
	chain := r.k.Node.getOrCreateChain(r.net.NodeIds[chainIdx])
	newRound := st.NewRound
	ext := st.Ext
	if ext == chainIdx {
		ext = (ext + 1) % len(r.net.NodeIds)
	}
	cache := chain.State.CacheRound
	if len(cache.Snapshots) > 0 {
		start, _ := cache.Gap()
		if r.clock >= start+config.SnapshotRoundGap || r.clock/OneDay != start/OneDay {
			newRound = true
		}
	} else {
		newRound = false
	}
	var hs []crypto.Hash
	for _, tx := range txs {
		hs = append(hs, tx.PayloadHash())
	}
	s := r.k.NextSnapshot(chainIdx, hs, r.clock, newRound, ext)
	r.k.Certify(s, int(r.clock%3))
	r.snapOf[i] = s
	return s
}

// exec runs step i to completion; a crash injected by the hook surfaces as a
// vpKCrash panic to the caller.
func (r *vpCWRun) exec(i int) error {
	if r.done[i] {
		return nil
	}
	s := r.snapshot(i)
	fin, err := r.k.Deliver(s, r.prepare(i))
	if err != nil {
		return fmt.Errorf("step %d (%s): %v", i, r.steps[i].Kind, err)
	}
	if !fin {
		return fmt.Errorf("step %d (%s) snapshot %s not finalized by the node", i, r.steps[i].Kind, s.Hash)
	}
	if r.steps[i].Kind == "custodian" {
		r.lastCons = r.prepare(i)[0].PayloadHash()
		r.consSnaps = append(r.consSnaps, s)
	}
	r.done[i] = true
	return nil
}

type vpCWCut struct {
	K       int
	Phase   string
	Nested  bool // run another chain's step at the boundary before crashing
	DropTmp bool // delete the non-synced cache database before restart
}

// vpCWConsistency is the C22 oracle on a restarted node.
func vpCWConsistency(k *vpKNode, written map[crypto.Hash]uint64) error {
	store := k.Node.persistStore
	total, invalid, err := store.ValidateGraphEntries(k.Net.NetId, 1<<40)
	if err != nil || invalid != 0 {
		return fmt.Errorf("graph validator: total %d invalid %d err %v", total, invalid, err)
	}
	seen := map[uint64]crypto.Hash{}
	var maxPos uint64
	offset := uint64(0)
	for {
		snaps, err := store.ReadSnapshotsSinceTopology(offset, 500)
		if err != nil {
			return err
		}
		for _, s := range snaps {
			if prev, dup := seen[s.TopologicalOrder]; dup {
				return fmt.Errorf("topology position %d used by %s and %s", s.TopologicalOrder, prev, s.Hash)
			}
			seen[s.TopologicalOrder] = s.Hash
			if s.TopologicalOrder > maxPos {
				maxPos = s.TopologicalOrder
			}
			back, err := store.ReadSnapshot(s.Hash)
			if err != nil || back == nil || back.TopologicalOrder != s.TopologicalOrder {
				return fmt.Errorf("snapshot %s listed at %d but looked up at %v (%v)", s.Hash, s.TopologicalOrder, back, err)
			}
			for _, h := range s.Transactions {
				tx, fin, err := store.ReadTransaction(h)
				if err != nil || tx == nil {
					return fmt.Errorf("finalized transaction %s of snapshot %s lost its body (%v)", h, s.Hash, err)
				}
				if fin == "" {
					return fmt.Errorf("transaction %s of stored snapshot %s has no finalization record", h, s.Hash)
				}
				fh, _ := crypto.HashFromString(fin)
				fs, err := store.ReadSnapshot(fh)
				if err != nil || fs == nil {
					return fmt.Errorf("finalization record of %s names unreadable snapshot %s", h, fin)
				}
				found := false
				for _, x := range fs.Transactions {
					found = found || x == h
				}
				if !found {
					return fmt.Errorf("finalization snapshot %s does not contain %s", fin, h)
				}
				for oi, o := range tx.Outputs {
					if o.Type == common.OutputTypeWithdrawalSubmit || o.Type == common.OutputTypeCustodianSlashNodes {
						continue
					}
					u, err := store.ReadUTXOLock(h, uint(oi))
					if err != nil || u == nil {
						return fmt.Errorf("output %s:%d of a finalized transaction is missing (%v)", h, oi, err)
					}
				}
			}
		}
		if len(snaps) < 500 {
			break
		}
		offset = snaps[len(snaps)-1].TopologicalOrder + 1
	}
	for h, pos := range written {
		back, err := store.ReadSnapshot(h)
		if err != nil || back == nil || back.TopologicalOrder != pos {
			return fmt.Errorf("snapshot %s was written at position %d before the crash, now %v (%v)", h, pos, back, err)
		}
	}
	if k.Node.TopoCounter.seq < maxPos {
		return fmt.Errorf("restarted topology counter %d below stored maximum %d", k.Node.TopoCounter.seq, maxPos)
	}
	return nil
}

type vpCWOutcome struct {
	Calls      int
	Crashed    bool
	CrashAt    string
	ConsBefore int // consensus-class snapshots durably written before the cut
	Finalized  int
	Err22      error
	Err21      error
	Chains     int
}

// vpCWRunCut replays the workload from genesis, crashes at cut (nil = no
// crash, just count calls), restarts and evaluates both oracles.
func vpCWRunCut(net *vpKNet, steps []vpCWStep, cut *vpCWCut) (out vpCWOutcome) {
	dir := vpKTempDir("cw")
	defer os.RemoveAll(dir)
	var run *vpCWRun
	armed := false
	inNested := false
	cur := 0
	var consWritten []*common.Snapshot
	hook := func(k int, name, phase string) {
		if !armed || inNested || cut == nil {
			return
		}
		if k == cut.K && phase == cut.Phase {
			if cut.Nested && phase == "before" && name != "WriteSnapshot" {
				// what another chain's goroutine may do at this boundary
				for j := cur + 1; j < len(steps); j++ {
					if steps[j].Kind == "deposit" && run.snapOf[j] == nil && steps[j].Chain != run.chainOf[cur] {
						inNested = true
						vpKCatch(func() { _ = run.exec(j) })
						inNested = false
						break
					}
				}
			}
			panic(vpKCrash{K: k, Name: name, Phase: phase})
		}
	}
	k, err := vpKStart(net, dir, 0, hook)
	if err != nil {
		out.Err22 = fmt.Errorf("initial start: %v", err)
		return
	}
	run = vpCWNew(k, steps)
	k.Proxy.K = 0
	armed = true
	chains := map[int]bool{}
	for i := range steps {
		cur = i
		var eerr error
		p := vpKCatch(func() { eerr = run.exec(i) })
		if p != nil {
			if c, ok := p.(vpKCrash); ok {
				out.Crashed = true
				out.CrashAt = fmt.Sprintf("%s/%s#%d in step %d (%s)", c.Name, c.Phase, c.K, i, steps[i].Kind)
				break
			}
			out.Err22 = fmt.Errorf("step %d panicked: %v", i, p)
			k.Stop()
			return
		}
		if eerr != nil {
			out.Err22 = fmt.Errorf("workload (no fault yet): %v", eerr)
			k.Stop()
			return
		}
		out.Finalized++
		chains[steps[i].Chain] = true
	}
	out.Chains = len(chains)
	out.Calls = k.Proxy.K
	written := k.Proxy.Written
	// consensus-class snapshots whose WriteSnapshot returned before the cut
	for i, st := range steps {
		if st.Kind != "custodian" {
			continue
		}
		if s := run.snapOf[i]; s != nil {
			if _, ok := written[s.Hash]; ok {
				consWritten = append(consWritten, s)
			}
		}
	}
	out.ConsBefore = len(consWritten)
	armed = false
	k.Stop()
	if !out.Crashed {
		return
	}
	if cut.DropTmp {
		os.RemoveAll(dir + "/cache")
	}
	k2, err := vpKStart(net, dir, 0, nil)
	if err != nil {
		out.Err22 = fmt.Errorf("restart after crash at %s failed: %v", out.CrashAt, err)
		return
	}
	defer k2.Stop()
	if err := vpCWConsistency(k2, written); err != nil {
		out.Err22 = fmt.Errorf("after crash at %s: %v", out.CrashAt, err)
		return
	}
	if len(consWritten) > 0 {
		c := consWritten[len(consWritten)-1]
		last, err := k2.Node.persistStore.ReadLastConsensusSnapshot()
		if err != nil || last == nil || last.Timestamp < c.Timestamp {
			var lt uint64
			if last != nil {
				lt = last.Timestamp
			}
			out.Err21 = fmt.Errorf("after crash at %s: consensus snapshot %s (ts %d) was durably finalized, restarted node records last consensus ts %d (%v)", out.CrashAt, c.Hash, c.Timestamp, lt, err)
		}
	}
	// continue the workload on the restarted node: re-deliver the in-flight
	// step, then the rest
	run2 := vpCWNew(k2, steps)
	run2.clock = run.clock
	run2.txOf = run.txOf
	for i := range steps {
		s := run.snapOf[i]
		if i < cur && s != nil {
			continue
		}
		if s != nil {
			// in-flight or nested: re-deliver the very same certified snapshot
			_, derr := k2.Deliver(s, run.prepare(i))
			if derr != nil {
				out.Err22 = fmt.Errorf("re-delivery of step %d after crash at %s: %v", i, out.CrashAt, derr)
				return
			}
			back, _ := k2.Node.persistStore.ReadSnapshot(s.Hash)
			if back == nil {
				// the round may have moved on only if the snapshot can no longer be applied; judge through a fresh one
				run2.snapOf[i] = nil
				delete(run2.snapOf, i)
			} else {
				if steps[i].Kind == "custodian" {
					run2.lastCons = run.prepare(i)[0].PayloadHash()
				}
				continue
			}
		}
		if steps[i].Kind == "custodian" {
			// rebuild against the restarted node's recorded last consensus operation
			delete(run2.txOf, i)
			last, _ := k2.Node.persistStore.ReadLastConsensusSnapshot()
			run2.lastCons = last.Transactions[0]
		}
		var eerr error
		p := vpKCatch(func() { eerr = run2.exec(i) })
		if p != nil || eerr != nil {
			if out.Err21 != nil {
				return // consequence of the stale consensus marker already reported
			}
			out.Err22 = fmt.Errorf("continuing the workload after crash at %s failed at step %d (%s): %v %v", out.CrashAt, i, steps[i].Kind, eerr, p)
			return
		}
	}
	if err := vpCWConsistency(k2, nil); err != nil {
		out.Err22 = fmt.Errorf("after continuing past crash at %s: %v", out.CrashAt, err)
	}
	return
}

func vpCWDescribe(steps []vpCWStep) []string {
	var d []string
	for i, s := range steps {
		d = append(d, fmt.Sprintf("%d:%s@chain%d", i, s.Kind, s.Chain))
	}
	return d
}


// vpCWConsWindow returns the call numbers (k of WriteSnapshot, k of
// WriteConsensusSnapshot) of every consensus-class step in the fault-free run.
var vpCWLastLog []string

func vpCWConsWindows(net *vpKNet, steps []vpCWStep) (calls int, windows [][2]int, err error) {
	dir := vpKTempDir("cwb")
	defer os.RemoveAll(dir)
	k, err := vpKStart(net, dir, 0, nil)
	if err != nil {
		return 0, nil, err
	}
	defer k.Stop()
	run := vpCWNew(k, steps)
	k.Proxy.K = 0
	k.Proxy.Log = nil
	for i := range steps {
		from := k.Proxy.K
		var eerr error
		if p := vpKCatch(func() { eerr = run.exec(i) }); p != nil || eerr != nil {
			return 0, nil, fmt.Errorf("fault-free run failed at step %d (%s): %v %v", i, steps[i].Kind, eerr, p)
		}
		if steps[i].Kind == "custodian" {
			w := [2]int{}
			for j := from; j < k.Proxy.K; j++ {
				switch k.Proxy.Log[j] {
				case "WriteSnapshot":
					w[0] = j + 1
				case "WriteConsensusSnapshot":
					w[1] = j + 1
				}
			}
			windows = append(windows, w)
		}
	}
	vpCWLastLog = append([]string{}, k.Proxy.Log...)
	return k.Proxy.K, windows, nil
}

// inKnownWindow says whether a nested (other chain finalizes, then crash) cut
// falls into the known finding C21-F5: strictly after the consensus snapshot
// was written and not after its consensus marker write.
func vpCWInKnownWindow(windows [][2]int, cut *vpCWCut) bool {
	if !cut.Nested || cut.Phase != "before" {
		return false
	}
	for _, w := range windows {
		if cut.K > w[0] && cut.K <= w[1] {
			return true
		}
	}
	return false
}

func vpCWCuts(t *rapid.T, calls int, n int) []*vpCWCut {
	var cuts []*vpCWCut
	if n <= 0 { // every boundary, plain and nested
		for k := 1; k <= calls; k++ {
			for _, ph := range []string{"before", "after"} {
				cuts = append(cuts, &vpCWCut{K: k, Phase: ph, DropTmp: (k+len(ph))%3 == 0})
			}
			cuts = append(cuts, &vpCWCut{K: k, Phase: "before", Nested: true})
		}
		return cuts
	}
	// stratify by call name so that rare boundaries (round transitions, the
	// consensus marker) are cut as often as the frequent ones
	byName := map[string][]int{}
	var names []string
	for i, n := range vpCWLastLog {
		if i >= calls {
			break
		}
		if byName[n] == nil {
			names = append(names, n)
		}
		byName[n] = append(byName[n], i+1)
	}
	for i := 0; i < n; i++ {
		name := names[(i+rapid.IntRange(0, len(names)-1).Draw(t, "cut_name"))%len(names)]
		ks := byName[name]
		c := &vpCWCut{K: ks[rapid.IntRange(0, len(ks)-1).Draw(t, "cut_k")], Phase: rapid.SampledFrom([]string{"before", "after"}).Draw(t, "cut_phase"),
			DropTmp: rapid.IntRange(0, 3).Draw(t, "drop_cache") == 0}
		if c.Phase == "before" {
			c.Nested = rapid.IntRange(0, 2).Draw(t, "nested") == 0
		}
		cuts = append(cuts, c)
	}
	return cuts
}

func TestVP_C22_crash_points(t *testing.T) {
	c := kit.New(t, "C22", "rapid: multi-chain workloads (6..16 steps over 7 chains: deposits of two assets, batches, transfers, round transitions with external references, custodian updates on the elected chain) driven through the real node's finalization path; the store proxy numbers every mutating call (admission cache writes, key/input locks, body writes, round transitions, snapshot writes, consensus marker); a cut = (call k, before|after, optionally another chain finalizing a snapshot at that boundary first, optionally losing the non-synced cache DB); quick samples 8 cuts per workload, thorough enumerates every boundary; after the cut the process state is discarded, Badger reopened, SetupNode run; oracle: start-up succeeds, graph validator reports no invalid entry, every stored snapshot's transactions keep body/finalization record/outputs, topology positions are a bijection and equal those handed out before the crash, the restarted counter is >= the stored maximum, the workload (in-flight snapshot re-delivered) continues to the end; non-trivial = cut strictly inside the workload with >=1 finalized snapshot before it and >=2 chains touched; distinct by (workload, cut)")
	c.Require("nontrivial", "cut-WriteSnapshot", "cut-StartNewRound", "cut-WriteTransaction", "cut-LockUTXOs", "cut-WriteConsensusSnapshot", "nested", "drop-cache")
	perWorkload := 8
	kit.SetChecks(kit.N(8, 72))
	if kit.Thorough() {
		perWorkload = 0
	}
	net := vpKNewNet(7, "c22", 4)
	rapid.Check(t, func(t *rapid.T) {
		steps := vpCWDraw(t, 7)
		calls, windows, err := vpCWConsWindows(net, steps)
		if err != nil {
			t.Fatalf("%v\nworkload %v", err, vpCWDescribe(steps))
		}
		for _, cut := range vpCWCuts(t, calls, perWorkload) {
			out := vpCWRunCut(net, steps, cut)
			if out.Err22 != nil {
				t.Fatalf("%v\ncut %+v\nworkload %v", out.Err22, *cut, vpCWDescribe(steps))
			}
			name := "?"
			if out.Crashed {
				fmt.Sscanf(out.CrashAt, "%s", &name)
			}
			cl := []string{}
			nt := out.Crashed && out.Finalized >= 1 && out.Chains >= 2
			if nt {
				cl = append(cl, "nontrivial")
			}
			for _, n := range []string{"WriteSnapshot", "StartNewRound", "WriteTransaction", "LockUTXOs", "WriteConsensusSnapshot", "LockDepositInput", "LockGhostKeys", "CacheStoreTransaction", "UpdateEmptyHeadRound"} {
				if len(out.CrashAt) > len(n) && out.CrashAt[:len(n)+1] == n+"/" {
					cl = append(cl, "cut-"+n)
				}
			}
			if cut.Nested {
				cl = append(cl, "nested")
			}
			if cut.DropTmp {
				cl = append(cl, "drop-cache")
			}
			if vpCWInKnownWindow(windows, cut) {
				cl = append(cl, "in-C21-F5-window")
			}
			c.Case(fmt.Sprint(vpCWDescribe(steps), *cut), nt, cl...)
			c.Sample(map[string]any{"workload": vpCWDescribe(steps), "cut": fmt.Sprintf("%+v", *cut), "crash_at": out.CrashAt, "finalized_before": out.Finalized, "calls": calls})
		}
	})
}
