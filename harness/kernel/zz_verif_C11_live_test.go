//go:build verif

package kernel

// C11 (kernel part, live node) — the in-memory membership views of a RUNNING
// node. A node keeps allNodesSortedWithState / nodeStateSequences /
// acceptedNodeStateSequences and the per-chain ConsensusInfo in memory and
// refreshes them in reloadConsensusState after every finalized
// consensus-class snapshot. The statement says the views reported for a
// timestamp depend only on the records that precede it, so
//
//   (fresh)   after every finalized membership / custodian operation every
//             view of the live node equals the view of a node object that
//             loads the same store from scratch (LoadConsensusNodes on a new
//             Node; at drawn points and at the end a full SetupNode restart);
//   (stable)  an answer given for q before the operation is the same after
//             it whenever q <= the new record's time (the record is later).
//
// Strictness, from the code: membership views at q consult records with
// timestamp < q, so q == t of the new record is still "before"; the custodian
// lookup consults timestamp <= q, so for it only q < t is demanded.
//
// Chain objects: ConsensusKeys(0, q) on a chain appends the chain's own
// identity while the chain has no rounds (IsPledging); that depends on the
// chain state, not on q, so for the (stable) relation the round-0 key vector
// of a joining node's chain is left out. It is compared live vs fresh.
//
// chain.ConsensusInfo: only what feeds a view is demanded. While a node is
// pledging its chain's ConsensusInfo names the pledge transaction the accept
// transaction is built from and the signer appended to the round-0 key vector,
// so it is compared completely; afterwards the production code never reads
// State/Timestamp/Transaction of it again and does not refresh them (loadState
// returns early once the chain has rounds), so only identity, signer and
// IsPledging are compared and a stale state is counted, not failed. Whether the
// live node already HOLDS a chain object for a member (a restarted node creates
// one for every member) is counted as well, not demanded: creating it on first
// use would change no view.

import (
	"fmt"
	"os"
	"sort"
	"strings"
	"testing"
	"time"

	"github.com/MixinNetwork/mixin/common"
	"github.com/MixinNetwork/mixin/config"
	"github.com/MixinNetwork/mixin/crypto"
	"github.com/MixinNetwork/mixin/kernel/internal/clock"
	"pgregory.net/rapid"
	kit "verifkit"
)

const (
	vpC11LJoiners = 3
	vpC11LHour    = uint64(time.Hour)
	vpC11LDay     = 24 * uint64(time.Hour)
)

// vpC11LNewNet: the generated 7-node network plus the keys of three nodes that
// may join later (indexes 7, 8, 9 of Signers / Payees / NodeIds).
func vpC11LNewNet(tag string) *vpKNet {
	net := vpKNewNet(7, tag, 4)
	for j := 0; j < vpC11LJoiners; j++ {
		net.AddSigner(vpKNodeAddr(vpKSeed(tag, "join-signer", j)))
		net.Payees = append(net.Payees, vpKNodeAddr(vpKSeed(tag, "join-payee", j)))
	}
	return net
}

type vpC11LRun struct {
	net      *vpKNet
	dir      string
	self     int
	k        *vpKNode
	clock    uint64
	seq      int
	pledges  map[int]*common.VersionedTransaction // joiner index (7..9) -> pledge transaction
	owners   map[int]int                          // joiner index -> funding account
	recs     []uint64                             // times of the finalized membership and custodian records
	log      []string
	pledged  []int // joiners that pledged, in order
	pledging int   // joiner currently pledging or -1
	accepted int   // accepted nodes now
	marks    map[string]bool
	skew     bool   // the node's clock runs skewBy behind the snapshot it is handed (proposer/verifier clock skew)
	skewBy   uint64
	// the last question put to each probed chain object before the next
	// operation: ConsensusKeys(1, q) for a q far after it. It is repeated as the
	// FIRST question after the operation, so that an answer kept from before the
	// reload would be served again.
	sentinel map[crypto.Hash]uint64
}

func vpC11LKeysString(ch *Chain, round, q uint64) string {
	ids, keys := ch.ConsensusKeys(round, q)
	var sb strings.Builder
	for i := range ids {
		sb.WriteString(ids[i].String()[:12])
		sb.WriteByte(':')
		sb.WriteString(keys[i].String()[:12])
		sb.WriteByte(';')
	}
	return sb.String()
}

// vpC11LSetClock moves the kernel's (mockable) clock to an absolute instant.
func vpC11LSetClock(target uint64) {
	clock.MockDiff(time.Duration(int64(target) - clock.Now().UnixNano()))
}

func (r *vpC11LRun) hourOf(ts uint64) int { return int((ts - r.net.Epoch) / vpC11LHour % 24) }

func vpC11LAcceptHour(h int) bool {
	return h >= config.KernelNodeAcceptTimeBegin && h <= config.KernelNodeAcceptTimeEnd
}

func vpC11LPledgeHour(h int) bool {
	return !vpC11LAcceptHour(h) && (h < config.KernelMintTimeBegin || h > config.KernelMintTimeEnd)
}

func vpC11LCustodianHour(h int) bool {
	return h < config.KernelMintTimeBegin-1 || h > config.KernelMintTimeEnd+1
}

// legalTime: the first instant >= max(clock+1, min)+extra hours whose hour of
// the network day satisfies ok; edge 0 keeps that instant (the exact start of
// the hour when the clock had to move into the window), edge 1 moves a drawn
// fraction into the hour, edge 2 moves to the last nanosecond of the window.
func (r *vpC11LRun) legalTime(min uint64, ok func(h int) bool, extraHours int, edge int, frac uint64) uint64 {
	ts := r.clock + 1
	if ts < min {
		ts = min
	}
	ts += uint64(extraHours) * vpC11LHour
	moved := false
	for !ok(r.hourOf(ts)) {
		ts = r.net.Epoch + ((ts-r.net.Epoch)/vpC11LHour+1)*vpC11LHour
		moved = true
	}
	hourStart := r.net.Epoch + (ts-r.net.Epoch)/vpC11LHour*vpC11LHour
	switch edge {
	case 1:
		if room := hourStart + vpC11LHour - ts; room > 1 {
			ts += frac % room
		}
	case 2:
		for i := 0; i < 12 && ok(r.hourOf(hourStart+vpC11LHour)); i++ {
			hourStart += vpC11LHour
		}
		ts = hourStart + vpC11LHour - 1
		r.marks["time-at-last-ns-of-window"] = true
	}
	if moved && ts == hourStart {
		r.marks["time-at-exact-window-start"] = true
	}
	if min != 0 && ts == min {
		r.marks["time-at-exact-minimum-period"] = true
	}
	return ts
}

func (r *vpC11LRun) lastMembership() uint64 {
	nodes := r.k.Node.persistStore.ReadAllNodes(^uint64(0)>>1, true)
	return nodes[len(nodes)-1].Timestamp
}

func (r *vpC11LRun) lastCons() crypto.Hash {
	last, err := r.k.Node.persistStore.ReadLastConsensusSnapshot()
	if err != nil || last == nil {
		panic(fmt.Sprint("no consensus snapshot ", err))
	}
	return last.Transactions[0]
}

func (r *vpC11LRun) indexOf(id crypto.Hash) int {
	for ci, x := range r.net.NodeIds {
		if x == id {
			return ci
		}
	}
	panic(fmt.Sprint("unknown node id ", id))
}

// eligible: the chain's node is in the signer set the node reports at ts and
// the chain has rounds (what checkActionSanity demands from a proposer).
func (r *vpC11LRun) eligible(ci int, ts uint64) bool {
	chain := r.k.Node.getOrCreateChain(r.net.NodeIds[ci])
	if chain == nil || chain.State == nil {
		return false
	}
	ids, _ := chain.ConsensusKeys(1, ts)
	for _, id := range ids {
		if id == chain.ChainId {
			return true
		}
	}
	return false
}

func (r *vpC11LRun) pickChain(want int, ts uint64) int {
	n := len(r.net.NodeIds)
	for j := 0; j < n; j++ {
		if ci := (want + j) % n; r.eligible(ci, ts) {
			return ci
		}
	}
	panic("no eligible chain")
}

func (r *vpC11LRun) pickExt(want, self int, ts uint64) int {
	for j := 0; j < 7; j++ {
		ci := (want + j) % 7
		if ci == self {
			continue
		}
		if r.k.Node.getAcceptedOrPledgingNode(r.net.NodeIds[ci], ts) != nil {
			return ci
		}
	}
	panic("no external chain")
}

// snapshotOn builds and certifies a snapshot of hs on chain ci at the clock.
func (r *vpC11LRun) snapshotOn(ci int, hs []crypto.Hash) *common.Snapshot {
	chain := r.k.Node.getOrCreateChain(r.net.NodeIds[ci])
	cache := chain.State.CacheRound
	newRound := false
	if len(cache.Snapshots) > 0 {
		start, _ := cache.Gap()
		newRound = r.clock >= start+config.SnapshotRoundGap || r.clock/OneDay != start/OneDay
	}
	ext := r.pickExt(int(r.clock/7%7), ci, r.clock)
	s := r.k.NextSnapshot(ci, hs, r.clock, newRound, ext)
	r.k.CertifyRot(s, int(r.clock%3), int(r.clock/3%11))
	return s
}

func (r *vpC11LRun) deliver(ci int, txs []*common.VersionedTransaction, what string) (*common.Snapshot, error) {
	var hs []crypto.Hash
	for _, tx := range txs {
		hs = append(hs, tx.PayloadHash())
	}
	s := r.snapshotOn(ci, hs)
	if r.skew {
		lag := r.skewBy
		for _, tx := range txs {
			if tx.TransactionType() == common.TransactionTypeNodePledge {
				// Outside C11 and not generated: a pledge snapshot stamped ahead of
				// the local clock makes reloadConsensusState panic on this tree (the
				// new chain's identity is looked up at the local time, where the
				// pledge does not exist yet). Recorded in DESIGN.md 8.3 as an
				// observation; the pledge is handed over with the clock caught up.
				lag = 0
			}
		}
		if lag == 0 {
			vpC11LSetClock(s.Timestamp + uint64(time.Millisecond))
		} else {
			vpC11LSetClock(s.Timestamp - lag)
		}
	}
	fin, err := r.k.Deliver(s, txs)
	if err != nil {
		return nil, fmt.Errorf("%s: %v", what, err)
	}
	if !fin {
		return nil, fmt.Errorf("%s: snapshot %s at epoch+%d not finalized by the node", what, s.Hash, s.Timestamp-r.net.Epoch)
	}
	return s, nil
}

func (r *vpC11LRun) note(kind string, ts uint64, more string) {
	r.log = append(r.log, fmt.Sprintf("%s@+%dh%dns%s", kind, (ts-r.net.Epoch)/vpC11LHour, (ts-r.net.Epoch)%vpC11LHour, more))
}

// ordinary finalizes a small deposit on a drawn eligible chain.
func (r *vpC11LRun) ordinary(want int, dt uint64) error {
	r.seq++
	r.clock += dt
	tx := r.net.BTCDeposit(common.NewInteger(1), r.seq%4, fmt.Sprintf("0xc11l-%d", r.seq), r.seq)
	ci := r.pickChain(want, r.clock)
	_, err := r.deliver(ci, []*common.VersionedTransaction{tx}, "ordinary deposit")
	return err
}

type vpC11LWhen struct {
	Extra int
	Edge  int
	Frac  uint64
	Slack uint64 // 0 or 1: the minimum period exactly, or one nanosecond more
}

func (r *vpC11LRun) custodian(w vpC11LWhen) error {
	r.seq++
	r.clock += uint64(time.Millisecond)
	fund := r.net.XINDeposit(common.NewInteger(uint64(100+r.seq)), r.seq%4, fmt.Sprintf("0xc11l-cu-%d", r.seq), r.seq)
	if _, err := r.deliver(r.pickChain(r.seq, r.clock), []*common.VersionedTransaction{fund}, "custodian funding"); err != nil {
		return err
	}
	r.clock = r.legalTime(0, vpC11LCustodianHour, w.Extra, w.Edge%2, w.Frac)
	tx := r.net.CustodianUpdate(fund, r.seq%4, r.lastCons(), r.seq)
	ci := r.indexOf(r.k.Node.electSnapshotNode(common.TransactionTypeCustodianUpdateNodes, r.clock))
	if _, err := r.deliver(ci, []*common.VersionedTransaction{tx}, "custodian update"); err != nil {
		return err
	}
	r.recs = append(r.recs, r.clock)
	r.note("custodian", r.clock, "")
	return nil
}

func (r *vpC11LRun) pledge(j int, w vpC11LWhen) error {
	r.seq++
	owner := r.seq % 4
	r.clock += uint64(time.Millisecond)
	fund := r.net.XINDeposit(common.KernelNodePledgeAmount, owner, fmt.Sprintf("0xc11l-fund-%d", j), r.seq)
	if _, err := r.deliver(r.pickChain(r.seq, r.clock), []*common.VersionedTransaction{fund}, "pledge funding"); err != nil {
		return err
	}
	min := r.lastMembership() + uint64(config.KernelNodePledgePeriodMinimum) + w.Slack
	r.clock = r.legalTime(min, vpC11LPledgeHour, w.Extra, w.Edge, w.Frac)
	tx := r.net.NodePledge(fund, owner, r.net.Signers[j], r.net.Payees[j], r.lastCons())
	ci := r.indexOf(r.k.Node.electSnapshotNode(common.TransactionTypeNodePledge, r.clock))
	if _, err := r.deliver(ci, []*common.VersionedTransaction{tx}, "pledge"); err != nil {
		return err
	}
	r.pledges[j], r.owners[j] = tx, owner
	r.pledged = append(r.pledged, j)
	r.pledging = j
	r.recs = append(r.recs, r.clock)
	r.note("pledge", r.clock, fmt.Sprintf("(joiner %d)", j))
	return nil
}

func (r *vpC11LRun) followTime(w vpC11LWhen) (uint64, error) {
	p := r.k.Node.PledgingNode(r.clock + 1)
	if p == nil {
		return 0, fmt.Errorf("the live node reports no pledging node at epoch+%d although the pledge was finalized", r.clock+1-r.net.Epoch)
	}
	return r.legalTime(p.Timestamp+uint64(config.KernelNodeAcceptPeriodMinimum)+w.Slack, vpC11LAcceptHour, w.Extra, w.Edge, w.Frac), nil
}

func (r *vpC11LRun) accept(w vpC11LWhen) error {
	j := r.pledging
	ts, err := r.followTime(w)
	if err != nil {
		return err
	}
	r.clock = ts
	tx := r.net.NodeAccept(r.pledges[j], r.net.Signers[j], r.lastCons())
	s := r.k.InitialSnapshot(r.net.NodeIds[j], tx.PayloadHash(), r.clock)
	r.k.CertifyRot(s, int(r.clock%3), int(r.clock/3%11))
	if r.skew {
		vpC11LSetClock(s.Timestamp - r.skewBy)
	}
	if _, err := r.k.Deliver(s, []*common.VersionedTransaction{tx}); err != nil {
		return fmt.Errorf("accept: %v", err)
	}
	back, _ := r.k.Node.persistStore.ReadSnapshot(s.Hash)
	chain := r.k.Node.getOrCreateChain(s.NodeId)
	if back == nil || chain == nil || chain.State == nil || chain.State.CacheRound.Number != 1 {
		return fmt.Errorf("accept: snapshot %s at epoch+%d not finalized by the node", s.Hash, s.Timestamp-r.net.Epoch)
	}
	r.pledging = -1
	r.accepted++
	r.recs = append(r.recs, r.clock)
	r.note("accept", r.clock, fmt.Sprintf("(joiner %d)", j))
	return nil
}

// cancel finalizes the cancellation of the pledging node by hand, the way the
// finalization path does after validation: operation lock, input lock and
// body, round transition, snapshot write, then reloadConsensusState exactly as
// cosiHandleFinalization calls it (node cancel transactions never pass
// validateInputs on this tree, the property's quantifier names them anyway).
func (r *vpC11LRun) cancel(w vpC11LWhen, want int) error {
	j := r.pledging
	node := r.k.Node
	ts, err := r.followTime(w)
	if err != nil {
		return err
	}
	r.clock = ts
	pledge := r.pledges[j]
	owner := r.owners[j]
	amount := pledge.Outputs[0].Amount
	tx := common.NewTransactionV5(common.XINAssetId)
	tx.AddInput(pledge.PayloadHash(), 0)
	tx.AddOutputWithType(common.OutputTypeNodeCancel, nil, common.Script{}, amount.Div(100), []byte{})
	tx.AddOutputWithType(common.OutputTypeScript, []*common.Address{&r.net.Accts[owner]}, common.NewThresholdScript(1), amount.Sub(amount.Div(100)), vpKSeed("c11l-cancel-out", j, r.seq))
	tx.Extra = append(append([]byte{}, pledge.Extra...), r.net.Accts[owner].PrivateViewKey[:]...)
	tx.References = []crypto.Hash{r.lastCons()}
	ver := tx.AsVersioned()
	sig := r.net.Accts[owner].PrivateSpendKey.Sign(ver.PayloadHash())
	ver.SignaturesMap = []map[uint16]*crypto.Signature{{0: &sig}}
	if ver.TransactionType() != common.TransactionTypeNodeCancel {
		return fmt.Errorf("cancel: harness transaction has type %d", ver.TransactionType())
	}
	if r.skew {
		vpC11LSetClock(r.clock - r.skewBy)
	}
	if err := node.persistStore.AddNodeOperation(ver, r.clock, uint64(config.KernelNodePledgePeriodMinimum)*2, true); err != nil {
		return fmt.Errorf("cancel: operation lock: %v", err)
	}
	if err := ver.LockInputs(node.persistStore, false); err != nil {
		return fmt.Errorf("cancel: lock inputs: %v", err)
	}
	if err := node.persistStore.WriteTransaction(ver); err != nil {
		return fmt.Errorf("cancel: persist: %v", err)
	}
	ci := r.pickChain(want, r.clock)
	chain := node.getOrCreateChain(r.net.NodeIds[ci])
	s := r.snapshotOn(ci, []crypto.Hash{ver.PayloadHash()})
	if s.RoundNumber == chain.State.CacheRound.Number+1 {
		cache, _ := chain.StateCopy()
		_, nf, dummy, err := chain.startNewRoundAndPersist(cache, s.References, s.Timestamp, true)
		if err != nil || nf == nil || dummy {
			return fmt.Errorf("cancel: round transition: %v %v %v", err, nf, dummy)
		}
	}
	signers, ok := chain.verifyFinalization(s)
	if !ok {
		return fmt.Errorf("cancel: harness certificate rejected")
	}
	cache, final := chain.StateCopy()
	if !s.References.Equal(cache.References) {
		return fmt.Errorf("cancel: references do not match the head round")
	}
	if err := cache.ValidateSnapshot(s); err != nil {
		return fmt.Errorf("cancel: ValidateSnapshot: %v", err)
	}
	if err := chain.AddSnapshot(final, cache, s, signers); err != nil {
		return fmt.Errorf("cancel: AddSnapshot: %v", err)
	}
	if err := node.reloadConsensusState(s, ver); err != nil {
		return fmt.Errorf("cancel: reloadConsensusState: %v", err)
	}
	r.pledging = -1
	r.recs = append(r.recs, r.clock)
	r.note("cancel", r.clock, fmt.Sprintf("(joiner %d)", j))
	return nil
}

func (r *vpC11LRun) remove(w vpC11LWhen) error {
	node := r.k.Node
	min := r.lastMembership() + uint64(config.KernelNodePledgePeriodMinimum) + w.Slack
	r.clock = r.legalTime(min, vpC11LAcceptHour, w.Extra, w.Edge, w.Frac)
	acc := node.NodesListWithoutState(r.clock, true)
	if len(acc) == 0 {
		return fmt.Errorf("remove: the live node reports no accepted node at epoch+%d", r.clock-r.net.Epoch)
	}
	cand := acc[0]
	accept, _, err := node.persistStore.ReadTransaction(cand.Transaction)
	if err != nil || accept == nil {
		return fmt.Errorf("remove: accept transaction of the candidate: %v", err)
	}
	tx := r.net.NodeRemove(accept, cand.Signer, cand.Payee, r.lastCons())
	ci := r.indexOf(node.electSnapshotNode(common.TransactionTypeNodeRemove, r.clock))
	if _, err := r.deliver(ci, []*common.VersionedTransaction{tx}, "remove"); err != nil {
		return err
	}
	r.accepted--
	r.recs = append(r.recs, r.clock)
	r.note("remove", r.clock, fmt.Sprintf("(node %d)", r.indexOf(cand.IdForNetwork)))
	return nil
}

// ---------------------------------------------------------------------------
// views

type vpC11LProbe struct {
	Names []string
	Ids   []crypto.Hash
}

func (r *vpC11LRun) probe() *vpC11LProbe {
	p := &vpC11LProbe{}
	// the removal candidate among the genesis nodes (first by id, all genesis
	// records share the epoch timestamp) and the genesis node sorted last
	gen := append([]crypto.Hash{}, r.net.NodeIds[:7]...)
	sort.Slice(gen, func(i, j int) bool { return gen[i].String() < gen[j].String() })
	p.Names = append(p.Names, "G-first", "G-second", "G-last")
	p.Ids = append(p.Ids, gen[0], gen[1], gen[6])
	for _, j := range r.pledged {
		p.Names = append(p.Names, fmt.Sprintf("J%d", j))
		p.Ids = append(p.Ids, r.net.NodeIds[j])
	}
	return p
}

func vpC11LNodeString(n *CNode) string {
	if n == nil {
		return "nil"
	}
	return vpC11ListString([]*CNode{n})
}

// vpC11LView renders every time-indexed view at q.
func vpC11LView(node *Node, q uint64, p *vpC11LProbe) map[string]string {
	v := make(map[string]string)
	acc := node.NodesListWithoutState(q, true)
	v["list"] = vpC11ListString(node.NodesListWithoutState(q, false))
	v["list-accepted"] = vpC11ListString(acc)
	v["threshold"] = fmt.Sprintf("%d/%d", node.ConsensusThreshold(q, false), node.ConsensusThreshold(q, true))
	v["pledging"] = vpC11LNodeString(node.PledgingNode(q))
	for i, id := range p.Ids {
		name := p.Names[i]
		v["lookup-"+name] = vpC11LNodeString(node.getAcceptedOrPledgingNode(id, q)) + "|" + vpC11LNodeString(node.GetRemovedOrCancelledNode(id, q))
		ch := node.getOrCreateChain(id)
		if ch == nil {
			v["keys-"+name] = "no chain object"
			continue
		}
		for _, round := range []uint64{0, 1} {
			ids, keys := ch.ConsensusKeys(round, q)
			var sb strings.Builder
			for i := range ids {
				sb.WriteString(ids[i].String()[:12])
				sb.WriteByte(':')
				sb.WriteString(keys[i].String()[:12])
				sb.WriteByte(';')
			}
			v[fmt.Sprintf("keys-%s-r%d", name, round)] = sb.String()
		}
	}
	if q >= node.Epoch && len(acc) >= config.KernelMinimumNodesCount {
		var sb strings.Builder
		for _, op := range []byte{common.TransactionTypeMint, common.TransactionTypeNodeRemove, common.TransactionTypeNodePledge,
			common.TransactionTypeCustodianUpdateNodes, common.TransactionTypeCustodianSlashNodes} {
			sb.WriteString(node.electSnapshotNode(op, q).String()[:12])
			sb.WriteByte(';')
		}
		v["elect"] = sb.String()
	}
	cur, err := node.persistStore.ReadCustodian(q)
	switch {
	case err != nil:
		v["custodian"] = "error " + err.Error()
	case cur == nil:
		v["custodian"] = "nil"
	default:
		v["custodian"] = fmt.Sprintf("%s/%s/%d/%d", cur.Custodian.String(), cur.Transaction, cur.Timestamp, len(cur.Nodes))
	}
	return v
}

// queries: t-1, t, t+1 of every record time, of its maturity instants (30 s,
// 12 h, 12 h minus the pledging look-ahead) and of the operation-window edges
// of its day and the next, plus the epoch and far later.
func (r *vpC11LRun) queries() []uint64 {
	set := map[uint64]bool{}
	add := func(t uint64) {
		set[t-1], set[t], set[t+1] = true, true, true
	}
	gap := uint64(config.SnapshotReferenceThreshold) * config.SnapshotRoundGap
	half := uint64(config.KernelNodeAcceptPeriodMinimum)
	add(r.net.Epoch)
	last := r.net.Epoch
	for _, t := range r.recs {
		add(t)
		add(t + gap)
		add(t + half)
		add(t + half - 3*gap)
		day := r.net.Epoch + (t-r.net.Epoch)/vpC11LDay*vpC11LDay
		add(day + uint64(config.KernelNodeAcceptTimeBegin)*vpC11LHour)
		add(day + uint64(config.KernelNodeAcceptTimeEnd+1)*vpC11LHour)
		add(day + vpC11LDay + uint64(config.KernelNodeAcceptTimeBegin)*vpC11LHour)
		if t > last {
			last = t
		}
	}
	set[last+30*vpC11LDay] = true
	set[last+30*vpC11LDay+15*vpC11LHour] = true // far later, inside an operation window
	qs := make([]uint64, 0, len(set))
	for q := range set {
		qs = append(qs, q)
	}
	sort.Slice(qs, func(i, j int) bool { return qs[i] < qs[j] })
	return qs
}

// vpC11LStableKey: whether the answer under key takes part in the (stable)
// relation for a query at q when a record at time t was appended.
func vpC11LStableKey(key string, q, t uint64) bool {
	if strings.HasPrefix(key, "keys-J") && strings.HasSuffix(key, "-r0") {
		return false // appends the chain's own identity while the chain has no rounds
	}
	if key == "custodian" {
		return q < t
	}
	return q <= t
}

func vpC11LSortedTimes(m map[uint64]map[string]string) []uint64 {
	qs := make([]uint64, 0, len(m))
	for q := range m {
		qs = append(qs, q)
	}
	sort.Slice(qs, func(i, j int) bool { return qs[i] < qs[j] })
	return qs
}

func vpC11LSortedKeys(m map[string]string) []string {
	keys := make([]string, 0, len(m))
	for k := range m {
		keys = append(keys, k)
	}
	sort.Strings(keys)
	return keys
}

func vpC11LDiff(a, b map[string]string) string {
	for _, k := range vpC11LSortedKeys(a) {
		if bv, ok := b[k]; !ok || a[k] != bv {
			return fmt.Sprintf("view %q differs:\n  live =%s\n  other=%s", k, a[k], b[k])
		}
	}
	if len(a) != len(b) {
		return "different view sets"
	}
	return ""
}

// vpC11LFresh: a node object that loads the same store from scratch the way
// SetupNode does (LoadConsensusNodes, then a chain object for every node).
func vpC11LFresh(live *Node) (*Node, error) {
	n := &Node{
		IdForNetwork:    live.IdForNetwork,
		Signer:          live.Signer,
		Epoch:           live.Epoch,
		SyncPoints:      live.SyncPoints,
		chains:          &chainsMap{m: make(map[crypto.Hash]*Chain)},
		genesisNodesMap: live.genesisNodesMap,
		genesisNodes:    live.genesisNodes,
		networkId:       live.networkId,
		persistStore:    live.persistStore,
		cacheStore:      live.cacheStore,
		custom:          live.custom,
		done:            make(chan struct{}),
	}
	if err := n.LoadConsensusNodes(); err != nil {
		return nil, err
	}
	for _, cn := range n.NodesListWithoutState(clock.NowUnixNano(), false) {
		n.getOrCreateChain(cn.IdForNetwork)
	}
	return n, nil
}

type vpC11LInfo struct {
	Held     bool   // the node holds a chain object for the id (without the harness asking for one)
	Identity string // what feeds the views: id, signer, IsPledging, rounds or not
	Full     string // every field of ConsensusInfo
}

func vpC11LInfoOf(node *Node, id crypto.Hash) vpC11LInfo {
	ch := node.getChain(id)
	if ch == nil {
		return vpC11LInfo{}
	}
	info := vpC11LInfo{Held: true}
	if ci := ch.ConsensusInfo; ci == nil {
		info.Identity = fmt.Sprintf("nil/pledging=%t/rounds=%t", ch.IsPledging(), ch.State != nil)
		info.Full = "nil"
	} else {
		info.Identity = fmt.Sprintf("%s/%s/pledging=%t/rounds=%t", ci.IdForNetwork, ci.Signer.PublicSpendKey, ch.IsPledging(), ch.State != nil)
		info.Full = fmt.Sprintf("%s/%s/%s/%s/%d/%s", ci.IdForNetwork, ci.Signer.PublicSpendKey, ci.Payee.PublicSpendKey, ci.Transaction, ci.Timestamp, ci.State)
	}
	return info
}

type vpC11LStats struct {
	NotHeld    int
	StaleInfo  int
	Compared   int
	Queries    int
	StableCmps int
}

// compareInfos: live vs other (fresh object or restarted node) per probed id.
func (r *vpC11LRun) compareInfos(live, other map[string]vpC11LInfo, p *vpC11LProbe, st *vpC11LStats) error {
	for i, name := range p.Names {
		l, o := live[name], other[name]
		if !l.Held || !o.Held {
			// a restarted node creates a chain object for every member, the live
			// node when the member pledges; creating it on first use instead
			// would change no view, so a difference is counted, not failed
			if l.Held != o.Held {
				st.NotHeld++
			}
			continue
		}
		if l.Identity != o.Identity {
			return fmt.Errorf("ConsensusInfo identity of chain %s: live %s, loaded from the store %s", name, l.Identity, o.Identity)
		}
		pledgingNow := r.pledging >= 0 && r.net.NodeIds[r.pledging] == p.Ids[i]
		if l.Full != o.Full {
			if pledgingNow {
				return fmt.Errorf("ConsensusInfo of the pledging chain %s: live %s, loaded from the store %s", name, l.Full, o.Full)
			}
			st.StaleInfo++
		}
	}
	return nil
}

func (r *vpC11LRun) infos(node *Node, p *vpC11LProbe) map[string]vpC11LInfo {
	m := map[string]vpC11LInfo{}
	for i, id := range p.Ids {
		m[p.Names[i]] = vpC11LInfoOf(node, id)
	}
	return m
}

// evaluate runs both relations after the operation that put a record at t
// (t == 0: no new record, e.g. right after start-up).
func (r *vpC11LRun) evaluate(t uint64, remembered map[uint64]map[string]string, st *vpC11LStats) error {
	live := r.k.Node
	if r.skew {
		// time passes: every record is now in the local clock's past
		vpC11LSetClock(r.clock + uint64(2*time.Minute))
	}
	p := r.probe()
	liveInfos := r.infos(live, p) // before the harness asks the live node for any chain object
	repeated := map[crypto.Hash]string{}
	for _, id := range p.Ids {
		if q, ok := r.sentinel[id]; ok {
			if ch := live.getChain(id); ch != nil {
				repeated[id] = vpC11LKeysString(ch, 1, q)
			}
		}
	}
	qs := r.queries()
	now := make(map[uint64]map[string]string, len(qs))
	for _, q := range qs {
		now[q] = vpC11LView(live, q, p)
	}
	st.Queries += len(qs)
	// (stable)
	if t != 0 {
		for _, q := range vpC11LSortedTimes(remembered) {
			old := remembered[q]
			cur := now[q]
			if cur == nil {
				cur = vpC11LView(live, q, p)
				now[q] = cur
			}
			for _, key := range vpC11LSortedKeys(old) {
				ov := old[key]
				if !vpC11LStableKey(key, q, t) {
					continue
				}
				st.StableCmps++
				if cv := cur[key]; cv != ov {
					return fmt.Errorf("the record at epoch+%d changed the answer %q for the earlier time epoch+%d (q-t=%d):\n  before=%s\n  after =%s", t-r.net.Epoch, key, q-r.net.Epoch, int64(q)-int64(t), ov, cv)
				}
			}
		}
	}
	// (fresh)
	fresh, err := vpC11LFresh(live)
	if err != nil {
		return fmt.Errorf("LoadConsensusNodes on a fresh node object: %v", err)
	}
	if err := r.compareInfos(liveInfos, r.infos(fresh, p), p, st); err != nil {
		return err
	}
	for _, id := range p.Ids {
		lv, ok := repeated[id]
		if !ok {
			continue
		}
		fch := fresh.getOrCreateChain(id)
		if fch == nil {
			continue
		}
		st.Compared++
		r.marks["repeated-question"] = true
		if fv := vpC11LKeysString(fch, 1, r.sentinel[id]); fv != lv {
			return fmt.Errorf("the chain object of %s answers ConsensusKeys(1, epoch+%d) - the last question before the operation, repeated right after it - with\n  %s\na node loaded from the same store answers\n  %s", id, r.sentinel[id]-r.net.Epoch, lv, fv)
		}
	}
	// leave a last question on every probed chain object
	if r.sentinel == nil {
		r.sentinel = map[crypto.Hash]uint64{}
	}
	for _, id := range p.Ids {
		if ch := live.getChain(id); ch != nil {
			q := r.clock + 30*24*vpC11LHour + 7
			_ = vpC11LKeysString(ch, 1, q)
			r.sentinel[id] = q
		}
	}
	for _, q := range vpC11LSortedTimes(now) {
		lv := now[q]
		fv := vpC11LView(fresh, q, p)
		st.Compared++
		if d := vpC11LDiff(lv, fv); d != "" {
			return fmt.Errorf("live node vs node object loaded from the same store, at epoch+%d (q-t=%d): %s", q-r.net.Epoch, int64(q)-int64(t), d)
		}
	}
	for q, v := range now {
		remembered[q] = v
	}
	return nil
}

// restart replaces the live node by a SetupNode restart on the same store and
// demands every remembered answer and every chain identity from it.
func (r *vpC11LRun) restart(remembered map[uint64]map[string]string, st *vpC11LStats) error {
	p := r.probe()
	liveInfos := r.infos(r.k.Node, p)
	r.k.Stop()
	k2, err := vpKStart(r.net, r.dir, r.self, nil)
	if err != nil {
		return fmt.Errorf("restart: %v", err)
	}
	r.k = k2
	if err := r.compareInfos(liveInfos, r.infos(k2.Node, p), p, st); err != nil {
		return fmt.Errorf("live node vs restarted node: %v", err)
	}
	for _, q := range vpC11LSortedTimes(remembered) {
		lv := remembered[q]
		st.Compared++
		if d := vpC11LDiff(lv, vpC11LView(k2.Node, q, p)); d != "" {
			return fmt.Errorf("live node vs restarted node, at epoch+%d: %s", q-r.net.Epoch, d)
		}
	}
	return nil
}

func TestVP_C11_live_reload(t *testing.T) {
	c := kit.New(t, "C11", "rapid: membership histories put through a real node (SetupNode on a generated 7-node genesis, Badger store, the harness owns every key): 3..7 operations (3..9 thorough) drawn by a state machine from {custodian update, fund+pledge of a new node, accept, cancel, removal of the oldest node} with legal times drawn at the exact minimum period or 1 ns later, 0..30 h later, at the exact start of the hour window, inside it, or at its last nanosecond; pledge, accept, removal and custodian update go through cosiHandleFinalization with harness-made certificates on the chain the kernel elects, cancel is finalized by hand after validation (operation lock, LockInputs+WriteTransaction, round transition, AddSnapshot) followed by reloadConsensusState as cosiHandleFinalization calls it; the process under test is genesis member, or the first or second joining node; ordinary deposits in between; after EVERY operation: every view (NodesListWithoutState(q,false|true) with ids/states/timestamps/transactions/ConsensusIndex, PledgingNode, ConsensusThreshold(q,false|true), ConsensusKeys(0|1,q) on the chains of three genesis nodes incl. the removal candidate and of every node that pledged, accepted-or-pledging / removed-or-cancelled lookups of those ids, electSnapshotNode for five operations, ReadCustodian) at t-1,t,t+1 of every record time, its 30 s / 12 h / 12 h-90 s instants, the operation-window edges of its day and the next, the epoch and 30 days later must equal the view of a Node object that ran LoadConsensusNodes on the same store from scratch, and must equal the answer remembered from before the operation when q <= the new record's time; the view-feeding part of ConsensusInfo of the chain objects both sides hold is compared too; at drawn points and at the end the node is restarted (SetupNode) and must repeat every remembered answer; non-trivial = evaluation of a history that so far holds >= 1 accept and >= 1 cancel or removal (queries after the last record are always present); distinct by (history so far)")
	c.Require("nontrivial", "op-pledge", "op-accept", "op-cancel", "op-remove", "op-custodian", "restart-compared", "restart-mid-history",
		"self-is-joining-node", "pledge-after-cancel", "remove-after-accept", "pledging-at-end", "stable-compared",
		"time-at-exact-window-start", "time-at-last-ns-of-window")
	if kit.Thorough() {
		// shapes that need four or more operations in a particular order: a quick run reaches them in most, not all, seeds
		c.Require("accept-after-cancel", "time-at-exact-minimum-period", "two-removals")
	}
	kit.SetChecks(kit.N(20, 1600))
	maxOps := 7
	if kit.Thorough() {
		maxOps = 9
	}
	net := vpC11LNewNet("c11l")
	rapid.Check(t, func(t *rapid.T) {
		dir := vpKTempDir("c11l")
		defer os.RemoveAll(dir)
		self := rapid.SampledFrom([]int{0, 3, 7, 7, 8}).Draw(t, "self")
		k, err := vpKStart(net, dir, self, nil)
		if err != nil {
			t.Fatalf("start: %v", err)
		}
		r := &vpC11LRun{net: net, dir: dir, self: self, k: k, pledges: map[int]*common.VersionedTransaction{}, owners: map[int]int{}, pledging: -1, accepted: 7, marks: map[string]bool{}}
		defer func() { r.k.Stop() }()
		if rapid.IntRange(0, 2).Draw(t, "clock_skew") == 0 {
			// the local clock is set to the ledger's time and runs a little behind
			// the snapshots the node is handed, as a verifier's clock may
			r.skew = true
			r.skewBy = rapid.SampledFrom([]uint64{1, uint64(time.Second), uint64(5 * time.Second), uint64(20 * time.Second)}).Draw(t, "skew_by")
			defer clock.Reset()
		}
		r.clock = net.Epoch + 36*vpC11LHour + uint64(rapid.IntRange(0, 3599).Draw(t, "base_s"))*uint64(time.Second)
		remembered := map[uint64]map[string]string{}
		st := &vpC11LStats{}
		fail := func(format string, args ...any) {
			t.Fatalf("%s\nhistory (self=node %d): %v", fmt.Sprintf(format, args...), self, r.log)
		}
		if err := r.evaluate(0, remembered, st); err != nil {
			fail("after start-up: %v", err)
		}
		nOps := rapid.IntRange(3, maxOps).Draw(t, "ops")
		next := 7
		custodians := 0
		counts := map[string]int{}
		classes := map[string]bool{}
		for i := 0; i < nOps; i++ {
			var menu []string
			switch {
			case r.pledging >= 0:
				menu = []string{"accept", "accept", "accept", "cancel", "cancel"}
				if counts["cancel"] > 0 {
					menu = append(menu, "accept", "accept")
				}
			default:
				if next < 7+vpC11LJoiners {
					menu = append(menu, "pledge", "pledge", "pledge")
					if counts["cancel"] > 0 && counts["accept"] == 0 {
						menu = append(menu, "pledge", "pledge", "pledge")
					}
				}
				if r.accepted > config.KernelMinimumNodesCount {
					menu = append(menu, "remove", "remove", "remove")
				}
				if custodians < 2 {
					menu = append(menu, "custodian")
				}
			}
			if len(menu) == 0 {
				break
			}
			kind := rapid.SampledFrom(menu).Draw(t, "kind")
			for j := rapid.IntRange(0, 1).Draw(t, "ordinary"); j > 0; j-- {
				if err := r.ordinary(rapid.IntRange(0, 9).Draw(t, "ord_chain"), uint64(rapid.IntRange(1, 900).Draw(t, "dt_ms"))*uint64(time.Millisecond)); err != nil {
					fail("%v", err)
				}
			}
			w := vpC11LWhen{
				Extra: rapid.SampledFrom([]int{0, 0, 0, 0, 1, 5, 13, 30}).Draw(t, "extra_h"),
				Edge:  rapid.SampledFrom([]int{0, 0, 1, 2}).Draw(t, "edge"),
				Frac:  rapid.Uint64Range(0, vpC11LHour-1).Draw(t, "frac"),
				Slack: uint64(rapid.IntRange(0, 1).Draw(t, "slack")),
			}
			cancelChain := rapid.IntRange(0, 9).Draw(t, "cancel_chain")
			var oerr error
			if p := vpKCatch(func() {
				switch kind {
				case "custodian":
					custodians++
					oerr = r.custodian(w)
				case "pledge":
					oerr = r.pledge(next, w)
					next++
				case "accept":
					oerr = r.accept(w)
				case "cancel":
					oerr = r.cancel(w, cancelChain)
				case "remove":
					oerr = r.remove(w)
				}
			}); p != nil {
				fail("operation %s panicked: %v", kind, p)
			}
			if oerr != nil {
				fail("operation %s could not be finalized on the live node: %v", kind, oerr)
			}
			counts[kind]++
			switch {
			case kind == "pledge" && counts["cancel"] > 0:
				classes["pledge-after-cancel"] = true
			case kind == "accept" && counts["cancel"] > 0:
				classes["accept-after-cancel"] = true
			case kind == "remove" && counts["accept"] > 0:
				classes["remove-after-accept"] = true
			}
			for _, j := range r.pledged {
				if j == self {
					classes["self-is-joining-node"] = true // the process's own chain went through the identity refresh
				}
			}
			if err := r.evaluate(r.clock, remembered, st); err != nil {
				fail("after operation %d (%s): %v", i, kind, err)
			}
			nt := counts["accept"] >= 1 && counts["cancel"]+counts["remove"] >= 1
			cl := []string{"op-" + kind}
			if nt {
				cl = append(cl, "nontrivial")
			}
			if st.StableCmps > 0 {
				cl = append(cl, "stable-compared")
			}
			c.Case(fmt.Sprint(self, r.log), nt, cl...)
			if i < nOps-1 && rapid.IntRange(0, 5).Draw(t, "restart") == 0 {
				if err := r.restart(remembered, st); err != nil {
					fail("after operation %d (%s): %v", i, kind, err)
				}
				classes["restart-mid-history"] = true
			}
		}
		if r.pledging >= 0 {
			classes["pledging-at-end"] = true
		}
		if err := r.restart(remembered, st); err != nil {
			fail("at the end: %v", err)
		}
		classes["restart-compared"] = true
		if counts["remove"] > 1 {
			classes["two-removals"] = true
		}
		for m := range r.marks {
			classes[m] = true
		}
		if st.NotHeld > 0 {
			classes["chain-object-held-by-one-side-only(not a view)"] = true
		}
		if st.StaleInfo > 0 {
			classes["consensus-info-not-refreshed(not a view)"] = true
		}
		for cl := range classes {
			c.Class(cl)
		}
		c.ClassN("views-compared", st.Compared)
		c.ClassN("stable-answers-compared", st.StableCmps)
		c.Sample(map[string]any{"self": self, "history": r.log, "queries": st.Queries, "views_compared": st.Compared, "stable_answers_compared": st.StableCmps})
	})
}
