//go:build verif

package kernel

import (
	"fmt"
	"os"
	"strings"
	"testing"
	"time"

	"github.com/MixinNetwork/mixin/common"
	"github.com/MixinNetwork/mixin/config"
	"github.com/MixinNetwork/mixin/crypto"

	"pgregory.net/rapid"
	kit "verifkit"
)

var vpC21Witness = []vpCWStep{
	{Kind: "deposit", Chain: 1, Asset: 0, Owner: 0, Dt: 1e8},
	{Kind: "deposit", Chain: 2, Asset: 1, Owner: 1, Dt: 1e8},
	{Kind: "custodian", Prev: 0, Dt: 1e8},
	{Kind: "deposit", Chain: 3, Asset: 1, Owner: 2, Dt: 1e8},
	{Kind: "deposit", Chain: 4, Asset: 1, Owner: 3, Dt: 1e8},
}

// Known finding C21-F5: a consensus-class snapshot is durably finalized on one
// chain, another chain finalizes an ordinary snapshot before the first chain
// writes the consensus marker, the process stops: after restart the recorded
// last consensus operation is still the older one.
func TestVP_C21_known_F5(t *testing.T) {
	if kit.Replaying() {
		return
	}
	c := kit.New(t, "C21", "deterministic witness of known finding C21-F5")
	net := vpCWNewNet("c21w")
	calls, windows, err := vpCWConsWindows(net, vpC21Witness)
	if err != nil || len(windows) != 1 {
		t.Fatalf("witness workload: %v %v", err, windows)
	}
	cut := &vpCWCut{K: windows[0][1], Phase: "before", Nested: true}
	out := vpCWRunCut(net, vpC21Witness, cut)
	c.Case("witness", true)
	c.Case("witness-plain", true)
	c.Sample(map[string]any{"workload": vpCWDescribe(vpC21Witness), "cut": fmt.Sprintf("%+v", *cut), "calls": calls, "crash_at": out.CrashAt, "result": fmt.Sprint(out.Err21)})
	if out.Err22 != nil {
		t.Fatalf("witness run broke consistency: %v", out.Err22)
	}
	if out.Err21 != nil {
		kit.ReportKnown(t, "C21", "C21-F5", "consensus snapshot durably finalized on chain A, ordinary snapshot of chain B written before A's consensus marker, crash: restarted node still records the previous consensus operation ("+out.CrashAt+")")
	}
	// the same boundary without the interleaving must be repaired at start-up
	plain := vpCWRunCut(net, vpC21Witness, &vpCWCut{K: windows[0][1], Phase: "before"})
	if plain.Err21 != nil || plain.Err22 != nil {
		t.Fatalf("crash before the consensus marker without interleaving: %v %v", plain.Err21, plain.Err22)
	}
}

func TestVP_C21_consensus_marker(t *testing.T) {
	c := kit.New(t, "C21", "rapid: the C22 workloads, each containing >= 1 consensus-class snapshots (custodian updates, node pledge, node accept as round 0 of the new chain, node removal; all on the chain the kernel's rules assign) interleaved with ordinary snapshots of other chains; cuts are drawn at or after the first consensus snapshot's write (every boundary in thorough; quick aims 7 of 10 cuts per workload at the marker windows [WriteSnapshot..WriteConsensusSnapshot] of the consensus steps), plain or with another chain finalizing a snapshot at the boundary before the cut call (stop there, or after that call returned; at a WriteSnapshot boundary only when the topology lock is found free there, which the harness probes with TryLock), and the workload continues after restart; oracle: after restart ReadLastConsensusSnapshot is the latest consensus snapshot whose write returned before the cut, or a later one; the interleaving class of known finding C21-F5 (nested cuts strictly inside a marker window) and the cuts of known finding C22-F8 (restart impossible) are excluded by construction and counted; non-trivial = cut after a consensus-class snapshot write; distinct by (workload, cut)")
	c.Require("after-consensus-write", "nested", "nested-then-cut-after", "snapshot-write-holds-topology-lock", "cut-WriteConsensusSnapshot", "cut-WriteSnapshot", "after-pledge-write", "after-accept-write", "cut-in-accept-path", "cut-in-pledge-path")
	perWorkload, aimed := 10, 7
	kit.SetChecks(kit.N(10, 60))
	if kit.Thorough() {
		perWorkload = 0
	}
	net := vpCWNewNet("c21")
	rapid.Check(t, func(t *rapid.T) {
		steps := vpCWDraw(t, 7)
		has := false
		for _, s := range steps {
			has = has || vpCWIsCons(s.Kind)
		}
		if !has {
			// make sure a consensus-class step exists: fund + update appended
			steps = append(steps, vpCWStep{Kind: "deposit", Chain: 1, Asset: 0, Owner: 0, Dt: 1e8}, vpCWStep{Kind: "custodian", Prev: len(steps), Dt: 1e8},
				vpCWStep{Kind: "deposit", Chain: 2, Asset: 1, Owner: 1, Dt: 1e8})
		}
		plan, err := vpCWPlanOf(net, steps)
		if err != nil {
			t.Fatalf("%v\nworkload %v", err, vpCWDescribe(steps))
		}
		calls, windows := plan.Calls, plan.Windows
		if len(windows) == 0 {
			t.Skip("no consensus step became executable")
		}
		first := windows[0][0]
		var cuts []*vpCWCut
		if perWorkload == 0 {
			for _, cut := range vpCWCuts(t, plan, steps, 0) {
				if cut.K >= first {
					cuts = append(cuts, cut)
				}
			}
		} else {
			for i := 0; i < perWorkload; i++ {
				cut := &vpCWCut{K: rapid.IntRange(first, calls).Draw(t, "cut_k"), Phase: rapid.SampledFrom([]string{"before", "after"}).Draw(t, "cut_phase"),
					DropTmp: rapid.IntRange(0, 3).Draw(t, "drop_cache") == 0}
				if i < aimed { // aim at the marker window of a consensus step, membership operations first
					wi := len(windows) - 1 - i%len(windows)
					w := windows[wi]
					lo := w[0]
					if steps[plan.ConsSteps[wi]].Kind == "accept" && kit.Known("C22-F8") {
						lo = plan.F8[1] // what lies before the second round start returned is excluded (restart impossible)
					}
					cut.K = rapid.IntRange(lo, w[1]).Draw(t, "cut_window_k")
					if cut.K == lo && lo != w[0] {
						cut.Phase = "after"
					}
				}
				cut.Nested = rapid.IntRange(0, 1).Draw(t, "nested") == 0
				if i < aimed && i%3 == 0 {
					// another chain finalizing while the consensus snapshot is being
					// written (possible only if the topology lock is free there),
					// then the stop right after that write
					cut.K, cut.Phase, cut.Nested = windows[len(windows)-1-i%len(windows)][0], "after", true
				}
				cuts = append(cuts, cut)
			}
		}
		for _, cut := range cuts {
			if vpCWInKnownWindow(windows, cut) && kit.Known("C21-F5") {
				c.Class("excluded-known")
				continue
			}
			if vpCWInF8(plan, cut) && kit.Known("C22-F8") {
				c.Class("excluded-known-C22-F8")
				continue
			}
			out := vpCWRunCut(net, steps, cut)
			if out.Err21 != nil {
				t.Fatalf("%v\ncut %+v\nworkload %v", out.Err21, *cut, vpCWDescribe(steps))
			}
			if out.Err22 != nil {
				t.Fatalf("(consistency) %v\ncut %+v\nworkload %v", out.Err22, *cut, vpCWDescribe(steps))
			}
			cl := []string{}
			nt := out.Crashed && out.ConsBefore > 0
			if nt {
				cl = append(cl, "after-consensus-write")
				// which kind of consensus snapshot is the latest durable one
				n := 0
				for i, st := range steps {
					if vpCWIsCons(st.Kind) {
						n++
						if n == out.ConsBefore {
							cl = append(cl, "after-"+steps[i].Kind+"-write")
						}
					}
				}
			}
			for _, x := range vpCWClasses(plan, steps, cut, &out) {
				if x == "nested" || x == "cut-WriteSnapshot" || x == "cut-WriteConsensusSnapshot" || strings.HasPrefix(x, "cut-in-") || x == "snapshot-on-joined-chain" {
					cl = append(cl, x)
				}
			}
			if cut.Nested && cut.Phase == "after" {
				cl = append(cl, "nested-then-cut-after")
				if out.NestedRan {
					cl = append(cl, "nested-ran-then-cut-after")
				}
			}
			if cut.Nested && plan.Log[cut.K-1] == "WriteSnapshot" {
				if out.NestedRan {
					cl = append(cl, "other-chain-finalized-during-snapshot-write")
				} else {
					cl = append(cl, "snapshot-write-holds-topology-lock")
				}
			}
			c.Case(fmt.Sprint(vpCWDescribe(steps), *cut), nt, cl...)
			c.Sample(map[string]any{"workload": vpCWDescribe(steps), "cut": fmt.Sprintf("%+v", *cut), "crash_at": out.CrashAt, "consensus_written_before": out.ConsBefore})
		}
	})
}

// Mint snapshots are consensus-class too, but a mint only validates with a
// day of aggregated node works behind it, which the crash workloads do not
// build. The bookkeeping property is about what happens AFTER a consensus
// snapshot is durably finalized, so this unit finalizes mint snapshots the way
// the finalization path does after validation (lock + body, TopoWrite, then
// reloadConsensusState), cuts between those two calls or after them, restarts,
// and demands that the restarted node records the mint as the last consensus
// operation. Ordinary snapshots of other chains before the mint make the mint
// the last snapshot or not; a foreign snapshot written between the mint's
// TopoWrite and its marker is the known finding C21-F5 and is not generated.
func TestVP_C21_mint_marker(t *testing.T) {
	c := kit.New(t, "C21", "rapid: 1..3 universal mint snapshots (batches increasing by 1..3, each referencing the recorded last consensus operation) finalized on drawn genesis chains through lock+persist, TopoWrite and reloadConsensusState, interleaved with ordinary deposit snapshots of other chains delivered through the finalization path; the process is cut after a drawn mint's TopoWrite (before its marker write; in half of these the same mint transaction is first finalized once more by a snapshot of another chain, so that the last stored snapshot is the duplicate) or after the marker write, optionally restarted in between mints; oracle: after every restart ReadLastConsensusSnapshot is the latest mint whose TopoWrite returned (or later) and node.LastMint is its batch; non-trivial = cut between TopoWrite and the marker write; distinct by (mint count, cut position, interleaving)")
	c.Require("cut-before-marker", "cut-after-marker", "second-mint", "ordinary-before-mint", "duplicate-finalization-before-marker")
	kit.SetChecks(kit.N(24, 600))
	net := vpKNewNet(7, "c21m", 2)
	rapid.Check(t, func(t *rapid.T) {
		dir := vpKTempDir("c21m")
		defer os.RemoveAll(dir)
		k, err := vpKStart(net, dir, 0, nil)
		if err != nil {
			t.Fatalf("start: %v", err)
		}
		defer func() { k.Stop() }()
		clk := vpCWBase(net)
		seq := 0
		nmint := rapid.IntRange(1, 3).Draw(t, "mints")
		cutAt := rapid.IntRange(0, nmint-1).Draw(t, "cut_mint")
		cutBefore := rapid.Bool().Draw(t, "cut_before_marker")
		batch := uint64(KernelNetworkLegacyEnding)
		var lastMint *common.Snapshot
		restart := func(why string) {
			k.Stop()
			k2, err := vpKStart(net, dir, 0, nil)
			if err != nil {
				t.Fatalf("restart (%s): %v", why, err)
			}
			k = k2
			last, err := k.Node.persistStore.ReadLastConsensusSnapshot()
			if err != nil || last == nil {
				t.Fatalf("restart (%s): no consensus snapshot: %v", why, err)
			}
			if lastMint != nil && last.Timestamp < lastMint.Timestamp {
				t.Fatalf("restart (%s): mint snapshot %s (batch %d, ts %d) was durably finalized, the restarted node records last consensus ts %d", why, lastMint.Hash, batch, lastMint.Timestamp, last.Timestamp)
			}
			if lastMint != nil && k.Node.LastMint != batch {
				t.Fatalf("restart (%s): LastMint %d, finalized batch %d", why, k.Node.LastMint, batch)
			}
		}
		for mi := 0; mi < nmint; mi++ {
			// ordinary traffic on other chains first
			for j := rapid.IntRange(0, 2).Draw(t, "ordinary"); j > 0; j-- {
				seq++
				clk += uint64(rapid.IntRange(1, 400).Draw(t, "dt_ms")) * uint64(time.Millisecond)
				tx := net.BTCDeposit(common.NewInteger(1), 0, fmt.Sprintf("0xc21m-%d", seq), seq)
				ci := 1 + rapid.IntRange(0, 5).Draw(t, "ord_chain")
				chain := k.Node.getOrCreateChain(net.NodeIds[ci])
				newRound := false
				if cache := chain.State.CacheRound; len(cache.Snapshots) > 0 {
					start, _ := cache.Gap()
					newRound = clk >= start+config.SnapshotRoundGap
				}
				s := k.NextSnapshot(ci, []crypto.Hash{tx.PayloadHash()}, clk, newRound, (ci+1)%7)
				k.Certify(s, 0)
				if fin, err := k.Deliver(s, []*common.VersionedTransaction{tx}); err != nil || !fin {
					t.Fatalf("ordinary snapshot: %v %v", fin, err)
				}
				c.Class("ordinary-before-mint")
			}
			// the mint
			last, err := k.Node.persistStore.ReadLastConsensusSnapshot()
			if err != nil || last == nil {
				t.Fatalf("no last consensus snapshot: %v", err)
			}
			batch += uint64(rapid.IntRange(1, 3).Draw(t, "batch_step"))
			amount := common.NewInteger(uint64(10 + mi))
			tx := common.NewTransactionV5(common.XINAssetId)
			tx.AddUniversalMintInput(batch, amount)
			tx.AddScriptOutput([]*common.Address{&net.Accts[0]}, common.NewThresholdScript(1), amount, vpKSeed("c21m-out", batch))
			tx.References = last.Transactions
			ver := tx.AsVersioned()
			if err := ver.LockInputs(k.Node.persistStore, false); err != nil {
				t.Fatalf("lock mint: %v", err)
			}
			if err := k.Node.persistStore.WriteTransaction(ver); err != nil {
				t.Fatalf("persist mint: %v", err)
			}
			clk += uint64(rapid.IntRange(1, 400).Draw(t, "dt_ms")) * uint64(time.Millisecond)
			chain := k.Node.getOrCreateChain(net.NodeIds[0])
			newRound := false
			if cache := chain.State.CacheRound; len(cache.Snapshots) > 0 {
				start, _ := cache.Gap()
				newRound = clk >= start+config.SnapshotRoundGap
			}
			s := k.NextSnapshot(0, []crypto.Hash{ver.PayloadHash()}, clk, newRound, 1)
			k.Certify(s, 0)
			if newRound {
				cache, final := chain.StateCopy()
				if _, _, _, err := chain.startNewRoundAndPersist(cache, s.References, s.Timestamp, true); err != nil {
					t.Fatalf("round transition for the mint: %v", err)
				}
				_ = final
			}
			signers, ok := chain.verifyFinalization(s)
			if !ok {
				t.Fatalf("harness certificate rejected")
			}
			cache, final := chain.StateCopy()
			if err := chain.AddSnapshot(final, cache, s, signers); err != nil {
				t.Fatalf("AddSnapshot: %v", err)
			}
			lastMint = s
			if mi > 0 {
				c.Class("second-mint")
			}
			if mi == cutAt && cutBefore && rapid.Bool().Draw(t, "duplicate") {
				// The same mint transaction finalized once more by another chain's
				// snapshot before either chain recorded the operation (the finalization
				// path does not refuse an already finalized member, and the reference
				// check still sees the previous operation): the last snapshot in the
				// store is then the duplicate, and it is a consensus snapshot as well.
				clk += uint64(rapid.IntRange(1, 400).Draw(t, "dup_dt_ms")) * uint64(time.Millisecond)
				di := 1 + rapid.IntRange(0, 5).Draw(t, "dup_chain")
				dchain := k.Node.getOrCreateChain(net.NodeIds[di])
				dnew := false
				if cache := dchain.State.CacheRound; len(cache.Snapshots) > 0 {
					start, _ := cache.Gap()
					dnew = clk >= start+config.SnapshotRoundGap
				}
				d := k.NextSnapshot(di, []crypto.Hash{ver.PayloadHash()}, clk, dnew, (di+1)%7)
				k.Certify(d, 0)
				if dnew {
					dc, _ := dchain.StateCopy()
					if _, _, _, err := dchain.startNewRoundAndPersist(dc, d.References, d.Timestamp, true); err != nil {
						t.Fatalf("round transition for the duplicate: %v", err)
					}
				}
				dsigners, ok := dchain.verifyFinalization(d)
				if !ok {
					t.Fatalf("harness certificate rejected")
				}
				dc, df := dchain.StateCopy()
				if err := dchain.AddSnapshot(df, dc, d, dsigners); err != nil {
					t.Fatalf("AddSnapshot of the duplicate: %v", err)
				}
				c.Class("duplicate-finalization-before-marker")
			}
			if mi == cutAt && cutBefore {
				c.Class("cut-before-marker")
				restart("cut between the mint snapshot write and its consensus marker")
				c.Case(fmt.Sprint(nmint, mi, "before", seq), true, "cut-before-marker")
				continue
			}
			if err := k.Node.reloadConsensusState(s, ver); err != nil {
				t.Fatalf("reloadConsensusState: %v", err)
			}
			if mi == cutAt {
				restart("cut after the marker write")
				c.Case(fmt.Sprint(nmint, mi, "after", seq), false, "cut-after-marker")
			}
		}
	})
}
