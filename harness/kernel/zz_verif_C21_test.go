//go:build verif

package kernel

import (
	"fmt"
	"testing"

	"pgregory.net/rapid"
	kit "verifkit"
)

var vpC21Witness = []vpCWStep{
	{Kind: "deposit", Chain: 1, Asset: 0, Owner: 0, Dt: 1e8},
	{Kind: "deposit", Chain: 2, Asset: 1, Owner: 1, Dt: 1e8},
	{Kind: "custodian", Prev: 0, Dt: 1e8},
	{Kind: "deposit", Chain: 3, Asset: 1, Owner: 2, Dt: 1e8},
	{Kind: "deposit", Chain: 4, Asset: 1, Owner: 3, Dt: 1e8},
}

// Known finding C21-F5: a consensus-class snapshot is durably finalized on one
// chain, another chain finalizes an ordinary snapshot before the first chain
// writes the consensus marker, the process stops: after restart the recorded
// last consensus operation is still the older one.
func TestVP_C21_known_F5(t *testing.T) {
	if kit.Replaying() {
		return
	}
	c := kit.New(t, "C21", "deterministic witness of known finding C21-F5")
	net := vpKNewNet(7, "c21w", 4)
	calls, windows, err := vpCWConsWindows(net, vpC21Witness)
	if err != nil || len(windows) != 1 {
		t.Fatalf("witness workload: %v %v", err, windows)
	}
	cut := &vpCWCut{K: windows[0][1], Phase: "before", Nested: true}
	out := vpCWRunCut(net, vpC21Witness, cut)
	c.Case("witness", true)
	c.Case("witness-plain", true)
	c.Sample(map[string]any{"workload": vpCWDescribe(vpC21Witness), "cut": fmt.Sprintf("%+v", *cut), "calls": calls, "crash_at": out.CrashAt, "result": fmt.Sprint(out.Err21)})
	if out.Err22 != nil {
		t.Fatalf("witness run broke consistency: %v", out.Err22)
	}
	if out.Err21 != nil {
		kit.ReportKnown(t, "C21", "C21-F5", "consensus snapshot durably finalized on chain A, ordinary snapshot of chain B written before A's consensus marker, crash: restarted node still records the previous consensus operation ("+out.CrashAt+")")
	}
	// the same boundary without the interleaving must be repaired at start-up
	plain := vpCWRunCut(net, vpC21Witness, &vpCWCut{K: windows[0][1], Phase: "before"})
	if plain.Err21 != nil || plain.Err22 != nil {
		t.Fatalf("crash before the consensus marker without interleaving: %v %v", plain.Err21, plain.Err22)
	}
}

func TestVP_C21_consensus_marker(t *testing.T) {
	c := kit.New(t, "C21", "rapid: the C22 workloads, each containing 1..3 consensus-class snapshots (custodian updates on the elected chain) interleaved with ordinary snapshots of other chains; cuts are drawn at or after the consensus snapshot's write (every boundary in thorough), plain or with another chain finalizing at the boundary first, and crash sequences by continuing after restart; oracle: after restart ReadLastConsensusSnapshot is the latest consensus snapshot whose write returned before the cut, or a later one; the interleaving class of known finding C21-F5 is excluded by construction and counted; non-trivial = cut after a consensus-class snapshot write; distinct by (workload, cut)")
	c.Require("after-consensus-write", "nested", "cut-WriteConsensusSnapshot", "cut-WriteSnapshot")
	perWorkload := 8
	kit.SetChecks(kit.N(8, 72))
	if kit.Thorough() {
		perWorkload = 0
	}
	net := vpKNewNet(7, "c21", 4)
	rapid.Check(t, func(t *rapid.T) {
		steps := vpCWDraw(t, 7)
		has := false
		for _, s := range steps {
			has = has || s.Kind == "custodian"
		}
		if !has {
			// make sure a consensus-class step exists: fund + update appended
			steps = append(steps, vpCWStep{Kind: "deposit", Chain: 1, Asset: 0, Owner: 0, Dt: 1e8}, vpCWStep{Kind: "custodian", Prev: len(steps), Dt: 1e8},
				vpCWStep{Kind: "deposit", Chain: 2, Asset: 1, Owner: 1, Dt: 1e8})
		}
		calls, windows, err := vpCWConsWindows(net, steps)
		if err != nil {
			t.Fatalf("%v\nworkload %v", err, vpCWDescribe(steps))
		}
		if len(windows) == 0 {
			t.Skip("no consensus step became executable")
		}
		first := windows[0][0]
		var cuts []*vpCWCut
		if perWorkload == 0 {
			for _, cut := range vpCWCuts(t, calls, 0) {
				if cut.K >= first {
					cuts = append(cuts, cut)
				}
			}
		} else {
			for i := 0; i < perWorkload; i++ {
				cut := &vpCWCut{K: rapid.IntRange(first, calls).Draw(t, "cut_k"), Phase: rapid.SampledFrom([]string{"before", "after"}).Draw(t, "cut_phase"),
					DropTmp: rapid.IntRange(0, 3).Draw(t, "drop_cache") == 0}
				if i < len(windows)*2 { // aim at the marker window of each consensus step
					w := windows[i%len(windows)]
					cut.K = rapid.IntRange(w[0], w[1]).Draw(t, "cut_window_k")
				}
				if cut.Phase == "before" {
					cut.Nested = rapid.IntRange(0, 1).Draw(t, "nested") == 0
				}
				cuts = append(cuts, cut)
			}
		}
		for _, cut := range cuts {
			if vpCWInKnownWindow(windows, cut) && kit.Known("C21-F5") {
				c.Class("excluded-known")
				continue
			}
			out := vpCWRunCut(net, steps, cut)
			if out.Err21 != nil {
				t.Fatalf("%v\ncut %+v\nworkload %v", out.Err21, *cut, vpCWDescribe(steps))
			}
			if out.Err22 != nil {
				t.Fatalf("(consistency) %v\ncut %+v\nworkload %v", out.Err22, *cut, vpCWDescribe(steps))
			}
			cl := []string{}
			nt := out.Crashed && out.ConsBefore > 0
			if nt {
				cl = append(cl, "after-consensus-write")
			}
			if cut.Nested {
				cl = append(cl, "nested")
			}
			for _, n := range []string{"WriteSnapshot", "WriteConsensusSnapshot"} {
				if len(out.CrashAt) > len(n) && out.CrashAt[:len(n)+1] == n+"/" {
					cl = append(cl, "cut-"+n)
				}
			}
			c.Case(fmt.Sprint(vpCWDescribe(steps), *cut), nt, cl...)
			c.Sample(map[string]any{"workload": vpCWDescribe(steps), "cut": fmt.Sprintf("%+v", *cut), "crash_at": out.CrashAt, "consensus_written_before": out.ConsBefore})
		}
	})
}
