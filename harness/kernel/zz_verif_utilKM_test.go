//go:build verif

package kernel

// G-membership: valid node lifecycle histories as []*CNode records assembled
// into an in-memory kernel.Node, plus an independent reference model of the
// membership at a timestamp. Shared by C09, C10, C11, C29 (all identifiers are
// prefixed vpKM). Nothing here consults the wall clock or any RNG other than
// rapid draws.

import (
	"crypto/sha512"
	"encoding/binary"
	"fmt"
	"runtime/debug"
	"sort"
	"time"

	"github.com/MixinNetwork/mixin/common"
	"github.com/MixinNetwork/mixin/config"
	"github.com/MixinNetwork/mixin/crypto"
	"github.com/MixinNetwork/mixin/storage"
	"github.com/dgraph-io/ristretto/v2"
	"pgregory.net/rapid"
)

const (
	vpKMSecond = uint64(time.Second)
	vpKMHour   = uint64(time.Hour)
	vpKMDay    = 24 * uint64(time.Hour)
	// 2023-11-14T22:13:20Z: every generated timestamp (epoch .. epoch+~500d)
	// stays far more than one day before the wall clock.
	vpKMEpochDefault = uint64(1700000000) * uint64(time.Second)
	// 2014-05-13: leaves room for 3650 days of timestamps before the wall clock.
	vpKMEpochOld = uint64(1400000000) * uint64(time.Second)

	vpKMMature30s = uint64(config.SnapshotReferenceThreshold) * config.SnapshotRoundGap // 30 s
	vpKMMature12h = uint64(config.KernelNodeAcceptPeriodMinimum)                        // 12 h
)

func vpKMNetwork(tag string) crypto.Hash {
	return crypto.Blake3Hash([]byte("vpKM-network-" + tag))
}

func vpKMMainnet() crypto.Hash {
	h, err := crypto.HashFromString(config.KernelNetworkId)
	if err != nil {
		panic(err)
	}
	return h
}

// vpKMHist is one membership history: genesis set + lifecycle records.
type vpKMHist struct {
	Epoch    uint64
	Network  crypto.Hash
	Salt     uint64
	RealKeys bool
	Genesis  map[crypto.Hash]bool
	Records  []*CNode // in generation order; use Sorted()
	Privs    map[crypto.Hash]*crypto.Key
	Ops      []string
	counter  int
}

func vpKMNewHist(epoch uint64, network crypto.Hash, salt uint64, realKeys bool) *vpKMHist {
	return &vpKMHist{
		Epoch: epoch, Network: network, Salt: salt, RealKeys: realKeys,
		Genesis: make(map[crypto.Hash]bool), Privs: make(map[crypto.Hash]*crypto.Key),
	}
}

func vpKMSeed(salt uint64, i int, tag string) [64]byte {
	var b []byte
	b = binary.BigEndian.AppendUint64(b, salt)
	b = binary.BigEndian.AppendUint64(b, uint64(i))
	b = append(b, tag...)
	return sha512.Sum512(b)
}

// identity makes a fresh node identity. With RealKeys the signer spend key is a
// real key pair (private part kept in Privs); otherwise the public parts are
// hash bytes (enough for everything that never verifies a signature).
func (h *vpKMHist) identity() (crypto.Hash, common.Address, common.Address) {
	i := h.counter
	h.counter++
	var signer, payee common.Address
	var priv *crypto.Key
	if h.RealKeys {
		seed := vpKMSeed(h.Salt, i, "signer")
		k := crypto.NewKeyFromSeed(seed[:])
		priv = &k
		signer.PublicSpendKey = k.Public()
		signer.PrivateViewKey = signer.PublicSpendKey.DeterministicHashDerive()
		signer.PublicViewKey = signer.PrivateViewKey.Public()
	} else {
		seed := vpKMSeed(h.Salt, i, "signer")
		copy(signer.PublicSpendKey[:], seed[:32])
		copy(signer.PublicViewKey[:], seed[32:])
	}
	pseed := vpKMSeed(h.Salt, i, "payee")
	copy(payee.PublicSpendKey[:], pseed[:32])
	copy(payee.PublicViewKey[:], pseed[32:])
	id := signer.Hash().ForNetwork(h.Network)
	if priv != nil {
		h.Privs[id] = priv
	}
	return id, signer, payee
}

func vpKMTxHash(id crypto.Hash, state string, ts uint64) crypto.Hash {
	b := append([]byte{}, id[:]...)
	b = append(b, state...)
	b = binary.BigEndian.AppendUint64(b, ts)
	return crypto.Blake3Hash(b)
}

func (h *vpKMHist) add(id crypto.Hash, signer, payee common.Address, state string, ts uint64) *CNode {
	cn := &CNode{IdForNetwork: id, Signer: signer, Payee: payee, Transaction: vpKMTxHash(id, state, ts), Timestamp: ts, State: state}
	h.Records = append(h.Records, cn)
	h.Ops = append(h.Ops, fmt.Sprintf("%s %s @epoch+%d", state, id.String()[:8], int64(ts-h.Epoch)))
	return cn
}

func (h *vpKMHist) AddGenesis(ts uint64) *CNode {
	id, s, p := h.identity()
	h.Genesis[id] = true
	return h.add(id, s, p, common.NodeStateAccepted, ts)
}

func (h *vpKMHist) Pledge(ts uint64) *CNode {
	id, s, p := h.identity()
	return h.add(id, s, p, common.NodeStatePledging, ts)
}

// Follow appends the next lifecycle record of the node that owns prev.
func (h *vpKMHist) Follow(prev *CNode, state string, ts uint64) *CNode {
	return h.add(prev.IdForNetwork, prev.Signer, prev.Payee, state, ts)
}

func (h *vpKMHist) LastTime() uint64 {
	last := h.Epoch
	for _, r := range h.Records {
		if r.Timestamp > last {
			last = r.Timestamp
		}
	}
	return last
}

// vpKMSortRecords returns a copy sorted the way the kernel keeps the records:
// by timestamp, ties by the hex form of the node id.
func vpKMSortRecords(recs []*CNode) []*CNode {
	out := append([]*CNode{}, recs...)
	sort.SliceStable(out, func(i, j int) bool {
		if out[i].Timestamp != out[j].Timestamp {
			return out[i].Timestamp < out[j].Timestamp
		}
		return out[i].IdForNetwork.String() < out[j].IdForNetwork.String()
	})
	return out
}

func (h *vpKMHist) Sorted() []*CNode { return vpKMSortRecords(h.Records) }

// vpKMBefore keeps the records with Timestamp < q (the records that precede q).
func vpKMBefore(recs []*CNode, q uint64) []*CNode {
	var out []*CNode
	for _, r := range recs {
		if r.Timestamp < q {
			out = append(out, r)
		}
	}
	return out
}

func vpKMNewCache() *ristretto.Cache[[]byte, any] {
	cache, err := ristretto.NewCache(&ristretto.Config[[]byte, any]{
		NumCounters: 1e5,
		MaxCost:     8 << 20,
		BufferItems: 64,
		Metrics:     true,
	})
	if err != nil {
		panic(err)
	}
	return cache
}

// vpKMNewNode assembles a Node in memory from records (sorted here), the same
// way SetupNode/LoadConsensusNodes leave it, without a store.
func vpKMNewNode(h *vpKMHist, recs []*CNode, cache *ristretto.Cache[[]byte, any]) *Node {
	states := vpKMSortRecords(recs)
	node := &Node{
		Epoch:                   h.Epoch,
		networkId:               h.Network,
		allNodesSortedWithState: states,
		genesisNodesMap:         h.Genesis,
		cacheStore:              cache,
	}
	node.nodeStateSequences = node.buildNodeStateSequences(states, false)
	node.acceptedNodeStateSequences = node.buildNodeStateSequences(states, true)
	return node
}

// vpKMStubStore serves exactly what LoadConsensusNodes and the operation
// validators ask a store for; every other method panics (nil interface).
type vpKMStubStore struct {
	storage.Store
	nodes []*common.Node
}

func (s *vpKMStubStore) ReadAllNodes(threshold uint64, withState bool) []*common.Node {
	var out []*common.Node
	for _, n := range s.nodes {
		if n.Timestamp <= threshold {
			out = append(out, n)
		}
	}
	return out
}

func (s *vpKMStubStore) AddNodeOperation(tx *common.VersionedTransaction, timestamp, threshold uint64, finalized bool) error {
	return nil
}

// vpKMLoadNode assembles a Node through the production loader
// (LoadConsensusNodes) from records handed over in the given order.
func vpKMLoadNode(h *vpKMHist, recsInAnyOrder []*CNode) *Node {
	st := &vpKMStubStore{}
	for _, r := range recsInAnyOrder {
		st.nodes = append(st.nodes, &common.Node{Signer: r.Signer, Payee: r.Payee, State: r.State, Transaction: r.Transaction, Timestamp: r.Timestamp})
	}
	node := &Node{
		Epoch:           h.Epoch,
		networkId:       h.Network,
		genesisNodesMap: h.Genesis,
		persistStore:    st,
	}
	if err := node.LoadConsensusNodes(); err != nil {
		panic(err)
	}
	return node
}

// vpKMChain makes the chain object of an accepted node (pledging == nil) or of
// a node that is still pledging (State nil, ConsensusInfo set).
func vpKMChain(node *Node, id crypto.Hash, pledging *CNode) *Chain {
	if pledging != nil {
		info := *pledging
		return &Chain{node: node, ChainId: pledging.IdForNetwork, ConsensusInfo: &info}
	}
	c := &Chain{node: node, ChainId: id, State: &ChainState{}}
	// like chain.loadIdentity: a chain whose node is (or was last) accepted or
	// pledging carries that node's record as its identity
	for _, cn := range node.NodesListWithoutState(^uint64(0)>>1, false) {
		if cn.IdForNetwork == id {
			info := *cn
			c.ConsensusInfo = &info
		}
	}
	return c
}

// ---------------------------------------------------------------------------
// independent reference model

// vpKMModelList: latest record per node among the records with Timestamp < ts,
// ordered by (timestamp, id hex).
func vpKMModelList(recs []*CNode, ts uint64) []*CNode {
	latest := make(map[crypto.Hash]*CNode)
	for _, r := range recs {
		if r.Timestamp >= ts {
			continue
		}
		if p := latest[r.IdForNetwork]; p == nil || r.Timestamp > p.Timestamp {
			latest[r.IdForNetwork] = r
		}
	}
	out := make([]*CNode, 0, len(latest))
	for _, r := range latest {
		out = append(out, r)
	}
	return vpKMSortRecords(out)
}

func vpKMHourOf(epoch, ts uint64) int {
	return int(((ts - epoch) % vpKMDay) / vpKMHour)
}

func vpKMPredictive(h *vpKMHist, ts uint64) bool {
	return h.Network != vpKMMainnet() || ts >= mainnetConsensusNodeRemovalSignerSetForkAt
}

// vpKMModelRemoving: the documented predictive-removal candidate of the
// node-operation window (hours 13..19 since epoch) that contains ts: judged at
// the window start, it exists when nobody is pledging, every record is at
// least 12 h old and more than 7 nodes are accepted; it is the oldest accepted.
func vpKMModelRemoving(h *vpKMHist, recs []*CNode, ts uint64) *CNode {
	if ts < h.Epoch {
		return nil
	}
	hr := vpKMHourOf(h.Epoch, ts)
	if hr < config.KernelNodeAcceptTimeBegin || hr > config.KernelNodeAcceptTimeEnd {
		return nil
	}
	start := ts - (ts-h.Epoch)%vpKMDay + uint64(config.KernelNodeAcceptTimeBegin)*vpKMHour
	var accepted []*CNode
	for _, r := range vpKMModelList(recs, start) {
		if start-r.Timestamp < uint64(config.KernelNodePledgePeriodMinimum) {
			return nil
		}
		switch r.State {
		case common.NodeStateAccepted:
			accepted = append(accepted, r)
		case common.NodeStatePledging:
			return nil
		}
	}
	if len(accepted) <= config.KernelMinimumNodesCount {
		return nil
	}
	return accepted[0]
}

type vpKMModelView struct {
	List      []*CNode // all nodes known before ts
	Accepted  []*CNode
	Pledging  *CNode // a pledging node, if any
	Removing  *CNode // predictive removal candidate (nil when not applicable)
	Mature30s int    // accepted (not removing) that are genesis or accepted > 30 s ago
	Mature12h int    // accepted (not removing) that are genesis or accepted > 12 h ago
	Ready     []*CNode
}

func vpKMModel(h *vpKMHist, recs []*CNode, ts uint64) *vpKMModelView {
	v := &vpKMModelView{List: vpKMModelList(recs, ts)}
	if vpKMPredictive(h, ts) {
		v.Removing = vpKMModelRemoving(h, recs, ts)
	}
	for _, r := range v.List {
		switch r.State {
		case common.NodeStatePledging:
			v.Pledging = r
		case common.NodeStateAccepted:
			v.Accepted = append(v.Accepted, r)
			if v.Removing != nil && v.Removing.IdForNetwork == r.IdForNetwork {
				continue
			}
			if h.Genesis[r.IdForNetwork] || r.Timestamp+vpKMMature30s < ts {
				v.Mature30s++
			}
			if h.Genesis[r.IdForNetwork] || r.Timestamp+vpKMMature12h < ts {
				v.Mature12h++
				v.Ready = append(v.Ready, r)
			}
		}
	}
	return v
}

// ---------------------------------------------------------------------------
// rapid generators

type vpKMOpts struct {
	Epoch        uint64
	Network      crypto.Hash
	MinGenesis   int
	MaxGenesis   int
	MaxOps       int
	RealKeys     bool
	AllowBelow7  bool // removals may push the accepted count below the minimum
	ValidBias    int  // 0..100: how often time steps honour the 12 h / hour-window rules
	GenesisModes []string
}

// vpKMNextHour: first timestamp >= base whose hour-since-epoch is hr, plus off.
func vpKMNextHour(epoch, base uint64, hr int, off uint64) uint64 {
	day := epoch + (base-epoch)/vpKMDay*vpKMDay
	c := day + uint64(hr)*vpKMHour + off
	for c < base {
		c += vpKMDay
	}
	return c
}

var vpKMPledgeHours = []int{0, 1, 2, 3, 4, 5, 6, 10, 11, 12, 20, 21, 22, 23}

func vpKMDrawOffset(t *rapid.T, label string) uint64 {
	switch rapid.IntRange(0, 3).Draw(t, label+"_offkind") {
	case 0:
		return 0
	case 1:
		return vpKMHour - 1
	case 2:
		return uint64(rapid.IntRange(0, 3599).Draw(t, label+"_offsec")) * vpKMSecond
	default:
		return uint64(rapid.Int64Range(0, int64(vpKMHour)-1).Draw(t, label+"_offns"))
	}
}

// vpKMGenHist draws a lifecycle history: genesis accepted set, then
// pledge -> (accept | cancel) and remove operations at non-decreasing times
// (equal times only between different nodes).
func vpKMGenHist(t *rapid.T, o vpKMOpts) *vpKMHist {
	salt := rapid.Uint64().Draw(t, "salt")
	h := vpKMNewHist(o.Epoch, o.Network, salt, o.RealKeys)
	g := rapid.IntRange(o.MinGenesis, o.MaxGenesis).Draw(t, "genesis")
	modes := o.GenesisModes
	if len(modes) == 0 {
		modes = []string{"equal", "equal", "incr", "mixed"}
	}
	gmode := rapid.SampledFrom(modes).Draw(t, "gmode")
	cur := o.Epoch
	for i := 0; i < g; i++ {
		ts := o.Epoch
		switch gmode {
		case "incr":
			ts = o.Epoch + uint64(i)
		case "mixed":
			ts = o.Epoch + uint64(rapid.IntRange(0, 2).Draw(t, "goff"))
		}
		h.AddGenesis(ts)
		if ts > cur {
			cur = ts
		}
	}
	h.Ops = append(h.Ops, "genesis-mode "+gmode)

	nops := rapid.IntRange(0, o.MaxOps).Draw(t, "nops")
	var pledging *CNode
	var lastId crypto.Hash
	for k := 0; k < nops; k++ {
		view := vpKMModelList(h.Records, ^uint64(0))
		var accepted []*CNode
		for _, r := range view {
			if r.State == common.NodeStateAccepted {
				accepted = append(accepted, r)
			}
		}
		// choose the operation
		op := ""
		if pledging != nil {
			op = rapid.SampledFrom([]string{"accept", "accept", "accept", "cancel"}).Draw(t, "op")
		} else {
			min := config.KernelMinimumNodesCount
			if o.AllowBelow7 && rapid.IntRange(0, 3).Draw(t, "below") == 0 {
				min = config.KernelMinimumNodesCount - 3
			}
			canRemove := len(accepted) > min
			canPledge := len(accepted) < config.KernelMaximumNodesCount
			switch {
			case canRemove && canPledge:
				op = rapid.SampledFrom([]string{"pledge", "pledge", "remove"}).Draw(t, "op")
			case canRemove:
				op = "remove"
			case canPledge:
				op = "pledge"
			default:
				continue
			}
		}
		// choose the time step
		valid := rapid.IntRange(0, 99).Draw(t, "validstep") < o.ValidBias
		nt := cur
		if valid {
			switch op {
			case "accept", "cancel":
				base := pledging.Timestamp + vpKMMature12h
				if cur > base {
					base = cur
				}
				hr := rapid.IntRange(config.KernelNodeAcceptTimeBegin, config.KernelNodeAcceptTimeEnd).Draw(t, "hr")
				nt = vpKMNextHour(o.Epoch, base, hr, vpKMDrawOffset(t, "step"))
			case "remove":
				hr := rapid.IntRange(config.KernelNodeAcceptTimeBegin, config.KernelNodeAcceptTimeEnd).Draw(t, "hr")
				nt = vpKMNextHour(o.Epoch, cur+vpKMMature12h, hr, vpKMDrawOffset(t, "step"))
			case "pledge":
				hr := rapid.SampledFrom(vpKMPledgeHours).Draw(t, "hr")
				nt = vpKMNextHour(o.Epoch, cur+vpKMMature12h, hr, vpKMDrawOffset(t, "step"))
			}
		} else {
			d := uint64(rapid.IntRange(0, 2).Draw(t, "d")) // -1, 0, +1 around a boundary
			switch rapid.IntRange(0, 7).Draw(t, "stepkind") {
			case 0:
				nt = cur // equal timestamps (only kept between different nodes)
			case 1:
				nt = cur + 1
			case 2:
				nt = cur + vpKMMature30s - 1 + d
			case 3:
				nt = cur + vpKMMature12h - 1 + d
			case 4:
				nt = cur + 7*vpKMDay - 1 + d
			case 5:
				hr := rapid.IntRange(0, 23).Draw(t, "hr")
				nt = vpKMNextHour(o.Epoch, cur, hr, vpKMDrawOffset(t, "step"))
			case 6:
				nt = cur + uint64(rapid.IntRange(1, 40).Draw(t, "hours"))*vpKMHour + uint64(rapid.IntRange(0, 999).Draw(t, "ns"))
			default:
				nt = cur + vpKMMature12h - 3*vpKMMature30s - 1 + d
			}
		}
		if nt < cur {
			nt = cur
		}
		var rec *CNode
		switch op {
		case "accept", "cancel":
			if nt <= pledging.Timestamp {
				nt = pledging.Timestamp + 1
			}
			st := common.NodeStateAccepted
			if op == "cancel" {
				st = common.NodeStateCancelled
			}
			rec = h.Follow(pledging, st, nt)
			pledging = nil
		case "pledge":
			rec = h.Pledge(nt)
			pledging = rec
		case "remove":
			target := accepted[0]
			if rapid.IntRange(0, 6).Draw(t, "rmwho") == 0 {
				target = accepted[rapid.IntRange(0, len(accepted)-1).Draw(t, "rmidx")]
			}
			if nt <= target.Timestamp || (nt == cur && target.IdForNetwork == lastId) {
				nt = cur + 1
				if nt <= target.Timestamp {
					nt = target.Timestamp + 1
				}
			}
			rec = h.Follow(target, common.NodeStateRemoved, nt)
		}
		lastId = rec.IdForNetwork
		cur = nt
	}
	return h
}

// vpKMDrawTime draws a query timestamp biased to the boundaries that matter:
// record times (t-1, t, t+1), maturity boundaries (t+30s, t+12h-90s, t+12h),
// operation window edges (13:00, 20:00 since epoch), and uniform fill.
func vpKMDrawTime(t *rapid.T, h *vpKMHist, label string) uint64 {
	recs := h.Records
	last := h.LastTime()
	d := uint64(rapid.IntRange(0, 3).Draw(t, label+"_d")) // -1 .. +2
	pick := func() *CNode { return recs[rapid.IntRange(0, len(recs)-1).Draw(t, label+"_rec")] }
	var ts uint64
	switch rapid.IntRange(0, 9).Draw(t, label+"_kind") {
	case 0, 1:
		ts = pick().Timestamp + d
	case 2:
		ts = pick().Timestamp + vpKMMature30s + d
	case 3:
		ts = pick().Timestamp + vpKMMature12h + d
	case 4:
		ts = pick().Timestamp + vpKMMature12h - 3*vpKMMature30s + d
	case 5, 6:
		days := int((last-h.Epoch)/vpKMDay) + 2
		day := uint64(rapid.IntRange(0, days).Draw(t, label+"_day"))
		edge := rapid.SampledFrom([]int{config.KernelNodeAcceptTimeBegin, config.KernelNodeAcceptTimeEnd + 1, config.KernelNodeAcceptTimeBegin + 3}).Draw(t, label+"_edge")
		ts = h.Epoch + day*vpKMDay + uint64(edge)*vpKMHour + d
	case 7:
		ts = pick().Timestamp + uint64(rapid.Int64Range(0, int64(2*vpKMDay)).Draw(t, label+"_after"))
	case 8:
		ts = h.Epoch + uint64(rapid.Int64Range(0, int64(last-h.Epoch+2*vpKMDay)).Draw(t, label+"_uni"))
	default:
		ts = last + uint64(rapid.Int64Range(0, int64(9*vpKMDay)).Draw(t, label+"_tail"))
	}
	if ts > 0 {
		ts-- // d in -1..+2
	}
	return ts
}

// vpKMNonGenesis counts the records that are not the genesis acceptance.
func vpKMNonGenesis(h *vpKMHist) int { return len(h.Records) - len(h.Genesis) }

// vpKMNoPanic runs a deterministic (non-rapid) test body and reports a panic
// of the code under test as an ordinary test failure.
func vpKMNoPanic(t interface {
	Fatalf(format string, args ...any)
}, body func()) {
	defer func() {
		if r := recover(); r != nil {
			t.Fatalf("panic in code under test: %v\n%s", r, debug.Stack())
		}
	}()
	body()
}

func vpKMIdsOf(nodes []*CNode) []crypto.Hash {
	out := make([]crypto.Hash, len(nodes))
	for i, n := range nodes {
		out[i] = n.IdForNetwork
	}
	return out
}
