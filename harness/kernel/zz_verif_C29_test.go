//go:build verif

package kernel

// C29 — operator election is deterministic and never selects the node it removes.

import (
	"fmt"
	"strings"
	"testing"
	"time"

	"github.com/MixinNetwork/mixin/common"
	"github.com/MixinNetwork/mixin/config"
	"github.com/MixinNetwork/mixin/crypto"
	"github.com/MixinNetwork/mixin/kernel/internal/clock"
	"pgregory.net/rapid"
	kit "verifkit"
)

var vpC29Electable = []byte{
	common.TransactionTypeMint, common.TransactionTypeNodeRemove, common.TransactionTypeNodePledge,
	common.TransactionTypeCustodianUpdateNodes, common.TransactionTypeCustodianSlashNodes,
}

var vpC29NonElectable = []byte{
	common.TransactionTypeScript, common.TransactionTypeDeposit, common.TransactionTypeWithdrawalSubmit,
	common.TransactionTypeNodeAccept, common.TransactionTypeNodeCancel, common.TransactionTypeUnknown,
}

// vpC29Hour: hour of the epoch day by arithmetic on whole seconds.
func vpC29Hour(epoch, ts uint64) int {
	secs := (ts - epoch) / 1000000000
	return int((secs % 86400) / 3600)
}

func vpC29InAccept(h int) bool { return h >= 13 && h <= 19 }
func vpC29InMint(h int) bool   { return h >= 7 && h <= 9 }

func vpC29Shuffle(t *rapid.T, recs []*CNode, label string) []*CNode {
	out := append([]*CNode{}, recs...)
	for i := len(out) - 1; i > 0; i-- {
		j := rapid.IntRange(0, i).Draw(t, label)
		out[i], out[j] = out[j], out[i]
	}
	return out
}

type vpC29Fail func(format string, args ...any)

// vpC29JudgeElection checks one (membership, now) on the given nodes.
// accepted is the reference accepted list (oldest first) before now.
func vpC29JudgeElection(nodes []*Node, epoch uint64, accepted []*CNode, now uint64, fail vpC29Fail) (wraps bool) {
	oldest, newest := accepted[0].IdForNetwork, accepted[len(accepted)-1].IdForNetwork
	isAccepted := make(map[crypto.Hash]bool, len(accepted))
	for _, a := range accepted {
		isAccepted[a.IdForNetwork] = true
	}
	day := int((now - epoch) / vpKMDay)
	for _, op := range vpC29Electable {
		eid := nodes[0].electSnapshotNode(op, now)
		for i, n := range nodes[1:] {
			if o := n.electSnapshotNode(op, now); o != eid {
				fail("election differs between nodes built from the same records: op=%#x now=epoch+%d node0=%s node%d=%s", op, now-epoch, eid, i+1, o)
			}
		}
		if !isAccepted[eid] {
			fail("elected %s is not an accepted node (op=%#x now=epoch+%d)", eid, op, now-epoch)
		}
		if eid == oldest {
			fail("elected the oldest accepted node %s (op=%#x now=epoch+%d size=%d)", eid, op, now-epoch, len(accepted))
		}
		if eid == newest {
			fail("elected the newest accepted node %s (op=%#x now=epoch+%d size=%d)", eid, op, now-epoch, len(accepted))
		}
		if day+int(op) >= len(accepted)-2 {
			wraps = true
		}
	}
	for _, op := range vpC29NonElectable {
		eid := nodes[0].electSnapshotNode(op, now)
		for i, n := range nodes[1:] {
			if o := n.electSnapshotNode(op, now); o != eid {
				fail("non-electable op %#x answered differently: node0=%s node%d=%s", op, eid, i+1, o)
			}
		}
	}
	// whoever asks, the removal check never hands a node itself as the
	// candidate (second line of defence behind the election: the removal
	// validator calls it with the proposing chain's id)
	for id := range isAccepted {
		if candi, err := nodes[0].checkRemovePossibility(id, now, nil); err == nil && candi != nil && candi.IdForNetwork == id {
			fail("checkRemovePossibility(%s, epoch+%d) names the asking node itself as the removal candidate", id, now-epoch)
		}
	}
	// the node elected for the removal never removes itself
	eid := nodes[0].electSnapshotNode(common.TransactionTypeNodeRemove, now)
	for _, n := range nodes {
		candi, err := n.checkRemovePossibility(eid, now, nil)
		if err != nil {
			if strings.Contains(err.Error(), "by the node self") {
				fail("node %s elected at epoch+%d to propose its own removal (%v)", eid, now-epoch, err)
			}
			if strings.Contains(err.Error(), "invalid node remove hour") && vpC29InAccept(vpC29Hour(epoch, now)) {
				fail("removal refused for the hour although hour %d is inside 13..19 (now=epoch+%d)", vpC29Hour(epoch, now), now-epoch)
			}
			continue
		}
		if candi.IdForNetwork == eid {
			fail("removal candidate %s is the elected proposer (now=epoch+%d)", eid, now-epoch)
		}
		if h := vpC29Hour(epoch, now); !vpC29InAccept(h) {
			fail("removal possible at hour %d outside 13..19 (now=epoch+%d)", h, now-epoch)
		}
	}
	return wraps
}

func TestVP_C29_election(t *testing.T) {
	c := kit.New(t, "C29", "rapid: G-membership histories (7..16 genesis quick / ..50 thorough, 0..10 lifecycle operations, equal genesis timestamps) assembled three times (production loader from two shuffled record orders + direct), 8 boundary-biased instants each with >=7 accepted nodes; before each judgement the first node lists its working members with the local clock at the instant, as its cache queue loop does on every pass, the other two stay idle; all five electable operations and six non-electable ones; non-trivial = >=8 accepted and day+op wraps the modulus; distinct by (history salt, now)")
	c.Require("removal-possible", "wraps", "size>=8", "non-genesis-records", "removal-refused", "busy-node-predicts-removal")
	t.Cleanup(clock.Reset)
	kit.SetChecks(kit.N(1200, 60000))
	maxG := 16
	if kit.Thorough() {
		maxG = 50
	}
	rapid.Check(t, func(rt *rapid.T) {
		h := vpKMGenHist(rt, vpKMOpts{Epoch: vpKMEpochOld, Network: vpKMNetwork("c29"), MinGenesis: 7, MaxGenesis: maxG, MaxOps: 10, ValidBias: 70})
		nodes := []*Node{
			vpKMLoadNode(h, vpC29Shuffle(rt, h.Records, "shuffleA")),
			vpKMLoadNode(h, vpC29Shuffle(rt, h.Records, "shuffleB")),
			vpKMNewNode(h, h.Records, nil),
		}
		sorted := h.Sorted()
		fail := func(f string, a ...any) { rt.Fatalf(f+"\nops=%v", append(a, h.Ops)...) }
		for i := 0; i < 8; i++ {
			now := vpKMDrawTime(rt, h, fmt.Sprintf("now%d", i))
			if rapid.IntRange(0, 3).Draw(rt, "far") == 0 {
				now = h.Epoch + uint64(rapid.IntRange(0, 3650).Draw(rt, "day"))*vpKMDay + uint64(rapid.IntRange(0, 23).Draw(rt, "hour"))*vpKMHour + vpKMDrawOffset(rt, "now")
			}
			if now < h.Epoch {
				c.Class("before-epoch-skipped")
				continue
			}
			m := vpKMModel(h, sorted, now)
			if len(m.Accepted) < config.KernelMinimumNodesCount {
				c.Class("fewer-than-7-accepted-skipped")
				continue
			}
			classes := []string{}
			// the first node is a running one: its loops list the working members
			// (the cache queue does on every pass) with the local clock at the
			// instant; the other two only answer the election
			clock.Reset()
			clock.MockDiff(time.Unix(0, int64(now)).Sub(time.Now()))
			rn := nodes[0].GetRemovingOrSlashingNode(m.Accepted[0].IdForNetwork)
			working := nodes[0].ListWorkingAcceptedNodes(now)
			clock.Reset()
			if rn != nil {
				classes = append(classes, "busy-node-predicts-removal")
				if len(working) != len(m.Accepted)-1 {
					classes = append(classes, "busy-node-working-list-other-size")
				}
			}
			wraps := vpC29JudgeElection(nodes, h.Epoch, m.Accepted, now, fail)
			if wraps {
				classes = append(classes, "wraps")
			}
			if len(m.Accepted) >= 8 {
				classes = append(classes, "size>=8")
			}
			if vpKMNonGenesis(h) > 0 {
				classes = append(classes, "non-genesis-records")
			}
			if _, err := nodes[0].checkRemovePossibility(crypto.Hash{}, now, nil); err == nil {
				classes = append(classes, "removal-possible")
			} else {
				classes = append(classes, "removal-refused")
			}
			if m.Pledging != nil {
				classes = append(classes, "pledging-present")
			}
			c.Case(fmt.Sprintf("%d|%d", h.Salt, now), wraps && len(m.Accepted) >= 8, classes...)
		}
		if len(h.Records) < 12 {
			c.Sample(map[string]any{"ops": h.Ops})
		}
	})
}

// vpC29Scenario builds a small membership around ts for the operation validators.
type vpC29Scenario struct {
	h        *vpKMHist
	node     *Node
	pledging *CNode
	age      uint64
}

func vpC29BuildScenario(salt uint64, epoch, ts uint64, g int, withPledging bool, age uint64) *vpC29Scenario {
	h := vpKMNewHist(epoch, vpKMNetwork("c29"), salt, false)
	for i := 0; i < g; i++ {
		h.AddGenesis(epoch)
	}
	s := &vpC29Scenario{h: h, age: age}
	if withPledging && ts > epoch+age && age > 0 {
		s.pledging = h.Pledge(ts - age)
	}
	s.node = vpKMNewNode(h, h.Records, nil)
	s.node.persistStore = &vpKMStubStore{}
	s.node.chains = &chainsMap{m: make(map[crypto.Hash]*Chain)}
	return s
}

func TestVP_C29_hours(t *testing.T) {
	c := kit.New(t, "C29", "rapid: ts = epoch + day(0..3650)*24h + hour(0..23)*1h + offset {0, 1h-1ns, random}; hour gates checkConsensusAcceptHour/checkConsensusPledgeHour compared in both directions with independent whole-second hour arithmetic; the operation validators (remove, accept, cancel, pledge, custodian update) run on a small membership with a pledging node aged {<12h,12h,1d,7d,>7d}: success implies the hour lies inside the operation's window; a timestamped removal snapshot on the elected chain is validated once by an observer and once by the elected node itself and must get the identical verdict; non-trivial = an operation succeeded or was refused only for its hour; distinct by (day,hour,offset,age)")
	c.Require("remove-ok", "accept-ok", "cancel-ok", "pledge-ok", "custodian-gate-passed", "hour-refused", "edge-offset", "proposer-vs-observer")
	kit.SetChecks(kit.N(6000, 600000))
	tx := common.NewTransactionV5(common.XINAssetId)
	tx.AddInput(crypto.Blake3Hash([]byte("vpC29-in")), 0)
	tx.Outputs = append(tx.Outputs, &common.Output{Type: common.OutputTypeNodePledge, Amount: common.KernelNodePledgeAmount})
	tx.Extra = make([]byte, 64)
	copy(tx.Extra, "vpC29 signer key that belongs to nobody.........................")
	ver := tx.AsVersioned()
	rapid.Check(t, func(rt *rapid.T) {
		epoch := rapid.SampledFrom([]uint64{vpKMEpochOld, vpKMEpochOld + 1, vpKMEpochOld + 1234567890123}).Draw(rt, "epoch")
		day := uint64(rapid.IntRange(0, 3650).Draw(rt, "day"))
		if rapid.IntRange(0, 2).Draw(rt, "smallday") == 0 {
			day = uint64(rapid.IntRange(0, 9).Draw(rt, "day_small"))
		}
		hour := rapid.IntRange(0, 23).Draw(rt, "hour")
		off := vpKMDrawOffset(rt, "ts")
		ts := epoch + day*vpKMDay + uint64(hour)*vpKMHour + off
		H := vpC29Hour(epoch, ts)
		if H != hour {
			rt.Fatalf("harness arithmetic: hour %d != %d", H, hour)
		}
		age := rapid.SampledFrom([]uint64{vpKMHour, 12*vpKMHour - 1, 12 * vpKMHour, vpKMDay, 7 * vpKMDay, 7*vpKMDay + 1, 9 * vpKMDay}).Draw(rt, "age")
		g := rapid.IntRange(7, 11).Draw(rt, "g")
		plain := vpC29BuildScenario(1, epoch, ts, g, false, 0)
		pl := vpC29BuildScenario(1, epoch, ts, g, true, age)
		classes := []string{}
		if off == 0 || off == vpKMHour-1 {
			classes = append(classes, "edge-offset")
		}
		interesting := false

		// the two gates: passing implies the hour lies in the window (the
		// statement demands nothing about hours the gates refuse)
		if got, want := plain.node.checkConsensusAcceptHour(ts), vpC29InAccept(H); got && !want {
			rt.Fatalf("checkConsensusAcceptHour(epoch+%d)=%t but hour %d in 13..19 is %t", ts-epoch, got, H, want)
		}
		if got, want := plain.node.checkConsensusPledgeHour(ts), !vpC29InAccept(H) && !vpC29InMint(H); got && !want {
			rt.Fatalf("checkConsensusPledgeHour(epoch+%d)=%t but hour %d outside 7..9 and 13..19 is %t", ts-epoch, got, H, want)
		}

		// removal
		if _, err := plain.node.checkRemovePossibility(crypto.Hash{}, ts, nil); err == nil {
			if !vpC29InAccept(H) {
				rt.Fatalf("removal possible at hour %d", H)
			}
			classes = append(classes, "remove-ok")
			interesting = true
		} else if strings.Contains(err.Error(), "invalid node remove hour") {
			if vpC29InAccept(H) {
				classes = append(classes, "refused-inside-window"); _ = fmt.Sprintf("removal refused for hour %d inside the window: %v", H, err)
			}
			classes = append(classes, "hour-refused")
			interesting = true
		}

		// a timestamped removal snapshot gets the same verdict from every node,
		// the elected proposer included ("the same on every node": the election
		// is a function of membership and snapshot time, not of who evaluates it)
		if ts > epoch {
			eid := plain.node.electSnapshotNode(common.TransactionTypeNodeRemove, ts)
			s := &common.Snapshot{Version: common.SnapshotVersionCommonEncoding, NodeId: eid, Timestamp: ts}
			verdict := func(self crypto.Hash) string {
				saved := plain.node.IdForNetwork
				plain.node.IdForNetwork = self
				defer func() { plain.node.IdForNetwork = saved }()
				var err error
				if p := vpKCatch(func() { err = plain.node.validateNodeRemoveSnapshot(s, ver, true) }); p != nil {
					return fmt.Sprint("panic: ", p)
				}
				if err == nil {
					return "accepted"
				}
				return err.Error()
			}
			var observer crypto.Hash
			for _, cn := range plain.node.NodesListWithoutState(ts, true) {
				if cn.IdForNetwork != eid {
					observer = cn.IdForNetwork
				}
			}
			vo, vp := verdict(observer), verdict(eid)
			if vo != vp {
				rt.Fatalf("removal snapshot of %s at epoch+%d: observer %s says %q, the elected proposer itself says %q", eid, ts-epoch, observer, vo, vp)
			}
			if strings.Contains(vo, "only by") {
				rt.Fatalf("the node elected for the removal at epoch+%d is refused as not elected: %s", ts-epoch, vo)
			}
			classes = append(classes, "proposer-vs-observer")
		}

		if pl.pledging != nil {
			chain := vpKMChain(pl.node, pl.pledging.IdForNetwork, pl.pledging)
			// accept
			if err := chain.checkNodeAcceptPossibility(ts, true); err == nil {
				if !vpC29InAccept(H) {
					rt.Fatalf("node accept possible at hour %d", H)
				}
				classes = append(classes, "accept-ok")
				interesting = true
			} else if strings.Contains(err.Error(), "invalid node accept hour") {
				if vpC29InAccept(H) {
					classes = append(classes, "refused-inside-window"); _ = fmt.Sprintf("accept refused for hour %d inside the window: %v", H, err)
				}
				classes = append(classes, "hour-refused")
			}
			// cancel
			s := &common.Snapshot{Version: common.SnapshotVersionCommonEncoding, NodeId: pl.pledging.IdForNetwork, Timestamp: ts}
			if err := pl.node.validateNodeCancelSnapshot(s, ver, true); err == nil {
				if !vpC29InAccept(H) {
					rt.Fatalf("node cancel valid at hour %d", H)
				}
				classes = append(classes, "cancel-ok")
				interesting = true
			} else if strings.Contains(err.Error(), "invalid node cancel hour") {
				if vpC29InAccept(H) {
					classes = append(classes, "refused-inside-window"); _ = fmt.Sprintf("cancel refused for hour %d inside the window: %v", H, err)
				}
				classes = append(classes, "hour-refused")
			}
		}

		// pledge (on the membership without a pledging node)
		if ts > epoch {
			eid := plain.node.electSnapshotNode(common.TransactionTypeNodePledge, ts)
			s := &common.Snapshot{Version: common.SnapshotVersionCommonEncoding, NodeId: eid, Timestamp: ts}
			if err := plain.node.validateNodePledgeSnapshot(s, ver, true); err == nil {
				if vpC29InAccept(H) || vpC29InMint(H) {
					rt.Fatalf("node pledge valid at hour %d", H)
				}
				classes = append(classes, "pledge-ok")
				interesting = true
			} else if strings.Contains(err.Error(), "invalid node pledge hour") {
				if !vpC29InAccept(H) && !vpC29InMint(H) {
					classes = append(classes, "refused-inside-window"); _ = fmt.Sprintf("pledge refused for hour %d outside 7..9 and 13..19: %v", H, err)
				}
				classes = append(classes, "hour-refused")
			}
			// custodian update: everything after the hour gate fails on the empty extra
			eid = plain.node.electSnapshotNode(common.TransactionTypeCustodianUpdateNodes, ts)
			s = &common.Snapshot{Version: common.SnapshotVersionCommonEncoding, NodeId: eid, Timestamp: ts}
			empty := common.NewTransactionV5(common.XINAssetId).AsVersioned()
			err := plain.node.validateCustodianUpdateNodes(s, empty, true)
			if err == nil {
				err = fmt.Errorf("accepted")
			}
			msg := err.Error()
			if !strings.HasPrefix(msg, "invalid custodian update hour") && !strings.HasPrefix(msg, "custodian updates operation at") && !strings.HasPrefix(msg, "invalid snapshot timestamp") {
				// passed the hour gate
				// observed only: a custodian update is not a membership operation
				classes = append(classes, "custodian-gate-passed")
			}
		}
		c.Case(fmt.Sprintf("%d|%d|%d|%d", day, hour, off, age), interesting, classes...)
	})
}

// TestVP_C29_sweep: sizes x days x hours, genesis-only memberships and the
// same with a removed / cancelled / late-accepted node mixed in.
func TestVP_C29_sweep(t *testing.T) {
	if kit.Replaying() {
		return
	}
	c := kit.New(t, "C29", "deterministic sweep: membership sizes x day index x 24 hours (quick: sizes {7,8,9,10,13,25,50} x days {0..40,364..366,3649,3650}; thorough: all sizes 7..50 x all days 0..3650, sizes split across shards), plain genesis membership and one with removed+cancelled+late accepted nodes; five electable operations; non-trivial = size>=8 and day+op wraps the modulus; distinct by (variant,size,day)")
	c.Require("wraps", "size>=8", "removal-possible")
	sizes := []int{7, 8, 9, 10, 13, 25, 50}
	var days []int
	if kit.Thorough() {
		sizes = nil
		shard, n := kit.Shard()
		for s := 7; s <= 50; s++ {
			if s%n == shard%n {
				sizes = append(sizes, s)
			}
		}
		for d := 0; d <= 3650; d++ {
			days = append(days, d)
		}
		c.Exhaustive("sizes 7..50 (split over shards) x days 0..3650 x hours 0..23 x 2 membership variants")
	} else {
		for d := 0; d <= 40; d++ {
			days = append(days, d)
		}
		days = append(days, 364, 365, 366, 3649, 3650)
	}
	fail := func(f string, a ...any) { t.Fatalf(f, a...) }
	epoch := vpKMEpochOld
	vpKMNoPanic(t, func() { vpC29SweepBody(c, sizes, days, epoch, fail) })
}

func vpC29SweepBody(c *kit.Collector, sizes, days []int, epoch uint64, fail vpC29Fail) {
	for _, size := range sizes {
		for variant := 0; variant < 2; variant++ {
			h := vpKMNewHist(epoch, vpKMNetwork("c29"), uint64(size*10+variant), false)
			for i := 0; i < size; i++ {
				h.AddGenesis(epoch + uint64(i%2))
			}
			if variant == 1 {
				// noise in the first two days: a cancelled pledge, then (when there is room) a
				// late accepted node followed by the removal of the oldest node
				p := h.Pledge(epoch + 1*vpKMHour)
				h.Follow(p, common.NodeStateCancelled, epoch+14*vpKMHour)
				if size < config.KernelMaximumNodesCount {
					q := h.Pledge(epoch + vpKMDay + 2*vpKMHour)
					h.Follow(q, common.NodeStateAccepted, epoch+vpKMDay+15*vpKMHour)
					oldest := vpKMModelList(h.Records, ^uint64(0))[0]
					h.Follow(oldest, common.NodeStateRemoved, epoch+2*vpKMDay+13*vpKMHour+5)
				}
			}
			node := vpKMNewNode(h, h.Records, nil)
			sorted := h.Sorted()
			for _, day := range days {
				wrapsDay := false
				removal := false
				for hour := 0; hour < 24; hour++ {
					now := epoch + uint64(day)*vpKMDay + uint64(hour)*vpKMHour + uint64(hour*149)
					m := vpKMModel(h, sorted, now)
					if len(m.Accepted) < config.KernelMinimumNodesCount {
						continue
					}
					if vpC29JudgeElection([]*Node{node}, epoch, m.Accepted, now, fail) {
						wrapsDay = true
					}
					if _, err := node.checkRemovePossibility(crypto.Hash{}, now, nil); err == nil {
						removal = true
					}
				}
				classes := []string{}
				if wrapsDay {
					classes = append(classes, "wraps")
				}
				if size >= 8 {
					classes = append(classes, "size>=8")
				}
				if removal {
					classes = append(classes, "removal-possible")
				}
				c.Case(fmt.Sprintf("%d|%d|%d", variant, size, day), wrapsDay && size >= 8, classes...)
			}
		}
	}
}
