//go:build verif

package kernel

import (
	"fmt"
	"sort"
	"strings"
	"testing"
	"time"

	"github.com/MixinNetwork/mixin/common"
	"github.com/MixinNetwork/mixin/crypto"
	"pgregory.net/rapid"
	kit "verifkit"
)

// The node's own entry points to the cache queue: a local submission
// (QueueTransaction), transactions queued by a peer (CacheQueueTransactions)
// and bodies a peer delivers for a finalization (CacheStoreTransactions).
// Whatever path a transaction took before, queueing it makes it eligible for
// the next retrieval and storing it does not.
func TestVP_C23_entry_points(t *testing.T) {
	c := kit.New(t, "C23", "rapid: a real node and 3..8 valid deposit transactions; 8..40 operations drawn from: local submission (QueueTransaction), peer queueing of 1..3 transactions (CacheQueueTransactions), peer body delivery (CacheStoreTransactions), the kernel's hand-back of a retired batch of 1..4 transactions in drawn order (requeueTransactions), retrieval with a limit in {1,2,1000} (CacheRetrieveTransactions), admission into the ledger store without finalization (Validate + lockAndPersistTransaction, what verifying somebody's proposal does) and finalization through another chain's snapshot; model per transaction: eligible or not (queued and not yet retrieved); oracle: a retrieval returns only eligible transactions, each at most once and no more than the limit, and with a limit above the number of eligible ones exactly the eligible set; a submission or peer queueing of an unfinalized transaction makes it eligible whatever happened to it before (retrieved, body already cached, body only in the ledger store); body delivery never does; finalized transactions are left out of the judgement; non-trivial = a transaction queued again after a retrieval or after its admission into the ledger store; distinct by trace")
	c.Require("submit", "peer-queue", "peer-store", "retrieve-all", "retrieve-limited", "requeued-after-retrieval", "queued-after-ledger-admission", "submitted-with-cached-body", "stored-only-not-eligible", "finalized", "kernel-requeue", "requeued-behind-finalized-member")
	kit.SetChecks(kit.N(60, 2500))
	rapid.Check(t, func(t *rapid.T) {
		e := vpC16Start("c23k")
		defer e.Close()
		node := e.k.Node
		store := node.persistStore
		peer := e.net.NodeIds[3]
		n := rapid.IntRange(3, 8).Draw(t, "ntx")
		type txs struct {
			ver       *common.VersionedTransaction
			hash      crypto.Hash
			eligible  bool
			retrieved bool // returned by a retrieval at least once
			cached    bool // a body went into the cache at least once
			admitted  bool // body in the ledger store, not finalized
			final     bool
		}
		var pool []*txs
		for i := 0; i < n; i++ {
			e.seq++
			v := e.net.BTCDeposit(common.NewInteger(1), i%4, fmt.Sprintf("0xc23k-%d", e.seq), e.seq)
			pool = append(pool, &txs{ver: v, hash: v.PayloadHash()})
		}
		byHash := map[crypto.Hash]*txs{}
		for _, x := range pool {
			byHash[x.hash] = x
		}
		classes := map[string]bool{}
		var trace []string
		steps := rapid.IntRange(8, 40).Draw(t, "steps")
		for si := 0; si < steps; si++ {
			x := pool[rapid.IntRange(0, n-1).Draw(t, "tx")]
			switch op := rapid.IntRange(0, 9).Draw(t, "op"); {
			case op <= 1: // local submission
				if _, err := node.QueueTransaction(x.ver); err != nil {
					t.Fatalf("QueueTransaction of a valid transaction: %v\ntrace %v", err, trace)
				}
				trace = append(trace, fmt.Sprintf("submit(%s)", x.hash.String()[:6]))
				classes["submit"] = true
				if x.final {
					continue
				}
				if x.retrieved && !x.eligible {
					classes["requeued-after-retrieval"] = true
				}
				if x.cached && !x.eligible {
					classes["submitted-with-cached-body"] = true
				}
				if x.admitted {
					classes["queued-after-ledger-admission"] = true
				}
				x.eligible, x.cached = true, true
			case op <= 3: // a peer queues 1..3 transactions
				k := rapid.IntRange(1, 3).Draw(t, "peer_n")
				var list []*common.VersionedTransaction
				var names []string
				for j := 0; j < k; j++ {
					y := pool[(rapid.IntRange(0, n-1).Draw(t, "peer_tx"))]
					list = append(list, y.ver)
					names = append(names, y.hash.String()[:6])
				}
				if err := node.CacheQueueTransactions(peer, list); err != nil {
					t.Fatalf("CacheQueueTransactions: %v", err)
				}
				trace = append(trace, "peerqueue("+strings.Join(names, ",")+")")
				classes["peer-queue"] = true
				for _, v := range list {
					y := byHash[v.PayloadHash()]
					if y.final {
						continue
					}
					if y.retrieved && !y.eligible {
						classes["requeued-after-retrieval"] = true
					}
					if y.admitted {
						classes["queued-after-ledger-admission"] = true
					}
					y.eligible, y.cached = true, true
				}
			case op == 4 && rapid.Bool().Draw(t, "requeue_instead"): // the kernel hands a retired batch back (requeueTransactions)
				k := rapid.IntRange(1, 4).Draw(t, "requeue_n")
				var list []crypto.Hash
				var names []string
				for _, idx := range rapid.Permutation(vpC24Range(n)).Draw(t, "requeue_txs")[:min(k, n)] {
					list = append(list, pool[idx].hash)
					names = append(names, pool[idx].hash.String()[:6])
				}
				node.requeueTransactions(list)
				trace = append(trace, "requeue("+strings.Join(names, ",")+")")
				classes["kernel-requeue"] = true
				sawFinal := false
				for _, h := range list {
					y := byHash[h]
					if y.final {
						sawFinal = true
						continue
					}
					if !y.cached && !y.admitted {
						continue // no body anywhere: nothing to queue
					}
					if sawFinal {
						classes["requeued-behind-finalized-member"] = true
					}
					if y.retrieved && !y.eligible {
						classes["requeued-after-retrieval"] = true
					}
					y.eligible = true
				}
			case op == 4: // a peer delivers the body only
				if err := node.CacheStoreTransactions(peer, []*common.VersionedTransaction{x.ver}); err != nil {
					t.Fatalf("CacheStoreTransactions: %v", err)
				}
				trace = append(trace, fmt.Sprintf("peerstore(%s)", x.hash.String()[:6]))
				classes["peer-store"] = true
				if !x.admitted && !x.final {
					x.cached = true
				}
				if !x.eligible && !x.final {
					classes["stored-only-not-eligible"] = true
				}
			case op <= 7: // retrieval
				limit := rapid.SampledFrom([]int{1, 2, 1000, 1000}).Draw(t, "limit")
				got, err := store.CacheRetrieveTransactions(limit)
				if err != nil {
					t.Fatalf("CacheRetrieveTransactions: %v", err)
				}
				if len(got) > limit {
					t.Fatalf("retrieval with limit %d returned %d transactions", limit, len(got))
				}
				want := 0
				for _, y := range pool {
					if y.eligible && !y.final {
						want++
					}
				}
				seen := map[crypto.Hash]bool{}
				nonFinal := 0
				for _, g := range got {
					h := g.PayloadHash()
					y := byHash[h]
					if y == nil {
						t.Fatalf("retrieval returned an unknown transaction %s", h)
					}
					if seen[h] {
						t.Fatalf("retrieval returned %s twice", h)
					}
					seen[h] = true
					if y.final {
						continue
					}
					nonFinal++
					if !y.eligible {
						t.Fatalf("retrieval returned %s, which was not queued since its last retrieval (cached=%v admitted=%v)\ntrace %v", h, y.cached, y.admitted, trace)
					}
					y.eligible, y.retrieved = false, true
				}
				if limit >= 1000 {
					classes["retrieve-all"] = true
					if nonFinal != want {
						var missing []string
						for _, y := range pool {
							if y.eligible && !y.final {
								missing = append(missing, fmt.Sprintf("%s(retrieved-before=%v admitted=%v)", y.hash.String()[:6], y.retrieved, y.admitted))
							}
						}
						sort.Strings(missing)
						t.Fatalf("%d transactions were queued and not retrieved since, an unlimited retrieval returned %d; not returned: %v\ntrace %v", want, nonFinal, missing, trace)
					}
				} else {
					classes["retrieve-limited"] = true
					if nonFinal < min(want, limit) && len(got) < limit {
						t.Fatalf("retrieval with limit %d returned %d of %d eligible transactions", limit, nonFinal, want)
					}
				}
				trace = append(trace, fmt.Sprintf("retrieve(%d)=%d", limit, len(got)))
			case op == 8: // admitted into the ledger store while verifying a proposal, never finalized
				if x.admitted || x.final {
					continue
				}
				if err := x.ver.Validate(store, e.clock+uint64(time.Hour), false); err != nil {
					t.Fatalf("validate: %v", err)
				}
				if err := node.lockAndPersistTransaction(x.ver, false); err != nil {
					t.Fatalf("persist: %v", err)
				}
				x.admitted = true
				trace = append(trace, fmt.Sprintf("admit(%s)", x.hash.String()[:6]))
			default: // finalized by another chain's snapshot
				if x.final {
					continue
				}
				e.clock += uint64(50 * time.Millisecond)
				s := e.k.NextSnapshot(1+rapid.IntRange(0, 5).Draw(t, "fin_chain"), []crypto.Hash{x.hash}, e.clock, false, 0)
				e.k.Certify(s, 0)
				fin, pan, err := e.finalize(s, []*common.VersionedTransaction{x.ver})
				if !fin || pan != nil || err != nil {
					t.Fatalf("finalizing: %v %v %v", fin, pan, err)
				}
				x.final = true
				classes["finalized"] = true
				trace = append(trace, fmt.Sprintf("finalize(%s)", x.hash.String()[:6]))
			}
		}
		var cl []string
		for k := range classes {
			cl = append(cl, k)
		}
		sort.Strings(cl)
		c.Case(fmt.Sprint(trace), classes["requeued-after-retrieval"] || classes["queued-after-ledger-admission"], cl...)
		tr := trace
		if len(tr) > 14 {
			tr = tr[:14]
		}
		c.Sample(map[string]any{"transactions": n, "trace_head": tr, "classes": cl})
	})
}
