//go:build verif

package kernel

import (
	"fmt"
	"testing"
	"time"

	"github.com/MixinNetwork/mixin/common"
	"github.com/MixinNetwork/mixin/crypto"
	"pgregory.net/rapid"
	kit "verifkit"
)

// The round a live node holds for a chain (after it went through the state
// copies of the finalization path, round transitions and a restart) must be
// the same function of the stored snapshot set that the start-up validator
// computes: start, end and hash.
func TestVP_C18_live_round_matches_snapshot_set(t *testing.T) {
	c := kit.New(t, "C18", "rapid: a real node, 7 chains grown through the finalization path with rounds of 1..4 snapshots at distinct timestamps, round transitions with external references, empty-head reference updates and a restart; after every step, for every chain, the final round the node holds (and the one LoadRoundGraph reports) is compared with common.ComputeRoundHash over the snapshots the store holds for that round number: start, end and hash must all agree; non-trivial = final round with >=2 snapshots; distinct by (chain, round number, hash)")
	c.Require("multi-snapshot-final-round", "restart")
	kit.SetChecks(kit.N(8, 300))
	rapid.Check(t, func(t *rapid.T) {
		e := vpC16Start("c18k")
		defer func() { e.Close() }()
		compare := func(when string) {
			_, finals := e.k.Node.LoadRoundGraph()
			for ci, id := range e.net.NodeIds {
				chain := e.k.Node.getOrCreateChain(id)
				if chain.State == nil || chain.State.FinalRound == nil {
					continue
				}
				_, held := chain.StateCopy()
				topos, err := e.k.Node.persistStore.ReadSnapshotsForNodeRound(id, held.Number)
				if err != nil || len(topos) == 0 {
					t.Fatalf("%s: chain %d final round %d has no stored snapshots (%v)", when, ci, held.Number, err)
				}
				var set []*common.Snapshot
				for _, tp := range topos {
					s := tp.Snapshot
					s.Hash = s.PayloadHash()
					set = append(set, s)
				}
				start, end, hash := common.ComputeRoundHash(id, held.Number, set)
				for name, f := range map[string]*FinalRound{"held": held, "reported": finals[id]} {
					if f == nil {
						continue
					}
					if f.Number != held.Number {
						continue
					}
					if f.Start != start || f.End != end || f.Hash != hash {
						t.Fatalf("%s: chain %d final round %d %s by the node is (start %d, end %d, hash %s); its %d stored snapshots give (start %d, end %d, hash %s)", when, ci, held.Number, name, f.Start, f.End, f.Hash, len(set), start, end, hash)
					}
				}
				cl := []string{}
				if len(set) >= 2 {
					cl = append(cl, "multi-snapshot-final-round")
				}
				c.Case(fmt.Sprint(ci, held.Number, hash), len(set) >= 2, cl...)
			}
		}
		steps := rapid.IntRange(12, 40).Draw(t, "steps")
		for i := 0; i < steps; i++ {
			if rapid.IntRange(0, 11).Draw(t, "restart") == 0 {
				e.k.Stop()
				k, err := vpKStart(e.net, e.dir, 0, nil)
				if err != nil {
					t.Fatalf("restart: %v", err)
				}
				e.k = k
				c.Class("restart")
				compare(fmt.Sprintf("after restart at step %d", i))
				continue
			}
			e.seq++
			ci := rapid.IntRange(0, 6).Draw(t, "chain")
			e.clock += uint64(rapid.IntRange(1, 1200).Draw(t, "dt_ms")) * uint64(time.Millisecond)
			tx := e.net.BTCDeposit(common.NewInteger(1), 0, fmt.Sprintf("0xc18k-%d", e.seq), e.seq)
			chain := e.k.Node.getOrCreateChain(e.net.NodeIds[ci])
			newRound := false
			if cache := chain.State.CacheRound; len(cache.Snapshots) > 0 {
				start, _ := cache.Gap()
				newRound = e.clock >= start+uint64(3*time.Second) || e.clock/OneDay != start/OneDay || rapid.IntRange(0, 3).Draw(t, "newround") == 0
			}
			s := e.k.NextSnapshot(ci, []crypto.Hash{tx.PayloadHash()}, e.clock, newRound, (ci+1+rapid.IntRange(0, 5).Draw(t, "ext"))%7)
			e.k.Certify(s, rapid.IntRange(0, 2).Draw(t, "extra"))
			fin, pan, err := e.finalize(s, []*common.VersionedTransaction{tx})
			if pan != nil || err != nil || !fin {
				t.Fatalf("growing chain %d: %v %v %v", ci, fin, err, pan)
			}
			compare(fmt.Sprintf("after step %d (chain %d, new round %v)", i, ci, newRound))
		}
	})
}
