//go:build verif

package kernel

import (
	"fmt"
	"os"
	"runtime"
	"sync"
	"testing"
	"time"

	"github.com/MixinNetwork/mixin/common"
	"github.com/MixinNetwork/mixin/crypto"
	"github.com/MixinNetwork/mixin/p2p"
	"pgregory.net/rapid"
	kit "verifkit"
)

// vpC31Env is an observer node (not a member, so it always relays admitted
// batches to a proposing member) with a Peer that has no neighbours: every
// outgoing bundle is wrapped by buildRelayMessage, which refuses (panics on)
// a message above the transport maximum.
type vpC31Env struct {
	k     *vpKNode
	net   *vpKNet
	dir   string
	clock uint64
	seq   int
}

func vpC31Start(tag string) *vpC31Env {
	net := vpKNewNet(7, tag, 2)
	dir := vpKTempDir("c31")
	k, err := vpKStart(net, dir, -1, nil)
	if err != nil {
		panic(err)
	}
	k.Node.Peer = p2p.NewPeer(k.Node, k.Node.IdForNetwork, "127.0.0.1:0", false)
	return &vpC31Env{k: k, net: net, dir: dir, clock: net.Epoch + uint64(36*time.Hour)}
}

func (e *vpC31Env) Close() {
	e.k.Stop()
	os.RemoveAll(e.dir)
}

// finalize delivers txs in one certified snapshot on chain ci.
func (e *vpC31Env) finalize(ci int, txs []*common.VersionedTransaction) error {
	e.clock += uint64(10 * time.Millisecond)
	var hs []crypto.Hash
	for _, tx := range txs {
		hs = append(hs, tx.PayloadHash())
	}
	chain := e.k.Node.getOrCreateChain(e.net.NodeIds[ci])
	newRound := false
	if cache := chain.State.CacheRound; len(cache.Snapshots) > 0 {
		start, _ := cache.Gap()
		newRound = e.clock >= start+uint64(2*time.Second)
	}
	s := e.k.NextSnapshot(ci, hs, e.clock, newRound, (ci+1)%7)
	e.k.Certify(s, 0)
	fin, err := e.k.Deliver(s, txs)
	if err != nil || !fin {
		return fmt.Errorf("funding snapshot not finalized: %v %v", fin, err)
	}
	return nil
}

type vpC31Multi struct {
	fund  *common.VersionedTransaction
	privs [][]crypto.Key // per output: private one-time keys
}

// fundMulti finalizes a deposit and a transfer creating nout outputs of one
// unit each with nkeys one-time keys (private scalars held by the harness).
func (e *vpC31Env) fundMulti(nout, nkeys int) (*vpC31Multi, error) {
	e.seq++
	dep := e.net.BTCDeposit(vpC31Units(uint64(nout)), 0, fmt.Sprintf("0xc31-%d", e.seq), e.seq)
	if err := e.finalize(e.seq%7, []*common.VersionedTransaction{dep}); err != nil {
		return nil, err
	}
	m := &vpC31Multi{privs: make([][]crypto.Key, nout)}
	tx := common.NewTransactionV5(dep.Asset)
	tx.AddInput(dep.PayloadHash(), 0)
	pubs := make([][]*crypto.Key, nout)
	var wg sync.WaitGroup
	sem := make(chan struct{}, runtime.NumCPU())
	for o := 0; o < nout; o++ {
		m.privs[o] = make([]crypto.Key, nkeys)
		pubs[o] = make([]*crypto.Key, nkeys)
		wg.Add(1)
		sem <- struct{}{}
		go func(o int) {
			defer func() { <-sem; wg.Done() }()
			for k := 0; k < nkeys; k++ {
				priv := crypto.NewKeyFromSeed(vpKSeed("c31-key", e.seq, o, k))
				pub := priv.Public()
				m.privs[o][k] = priv
				pubs[o][k] = &pub
			}
		}(o)
	}
	wg.Wait()
	mask := crypto.NewKeyFromSeed(vpKSeed("c31-mask", e.seq)).Public()
	for o := 0; o < nout; o++ {
		tx.Outputs = append(tx.Outputs, &common.Output{Type: common.OutputTypeScript, Amount: vpC31Units(1), Keys: pubs[o], Mask: mask, Script: common.NewThresholdScript(1)})
	}
	signed := &common.SignedTransaction{Transaction: *tx}
	po := dep.Outputs[0]
	priv := crypto.DeriveGhostPrivateKey(&po.Mask, &e.net.Accts[0].PrivateViewKey, &e.net.Accts[0].PrivateSpendKey, 0)
	sig := priv.Sign(tx.AsVersioned().PayloadHash())
	signed.SignaturesMap = []map[uint16]*crypto.Signature{{0: &sig}}
	m.fund = signed.AsVersioned()
	if nout*nkeys > 4096 {
		// setup shortcut for the heavy witness: the (valid) funding transaction is
		// locked and persisted directly, so the finalization path finds it in the
		// ledger store and does not spend ~50us per output key re-validating it
		if err := e.k.Node.lockAndPersistTransaction(m.fund, false); err != nil {
			return nil, err
		}
	}
	if err := e.finalize((e.seq+3)%7, []*common.VersionedTransaction{m.fund}); err != nil {
		return nil, err
	}
	return m, nil
}

func vpC31Units(n uint64) common.Integer {
	return common.NewIntegerFromString(fmt.Sprintf("0.%08d", n))
}

type vpC31In struct {
	m   *vpC31Multi
	out int
}

// spend builds a transaction spending ins into one output, carrying nsig
// signatures per input.
func (e *vpC31Env) spend(ins []vpC31In, nsig int) *common.VersionedTransaction {
	tx := common.NewTransactionV5(common.BitcoinAssetId)
	for _, in := range ins {
		tx.AddInput(in.m.fund.PayloadHash(), uint(in.out))
	}
	e.seq++
	tx.AddOutputWithType(common.OutputTypeScript, []*common.Address{&e.net.Accts[1]}, common.NewThresholdScript(1), vpC31Units(uint64(len(ins))), vpKSeed("c31-out", e.seq))
	signed := &common.SignedTransaction{Transaction: *tx}
	msg := tx.AsVersioned().PayloadHash()
	signed.SignaturesMap = make([]map[uint16]*crypto.Signature, len(ins))
	var wg sync.WaitGroup
	sem := make(chan struct{}, runtime.NumCPU())
	for i, in := range ins {
		wg.Add(1)
		sem <- struct{}{}
		go func(i int, in vpC31In) {
			defer func() { <-sem; wg.Done() }()
			mp := make(map[uint16]*crypto.Signature, nsig)
			for k := 0; k < nsig; k++ {
				sig := in.m.privs[in.out][k].Sign(msg)
				mp[uint16(k)] = &sig
			}
			signed.SignaturesMap[i] = mp
		}(i, in)
	}
	wg.Wait()
	return signed.AsVersioned()
}

// runBatcher queues txs and runs the unmodified batcher once.
func (e *vpC31Env) runBatcher(txs []*common.VersionedTransaction) (processed int, signed, unsigned int, panicked any) {
	for _, tx := range txs {
		if err := e.k.Node.persistStore.CacheQueueTransaction(tx); err != nil {
			panic(err)
		}
		signed += len(tx.Marshal())
		unsigned += len(tx.PayloadMarshal())
	}
	panicked = vpKCatch(func() { processed = e.k.Node.popAndProcessCacheQueue() })
	return
}

func TestVP_C31_batcher_light(t *testing.T) {
	c := kit.New(t, "C31", "rapid: batches of 1..40 admissible transactions (deposits and multi-input spends carrying 1..64 signatures per input, signed/unsigned size ratios 1..20) queued on an observer node; the unmodified batcher runs and relays the batch through a Peer without neighbours, whose relay wrapper refuses any message above the transport maximum; oracle: no panic, every queued transaction retrieved; non-trivial = batch of >=2 with signed >= 1.5 x unsigned size; distinct by batch content hash")
	c.Require("ratio>=1.5")
	kit.SetChecks(kit.N(10, 200))
	rapid.Check(t, func(t *rapid.T) {
		e := vpC31Start("c31l")
		defer e.Close()
		nkeys := rapid.IntRange(1, 64).Draw(t, "nkeys")
		nout := rapid.IntRange(2, 40).Draw(t, "nout")
		m, err := e.fundMulti(nout, nkeys)
		if err != nil {
			t.Fatal(err)
		}
		var batch []*common.VersionedTransaction
		next := 0
		for next < nout {
			k := rapid.IntRange(1, 6).Draw(t, "nin")
			if next+k > nout {
				k = nout - next
			}
			var ins []vpC31In
			for j := 0; j < k; j++ {
				ins = append(ins, vpC31In{m, next + j})
			}
			next += k
			batch = append(batch, e.spend(ins, rapid.IntRange(1, nkeys).Draw(t, "nsig")))
		}
		for i := rapid.IntRange(0, 5).Draw(t, "ndep"); i > 0; i-- {
			e.seq++
			batch = append(batch, e.net.BTCDeposit(vpC31Units(1), 1, fmt.Sprintf("0xc31l-%d", e.seq), e.seq))
		}
		n, signed, unsigned, pan := e.runBatcher(batch)
		if pan != nil {
			t.Fatalf("batcher panicked on %d transactions (signed %d, unsigned %d bytes): %.300v", len(batch), signed, unsigned, pan)
		}
		if n != len(batch) {
			t.Fatalf("batcher processed %d of %d queued transactions", n, len(batch))
		}
		cl := []string{}
		nt := len(batch) >= 2 && signed*2 >= unsigned*3
		if nt {
			cl = append(cl, "ratio>=1.5")
		}
		c.Case(fmt.Sprint(batch[0].PayloadHash(), len(batch), signed), nt, cl...)
		c.Sample(map[string]any{"transactions": len(batch), "signed_bytes": signed, "unsigned_bytes": unsigned})
	})
}

// Heavy witness: 10 admissible transactions of ~10 KiB payload and ~3.8 MiB of
// valid signatures each. The batcher accounts the unsigned size against 2/3 of
// the transport maximum, the bundle carries the signed envelopes.
func vpC31Heavy(e *vpC31Env, ntx, nin, nkeys int) ([]*common.VersionedTransaction, error) {
	var pool []vpC31In
	perFund := 120
	for len(pool) < ntx*nin {
		m, err := e.fundMulti(perFund, nkeys)
		if err != nil {
			return nil, err
		}
		for o := 0; o < perFund; o++ {
			pool = append(pool, vpC31In{m, o})
		}
	}
	var batch []*common.VersionedTransaction
	for i := 0; i < ntx; i++ {
		batch = append(batch, e.spend(pool[i*nin:(i+1)*nin], nkeys))
	}
	return batch, nil
}

func TestVP_C31_batcher_heavy(t *testing.T) {
	if kit.Replaying() {
		return
	}
	c := kit.New(t, "C31", "deterministic heavy batches: k transactions of 225 inputs x 256 valid signatures (~3.8 MiB signed, ~10 KiB unsigned each), k chosen so that the signed total is below / just above the 32 MiB transport maximum while the unsigned total stays far below the batcher's 2/3 accounting limit; oracle: the batcher must not build a message above the maximum (the relay wrapper panics on one); non-trivial = every case; distinct by k")
	start := time.Now()
	sizes := []int{9}
	if kit.Thorough() {
		if sh, _ := kit.Shard(); sh == 0 {
			sizes = []int{8, 9, 12}
		} else {
			sizes = nil
		}
	}
	for _, ntx := range sizes {
		e := vpC31Start(fmt.Sprintf("c31h%d", ntx))
		batch, err := vpC31Heavy(e, ntx, 225, 256)
		if err != nil {
			e.Close()
			t.Fatal(err)
		}
		built := time.Since(start).Seconds()
		n, signed, unsigned, pan := e.runBatcher(batch)
		e.Close()
		t.Logf("heavy %d: build %.1fs, batcher %.1fs", ntx, built, time.Since(start).Seconds()-built)
		c.Case(fmt.Sprint("heavy", ntx), true, fmt.Sprintf("heavy-%d", ntx))
		c.Sample(map[string]any{"transactions": ntx, "signed_bytes": signed, "unsigned_bytes": unsigned, "transport_max": p2p.TransportMessageMaxSize, "panicked": pan != nil, "build_and_run_s": time.Since(start).Seconds()})
		if pan != nil {
			t.Fatalf("batch of %d admissible transactions (unsigned %d bytes, signed %d bytes, transport maximum %d): the batcher built an oversized bundle: %.200v", ntx, unsigned, signed, p2p.TransportMessageMaxSize, pan)
		}
		if n != ntx {
			t.Fatalf("batcher processed %d of %d", n, ntx)
		}
	}
}
