//go:build verif

package kernel

import (
	"encoding/hex"
	"bytes"
	"encoding/binary"
	"fmt"
	"testing"

	"github.com/MixinNetwork/mixin/common"
	"github.com/MixinNetwork/mixin/crypto"
	"github.com/MixinNetwork/mixin/kernel/internal/clock"
	"github.com/dgraph-io/ristretto/v2"
	"pgregory.net/rapid"
	kit "verifkit"
)

// C30: AuthenticateAs accepts a message only if it is 137 bytes, fresh (when the
// caller asks for freshness), addressed to the receiver, not from the receiver
// itself and signed by the key it names over timestamp|recipient|key|flag. The
// token's identity is derived from that key, and no single byte of an accepted
// message (in particular the relayer flag) can change without rejection.

const vpC30Guard = 2 // seconds kept between every generated timestamp and the freshness edge

func vpC30Signer(seed []byte) common.Address {
	var a common.Address
	a.PrivateSpendKey = crypto.NewKeyFromSeed(seed)
	a.PublicSpendKey = a.PrivateSpendKey.Public()
	a.PrivateViewKey = a.PublicSpendKey.DeterministicHashDerive()
	a.PublicViewKey = a.PrivateViewKey.Public()
	return a
}

// vpC30PeerId recomputes the network identity of a spend key from the primitives:
// view = scalar(sha256(spend)‖sha256(spend)); id = blake3(net ‖ sha256(spend ‖ view·G)).
func vpC30PeerId(spend crypto.Key, net crypto.Hash) crypto.Hash {
	seed := crypto.Sha256Hash(spend[:])
	view := crypto.NewKeyFromSeed(append(seed[:], seed[:]...)).Public()
	ah := crypto.Sha256Hash(append(append([]byte{}, spend[:]...), view[:]...))
	return crypto.Blake3Hash(append(append([]byte{}, net[:]...), ah[:]...))
}

// vpC30Assemble is the harness's own message builder (independent of
// BuildAuthenticationMessage): ts(8) | recipient(32) | key(32) | flag(1) | sig(64)
// where sig is made by signKey over blake3 of the first signedLen bytes.
func vpC30Assemble(ts uint64, recipient crypto.Hash, key crypto.Key, flag byte, signKey crypto.Key, signedLen int) []byte {
	msg := binary.BigEndian.AppendUint64(nil, ts)
	msg = append(msg, recipient[:]...)
	msg = append(msg, key[:]...)
	msg = append(msg, flag)
	sig := signKey.Sign(crypto.Blake3Hash(msg[:signedLen]))
	return append(msg, sig[:]...)
}

type vpC30Call struct {
	node      *Node
	recipient crypto.Hash
	timeout   int64
}

type vpC30Result struct {
	ok      bool // a token was returned
	peer    crypto.Hash
	relayer bool
	ts      uint64
	data    []byte
	err     error
	steady  bool   // the wall clock moved at most one second across the call
	pnc     string // recovered panic, "" when none
}

// vpC30Auth calls AuthenticateAs and reports whether the wall clock stayed put
// (within one second) across the call, so that the guard band decides freshness.
func vpC30Auth(call vpC30Call, msg []byte) (r vpC30Result) {
	before := clock.Now().Unix()
	func() {
		defer func() {
			if p := recover(); p != nil {
				r.pnc = fmt.Sprint(p)
			}
		}()
		token, e := call.node.AuthenticateAs(call.recipient, msg, call.timeout)
		r.err = e
		if token != nil {
			r.ok, r.peer, r.relayer, r.ts, r.data = true, token.PeerId, token.IsRelayer, token.Timestamp, token.Data
		}
	}()
	after := clock.Now().Unix()
	r.steady = after-before <= 1 && after >= before
	return
}

// canonical encodings of the eight points of small order
var vpC30SmallOrder = []string{
	"0100000000000000000000000000000000000000000000000000000000000000",
	"0100000000000000000000000000000000000000000000000000000000000000",
	"ecffffffffffffffffffffffffffffffffffffffffffffffffffffffffffff7f",
	"0000000000000000000000000000000000000000000000000000000000000000",
	"0000000000000000000000000000000000000000000000000000000000000080",
	"26e8958fc2b227b045c3f489f2ef98f0d5dfac05d3c63339b13802886d53fc05",
	"26e8958fc2b227b045c3f489f2ef98f0d5dfac05d3c63339b13802886d53fc85",
	"c7176a703d4dd84fba3c0b760d10670f2a2053fa2c39ccc64ec7fd7792ac037a",
	"c7176a703d4dd84fba3c0b760d10670f2a2053fa2c39ccc64ec7fd7792ac03fa",
}

func TestVP_C30_authenticate(t *testing.T) {
	c := kit.New(t, "C30", "rapid: signer key from 64 drawn seed bytes, random network and recipient ids, relayer flag byte in {0,1,2,255}, timeout in {10 (handshake), 5, 30, 600, 0 and -1 (freshness disabled by the caller)}, timestamp = now + {0, ±(timeout-2s), ±(timeout+2s), ±1 day, 0, 2^63, 2^64-1}; message from BuildAuthenticationMessage or from the harness assembler with one optional defect (wrong recipient incl. the all-zero and all-ones id, self, foreign signer, flag outside the signature, signature over another recipient, zero signature, a named key of small order with the signature (R=B, s=1) or (R=neutral, s=0), wrong length); the receiver is one node object with a real memory cache for the whole case; every accepted message is then mutated, on that same node (after its cache settled), at each of the 137 bytes with 3 xor masks, truncated and extended; non-trivial = accepted message (with its full mutation sweep) or a single-defect twin; distinct by message bytes")
	c.Require("accepted", "accepted:built", "accepted:assembled", "reject:stale-past", "reject:stale-future", "reject:recipient", "reject:recipient-zero", "reject:self", "reject:foreign-signer", "reject:flag-unsigned", "reject:unsignable-key", "reject:length", "accepted:timeout-disabled-old", "mutant-rejected", "flag:relayer", "flag:plain")
	c.Assume("the wall clock advances less than 2 s between the harness reading it and AuthenticateAs reading it; cases where more than 1 s elapsed across the call are discarded (class clock-moved)")
	kit.SetChecks(kit.N(300, 20000))
	rapid.Check(t, func(t *rapid.T) {
		seed := rapid.SliceOfN(rapid.Byte(), 64, 64).Draw(t, "signer_seed")
		signer := vpC30Signer(seed)
		var net, recipient crypto.Hash
		copy(net[:], rapid.SliceOfN(rapid.Byte(), 32, 32).Draw(t, "network"))
		copy(recipient[:], rapid.SliceOfN(rapid.Byte(), 32, 32).Draw(t, "recipient"))
		flag := rapid.SampledFrom([]byte{0, 1, 0, 1, 2, 255}).Draw(t, "flag")
		timeout := rapid.SampledFrom([]int64{10, 10, 10, 5, 30, 600, 0, -1}).Draw(t, "timeout")
		selfId := vpC30PeerId(signer.PublicSpendKey, net)
		sender := &Node{Signer: signer, isRelayer: flag == 1, networkId: net, IdForNetwork: selfId}
		// the receiver is a long-lived node with its memory cache, as in production:
		// what it decided about one message must not colour the next one
		rcache, cerr := ristretto.NewCache(&ristretto.Config[[]byte, any]{NumCounters: 1e4, MaxCost: 1 << 22, BufferItems: 64})
		if cerr != nil {
			t.Fatal(cerr)
		}
		defer rcache.Close()
		receiver := &Node{networkId: net, IdForNetwork: recipient, cacheStore: rcache}

		defect := rapid.SampledFrom([]string{"none", "none", "none", "built", "built", "recipient", "self", "foreign-signer", "flag-unsigned", "signed-other-recipient", "zero-signature", "unsignable-key", "length", "stale"}).Draw(t, "defect")
		if defect == "built" && flag > 1 {
			flag = 0
			sender.isRelayer = false
		}

		// timestamp
		now := clock.Now().Unix()
		var ts uint64
		fresh := true
		tsClass := "now"
		if defect == "built" {
			ts = 0 // filled from the built message
		} else {
			kinds := []string{"now", "inside-past", "inside-future"}
			if defect == "stale" || rapid.IntRange(0, 5).Draw(t, "ts_far") == 0 {
				kinds = []string{"outside-past", "outside-future", "day-past", "day-future", "zero", "2^63", "max"}
			}
			tsClass = rapid.SampledFrom(kinds).Draw(t, "ts_kind")
			band := timeout
			if band <= 0 {
				band = 10
			}
			switch tsClass {
			case "now":
				ts = uint64(now)
			case "inside-past":
				ts = uint64(now - max(band-vpC30Guard, 0))
			case "inside-future":
				ts = uint64(now + max(band-vpC30Guard, 0))
			case "outside-past":
				ts = uint64(now - band - vpC30Guard)
			case "outside-future":
				ts = uint64(now + band + vpC30Guard)
			case "day-past":
				ts = uint64(now - 86400)
			case "day-future":
				ts = uint64(now + 86400)
			case "zero":
				ts = 0
			case "2^63":
				ts = 1 << 63
			case "max":
				ts = ^uint64(0)
			}
			if timeout > 0 {
				switch tsClass {
				case "now", "inside-past", "inside-future":
				default:
					fresh = false
				}
			}
		}

		// message
		msgRecipient := recipient
		callRecipient := recipient
		signKey := signer.PrivateSpendKey
		specialRecipient := ""
		signedLen := 73
		sigOK := true
		switch defect {
		case "recipient":
			copy(msgRecipient[:], rapid.SliceOfN(rapid.Byte(), 32, 32).Draw(t, "other_recipient"))
			if msgRecipient == recipient {
				msgRecipient[0] ^= 1
			}
			switch rapid.IntRange(0, 3).Draw(t, "recipient_special") {
			case 0: // addressed to nobody
				msgRecipient = crypto.Hash{}
				specialRecipient = "reject:recipient-zero"
			case 1: // addressed to everybody
				for i := range msgRecipient {
					msgRecipient[i] = 0xff
				}
				specialRecipient = "reject:recipient-ones"
			}
			if msgRecipient == recipient {
				msgRecipient[31] ^= 1
			}
		case "self":
			msgRecipient, callRecipient = selfId, selfId
			receiver = &Node{networkId: net, IdForNetwork: selfId}
		case "foreign-signer":
			signKey = crypto.NewKeyFromSeed(rapid.SliceOfN(rapid.Byte(), 64, 64).Draw(t, "foreign_seed"))
			sigOK = signKey == signer.PrivateSpendKey
		}
		var msg []byte
		switch defect {
		case "built":
			msg = sender.BuildAuthenticationMessage(recipient)
			if len(msg) >= 8 {
				ts = binary.BigEndian.Uint64(msg[:8])
			}
			if d := int64(ts) - now; d < 0 || d > 1 {
				c.Class("clock-moved")
				return
			}
		case "flag-unsigned":
			// signature covers everything but the flag byte; the flag is then set freely
			msg = vpC30Assemble(ts, msgRecipient, signer.PublicSpendKey, flag, signKey, 72)
			sigOK = false
		case "signed-other-recipient":
			var other crypto.Hash
			copy(other[:], rapid.SliceOfN(rapid.Byte(), 32, 32).Draw(t, "signed_recipient"))
			if other == recipient {
				other[0] ^= 1
			}
			msg = vpC30Assemble(ts, other, signer.PublicSpendKey, flag, signKey, 73)
			copy(msg[8:40], recipient[:])
			sigOK = false
		case "unsignable-key":
			// the named key is a point of small order (nobody holds a private key
			// for it); the signature is one that satisfies s*B - x*A == R whenever
			// x*A vanishes: R = B, s = 1 (always for the neutral element)
			var low crypto.Key
			lb, _ := hex.DecodeString(rapid.SampledFrom(vpC30SmallOrder).Draw(t, "small_order_key"))
			copy(low[:], lb)
			msg = vpC30Assemble(ts, msgRecipient, low, flag, signKey, 73)
			bb, _ := hex.DecodeString("5866666666666666666666666666666666666666666666666666666666666666")
			copy(msg[73:105], bb)
			for i := 105; i < 137; i++ {
				msg[i] = 0
			}
			msg[105] = 1
			if rapid.IntRange(0, 3).Draw(t, "neutral_commitment") == 0 {
				// R = neutral element, s = 0
				for i := 73; i < 137; i++ {
					msg[i] = 0
				}
				msg[73] = 1
			}
			sigOK = false
		case "zero-signature":
			msg = vpC30Assemble(ts, msgRecipient, signer.PublicSpendKey, flag, signKey, 73)
			for i := 73; i < 137; i++ {
				msg[i] = 0
			}
			sigOK = false
		default:
			msg = vpC30Assemble(ts, msgRecipient, signer.PublicSpendKey, flag, signKey, signedLen)
		}
		if defect == "length" {
			switch rapid.IntRange(0, 4).Draw(t, "length_kind") {
			case 0:
				msg = msg[:136]
			case 1:
				msg = append(msg, 0)
			case 2:
				msg = msg[:73]
			case 3:
				msg = nil
			default:
				msg = append(msg, msg...)
			}
		}

		want := len(msg) == 137 && fresh && msgRecipient == callRecipient && selfId != callRecipient && sigOK
		call := vpC30Call{node: receiver, recipient: callRecipient, timeout: timeout}
		res := vpC30Auth(call, msg)
		ok, peer, relayer, gotTs, data, err := res.ok, res.peer, res.relayer, res.ts, res.data, res.err
		if res.pnc != "" {
			t.Fatalf("AuthenticateAs panicked on %x: %s", msg, res.pnc)
		}
		if !res.steady {
			c.Class("clock-moved")
			return
		}
		if ok != (err == nil) {
			t.Fatalf("token/err disagree: token=%v err=%v", ok, err)
		}
		if ok != want {
			t.Fatalf("defect=%s ts=%s(%d, now %d) timeout=%d flag=%d len=%d: accepted=%v want %v (err %v)", defect, tsClass, ts, now, timeout, flag, len(msg), ok, want, err)
		}
		classes := []string{"defect:" + defect, "ts:" + tsClass}
		if !ok {
			switch {
			case len(msg) != 137:
				classes = append(classes, "reject:length")
			case !fresh && (tsClass == "outside-past" || tsClass == "day-past" || tsClass == "zero"):
				classes = append(classes, "reject:stale-past")
			case !fresh:
				classes = append(classes, "reject:stale-future")
			case defect == "recipient":
				classes = append(classes, "reject:recipient")
				if specialRecipient != "" {
					classes = append(classes, specialRecipient)
				}
			case defect == "self":
				classes = append(classes, "reject:self")
			default:
				classes = append(classes, "reject:"+defect)
			}
			// a twin with exactly one defect is non-trivial when the defect alone decided
			alone := defect != "none" && defect != "built" && (fresh || defect == "stale")
			c.Case(fmt.Sprintf("%x", msg), alone, classes...)
			return
		}

		// token
		if peer != selfId {
			t.Fatalf("token PeerId %s, key-derived identity %s", peer, selfId)
		}
		if relayer != (flag == 1) {
			t.Fatalf("token IsRelayer=%v for signed flag byte %d", relayer, flag)
		}
		if gotTs != ts {
			t.Fatalf("token Timestamp %d, message timestamp %d", gotTs, ts)
		}
		if !bytes.Equal(data, msg) {
			t.Fatalf("token Data differs from the message")
		}
		classes = append(classes, "accepted")
		if defect == "built" {
			classes = append(classes, "accepted:built")
		} else {
			classes = append(classes, "accepted:assembled")
		}
		if timeout <= 0 && tsClass != "now" && tsClass != "inside-past" && tsClass != "inside-future" {
			classes = append(classes, "accepted:timeout-disabled-old")
		}
		if flag == 1 {
			classes = append(classes, "flag:relayer")
		} else {
			classes = append(classes, "flag:plain")
		}

		rcache.Wait() // anything the node remembered about the accepted message is visible from here on
		// the same message presented to another receiver
		var other crypto.Hash
		copy(other[:], rapid.SliceOfN(rapid.Byte(), 32, 32).Draw(t, "other_receiver"))
		if other != recipient {
			if vpC30Auth(vpC30Call{node: &Node{networkId: net, IdForNetwork: other}, recipient: other, timeout: timeout}, msg).ok {
				t.Fatalf("message for %s accepted by receiver %s", recipient, other)
			}
		}

		// every single-byte mutation, truncation and extension must be rejected
		extra := rapid.IntRange(1, 255).Draw(t, "xor_mask")
		mutated := 0
		for pos := 0; pos < len(msg); pos++ {
			for _, mask := range []byte{0x01, 0x80, byte(extra)} {
				m := bytes.Clone(msg)
				m[pos] ^= mask
				r3 := vpC30Auth(call, m)
				if r3.pnc != "" {
					t.Fatalf("AuthenticateAs panicked on mutated message (byte %d ^ %#x): %s", pos, mask, r3.pnc)
				}
				if r3.ok {
					t.Fatalf("accepted message still accepted after byte %d ^= %#x (relayer %v -> %v): %x", pos, mask, relayer, r3.relayer, m)
				}
				mutated++
			}
		}
		for _, m := range [][]byte{msg[:136], msg[:73], append(bytes.Clone(msg), 0), append(bytes.Clone(msg), msg...)} {
			if vpC30Auth(call, m).ok {
				t.Fatalf("accepted message still accepted with length %d", len(m))
			}
			mutated++
		}
		// flipping the flag and re-signing with another key must fail too
		{
			fk := crypto.NewKeyFromSeed(append(bytes.Clone(seed[1:]), seed[0]^0x55))
			if fk != signer.PrivateSpendKey {
				m := vpC30Assemble(ts, msgRecipient, signer.PublicSpendKey, flag^1, fk, 73)
				if vpC30Auth(call, m).ok {
					t.Fatalf("flag changed and re-signed by a foreign key was accepted")
				}
				mutated++
			}
		}
		c.ClassN("mutant-rejected", mutated)
		c.Case(fmt.Sprintf("%x", msg), true, classes...)
		c.Sample(map[string]any{"timeout": timeout, "ts_kind": tsClass, "flag": flag, "built": defect == "built", "mutants_rejected": mutated})
	})
}
