//go:build verif

package kernel

// C12 at the kernel layer: the bookkeeping around pre-committed CoSi nonces.
//
// Verifier side (a chain object of a remote leader on this node): nonces are
// pre-committed into chain.CosiRandoms, a full challenge names one commitment
// and cosiRetrieveRandom hands the nonce out bound to the challenged snapshot
// (chain.UsedRandoms). The property "a nonce never answers two different
// challenges" means here: one pre-committed nonce is never handed out for two
// different snapshots.
//
// Leader side (the node's own chain): a peer's commitments are queued by
// cosiAddCommitments and handed out by cosiPopCommitment; a commitment of a
// peer is never handed out twice, even when the peer's list arrives again.

import (
	"bytes"
	"errors"
	"fmt"
	"sort"
	"testing"
	"time"

	"github.com/MixinNetwork/mixin/common"
	"github.com/MixinNetwork/mixin/crypto"
	"github.com/MixinNetwork/mixin/kernel/internal/clock"
	"github.com/MixinNetwork/mixin/p2p"
	"pgregory.net/rapid"
	kit "verifkit"
)

func vpC12Seed(parts ...any) []byte {
	h := crypto.Blake3Hash([]byte(fmt.Sprint(parts...)))
	h2 := crypto.Blake3Hash(h[:])
	return append(h[:], h2[:]...)
}

// vpC12SetClock makes the kernel's mock clock read (about) target.
func vpC12SetClock(target uint64) {
	clock.Reset()
	clock.MockDiff(time.Unix(0, int64(target)).Sub(time.Now()))
}

type vpC12Answer struct {
	challenge string
	response  [32]byte
}

// vpC12Verifier is the verifier-side world: the chain object under test plus
// an independent record of what was pre-committed and handed out.
type vpC12Verifier struct {
	chain   *Chain
	peer    crypto.Hash
	seed    []byte
	privs   []crypto.Key
	publics []*crypto.Key
	me      int
	leader  int

	order    []crypto.Key                        // every commitment ever pre-committed, in order
	object   map[crypto.Key]*crypto.CosiNonce    // the handle that was pre-committed under a commitment
	handed   map[crypto.Key]map[crypto.Hash]bool // commitment -> snapshots it was handed out for
	bound    map[crypto.Hash]crypto.Key          // snapshot -> commitment handed out last for it
	answered map[crypto.Key]*vpC12Answer         // commitment -> the one challenge its nonce answered
	abandoned map[crypto.Hash]bool               // snapshots given up after a refused challenge
}

func vpC12NewVerifier(t *rapid.T) *vpC12Verifier {
	v := &vpC12Verifier{
		seed:     rapid.SliceOfN(rapid.Byte(), 8, 8).Draw(t, "seed"),
		object:   map[crypto.Key]*crypto.CosiNonce{},
		handed:   map[crypto.Key]map[crypto.Hash]bool{},
		bound:    map[crypto.Hash]crypto.Key{},
		abandoned: map[crypto.Hash]bool{},
		answered: map[crypto.Key]*vpC12Answer{},
	}
	n := rapid.IntRange(2, 7).Draw(t, "keys")
	for i := 0; i < n; i++ {
		k := crypto.NewKeyFromSeed(vpC12Seed("c12k-key", v.seed, i))
		p := k.Public()
		v.privs = append(v.privs, k)
		v.publics = append(v.publics, &p)
	}
	v.me = rapid.IntRange(0, n-1).Draw(t, "me")
	v.leader = (v.me + 1 + rapid.IntRange(0, n-2).Draw(t, "leader")) % n
	self := crypto.Blake3Hash(v.publics[v.me][:])
	v.peer = crypto.Blake3Hash(v.publics[v.leader][:])
	v.chain = &Chain{node: &Node{IdForNetwork: self}, ChainId: v.peer}
	switch rapid.IntRange(0, 2).Draw(t, "maps") {
	case 0: // as buildChain leaves them
		v.chain.CosiRandoms = make(map[crypto.Key]*crypto.CosiNonce)
		v.chain.UsedRandoms = make(map[crypto.Hash]*crypto.CosiNonce)
	case 1:
		v.chain.CosiRandoms = make(map[crypto.Key]*crypto.CosiNonce)
	default: // both nil: the functions under test create them on demand
	}
	return v
}

// precommit does what the loop of cosiPrepareRandomsAndSendCommitments does,
// with nonces derived from the drawn seed.
func (v *vpC12Verifier) precommit(k int) {
	if v.chain.CosiRandoms == nil {
		v.chain.CosiRandoms = make(map[crypto.Key]*crypto.CosiNonce)
	}
	for i := 0; i < k; i++ {
		nonce := crypto.CosiCommitNonce(bytes.NewReader(vpC12Seed("c12k-nonce", v.seed, len(v.order))))
		c := nonce.Public()
		v.chain.CosiRandoms[c] = nonce
		v.order = append(v.order, c)
		v.object[c] = nonce
	}
}

func (v *vpC12Verifier) snap(i int) crypto.Hash {
	return crypto.Blake3Hash(vpC12Seed("c12k-snap", v.seed, i))
}

// challenge builds the aggregated commitment the leader would send for snapshot
// s when it aggregates the verifier's commitment c with its own commitment
// number variant (a leader that re-proposes uses another one).
func (v *vpC12Verifier) challenge(c crypto.Key, variant int) *crypto.CosiSignature {
	lr := crypto.NewKeyFromSeed(vpC12Seed("c12k-leader-nonce", v.seed, variant)).Public()
	cc := c
	cosi, err := crypto.CosiAggregateCommitment(map[int]*crypto.Key{v.me: &cc, v.leader: &lr})
	if err != nil {
		panic(err)
	}
	return cosi
}

func TestVP_C12_kernel_verifier(t *testing.T) {
	c := kit.New(t, "C12", "rapid state machine over a bare verifier-side Chain (maps as buildChain leaves them / nil): 6..45 operations drawn from: pre-commit 1..4 nonces (the production loop with seeded nonces), full-challenge lookup cosiRetrieveRandom(snapshot, commitment) with the snapshot drawn from 6 hashes and the commitment from everything ever pre-committed (available, consumed, superseded) or unknown, and answer: the real nonce.Response through a handle obtained from the lookup with a challenge for that snapshot (two leader commitments per snapshot = two different challenges); oracle: per commitment the set of snapshots it was handed out for has size <= 1, a handed-out nonce is the pre-committed object and its Public() is the requested commitment, a repeated (snapshot, commitment) lookup returns the identical object, a consumed commitment under another snapshot and an unknown commitment return nil, and through handed-out nonces a second, different challenge is refused with ErrCosiNonceReuse while the same challenge returns the identical (verifying) response; after a refusal the snapshot is given up with abandonCosiSnapshot as cosiHandleChallenge does, and later repeats of the answered (snapshot, commitment) pair must still find the same nonce; non-trivial = history in which a consumed commitment was requested again for another snapshot; distinct by operation trace")
	c.Require("handed-out", "repeat-same-object", "consumed-other-snapshot", "unknown-commitment", "superseded-request", "response-first", "response-repeat", "response-other-challenge-refused", "abandoned-after-refusal", "repeat-after-abandon", "maps-nil")
	kit.SetChecks(kit.N(300, 12000))
	rapid.Check(t, func(t *rapid.T) {
		v := vpC12NewVerifier(t)
		var classes []string
		if v.chain.CosiRandoms == nil {
			classes = append(classes, "maps-nil")
		}
		trace := fmt.Sprintf("%x/%d/%d", v.seed, len(v.publics), v.me)
		nontrivial := false
		v.precommit(rapid.IntRange(0, 3).Draw(t, "initial"))
		steps := rapid.IntRange(6, 45).Draw(t, "steps")
		for i := 0; i < steps; i++ {
			op := rapid.IntRange(0, 9).Draw(t, "op")
			switch {
			case op == 0:
				k := rapid.IntRange(1, 4).Draw(t, "precommit")
				v.precommit(k)
				trace += fmt.Sprintf(";p%d", k)
			case op <= 6:
				si := rapid.IntRange(0, 5).Draw(t, "snapshot")
				s := v.snap(si)
				var cm crypto.Key
				ci := -1
				if len(v.order) == 0 || rapid.IntRange(0, 9).Draw(t, "unknown") == 0 {
					cm = crypto.NewKeyFromSeed(vpC12Seed("c12k-unknown", v.seed, i)).Public()
				} else {
					ci = rapid.IntRange(0, len(v.order)-1).Draw(t, "commitment")
					cm = v.order[ci]
				}
				trace += fmt.Sprintf(";r%d.%d", si, ci)
				req := cm
				var got *crypto.CosiNonce
				if p := vpKCatch(func() { got = v.chain.cosiRetrieveRandom(s, v.peer, &req) }); p != nil {
					t.Fatalf("cosiRetrieveRandom panicked: %v", p)
				}
				prev := v.handed[cm]
				was, repeat := v.bound[s]
				repeat = repeat && was == cm
				if ci < 0 {
					classes = append(classes, "unknown-commitment")
					if got != nil {
						t.Fatalf("a nonce (commitment %s) was handed out for commitment %s that was never pre-committed", got.Public(), cm)
					}
					continue
				}
				if len(prev) > 0 && !prev[s] {
					nontrivial = true
					classes = append(classes, "consumed-other-snapshot")
				}
				if len(prev) > 0 && prev[s] && !repeat {
					// handed out for s earlier, then another commitment took the slot of s
					classes = append(classes, "superseded-request")
				}
				if got == nil {
					if repeat {
						t.Fatalf("repeated full challenge (snapshot %s, commitment %s): the nonce bound to that snapshot was not found again", s, cm)
					}
					classes = append(classes, "nil")
					continue
				}
				if got.Public() != cm {
					t.Fatalf("lookup for commitment %s under snapshot %s returned the nonce of commitment %s", cm, s, got.Public())
				}
				if got != v.object[cm] {
					t.Fatalf("lookup for commitment %s returned a handle other than the pre-committed one", cm)
				}
				if v.handed[cm] == nil {
					v.handed[cm] = map[crypto.Hash]bool{}
				}
				v.handed[cm][s] = true
				if len(v.handed[cm]) > 1 {
					var l []string
					for h := range v.handed[cm] {
						l = append(l, h.String()[:8])
					}
					sort.Strings(l)
					t.Fatalf("pre-committed nonce %s was handed out for %d different snapshots %v", cm, len(l), l)
				}
				if repeat {
					classes = append(classes, "repeat-same-object")
					if v.abandoned[s] {
						classes = append(classes, "repeat-after-abandon")
					}
				} else {
					classes = append(classes, "handed-out")
				}
				v.bound[s] = cm
				if rapid.IntRange(0, 2).Draw(t, "answer") == 0 {
					continue
				}
				// what cosiHandleChallenge does with the handle
				variant := rapid.IntRange(0, 1).Draw(t, "leader_commitment")
				trace += fmt.Sprintf("a%d", variant)
				cosi := v.challenge(cm, variant)
				id := fmt.Sprintf("%s/%d", s, variant)
				resp, err := got.Response(cosi, &v.privs[v.me], v.publics, s)
				first := v.answered[cm]
				switch {
				case first == nil:
					if err != nil {
						t.Fatalf("first challenge through a freshly handed-out nonce failed: %v", err)
					}
					if e := cosi.VerifyResponse(v.publics, v.me, resp, s); e != nil {
						t.Fatalf("response does not verify: %v", e)
					}
					v.answered[cm] = &vpC12Answer{challenge: id, response: *resp}
					classes = append(classes, "response-first")
				case first.challenge == id:
					if err != nil || *resp != first.response {
						t.Fatalf("repeated identical challenge: err=%v, response identical=%v", err, resp != nil && *resp == first.response)
					}
					classes = append(classes, "response-repeat")
				default:
					if !errors.Is(err, crypto.ErrCosiNonceReuse) || resp != nil {
						t.Fatalf("nonce %s answered challenge %s and then a second, different challenge %s (err=%v)", cm, first.challenge, id, err)
					}
					classes = append(classes, "response-other-challenge-refused")
					// what cosiHandleChallenge does next: it gives the snapshot up. The
					// binding of the snapshot to its nonce has to outlive that, or the
					// leader repeating the challenge that WAS answered finds no nonce.
					v.chain.abandonCosiSnapshot(&common.Snapshot{Hash: s, NodeId: v.peer, Transactions: []crypto.Hash{s}})
					v.abandoned[s] = true
					classes = append(classes, "abandoned-after-refusal")
					trace += "X"
				}
			default:
				// a consumed commitment is asked for again under a fresh snapshot
				var consumed []crypto.Key
				for _, k := range v.order {
					if len(v.handed[k]) > 0 {
						consumed = append(consumed, k)
					}
				}
				if len(consumed) == 0 {
					continue
				}
				cm := consumed[rapid.IntRange(0, len(consumed)-1).Draw(t, "consumed")]
				s := v.snap(100 + i)
				trace += fmt.Sprintf(";x%d", i)
				req := cm
				got := v.chain.cosiRetrieveRandom(s, v.peer, &req)
				nontrivial = true
				classes = append(classes, "consumed-other-snapshot")
				if got != nil {
					// tie the layers: the handle would now be asked to answer a second challenge
					_, err := got.Response(v.challenge(cm, 0), &v.privs[v.me], v.publics, s)
					t.Fatalf("pre-committed nonce %s, consumed for snapshot(s) %d, was handed out again for snapshot %s (a Response for it returns err=%v)", cm, len(v.handed[cm]), s, err)
				}
			}
		}
		// the still available nonces are exactly those never handed out
		for _, k := range v.order {
			if len(v.handed[k]) > 0 && v.chain.CosiRandoms[k] != nil {
				t.Fatalf("commitment %s was handed out and is still available in CosiRandoms", k)
			}
		}
		c.Case(trace, nontrivial, classes...)
		c.Sample(map[string]any{"precommitted": len(v.order), "handed_out": len(v.handed), "answered": len(v.answered), "trace": trace})
	})
}

// vpC12Leader is the leader-side world: the node's own chain on a node built
// from membership records.
type vpC12Leader struct {
	chain  *Chain
	node   *Node
	peers  []crypto.Hash
	seed   []byte
	sent   map[crypto.Hash][][]crypto.Key      // peer -> lists it sent, in order
	popped map[crypto.Hash]map[crypto.Key]bool // peer -> commitments handed out
	fresh  int
}

func (l *vpC12Leader) commitment() crypto.Key {
	l.fresh++
	return crypto.NewKeyFromSeed(vpC12Seed("c12k-commit", l.seed, l.fresh)).Public()
}

func TestVP_C12_kernel_leader(t *testing.T) {
	c := kit.New(t, "C12", "rapid state machine over a bare leader-side Chain on a node assembled from 7..10 genesis membership records (mock clock inside / outside the node-operation window, so that with > 7 nodes the oldest one is the predicted removal and its lists are ignored): 8..60 operations on 2..4 peers drawn from cosiAddCommitments(peer, list) and cosiPopCommitment(peer); lists hold 1..6 distinct commitments: fresh ones, a replay of an earlier list of that peer in full or a suffix/prefix of it, used and pending commitments of that peer mixed with fresh ones, or a list copied from another peer; oracle: per peer no commitment value is ever handed out twice (no panic); non-trivial = a handed-out commitment was re-sent by its peer and a later pop for that peer was served; distinct by operation trace. Lists with one commitment repeated inside the list are outside the domain (an honest peer sends 512 fresh nonces; only the owner of the signing key can author a list)")
	c.Require("resent-used", "pop-after-resent-used", "replay-full", "pop-empty", "pop", "ignored-removing-peer", "cross-peer-copy", "used-map-nil")
	kit.SetChecks(kit.N(250, 10000))
	defer clock.Reset()
	rapid.Check(t, func(t *rapid.T) {
		salt := rapid.Uint64().Draw(t, "salt")
		h := vpKMNewHist(vpKMEpochDefault, vpKMNetwork("c12k"), salt, false)
		g := rapid.IntRange(7, 10).Draw(t, "genesis")
		for i := 0; i < g; i++ {
			h.AddGenesis(h.Epoch)
		}
		cache := vpKMNewCache()
		defer cache.Close()
		node := vpKMNewNode(h, h.Records, cache)
		sorted := h.Sorted()
		selfIdx := rapid.IntRange(0, g-1).Draw(t, "self")
		node.IdForNetwork = sorted[selfIdx].IdForNetwork
		hour := rapid.SampledFrom([]int{15, 15, 22, 5}).Draw(t, "hour")
		vpC12SetClock(h.Epoch + 400*vpKMDay + uint64(hour)*vpKMHour + 30*60*vpKMSecond)
		l := &vpC12Leader{node: node, seed: vpC12Seed("c12k-leader", salt)[:8],
			sent: map[crypto.Hash][][]crypto.Key{}, popped: map[crypto.Hash]map[crypto.Key]bool{}}
		l.chain = &Chain{node: node, ChainId: node.IdForNetwork,
			CosiCommitments:    make(map[crypto.Hash][]*crypto.Key),
			CosiCommunicatedAt: make(map[crypto.Hash]time.Time)}
		var classes []string
		if rapid.Bool().Draw(t, "used_map") {
			l.chain.UsedCommitments = make(map[crypto.Key]bool)
		} else {
			classes = append(classes, "used-map-nil")
		}
		np := rapid.IntRange(2, 4).Draw(t, "peers")
		for i := 0; len(l.peers) < np; i++ {
			if i != selfIdx { // includes sorted[0], the predicted removal when g > 7
				l.peers = append(l.peers, sorted[i].IdForNetwork)
			}
		}
		trace := fmt.Sprintf("%d/%d/%d/%d", salt, g, selfIdx, hour)
		resentUsed := map[crypto.Hash]bool{}
		nontrivial := false
		steps := rapid.IntRange(8, 60).Draw(t, "steps")
		for i := 0; i < steps; i++ {
			pi := rapid.IntRange(0, np-1).Draw(t, "peer")
			peer := l.peers[pi]
			if rapid.IntRange(0, 2).Draw(t, "op") == 0 {
				var list []crypto.Key
				kind := rapid.IntRange(0, 4).Draw(t, "list")
				earlier := l.sent[peer]
				switch {
				case kind == 1 && len(earlier) > 0: // the network delivers an earlier message again
					list = append(list, earlier[rapid.IntRange(0, len(earlier)-1).Draw(t, "replay")]...)
					classes = append(classes, "replay-full")
				case kind == 2 && len(earlier) > 0: // part of an earlier list, then fresh ones
					old := earlier[rapid.IntRange(0, len(earlier)-1).Draw(t, "overlap")]
					a := rapid.IntRange(0, len(old)-1).Draw(t, "from")
					b := rapid.IntRange(a+1, len(old)).Draw(t, "to")
					list = append(list, old[a:b]...)
					for k := rapid.IntRange(0, 2).Draw(t, "plus"); k > 0; k-- {
						list = append(list, l.commitment())
					}
					classes = append(classes, "overlap")
				case kind == 3: // every commitment this peer was served with, shuffled in between fresh ones
					var used []crypto.Key
					for _, lst := range earlier {
						for _, k := range lst {
							if l.popped[peer][k] {
								used = append(used, k)
							}
						}
					}
					seen := map[crypto.Key]bool{}
					for _, k := range used {
						if !seen[k] && len(list) < 4 {
							seen[k] = true
							list = append(list, k)
							if rapid.Bool().Draw(t, "interleave") {
								list = append(list, l.commitment())
							}
						}
					}
					if len(list) == 0 {
						list = append(list, l.commitment())
					}
				case kind == 4 && len(l.sent[l.peers[(pi+1)%np]]) > 0: // a list another peer sent
					other := l.sent[l.peers[(pi+1)%np]]
					list = append(list, other[len(other)-1]...)
					classes = append(classes, "cross-peer-copy")
				default:
					for k := rapid.IntRange(1, 6).Draw(t, "fresh"); k > 0; k-- {
						list = append(list, l.commitment())
					}
				}
				// distinct inside one list (domain)
				seen := map[crypto.Key]bool{}
				var ptrs []*crypto.Key
				var dedup []crypto.Key
				for _, k := range list {
					if seen[k] {
						continue
					}
					seen[k] = true
					kk := k
					ptrs = append(ptrs, &kk)
					dedup = append(dedup, k)
					if l.popped[peer][k] {
						resentUsed[peer] = true
						classes = append(classes, "resent-used")
					}
				}
				ignored := node.GetRemovingOrSlashingNode(peer) != nil
				if ignored {
					classes = append(classes, "ignored-removing-peer")
				}
				var err error
				if p := vpKCatch(func() {
					err = l.chain.cosiAddCommitments(&CosiAction{Action: CosiActionExternalCommitments, PeerId: peer, Commitments: ptrs})
				}); p != nil || err != nil {
					t.Fatalf("cosiAddCommitments(%d commitments): err=%v panic=%v", len(ptrs), err, p)
				}
				l.sent[peer] = append(l.sent[peer], dedup)
				trace += fmt.Sprintf(";a%d.%d.%d", pi, kind, len(dedup))
				continue
			}
			var got *crypto.Key
			if p := vpKCatch(func() { got = l.chain.cosiPopCommitment(peer) }); p != nil {
				t.Fatalf("cosiPopCommitment panicked: %v", p)
			}
			trace += fmt.Sprintf(";o%d", pi)
			if got == nil {
				classes = append(classes, "pop-empty")
				continue
			}
			classes = append(classes, "pop")
			if l.popped[peer] == nil {
				l.popped[peer] = map[crypto.Key]bool{}
			}
			if l.popped[peer][*got] {
				t.Fatalf("commitment %s of peer %s was handed out twice by the leader (operation %d, trace %s)", got, peer, i, trace)
			}
			l.popped[peer][*got] = true
			if resentUsed[peer] {
				nontrivial = true
				classes = append(classes, "pop-after-resent-used")
			}
		}
		c.Case(trace, nontrivial, classes...)
		c.Sample(map[string]any{"nodes": g, "hour": hour, "peers": np, "trace": trace})
	})
}

// The production pre-commit path on a bare node with a Peer without
// neighbours: 512 nonces from the system random source; sweep over them.
func TestVP_C12_kernel_prepared(t *testing.T) {
	if kit.Replaying() {
		return
	}
	c := kit.New(t, "C12", "deterministic sweep over the 512 nonces pre-committed by the unmodified cosiPrepareRandomsAndSendCommitments (bare node, Peer without neighbours, mock clock): every commitment is looked up under snapshot A (handed out), again under A (same object), under B (refused), and again after the next cosiPrepareRandomsAndSendCommitments call; then the retained set is filled beyond its capacity (131072) and the newest bindings must still be found on repeat; non-trivial = every commitment; distinct by index (the nonce values come from the production random source; verdict and counts do not depend on them)")
	defer clock.Reset()
	vpC12SetClock(vpKMEpochDefault + 400*vpKMDay)
	cache := vpKMNewCache()
	defer cache.Close()
	signer := crypto.NewKeyFromSeed(vpC12Seed("c12k-prepared-signer"))
	self := crypto.Blake3Hash([]byte("c12k-prepared-self"))
	peer := crypto.Blake3Hash([]byte("c12k-prepared-leader"))
	node := &Node{IdForNetwork: self, cacheStore: cache}
	node.Signer.PrivateSpendKey = signer
	node.Signer.PublicSpendKey = signer.Public()
	node.Peer = p2p.NewPeer(node, self, "127.0.0.1:0", false)
	chain := &Chain{node: node, ChainId: peer}
	if p := vpKCatch(func() {
		if err := chain.cosiPrepareRandomsAndSendCommitments(peer); err != nil {
			panic(err)
		}
	}); p != nil {
		kit.Inconclusive(t, "the harness node cannot run cosiPrepareRandomsAndSendCommitments: %v", p)
		return
	}
	var all []crypto.Key
	for k := range chain.CosiRandoms {
		all = append(all, k)
	}
	sort.Slice(all, func(i, j int) bool { return bytes.Compare(all[i][:], all[j][:]) < 0 })
	if len(all) != 512 {
		t.Fatalf("%d pre-committed nonces", len(all))
	}
	objects := map[crypto.Key]*crypto.CosiNonce{}
	for i, k := range all {
		a := crypto.Blake3Hash(append([]byte("A"), k[:]...))
		b := crypto.Blake3Hash(append([]byte("B"), k[:]...))
		kk := k
		first := chain.cosiRetrieveRandom(a, peer, &kk)
		if first == nil || first.Public() != k {
			t.Fatalf("pre-committed nonce %d not handed out", i)
		}
		if again := chain.cosiRetrieveRandom(a, peer, &kk); again != first {
			t.Fatalf("repeated lookup returned another object for nonce %d", i)
		}
		if other := chain.cosiRetrieveRandom(b, peer, &kk); other != nil {
			t.Fatalf("nonce %d consumed for snapshot A was handed out for snapshot B", i)
		}
		objects[k] = first
		c.Case(fmt.Sprint("prepared", i), true, "prepared")
	}
	// all 512 are consumed: the next call pre-commits a new batch
	if err := chain.cosiPrepareRandomsAndSendCommitments(peer); err != nil {
		t.Fatal(err)
	}
	if len(chain.CosiRandoms) != 512 {
		t.Fatalf("%d available nonces after the second batch", len(chain.CosiRandoms))
	}
	for i, k := range all {
		if chain.CosiRandoms[k] != nil {
			t.Fatalf("consumed nonce %d is available again after the next batch", i)
		}
		b := crypto.Blake3Hash(append([]byte("C"), k[:]...))
		kk := k
		if other := chain.cosiRetrieveRandom(b, peer, &kk); other != nil {
			t.Fatalf("nonce %d consumed for snapshot A was handed out for snapshot C after the next batch", i)
		}
		a := crypto.Blake3Hash(append([]byte("A"), k[:]...))
		if again := chain.cosiRetrieveRandom(a, peer, &kk); again != objects[k] {
			t.Fatalf("nonce %d bound to snapshot A not found again after the next batch", i)
		}
	}
	// a verifier that has served very many full challenges keeps a bounded
	// number of bindings (oldest dropped first). The binding made LAST must be
	// among those kept: the leader repeating the newest full challenge finds
	// the same nonce. The retained set is filled through the production
	// function with placeholder snapshots.
	filler := objects[all[0]]
	for i := 0; i < 1024*128+64; i++ {
		chain.retainUsedCosiNonce(crypto.Blake3Hash([]byte(fmt.Sprintf("c12k-filler-%d", i))), filler)
	}
	var fresh []crypto.Key
	for k := range chain.CosiRandoms {
		fresh = append(fresh, k)
	}
	sort.Slice(fresh, func(i, j int) bool { return bytes.Compare(fresh[i][:], fresh[j][:]) < 0 })
	for i, k := range fresh[:16] {
		a := crypto.Blake3Hash(append([]byte("D"), k[:]...))
		kk := k
		first := chain.cosiRetrieveRandom(a, peer, &kk)
		if first == nil || first.Public() != k {
			t.Fatalf("pre-committed nonce %d not handed out by a verifier with a full retained set", i)
		}
		if again := chain.cosiRetrieveRandom(a, peer, &kk); again != first {
			t.Fatalf("a verifier holding %d retained bindings does not find the binding it made last again (repeat of the newest full challenge, nonce %d)", len(chain.UsedRandoms), i)
		}
		c.Case(fmt.Sprint("retained-at-capacity", i), true, "retained-at-capacity")
	}
	c.Sample(map[string]any{"precommitted": len(all), "second_batch": len(chain.CosiRandoms), "retained": len(chain.UsedRandoms)})
}
