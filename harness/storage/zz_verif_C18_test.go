//go:build verif

package storage

import (
	"bytes"
	"encoding/binary"
	"fmt"
	"sort"
	"testing"

	"github.com/MixinNetwork/mixin/common"
	"github.com/MixinNetwork/mixin/config"
	"github.com/MixinNetwork/mixin/crypto"
	"pgregory.net/rapid"
	kit "verifkit"
)

type vpC18Member struct {
	Ts      uint64
	Hash    crypto.Hash
	Version uint8
}

type vpC18Result struct {
	Start, End uint64
	Hash       crypto.Hash
	Panic      string
}

// vpC18Reference is written from the statement: the members ordered by
// (timestamp, hash) are folded into Blake3(node || number).
func vpC18Reference(node crypto.Hash, number uint64, set []vpC18Member) vpC18Result {
	ms := append([]vpC18Member{}, set...)
	sort.SliceStable(ms, func(i, j int) bool {
		if ms[i].Ts != ms[j].Ts {
			return ms[i].Ts < ms[j].Ts
		}
		return bytes.Compare(ms[i].Hash[:], ms[j].Hash[:]) < 0
	})
	var nb [8]byte
	binary.BigEndian.PutUint64(nb[:], number)
	seed := append(append([]byte{}, node[:]...), nb[:]...)
	h := crypto.Blake3Hash(seed)
	for _, m := range ms {
		h = crypto.Blake3Hash(append(append([]byte{}, h[:]...), m.Hash[:]...))
	}
	return vpC18Result{Start: ms[0].Ts, End: ms[len(ms)-1].Ts, Hash: h}
}

func vpC18Live(node crypto.Hash, number uint64, set []vpC18Member, perm []int) (r vpC18Result) {
	in := make([]*common.Snapshot, len(set))
	for i, p := range perm {
		m := set[p]
		in[i] = &common.Snapshot{Version: m.Version, NodeId: node, RoundNumber: number, Timestamp: m.Ts, Hash: m.Hash}
	}
	r.Panic = vpSCatch(func() { r.Start, r.End, r.Hash = common.ComputeRoundHash(node, number, in) })
	return r
}

func vpC18Startup(node crypto.Hash, number uint64, set []vpC18Member, perm []int) (r vpC18Result) {
	in := make([]*common.SnapshotWithTopologicalOrder, len(set))
	for i, p := range perm {
		m := set[p]
		in[i] = &common.SnapshotWithTopologicalOrder{
			Snapshot:         &common.Snapshot{Version: m.Version, NodeId: node, RoundNumber: number, Timestamp: m.Ts, Hash: m.Hash},
			TopologicalOrder: uint64(p),
		}
	}
	r.Panic = vpSCatch(func() { r.Start, r.End, r.Hash = computeRoundHash(node, number, in) })
	return r
}

func vpC18Hash(t *rapid.T, label string) crypto.Hash {
	var h crypto.Hash
	copy(h[:], rapid.SliceOfN(rapid.Byte(), 32, 32).Draw(t, label))
	return h
}

// vpC18GenSet draws 1..max members with distinct hashes. Timestamps come from
// a few offsets inside one round gap, so ties are frequent; hashes often share
// a long common prefix so the tie-break has to look deep into the hash.
func vpC18GenSet(t *rapid.T, max int, span uint64) []vpC18Member {
	n := rapid.IntRange(1, max).Draw(t, "n")
	base := rapid.Uint64Range(1, 1<<62).Draw(t, "base")
	noffs := rapid.IntRange(1, 4).Draw(t, "distinct_ts")
	offs := make([]uint64, noffs)
	for i := range offs {
		switch rapid.IntRange(0, 3).Draw(t, "off_kind") {
		case 0:
			offs[i] = 0
		case 1:
			offs[i] = span
		default:
			offs[i] = rapid.Uint64Range(0, span).Draw(t, "off")
		}
	}
	prefixLen := rapid.SampledFrom([]int{0, 0, 1, 8, 31}).Draw(t, "prefix_len")
	prefix := vpC18Hash(t, "prefix")
	seen := map[crypto.Hash]bool{}
	set := make([]vpC18Member, 0, n)
	for i := 0; i < n; i++ {
		h := vpC18Hash(t, "hash")
		copy(h[:prefixLen], prefix[:prefixLen])
		for seen[h] { // make it distinct by construction: a round holds a set
			h[31]++
			if h[31] == 0 {
				h[30]++
			}
		}
		seen[h] = true
		set = append(set, vpC18Member{
			Ts:      base + offs[rapid.IntRange(0, noffs-1).Draw(t, "ts_pick")],
			Hash:    h,
			Version: rapid.SampledFrom([]uint8{2, 2, 2, 1, 0}).Draw(t, "version"),
		})
	}
	return set
}

func vpC18Perm(t *rapid.T, n int, label string) []int {
	idx := make([]int, n)
	for i := range idx {
		idx[i] = i
	}
	switch rapid.IntRange(0, 4).Draw(t, label+"_kind") {
	case 0: // identity
		return idx
	case 1: // reversed
		for i, j := 0, n-1; i < j; i, j = i+1, j-1 {
			idx[i], idx[j] = idx[j], idx[i]
		}
		return idx
	default:
		return rapid.Permutation(idx).Draw(t, label)
	}
}

func vpC18Same(a, b vpC18Result) bool {
	return a.Start == b.Start && a.End == b.End && a.Hash == b.Hash && (a.Panic == "") == (b.Panic == "")
}

func TestVP_C18_round_hash(t *testing.T) {
	c := kit.New(t, "C18", "rapid: sets of 1..64 (thorough 1..255) snapshots with distinct hashes (often sharing a 1/8/31-byte prefix), 1..4 distinct timestamps inside one round gap (0, gap-1 and uniform offsets), versions 0/1/2, random node id and round number; common.ComputeRoundHash on permutation A, on permutation B, storage.computeRoundHash on both, all compared with a reference fold written from the statement; then one member hash / the node / the number / the membership is changed and the hash must change; non-trivial = at least 2 members with at least one timestamp tie; distinct by (node, number, sorted member list)")
	c.Require("tie", "n>=2", "perm-differs", "version-mix", "full-span", "single")
	c.Assume("timestamps of one round lie within one SnapshotRoundGap (guaranteed by C19); both implementations panic otherwise, which is only checked for agreement")
	kit.SetChecks(kit.N(8000, 200000))
	max := 64
	if kit.Thorough() {
		max = 255
	}
	gap := config.SnapshotRoundGap
	rapid.Check(t, func(t *rapid.T) {
		node := vpC18Hash(t, "node")
		number := rapid.OneOf(rapid.Uint64Range(0, 5), rapid.Uint64()).Draw(t, "number")
		set := vpC18GenSet(t, max, gap-1)
		n := len(set)
		pa := vpC18Perm(t, n, "perm_a")
		pb := vpC18Perm(t, n, "perm_b")

		ref := vpC18Reference(node, number, set)
		la := vpC18Live(node, number, set, pa)
		lb := vpC18Live(node, number, set, pb)
		sa := vpC18Startup(node, number, set, pa)
		sb := vpC18Startup(node, number, set, pb)
		for name, got := range map[string]vpC18Result{"common/permA": la, "common/permB": lb, "storage/permA": sa, "storage/permB": sb} {
			if got.Panic != "" {
				t.Fatalf("%s panicked on an in-gap set of %d: %s", name, n, got.Panic)
			}
			if !vpC18Same(got, ref) {
				t.Fatalf("%s = (%d,%d,%s), reference (%d,%d,%s); n=%d permA=%v permB=%v", name, got.Start, got.End, got.Hash, ref.Start, ref.End, ref.Hash, n, pa, pb)
			}
		}

		// the hash commits to every argument
		classes := []string{}
		mut := append([]vpC18Member{}, set...)
		k := rapid.IntRange(0, n-1).Draw(t, "flip_member")
		bit := rapid.IntRange(0, 255).Draw(t, "flip_bit")
		mut[k].Hash[bit/8] ^= 1 << (bit % 8)
		dup := false
		for i, m := range set {
			if i != k && m.Hash == mut[k].Hash {
				dup = true // flipped into another member: no longer a set
			}
		}
		if !dup {
			if r := vpC18Live(node, number, mut, pa); r.Panic != "" || r.Hash == ref.Hash {
				t.Fatalf("changing member %d bit %d did not change the round hash (%s)", k, bit, r.Panic)
			}
			if r := vpC18Startup(node, number, mut, pb); r.Panic != "" || r.Hash == ref.Hash {
				t.Fatalf("storage: changing member %d bit %d did not change the round hash (%s)", k, bit, r.Panic)
			}
		}
		node2 := node
		node2[bit/8] ^= 1 << (bit % 8)
		if r := vpC18Live(node2, number, set, pa); r.Hash == ref.Hash {
			t.Fatalf("changing the node id did not change the round hash")
		}
		if r := vpC18Startup(node2, number, set, pa); r.Hash == ref.Hash {
			t.Fatalf("storage: changing the node id did not change the round hash")
		}
		number2 := number ^ (1 << uint(bit%64))
		if r := vpC18Live(node, number2, set, pa); r.Hash == ref.Hash {
			t.Fatalf("changing the round number did not change the round hash")
		}
		if r := vpC18Startup(node, number2, set, pa); r.Hash == ref.Hash {
			t.Fatalf("storage: changing the round number did not change the round hash")
		}
		if n >= 2 {
			sub := append(append([]vpC18Member{}, set[:k]...), set[k+1:]...)
			ps := vpC18Perm(t, n-1, "perm_sub")
			rs, ss, rr := vpC18Live(node, number, sub, ps), vpC18Startup(node, number, sub, ps), vpC18Reference(node, number, sub)
			if !vpC18Same(rs, rr) || !vpC18Same(ss, rr) {
				t.Fatalf("subset without member %d: common %v storage %v reference %v", k, rs, ss, rr)
			}
			if rs.Hash == ref.Hash {
				t.Fatalf("removing member %d did not change the round hash", k)
			}
		}

		// outside the domain (span >= gap) the two implementations must still agree
		if rapid.IntRange(0, 9).Draw(t, "try_gap") == 0 {
			wide := append([]vpC18Member{}, set...)
			lo := wide[0].Ts
			for _, m := range wide {
				if m.Ts < lo {
					lo = m.Ts
				}
			}
			extra := vpC18Member{Ts: lo + gap + rapid.Uint64Range(0, 3).Draw(t, "beyond"), Hash: crypto.Blake3Hash(ref.Hash[:]), Version: 2}
			wide = append(wide, extra)
			pw := vpC18Perm(t, len(wide), "perm_wide")
			lw, sw := vpC18Live(node, number, wide, pw), vpC18Startup(node, number, wide, pw)
			if (lw.Panic == "") != (sw.Panic == "") || (lw.Panic == "" && !vpC18Same(lw, sw)) {
				t.Fatalf("span >= gap: common %+v storage %+v", lw, sw)
			}
			classes = append(classes, "span>=gap-agree")
		}

		tie := false
		tss := map[uint64]int{}
		vers := map[uint8]bool{}
		for _, m := range set {
			tss[m.Ts]++
			if tss[m.Ts] > 1 {
				tie = true
			}
			vers[m.Version] = true
		}
		if tie {
			classes = append(classes, "tie")
		}
		if n >= 2 {
			classes = append(classes, "n>=2")
		} else {
			classes = append(classes, "single")
		}
		if fmt.Sprint(pa) != fmt.Sprint(pb) {
			classes = append(classes, "perm-differs")
		}
		if len(vers) > 1 {
			classes = append(classes, "version-mix")
		}
		if ref.End-ref.Start == gap-1 {
			classes = append(classes, "full-span")
		}
		if n > 32 {
			classes = append(classes, "n>32")
		}
		c.Case(fmt.Sprintf("%s|%d|%s", node, number, ref.Hash), n >= 2 && tie, classes...)
		c.Sample(map[string]any{"n": n, "distinct_ts": len(tss), "start": ref.Start, "end": ref.End, "hash": ref.Hash.String()})
	})
}

// Deterministic sweep: every permutation of small sets with all-equal
// timestamps (the case the single repository test does not pin).
func TestVP_C18_all_permutations_small(t *testing.T) {
	c := kit.New(t, "C18", "sweep: all permutations of sets of 1..6 members with identical timestamps and hashes differing only in the last byte; both implementations against the reference; every case is non-trivial for n>=2; distinct by (n, permutation)")
	if kit.Replaying() {
		return
	}
	node := crypto.Blake3Hash([]byte("vpC18-node"))
	for n := 1; n <= 6; n++ {
		set := make([]vpC18Member, n)
		for i := range set {
			h := crypto.Blake3Hash([]byte("vpC18-common-prefix"))
			h[31] = byte(200 - 7*i)
			set[i] = vpC18Member{Ts: 1700000000000000000, Hash: h, Version: 2}
		}
		ref := vpC18Reference(node, uint64(n), set)
		perm := make([]int, n)
		for i := range perm {
			perm[i] = i
		}
		var rec func(k int)
		rec = func(k int) {
			if k == n {
				a, b := vpC18Live(node, uint64(n), set, perm), vpC18Startup(node, uint64(n), set, perm)
				if !vpC18Same(a, ref) || !vpC18Same(b, ref) || a.Panic != "" {
					t.Fatalf("n=%d perm=%v common=%v storage=%v reference=%v", n, perm, a, b, ref)
				}
				c.Case(fmt.Sprintf("%d|%v", n, perm), n >= 2, "perm")
				return
			}
			for i := k; i < n; i++ {
				perm[k], perm[i] = perm[i], perm[k]
				rec(k + 1)
				perm[k], perm[i] = perm[i], perm[k]
			}
		}
		rec(0)
	}
	c.Exhaustive("all permutations of equal-timestamp sets of size 1..6")
}
