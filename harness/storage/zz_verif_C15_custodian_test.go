//go:build verif

package storage

import (
	"fmt"
	"testing"

	"github.com/MixinNetwork/mixin/common"
	"github.com/MixinNetwork/mixin/crypto"
	"pgregory.net/rapid"
	kit "verifkit"
)

// The custodian state is one of the effects of a finalized snapshot. This unit
// finalizes custodian updates through WriteSnapshot - same or another account
// than the one in force, kept or changed entries - and demands all or nothing:
// a successful write leaves the finalization record, the output, the snapshot
// and the custodian record of that snapshot's time; a failed one leaves the
// database as it was.
func TestVP_C15_custodian_effects(t *testing.T) {
	c := kit.New(t, "C15", "rapid: on a model-built ledger 1..4 custodian update transactions (XIN output spent into a custodian-update output; extra = custodian account drawn from 3 + 7..11 signed node entries from a pool + approval bytes) are admitted (LockInputs + WriteTransaction) and finalized by WriteSnapshot one after the other at increasing times, the account kept or changed from update to update; oracle: WriteSnapshot succeeds => snapshot readable, finalization record of the transaction names it, its output exists, and ReadCustodian just after the snapshot time reports this transaction with its account and entries; fails/panics => full key/value dump unchanged; non-trivial = an update that keeps the account of the previous one; distinct by (history, position)")
	c.Require("same-account-later", "other-account", "custodian-effect-checked")
	kit.SetChecks(kit.N(60, 2500))
	rapid.Check(t, func(t *rapid.T) {
		l := vpLNewLedger(7, "c15c", 4)
		defer l.Close()
		xin := common.XINAssetId
		for i := 0; i < 5; i++ {
			l.Seq++
			ver := l.BuildDeposit(&l.Assets[0], common.NewInteger(200), vpLOut{Owners: []int{0}, Threshold: 1}, fmt.Sprintf("0xc15c%d", l.Seq), 0, nil)
			if err := l.Admit(ver, l.Tick(10), "deposit"); err != nil {
				t.Fatalf("fund: %v", err)
			}
			l.FinalizeOne(t, []crypto.Hash{ver.PayloadHash()})
		}
		free := l.Unspent(&xin, true, true)
		var funds []*vpLUTXO
		for _, u := range free {
			if u.Type == common.OutputTypeScript && u.threshold() == 1 && len(u.Owners) == 1 && u.Owners[0] == 0 {
				funds = append(funds, u)
			}
		}
		pool := vpC11NodePool()
		n := rapid.IntRange(1, min(4, len(funds))).Draw(t, "updates")
		var prevAccount string
		for k := 0; k < n; k++ {
			account, _ := vpC11Addr("custodian", rapid.IntRange(0, 2).Draw(t, "account"))
			skip := rapid.IntRange(0, vpC11PoolSize-7).Draw(t, "skip")
			drop := map[int]bool{}
			for len(drop) < skip {
				drop[rapid.IntRange(0, vpC11PoolSize-1).Draw(t, "drop")] = true
			}
			extra := append([]byte{}, account.PublicSpendKey[:]...)
			extra = append(extra, account.PublicViewKey[:]...)
			entries := 0
			for i, ne := range pool {
				if !drop[i] {
					extra = append(extra, ne.valid...)
					entries++
				}
			}
			sig := crypto.Blake3Hash([]byte(fmt.Sprintf("c15c-approval-%d-%d", l.Seq, k)))
			extra = append(append(extra, sig[:]...), sig[:]...)
			u := funds[k]
			tx := l.BuildSpend(xin, []*vpLUTXO{u}, []vpLOut{{Type: common.OutputTypeCustodianUpdateNodes, Owners: []int{0}, Threshold: 64, Amount: u.Amount}}, nil, extra)
			ver := l.SignMaps(tx, []*vpLUTXO{u}, [][]int{{0}})
			if err := ver.LockInputs(l.Store, false); err != nil {
				t.Fatalf("lock: %v", err)
			}
			if err := l.Store.WriteTransaction(ver); err != nil {
				t.Fatalf("persist: %v", err)
			}
			ts := l.Tick(uint64(rapid.SampledFrom([]int{1, 1000, 30000000000, 86400000000000}).Draw(t, "dt")))
			snap := l.MakeSnapshot(rapid.IntRange(0, 6).Draw(t, "chain"), []crypto.Hash{ver.PayloadHash()}, ts)
			before := vpLDump(l.Store)
			var werr error
			pan := vpLCatch(func() { werr = l.Store.WriteSnapshot(snap, l.NodeIds) })
			classes := []string{}
			same := prevAccount == account.String()
			if prevAccount != "" {
				if same {
					classes = append(classes, "same-account-later")
				} else {
					classes = append(classes, "other-account")
				}
			}
			if werr != nil || pan != nil {
				if d := vpLDumpDiff(before, vpLDump(l.Store)); len(d) > 0 {
					t.Fatalf("WriteSnapshot of a custodian update failed (%v %v) and changed the database: %v", werr, pan, d[:min(len(d), 6)])
				}
				c.Case(fmt.Sprint("failed", k, snap.Hash), same, append(classes, "write-refused")...)
				continue
			}
			l.Topo = snap.TopologicalOrder + 1
			h := ver.PayloadHash()
			if back, err := l.Store.ReadSnapshot(snap.Hash); err != nil || back == nil {
				t.Fatalf("snapshot %s written but not readable: %v", snap.Hash, err)
			}
			if _, fin, err := l.Store.ReadTransaction(h); err != nil || fin != snap.Hash.String() {
				t.Fatalf("custodian update %s finalized by %s, finalization record says %q (%v)", h, snap.Hash, fin, err)
			}
			if out, err := l.Store.ReadUTXOLock(h, 0); err != nil || out == nil {
				t.Fatalf("output of the finalized custodian update is missing: %v", err)
			}
			r, err := l.Store.ReadCustodian(ts + 1)
			if err != nil || r == nil || r.Transaction != h || r.Timestamp != ts || r.Custodian.String() != account.String() || len(r.Nodes) != entries {
				t.Fatalf("snapshot %s was committed with part of its effects: the custodian state just after its time %d is %v (err %v), expected update %s of account %s with %d entries (previous account kept: %v)", snap.Hash, ts, vpC11RenderCustodian(r, err), err, h, account.String(), entries, same)
			}
			classes = append(classes, "custodian-effect-checked")
			c.Case(fmt.Sprint("ok", k, snap.Hash), same, classes...)
			prevAccount = account.String()
		}
	})
}
