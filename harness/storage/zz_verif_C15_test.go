//go:build verif

package storage

import (
	"bytes"
	"fmt"
	"math/big"
	"testing"

	"github.com/MixinNetwork/mixin/common"
	"github.com/MixinNetwork/mixin/crypto"
	"pgregory.net/rapid"
	kit "verifkit"
)

// vpC15Pending makes n pending (admitted, unfinalized) batchable transactions.
func vpC15Pending(t *rapid.T, l *vpLedger, n int) []crypto.Hash {
	var hs []crypto.Hash
	for i := 0; i < n; i++ {
		var mt *vpLTx
		switch rapid.IntRange(0, 3).Draw(t, "pending_kind") {
		case 0:
			mt = l.StepTransfer(t, false)
		case 1:
			mt = l.StepSubmit(t, false)
		case 2:
			mt = l.StepClaim(t, false)
		}
		if mt == nil {
			mt = l.StepDeposit(t, false)
		}
		if mt != nil {
			hs = append(hs, mt.Hash)
		}
	}
	return hs
}

// vpC15PoisonGhost writes (without validation, through the store API) a transfer
// one of whose output keys is already bound to another transaction.
func vpC15PoisonGhost(t *rapid.T, l *vpLedger) *vpLTx {
	var victim *crypto.Key
	for _, id := range l.Order {
		u := l.UTXOs[id]
		if len(u.Keys) > 0 && l.Txs[u.Hash].Kind != "genesis" {
			victim = u.Keys[rapid.IntRange(0, len(u.Keys)-1).Draw(t, "victim_key")]
			break
		}
	}
	p := l.DrawSpend(t, 2, 3)
	if victim == nil || p == nil {
		return nil
	}
	tx := l.BuildSpend(p.Asset, p.Ins, p.Outs, nil, nil)
	o := tx.Outputs[rapid.IntRange(0, len(tx.Outputs)-1).Draw(t, "poison_out")]
	k := *victim
	o.Keys[rapid.IntRange(0, len(o.Keys)-1).Draw(t, "poison_key")] = &k
	ver := l.SignMaps(tx, p.Ins, p.Signers)
	if err := ver.LockInputs(l.Store, false); err != nil {
		t.Fatalf("locking poison inputs: %v", err)
	}
	if err := l.Store.WriteTransaction(ver); err != nil {
		t.Fatalf("writing poison body: %v", err)
	}
	l.noteAdmitted(ver, "poison-ghost")
	mt := l.Txs[ver.PayloadHash()]
	mt.Poison = true
	return mt
}

// vpC15PoisonAsset admits two validated deposits into a fresh asset id with
// contradicting asset info; the first is finalized, the second can never be.
func vpC15PoisonAsset(t *rapid.T, l *vpLedger) *vpLTx {
	l.Seq++
	id := crypto.Sha256Hash([]byte(fmt.Sprintf("c15-fresh-asset-%d", l.Seq)))
	a1 := vpLAsset{Id: id, Chain: common.EthereumAssetId, Key: fmt.Sprintf("0x%040x", l.Seq), Name: "F1"}
	a2 := vpLAsset{Id: id, Chain: common.EthereumAssetId, Key: fmt.Sprintf("0x%040x", l.Seq+100000), Name: "F2"}
	owners, th := l.vpLDrawOwners(t, 2, "pa")
	d1 := l.BuildDeposit(&a1, common.NewInteger(3), vpLOut{Owners: owners, Threshold: th}, fmt.Sprintf("0xpa%d", l.Seq), 0, nil)
	d2 := l.BuildDeposit(&a2, common.NewInteger(4), vpLOut{Owners: owners, Threshold: th}, fmt.Sprintf("0xpb%d", l.Seq), 0, nil)
	ts := l.Tick(10)
	if err := l.Admit(d1, ts, "deposit"); err != nil {
		t.Fatalf("deposit into fresh asset rejected: %v", err)
	}
	if err := l.Admit(d2, ts, "poison-asset"); err != nil {
		return nil // a stricter validator would refuse here; nothing to poison with
	}
	l.Assets = append(l.Assets, a1)
	mt := l.Txs[d2.PayloadHash()]
	mt.Poison = true
	l.FinalizeOne(t, []crypto.Hash{d1.PayloadHash()})
	// the model never counts the poison deposit as pending supply
	p := l.pendingDeposits(id)
	p.Sub(p, vpLBig(d2.DepositData().Amount))
	return mt
}

// vpC15Effects verifies the listed effects of a successful WriteSnapshot.
func vpC15Effects(t *rapid.T, l *vpLedger, snap *common.SnapshotWithTopologicalOrder, wasFinal map[crypto.Hash]bool, before, after map[string]string) {
	get := func(k []byte) (string, bool) { v, ok := after[string(k)]; return v, ok }
	// snapshot record, topology both ways, work record
	sk := graphSnapshotKey(snap.NodeId, snap.RoundNumber, snap.Hash)
	if v, ok := get(sk); !ok {
		t.Fatalf("SNAPSHOT record missing")
	} else if dec, err := common.UnmarshalVersionedSnapshot([]byte(v)); err != nil || dec.PayloadHash() != snap.Hash {
		t.Fatalf("SNAPSHOT record does not decode to the snapshot: %v", err)
	}
	if v, ok := get(graphTopologyKey(snap.TopologicalOrder)); !ok || v != string(sk) {
		t.Fatalf("TOPOLOGY/%d does not point at the snapshot", snap.TopologicalOrder)
	}
	if v, ok := get(graphSnapTopologyKey(snap.Hash)); !ok || v != string(graphTopologyKey(snap.TopologicalOrder)) {
		t.Fatalf("SNAPTOPO does not point at TOPOLOGY/%d", snap.TopologicalOrder)
	}
	if _, ok := get(graphWorkSnapshotKey(snap.NodeId, snap.RoundNumber, snap.Timestamp)); !ok {
		t.Fatalf("WORKSNAPSHOT record missing")
	}
	rs, err := l.Store.ReadSnapshot(snap.Hash)
	if err != nil || rs == nil || rs.TopologicalOrder != snap.TopologicalOrder {
		t.Fatalf("ReadSnapshot after write: %v %v", rs, err)
	}
	delta := map[crypto.Hash]*big.Int{}
	for _, h := range snap.Transactions {
		mt := l.Txs[h]
		ver := mt.Ver
		if _, ok := get(graphUniqueKey(snap.NodeId, h)); !ok {
			t.Fatalf("UNIQUE(node,%s) missing", h)
		}
		fin, ok := get(graphFinalizationKey(h))
		if !ok {
			t.Fatalf("FINALIZATION/%s missing", h)
		}
		if wasFinal[h] {
			if fin != before[string(graphFinalizationKey(h))] {
				t.Fatalf("transaction %s finalized earlier lost its first finalization record", h)
			}
			for i := range ver.Outputs {
				k := string(graphUtxoKey(h, uint(i)))
				if before[k] != after[k] {
					t.Fatalf("output %s:%d of an already finalized transaction was rewritten", h, i)
				}
			}
			continue
		}
		if fin != string(snap.Hash[:]) {
			t.Fatalf("FINALIZATION/%s is not this snapshot", h)
		}
		_, s, err := l.Store.ReadTransaction(h)
		if err != nil || s != snap.Hash.String() {
			t.Fatalf("ReadTransaction(%s) finalization %q, %v", h, s, err)
		}
		for i, o := range ver.Outputs {
			if o.Type == common.OutputTypeWithdrawalSubmit || o.Type == common.OutputTypeCustodianSlashNodes {
				if _, ok := get(graphUtxoKey(h, uint(i))); ok {
					t.Fatalf("withdrawal submit output %s:%d materialised", h, i)
				}
				continue
			}
			u, err := l.Store.ReadUTXOLock(h, uint(i))
			if err != nil || u == nil {
				t.Fatalf("output %s:%d not materialised: %v", h, i, err)
			}
			if u.Asset != ver.Asset || u.Amount.Cmp(o.Amount) != 0 || u.Type != o.Type || len(u.Keys) != len(o.Keys) || u.LockHash.HasValue() {
				t.Fatalf("output %s:%d materialised wrongly: %+v", h, i, u)
			}
			for _, k := range o.Keys {
				by, err := l.Store.ReadGhostKeyLock(*k)
				if err != nil || by == nil || *by != h {
					t.Fatalf("output key %s of %s not bound to it (%v, %v)", k, h, by, err)
				}
			}
		}
		d := delta[ver.Asset]
		if d == nil {
			d = new(big.Int)
			delta[ver.Asset] = d
		}
		switch ver.TransactionType() {
		case common.TransactionTypeDeposit:
			d.Add(d, vpLBig(ver.DepositData().Amount))
			if _, ok := get(graphAssetInfoKey(ver.Asset)); !ok {
				t.Fatalf("ASSETINFO missing after deposit %s", h)
			}
		case common.TransactionTypeMint:
			d.Add(d, vpLBig(ver.Inputs[0].Mint.Amount))
		case common.TransactionTypeWithdrawalSubmit:
			d.Sub(d, vpLBig(ver.Outputs[0].Amount))
		case common.TransactionTypeWithdrawalClaim:
			claim, _, err := l.Store.ReadWithdrawalClaim(ver.References[0])
			// several claims may name one submission; the record holds one of them
			if err != nil || claim == nil || len(claim.References) != 1 || claim.References[0] != ver.References[0] {
				t.Fatalf("withdrawal claim record missing for %s: %v", h, err)
			}
		}
	}
	total := func(m map[string]string, id crypto.Hash) *big.Int {
		v, ok := m[string(graphAssetTotalKey(id))]
		if !ok {
			return new(big.Int)
		}
		return vpLBig(common.NewIntegerFromString(v))
	}
	seen := map[crypto.Hash]bool{}
	for _, h := range snap.Transactions {
		id := l.Txs[h].Ver.Asset
		if seen[id] {
			continue
		}
		seen[id] = true
		d := delta[id]
		if d == nil {
			d = new(big.Int)
		}
		got := new(big.Int).Sub(total(after, id), total(before, id))
		if got.Cmp(d) != 0 {
			t.Fatalf("asset total of %s moved by %s, new members account for %s", id, got, d)
		}
	}
}

func TestVP_C15_atomic_idempotent(t *testing.T) {
	c := kit.New(t, "C15", "rapid: on a model-built ledger, batches of 1..N pending transactions of mixed types are finalized in one snapshot on a drawn chain; classes: clean batch, batch poisoned with a member that cannot finalize (output key bound to another tx; deposit contradicting the asset binding), batch containing already-finalized members (re-finalization on another chain, also after their outputs were locked/spent), assertion triggers (unknown body, duplicate per-node record, wrong round/references). Oracle: full key/value dump of the snapshot DB: failed/panicked write => dump identical; success => every listed effect present, earlier finalization records/outputs/totals untouched. non-trivial = poisoned batch of >=2 with the failing member not first, or a batch with an already-final member; distinct by snapshot hash")
	c.Require("clean-batch", "poison-ghost", "poison-asset", "refinalize", "refinalize-spent", "assert-unknown", "assert-duplicate", "assert-round", "poison-not-first")
	kit.SetChecks(kit.N(80, 3000))
	maxBatch := 6
	if kit.Thorough() {
		maxBatch = 24
	}
	rapid.Check(t, func(t *rapid.T) {
		l := vpLNewLedger(7, "c15", 6)
		defer l.Close()
		l.Grow(t, rapid.IntRange(6, 14).Draw(t, "grow"))
		rounds := rapid.IntRange(2, 6).Draw(t, "rounds")
		for r := 0; r < rounds; r++ {
			kind := rapid.IntRange(0, 5).Draw(t, "scenario")
			hs := vpC15Pending(t, l, rapid.IntRange(1, maxBatch).Draw(t, "batch"))
			// include other batchable pending leftovers sometimes
			if rapid.Bool().Draw(t, "leftovers") {
				have := map[crypto.Hash]bool{}
				for _, h := range hs {
					have[h] = true
				}
				for _, x := range l.PendingTxs() {
					if x.Ver.IsSnapshotBatchable() && !have[x.Hash] {
						hs = append(hs, x.Hash)
					}
				}
			}
			class := "clean-batch"
			expectFail := false
			chain := rapid.IntRange(0, len(l.NodeIds)-1).Draw(t, "chain")
			wasFinal := map[crypto.Hash]bool{}
			var poison *vpLTx
			switch kind {
			case 1:
				poison = vpC15PoisonGhost(t, l)
				class = "poison-ghost"
			case 2:
				poison = vpC15PoisonAsset(t, l)
				class = "poison-asset"
			case 3: // already-final members, possibly with outputs locked or spent meanwhile
				var cands []*vpLTx
				for _, h := range l.TxOrder {
					mt := l.Txs[h]
					if mt.Finalized && mt.Kind != "genesis" && mt.Ver.IsSnapshotBatchable() && !mt.Nodes[l.NodeIds[chain]] {
						cands = append(cands, mt)
					}
				}
				if len(cands) == 0 {
					continue
				}
				n := rapid.IntRange(1, min(3, len(cands))).Draw(t, "nrefinal")
				class = "refinalize"
				for _, i := range rapid.Permutation(vpLRange(len(cands))).Draw(t, "refinal_pick")[:n] {
					hs = append(hs, cands[i].Hash)
					wasFinal[cands[i].Hash] = true
					for k := range cands[i].Ver.Outputs {
						if u := l.UTXOs[fmt.Sprintf("%s:%d", cands[i].Hash, k)]; u != nil && u.Lock.HasValue() {
							class = "refinalize-spent"
						}
					}
				}
			}
			if (kind == 1 || kind == 2) && poison == nil {
				class = "clean-batch"
			}
			if poison != nil {
				hs = append(hs, poison.Hash)
				expectFail = true
			}
			// drop members already carried by this chain (the kernel never does that; assertion class covers it)
			var members []crypto.Hash
			for _, h := range hs {
				if !l.Txs[h].Nodes[l.NodeIds[chain]] {
					members = append(members, h)
				}
			}
			if len(members) == 0 {
				continue
			}
			ts := l.Tick(uint64(rapid.IntRange(1, 1000000).Draw(t, "dt")))
			snap := l.MakeSnapshot(chain, members, ts)
			var unknown crypto.Hash
			switch kind {
			case 4: // assertion triggers
				switch rapid.IntRange(0, 2).Draw(t, "assert_kind") {
				case 0:
					unknown = crypto.Blake3Hash([]byte(fmt.Sprint("unknown", l.Seq, r)))
					snap.Transactions = append(snap.Transactions, unknown)
					class = "assert-unknown"
				case 1:
					var dup *vpLTx
					for _, h := range l.TxOrder {
						if mt := l.Txs[h]; mt.Finalized && mt.Kind != "genesis" && mt.Nodes[l.NodeIds[chain]] && mt.Ver.IsSnapshotBatchable() {
							dup = mt
						}
					}
					if dup == nil {
						continue
					}
					snap.Transactions = append(snap.Transactions, dup.Hash)
					class = "assert-duplicate"
				case 2:
					if rapid.Bool().Draw(t, "assert_round") {
						snap.RoundNumber += uint64(rapid.IntRange(1, 3).Draw(t, "round_off"))
					} else {
						snap.References = &common.RoundLink{Self: snap.References.Self, External: crypto.Blake3Hash([]byte("other"))}
					}
					class = "assert-round"
				}
				snap.Hash = snap.PayloadHash()
				expectFail = true
			}
			before := vpLDump(l.Store)
			var err error
			v0 := l.Store.snapshotsDB.MaxVersion()
			pan := vpLCatch(func() { err = l.Store.WriteSnapshot(snap, l.NodeIds) })
			commits := l.Store.snapshotsDB.MaxVersion() - v0
			after := vpLDump(l.Store)
			failed := err != nil || pan != nil
			// one finalization = one durable write: Badger hands out one commit
			// timestamp per committed update, so the call may consume exactly one
			// (none when it fails); several commits would let a crash between
			// them expose a partly written snapshot
			if want := uint64(1); (failed && commits != 0) || (!failed && commits != want) {
				t.Fatalf("%s: WriteSnapshot (failed=%v) of %d members was committed in %d separate database writes", class, failed, len(snap.Transactions), commits)
			}
			if failed {
				if d := vpLDumpDiff(before, after); len(d) > 0 {
					t.Fatalf("%s: WriteSnapshot failed (%v %v) but changed the database: %v", class, err, pan, d[:min(len(d), 8)])
				}
				if !expectFail {
					t.Fatalf("%s: finalizing admitted transactions failed: %v %v", class, err, pan)
				}
			} else {
				if expectFail {
					t.Fatalf("%s: snapshot with a member that cannot finalize was written", class)
				}
				// mirror into the model, then check the listed effects
				l.Topo = snap.TopologicalOrder + 1
				l.Snapshots = append(l.Snapshots, snap)
				for _, h := range snap.Transactions {
					mt := l.Txs[h]
					if mt.Nodes == nil {
						mt.Nodes = map[crypto.Hash]bool{}
					}
					mt.Nodes[snap.NodeId] = true
					l.applyFinal(h, snap.Hash)
				}
				vpC15Effects(t, l, snap, wasFinal, before, after)
				vpC17Check(t, l, class)
			}
			cl := []string{class}
			nt := len(wasFinal) > 0
			if poison != nil && len(snap.Transactions) >= 2 && !bytes.Equal(snap.Transactions[0][:], poison.Hash[:]) {
				cl = append(cl, "poison-not-first")
				nt = true
			}
			c.Case(snap.Hash.String(), nt, cl...)
			c.Sample(map[string]any{"class": class, "members": len(snap.Transactions), "already_final": len(wasFinal), "failed": failed, "error": fmt.Sprint(err, pan)})
		}
	})
}
