//go:build verif

package storage

// Shared model-based ledger builder (G-ledger, DESIGN.md §3): a real BadgerStore
// loaded with an in-memory genesis, plus an in-memory reference ledger that
// tracks every output, lock and finalization made through the public API the
// kernel uses (Validate -> LockInputs -> WriteTransaction -> WriteSnapshot).

import (
	"bytes"
	"encoding/binary"
	"fmt"
	"math/big"
	"sort"
	"strings"
	"sync"

	"github.com/MixinNetwork/mixin/common"
	"github.com/MixinNetwork/mixin/config"
	"github.com/MixinNetwork/mixin/crypto"
	"github.com/dgraph-io/badger/v4"
	"github.com/dgraph-io/badger/v4/options"
	"pgregory.net/rapid"
)

const vpLEpoch = int64(1700000000)

func vpLCatch(f func()) (p any) {
	defer func() {
		if r := recover(); r != nil {
			p = fmt.Sprint(r)
			if p == "" {
				p = "panic"
			}
		}
	}()
	f()
	return nil
}

func vpLSeed(parts ...any) []byte {
	h := crypto.Blake3Hash([]byte(fmt.Sprint(parts...)))
	h2 := crypto.Blake3Hash(h[:])
	return append(h[:], h2[:]...)
}

func vpLOpenMem() *BadgerStore {
	open := func() *badger.DB {
		opts := badger.DefaultOptions("").WithInMemory(true)
		opts = opts.WithCompression(options.None).WithBlockCacheSize(0).WithIndexCacheSize(0)
		opts = opts.WithMetricsEnabled(false).WithLoggingLevel(badger.ERROR)
		opts = opts.WithNumMemtables(2).WithMemTableSize(8 << 20).WithNumCompactors(2)
		db, err := badger.Open(opts)
		if err != nil {
			panic(err)
		}
		return db
	}
	custom := &config.Custom{}
	custom.Node.CacheTTL = 7200
	return &BadgerStore{custom: custom, snapshotsDB: open(), cacheDB: open(), mutex: new(sync.RWMutex)}
}

// vpLDump returns every key/value of the snapshot database.
func vpLDump(s *BadgerStore) map[string]string {
	out := map[string]string{}
	txn := s.snapshotsDB.NewTransaction(false)
	defer txn.Discard()
	it := txn.NewIterator(badger.DefaultIteratorOptions)
	defer it.Close()
	for it.Rewind(); it.Valid(); it.Next() {
		v, err := it.Item().ValueCopy(nil)
		if err != nil {
			panic(err)
		}
		out[string(it.Item().KeyCopy(nil))] = string(v)
	}
	return out
}

func vpLDumpDiff(a, b map[string]string) []string {
	var d []string
	for k, v := range a {
		w, ok := b[k]
		if !ok {
			d = append(d, fmt.Sprintf("removed %q", vpLKeyName(k)))
		} else if v != w {
			d = append(d, fmt.Sprintf("changed %q", vpLKeyName(k)))
		}
	}
	for k := range b {
		if _, ok := a[k]; !ok {
			d = append(d, fmt.Sprintf("added %q", vpLKeyName(k)))
		}
	}
	sort.Strings(d)
	return d
}

func vpLKeyName(k string) string {
	i := 0
	for i < len(k) && k[i] >= 'A' && k[i] <= 'Z' {
		i++
	}
	return fmt.Sprintf("%s/%x", k[:i], k[i:])
}

type vpLAsset struct {
	Id    crypto.Hash
	Chain crypto.Hash
	Key   string
	Name  string
}

type vpLUTXO struct {
	Hash      crypto.Hash
	Index     uint
	Asset     crypto.Hash
	Amount    common.Integer
	Type      uint8
	Keys      []*crypto.Key
	Mask      crypto.Key
	Script    common.Script
	Owners    []int // account index per key, -1 when nobody holds the key
	Lock      crypto.Hash
	SpentBy   crypto.Hash // finalized spender
	Spendable bool        // script-like output with known owners
}

func (u *vpLUTXO) id() string { return fmt.Sprintf("%s:%d", u.Hash, u.Index) }

func (u *vpLUTXO) threshold() int {
	if len(u.Script) == 3 {
		return int(u.Script[2])
	}
	return 0
}

type vpLTx struct {
	Ver       *common.VersionedTransaction
	Hash      crypto.Hash
	Kind      string
	Inputs    []string
	Finalized bool
	Snapshot  crypto.Hash
	Pending   bool
	Nodes     map[crypto.Hash]bool // chains that already carry this transaction
	Poison    bool                 // written on purpose although it can never finalize
}

type vpLedger struct {
	Drained []crypto.Hash // assets whose whole supply has been withdrawn (known to the store, total 0)
	Store      *BadgerStore
	Gns        *common.Genesis
	NetId      crypto.Hash
	Epoch      uint64
	NodeIds    []crypto.Hash
	Signers    []common.Address
	Payees     []common.Address
	Custodian  common.Address
	Accts      []common.Address
	Clock      uint64
	Topo       uint64
	UTXOs      map[string]*vpLUTXO
	Order      []string
	Txs        map[crypto.Hash]*vpLTx
	TxOrder    []crypto.Hash
	Totals     map[crypto.Hash]*big.Int
	Pending    map[crypto.Hash]*big.Int // pending (admitted, not final) deposit amounts per asset
	Assets     []vpLAsset
	MintBatch  uint64
	Seq        int
	GenesisTxs []*common.VersionedTransaction
	Snapshots  []*common.SnapshotWithTopologicalOrder
	Submits    []crypto.Hash
	Pledging   *vpLPledge
	Accepted   []*vpLPledge
}

func vpLAddr(seed []byte) common.Address {
	return common.NewAddressFromSeedInternalVanish(seed)
}

func vpLNodeAddr(seed []byte) common.Address {
	a := common.NewAddressFromSeedInternalVanish(seed)
	a.PrivateViewKey = a.PublicSpendKey.DeterministicHashDerive()
	a.PublicViewKey = a.PrivateViewKey.Public()
	return a
}

// vpLNewLedger builds an n-node genesis (keys derived from tag) and loads it.
func vpLNewLedger(n int, tag string, accounts int) *vpLedger {
	l := &vpLedger{UTXOs: map[string]*vpLUTXO{}, Txs: map[crypto.Hash]*vpLTx{}, Totals: map[crypto.Hash]*big.Int{}, Pending: map[crypto.Hash]*big.Int{}}
	gns := &common.Genesis{Epoch: vpLEpoch}
	for i := 0; i < n; i++ {
		signer := vpLNodeAddr(vpLSeed(tag, "signer", i))
		payee := vpLNodeAddr(vpLSeed(tag, "payee", i))
		cust := vpLAddr(vpLSeed(tag, "custodian", i))
		l.Signers = append(l.Signers, signer)
		l.Payees = append(l.Payees, payee)
		s, p, c := signer, payee, cust
		gns.Nodes = append(gns.Nodes, &struct {
			Signer    *common.Address `json:"signer"`
			Payee     *common.Address `json:"payee"`
			Custodian *common.Address `json:"custodian"`
			Balance   common.Integer  `json:"balance"`
		}{Signer: &s, Payee: &p, Custodian: &c, Balance: common.KernelNodePledgeAmount})
	}
	l.Custodian = vpLAddr(vpLSeed(tag, "root-custodian"))
	cc := l.Custodian
	gns.Custodian = &cc
	l.Gns = gns
	l.NetId = gns.NetworkId()
	l.Epoch = gns.EpochTimestamp()
	for i := 0; i < accounts; i++ {
		l.Accts = append(l.Accts, vpLAddr(vpLSeed(tag, "acct", i)))
	}
	rounds, snaps, txs, err := gns.BuildSnapshots()
	if err != nil {
		panic(err)
	}
	l.Store = vpLOpenMem()
	if err := l.Store.LoadGenesis(rounds, snaps, txs); err != nil {
		panic(err)
	}
	l.GenesisTxs = txs
	l.Snapshots = append(l.Snapshots, snaps...)
	for _, s := range l.Signers {
		l.NodeIds = append(l.NodeIds, s.Hash().ForNetwork(l.NetId))
	}
	l.Topo = uint64(len(snaps))
	l.Clock = l.Epoch + uint64(1e9)
	total := new(big.Int)
	for _, ver := range txs {
		h := ver.PayloadHash()
		l.Txs[h] = &vpLTx{Ver: ver, Hash: h, Kind: "genesis", Finalized: true}
		l.TxOrder = append(l.TxOrder, h)
		for i, o := range ver.Outputs {
			u := &vpLUTXO{Hash: h, Index: uint(i), Asset: ver.Asset, Amount: o.Amount, Type: o.Type, Keys: o.Keys, Mask: o.Mask, Script: o.Script}
			for range o.Keys {
				u.Owners = append(u.Owners, -1)
			}
			l.UTXOs[u.id()] = u
			l.Order = append(l.Order, u.id())
			total.Add(total, vpLBig(o.Amount))
		}
	}
	l.Totals[common.XINAssetId] = total
	l.Assets = []vpLAsset{
		{Id: common.XINAssetId, Chain: common.XINAsset.Chain, Key: common.XINAsset.AssetKey, Name: "XIN"},
		{Id: common.BitcoinAssetId, Chain: common.BitcoinAssetId, Key: "c6d0c728-2624-429b-8e0d-d9d19b6592fa", Name: "BTC"},
		{Id: crypto.Sha256Hash([]byte(tag + "asset-u")), Chain: common.EthereumAssetId, Key: "0x" + fmt.Sprintf("%040x", 7), Name: "UNL"},
	}
	return l
}

func (l *vpLedger) Close() {
	_ = l.Store.Close()
}

func (l *vpLedger) asset(id crypto.Hash) *vpLAsset {
	for i := range l.Assets {
		if l.Assets[i].Id == id {
			return &l.Assets[i]
		}
	}
	return nil
}

func (l *vpLedger) total(id crypto.Hash) *big.Int {
	if l.Totals[id] == nil {
		l.Totals[id] = new(big.Int)
	}
	return l.Totals[id]
}

func (l *vpLedger) pendingDeposits(id crypto.Hash) *big.Int {
	if l.Pending[id] == nil {
		l.Pending[id] = new(big.Int)
	}
	return l.Pending[id]
}

// Tick advances the snapshot clock by d nanoseconds and returns it.
func (l *vpLedger) Tick(d uint64) uint64 {
	l.Clock += d
	return l.Clock
}

type vpLOut struct {
	Type      uint8
	Owners    []int // account indexes
	Threshold uint8
	Amount    common.Integer
	Withdraw  *common.WithdrawalData
}

func (l *vpLedger) addOutputs(tx *common.Transaction, outs []vpLOut) {
	for _, o := range outs {
		l.Seq++
		switch o.Type {
		case common.OutputTypeWithdrawalSubmit:
			tx.Outputs = append(tx.Outputs, &common.Output{Type: o.Type, Amount: o.Amount, Withdrawal: o.Withdraw})
		case common.OutputTypeWithdrawalClaim, common.OutputTypeNodePledge, common.OutputTypeNodeAccept, common.OutputTypeNodeCancel:
			tx.Outputs = append(tx.Outputs, &common.Output{Type: o.Type, Amount: o.Amount})
		default:
			var accts []*common.Address
			for _, i := range o.Owners {
				accts = append(accts, &l.Accts[i])
			}
			tx.AddOutputWithType(o.Type, accts, common.NewThresholdScript(o.Threshold), o.Amount, vpLSeed("out", l.Seq, len(tx.Outputs)))
		}
	}
}

// BuildDeposit makes a custodian-signed deposit of amount into one script output.
func (l *vpLedger) BuildDeposit(a *vpLAsset, amount common.Integer, out vpLOut, txid string, index uint64, signer *crypto.Key) *common.VersionedTransaction {
	tx := common.NewTransactionV5(a.Id)
	tx.AddDepositInput(&common.DepositData{Chain: a.Chain, AssetKey: a.Key, Transaction: txid, Index: index, Amount: amount})
	out.Amount = amount
	out.Type = common.OutputTypeScript
	l.addOutputs(tx, []vpLOut{out})
	signed := &common.SignedTransaction{Transaction: *tx}
	if signer == nil {
		signer = &l.Custodian.PrivateSpendKey
	}
	if err := signed.SignRaw(*signer); err != nil {
		panic(err)
	}
	return signed.AsVersioned()
}

// BuildSpend makes an unsigned transaction spending ins into outs.
func (l *vpLedger) BuildSpend(asset crypto.Hash, ins []*vpLUTXO, outs []vpLOut, refs []crypto.Hash, extra []byte) *common.Transaction {
	tx := common.NewTransactionV5(asset)
	for _, u := range ins {
		tx.AddInput(u.Hash, u.Index)
	}
	l.addOutputs(tx, outs)
	tx.References = refs
	tx.Extra = extra
	return tx
}

// ownerKey derives the private one-time key of key position pos of u.
func (l *vpLedger) ownerKey(u *vpLUTXO, pos int) *crypto.Key {
	a := l.Accts[u.Owners[pos]]
	return crypto.DeriveGhostPrivateKey(&u.Mask, &a.PrivateViewKey, &a.PrivateSpendKey, uint64(u.Index))
}

// SignMaps signs tx with per-input signature maps: signers[i] lists key
// positions of input i.
func (l *vpLedger) SignMaps(tx *common.Transaction, ins []*vpLUTXO, signers [][]int) *common.VersionedTransaction {
	signed := &common.SignedTransaction{Transaction: *tx}
	msg := tx.AsVersioned().PayloadHash()
	for i, u := range ins {
		m := map[uint16]*crypto.Signature{}
		for _, pos := range signers[i] {
			sig := l.ownerKey(u, pos).Sign(msg)
			m[uint16(pos)] = &sig
		}
		signed.SignaturesMap = append(signed.SignaturesMap, m)
	}
	return signed.AsVersioned()
}

// SignAggregate signs tx with one aggregate signature; signers[i] must be
// sorted key positions of input i. Returns nil when the signer set is empty.
func (l *vpLedger) SignAggregate(tx *common.Transaction, ins []*vpLUTXO, signers [][]int) (*common.VersionedTransaction, error) {
	signed := &common.SignedTransaction{Transaction: *tx}
	msg := tx.AsVersioned().PayloadHash()
	var idx []int
	var pubs, privs []*crypto.Key
	for i, u := range ins {
		for _, pos := range signers[i] {
			idx = append(idx, len(pubs)+pos)
			privs = append(privs, l.ownerKey(u, pos))
		}
		pubs = append(pubs, u.Keys...)
	}
	sig, err := crypto.AggregateSign(privs, pubs, idx, vpLSeed("agg", msg.String()), msg)
	if err != nil {
		return nil, err
	}
	as := &common.AggregatedSignature{Signers: idx}
	copy(as.Signature[:], sig[:])
	signed.AggregatedSignature = as
	return signed.AsVersioned(), nil
}

// Admit runs the kernel's admission sequence: Validate, lock inputs, persist.
// It returns the validation error, or panics if locking/persisting a validated
// transaction fails (callers that expect that recover it).
func (l *vpLedger) Admit(ver *common.VersionedTransaction, snapTime uint64, kind string) error {
	err := ver.Validate(l.Store, snapTime, false)
	if err != nil {
		return err
	}
	if err := ver.LockInputs(l.Store, false); err != nil {
		return fmt.Errorf("lock: %w", err)
	}
	if err := l.Store.WriteTransaction(ver); err != nil {
		return fmt.Errorf("persist: %w", err)
	}
	l.noteAdmitted(ver, kind)
	return nil
}

func (l *vpLedger) noteAdmitted(ver *common.VersionedTransaction, kind string) {
	h := ver.PayloadHash()
	if _, ok := l.Txs[h]; ok {
		return
	}
	mt := &vpLTx{Ver: ver, Hash: h, Kind: kind, Pending: true}
	for _, in := range ver.Inputs {
		if in.Deposit != nil || in.Mint != nil {
			continue
		}
		id := fmt.Sprintf("%s:%d", in.Hash, in.Index)
		mt.Inputs = append(mt.Inputs, id)
		if u := l.UTXOs[id]; u != nil {
			u.Lock = h
		}
	}
	if d := ver.DepositData(); d != nil {
		p := l.pendingDeposits(ver.Asset)
		p.Add(p, vpLBig(d.Amount))
	}
	l.Txs[h] = mt
	l.TxOrder = append(l.TxOrder, h)
}

// PendingTxs lists admitted, not yet finalized transactions in admission order.
func (l *vpLedger) PendingTxs() []*vpLTx {
	var out []*vpLTx
	for _, h := range l.TxOrder {
		if t := l.Txs[h]; t.Pending && !t.Finalized && !t.Poison {
			out = append(out, t)
		}
	}
	return out
}

// MakeSnapshot builds a snapshot for chain on its current head round.
func (l *vpLedger) MakeSnapshot(chain int, txs []crypto.Hash, ts uint64) *common.SnapshotWithTopologicalOrder {
	node := l.NodeIds[chain]
	cache, err := l.Store.ReadRound(node)
	if err != nil || cache == nil {
		panic(fmt.Sprint("no head round ", err))
	}
	s := &common.Snapshot{Version: common.SnapshotVersionCommonEncoding, NodeId: node, RoundNumber: cache.Number, References: cache.References, Timestamp: ts}
	sorted := append([]crypto.Hash{}, txs...)
	sort.Slice(sorted, func(i, j int) bool { return bytes.Compare(sorted[i][:], sorted[j][:]) < 0 })
	for _, h := range sorted {
		s.AddTransaction(h)
	}
	s.Signature = &crypto.CosiSignature{Mask: (1 << uint(len(l.NodeIds))) - 1}
	s.Hash = s.PayloadHash()
	return &common.SnapshotWithTopologicalOrder{Snapshot: s, TopologicalOrder: l.Topo}
}

// Finalize writes the snapshot and applies its effects to the model.
func (l *vpLedger) Finalize(snap *common.SnapshotWithTopologicalOrder) error {
	err := l.Store.WriteSnapshot(snap, l.NodeIds)
	if err != nil {
		return err
	}
	l.Topo = snap.TopologicalOrder + 1
	l.Snapshots = append(l.Snapshots, snap)
	for _, h := range snap.Transactions {
		if mt := l.Txs[h]; mt != nil {
			if mt.Nodes == nil {
				mt.Nodes = map[crypto.Hash]bool{}
			}
			mt.Nodes[snap.NodeId] = true
		}
		l.applyFinal(h, snap.Hash)
	}
	return nil
}

// StepRefinalize writes a snapshot on another chain that contains an already
// finalized transaction again (peers may finalize the same transaction in
// several chains); the model expects no further effect. Optionally batches it
// with pending batchable transactions.
func (l *vpLedger) StepRefinalize(t *rapid.T) *vpLTx {
	var cands []*vpLTx
	for _, h := range l.TxOrder {
		mt := l.Txs[h]
		if mt.Finalized && mt.Kind != "genesis" && len(mt.Nodes) < len(l.NodeIds) {
			cands = append(cands, mt)
		}
	}
	if len(cands) == 0 {
		return nil
	}
	mt := cands[rapid.IntRange(0, len(cands)-1).Draw(t, "refin_tx")]
	var chains []int
	for i, id := range l.NodeIds {
		if !mt.Nodes[id] {
			chains = append(chains, i)
		}
	}
	chain := chains[rapid.IntRange(0, len(chains)-1).Draw(t, "refin_chain")]
	hs := []crypto.Hash{mt.Hash}
	if mt.Ver.IsSnapshotBatchable() && rapid.Bool().Draw(t, "refin_batch") {
		for _, x := range l.PendingTxs() {
			if x.Ver.IsSnapshotBatchable() {
				hs = append(hs, x.Hash)
			}
		}
	}
	ts := l.Tick(uint64(rapid.IntRange(1, 1000000).Draw(t, "dt")))
	snap := l.MakeSnapshot(chain, hs, ts)
	if err := l.Finalize(snap); err != nil {
		t.Fatalf("re-finalizing %s on another chain failed: %v", mt.Hash, err)
	}
	return mt
}

func (l *vpLedger) applyFinal(h, snap crypto.Hash) {
	mt := l.Txs[h]
	if mt == nil || mt.Finalized {
		return
	}
	mt.Finalized = true
	mt.Snapshot = snap
	ver := mt.Ver
	for _, id := range mt.Inputs {
		if u := l.UTXOs[id]; u != nil {
			u.SpentBy = h
			u.Lock = h
		}
	}
	switch ver.TransactionType() {
	case common.TransactionTypeDeposit:
		d := ver.DepositData()
		t := l.total(ver.Asset)
		t.Add(t, vpLBig(d.Amount))
		p := l.pendingDeposits(ver.Asset)
		p.Sub(p, vpLBig(d.Amount))
	case common.TransactionTypeMint:
		t := l.total(ver.Asset)
		t.Add(t, vpLBig(ver.Inputs[0].Mint.Amount))
		l.MintBatch = ver.Inputs[0].Mint.Batch
	case common.TransactionTypeWithdrawalSubmit:
		t := l.total(ver.Asset)
		for _, o := range ver.Outputs {
			if o.Type == common.OutputTypeWithdrawalSubmit {
				t.Sub(t, vpLBig(o.Amount))
			}
		}
		l.Submits = append(l.Submits, h)
	}
	for i, o := range ver.Outputs {
		if o.Type == common.OutputTypeWithdrawalSubmit || o.Type == common.OutputTypeCustodianSlashNodes {
			continue
		}
		u := &vpLUTXO{Hash: h, Index: uint(i), Asset: ver.Asset, Amount: o.Amount, Type: o.Type, Keys: o.Keys, Mask: o.Mask, Script: o.Script}
		u.Owners = l.findOwners(u)
		u.Spendable = (o.Type == common.OutputTypeScript || o.Type == common.OutputTypeNodeRemove) && len(o.Keys) > 0
		for _, w := range u.Owners {
			if w < 0 {
				u.Spendable = false
			}
		}
		l.UTXOs[u.id()] = u
		l.Order = append(l.Order, u.id())
	}
}

// findOwners recovers which account holds each key of an output.
func (l *vpLedger) findOwners(u *vpLUTXO) []int {
	owners := make([]int, len(u.Keys))
	for k := range u.Keys {
		owners[k] = -1
		for ai := range l.Accts {
			a := &l.Accts[ai]
			pub := crypto.ViewGhostOutputKey(u.Keys[k], &a.PrivateViewKey, &u.Mask, uint64(u.Index))
			if *pub == a.PublicSpendKey {
				owners[k] = ai
				break
			}
		}
	}
	return owners
}

// Unspent lists outputs not consumed by a finalized transaction, optionally
// only those not locked by a pending one, in creation order.
func (l *vpLedger) Unspent(asset *crypto.Hash, onlyFree, onlySpendable bool) []*vpLUTXO {
	var out []*vpLUTXO
	for _, id := range l.Order {
		u := l.UTXOs[id]
		if u.SpentBy.HasValue() {
			continue
		}
		if asset != nil && u.Asset != *asset {
			continue
		}
		if onlyFree && u.Lock.HasValue() {
			continue
		}
		if onlySpendable && !u.Spendable {
			continue
		}
		out = append(out, u)
	}
	return out
}

// vpLBig converts an amount to its integer number of 1e-8 units.
func vpLBig(i common.Integer) *big.Int {
	s := strings.Replace(i.String(), ".", "", 1)
	b, ok := new(big.Int).SetString(s, 10)
	if !ok {
		panic(s)
	}
	return b
}

// vpLInt converts units to an amount.
func vpLInt(b *big.Int) common.Integer {
	if b.Sign() < 0 {
		panic(b.String())
	}
	q, r := new(big.Int).QuoRem(b, big.NewInt(100000000), new(big.Int))
	return common.NewIntegerFromString(fmt.Sprintf("%s.%08d", q.String(), r.Int64()))
}

func vpLU64(b []byte) uint64 { return binary.BigEndian.Uint64(b) }

// ---------------------------------------------------------------------------
// rapid-driven random ledger growth, shared by the ledger properties.

// vpLDrawOwners draws 1..maxKeys distinct account indexes and a threshold.
func (l *vpLedger) vpLDrawOwners(t *rapid.T, maxKeys int, label string) ([]int, uint8) {
	n := rapid.IntRange(1, maxKeys).Draw(t, label+"_nkeys")
	if n > len(l.Accts) {
		n = len(l.Accts)
	}
	perm := rapid.Permutation(vpLRange(len(l.Accts))).Draw(t, label+"_owners")[:n]
	th := rapid.IntRange(1, n).Draw(t, label+"_threshold")
	return perm, uint8(th)
}

func vpLRange(n int) []int {
	r := make([]int, n)
	for i := range r {
		r[i] = i
	}
	return r
}

// vpLSplit splits total units into n positive parts.
func vpLSplit(t *rapid.T, total *big.Int, n int, label string) []*big.Int {
	parts := make([]*big.Int, 0, n)
	rest := new(big.Int).Set(total)
	for i := 0; i < n-1; i++ {
		// leave at least one unit for each remaining part
		max := new(big.Int).Sub(rest, big.NewInt(int64(n-1-i)))
		if max.Sign() <= 0 {
			break
		}
		var p *big.Int
		if max.IsInt64() {
			p = big.NewInt(rapid.Int64Range(1, max.Int64()).Draw(t, label))
		} else {
			f := rapid.Int64Range(1, 1<<30).Draw(t, label)
			p = new(big.Int).Mul(max, big.NewInt(f))
			p.Rsh(p, 30)
			if p.Sign() <= 0 {
				p.SetInt64(1)
			}
		}
		parts = append(parts, p)
		rest.Sub(rest, p)
	}
	parts = append(parts, rest)
	return parts
}

// StepDeposit admits (and optionally finalizes) a valid deposit, keeping the
// asset's finalized+pending deposits below capacity (known finding C16-F4 is
// judged by C16, not here). Returns the transaction or nil when no room.
func (l *vpLedger) StepDeposit(t *rapid.T, finalize bool) *vpLTx {
	a := &l.Assets[rapid.IntRange(0, len(l.Assets)-1).Draw(t, "dep_asset")]
	capacity := vpLBig(common.GetAssetCapacity(a.Id))
	room := new(big.Int).Sub(capacity, l.total(a.Id))
	room.Sub(room, l.pendingDeposits(a.Id))
	room.Sub(room, big.NewInt(1))
	if room.Sign() <= 0 {
		return nil
	}
	max := new(big.Int).Set(room)
	limit := new(big.Int).Mul(big.NewInt(100000000), big.NewInt(20000))
	if a.Id == common.BitcoinAssetId {
		limit = new(big.Int).Mul(big.NewInt(100000000), big.NewInt(400))
	}
	if max.Cmp(limit) > 0 {
		max = limit
	}
	amt := big.NewInt(rapid.Int64Range(1, max.Int64()).Draw(t, "dep_amount"))
	owners, th := l.vpLDrawOwners(t, 4, "dep")
	l.Seq++
	ver := l.BuildDeposit(a, vpLInt(amt), vpLOut{Owners: owners, Threshold: th}, fmt.Sprintf("0xdep%d", l.Seq), uint64(rapid.IntRange(0, 3).Draw(t, "dep_index")), nil)
	ts := l.Tick(uint64(rapid.IntRange(1, 1000000).Draw(t, "dt")))
	if err := l.Admit(ver, ts, "deposit"); err != nil {
		t.Fatalf("model-valid deposit rejected: %v", err)
	}
	mt := l.Txs[ver.PayloadHash()]
	if finalize {
		l.FinalizeOne(t, []crypto.Hash{mt.Hash})
	}
	return mt
}

// FinalizeOne puts txs into one snapshot on a drawn chain and writes it.
func (l *vpLedger) FinalizeOne(t *rapid.T, txs []crypto.Hash) *common.SnapshotWithTopologicalOrder {
	chain := rapid.IntRange(0, len(l.NodeIds)-1).Draw(t, "chain")
	ts := l.Tick(uint64(rapid.IntRange(1, 1000000).Draw(t, "dt")))
	snap := l.MakeSnapshot(chain, txs, ts)
	if err := l.Finalize(snap); err != nil {
		t.Fatalf("finalizing validated transactions failed: %v", err)
	}
	return snap
}

// vpLSpendPlan is a drawn, model-valid script spend.
type vpLSpendPlan struct {
	Asset   crypto.Hash
	Ins     []*vpLUTXO
	Outs    []vpLOut
	Signers [][]int
	Sum     *big.Int
}

// DrawSpend picks 1..maxIn free spendable outputs of one asset and splits
// their sum over 1..maxOut new script outputs; signer sets meet each threshold.
// StepWide finalizes one transfer that splits a free spendable output into
// 70..256 outputs (unit amounts, the remainder on the last one), so that the
// ledger holds outputs at indexes far above the usual 0..3. Returns the number
// of outputs made (0 when no output is rich enough).
func (l *vpLedger) StepWide(t *rapid.T) int {
	w := rapid.OneOf(rapid.IntRange(70, 256), rapid.SampledFrom([]int{65, 66, 129, 255, 256})).Draw(t, "wide_outputs")
	for _, u := range l.Unspent(nil, true, true) {
		if u.Type != common.OutputTypeScript || vpLBig(u.Amount).Cmp(big.NewInt(int64(w))) < 0 {
			continue
		}
		unit := vpLInt(big.NewInt(1))
		var outs []vpLOut
		for i := 0; i < w-1; i++ {
			outs = append(outs, vpLOut{Type: common.OutputTypeScript, Owners: []int{i % 2}, Threshold: 1, Amount: unit})
		}
		rest := new(big.Int).Sub(vpLBig(u.Amount), big.NewInt(int64(w-1)))
		outs = append(outs, vpLOut{Type: common.OutputTypeScript, Owners: []int{0}, Threshold: 1, Amount: vpLInt(rest)})
		tx := l.BuildSpend(u.Asset, []*vpLUTXO{u}, outs, nil, nil)
		ver := l.SignMaps(tx, []*vpLUTXO{u}, [][]int{l.DrawSigners(t, u, true)})
		if err := l.Admit(ver, l.Tick(10), "transfer"); err != nil {
			t.Fatalf("wide split of %s: %v", u.id(), err)
		}
		l.FinalizeOne(t, []crypto.Hash{ver.PayloadHash()})
		return w
	}
	return 0
}

func (l *vpLedger) DrawSpend(t *rapid.T, maxIn, maxOut int) *vpLSpendPlan {
	return l.DrawSpendOf(t, maxIn, maxOut, false)
}

// DrawSpendOf is DrawSpend restricted to plain script outputs when scriptOnly.
func (l *vpLedger) DrawSpendOf(t *rapid.T, maxIn, maxOut int, scriptOnly bool) *vpLSpendPlan {
	var assets []crypto.Hash
	seen := map[crypto.Hash]bool{}
	usable := func(u *vpLUTXO) bool { return !scriptOnly || u.Type == common.OutputTypeScript }
	for _, u := range l.Unspent(nil, true, true) {
		if usable(u) && !seen[u.Asset] {
			seen[u.Asset] = true
			assets = append(assets, u.Asset)
		}
	}
	if len(assets) == 0 {
		return nil
	}
	asset := assets[rapid.IntRange(0, len(assets)-1).Draw(t, "spend_asset")]
	var free []*vpLUTXO
	for _, u := range l.Unspent(&asset, true, true) {
		if usable(u) {
			free = append(free, u)
		}
	}
	n := rapid.IntRange(1, maxIn).Draw(t, "spend_nin")
	if n > len(free) {
		n = len(free)
	}
	idx := rapid.Permutation(vpLRange(len(free))).Draw(t, "spend_pick")[:n]
	p := &vpLSpendPlan{Asset: asset, Sum: new(big.Int)}
	for _, i := range idx {
		u := free[i]
		p.Ins = append(p.Ins, u)
		p.Sum.Add(p.Sum, vpLBig(u.Amount))
		p.Signers = append(p.Signers, l.DrawSigners(t, u, true))
	}
	nout := rapid.IntRange(1, maxOut).Draw(t, "spend_nout")
	if p.Sum.IsInt64() && int64(nout) > p.Sum.Int64() {
		nout = int(p.Sum.Int64())
	}
	for _, part := range vpLSplit(t, p.Sum, nout, "spend_part") {
		owners, th := l.vpLDrawOwners(t, 4, "spend_out")
		p.Outs = append(p.Outs, vpLOut{Type: common.OutputTypeScript, Owners: owners, Threshold: th, Amount: vpLInt(part)})
	}
	return p
}

// DrawSigners draws sorted key positions of u: at least max(1,threshold) when
// enough is true.
func (l *vpLedger) DrawSigners(t *rapid.T, u *vpLUTXO, enough bool) []int {
	n := len(u.Keys)
	min := u.threshold()
	if min < 1 {
		min = 1
	}
	if min > n {
		min = n
	}
	k := min
	if enough {
		k = rapid.IntRange(min, n).Draw(t, "nsig")
	}
	pos := rapid.Permutation(vpLRange(n)).Draw(t, "sigpos")[:k]
	sort.Ints(pos)
	return pos
}

// StepTransfer admits (and optionally finalizes) a model-valid transfer.
func (l *vpLedger) StepTransfer(t *rapid.T, finalize bool) *vpLTx {
	p := l.DrawSpend(t, 4, 4)
	if p == nil {
		return nil
	}
	tx := l.BuildSpend(p.Asset, p.Ins, p.Outs, nil, nil)
	var ver *common.VersionedTransaction
	if rapid.Bool().Draw(t, "aggregate") {
		v, err := l.SignAggregate(tx, p.Ins, p.Signers)
		if err != nil {
			t.Fatalf("aggregate sign: %v", err)
		}
		ver = v
	} else {
		ver = l.SignMaps(tx, p.Ins, p.Signers)
	}
	ts := l.Tick(uint64(rapid.IntRange(1, 1000000).Draw(t, "dt")))
	if err := l.Admit(ver, ts, "transfer"); err != nil {
		t.Fatalf("model-valid transfer rejected: %v", err)
	}
	mt := l.Txs[ver.PayloadHash()]
	if finalize {
		l.FinalizeOne(t, []crypto.Hash{mt.Hash})
	}
	return mt
}

// StepSubmit admits a withdrawal submission (burn + optional change).
func (l *vpLedger) StepSubmit(t *rapid.T, finalize bool) *vpLTx {
	p := l.DrawSpendOf(t, 2, 1, true)
	if p == nil || p.Sum.Cmp(big.NewInt(2)) < 0 {
		return nil
	}
	parts := vpLSplit(t, p.Sum, 2, "submit_part")
	outs := []vpLOut{{Type: common.OutputTypeWithdrawalSubmit, Amount: vpLInt(parts[0]), Withdraw: &common.WithdrawalData{Address: "addr" + fmt.Sprint(l.Seq), Tag: "tag"}}}
	owners, th := l.vpLDrawOwners(t, 3, "submit_change")
	outs = append(outs, vpLOut{Type: common.OutputTypeScript, Owners: owners, Threshold: th, Amount: vpLInt(parts[1])})
	tx := l.BuildSpend(p.Asset, p.Ins, outs, nil, nil)
	ver := l.SignMaps(tx, p.Ins, p.Signers)
	ts := l.Tick(uint64(rapid.IntRange(1, 1000000).Draw(t, "dt")))
	if err := l.Admit(ver, ts, "submit"); err != nil {
		t.Fatalf("model-valid withdrawal submit rejected: %v", err)
	}
	mt := l.Txs[ver.PayloadHash()]
	if finalize {
		l.FinalizeOne(t, []crypto.Hash{mt.Hash})
	}
	return mt
}

// StepClaim admits a withdrawal claim for a finalized submit (XIN fee).
func (l *vpLedger) StepClaim(t *rapid.T, finalize bool) *vpLTx {
	if len(l.Submits) == 0 {
		return nil
	}
	xin := common.XINAssetId
	free := l.Unspent(&xin, true, true)
	fee := vpLBig(common.NewIntegerFromString(config.WithdrawalClaimFee))
	var in *vpLUTXO
	for _, u := range free {
		if u.Type == common.OutputTypeScript && vpLBig(u.Amount).Cmp(fee) > 0 {
			in = u
			break
		}
	}
	if in == nil {
		return nil
	}
	submit := l.Submits[rapid.IntRange(0, len(l.Submits)-1).Draw(t, "claim_submit")]
	change := new(big.Int).Sub(vpLBig(in.Amount), fee)
	owners, th := l.vpLDrawOwners(t, 3, "claim_change")
	outs := []vpLOut{{Type: common.OutputTypeWithdrawalClaim, Amount: vpLInt(fee)}, {Type: common.OutputTypeScript, Owners: owners, Threshold: th, Amount: vpLInt(change)}}
	body := []byte("claim-proof-" + submit.String())
	sig := l.Custodian.PrivateSpendKey.Sign(crypto.Blake3Hash(body))
	extra := append(sig[:], body...)
	tx := l.BuildSpend(xin, []*vpLUTXO{in}, outs, []crypto.Hash{submit}, extra)
	ver := l.SignMaps(tx, []*vpLUTXO{in}, [][]int{l.DrawSigners(t, in, true)})
	ts := l.Tick(uint64(rapid.IntRange(1, 1000000).Draw(t, "dt")))
	if err := l.Admit(ver, ts, "claim"); err != nil {
		t.Fatalf("model-valid withdrawal claim rejected: %v", err)
	}
	mt := l.Txs[ver.PayloadHash()]
	if finalize {
		l.FinalizeOne(t, []crypto.Hash{mt.Hash})
	}
	return mt
}

// StepMint admits the next universal mint batch into script outputs.
func (l *vpLedger) StepMint(t *rapid.T, finalize bool) *vpLTx {
	for _, p := range l.PendingTxs() {
		if p.Kind == "mint" {
			return nil
		}
	}
	room := new(big.Int).Sub(vpLBig(common.GetAssetCapacity(common.XINAssetId)), l.total(common.XINAssetId))
	room.Sub(room, l.pendingDeposits(common.XINAssetId))
	if room.Cmp(big.NewInt(1000000000000)) < 0 {
		return nil
	}
	amt := big.NewInt(rapid.Int64Range(1, 500000000000).Draw(t, "mint_amount"))
	batch := l.MintBatch + uint64(rapid.IntRange(1, 3).Draw(t, "mint_gap"))
	tx := common.NewTransactionV5(common.XINAssetId)
	tx.AddUniversalMintInput(batch, vpLInt(amt))
	nout := rapid.IntRange(1, 4).Draw(t, "mint_nout")
	if int64(nout) > amt.Int64() {
		nout = 1
	}
	var outs []vpLOut
	for _, part := range vpLSplit(t, amt, nout, "mint_part") {
		owners, th := l.vpLDrawOwners(t, 3, "mint_out")
		outs = append(outs, vpLOut{Type: common.OutputTypeScript, Owners: owners, Threshold: th, Amount: vpLInt(part)})
	}
	l.addOutputs(tx, outs)
	signed := &common.SignedTransaction{Transaction: *tx}
	if err := signed.SignRaw(l.Signers[0].PrivateSpendKey); err != nil {
		panic(err)
	}
	ver := signed.AsVersioned()
	ts := l.Tick(uint64(rapid.IntRange(1, 1000000).Draw(t, "dt")))
	if err := l.Admit(ver, ts, "mint"); err != nil {
		t.Fatalf("model-valid mint rejected: %v", err)
	}
	mt := l.Txs[ver.PayloadHash()]
	// the mint lock is pending until finalized; remember so only one is in flight
	if finalize {
		l.FinalizeOne(t, []crypto.Hash{mt.Hash})
	}
	return mt
}

// StepNodeRemove spends the oldest accepted genesis node's accept output into a
// node-remove output owned by drawn accounts (store-level legality: the node
// is accepted and nobody is pledging).
func (l *vpLedger) StepNodeRemove(t *rapid.T, which int) *vpLTx {
	gtx := l.GenesisTxs[which]
	h := gtx.PayloadHash()
	u := l.UTXOs[fmt.Sprintf("%s:%d", h, 0)]
	if u == nil || u.Lock.HasValue() || u.SpentBy.HasValue() || l.Pledging != nil {
		return nil
	}
	owners, th := l.vpLDrawOwners(t, 3, "remove_out")
	outs := []vpLOut{{Type: common.OutputTypeNodeRemove, Owners: owners, Threshold: th, Amount: u.Amount}}
	tx := l.BuildSpend(common.XINAssetId, []*vpLUTXO{u}, outs, nil, gtx.Extra)
	ver := (&common.SignedTransaction{Transaction: *tx}).AsVersioned()
	ts := l.Tick(uint64(rapid.IntRange(1, 1000000).Draw(t, "dt")))
	if err := l.Admit(ver, ts, "remove"); err != nil {
		t.Fatalf("model-valid node remove rejected: %v", err)
	}
	mt := l.Txs[ver.PayloadHash()]
	l.FinalizeOne(t, []crypto.Hash{mt.Hash})
	return mt
}

// Grow performs n random valid steps (deposits first so funds exist).
func (l *vpLedger) Grow(t *rapid.T, n int) {
	for i := 0; i < n; i++ {
		k := rapid.IntRange(0, 9).Draw(t, "grow_kind")
		fin := rapid.IntRange(0, 3).Draw(t, "grow_finalize") != 0
		switch {
		case i < 2 || k <= 2:
			l.StepDeposit(t, fin)
		case k <= 5:
			if l.StepTransfer(t, fin) == nil {
				l.StepDeposit(t, true)
			}
		case k == 6:
			l.StepSubmit(t, fin)
		case k == 7:
			l.StepClaim(t, fin)
		case k == 8:
			l.StepMint(t, fin)
		default:
			if p := l.PendingTxs(); len(p) > 0 {
				var hs []crypto.Hash
				for _, x := range p {
					if x.Ver.IsSnapshotBatchable() {
						hs = append(hs, x.Hash)
					}
				}
				if len(hs) > 0 {
					l.FinalizeOne(t, hs)
				}
			}
		}
	}
}

// ---------------------------------------------------------------------------
// node lifecycle steps (store-level legality only; election/time windows are
// kernel rules judged elsewhere)

type vpLPledge struct {
	Tx     crypto.Hash
	Signer common.Address
	Payee  common.Address
	Amount common.Integer
}

// StepPledge deposits the pledge amount to a single-key output, finalizes it
// and pledges a new node with it. Returns nil when somebody is pledging or the
// XIN capacity leaves no room.
func (l *vpLedger) StepPledge(t *rapid.T, finalize bool) *vpLPledge {
	if l.Pledging != nil {
		return nil
	}
	amount := common.KernelNodePledgeAmount
	room := new(big.Int).Sub(vpLBig(common.GetAssetCapacity(common.XINAssetId)), l.total(common.XINAssetId))
	room.Sub(room, l.pendingDeposits(common.XINAssetId))
	if room.Cmp(new(big.Int).Add(vpLBig(amount), big.NewInt(1))) <= 0 {
		return nil
	}
	l.Seq++
	owner := rapid.IntRange(0, len(l.Accts)-1).Draw(t, "pledge_owner")
	dep := l.BuildDeposit(&l.Assets[0], amount, vpLOut{Owners: []int{owner}, Threshold: 1}, fmt.Sprintf("0xpledge%d", l.Seq), 0, nil)
	if err := l.Admit(dep, l.Tick(1000), "deposit"); err != nil {
		t.Fatalf("pledge funding deposit rejected: %v", err)
	}
	l.FinalizeOne(t, []crypto.Hash{dep.PayloadHash()})
	u := l.UTXOs[fmt.Sprintf("%s:%d", dep.PayloadHash(), 0)]
	p := &vpLPledge{Signer: vpLNodeAddr(vpLSeed("pledge-signer", l.Seq)), Payee: vpLNodeAddr(vpLSeed("pledge-payee", l.Seq)), Amount: amount}
	extra := append(append([]byte{}, p.Signer.PublicSpendKey[:]...), p.Payee.PublicSpendKey[:]...)
	tx := l.BuildSpend(common.XINAssetId, []*vpLUTXO{u}, []vpLOut{{Type: common.OutputTypeNodePledge, Amount: amount}}, nil, extra)
	ver := l.SignMaps(tx, []*vpLUTXO{u}, [][]int{{0}})
	if err := l.Admit(ver, l.Tick(1000), "pledge"); err != nil {
		t.Fatalf("model-valid pledge rejected: %v", err)
	}
	p.Tx = ver.PayloadHash()
	l.Pledging = p
	if finalize {
		l.FinalizeOne(t, []crypto.Hash{p.Tx})
	}
	return p
}

// StepAccept accepts the finalized pledging node.
func (l *vpLedger) StepAccept(t *rapid.T, finalize bool) *vpLTx {
	p := l.Pledging
	if p == nil || !l.Txs[p.Tx].Finalized {
		return nil
	}
	u := l.UTXOs[fmt.Sprintf("%s:%d", p.Tx, 0)]
	if u == nil || u.Lock.HasValue() {
		return nil
	}
	extra := append(append([]byte{}, p.Signer.PublicSpendKey[:]...), p.Payee.PublicSpendKey[:]...)
	tx := l.BuildSpend(common.XINAssetId, []*vpLUTXO{u}, []vpLOut{{Type: common.OutputTypeNodeAccept, Amount: p.Amount}}, nil, extra)
	signed := &common.SignedTransaction{Transaction: *tx}
	sig := p.Signer.PrivateSpendKey.Sign(tx.AsVersioned().PayloadHash())
	signed.SignaturesMap = []map[uint16]*crypto.Signature{{0: &sig}}
	ver := signed.AsVersioned()
	if err := l.Admit(ver, l.Tick(1000), "accept"); err != nil {
		t.Fatalf("model-valid accept rejected: %v", err)
	}
	mt := l.Txs[ver.PayloadHash()]
	if finalize {
		l.FinalizeOne(t, []crypto.Hash{mt.Hash})
		l.Pledging = nil
		l.Accepted = append(l.Accepted, p)
	}
	return mt
}
