//go:build verif

package storage

import (
	"fmt"
	"sort"
	"testing"

	"github.com/MixinNetwork/mixin/common"
	"github.com/MixinNetwork/mixin/crypto"
	"pgregory.net/rapid"
	kit "verifkit"
)

// vpC02Fund finalizes deposits whose single outputs have drawn key counts and
// thresholds, including threshold 0 and threshold > keys.
func vpC02Fund(t *rapid.T, l *vpLedger, n, maxKeys int) {
	for i := 0; i < n; i++ {
		a := &l.Assets[rapid.IntRange(0, 1).Draw(t, "fund_asset")]
		nk := rapid.IntRange(1, maxKeys).Draw(t, "fund_nkeys")
		owners := rapid.Permutation(vpLRange(len(l.Accts))).Draw(t, "fund_owners")[:nk]
		var th int
		switch rapid.IntRange(0, 9).Draw(t, "fund_th_class") {
		case 0:
			th = 0
		case 1:
			th = nk + 1
			if th > 64 {
				th = 64
			}
		case 2:
			th = nk
		case 3:
			// the largest threshold a script can carry (64), and its neighbour:
			// more than the output has keys, so it can never be met
			th = rapid.SampledFrom([]int{64, 64, 63}).Draw(t, "fund_th_top")
		default:
			th = rapid.IntRange(1, nk).Draw(t, "fund_th")
		}
		l.Seq++
		ver := l.BuildDeposit(a, common.NewInteger(uint64(rapid.IntRange(1, 5).Draw(t, "fund_amt"))), vpLOut{Owners: owners, Threshold: uint8(th)}, fmt.Sprintf("0xfund%d", l.Seq), 0, nil)
		if err := l.Admit(ver, l.Tick(1000), "deposit"); err != nil {
			t.Fatalf("funding deposit rejected: %v", err)
		}
		l.FinalizeOne(t, []crypto.Hash{ver.PayloadHash()})
	}
}

type vpC02Probe struct {
	ins     []*vpLUTXO
	tx      *common.Transaction
	signers [][]int
}

func vpC02Draw(t *rapid.T, l *vpLedger) *vpC02Probe {
	a := l.Assets[rapid.IntRange(0, 1).Draw(t, "probe_asset")].Id
	free := l.Unspent(&a, true, true)
	if len(free) == 0 {
		return nil
	}
	n := rapid.IntRange(1, min(4, len(free))).Draw(t, "probe_nin")
	p := &vpC02Probe{}
	sum := common.NewInteger(0)
	for k, i := range rapid.Permutation(vpLRange(len(free))).Draw(t, "probe_pick")[:n] {
		u := free[i]
		p.ins = append(p.ins, u)
		if k == 0 {
			sum = u.Amount
		} else {
			sum = sum.Add(u.Amount)
		}
		// signer set: any size 0..n, biased around the threshold
		nk := len(u.Keys)
		var k2 int
		switch rapid.IntRange(0, 4).Draw(t, "nsig_class") {
		case 0:
			k2 = rapid.IntRange(0, nk).Draw(t, "nsig_any")
		case 1:
			k2 = u.threshold() - 1
		default:
			k2 = u.threshold() + rapid.IntRange(0, 2).Draw(t, "nsig_extra")
			if k2 < 1 {
				k2 = 1
			}
		}
		if k2 < 0 {
			k2 = 0
		}
		if k2 > nk {
			k2 = nk
		}
		pos := rapid.Permutation(vpLRange(nk)).Draw(t, "sigpos")[:k2]
		sort.Ints(pos)
		p.signers = append(p.signers, pos)
	}
	owners, th := l.vpLDrawOwners(t, 2, "probe_out")
	p.tx = l.BuildSpend(a, p.ins, []vpLOut{{Type: common.OutputTypeScript, Owners: owners, Threshold: th, Amount: sum}}, nil, nil)
	return p
}

// vpC02RefMaps is the reference rule for per-input signature maps.
func vpC02RefMaps(ver *common.VersionedTransaction, ins []*vpLUTXO) (ok bool, why string) {
	msg := ver.PayloadHash()
	if len(ver.SignaturesMap) != len(ins) {
		return false, "map count"
	}
	for i, u := range ins {
		valid := 0
		for p, sig := range ver.SignaturesMap[i] {
			if int(p) >= len(u.Keys) || sig == nil || !u.Keys[p].Verify(msg, *sig) {
				return false, fmt.Sprintf("input %d carries an invalid signature at index %d", i, p)
			}
			valid++
		}
		if valid < u.threshold() {
			return false, fmt.Sprintf("input %d has %d valid signatures of its own keys, threshold %d", i, valid, u.threshold())
		}
	}
	return true, ""
}

func TestVP_C02_threshold_maps(t *testing.T) {
	c := kit.New(t, "C02", "rapid: ledgers whose outputs have 1..N keys (N=10 quick, 40 thorough) and thresholds 0..keys+1; spends of 1..4 inputs with drawn signer subsets (below/at/above threshold) as per-input maps, in half of the accepted cases the inputs are then locked under the payload hash (as the node does), then forged twins: wrong-key, swapped-layout, index-out-of-range, other-payload, sigbyte, mixed-invalid, moved-index; oracle: Validate accepts => every attached signature verifies on its own under the spent output's own key at that index and each input reaches its threshold (re-verified with Key.Verify); honest spends meeting max(1,threshold) everywhere must be accepted; every single-byte mutation of an accepted encoding (all thresholds>0) must fail; non-trivial = accepted multi-input tx or forged twin; distinct by payload hash+class")
	c.Require("accepted-multi", "below-threshold", "th0", "th-unspendable", "wrong-key", "swapped-layout", "index-oor", "other-payload", "sigbyte", "mixed-invalid", "moved-index", "alias-index-256", "tamper-byte", "twins-judged-on-locked-inputs")
	kit.SetChecks(kit.N(60, 3000))
	maxKeys := 10
	if kit.Thorough() {
		maxKeys = 40
	}
	rapid.Check(t, func(t *rapid.T) {
		l := vpLNewLedger(7, "c02", maxKeys)
		defer l.Close()
		vpC02Fund(t, l, rapid.IntRange(4, 10).Draw(t, "nfund"), maxKeys)
		for pi := 0; pi < rapid.IntRange(2, 6).Draw(t, "probes"); pi++ {
			p := vpC02Draw(t, l)
			if p == nil {
				continue
			}
			ts := l.Clock + 1
			ver := l.SignMaps(p.tx, p.ins, p.signers)
			err := ver.Validate(l.Store, ts, false)
			honestEnough := true
			allPositive := true
			var cl []string
			for i, u := range p.ins {
				need := u.threshold()
				if need < 1 {
					need = 1
				}
				if len(p.signers[i]) < need {
					honestEnough = false
				}
				if len(p.signers[i]) < u.threshold() {
					cl = append(cl, "below-threshold")
				}
				if u.threshold() == 0 {
					allPositive = false
					cl = append(cl, "th0")
				}
				if u.threshold() > len(u.Keys) {
					cl = append(cl, "th-unspendable")
				}
			}
			if err == nil {
				if ok, why := vpC02RefMaps(ver, p.ins); !ok {
					t.Fatalf("accepted spend violates the threshold rule: %s", why)
				}
				if len(p.ins) > 1 {
					cl = append(cl, "accepted-multi")
				}
			} else if honestEnough {
				t.Fatalf("honest spend with enough signatures on every input rejected: %v", err)
			}
			c.Case(ver.PayloadHash().String()+fmt.Sprint(p.signers), err == nil && len(p.ins) > 1, cl...)
			c.Sample(map[string]any{"inputs": len(p.ins), "signers": p.signers, "thresholds": vpC02Ths(p.ins), "keys": vpC02Nks(p.ins), "accepted": err == nil})

			if err == nil && rapid.Bool().Draw(t, "lock_after_accept") {
				// what the node does next with an accepted transaction: its inputs get
				// locked under its payload hash. Signatures are not part of that hash,
				// so every twin below shares the lock - and must still be judged by
				// its own signatures
				if lerr := ver.LockInputs(l.Store, false); lerr != nil {
					t.Fatalf("locking the inputs of an accepted spend: %v", lerr)
				}
				for _, u := range p.ins {
					u.Lock = ver.PayloadHash()
				}
				c.Class("twins-judged-on-locked-inputs")
			}
			// tamper sentence on accepted transactions with all thresholds > 0
			if err == nil && allPositive {
				enc := ver.Marshal()
				npos := 12
				if kit.Thorough() {
					npos = 40
				}
				for k := 0; k < npos; k++ {
					pos := rapid.IntRange(0, len(enc)-1).Draw(t, "tamper_pos")
					bit := byte(1 << uint(rapid.IntRange(0, 7).Draw(t, "tamper_bit")))
					mut := append([]byte{}, enc...)
					mut[pos] ^= bit
					dec, derr := common.UnmarshalVersionedTransaction(mut)
					if derr != nil {
						c.Class("tamper-undecodable")
						continue
					}
					var verr error
					if pn := vpLCatch(func() { verr = dec.Validate(l.Store, ts, false) }); pn != nil {
						t.Fatalf("Validate panicked on tampered encoding (byte %d): %v", pos, pn)
					}
					if verr == nil {
						t.Fatalf("accepted transaction still accepted after flipping bit %#x of byte %d/%d", bit, pos, len(enc))
					}
					c.Case(fmt.Sprintf("%s|%d|%d", ver.PayloadHash(), pos, bit), true, "tamper-byte")
				}
			}

			// forged twin
			msg := p.tx.AsVersioned().PayloadHash()
			signed := &common.SignedTransaction{Transaction: *p.tx}
			maps := make([]map[uint16]*crypto.Signature, len(p.ins))
			for i, u := range p.ins {
				maps[i] = map[uint16]*crypto.Signature{}
				// start from a fully sufficient honest set
				need := u.threshold()
				if need < 1 {
					need = 1
				}
				if need > len(u.Keys) {
					need = len(u.Keys)
				}
				for pos := 0; pos < need; pos++ {
					sig := l.ownerKey(u, pos).Sign(msg)
					maps[i][uint16(pos)] = &sig
				}
			}
			vi := rapid.IntRange(0, len(p.ins)-1).Draw(t, "forge_input")
			u := p.ins[vi]
			class := ""
			switch rapid.IntRange(0, 7).Draw(t, "forge") {
			case 0: // signature by a key that is not in this output's list
				stranger := crypto.NewKeyFromSeed(vpLSeed("stranger", l.Seq, pi))
				sig := stranger.Sign(msg)
				maps[vi][0] = &sig
				class = "wrong-key"
			case 1: // right signatures attached to the wrong input
				if len(p.ins) < 2 {
					continue
				}
				vj := (vi + 1) % len(p.ins)
				maps[vi], maps[vj] = maps[vj], maps[vi]
				class = "swapped-layout"
			case 2: // index beyond the key list
				sig := l.ownerKey(u, 0).Sign(msg)
				maps[vi][uint16(len(u.Keys)+rapid.IntRange(0, 3).Draw(t, "oor"))] = &sig
				class = "index-oor"
			case 3: // signatures over a different payload
				other := crypto.Blake3Hash(append(msg[:], 1))
				for pos := range maps[vi] {
					sig := l.ownerKey(u, int(pos)).Sign(other)
					maps[vi][pos] = &sig
				}
				class = "other-payload"
			case 4: // one signature byte flipped
				sig := *maps[vi][0]
				sig[rapid.IntRange(0, 63).Draw(t, "sigbyte")] ^= byte(1 << uint(rapid.IntRange(0, 7).Draw(t, "sigbit")))
				maps[vi][0] = &sig
				class = "sigbyte"
			case 5: // enough valid signatures plus one invalid extra
				if len(u.Keys) < 2 {
					continue
				}
				bad := l.ownerKey(u, 0).Sign(msg) // key 0's signature placed at the last index
				maps[vi][uint16(len(u.Keys)-1)] = &bad
				if len(u.Keys)-1 == 0 {
					continue
				}
				class = "mixed-invalid"
			case 6: // a valid signature moved to another key index of the same output
				if len(u.Keys) < 2 {
					continue
				}
				sig := maps[vi][0]
				delete(maps[vi], 0)
				free := -1
				for q := len(u.Keys) - 1; q > 0; q-- {
					if maps[vi][uint16(q)] == nil {
						free = q
						break
					}
				}
				if free < 0 {
					continue
				}
				maps[vi][uint16(free)] = sig
				class = "moved-index"
			case 7: // one key holder files its signature under indexes that differ by multiples of 256
				need := len(maps[vi])
				sig := maps[vi][0]
				maps[vi] = map[uint16]*crypto.Signature{0: sig}
				for j := 1; len(maps[vi]) < max(need, 2); j++ {
					maps[vi][uint16(256*j)] = sig
				}
				class = "alias-index-256"
			}
			signed.SignaturesMap = maps
			fv := signed.AsVersioned()
			var ferr error
			if pn := vpLCatch(func() { ferr = fv.Validate(l.Store, ts, false) }); pn != nil {
				t.Fatalf("Validate panicked on %s forgery: %v", class, pn)
			}
			if ferr == nil {
				ok, why := vpC02RefMaps(fv, p.ins)
				if !ok {
					t.Fatalf("forged spend (%s) accepted: %s", class, why)
				}
			}
			c.Case(fv.PayloadHash().String()+class+fmt.Sprint(vi), true, class)
		}
	})
}

func vpC02Ths(ins []*vpLUTXO) []int {
	var r []int
	for _, u := range ins {
		r = append(r, u.threshold())
	}
	return r
}

func vpC02Nks(ins []*vpLUTXO) []int {
	var r []int
	for _, u := range ins {
		r = append(r, len(u.Keys))
	}
	return r
}

func TestVP_C02_threshold_aggregate(t *testing.T) {
	c := kit.New(t, "C02", "rapid: the same ledgers spent with one aggregate signature (global index = offset of the input's key list in the concatenation); honest = AggregateSign over exactly the claimed signer set and payload; forged twins: shifted mask, index past the end, signer moved into the neighbour input's range, subset signs for superset, other payload, signature byte flip, unsorted/duplicate signers; oracle: accepted => honest and every input's masked count >= threshold; honest with >= max(1,threshold) per input => accepted; non-trivial = accepted multi-input or forged twin")
	c.Require("agg-accepted", "agg-accepted-multi", "agg-below", "shifted", "past-end", "neighbour", "superset", "other-payload", "sigbyte", "unsorted")
	kit.SetChecks(kit.N(60, 3000))
	maxKeys := 10
	if kit.Thorough() {
		maxKeys = 40
	}
	rapid.Check(t, func(t *rapid.T) {
		l := vpLNewLedger(7, "c02a", maxKeys)
		defer l.Close()
		vpC02Fund(t, l, rapid.IntRange(4, 10).Draw(t, "nfund"), maxKeys)
		for pi := 0; pi < rapid.IntRange(2, 6).Draw(t, "probes"); pi++ {
			p := vpC02Draw(t, l)
			if p == nil {
				continue
			}
			ts := l.Clock + 1
			total := 0
			for _, s := range p.signers {
				total += len(s)
			}
			if total == 0 {
				continue
			}
			ver, err := l.SignAggregate(p.tx, p.ins, p.signers)
			if err != nil {
				t.Fatalf("aggregate sign: %v", err)
			}
			judge := func(v *common.VersionedTransaction, honest bool, class string) {
				var verr error
				if pn := vpLCatch(func() { verr = v.Validate(l.Store, ts, false) }); pn != nil {
					t.Fatalf("Validate panicked on aggregate %s: %v", class, pn)
				}
				if verr != nil {
					return
				}
				if !honest {
					t.Fatalf("aggregate forgery (%s) accepted, signers %v", class, v.AggregatedSignature.Signers)
				}
				off := 0
				for i, u := range p.ins {
					cnt := 0
					for _, m := range v.AggregatedSignature.Signers {
						if m >= off && m < off+len(u.Keys) {
							cnt++
						}
					}
					if cnt < u.threshold() {
						t.Fatalf("aggregate spend accepted with %d signers on input %d, threshold %d", cnt, i, u.threshold())
					}
					off += len(u.Keys)
				}
			}
			verr := ver.Validate(l.Store, ts, false)
			enough := true
			var cl []string
			for i, u := range p.ins {
				need := u.threshold()
				if need < 1 {
					need = 1
				}
				if len(p.signers[i]) < need {
					enough = false
				}
				if len(p.signers[i]) < u.threshold() {
					cl = append(cl, "agg-below")
				}
			}
			if verr == nil {
				judge(ver, true, "honest")
				cl = append(cl, "agg-accepted")
				if len(p.ins) > 1 {
					cl = append(cl, "agg-accepted-multi")
				}
			} else if enough {
				t.Fatalf("honest aggregate spend with enough signers rejected: %v (signers %v)", verr, p.signers)
			}
			c.Case(ver.PayloadHash().String()+fmt.Sprint(p.signers), verr == nil && len(p.ins) > 1, cl...)
			c.Sample(map[string]any{"inputs": len(p.ins), "signers": ver.AggregatedSignature.Signers, "thresholds": vpC02Ths(p.ins), "keys": vpC02Nks(p.ins), "accepted": verr == nil})

			// forged twins derive from a sufficient honest signature
			full := make([][]int, len(p.ins))
			nkeys := 0
			for i, u := range p.ins {
				need := u.threshold()
				if need < 1 {
					need = 1
				}
				if need > len(u.Keys) {
					need = len(u.Keys)
				}
				full[i] = vpLRange(need)
				nkeys += len(u.Keys)
			}
			base, err := l.SignAggregate(p.tx, p.ins, full)
			if err != nil {
				t.Fatalf("aggregate sign: %v", err)
			}
			forged := &common.SignedTransaction{Transaction: *p.tx}
			as := &common.AggregatedSignature{Signers: append([]int{}, base.AggregatedSignature.Signers...), Signature: base.AggregatedSignature.Signature}
			class := ""
			switch rapid.IntRange(0, 6).Draw(t, "agg_forge") {
			case 0:
				for i := range as.Signers {
					as.Signers[i]++
				}
				class = "shifted"
			case 1:
				as.Signers = append(as.Signers, nkeys+rapid.IntRange(0, 2).Draw(t, "past"))
				class = "past-end"
			case 2: // claim a signer in the neighbour's range instead of one's own
				if len(p.ins) < 2 {
					continue
				}
				set := map[int]bool{}
				for _, m := range as.Signers {
					set[m] = true
				}
				moved := false
				for q := nkeys - 1; q >= 0 && !moved; q-- {
					if !set[q] {
						delete(set, as.Signers[0])
						set[q] = true
						moved = true
					}
				}
				if !moved {
					continue
				}
				as.Signers = as.Signers[:0]
				for m := range set {
					as.Signers = append(as.Signers, m)
				}
				sort.Ints(as.Signers)
				class = "neighbour"
			case 3: // subset signs, superset claimed
				set := map[int]bool{}
				for _, m := range as.Signers {
					set[m] = true
				}
				added := false
				for q := 0; q < nkeys && !added; q++ {
					if !set[q] {
						as.Signers = append(as.Signers, q)
						added = true
					}
				}
				if !added {
					continue
				}
				sort.Ints(as.Signers)
				class = "superset"
			case 4:
				other := *p.tx
				other.Extra = append([]byte{}, 1, 2, 3)
				ob, err := l.SignAggregate(&other, p.ins, full)
				if err != nil {
					t.Fatalf("aggregate sign: %v", err)
				}
				as.Signature = ob.AggregatedSignature.Signature
				class = "other-payload"
			case 5:
				as.Signature[rapid.IntRange(0, 63).Draw(t, "sigbyte")] ^= byte(1 << uint(rapid.IntRange(0, 7).Draw(t, "sigbit")))
				class = "sigbyte"
			case 6:
				if len(as.Signers) < 2 {
					as.Signers = append(as.Signers, as.Signers[0])
				} else {
					as.Signers[0], as.Signers[1] = as.Signers[1], as.Signers[0]
				}
				class = "unsorted"
			}
			forged.AggregatedSignature = as
			var fv *common.VersionedTransaction
			if pn := vpLCatch(func() { fv = forged.AsVersioned(); _ = fv.Marshal() }); pn != nil {
				// the encoder refuses signer sets it cannot represent; nothing reaches validation
				c.Case(fmt.Sprint(class, as.Signers), true, class)
				continue
			}
			judge(fv, false, class)
			c.Case(fv.PayloadHash().String()+class+fmt.Sprint(as.Signers), true, class)
		}
	})
}
