//go:build verif

package storage

import (
	"fmt"
	"math/big"
	"testing"

	"github.com/MixinNetwork/mixin/common"
	"github.com/MixinNetwork/mixin/crypto"
	"pgregory.net/rapid"
	kit "verifkit"
)

// vpC01Oracle recomputes conservation for an accepted transaction from what the
// store reads back. It returns a violation description or "".
func vpC01Oracle(l *vpLedger, ver *common.VersionedTransaction) string {
	in := new(big.Int)
	seen := map[string]bool{}
	special := 0
	for _, i := range ver.Inputs {
		switch {
		case i.Mint != nil:
			// an input carrying a mint payload makes the transaction a mint
			// (a deposit payload on the same input is then decoration): the
			// value entering the ledger is the mint amount that gets recorded
			special++
			in.Add(in, vpLBig(i.Mint.Amount))
		case i.Deposit != nil:
			special++
			in.Add(in, vpLBig(i.Deposit.Amount))
			old, _, err := l.Store.ReadAssetWithBalance(ver.Asset)
			if err != nil {
				return "asset read: " + err.Error()
			}
			if old != nil && (old.Chain != i.Deposit.Chain || old.AssetKey != i.Deposit.AssetKey) {
				return fmt.Sprintf("deposit of (%s,%s) accepted into asset %s bound to (%s,%s)", i.Deposit.Chain, i.Deposit.AssetKey, ver.Asset, old.Chain, old.AssetKey)
			}
		case len(i.Genesis) > 0:
			return "genesis input accepted"
		default:
			id := fmt.Sprintf("%s:%d", i.Hash, i.Index)
			if seen[id] {
				return "input " + id + " referenced twice"
			}
			seen[id] = true
			u, err := l.Store.ReadUTXOLock(i.Hash, i.Index)
			if err != nil || u == nil {
				return fmt.Sprintf("input %s does not exist (%v)", id, err)
			}
			if u.Asset != ver.Asset {
				return fmt.Sprintf("input %s has asset %s, transaction asset %s", id, u.Asset, ver.Asset)
			}
			if m := l.UTXOs[id]; m == nil || m.Amount.Cmp(u.Amount) != 0 || m.Asset != u.Asset {
				return fmt.Sprintf("store output %s disagrees with the model", id)
			}
			in.Add(in, vpLBig(u.Amount))
		}
	}
	if special > 0 && len(ver.Inputs) != 1 {
		return fmt.Sprintf("special input mixed with %d other inputs", len(ver.Inputs)-1)
	}
	out := new(big.Int)
	for k, o := range ver.Outputs {
		if o.Amount.Sign() <= 0 {
			return fmt.Sprintf("output %d amount %s not positive", k, o.Amount)
		}
		out.Add(out, vpLBig(o.Amount))
	}
	if in.Sign() <= 0 {
		return "input total not positive"
	}
	if in.Cmp(out) != 0 {
		return fmt.Sprintf("inputs %s != outputs %s", in, out)
	}
	return ""
}

func TestVP_C01_conservation(t *testing.T) {
	c := kit.New(t, "C01", "rapid: model-built ledgers (deposits, transfers, submits, claims, mints over 3 assets, mixed pending/finalized; in half of the cases holding one finalized transfer with 65..256 outputs, so that probes spend outputs at high indexes) probed with valid spends and one-rule-broken twins (amount +-1 unit, zero output, foreign-asset input, duplicated input, wrong asset id, special-input mixes, free-form amounts); oracle recomputes sums/asset from store read-back for every accepted tx and demands rejection of the twins; non-trivial = accepted tx with >=2 inputs or outputs, or a rejected twin; distinct by payload hash")
	c.Require("accepted-multi", "twin-amount", "twin-zero", "twin-foreign", "twin-dup", "twin-dup-index>=64", "twin-asset", "mix-special", "freeform", "twin-alias-index")
	kit.SetChecks(kit.N(120, 6000))
	rapid.Check(t, func(t *rapid.T) {
		l := vpLNewLedger(7, "c01", 6)
		defer l.Close()
		l.Grow(t, rapid.IntRange(6, 22).Draw(t, "grow"))
		wideCase := false
		if rapid.Bool().Draw(t, "wide") {
			// outputs at indexes up to 255, which the probes then mostly draw from
			wideCase = l.StepWide(t) > 0
		}
		probes := rapid.IntRange(3, 10).Draw(t, "probes")
		for pi := 0; pi < probes; pi++ {
			p := l.DrawSpend(t, 4, 4)
			if p == nil {
				l.StepDeposit(t, true)
				continue
			}
			fork := rapid.Bool().Draw(t, "fork")
			ts := l.Clock + uint64(rapid.IntRange(1, 1000000).Draw(t, "ts"))
			// base: valid
			tx := l.BuildSpend(p.Asset, p.Ins, p.Outs, nil, nil)
			ver := l.SignMaps(tx, p.Ins, p.Signers)
			err := ver.Validate(l.Store, ts, fork)
			if err != nil {
				t.Fatalf("model-valid spend rejected: %v", err)
			}
			if v := vpC01Oracle(l, ver); v != "" {
				t.Fatalf("accepted transaction %s violates conservation: %s", ver.PayloadHash(), v)
			}
			multi := len(ver.Inputs) >= 2 || len(ver.Outputs) >= 2
			cl := []string{"accepted"}
			if multi {
				cl = append(cl, "accepted-multi")
			}
			c.Case(ver.PayloadHash().String(), multi, cl...)
			c.Sample(map[string]any{"kind": "valid spend", "inputs": len(ver.Inputs), "outputs": len(ver.Outputs), "sum_units": p.Sum.String(), "asset": l.asset(p.Asset).Name})

			kind := rapid.IntRange(0, 7).Draw(t, "twin")
			if p.Ins[0].Index >= 64 && rapid.Bool().Draw(t, "twin_dup_high_index") {
				kind = 3
			}
			outs := append([]vpLOut{}, p.Outs...)
			ins := append([]*vpLUTXO{}, p.Ins...)
			signers := append([][]int{}, p.Signers...)
			asset := p.Asset
			class := ""
			mustReject := true
			var aliasIns []*vpLUTXO
			switch kind {
			case 0: // amount off by one unit
				k := rapid.IntRange(0, len(outs)-1).Draw(t, "twin_out")
				d := int64(1)
				b := vpLBig(outs[k].Amount)
				if rapid.Bool().Draw(t, "minus") && b.Cmp(big.NewInt(1)) > 0 {
					d = -1
				}
				outs[k].Amount = vpLInt(b.Add(b, big.NewInt(d)))
				class = "twin-amount"
			case 1: // zero output added (sum unchanged)
				owners, th := l.vpLDrawOwners(t, 2, "zero_out")
				outs = append(outs, vpLOut{Type: common.OutputTypeScript, Owners: owners, Threshold: th, Amount: common.NewInteger(0)})
				class = "twin-zero"
			case 2: // foreign asset input with valid signatures, outputs raised accordingly
				var other *vpLUTXO
				for _, u := range l.Unspent(nil, true, true) {
					if u.Asset != asset {
						other = u
						break
					}
				}
				if other == nil {
					continue
				}
				ins = append(ins, other)
				signers = append(signers, l.DrawSigners(t, other, true))
				b := vpLBig(outs[0].Amount)
				outs[0].Amount = vpLInt(b.Add(b, vpLBig(other.Amount)))
				class = "twin-foreign"
			case 3: // duplicated input, outputs raised accordingly
				ins = append(ins, ins[0])
				signers = append(signers, signers[0])
				b := vpLBig(outs[0].Amount)
				outs[0].Amount = vpLInt(b.Add(b, vpLBig(ins[0].Amount)))
				class = "twin-dup"
				if ins[0].Index >= 64 {
					c.Class("twin-dup-index>=64")
				}
				_ = wideCase
			case 4: // transaction asset differs from its inputs' asset
				for _, a := range l.Assets {
					if a.Id != asset {
						asset = a.Id
						break
					}
				}
				class = "twin-asset"
			case 5: // special input mixed with ordinary inputs
				class = "mix-special"
			case 7: // the first input once more under an output index that does not exist (index + k*256, <= 1024), outputs raised accordingly
				alias := *ins[0]
				alias.Index = ins[0].Index + 256*uint(rapid.IntRange(1, 4).Draw(t, "alias_k"))
				if alias.Index > 1024 {
					alias.Index = 256 + ins[0].Index%256
				}
				aliasIns = append(append([]*vpLUTXO{}, ins...), &alias)
				ins = append(ins, ins[0]) // signed with the keys of the real output
				signers = append(signers, signers[0])
				b := vpLBig(outs[0].Amount)
				outs[0].Amount = vpLInt(b.Add(b, vpLBig(ins[0].Amount)))
				class = "twin-alias-index"
			case 6: // free-form output amounts (oracle decides)
				for k := range outs {
					outs[k].Amount = vpLInt(vpC01GenUnits(t, "ff"))
				}
				class = "freeform"
				mustReject = false
			}
			tx2 := l.BuildSpend(asset, ins, outs, nil, nil)
			if aliasIns != nil {
				tx2 = l.BuildSpend(asset, aliasIns, outs, nil, nil)
			}
			if kind == 5 {
				amt := vpLInt(p.Sum)
				if rapid.Bool().Draw(t, "mix_mint") {
					m := &common.Input{Mint: &common.MintData{Group: "UNIVERSAL", Batch: l.MintBatch + 5, Amount: amt}}
					if rapid.Bool().Draw(t, "mix_first") {
						tx2.Inputs = append([]*common.Input{m}, tx2.Inputs...)
					} else {
						tx2.Inputs = append(tx2.Inputs, m)
					}
				} else {
					a := l.asset(asset)
					d := &common.Input{Deposit: &common.DepositData{Chain: a.Chain, AssetKey: a.Key, Transaction: fmt.Sprintf("0xmix%d", l.Seq), Index: 0, Amount: amt}}
					if rapid.Bool().Draw(t, "mix_first") {
						tx2.Inputs = append([]*common.Input{d}, tx2.Inputs...)
					} else {
						tx2.Inputs = append(tx2.Inputs, d)
					}
				}
			}
			var ver2 *common.VersionedTransaction
			if kind == 5 {
				// sign every position: ordinary inputs with owners, special with custodian key
				signed := &common.SignedTransaction{Transaction: *tx2}
				msg := tx2.AsVersioned().PayloadHash()
				oi := 0
				for _, in := range tx2.Inputs {
					m := map[uint16]*crypto.Signature{}
					if in.Deposit != nil || in.Mint != nil {
						sig := l.Custodian.PrivateSpendKey.Sign(msg)
						m[0] = &sig
					} else {
						for _, pos := range signers[oi] {
							sig := l.ownerKey(ins[oi], pos).Sign(msg)
							m[uint16(pos)] = &sig
						}
						oi++
					}
					signed.SignaturesMap = append(signed.SignaturesMap, m)
				}
				ver2 = signed.AsVersioned()
			} else {
				ver2 = l.SignMaps(tx2, ins, signers)
			}
			var err2 error
			if p := vpLCatch(func() { err2 = ver2.Validate(l.Store, ts, fork) }); p != nil {
				t.Fatalf("Validate panicked on %s twin: %v", class, p)
			}
			if err2 == nil {
				if v := vpC01Oracle(l, ver2); v != "" {
					t.Fatalf("accepted %s transaction violates conservation: %s", class, v)
				}
				if mustReject {
					t.Fatalf("%s twin accepted", class)
				}
			}
			c.Case(ver2.PayloadHash().String(), err2 != nil, class)
		}

		// deposits and mints: accepted ones conserve too
		for _, h := range l.TxOrder {
			mt := l.Txs[h]
			if mt.Kind == "genesis" {
				continue
			}
			if mt.Kind == "deposit" || mt.Kind == "mint" {
				if v := vpC01SumOnly(mt.Ver); v != "" {
					t.Fatalf("admitted %s %s: %s", mt.Kind, h, v)
				}
				c.Case(h.String(), len(mt.Ver.Outputs) >= 2, "admitted-"+mt.Kind)
			}
		}
	})
}

func vpC01SumOnly(ver *common.VersionedTransaction) string {
	in := new(big.Int)
	if d := ver.Inputs[0].Deposit; d != nil {
		in = vpLBig(d.Amount)
	} else if m := ver.Inputs[0].Mint; m != nil {
		in = vpLBig(m.Amount)
	}
	out := new(big.Int)
	for _, o := range ver.Outputs {
		if o.Amount.Sign() <= 0 {
			return "non-positive output"
		}
		out.Add(out, vpLBig(o.Amount))
	}
	if in.Sign() <= 0 || in.Cmp(out) != 0 {
		return fmt.Sprintf("inputs %s != outputs %s", in, out)
	}
	return ""
}

func vpC01GenUnits(t *rapid.T, label string) *big.Int {
	switch rapid.IntRange(0, 3).Draw(t, label+"_class") {
	case 0:
		return big.NewInt(rapid.Int64Range(0, 1000).Draw(t, label+"_small"))
	case 1:
		e := uint(rapid.IntRange(60, 260).Draw(t, label+"_exp"))
		b := new(big.Int).Lsh(big.NewInt(1), e)
		return b.Add(b, big.NewInt(rapid.Int64Range(-2, 2).Draw(t, label+"_d")))
	default:
		return big.NewInt(rapid.Int64Range(0, 1<<50).Draw(t, label+"_mid"))
	}
}

// Deposits: amount mismatch between the deposit input and its output, and a
// deposit whose asset info contradicts the stored binding, must be rejected.
func TestVP_C01_deposit_mint(t *testing.T) {
	c := kit.New(t, "C01", "rapid: custodian-signed deposits and mints with output total equal / off by one unit / split, and deposits whose (chain,key) contradicts the asset's stored binding; oracle = same recomputation; non-trivial = rejected twin or accepted tx on an asset with history")
	c.Require("deposit-ok", "deposit-off", "deposit-info", "mint-off", "double-payload")
	kit.SetChecks(kit.N(150, 6000))
	rapid.Check(t, func(t *rapid.T) {
		l := vpLNewLedger(7, "c01d", 4)
		defer l.Close()
		l.Grow(t, rapid.IntRange(3, 10).Draw(t, "grow"))
		a := &l.Assets[rapid.IntRange(0, len(l.Assets)-1).Draw(t, "asset")]
		amt := big.NewInt(rapid.Int64Range(1, 1000000000).Draw(t, "amt"))
		owners, th := l.vpLDrawOwners(t, 3, "o")
		ts := l.Clock + 1
		build := func(info *vpLAsset, outAmt *big.Int, id string) *common.VersionedTransaction {
			tx := common.NewTransactionV5(a.Id)
			tx.AddDepositInput(&common.DepositData{Chain: info.Chain, AssetKey: info.Key, Transaction: id, Index: 1, Amount: vpLInt(amt)})
			l.addOutputs(tx, []vpLOut{{Type: common.OutputTypeScript, Owners: owners, Threshold: th, Amount: vpLInt(outAmt)}})
			signed := &common.SignedTransaction{Transaction: *tx}
			_ = signed.SignRaw(l.Custodian.PrivateSpendKey)
			return signed.AsVersioned()
		}
		good := build(a, amt, "0xgood")
		if err := good.Validate(l.Store, ts, false); err != nil {
			t.Fatalf("valid deposit rejected: %v", err)
		}
		if v := vpC01Oracle(l, good); v != "" {
			t.Fatalf("accepted deposit: %s", v)
		}
		c.Case(good.PayloadHash().String(), l.total(a.Id).Sign() > 0, "deposit-ok")
		off := new(big.Int).Add(amt, big.NewInt(1))
		if rapid.Bool().Draw(t, "minus") && amt.Cmp(big.NewInt(1)) > 0 {
			off.Sub(amt, big.NewInt(1))
		}
		bad := build(a, off, "0xoff")
		if err := bad.Validate(l.Store, ts, false); err == nil {
			t.Fatalf("deposit of %s units into an output of %s units accepted", amt, off)
		}
		c.Case(bad.PayloadHash().String(), true, "deposit-off")
		// contradicting asset info: only decidable once the asset is bound
		if old, _, _ := l.Store.ReadAssetWithBalance(a.Id); old != nil {
			other := vpLAsset{Id: a.Id, Chain: a.Chain, Key: a.Key + "x"}
			wrong := build(&other, amt, "0xinfo")
			if err := wrong.Validate(l.Store, ts, false); err == nil {
				t.Fatalf("deposit with foreign asset info accepted for bound asset %s", a.Name)
			}
			c.Case(wrong.PayloadHash().String(), true, "deposit-info")
		}
		// one input carrying both a mint and a deposit payload with different
		// amounts (decodable and canonical): whatever is accepted must create
		// exactly the amount of the payload that types the transaction
		{
			m1 := big.NewInt(rapid.Int64Range(2, 1000000).Draw(t, "dp_mint"))
			d1 := new(big.Int).Add(m1, big.NewInt(rapid.Int64Range(1, 1000000).Draw(t, "dp_delta")))
			if rapid.Bool().Draw(t, "dp_less") {
				m1, d1 = d1, m1
			}
			for _, outAmt := range []*big.Int{m1, d1} {
				tx := common.NewTransactionV5(common.XINAssetId)
				tx.Inputs = append(tx.Inputs, &common.Input{
					Mint:    &common.MintData{Group: "UNIVERSAL", Batch: l.MintBatch + 7, Amount: vpLInt(m1)},
					Deposit: &common.DepositData{Chain: l.Assets[0].Chain, AssetKey: l.Assets[0].Key, Transaction: "0xdouble", Index: 0, Amount: vpLInt(d1)},
				})
				l.addOutputs(tx, []vpLOut{{Type: common.OutputTypeScript, Owners: owners, Threshold: th, Amount: vpLInt(outAmt)}})
				signed := &common.SignedTransaction{Transaction: *tx}
				_ = signed.SignRaw(l.Custodian.PrivateSpendKey)
				ver := signed.AsVersioned()
				back, derr := common.UnmarshalVersionedTransaction(ver.Marshal())
				if derr != nil {
					t.Fatalf("double-payload input does not round-trip: %v", derr)
				}
				var err error
				if p := vpLCatch(func() { err = back.Validate(l.Store, ts, false) }); p != nil {
					t.Fatalf("Validate panicked on a double-payload input: %v", p)
				}
				if err == nil {
					if v := vpC01Oracle(l, back); v != "" {
						t.Fatalf("accepted transaction whose input carries mint %s and deposit %s: %s", m1, d1, v)
					}
				}
				c.Case(back.PayloadHash().String(), true, "double-payload")
			}
		}
		// mint off by one
		mamt := big.NewInt(rapid.Int64Range(2, 1000000000).Draw(t, "mamt"))
		for _, d := range []int64{0, 1, -1} {
			tx := common.NewTransactionV5(common.XINAssetId)
			tx.AddUniversalMintInput(l.MintBatch+9, vpLInt(mamt))
			l.addOutputs(tx, []vpLOut{{Type: common.OutputTypeScript, Owners: owners, Threshold: th, Amount: vpLInt(new(big.Int).Add(mamt, big.NewInt(d)))}})
			signed := &common.SignedTransaction{Transaction: *tx}
			_ = signed.SignRaw(l.Signers[0].PrivateSpendKey)
			ver := signed.AsVersioned()
			err := ver.Validate(l.Store, ts, false)
			if d == 0 {
				if err != nil {
					t.Fatalf("valid mint rejected: %v", err)
				}
				if v := vpC01Oracle(l, ver); v != "" {
					t.Fatalf("accepted mint: %s", v)
				}
				c.Case(ver.PayloadHash().String(), false, "mint-ok")
			} else {
				if err == nil {
					t.Fatalf("mint of %s units into outputs of %d more accepted", mamt, d)
				}
				c.Case(ver.PayloadHash().String(), true, "mint-off")
			}
		}
	})
}
