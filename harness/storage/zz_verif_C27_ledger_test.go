//go:build verif

package storage

import (
	"fmt"
	"testing"

	"github.com/MixinNetwork/mixin/common"
	"github.com/MixinNetwork/mixin/crypto"
	"pgregory.net/rapid"
	kit "verifkit"
)

// The same lifecycle, driven from one layer up: membership operations arrive
// as transactions, pass (or fail) VersionedTransaction.Validate, are locked,
// persisted and finalized by WriteSnapshot, which is what records them in the
// durable membership history. Whatever ends up recorded must be legal by the
// reference lifecycle machine, and ReadAllNodes must equal the recorded history.
type vpC27Ident struct {
	signer common.Address
	payee  common.Address
}

func TestVP_C27_ledger_lifecycle(t *testing.T) {
	c := kit.New(t, "C27", "rapid: on a genesis-loaded ledger (7 accepted nodes) a drawn sequence of 6..24 membership transactions - pledge (funded by a fresh XIN deposit), accept, remove - whose signer/payee come from a pool of 4 identities plus the genesis nodes (so repeats, wrong payees, retired signers, operations on the wrong node happen often), built valid or with one field off (extra of another identity, input of another node, second pledge while one is pending), each pushed through Validate -> LockInputs -> WriteTransaction -> WriteSnapshot; oracle (soundness): every operation that WriteSnapshot recorded is legal in the reference lifecycle machine at that moment, and ReadAllNodes(with and without history) equals the recorded history; rejections are only counted; non-trivial = history with pledge -> accept -> remove of a non-genesis node and >=2 refused operations; distinct by trace")
	c.Require("recorded-pledge", "recorded-accept", "recorded-remove", "refused", "full-cycle", "accept-in-round-0-snapshot")
	kit.SetChecks(kit.N(40, 2500))
	rapid.Check(t, func(t *rapid.T) {
		l := vpLNewLedger(7, "c27l", 3)
		defer l.Close()
		m := &vpC27Model{}
		// genesis history
		for _, n := range l.Store.ReadAllNodes(^uint64(0)>>1, true) {
			m.hist = append(m.hist, vpC27Rec{Ts: n.Timestamp, Signer: n.Signer.PublicSpendKey, Payee: n.Payee.PublicSpendKey, Tx: n.Transaction, State: n.State})
		}
		var pool []vpC27Ident
		for i := 0; i < 4; i++ {
			pool = append(pool, vpC27Ident{vpLNodeAddr(vpLSeed("c27l-signer", i)), vpLNodeAddr(vpLSeed("c27l-payee", i))})
		}
		for i := range l.Signers {
			pool = append(pool, vpC27Ident{l.Signers[i], l.Payees[i]})
		}
		// node -> transaction whose output 0 is its pledge / accept output
		pledgeTx := map[crypto.Key]crypto.Hash{}
		acceptTx := map[crypto.Key]crypto.Hash{}
		for i, g := range l.GenesisTxs {
			if i < len(l.Signers) {
				acceptTx[l.Signers[i].PublicSpendKey] = g.PayloadHash()
			}
		}
		var trace []string
		refused, cycle := 0, false
		cycled := map[crypto.Key]int{}
		steps := rapid.IntRange(6, 24).Draw(t, "steps")
		for si := 0; si < steps; si++ {
			kind := rapid.SampledFrom([]string{"pledge", "accept", "accept", "remove", "remove"}).Draw(t, "kind")
			id := pool[rapid.IntRange(0, len(pool)-1).Draw(t, "ident")]
			// two times in three aim at the identity the operation fits (the
			// pledging one for accept, an accepted pool identity for remove)
			if rapid.IntRange(0, 2).Draw(t, "aim") > 0 {
				for _, cand := range pool {
					k := cand.signer.PublicSpendKey
					if _, has := pledgeTx[k]; kind == "accept" && has {
						id = cand
					}
					if _, has := acceptTx[k]; kind == "remove" && has && cycled[k] == 2 {
						id = cand
					}
				}
			}
			payee := id.payee
			if rapid.IntRange(0, 4).Draw(t, "wrong_payee") == 0 {
				payee = pool[rapid.IntRange(0, len(pool)-1).Draw(t, "other_ident")].payee
			}
			extra := append(append([]byte{}, id.signer.PublicSpendKey[:]...), payee.PublicSpendKey[:]...)
			var ver *common.VersionedTransaction
			switch kind {
			case "pledge":
				room := vpLBig(common.GetAssetCapacity(common.XINAssetId))
				room.Sub(room, l.total(common.XINAssetId))
				room.Sub(room, l.pendingDeposits(common.XINAssetId))
				if room.Cmp(vpLBig(common.KernelNodePledgeAmount.Add(common.NewInteger(1)))) <= 0 {
					continue
				}
				l.Seq++
				dep := l.BuildDeposit(&l.Assets[0], common.KernelNodePledgeAmount, vpLOut{Owners: []int{0}, Threshold: 1}, fmt.Sprintf("0xc27l-%d", l.Seq), 0, nil)
				if err := l.Admit(dep, l.Tick(1000), "deposit"); err != nil {
					t.Fatalf("funding deposit: %v", err)
				}
				l.FinalizeOne(t, []crypto.Hash{dep.PayloadHash()})
				u := l.UTXOs[fmt.Sprintf("%s:%d", dep.PayloadHash(), 0)]
				tx := l.BuildSpend(common.XINAssetId, []*vpLUTXO{u}, []vpLOut{{Type: common.OutputTypeNodePledge, Amount: common.KernelNodePledgeAmount}}, nil, extra)
				ver = l.SignMaps(tx, []*vpLUTXO{u}, [][]int{{0}})
			case "accept":
				// spend the pledge output of this identity if it has one, else of whoever is pledging, else nothing to spend
				src, ok := pledgeTx[id.signer.PublicSpendKey]
				if !ok || rapid.IntRange(0, 5).Draw(t, "other_pledge") == 0 {
					for _, h := range pledgeTx {
						src, ok = h, true
					}
				}
				if !ok {
					continue
				}
				u := l.UTXOs[fmt.Sprintf("%s:%d", src, 0)]
				if u == nil || u.SpentBy.HasValue() || u.Lock.HasValue() {
					continue
				}
				tx := l.BuildSpend(common.XINAssetId, []*vpLUTXO{u}, []vpLOut{{Type: common.OutputTypeNodeAccept, Amount: u.Amount}}, nil, extra)
				signed := &common.SignedTransaction{Transaction: *tx}
				sig := id.signer.PrivateSpendKey.Sign(tx.AsVersioned().PayloadHash())
				signed.SignaturesMap = []map[uint16]*crypto.Signature{{0: &sig}}
				ver = signed.AsVersioned()
			case "remove":
				src, ok := acceptTx[id.signer.PublicSpendKey]
				if !ok || rapid.IntRange(0, 5).Draw(t, "other_accept") == 0 {
					for _, h := range acceptTx {
						src, ok = h, true
					}
				}
				if !ok {
					continue
				}
				u := l.UTXOs[fmt.Sprintf("%s:%d", src, 0)]
				if u == nil || u.SpentBy.HasValue() || u.Lock.HasValue() {
					continue
				}
				tx := l.BuildSpend(common.XINAssetId, []*vpLUTXO{u}, []vpLOut{{Type: common.OutputTypeNodeRemove, Owners: []int{0}, Threshold: 1, Amount: u.Amount}}, nil, extra)
				ver = (&common.SignedTransaction{Transaction: *tx}).AsVersioned()
			}
			ts := l.Tick(uint64(rapid.IntRange(1, 1000000).Draw(t, "dt")))
			legal, why := m.legal(kind, id.signer.PublicSpendKey, payee.PublicSpendKey)
			recorded := false
			var stage string
			var err error
			// an accept is the first snapshot (round 0, no references) of the joining
			// node's own chain; half of the accepts are finalized that way, and
			// without the common-level validation in front, so that the durable
			// check inside the snapshot write is what decides
			round0 := kind == "accept" && rapid.Bool().Draw(t, "accept_round0")
			pan := vpLCatch(func() {
				stage = "validate"
				if !round0 {
					if err = ver.Validate(l.Store, ts, false); err != nil {
						return
					}
				}
				stage = "lock"
				if err = ver.LockInputs(l.Store, false); err != nil {
					return
				}
				stage = "persist"
				if err = l.Store.WriteTransaction(ver); err != nil {
					return
				}
				l.noteAdmitted(ver, kind)
				stage = "finalize"
				if round0 {
					nid := id.signer.Hash().ForNetwork(l.NetId)
					if head, _ := l.Store.ReadRound(nid); head == nil {
						if err = l.Store.StartNewRound(nid, 0, nil, 0); err != nil {
							return
						}
						sn := &common.Snapshot{Version: common.SnapshotVersionCommonEncoding, NodeId: nid, RoundNumber: 0, Timestamp: ts}
						sn.AddTransaction(ver.PayloadHash())
						sn.Signature = &crypto.CosiSignature{Mask: (1 << uint(len(l.NodeIds))) - 1}
						sn.Hash = sn.PayloadHash()
						snap := &common.SnapshotWithTopologicalOrder{Snapshot: sn, TopologicalOrder: l.Topo}
						c.Class("accept-in-round-0-snapshot")
						if err = l.Finalize(snap); err != nil {
							return
						}
						recorded = true
						return
					}
				}
				snap := l.MakeSnapshot(rapid.IntRange(0, 6).Draw(t, "chain"), []crypto.Hash{ver.PayloadHash()}, ts)
				if err = l.Finalize(snap); err != nil {
					return
				}
				recorded = true
			})
			trace = append(trace, fmt.Sprintf("%s(%s)=%v@%s", kind, id.signer.PublicSpendKey.String()[:6], recorded, stage))
			if !recorded {
				refused++
				c.Class("refused")
				if legal {
					c.Class("legal-op-refused-at-" + stage)
				}
				_ = pan
				vpC27Compare(t, l.Store, m, ^uint64(0)>>1, fmt.Sprintf("after refused %s", kind))
				if stage == "finalize" || stage == "persist" {
					// the transaction holds its input now; nothing else to model
				}
				continue
			}
			if !legal {
				t.Fatalf("%s of signer %s payee %s was recorded in the membership history although %s\ntrace %v", kind, id.signer.PublicSpendKey, payee.PublicSpendKey, why, trace)
			}
			m.hist = append(m.hist, vpC27Rec{Ts: ts, Signer: id.signer.PublicSpendKey, Payee: payee.PublicSpendKey, Tx: ver.PayloadHash(), State: vpC27StateOf(kind)})
			c.Class("recorded-" + kind)
			switch kind {
			case "pledge":
				pledgeTx[id.signer.PublicSpendKey] = ver.PayloadHash()
				cycled[id.signer.PublicSpendKey] = 1
			case "accept":
				delete(pledgeTx, id.signer.PublicSpendKey)
				acceptTx[id.signer.PublicSpendKey] = ver.PayloadHash()
				if cycled[id.signer.PublicSpendKey] == 1 {
					cycled[id.signer.PublicSpendKey] = 2
				}
			case "remove":
				delete(acceptTx, id.signer.PublicSpendKey)
				if cycled[id.signer.PublicSpendKey] == 2 {
					cycle = true
					c.Class("full-cycle")
				}
			}
			vpC27Compare(t, l.Store, m, ^uint64(0)>>1, fmt.Sprintf("after recorded %s", kind))
		}
		c.Case(fmt.Sprint(trace), cycle && refused >= 2)
		if len(trace) > 10 {
			trace = trace[:10]
		}
		c.Sample(map[string]any{"trace_head": trace, "refused": refused, "history": len(m.hist)})
	})
}
