//go:build verif

package storage

import (
	"testing"
	"time"

	kit "verifkit"
)

// A queueing whose records lapsed unretrieved (cache TTL) is gone; queueing
// the transaction again must make it eligible like any first queueing.
func TestVP_C23_history_after_expiry(t *testing.T) {
	if kit.Replaying() {
		return
	}
	c := kit.New(t, "C23", "deterministic: a store whose cache TTL is 2 s; 3 transactions are queued and left unretrieved for 3.2 s (past Badger's one-second expiry granularity), the TTL is raised to an hour, two of them are queued again, one is only stored; oracle: the retrieval returns exactly the two re-queued ones, each once; non-trivial = both; distinct by transaction")
	s := vpC23OpenStore(t)
	s.custom.Node.CacheTTL = 2
	ps := vpC23MakePayloads("expiry", []int{1, 1, 1})
	for _, p := range ps {
		if err := s.CacheQueueTransaction(p.Bodies[0]); err != nil {
			t.Fatalf("queue: %v", err)
		}
	}
	time.Sleep(3200 * time.Millisecond)
	s.custom.Node.CacheTTL = 3600
	if got, err := s.CacheRetrieveTransactions(100); err != nil || len(got) != 0 {
		// the lapse is the premise of this check, not its subject
		kit.Inconclusive(t, "queue records did not lapse after 3.2 s with a 2 s TTL (%d returned, %v)", len(got), err)
		return
	}
	for _, p := range ps[:2] {
		if err := s.CacheQueueTransaction(p.Bodies[0]); err != nil {
			t.Fatalf("queue again: %v", err)
		}
	}
	if err := s.CacheStoreTransaction(ps[2].Bodies[0]); err != nil {
		t.Fatalf("store: %v", err)
	}
	got, err := s.CacheRetrieveTransactions(100)
	if err != nil {
		t.Fatalf("retrieve: %v", err)
	}
	seen := map[string]int{}
	for _, g := range got {
		seen[g.PayloadHash().String()]++
	}
	for i, p := range ps[:2] {
		if seen[p.Hash.String()] != 1 {
			t.Fatalf("transaction %d was queued again after its first queueing had lapsed, the queueing returned no error, and the next retrieval returned it %d times", i, seen[p.Hash.String()])
		}
		c.Case("requeued-after-lapse-"+p.Hash.String(), true, "requeued-after-lapse")
	}
	if seen[ps[2].Hash.String()] != 0 {
		t.Fatalf("a transaction that was only stored after its queueing had lapsed was returned")
	}
	c.Case("stored-after-lapse", true, "stored-after-lapse")
}
