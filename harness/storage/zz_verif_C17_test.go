//go:build verif

package storage

import (
	"fmt"
	"math/big"
	"testing"

	"github.com/MixinNetwork/mixin/common"
	"github.com/MixinNetwork/mixin/crypto"
	"github.com/dgraph-io/badger/v4"
	"pgregory.net/rapid"
	kit "verifkit"
)

// vpC17Scan sums, per asset, the amounts of all UTXO records whose lock holder
// is empty or not finalized (outputs not consumed by a finalized transaction).
func vpC17Scan(s *BadgerStore) (map[crypto.Hash]*big.Int, int) {
	sums := map[crypto.Hash]*big.Int{}
	n := 0
	txn := s.snapshotsDB.NewTransaction(false)
	defer txn.Discard()
	opts := badger.DefaultIteratorOptions
	opts.Prefix = []byte(graphPrefixUTXO)
	it := txn.NewIterator(opts)
	defer it.Close()
	for it.Seek(opts.Prefix); it.ValidForPrefix(opts.Prefix); it.Next() {
		v, err := it.Item().ValueCopy(nil)
		if err != nil {
			panic(err)
		}
		u, err := common.UnmarshalUTXO(v)
		if err != nil {
			panic(err)
		}
		n++
		if u.LockHash.HasValue() {
			_, err := txn.Get(graphFinalizationKey(u.LockHash))
			if err == nil {
				continue // consumed by a finalized transaction
			} else if err != badger.ErrKeyNotFound {
				panic(err)
			}
		}
		if sums[u.Asset] == nil {
			sums[u.Asset] = new(big.Int)
		}
		sums[u.Asset].Add(sums[u.Asset], vpLBig(u.Amount))
	}
	return sums, n
}

func vpC17Check(t *rapid.T, l *vpLedger, where string) {
	scan, _ := vpC17Scan(l.Store)
	for _, a := range l.Assets {
		want := l.total(a.Id)
		info, bal, err := l.Store.ReadAssetWithBalance(a.Id)
		if err != nil {
			t.Fatalf("%s: ReadAssetWithBalance(%s): %v", where, a.Name, err)
		}
		if info == nil {
			if want.Sign() != 0 {
				t.Fatalf("%s: asset %s unknown to the store, model total %s", where, a.Name, want)
			}
			if s := scan[a.Id]; s != nil && s.Sign() != 0 {
				t.Fatalf("%s: asset %s unknown to the store but has unconsumed outputs worth %s", where, a.Name, s)
			}
			continue
		}
		got := vpLBig(bal)
		if got.Cmp(want) != 0 {
			t.Fatalf("%s: asset %s recorded total %s, genesis+deposits+mints-submits = %s", where, a.Name, got, want)
		}
		s := scan[a.Id]
		if s == nil {
			s = new(big.Int)
		}
		if s.Cmp(got) != 0 {
			t.Fatalf("%s: asset %s recorded total %s, unconsumed outputs sum to %s", where, a.Name, got, s)
		}
		if got.Sign() < 0 || got.Cmp(vpLBig(common.GetAssetCapacity(a.Id))) > 0 {
			t.Fatalf("%s: asset %s total %s outside [0, capacity]", where, a.Name, got)
		}
	}
}

func TestVP_C17_supply(t *testing.T) {
	c := kit.New(t, "C17", "rapid: finalized histories (10..60 actions: deposits, transfers with fan-in/out, withdrawal submits/claims, mints, node removals, pledges and accepts, batched snapshots, already-final transactions finalized again on other chains, spends naming one output under index and index+256*j whose admission - if any - is carried through to finalization) over 3 assets on a real store; after every finalization the recorded total must equal the model (genesis+deposits+mints-submits) and the UTXO-prefix scan of outputs not consumed by a finalized tx, within [0,capacity]; non-trivial = history with a spend of a deposit-derived output and a submit; distinct by last tx hash")
	c.Require("has-submit", "has-spend", "has-mint", "has-claim", "has-remove", "has-batch", "has-refinalize", "has-pledge", "has-accept", "capacity-crossing-refused", "alias-index-spend-offered", "submit-with-trailing-odd-output-offered", "unbalanced-transfer-offered")
	kit.SetChecks(kit.N(100, 4000))
	rapid.Check(t, func(t *rapid.T) {
		l := vpLNewLedger(7, "c17", 6)
		defer l.Close()
		steps := rapid.IntRange(10, 60).Draw(t, "steps")
		var nsub, nspend, nmint, nclaim, nremove, nbatch, nrefin, npledge, naccept, ncross, nalias, nodd, nunbal int
		for i := 0; i < steps; i++ {
			k := rapid.IntRange(0, 17).Draw(t, "kind")
			fin := rapid.IntRange(0, 2).Draw(t, "fin") != 0
			switch {
			case i < 2 || k <= 2:
				l.StepDeposit(t, fin)
			case k <= 5:
				if l.StepTransfer(t, fin) != nil && fin {
					nspend++
				}
			case k == 6:
				if l.StepSubmit(t, fin) != nil && fin {
					nsub++
				}
			case k == 7:
				if l.StepClaim(t, fin) != nil && fin {
					nclaim++
				}
			case k == 8:
				if l.StepMint(t, fin) != nil && fin {
					nmint++
				}
			case k == 9:
				if l.StepNodeRemove(t, rapid.IntRange(0, 6).Draw(t, "node")) != nil {
					nremove++
				}
			case k == 13:
				if l.StepPledge(t, true) != nil {
					npledge++
				}
			case k == 14:
				if l.StepAccept(t, true) != nil {
					naccept++
				}
			case k == 12:
				if l.StepRefinalize(t) != nil {
					nrefin++
				}
			case k == 17:
				// A transfer whose outputs add up to more (or less) than its inputs.
				// Admission refuses both; whatever it lets through is finalized and
				// judged by the supply check.
				p := l.DrawSpendOf(t, 2, 1, true)
				if p == nil || p.Sum.Cmp(big.NewInt(10)) < 0 {
					continue
				}
				delta := big.NewInt(int64(rapid.SampledFrom([]int{1, 5, -1, 1000000}).Draw(t, "imbalance")))
				total := new(big.Int).Add(p.Sum, delta)
				parts := vpLSplit(t, total, 2, "unbalanced_part")
				tx := l.BuildSpend(p.Asset, p.Ins, []vpLOut{{Type: common.OutputTypeScript, Owners: []int{0}, Threshold: 1, Amount: vpLInt(parts[0])},
					{Type: common.OutputTypeScript, Owners: []int{1}, Threshold: 1, Amount: vpLInt(parts[1])}}, nil, nil)
				ver := l.SignMaps(tx, p.Ins, p.Signers)
				nunbal++
				if err := ver.Validate(l.Store, l.Tick(1000), false); err != nil {
					continue
				}
				if err := ver.LockInputs(l.Store, false); err != nil {
					continue
				}
				if err := l.Store.WriteTransaction(ver); err != nil {
					continue
				}
				snap := l.MakeSnapshot(rapid.IntRange(0, 6).Draw(t, "unbalanced_chain"), []crypto.Hash{ver.PayloadHash()}, l.Tick(1000))
				var werr error
				if pan := vpLCatch(func() { werr = l.Store.WriteSnapshot(snap, l.NodeIds) }); pan != nil || werr != nil {
					continue
				}
				t.Logf("a transfer whose outputs differ from its inputs by %s units was admitted and finalized", delta)
				l.noteAdmitted(ver, "transfer")
				l.Topo = snap.TopologicalOrder + 1
				l.Snapshots = append(l.Snapshots, snap)
				l.applyFinal(ver.PayloadHash(), snap.Hash)
			case k == 16:
				// A withdrawal submit carrying, after its change output, a further
				// output of a type that is not materialized as an unspent output
				// (custodian slash, withdrawal submit, unknown). Admission normally
				// refuses the shape; whatever it lets through is finalized and judged
				// by the supply check.
				p := l.DrawSpendOf(t, 2, 1, true)
				if p == nil || p.Sum.Cmp(big.NewInt(30)) < 0 {
					continue
				}
				parts := vpLSplit(t, p.Sum, 3, "odd_part")
				outs := []vpLOut{{Type: common.OutputTypeWithdrawalSubmit, Amount: vpLInt(parts[0]), Withdraw: &common.WithdrawalData{Address: "odd" + fmt.Sprint(l.Seq), Tag: ""}},
					{Type: common.OutputTypeScript, Owners: []int{0}, Threshold: 1, Amount: vpLInt(parts[1])}}
				tx := l.BuildSpend(p.Asset, p.Ins, outs, nil, nil)
				ot := rapid.SampledFrom([]uint8{common.OutputTypeCustodianSlashNodes, common.OutputTypeCustodianSlashNodes, common.OutputTypeWithdrawalClaim, common.OutputTypeNodePledge, 0x77}).Draw(t, "odd_type")
				tx.Outputs = append(tx.Outputs, &common.Output{Type: ot, Amount: vpLInt(parts[2])})
				ver := l.SignMaps(tx, p.Ins, p.Signers)
				nodd++
				if err := ver.Validate(l.Store, l.Tick(1000), false); err != nil {
					continue
				}
				if err := ver.LockInputs(l.Store, false); err != nil {
					continue
				}
				if err := l.Store.WriteTransaction(ver); err != nil {
					continue
				}
				snap := l.MakeSnapshot(rapid.IntRange(0, 6).Draw(t, "odd_chain"), []crypto.Hash{ver.PayloadHash()}, l.Tick(1000))
				var werr error
				if pan := vpLCatch(func() { werr = l.Store.WriteSnapshot(snap, l.NodeIds) }); pan != nil || werr != nil {
					continue
				}
				// the model books it as an ordinary submit of parts[0]: the rest stays in the ledger
				t.Logf("a withdrawal submit with a trailing output of type %#x was admitted and finalized", ot)
				l.noteAdmitted(ver, "submit")
				l.Topo = snap.TopologicalOrder + 1
				l.Snapshots = append(l.Snapshots, snap)
				l.applyFinal(ver.PayloadHash(), snap.Hash)
			case k == 15:
				// An output named twice under indexes that a careless key layout
				// could fold together (index and index+256*j; indexes up to 1024
				// pass the input format rules): admission normally refuses the
				// second input as unknown. Whatever admission lets through is
				// finalized, and the supply check below judges the result.
				free := l.Unspent(nil, true, true)
				if len(free) == 0 {
					continue
				}
				u := free[rapid.IntRange(0, len(free)-1).Draw(t, "alias_of")]
				if u.Type != common.OutputTypeScript || u.threshold() != 1 || u.Owners[0] < 0 {
					continue
				}
				j := rapid.IntRange(1, 3).Draw(t, "alias_j")
				if u.Index+uint(256*j) > 1024 {
					continue
				}
				twin := *u
				twin.Index = u.Index + uint(256*j)
				ins := []*vpLUTXO{u, &twin}
				tx := l.BuildSpend(u.Asset, ins, []vpLOut{{Type: common.OutputTypeScript, Owners: []int{u.Owners[0]}, Threshold: 1, Amount: u.Amount.Add(u.Amount)}}, nil, []byte("alias"))
				// both inputs are signed with the key of the one real output
				signed := &common.SignedTransaction{Transaction: *tx}
				msg := tx.AsVersioned().PayloadHash()
				for range ins {
					sig := l.ownerKey(u, 0).Sign(msg)
					signed.SignaturesMap = append(signed.SignaturesMap, map[uint16]*crypto.Signature{0: &sig})
				}
				ver := signed.AsVersioned()
				nalias++
				if err := ver.Validate(l.Store, l.Tick(1000), false); err != nil {
					continue
				}
				if err := ver.LockInputs(l.Store, false); err != nil {
					continue
				}
				if err := l.Store.WriteTransaction(ver); err != nil {
					continue
				}
				snap := l.MakeSnapshot(rapid.IntRange(0, 6).Draw(t, "alias_chain"), []crypto.Hash{ver.PayloadHash()}, l.Tick(1000))
				var werr error
				if pan := vpLCatch(func() { werr = l.Store.WriteSnapshot(snap, l.NodeIds) }); pan != nil || werr != nil {
					continue
				}
				t.Logf("a spend of %s:%d together with %s:%d was admitted and finalized", u.Hash, u.Index, u.Hash, twin.Index)
			default:
				var hs []crypto.Hash
				for _, x := range l.PendingTxs() {
					if x.Ver.IsSnapshotBatchable() {
						hs = append(hs, x.Hash)
						switch x.Kind {
						case "submit":
							nsub++
						case "transfer":
							nspend++
						case "claim":
							nclaim++
						}
					}
				}
				if len(hs) > 0 {
					l.FinalizeOne(t, hs)
					if len(hs) > 1 {
						nbatch++
					}
				}
			}
			vpC17Check(t, l, fmt.Sprintf("after step %d", i))
		}
		// finalize what is left (single-tx snapshots for non-batchable ones)
		for _, x := range l.PendingTxs() {
			l.FinalizeOne(t, []crypto.Hash{x.Hash})
			if x.Kind == "mint" {
				nmint++
			}
		}
		vpC17Check(t, l, "at end")
		// the capacity bound is on the running supply, not on one transaction:
		// custodian-signed BTC deposits (capacity 2500), each well below the
		// capacity, are locked and stored past validation's own pre-check (as
		// pending deposits of several snapshots are) and finalized one by one;
		// a finalization that would lift the supply above the capacity must be
		// refused and leave the database as it was
		if rapid.IntRange(0, 2).Draw(t, "cross_capacity") == 0 {
			btc := &l.Assets[1]
			capUnits := vpLBig(common.GetAssetCapacity(btc.Id))
			for j := 0; j < 6; j++ {
				l.Seq++
				amt := common.NewInteger(uint64(rapid.IntRange(300, 900).Draw(t, "cross_amt")))
				ver := l.BuildDeposit(btc, amt, vpLOut{Owners: []int{0}, Threshold: 1}, fmt.Sprintf("0xcross%d", l.Seq), 0, nil)
				if err := ver.LockInputs(l.Store, false); err != nil {
					t.Fatalf("lock crossing deposit: %v", err)
				}
				if err := l.Store.WriteTransaction(ver); err != nil {
					t.Fatalf("persist crossing deposit: %v", err)
				}
				would := new(big.Int).Add(l.total(btc.Id), vpLBig(amt))
				snap := l.MakeSnapshot(rapid.IntRange(0, 6).Draw(t, "cross_chain"), []crypto.Hash{ver.PayloadHash()}, l.Tick(1000))
				before := vpLDump(l.Store)
				var err error
				pan := vpLCatch(func() { err = l.Store.WriteSnapshot(snap, l.NodeIds) })
				if would.Cmp(capUnits) > 0 {
					if err == nil && pan == nil {
						t.Fatalf("a deposit of %s was finalized although it lifts the BTC supply to %s units, above the capacity %s", amt, would, capUnits)
					}
					if d := vpLDumpDiff(before, vpLDump(l.Store)); len(d) > 0 {
						t.Fatalf("refused over-capacity finalization changed the store: %v", d[:min(len(d), 6)])
					}
					ncross++
					break
				}
				if err != nil || pan != nil {
					t.Fatalf("deposit within the capacity (supply would be %s of %s) refused: %v %v", would, capUnits, err, pan)
				}
				l.noteAdmitted(ver, "deposit")
				l.Topo = snap.TopologicalOrder + 1
				l.Snapshots = append(l.Snapshots, snap)
				l.applyFinal(ver.PayloadHash(), snap.Hash)
				vpC17Check(t, l, fmt.Sprintf("after crossing deposit %d", j))
			}
		}
		var cl []string
		for name, n := range map[string]int{"has-submit": nsub, "has-spend": nspend, "has-mint": nmint, "has-claim": nclaim, "has-remove": nremove, "has-batch": nbatch, "has-refinalize": nrefin, "has-pledge": npledge, "has-accept": naccept, "capacity-crossing-refused": ncross, "alias-index-spend-offered": nalias, "submit-with-trailing-odd-output-offered": nodd, "unbalanced-transfer-offered": nunbal} {
			if n > 0 {
				cl = append(cl, name)
			}
		}
		c.Case(l.TxOrder[len(l.TxOrder)-1].String(), nsub > 0 && nspend > 0, cl...)
		c.Sample(map[string]any{"steps": steps, "transactions": len(l.TxOrder), "snapshots": len(l.Snapshots), "submits": nsub, "spends": nspend, "mints": nmint, "claims": nclaim, "removes": nremove, "refinalized": nrefin,
			"totals": map[string]string{"XIN": l.total(l.Assets[0].Id).String(), "BTC": l.total(l.Assets[1].Id).String(), "UNL": l.total(l.Assets[2].Id).String()}})
	})
}
