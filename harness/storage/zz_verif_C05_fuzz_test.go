//go:build verif

package storage

import (
	"fmt"
	"sync"
	"testing"

	"github.com/MixinNetwork/mixin/common"
	"github.com/MixinNetwork/mixin/crypto"
)

// vpC05RO is a read-only view of the ledger for the fuzz target: key
// reservations are answered from the current bindings without writing, so
// iterations stay independent and a saved input reproduces on its own.
type vpC05RO struct {
	*BadgerStore
}

func (s vpC05RO) LockGhostKeys(keys []*crypto.Key, tx crypto.Hash, fork bool) error {
	seen := map[crypto.Key]bool{}
	for _, k := range keys {
		if seen[*k] {
			return fmt.Errorf("duplicated ghost key %s", k.String())
		}
		seen[*k] = true
		by, err := s.BadgerStore.ReadGhostKeyLock(*k)
		if err != nil {
			return err
		}
		if by != nil && *by != tx {
			return fmt.Errorf("ghost key %s locked for transaction %s", k.String(), by.String())
		}
	}
	return nil
}

func (s vpC05RO) LockUTXOs(inputs []*common.Input, tx crypto.Hash, fork bool) error { return nil }
func (s vpC05RO) LockDepositInput(d *common.DepositData, tx crypto.Hash, fork bool) error {
	return nil
}
func (s vpC05RO) LockMintInput(m *common.MintData, tx crypto.Hash, fork bool) error { return nil }

var (
	vpC05FuzzOnce   sync.Once
	vpC05FuzzLedger *vpLedger
	vpC05FuzzSeeds  [][]byte
)

// vpC05FixedLedger deterministically builds a small ledger holding unspent
// outputs of every stored type, and a list of seed encodings.
func vpC05FixedLedger() (*vpLedger, [][]byte) {
	vpC05FuzzOnce.Do(func() {
		l := vpLNewLedger(7, "c05fuzz", 4)
		var seeds [][]byte
		fin := func(ver *common.VersionedTransaction, kind string, chain int) {
			if err := l.Admit(ver, l.Tick(1000), kind); err != nil {
				panic(fmt.Sprint(kind, ": ", err))
			}
			if err := l.Finalize(l.MakeSnapshot(chain, []crypto.Hash{ver.PayloadHash()}, l.Tick(1000))); err != nil {
				panic(fmt.Sprint(kind, " finalize: ", err))
			}
			seeds = append(seeds, ver.Marshal())
		}
		// funds
		var deps []*common.VersionedTransaction
		for i := 0; i < 6; i++ {
			a := &l.Assets[i%2]
			amt := common.NewInteger(uint64(20 + i))
			if i == 4 {
				amt = common.KernelNodePledgeAmount
				a = &l.Assets[0]
			}
			d := l.BuildDeposit(a, amt, vpLOut{Owners: []int{i % 4}, Threshold: 1}, fmt.Sprintf("0xfz%d", i), uint64(i), nil)
			fin(d, "deposit", i%7)
			deps = append(deps, d)
		}
		utxo := func(d *common.VersionedTransaction) *vpLUTXO { return l.UTXOs[fmt.Sprintf("%s:0", d.PayloadHash())] }
		// transfer with two outputs
		u := utxo(deps[1])
		tx := l.BuildSpend(u.Asset, []*vpLUTXO{u}, []vpLOut{{Type: common.OutputTypeScript, Owners: []int{0, 1}, Threshold: 2, Amount: common.NewInteger(11)}, {Type: common.OutputTypeScript, Owners: []int{2}, Threshold: 1, Amount: common.NewInteger(10)}}, nil, nil)
		fin(l.SignMaps(tx, []*vpLUTXO{u}, [][]int{{0}}), "transfer", 1)
		// submit + claim
		u = utxo(deps[2])
		tx = l.BuildSpend(u.Asset, []*vpLUTXO{u}, []vpLOut{{Type: common.OutputTypeWithdrawalSubmit, Amount: common.NewInteger(2), Withdraw: &common.WithdrawalData{Address: "a", Tag: "t"}}, {Type: common.OutputTypeScript, Owners: []int{1}, Threshold: 1, Amount: common.NewInteger(20)}}, nil, nil)
		submit := l.SignMaps(tx, []*vpLUTXO{u}, [][]int{{0}})
		fin(submit, "submit", 2)
		u = l.UTXOs[fmt.Sprintf("%s:1", submit.PayloadHash())]
		body := []byte("proof")
		sig := l.Custodian.PrivateSpendKey.Sign(crypto.Blake3Hash(body))
		tx = l.BuildSpend(u.Asset, []*vpLUTXO{u}, []vpLOut{{Type: common.OutputTypeWithdrawalClaim, Amount: common.NewIntegerFromString("0.0001")}, {Type: common.OutputTypeScript, Owners: []int{1}, Threshold: 1, Amount: common.NewIntegerFromString("19.9999")}}, []crypto.Hash{submit.PayloadHash()}, append(sig[:], body...))
		fin(l.SignMaps(tx, []*vpLUTXO{u}, [][]int{{0}}), "claim", 3)
		// node remove of genesis node 6
		g := l.GenesisTxs[6]
		u = l.UTXOs[fmt.Sprintf("%s:0", g.PayloadHash())]
		tx = l.BuildSpend(common.XINAssetId, []*vpLUTXO{u}, []vpLOut{{Type: common.OutputTypeNodeRemove, Owners: []int{3}, Threshold: 1, Amount: u.Amount}}, nil, g.Extra)
		fin((&common.SignedTransaction{Transaction: *tx}).AsVersioned(), "remove", 4)
		// pledge (finalized, pledge output stays unspent)
		u = utxo(deps[4])
		signer := vpLNodeAddr(vpLSeed("fz-signer"))
		payee := vpLNodeAddr(vpLSeed("fz-payee"))
		extra := append(append([]byte{}, signer.PublicSpendKey[:]...), payee.PublicSpendKey[:]...)
		tx = l.BuildSpend(common.XINAssetId, []*vpLUTXO{u}, []vpLOut{{Type: common.OutputTypeNodePledge, Amount: u.Amount}}, nil, extra)
		pledge := l.SignMaps(tx, []*vpLUTXO{u}, [][]int{{0}})
		fin(pledge, "pledge", 5)
		// accept-shaped and cancel-shaped, unsubmitted seeds
		pu := l.UTXOs[fmt.Sprintf("%s:0", pledge.PayloadHash())]
		tx = l.BuildSpend(common.XINAssetId, []*vpLUTXO{pu}, []vpLOut{{Type: common.OutputTypeNodeAccept, Amount: pu.Amount}}, nil, extra)
		sg := &common.SignedTransaction{Transaction: *tx}
		s2 := signer.PrivateSpendKey.Sign(tx.AsVersioned().PayloadHash())
		sg.SignaturesMap = []map[uint16]*crypto.Signature{{0: &s2}}
		seeds = append(seeds, sg.AsVersioned().Marshal())
		fee := pu.Amount.Div(100)
		tx = l.BuildSpend(common.XINAssetId, []*vpLUTXO{pu}, []vpLOut{{Type: common.OutputTypeNodeCancel, Amount: fee}, {Type: common.OutputTypeScript, Owners: []int{0}, Threshold: 1, Amount: pu.Amount.Sub(fee)}}, nil, append(append([]byte{}, extra...), l.Accts[0].PrivateViewKey[:]...))
		sg = &common.SignedTransaction{Transaction: *tx}
		sg.SignaturesMap = []map[uint16]*crypto.Signature{{0: &s2}}
		seeds = append(seeds, sg.AsVersioned().Marshal())
		// mint, custodian-update shaped, storage output shaped, node-remove typed spend without maps
		mtx := common.NewTransactionV5(common.XINAssetId)
		mtx.AddUniversalMintInput(3, common.NewInteger(5))
		l.addOutputs(mtx, []vpLOut{{Type: common.OutputTypeScript, Owners: []int{0}, Threshold: 1, Amount: common.NewInteger(5)}})
		msg := &common.SignedTransaction{Transaction: *mtx}
		_ = msg.SignRaw(l.Signers[0].PrivateSpendKey)
		seeds = append(seeds, msg.AsVersioned().Marshal())
		u = utxo(deps[0])
		tx = l.BuildSpend(common.XINAssetId, []*vpLUTXO{u}, []vpLOut{{Type: common.OutputTypeCustodianUpdateNodes, Owners: []int{0}, Threshold: 64, Amount: u.Amount}}, nil, l.GenesisTxs[7].Extra)
		seeds = append(seeds, l.SignMaps(tx, []*vpLUTXO{u}, [][]int{{0}}).Marshal())
		tx = l.BuildSpend(common.XINAssetId, []*vpLUTXO{u}, []vpLOut{{Type: common.OutputTypeScript, Owners: []int{0}, Threshold: 64, Amount: u.Amount}}, nil, make([]byte, 300))
		seeds = append(seeds, l.SignMaps(tx, []*vpLUTXO{u}, [][]int{{0}}).Marshal())
		tx = l.BuildSpend(common.XINAssetId, []*vpLUTXO{u}, []vpLOut{{Type: common.OutputTypeNodeRemove, Owners: []int{0}, Threshold: 1, Amount: u.Amount}}, nil, nil)
		seeds = append(seeds, (&common.SignedTransaction{Transaction: *tx}).AsVersioned().Marshal())
		vpC05FuzzLedger, vpC05FuzzSeeds = l, seeds
	})
	return vpC05FuzzLedger, vpC05FuzzSeeds
}

func vpC05FuzzOne(t *testing.T, data []byte) {
	l, _ := vpC05FixedLedger()
	ver, err := common.UnmarshalVersionedTransaction(data)
	if err != nil {
		return
	}
	fork := len(data)%2 == 1
	ts := l.Clock + 1 + uint64(len(data)%7)*1000
	if p := vpLCatch(func() { _ = ver.Validate(vpC05RO{l.Store}, ts, fork) }); p != nil {
		t.Fatalf("Validate panicked on a decodable transaction (type %d): %v", ver.TransactionType(), p)
	}
}

func FuzzVP_C05_validate(f *testing.F) {
	_, seeds := vpC05FixedLedger()
	for _, s := range seeds {
		f.Add(s)
	}
	f.Fuzz(func(t *testing.T, data []byte) {
		vpC05FuzzOne(t, data)
	})
}

// The seeds themselves run in both tiers (no fuzzing engine involved).
func TestVP_C05_fuzz_seeds(t *testing.T) {
	_, seeds := vpC05FixedLedger()
	for _, s := range seeds {
		vpC05FuzzOne(t, s)
		for i := 0; i < len(s); i += 1 + len(s)/97 {
			m := append([]byte{}, s...)
			m[i] ^= 0x01
			vpC05FuzzOne(t, m)
			m[i] = 0xff
			vpC05FuzzOne(t, m)
		}
	}
}
