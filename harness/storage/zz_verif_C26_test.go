//go:build verif

package storage

import (
	"fmt"
	"os"
	"sort"
	"strings"
	"sync/atomic"
	"testing"

	"github.com/MixinNetwork/mixin/common"
	"github.com/MixinNetwork/mixin/crypto"
	"pgregory.net/rapid"
	kit "verifkit"
)

// ---- generated workload -----------------------------------------------------

type vpC26Snap struct {
	Hash    crypto.Hash
	Ts      uint64
	Signers []int // indexes into the node pool; contains the proposer unless empty
}

type vpC26Round struct {
	Snaps  []vpC26Snap // timestamp order
	Credit bool        // fixed per round, as the kernel derives it from the round
	Mixed  bool        // a signer-less first snapshot (genesis) followed by cosigned ones
}

type vpC26Chain struct {
	Proposer int
	Rounds   []vpC26Round
}

type vpC26Work struct {
	Salt   string
	Nodes  []crypto.Hash // 7 node ids, fresh per case
	Chains []vpC26Chain
	Days   map[uint32]bool
}

var vpC26Counter int64

const vpC26Second = uint64(1000000000)

// vpC26GenWork draws 1..3 chains with 2..6 rounds each. A round has 1..6
// snapshots within less than one round gap (3 s); rounds advance in time and
// sometimes cross into the next day(s); a round that itself straddles midnight
// always has credit=false (kernel/mint.go: credit = day(round) == day(next round)).
func vpC26GenWork(t *rapid.T) *vpC26Work {
	w := &vpC26Work{Salt: fmt.Sprintf("%d", atomic.AddInt64(&vpC26Counter, 1)), Days: map[uint32]bool{}}
	for i := 0; i < 7; i++ {
		w.Nodes = append(w.Nodes, crypto.Blake3Hash([]byte(fmt.Sprintf("vpC26-node-%s-%d", w.Salt, i))))
	}
	nch := rapid.IntRange(1, 3).Draw(t, "chains")
	proposers := rapid.Permutation([]int{0, 1, 2, 3, 4, 5, 6}).Draw(t, "proposers")
	baseDay := uint64(19675 + rapid.IntRange(0, 2).Draw(t, "base_day")) // 2023-11-14..
	for ci := 0; ci < nch; ci++ {
		ch := vpC26Chain{Proposer: proposers[ci]}
		nr := rapid.IntRange(2, 6).Draw(t, "rounds")
		// start a few seconds before some midnight, so day changes are frequent
		ts := baseDay*DAY_U64 + DAY_U64 - uint64(rapid.IntRange(1, 20).Draw(t, "before_midnight"))*vpC26Second
		for ri := 0; ri < nr; ri++ {
			var r vpC26Round
			ns := rapid.IntRange(1, 6).Draw(t, "snaps")
			genesisLike := ri == 0 && rapid.IntRange(0, 3).Draw(t, "genesis_like") == 0
			// round 0 of a genesis chain: the signer-less genesis snapshot, alone or
			// (mixed) joined later by cosigned snapshots
			r.Mixed = genesisLike && rapid.Bool().Draw(t, "genesis_grows")
			if genesisLike && !r.Mixed && ns > 2 {
				ns = 2
			}
			if r.Mixed && ns < 2 {
				ns = 2
			}
			span := uint64(rapid.IntRange(ns, 2999).Draw(t, "span_ms")) * 1000000
			step := span / uint64(ns)
			for si := 0; si < ns; si++ {
				s := vpC26Snap{Ts: ts + uint64(si)*step + uint64(rapid.IntRange(0, 999).Draw(t, "jitter"))}
				s.Hash = crypto.Blake3Hash([]byte(fmt.Sprintf("vpC26-snap-%s-%d-%d-%d", w.Salt, ci, ri, si)))
				if !genesisLike || (r.Mixed && si > 0) {
					set := map[int]bool{ch.Proposer: true}
					for _, k := range rapid.SliceOfN(rapid.IntRange(0, 6), 0, 6).Draw(t, "signers") {
						set[k] = true
					}
					for k := range set {
						s.Signers = append(s.Signers, k)
					}
					sort.Ints(s.Signers)
					if rapid.Bool().Draw(t, "proposer_last") { // position of the proposer in the list is free
						for i, k := range s.Signers {
							if k == ch.Proposer {
								s.Signers = append(append(append([]int{}, s.Signers[:i]...), s.Signers[i+1:]...), k)
								break
							}
						}
					}
				}
				r.Snaps = append(r.Snaps, s)
			}
			first, last := r.Snaps[0].Ts/DAY_U64, r.Snaps[len(r.Snaps)-1].Ts/DAY_U64
			r.Credit = first == last && rapid.IntRange(0, 7).Draw(t, "credit") != 0
			for _, s := range r.Snaps {
				w.Days[uint32(s.Ts/DAY_U64)] = true
			}
			ch.Rounds = append(ch.Rounds, r)
			// next round starts after this one: a few seconds, or the next day
			ts = r.Snaps[len(r.Snaps)-1].Ts + uint64(rapid.IntRange(1, 15).Draw(t, "gap_s"))*vpC26Second
			if rapid.IntRange(0, 5).Draw(t, "next_day") == 0 {
				ts += DAY_U64 - uint64(rapid.IntRange(0, 30).Draw(t, "day_shift"))*vpC26Second
			}
		}
		w.Chains = append(w.Chains, ch)
	}
	return w
}

// ---- reference model (from the statement) -----------------------------------

// Every snapshot that was part of an accepted submission of a crediting round
// counts exactly once: one proposal for its proposer, one signature for every
// other signer, on the snapshot's day. Snapshots without signers (genesis) are
// only bounded, see vpC26Model.check.
type vpC26Model struct {
	w        *vpC26Work
	credited map[crypto.Hash]bool
	lead     map[int]map[uint32]uint64
	sign     map[int]map[uint32]uint64
	unsigned map[int]map[uint32]uint64 // distinct signer-less snapshots seen, by proposer/day
	seenUns  map[crypto.Hash]bool
	offset   []uint64 // highest accepted round per chain
	started  []bool
}

func vpC26NewModel(w *vpC26Work) *vpC26Model {
	m := &vpC26Model{w: w, credited: map[crypto.Hash]bool{}, seenUns: map[crypto.Hash]bool{},
		lead: map[int]map[uint32]uint64{}, sign: map[int]map[uint32]uint64{}, unsigned: map[int]map[uint32]uint64{},
		offset: make([]uint64, len(w.Chains)), started: make([]bool, len(w.Chains))}
	for i := 0; i < 7; i++ {
		m.lead[i], m.sign[i], m.unsigned[i] = map[uint32]uint64{}, map[uint32]uint64{}, map[uint32]uint64{}
	}
	return m
}

// submit returns false when the statement says the submission is stale (an
// older round than one already submitted) and must be ignored.
func (m *vpC26Model) submit(ci int, round uint64, members []int) bool {
	if m.started[ci] && round < m.offset[ci] {
		return false
	}
	m.started[ci] = true
	m.offset[ci] = round
	ch := m.w.Chains[ci]
	r := ch.Rounds[round]
	for _, si := range members {
		s := r.Snaps[si]
		day := uint32(s.Ts / DAY_U64)
		if len(s.Signers) == 0 {
			if !m.seenUns[s.Hash] {
				m.seenUns[s.Hash] = true
				m.unsigned[ch.Proposer][day]++
			}
			continue
		}
		if !r.Credit || m.credited[s.Hash] {
			continue
		}
		m.credited[s.Hash] = true
		m.lead[ch.Proposer][day]++
		for _, k := range s.Signers {
			if k != ch.Proposer {
				m.sign[k][day]++
			}
		}
	}
	return true
}

func (m *vpC26Model) check(t *rapid.T, s *BadgerStore, when string) {
	days := []uint32{}
	for d := range m.w.Days {
		days = append(days, d, d+1, d-1)
	}
	for _, d := range days {
		got, err := s.ListNodeWorks(m.w.Nodes, d)
		if err != nil {
			t.Fatalf("ListNodeWorks: %v", err)
		}
		for i, id := range m.w.Nodes {
			g := got[id]
			lo, hi := m.lead[i][d], m.lead[i][d]+m.unsigned[i][d]
			if g[0] < lo || g[0] > hi || g[1] != m.sign[i][d] {
				t.Fatalf("%s: node %d day %d works (lead,sign)=(%d,%d), expected lead %d..%d sign %d", when, i, d, g[0], g[1], lo, hi, m.sign[i][d])
			}
		}
	}
	for ci, ch := range m.w.Chains {
		off, err := s.ReadWorkOffset(m.w.Nodes[ch.Proposer])
		if err != nil {
			t.Fatalf("ReadWorkOffset: %v", err)
		}
		if off != m.offset[ci] {
			t.Fatalf("%s: chain %d work offset %d, highest submitted round %d", when, ci, off, m.offset[ci])
		}
	}
}

// ---- driver -----------------------------------------------------------------

type vpC26Run struct {
	t       *rapid.T
	dir     string
	s       *BadgerStore
	w       *vpC26Work
	m       *vpC26Model
	cur     []int          // current (highest submitted) round per chain, -1 before the first
	have    []map[int]bool // members of the current round submitted so far
	trace   []string
	subs    map[string]int // submissions per chain/round
	grow    map[string]int // growing submissions per chain/round
	reopens int
	stale   int
}

func (r *vpC26Run) works(ci int, round int, members []int, shuffle bool) []*common.SnapshotWork {
	ch := r.w.Chains[ci]
	out := make([]*common.SnapshotWork, 0, len(members))
	for _, si := range members {
		s := ch.Rounds[round].Snaps[si]
		sw := &common.SnapshotWork{Hash: s.Hash, Timestamp: s.Ts}
		for _, k := range s.Signers {
			sw.Signers = append(sw.Signers, r.w.Nodes[k])
		}
		out = append(out, sw)
	}
	if shuffle {
		for i, j := 0, len(out)-1; i < j; i, j = i+1, j-1 {
			out[i], out[j] = out[j], out[i]
		}
	}
	return out
}

func (r *vpC26Run) submit(ci, round int, members []int, shuffle bool, tag string) {
	ch := r.w.Chains[ci]
	sort.Ints(members)
	err := s26Write(r.s, r.w.Nodes[ch.Proposer], uint64(round), r.works(ci, round, members, shuffle), ch.Rounds[round].Credit)
	if err != nil {
		r.t.Fatalf("WriteRoundWork(chain %d round %d, %d snapshots): %v", ci, round, len(members), err)
	}
	if !r.m.submit(ci, uint64(round), members) {
		r.stale++
	}
	r.trace = append(r.trace, fmt.Sprintf("%s%d.%d%v", tag, ci, round, members))
	r.m.check(r.t, r.s, fmt.Sprintf("after %s of chain %d round %d members %v", tag, ci, round, members))
}

func s26Write(s *BadgerStore, node crypto.Hash, round uint64, works []*common.SnapshotWork, credit bool) (err error) {
	if p := vpSCatch(func() { err = s.WriteRoundWork(node, round, works, credit) }); p != "" {
		return fmt.Errorf("panic: %s", p)
	}
	return err
}

func (r *vpC26Run) reopen() {
	if err := vpSCloseSnapshotsOnly(r.s); err != nil {
		r.t.Fatalf("close: %v", err)
	}
	r.s = vpSOpenSnapshotsOnly(r.t, r.dir)
	r.reopens++
	r.trace = append(r.trace, "R")
	r.m.check(r.t, r.s, "after reopen")
}

// restart does what AggregateMintWork does after a crash: read the offset and
// submit that round again with everything known of it.
func (r *vpC26Run) restart(ci int) {
	if r.cur[ci] < 0 {
		return
	}
	off, err := r.s.ReadWorkOffset(r.w.Nodes[r.w.Chains[ci].Proposer])
	if err != nil || int(off) != r.cur[ci] {
		r.t.Fatalf("restart: offset %d (%v), expected %d", off, err, r.cur[ci])
	}
	r.submit(ci, r.cur[ci], vpC26Keys(r.have[ci]), false, "A")
	r.count(ci, false)
}

func vpC26Keys(m map[int]bool) []int {
	out := []int{}
	for k := range m {
		out = append(out, k)
	}
	sort.Ints(out)
	return out
}

func (r *vpC26Run) count(ci int, grew bool) {
	k := fmt.Sprintf("%d.%d", ci, r.cur[ci])
	r.subs[k]++
	if grew {
		r.grow[k]++
	}
}

// step performs one drawn submission on chain ci.
func (r *vpC26Run) step(t *rapid.T, ci int) {
	ch := r.w.Chains[ci]
	kind := rapid.SampledFrom([]string{"grow", "grow", "repeat", "advance", "advance", "old"}).Draw(t, "kind")
	shuffle := rapid.IntRange(0, 3).Draw(t, "reverse_order") == 0
	if r.cur[ci] < 0 {
		kind = "advance"
	}
	switch kind {
	case "grow":
		round := r.cur[ci]
		missing := []int{}
		for si := range ch.Rounds[round].Snaps {
			if !r.have[ci][si] {
				missing = append(missing, si)
			}
		}
		grew := false
		if len(missing) > 0 {
			n := rapid.IntRange(1, len(missing)).Draw(t, "add")
			for _, si := range rapid.Permutation(missing).Draw(t, "which")[:n] {
				r.have[ci][si] = true
			}
			grew = true
		}
		r.submit(ci, round, vpC26Keys(r.have[ci]), shuffle, "G")
		r.count(ci, grew)
	case "repeat":
		r.submit(ci, r.cur[ci], vpC26Keys(r.have[ci]), shuffle, "S")
		r.count(ci, false)
	case "advance":
		if r.cur[ci]+1 >= len(ch.Rounds) {
			r.submit(ci, r.cur[ci], vpC26Keys(r.have[ci]), shuffle, "S")
			r.count(ci, false)
			return
		}
		r.cur[ci]++
		round := r.cur[ci]
		n := len(ch.Rounds[round].Snaps)
		r.have[ci] = map[int]bool{}
		k := rapid.IntRange(1, n).Draw(t, "first")
		idx := make([]int, n)
		for i := range idx {
			idx[i] = i
		}
		if ch.Rounds[round].Mixed {
			// the genesis round is first submitted while it holds the genesis
			// snapshot alone (a batch led by a signer-less snapshot is never
			// credited, so the kernel never relies on it)
			r.have[ci][0] = true
		} else if rapid.Bool().Draw(t, "prefix") {
			for _, si := range idx[:k] {
				r.have[ci][si] = true
			}
		} else {
			for _, si := range rapid.Permutation(idx).Draw(t, "subset")[:k] {
				r.have[ci][si] = true
			}
		}
		r.submit(ci, round, vpC26Keys(r.have[ci]), shuffle, "N")
		r.count(ci, true)
	case "old":
		if r.cur[ci] == 0 {
			r.submit(ci, 0, vpC26Keys(r.have[ci]), shuffle, "S")
			r.count(ci, false)
			return
		}
		round := rapid.IntRange(0, r.cur[ci]-1).Draw(t, "old_round")
		n := len(ch.Rounds[round].Snaps)
		k := rapid.IntRange(1, n).Draw(t, "old_members")
		idx := make([]int, n)
		for i := range idx {
			idx[i] = i
		}
		r.submit(ci, round, append([]int{}, idx[:k]...), shuffle, "O")
	}
}

func vpC26NewRun(t *rapid.T, dir string, s *BadgerStore, w *vpC26Work) *vpC26Run {
	r := &vpC26Run{t: t, dir: dir, s: s, w: w, m: vpC26NewModel(w), subs: map[string]int{}, grow: map[string]int{}}
	for range w.Chains {
		r.cur = append(r.cur, -1)
		r.have = append(r.have, map[int]bool{})
	}
	return r
}

func (r *vpC26Run) classes() (bool, []string) {
	cls := map[string]bool{}
	nt := false
	for ci, ch := range r.w.Chains {
		days := map[uint64]bool{}
		for ri, rd := range ch.Rounds {
			if ri > r.cur[ci] {
				break
			}
			k := fmt.Sprintf("%d.%d", ci, ri)
			for _, s := range rd.Snaps {
				days[s.Ts/DAY_U64] = true
			}
			if !rd.Credit {
				cls["no-credit-round"] = true
				if rd.Snaps[0].Ts/DAY_U64 != rd.Snaps[len(rd.Snaps)-1].Ts/DAY_U64 {
					cls["round-straddles-midnight"] = true
				}
			}
			if len(rd.Snaps[0].Signers) == 0 {
				cls["genesis-like"] = true
			}
			if rd.Mixed && r.grow[k] >= 2 {
				cls["genesis-round-grown"] = true
			}
			if r.subs[k] >= 3 && r.grow[k] >= 2 {
				cls["round-3x-growing"] = true
				if len(days) >= 2 {
					nt = true
				}
			}
		}
		if len(days) >= 2 {
			cls["two-days"] = true
		}
	}
	if r.stale > 0 {
		cls["stale-round-ignored"] = true
	}
	if r.reopens > 0 {
		cls["reopened"] = true
	}
	if len(r.w.Chains) > 1 {
		cls["multi-chain"] = true
	}
	out := []string{}
	for k := range cls {
		out = append(out, k)
	}
	sort.Strings(out)
	return nt, out
}

type vpC26Shared struct {
	dir string
	s   *BadgerStore
}

func vpC26Open(t *testing.T) *vpC26Shared {
	dir, err := os.MkdirTemp("", "vpC26-")
	if err != nil {
		t.Fatal(err)
	}
	sh := &vpC26Shared{dir: dir, s: vpSOpenSnapshotsOnly(t, dir)}
	t.Cleanup(func() {
		_ = vpSCloseSnapshotsOnly(sh.s)
		_ = os.RemoveAll(dir)
	})
	return sh
}

// TestVP_C26_history: drawn submission patterns with reopen at drawn points.
func TestVP_C26_history(t *testing.T) {
	c := kit.New(t, "C26", "rapid: 7 fresh node ids per case on one shared store; 1..3 chains x 2..6 rounds x 1..6 snapshots (signer sets always containing the proposer, or a signer-less genesis-like first round, or a first round whose signer-less genesis snapshot is submitted alone first and then joined by cosigned snapshots), rounds within <3 s, day changes frequent, credit fixed per round (false whenever the round straddles midnight); T.Repeat of submissions that stay inside what kernel/mint.go guarantees (round <= offset+1, growing member sets, plus repeats and stale older rounds) with the store closed and reopened at drawn call boundaries followed by the kernel's restart re-submission; after every call ListNodeWorks for all nodes and days (and the days around) and ReadWorkOffset are compared with a set-semantics model; non-trivial = a round submitted >=3 times with a set that grew at least twice in a chain that spans >=2 days; distinct by the call trace")
	c.Require("round-3x-growing", "two-days", "stale-round-ignored", "reopened", "no-credit-round", "genesis-like", "genesis-round-grown", "multi-chain", "round-straddles-midnight")
	c.Assume("Badger commits are atomic and durable (SyncWrites): a crash is modelled as close+reopen at a call boundary", "snapshots without signers (genesis) earn their proposer 0 or 1 proposal credit: only bounded, not pinned")
	kit.SetChecks(kit.N(400, 10000))
	kit.SetSteps(16)
	sh := vpC26Open(t)
	rapid.Check(t, func(t *rapid.T) {
		w := vpC26GenWork(t)
		r := vpC26NewRun(t, sh.dir, sh.s, w)
		defer func() { sh.s = r.s }()
		r.m.check(t, r.s, "initially")
		crashy := rapid.IntRange(0, 5).Draw(t, "crashy_case") == 0
		t.Repeat(map[string]func(*rapid.T){
			"submit": func(t *rapid.T) {
				r.step(t, rapid.IntRange(0, len(w.Chains)-1).Draw(t, "chain"))
			},
			"crash": func(t *rapid.T) {
				if !crashy || rapid.IntRange(0, 2).Draw(t, "really") != 0 {
					r.step(t, rapid.IntRange(0, len(w.Chains)-1).Draw(t, "chain"))
					return
				}
				r.reopen()
				for ci := range w.Chains {
					r.restart(ci)
				}
			},
		})
		nt, cls := r.classes()
		c.Case(strings.Join(r.trace, " "), nt, cls...)
		c.Sample(strings.Join(r.trace, " "))
	})
}

// TestVP_C26_reopen_every_boundary enumerates the crash points of a history:
// the same drawn submission list is executed once per call boundary k with a
// close/reopen/restart at k (fresh node ids each time), and once with a reopen
// at every boundary.
func TestVP_C26_reopen_every_boundary(t *testing.T) {
	c := kit.New(t, "C26", "fault enumeration: a drawn submission list (as in TestVP_C26_history, 6..14 calls) is replayed with the store closed, reopened and the kernel restart re-submission performed after every call in one run, and (thorough tier) additionally once per single boundary k; same oracle after every call; non-trivial = list with a growing round across the boundary; distinct by (call trace, crash position)")
	c.Require("reopened", "round-3x-growing")
	kit.SetChecks(kit.N(5, 240))
	sh := vpC26Open(t)
	rapid.Check(t, func(t *rapid.T) {
		// draw the workload and a fixed script of submissions first
		w0 := vpC26GenWork(t)
		n := rapid.IntRange(6, 14).Draw(t, "calls")
		script := make([]uint64, n)
		for i := range script {
			script[i] = rapid.Uint64().Draw(t, "step_seed")
		}
		positions := []int{-1} // -1: reopen after every call
		if kit.Thorough() {
			for k := 0; k < n; k++ {
				positions = append(positions, k)
			}
		}
		for _, pos := range positions {
			// same workload shape under fresh node ids
			w := *w0
			w.Salt = fmt.Sprintf("%s-p%d", w0.Salt, pos)
			w.Nodes = nil
			for i := 0; i < 7; i++ {
				w.Nodes = append(w.Nodes, crypto.Blake3Hash([]byte(fmt.Sprintf("vpC26-node-%s-%d", w.Salt, i))))
			}
			w.Chains = nil
			for ci, ch := range w0.Chains {
				nc := vpC26Chain{Proposer: ch.Proposer}
				for ri, rd := range ch.Rounds {
					nr := vpC26Round{Credit: rd.Credit, Mixed: rd.Mixed}
					for si, s := range rd.Snaps {
						s.Hash = crypto.Blake3Hash([]byte(fmt.Sprintf("vpC26-snap-%s-%d-%d-%d", w.Salt, ci, ri, si)))
						nr.Snaps = append(nr.Snaps, s)
					}
					nc.Rounds = append(nc.Rounds, nr)
				}
				w.Chains = append(w.Chains, nc)
			}
			r := vpC26NewRun(t, sh.dir, sh.s, &w)
			for k, seed := range script {
				// replay the k-th drawn step deterministically from its seed
				vpC26ScriptedStep(r, seed)
				if pos == -1 || pos == k {
					r.reopen()
					sh.s = r.s
					for ci := range w.Chains {
						r.restart(ci)
					}
				}
			}
			sh.s = r.s
			nt, cls := r.classes()
			c.Case(fmt.Sprintf("%s@%d", strings.Join(r.trace, " "), pos), nt, cls...)
		}
	})
	c.Set("crash_points", "every boundary between WriteRoundWork calls of each drawn list")
}

// vpC26ScriptedStep is step() driven by a number instead of rapid draws, so one
// drawn script can be replayed several times.
func vpC26ScriptedStep(r *vpC26Run, seed uint64) {
	next := func(n int) int {
		seed = seed*6364136223846793005 + 1442695040888963407
		return int((seed >> 33) % uint64(n))
	}
	ci := next(len(r.w.Chains))
	ch := r.w.Chains[ci]
	kind := []string{"grow", "grow", "grow", "repeat", "advance", "old"}[next(6)]
	if r.cur[ci] < 0 {
		kind = "advance"
	}
	switch kind {
	case "grow":
		round := r.cur[ci]
		grew := false
		for si := range ch.Rounds[round].Snaps {
			if !r.have[ci][si] && (next(2) == 0 || !grew) {
				r.have[ci][si] = true
				grew = true
				if next(2) == 0 {
					break
				}
			}
		}
		r.submit(ci, round, vpC26Keys(r.have[ci]), next(4) == 0, "G")
		r.count(ci, grew)
	case "repeat":
		r.submit(ci, r.cur[ci], vpC26Keys(r.have[ci]), next(4) == 0, "S")
		r.count(ci, false)
	case "advance":
		if r.cur[ci]+1 >= len(ch.Rounds) {
			r.submit(ci, r.cur[ci], vpC26Keys(r.have[ci]), false, "S")
			r.count(ci, false)
			return
		}
		r.cur[ci]++
		round := r.cur[ci]
		r.have[ci] = map[int]bool{next(len(ch.Rounds[round].Snaps)): true}
		if ch.Rounds[round].Mixed {
			r.have[ci] = map[int]bool{0: true}
		}
		r.submit(ci, round, vpC26Keys(r.have[ci]), false, "N")
		r.count(ci, true)
	case "old":
		if r.cur[ci] == 0 {
			r.submit(ci, 0, vpC26Keys(r.have[ci]), false, "S")
			r.count(ci, false)
			return
		}
		round := next(r.cur[ci])
		r.submit(ci, round, []int{0}, false, "O")
	}
}
