//go:build verif

package storage

import (
	"fmt"
	"sort"
	"sync"
	"testing"

	"github.com/MixinNetwork/mixin/common"
	"github.com/MixinNetwork/mixin/crypto"
	"pgregory.net/rapid"
	kit "verifkit"
)

var vpC04Exceptions = []string{
	"c63b6373652def5999c1d951fcb8f064db67b7d18565847b921b21639e15dddd",
	"60deaf2471bb0b6481efe9080d8852b020ab2941e7faae21989d2404f34284ee",
	"a558b1efbe27eb6a6f902fd97d4b7e2e3099e6edde1fe6e8e41204e0685fe426",
}

type vpC04Cand struct {
	ver      *common.VersionedTransaction
	hash     crypto.Hash
	keys     []crypto.Key // all output keys in order
	selfDup  bool
	locked   bool // inputs locked + body written
	final    bool
	ins      []*vpLUTXO
	rejected bool
	pruned   bool // displaced by a finalization-path takeover of its input
	remove   bool // a node removal (keys on a node-remove output)
}

func vpC04Pool(n int) []crypto.Key {
	var pool []crypto.Key
	for i := 0; i < n; i++ {
		pool = append(pool, crypto.NewKeyFromSeed(vpLSeed("c04-pool", i)).Public())
	}
	return pool
}

// vpC04MakeCand builds a valid transfer of one free output whose output keys
// are replaced by pool keys (possibly repeating inside the transaction).
func vpC04MakeCand(t *rapid.T, l *vpLedger, pool []crypto.Key, u *vpLUTXO) *vpC04Cand {
	nout := rapid.IntRange(1, 3).Draw(t, "nout")
	amt := vpLBig(u.Amount)
	if amt.IsInt64() && amt.Int64() < int64(nout) {
		nout = 1
	}
	var outs []vpLOut
	for _, part := range vpLSplit(t, amt, nout, "part") {
		nk := rapid.IntRange(1, 3).Draw(t, "nk")
		outs = append(outs, vpLOut{Type: common.OutputTypeScript, Owners: vpLRange(nk), Threshold: 1, Amount: vpLInt(part)})
	}
	tx := l.BuildSpend(u.Asset, []*vpLUTXO{u}, outs, nil, nil)
	c := &vpC04Cand{ins: []*vpLUTXO{u}}
	seen := map[crypto.Key]bool{}
	for _, o := range tx.Outputs {
		for k := range o.Keys {
			if rapid.IntRange(0, 3).Draw(t, "use_pool") != 0 {
				pk := pool[rapid.IntRange(0, len(pool)-1).Draw(t, "pool_key")]
				o.Keys[k] = &pk
			}
			if seen[*o.Keys[k]] {
				c.selfDup = true
			}
			seen[*o.Keys[k]] = true
			c.keys = append(c.keys, *o.Keys[k])
		}
	}
	c.ver = l.SignMaps(tx, []*vpLUTXO{u}, [][]int{{0}})
	c.hash = c.ver.PayloadHash()
	return c
}

// vpC04MakeRemove builds the removal of genesis node `which`: its pledge goes
// back through a node-remove output, which carries one-time keys like a script
// output does (so does a custodian-update output); the keys come from the pool.
func vpC04MakeRemove(t *rapid.T, l *vpLedger, pool []crypto.Key, which int) *vpC04Cand {
	gtx := l.GenesisTxs[which]
	u := l.UTXOs[fmt.Sprintf("%s:%d", gtx.PayloadHash(), 0)]
	if u == nil {
		return nil
	}
	nk := rapid.IntRange(1, 3).Draw(t, "remove_nk")
	tx := l.BuildSpend(common.XINAssetId, []*vpLUTXO{u}, []vpLOut{{Type: common.OutputTypeNodeRemove, Owners: vpLRange(nk), Threshold: 1, Amount: u.Amount}}, nil, gtx.Extra)
	c := &vpC04Cand{ins: []*vpLUTXO{u}, remove: true}
	seen := map[crypto.Key]bool{}
	o := tx.Outputs[0]
	for k := range o.Keys {
		if rapid.IntRange(0, 3).Draw(t, "use_pool") != 0 {
			pk := pool[rapid.IntRange(0, len(pool)-1).Draw(t, "pool_key")]
			o.Keys[k] = &pk
		}
		if seen[*o.Keys[k]] {
			c.selfDup = true
		}
		seen[*o.Keys[k]] = true
		c.keys = append(c.keys, *o.Keys[k])
	}
	c.ver = (&common.SignedTransaction{Transaction: *tx}).AsVersioned()
	c.hash = c.ver.PayloadHash()
	return c
}

func TestVP_C04_ghost_binding(t *testing.T) {
	c := kit.New(t, "C04", "rapid: pool of 4..20 one-time output keys; 3..10 candidates (transfers with script outputs, and in a third of the histories one or two node removals whose node-remove output carries the keys; distinct inputs) whose output keys are drawn from the pool with overlaps inside and across transactions; drawn sequence of validate (admission path), direct key reservation (ordinary and finalization-path flag), unvalidated persist, finalize; oracle: model ghost[key] -> first binder; a key is never rebound to another transaction, a transaction repeating a key in its own outputs is rejected, finalizing a transaction whose key belongs to another fails with an unchanged database dump, ReadGhostKeyLock equals the model after every step; the three hard-coded historical hashes are checked as a fixed table; non-trivial = history with a cross-transaction reuse attempt after a binding and a finalize-time conflict; distinct by trace")
	c.Require("cross-reuse-rejected", "self-dup-rejected", "finalize-conflict", "fork-flag-no-override", "bound-by-validate", "bound-by-finalize", "holder-displaced", "node-remove-candidate", "finalize-conflict-node-remove-output")
	kit.SetChecks(kit.N(150, 6000))
	rapid.Check(t, func(t *rapid.T) {
		l := vpLNewLedger(7, "c04", 4)
		defer l.Close()
		pool := vpC04Pool(rapid.IntRange(4, 20).Draw(t, "pool"))
		ncand := rapid.IntRange(3, 10).Draw(t, "ncand")
		for i := 0; i < ncand; i++ {
			l.Seq++
			ver := l.BuildDeposit(&l.Assets[1], common.NewInteger(3), vpLOut{Owners: []int{0}, Threshold: 1}, fmt.Sprintf("0xg%d", l.Seq), 0, nil)
			if err := l.Admit(ver, l.Tick(10), "deposit"); err != nil {
				t.Fatalf("fund: %v", err)
			}
			l.FinalizeOne(t, []crypto.Hash{ver.PayloadHash()})
		}
		btc := l.Assets[1].Id
		free := l.Unspent(&btc, true, true)
		var cands []*vpC04Cand
		var classes0 []string
		for i := 0; i < ncand; i++ {
			if i < 2 && rapid.IntRange(0, 2).Draw(t, "remove_cand") == 0 {
				if rc := vpC04MakeRemove(t, l, pool, i); rc != nil {
					cands = append(cands, rc)
					classes0 = append(classes0, "node-remove-candidate")
					continue
				}
			}
			cands = append(cands, vpC04MakeCand(t, l, pool, free[i]))
		}
		ghost := map[crypto.Key]crypto.Hash{}
		for _, id := range l.Order {
			for _, k := range l.UTXOs[id].Keys {
				ghost[*k] = l.UTXOs[id].Hash
			}
		}
		// keys of admitted-but-model-tracked transactions (the funding deposits) are bound too
		classes := map[string]bool{}
		var trace []string
		conflictsWith := func(cd *vpC04Cand) bool {
			for _, k := range cd.keys {
				if h, ok := ghost[k]; ok && h != cd.hash {
					return true
				}
			}
			return false
		}
		bind := func(cd *vpC04Cand) {
			for _, k := range cd.keys {
				ghost[k] = cd.hash
			}
		}
		check := func(where string) {
			keys := append([]crypto.Key{}, pool...)
			for _, cd := range cands {
				keys = append(keys, cd.keys...)
			}
			for _, k := range keys {
				by, err := l.Store.ReadGhostKeyLock(k)
				if err != nil {
					t.Fatalf("%s: ReadGhostKeyLock: %v", where, err)
				}
				want, ok := ghost[k]
				if ok != (by != nil) || ok && *by != want {
					t.Fatalf("%s: key %s bound to %v, model says %v (%v)\ntrace %v", where, k, by, want, ok, trace)
				}
			}
		}
		nops := rapid.IntRange(8, 40).Draw(t, "nops")
		for i := 0; i < nops; i++ {
			cd := cands[rapid.IntRange(0, len(cands)-1).Draw(t, "cand")]
			switch op := rapid.IntRange(0, 7).Draw(t, "op"); {
			case op <= 2: // admission path
				if cd.locked || cd.pruned {
					continue
				}
				fork := op == 2 && rapid.Bool().Draw(t, "fork")
				err := cd.ver.Validate(l.Store, l.Clock+1, fork)
				trace = append(trace, fmt.Sprintf("validate(%s,fork=%v)=%v", cd.hash.String()[:6], fork, err == nil))
				conflict := conflictsWith(cd)
				if cd.selfDup {
					if err == nil {
						t.Fatalf("transaction repeating an output key among its own outputs accepted")
					}
					classes["self-dup-rejected"] = true
				} else if conflict {
					if err == nil {
						t.Fatalf("transaction reusing an output key bound to another transaction accepted (fork=%v)\ntrace %v", fork, trace)
					}
					classes["cross-reuse-rejected"] = true
					if fork {
						classes["fork-flag-no-override"] = true
					}
				} else {
					if err != nil {
						t.Fatalf("valid candidate rejected: %v", err)
					}
					bind(cd)
					classes["bound-by-validate"] = true
					if rapid.Bool().Draw(t, "admit") {
						if err := cd.ver.LockInputs(l.Store, false); err != nil {
							t.Fatalf("lock: %v", err)
						}
						if err := l.Store.WriteTransaction(cd.ver); err != nil {
							t.Fatalf("persist: %v", err)
						}
						cd.locked = true
					}
				}
			case op == 3: // direct reservation call
				fork := rapid.Bool().Draw(t, "fork")
				var ptrs []*crypto.Key
				for k := range cd.keys {
					ptrs = append(ptrs, &cd.keys[k])
				}
				before := vpLDump(l.Store)
				err := l.Store.LockGhostKeys(ptrs, cd.hash, fork)
				trace = append(trace, fmt.Sprintf("reserve(%s,fork=%v)=%v", cd.hash.String()[:6], fork, err == nil))
				want := !cd.selfDup && !conflictsWith(cd)
				if (err == nil) != want {
					t.Fatalf("LockGhostKeys returned %v, model expects success=%v\ntrace %v", err, want, trace)
				}
				if err != nil {
					if d := vpLDumpDiff(before, vpLDump(l.Store)); len(d) > 0 {
						t.Fatalf("failed reservation changed the store: %v", d)
					}
					if fork && !cd.selfDup {
						classes["fork-flag-no-override"] = true
					}
				} else {
					bind(cd)
				}
			case op == 7: // a rival spend of the same input arrives on the finalization path and displaces the pending candidate
				if !cd.locked || cd.final || cd.pruned || cd.remove {
					continue
				}
				rtx := l.BuildSpend(cd.ins[0].Asset, cd.ins, []vpLOut{{Type: common.OutputTypeScript, Owners: []int{1}, Threshold: 1, Amount: cd.ins[0].Amount}}, nil, []byte(fmt.Sprintf("rival-%d", i)))
				rival := l.SignMaps(rtx, cd.ins, [][]int{{0}})
				if err := rival.LockInputs(l.Store, true); err != nil {
					t.Fatalf("finalization-path takeover of a pending holder: %v", err)
				}
				cd.pruned, cd.locked = true, false
				trace = append(trace, fmt.Sprintf("takeover(%s)", cd.hash.String()[:6]))
				classes["holder-displaced"] = true
				// the displaced transaction's key bindings stay what they were: the
				// model is unchanged and check() below compares every key
			case op == 4: // persist without validation (what a finalization-path peer body may look like)
				if cd.locked || cd.selfDup || cd.pruned {
					continue
				}
				if err := cd.ver.LockInputs(l.Store, false); err != nil {
					t.Fatalf("lock: %v", err)
				}
				if err := l.Store.WriteTransaction(cd.ver); err != nil {
					t.Fatalf("persist: %v", err)
				}
				cd.locked = true
				trace = append(trace, fmt.Sprintf("persist(%s)", cd.hash.String()[:6]))
			default: // finalize
				if !cd.locked || cd.final {
					continue
				}
				snap := l.MakeSnapshot(rapid.IntRange(0, 6).Draw(t, "chain"), []crypto.Hash{cd.hash}, l.Tick(10))
				before := vpLDump(l.Store)
				var err error
				pan := vpLCatch(func() { err = l.Store.WriteSnapshot(snap, l.NodeIds) })
				trace = append(trace, fmt.Sprintf("finalize(%s)=%v", cd.hash.String()[:6], err == nil && pan == nil))
				if conflictsWith(cd) {
					if err == nil && pan == nil {
						t.Fatalf("finalizing a transaction whose output key belongs to another transaction succeeded\ntrace %v", trace)
					}
					if d := vpLDumpDiff(before, vpLDump(l.Store)); len(d) > 0 {
						t.Fatalf("failed finalization changed the store: %v", d)
					}
					classes["finalize-conflict"] = true
					if cd.remove {
						classes["finalize-conflict-node-remove-output"] = true
					}
				} else {
					if err != nil || pan != nil {
						t.Fatalf("finalization failed: %v %v", err, pan)
					}
					l.Topo++
					cd.final = true
					bind(cd)
					classes["bound-by-finalize"] = true
				}
			}
			check(fmt.Sprintf("after op %d", i))
		}
		var cl []string
		for k := range classes {
			cl = append(cl, k)
		}
		cl = append(cl, classes0...)
		sort.Strings(cl)
		c.Case(fmt.Sprint(trace), classes["cross-reuse-rejected"] && classes["finalize-conflict"], cl...)
		if len(trace) > 10 {
			trace = trace[:10]
		}
		c.Sample(map[string]any{"pool": len(pool), "candidates": len(cands), "trace_head": trace})
	})
}

// The three hard-coded historical transaction hashes may pass the finalization
// path over a foreign binding without changing it; nothing else may.
func TestVP_C04_exception_table(t *testing.T) {
	c := kit.New(t, "C04", "fixed table: for a key bound to X, reservation by each of the three historical hashes succeeds only with the finalization-path flag and leaves the binding at X; any other hash (random, and the three with one flipped bit) is refused with and without the flag")
	l := vpLNewLedger(7, "c04x", 2)
	defer l.Close()
	key := crypto.NewKeyFromSeed(vpLSeed("x-key")).Public()
	x := crypto.Blake3Hash([]byte("x"))
	if err := l.Store.LockGhostKeys([]*crypto.Key{&key}, x, false); err != nil {
		t.Fatal(err)
	}
	for _, hs := range vpC04Exceptions {
		h, _ := crypto.HashFromString(hs)
		if err := l.Store.LockGhostKeys([]*crypto.Key{&key}, h, false); err == nil {
			t.Fatalf("historical hash %s overrode a binding on the ordinary path", hs)
		}
		_ = l.Store.LockGhostKeys([]*crypto.Key{&key}, h, true)
		by, _ := l.Store.ReadGhostKeyLock(key)
		if by == nil || *by != x {
			t.Fatalf("binding changed to %v by historical exception", by)
		}
		near := h
		near[5] ^= 1
		for _, fork := range []bool{false, true} {
			if err := l.Store.LockGhostKeys([]*crypto.Key{&key}, near, fork); err == nil {
				t.Fatalf("hash %s (not an exception) accepted over a foreign binding, fork=%v", near, fork)
			}
		}
		c.Case(hs, true)
	}
	for i := 0; i < 200; i++ {
		h := crypto.Blake3Hash([]byte(fmt.Sprint("other", i)))
		for _, fork := range []bool{false, true} {
			if err := l.Store.LockGhostKeys([]*crypto.Key{&key}, h, fork); err == nil {
				t.Fatalf("hash %s accepted over a foreign binding, fork=%v", h, fork)
			}
		}
		c.Case(h.String(), true)
	}
	by, _ := l.Store.ReadGhostKeyLock(key)
	if by == nil || *by != x {
		t.Fatalf("binding changed to %v", by)
	}
	c.Sample(map[string]any{"bound_to": x.String(), "exceptions": vpC04Exceptions})
}

func TestVP_C04_concurrent(t *testing.T) {
	c := kit.New(t, "C04", "real goroutines (2..12, start barrier, -race): transactions with overlapping key sets call the reservation API concurrently, each several times; oracle: every key ends bound to exactly one transaction whose call succeeded, a transaction whose call succeeded owns all its keys, a transaction whose calls all failed owns none; non-trivial = overlapping key sets")
	c.Require("overlap")
	kit.SetChecks(kit.N(60, 3000))
	rapid.Check(t, func(t *rapid.T) {
		s := vpLOpenMem()
		defer s.Close()
		pool := vpC04Pool(rapid.IntRange(3, 10).Draw(t, "pool"))
		n := rapid.IntRange(2, 8).Draw(t, "ntx")
		type cand struct {
			h    crypto.Hash
			keys []*crypto.Key
		}
		var cands []cand
		use := map[crypto.Key]int{}
		overlap := false
		for i := 0; i < n; i++ {
			k := rapid.IntRange(1, min(4, len(pool))).Draw(t, "nk")
			cd := cand{h: crypto.Blake3Hash([]byte(fmt.Sprint("ctx", i)))}
			for _, pi := range rapid.Permutation(vpLRange(len(pool))).Draw(t, "keys")[:k] {
				cd.keys = append(cd.keys, &pool[pi])
				use[pool[pi]]++
				if use[pool[pi]] > 1 {
					overlap = true
				}
			}
			cands = append(cands, cd)
		}
		g := rapid.IntRange(2, 12).Draw(t, "goroutines")
		ok := make([]bool, n)
		var mu sync.Mutex
		var wg sync.WaitGroup
		start := make(chan struct{})
		for w := 0; w < g; w++ {
			order := rapid.Permutation(vpLRange(n)).Draw(t, "order")
			fork := rapid.Bool().Draw(t, "fork")
			wg.Add(1)
			go func() {
				defer wg.Done()
				<-start
				for _, ci := range order {
					if err := s.LockGhostKeys(cands[ci].keys, cands[ci].h, fork); err == nil {
						mu.Lock()
						ok[ci] = true
						mu.Unlock()
					}
				}
			}()
		}
		close(start)
		wg.Wait()
		for ci, cd := range cands {
			owned := 0
			for _, k := range cd.keys {
				by, err := s.ReadGhostKeyLock(*k)
				if err != nil {
					t.Fatal(err)
				}
				if by != nil && *by == cd.h {
					owned++
				}
			}
			if ok[ci] && owned != len(cd.keys) {
				t.Fatalf("reservation of %s succeeded but it owns %d of %d keys", cd.h, owned, len(cd.keys))
			}
			if !ok[ci] && owned != 0 {
				t.Fatalf("all reservations of %s failed but it owns %d keys", cd.h, owned)
			}
		}
		cl := []string{}
		if overlap {
			cl = append(cl, "overlap")
		}
		c.Case(fmt.Sprint(n, g, len(pool), ok), overlap, cl...)
		c.Sample(map[string]any{"transactions": n, "goroutines": g, "pool": len(pool), "succeeded": ok})
	})
}
