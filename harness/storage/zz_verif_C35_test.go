//go:build verif

package storage

import (
	"fmt"
	"os"
	"sort"
	"strings"
	"testing"

	"github.com/MixinNetwork/mixin/common"
	"github.com/MixinNetwork/mixin/crypto"
	"pgregory.net/rapid"
	kit "verifkit"
)

// Storage half of C35: snapshots are written with WriteSnapshot at positions the
// harness assigns; the cursor queries are compared with a model list of
// (position, snapshot hash). The kernel half (TopoWrite assigning the positions)
// is a separate unit.

type vpC35Entry struct {
	Pos  uint64
	Hash crypto.Hash
	Txs  []crypto.Hash
}

type vpC35Model struct {
	byPos  map[uint64]*vpC35Entry
	byHash map[crypto.Hash]*vpC35Entry
	sorted []*vpC35Entry
}

func (m *vpC35Model) add(e *vpC35Entry) {
	m.byPos[e.Pos] = e
	m.byHash[e.Hash] = e
	m.sorted = append(m.sorted, e)
	sort.Slice(m.sorted, func(i, j int) bool { return m.sorted[i].Pos < m.sorted[j].Pos })
}

func (m *vpC35Model) last() *vpC35Entry { return m.sorted[len(m.sorted)-1] }

// since is the statement: entries at or after the cursor, ascending, at most count.
func (m *vpC35Model) since(offset, count uint64) []*vpC35Entry {
	out := []*vpC35Entry{}
	for _, e := range m.sorted {
		if e.Pos >= offset && uint64(len(out)) < count {
			out = append(out, e)
		}
	}
	return out
}

type vpC35Shared struct {
	s      *BadgerStore
	gns    *common.Genesis
	rounds []*common.Round
	snaps  []*common.SnapshotWithTopologicalOrder
	txs    []*common.VersionedTransaction
	nodes  []crypto.Hash
}

func vpC35Open(t *testing.T) *vpC35Shared {
	dir, err := os.MkdirTemp("", "vpC35-")
	if err != nil {
		t.Fatal(err)
	}
	sh := &vpC35Shared{s: vpSOpenSnapshotsOnly(t, dir), gns: vpSGenesis(7)}
	sh.rounds, sh.snaps, sh.txs, err = sh.gns.BuildSnapshots()
	if err != nil {
		t.Fatal(err)
	}
	nid := sh.gns.NetworkId()
	for _, in := range sh.gns.Nodes {
		sh.nodes = append(sh.nodes, in.Signer.Hash().ForNetwork(nid))
	}
	t.Cleanup(func() {
		_ = vpSCloseSnapshotsOnly(sh.s)
		_ = os.RemoveAll(dir)
	})
	return sh
}

var vpC35Amount = common.NewIntegerFromString("0.00000001")

// vpC35NewSnapshot stores a fresh transaction (genesis-typed input, one script
// output: the cheapest transaction WriteTransaction/WriteSnapshot accept) and
// returns a snapshot of chain `node` carrying it at position pos.
func vpC35NewSnapshot(t *rapid.T, sh *vpC35Shared, serial int, node crypto.Hash, pos, ts uint64, ntx int) (*common.SnapshotWithTopologicalOrder, []crypto.Hash) {
	cache, err := sh.s.ReadRound(node)
	if err != nil || cache == nil {
		t.Fatalf("ReadRound(%s): %v", node, err)
	}
	snap := &common.Snapshot{Version: common.SnapshotVersionCommonEncoding, NodeId: node, RoundNumber: cache.Number,
		References: cache.References, Timestamp: ts}
	var hs []crypto.Hash
	for i := 0; i < ntx; i++ {
		tx := common.NewTransactionV5(common.XINAssetId)
		tx.Inputs = []*common.Input{{Genesis: []byte(fmt.Sprintf("vpC35-%d-%d", serial, i))}}
		tx.Outputs = []*common.Output{{Type: common.OutputTypeScript, Amount: vpC35Amount}}
		ver := tx.AsVersioned()
		if err := sh.s.WriteTransaction(ver); err != nil {
			t.Fatalf("WriteTransaction: %v", err)
		}
		snap.AddTransaction(ver.PayloadHash())
		hs = append(hs, ver.PayloadHash())
	}
	snap.Hash = snap.PayloadHash()
	vpSSortHashes(hs) // the snapshot encoding lists its transactions in canonical (sorted) order
	return &common.SnapshotWithTopologicalOrder{Snapshot: snap, TopologicalOrder: pos}, hs
}

func vpC35CheckList(t *rapid.T, s *BadgerStore, m *vpC35Model, offset, count uint64) (int, string) {
	got, err := s.ReadSnapshotsSinceTopology(offset, count)
	if count > 500 {
		if err == nil {
			t.Fatalf("ReadSnapshotsSinceTopology(%d,%d): count above the 500 limit accepted (%d results)", offset, count, len(got))
		}
		return 0, "over-limit"
	}
	if err != nil {
		t.Fatalf("ReadSnapshotsSinceTopology(%d,%d): %v", offset, count, err)
	}
	want := m.since(offset, count)
	if len(got) != len(want) {
		t.Fatalf("ReadSnapshotsSinceTopology(%d,%d) returned %d snapshots, the model has %d at or after the cursor (of %d)", offset, count, len(got), len(want), len(m.sorted))
	}
	for i, w := range want {
		g := got[i]
		if g.TopologicalOrder != w.Pos || g.Hash != w.Hash || g.PayloadHash() != w.Hash {
			t.Fatalf("ReadSnapshotsSinceTopology(%d,%d)[%d] = (pos %d, hash %s, payload %s), model (pos %d, hash %s)", offset, count, i, g.TopologicalOrder, g.Hash, g.PayloadHash(), w.Pos, w.Hash)
		}
		if i > 0 && got[i-1].TopologicalOrder >= g.TopologicalOrder {
			t.Fatalf("listing not strictly increasing at %d", i)
		}
	}
	cls := "list"
	if len(got) >= 2 && offset != 0 {
		cls = "list>=2-from-nonzero"
	}
	return len(got), cls
}

func TestVP_C35_storage_cursor(t *testing.T) {
	c := kit.New(t, "C35", "rapid T.Repeat on a genesis-loaded store (positions 0..7 occupied, reset per case): WriteSnapshot of fresh 1..3-transaction snapshots on the 7 genesis chains at harness-assigned positions (next, jump leaving a gap, into a gap, far away up to 2^64-1, already occupied, same snapshot twice), ReadSnapshotsSinceTopology(offset,count) with offset in {0, existing, gap, last, last+1, 2^64-1, uniform} x count in {0,1,7,500,501, 2..20}, ReadSnapshotWithTransactionsSinceTopology, ReadSnapshot(hash) for known and unknown hashes, LastSnapshot; model = list of (position, hash); a write to an occupied position must fail (error or the assertion panic) and leave the key/value dump unchanged; non-trivial = history with a listing of >=2 entries from a non-zero cursor; distinct by op trace")
	c.Require("list>=2-from-nonzero", "offset-gap", "offset-last+1", "offset-max", "count-0", "count-500", "over-limit", "occupied-rejected", "duplicate-rejected", "gap-fill", "lookup-known", "lookup-unknown", "pos-max")
	c.Assume("Badger transaction atomicity; snapshots are written with harness-chosen positions (the kernel's TopoWrite is the other unit)")
	kit.SetChecks(kit.N(400, 6000))
	kit.SetSteps(30)
	sh := vpC35Open(t)
	serial := 0
	rapid.Check(t, func(t *rapid.T) {
		vpSWipe(t, sh.s)
		if err := sh.s.LoadGenesis(sh.rounds, sh.snaps, sh.txs); err != nil {
			t.Fatalf("LoadGenesis: %v", err)
		}
		m := &vpC35Model{byPos: map[uint64]*vpC35Entry{}, byHash: map[crypto.Hash]*vpC35Entry{}}
		for _, gs := range sh.snaps {
			m.add(&vpC35Entry{Pos: gs.TopologicalOrder, Hash: gs.PayloadHash(), Txs: gs.Transactions})
		}
		ts := sh.gns.EpochTimestamp() + 10
		var trace []string
		cls := map[string]bool{}
		gapPos := func() (uint64, bool) {
			var gaps [][2]uint64
			for i := 1; i < len(m.sorted); i++ {
				if m.sorted[i].Pos-m.sorted[i-1].Pos > 1 {
					gaps = append(gaps, [2]uint64{m.sorted[i-1].Pos + 1, m.sorted[i].Pos - 1})
				}
			}
			if len(gaps) == 0 {
				return 0, false
			}
			g := gaps[rapid.IntRange(0, len(gaps)-1).Draw(t, "gap_idx")]
			switch rapid.IntRange(0, 2).Draw(t, "gap_end") {
			case 0:
				return g[0], true
			case 1:
				return g[1], true
			}
			return rapid.Uint64Range(g[0], g[1]).Draw(t, "gap_pos"), true
		}
		t.Repeat(map[string]func(*rapid.T){
			"write": func(t *rapid.T) {
				serial++
				ts++
				node := sh.nodes[rapid.IntRange(0, len(sh.nodes)-1).Draw(t, "chain")]
				last := m.last().Pos
				kind := rapid.SampledFrom([]string{"next", "next", "next", "next", "next", "next", "jump", "jump", "gap", "gap", "far", "max", "occupied", "occupied", "duplicate"}).Draw(t, "pos_kind")
				var pos uint64
				switch kind {
				case "next":
					pos = last + 1
				case "jump":
					pos = last + uint64(rapid.IntRange(2, 1000).Draw(t, "jump"))
				case "gap":
					p, ok := gapPos()
					if !ok {
						kind, p = "jump", last+uint64(rapid.IntRange(2, 50).Draw(t, "jump"))
					}
					pos = p
				case "far":
					pos = rapid.Uint64Range(last+1, ^uint64(0)).Draw(t, "far")
				case "max":
					pos = ^uint64(0)
				case "occupied", "duplicate":
					pos = m.sorted[rapid.IntRange(0, len(m.sorted)-1).Draw(t, "occupied_idx")].Pos
				}
				if pos <= last && kind != "gap" && kind != "occupied" && kind != "duplicate" {
					// last is already 2^64-1 (or wrapped): only occupied/gap writes remain possible
					if p, ok := gapPos(); ok {
						kind, pos = "gap", p
					} else {
						kind, pos = "occupied", last
					}
				}
				if _, taken := m.byPos[pos]; taken && kind != "duplicate" {
					kind = "occupied"
				}
				if kind == "duplicate" {
					// the very same stored snapshot again (same position): only for our own snapshots
					e := m.byPos[pos]
					if e.Pos < uint64(len(sh.snaps)) {
						kind = "occupied"
					} else {
						old, err := sh.s.ReadSnapshot(e.Hash)
						if err != nil || old == nil {
							t.Fatalf("ReadSnapshot(%s): %v", e.Hash, err)
						}
						before := vpSDump(sh.s)
						var werr error
						p := vpSCatch(func() { werr = sh.s.WriteSnapshot(old, []crypto.Hash{old.NodeId}) })
						if p == "" && werr == nil {
							t.Fatalf("writing snapshot %s a second time at position %d succeeded", e.Hash, pos)
						}
						if vpSDump(sh.s) != before {
							t.Fatalf("rejected duplicate write of %s changed the database", e.Hash)
						}
						cls["duplicate-rejected"] = true
						trace = append(trace, fmt.Sprintf("d%d", pos))
						return
					}
				}
				ntx := rapid.IntRange(1, 3).Draw(t, "ntx")
				snap, txs := vpC35NewSnapshot(t, sh, serial, node, pos, ts, ntx)
				if kind == "occupied" {
					before := vpSDump(sh.s)
					var werr error
					p := vpSCatch(func() { werr = sh.s.WriteSnapshot(snap, []crypto.Hash{node}) })
					if p == "" && werr == nil {
						t.Fatalf("a second snapshot %s was written to the occupied position %d (holder %s)", snap.Hash, pos, m.byPos[pos].Hash)
					}
					if vpSDump(sh.s) != before {
						t.Fatalf("rejected write to occupied position %d changed the database (panic=%q err=%v)", pos, p, werr)
					}
					if got, err := sh.s.ReadSnapshot(snap.Hash); err != nil || got != nil {
						t.Fatalf("rejected snapshot %s is readable (%v)", snap.Hash, err)
					}
					cls["occupied-rejected"] = true
					trace = append(trace, fmt.Sprintf("o%d", pos))
					return
				}
				if err := sh.s.WriteSnapshot(snap, []crypto.Hash{node}); err != nil {
					t.Fatalf("WriteSnapshot at free position %d: %v", pos, err)
				}
				m.add(&vpC35Entry{Pos: pos, Hash: snap.Hash, Txs: txs})
				if kind == "gap" {
					cls["gap-fill"] = true
				}
				if pos == ^uint64(0) {
					cls["pos-max"] = true
				}
				trace = append(trace, fmt.Sprintf("w%d", pos))
				// the new snapshot is found by hash and by a cursor at its own position
				got, err := sh.s.ReadSnapshot(snap.Hash)
				if err != nil || got == nil || got.TopologicalOrder != pos || got.PayloadHash() != snap.Hash {
					t.Fatalf("ReadSnapshot(%s) after write at %d: %v %v", snap.Hash, pos, got, err)
				}
				vpC35CheckList(t, sh.s, m, pos, 1)
			},
			"list": func(t *rapid.T) {
				last := m.last().Pos
				var offset uint64
				ok := rapid.SampledFrom([]string{"zero", "existing", "gap", "last", "last+1", "max", "uniform"}).Draw(t, "offset_kind")
				switch ok {
				case "existing":
					offset = m.sorted[rapid.IntRange(0, len(m.sorted)-1).Draw(t, "idx")].Pos
				case "gap":
					p, found := gapPos()
					if !found {
						ok, p = "existing", m.sorted[len(m.sorted)/2].Pos
					}
					offset = p
				case "last":
					offset = last
				case "last+1":
					if last == ^uint64(0) {
						ok = "last"
						offset = last
					} else {
						offset = last + 1
					}
				case "max":
					offset = ^uint64(0)
				case "uniform":
					offset = rapid.Uint64().Draw(t, "offset")
				}
				count := rapid.SampledFrom([]uint64{0, 1, 7, 500, 501, 2, 3, 20, 1 << 40}).Draw(t, "count")
				n, lc := vpC35CheckList(t, sh.s, m, offset, count)
				cls["offset-"+ok] = true
				cls[fmt.Sprintf("count-%d", count)] = true
				cls[lc] = true
				if count <= 500 && rapid.IntRange(0, 3).Draw(t, "with_txs") == 0 {
					snaps, txs, err := sh.s.ReadSnapshotWithTransactionsSinceTopology(offset, count)
					if err != nil || len(snaps) != n || len(txs) != n {
						t.Fatalf("ReadSnapshotWithTransactionsSinceTopology(%d,%d): %d/%d results, want %d (%v)", offset, count, len(snaps), len(txs), n, err)
					}
					for i, w := range m.since(offset, count) {
						if snaps[i].TopologicalOrder != w.Pos || snaps[i].Hash != w.Hash || len(txs[i]) != len(w.Txs) {
							t.Fatalf("ReadSnapshotWithTransactionsSinceTopology(%d,%d)[%d] differs from the model", offset, count, i)
						}
						for j, tx := range txs[i] {
							if tx == nil || tx.PayloadHash() != w.Txs[j] || snaps[i].Transactions[j] != w.Txs[j] {
								t.Fatalf("transaction %d of snapshot at %d differs", j, w.Pos)
							}
						}
					}
				}
				trace = append(trace, fmt.Sprintf("l%d,%d=%d", offset, count, n))
			},
			"lookup": func(t *rapid.T) {
				if rapid.IntRange(0, 4).Draw(t, "unknown") == 0 {
					h := crypto.Blake3Hash([]byte(fmt.Sprintf("vpC35-unknown-%d", len(trace))))
					got, err := sh.s.ReadSnapshot(h)
					if err != nil || got != nil {
						t.Fatalf("ReadSnapshot(unknown) = %v, %v", got, err)
					}
					cls["lookup-unknown"] = true
					return
				}
				e := m.sorted[rapid.IntRange(0, len(m.sorted)-1).Draw(t, "idx")]
				got, err := sh.s.ReadSnapshot(e.Hash)
				if err != nil || got == nil {
					t.Fatalf("ReadSnapshot(%s) = nil (%v), model position %d", e.Hash, err, e.Pos)
				}
				if got.TopologicalOrder != e.Pos || got.PayloadHash() != e.Hash || got.Hash != e.Hash {
					t.Fatalf("ReadSnapshot(%s) reports position %d hash %s, model position %d", e.Hash, got.TopologicalOrder, got.PayloadHash(), e.Pos)
				}
				cls["lookup-known"] = true
				ls, _ := sh.s.LastSnapshot()
				if ls.TopologicalOrder != m.last().Pos || ls.PayloadHash() != m.last().Hash {
					t.Fatalf("LastSnapshot reports position %d, model %d", ls.TopologicalOrder, m.last().Pos)
				}
				trace = append(trace, fmt.Sprintf("h%d", e.Pos))
			},
		})
		// closing sweep: the full listing in pages of 7 reproduces the model
		cursor, seen := uint64(0), 0
		for {
			page, err := sh.s.ReadSnapshotsSinceTopology(cursor, 7)
			if err != nil {
				t.Fatalf("paging: %v", err)
			}
			for _, g := range page {
				if seen >= len(m.sorted) || g.TopologicalOrder != m.sorted[seen].Pos || g.Hash != m.sorted[seen].Hash {
					t.Fatalf("paging entry %d: position %d", seen, g.TopologicalOrder)
				}
				seen++
			}
			if len(page) < 7 || page[len(page)-1].TopologicalOrder == ^uint64(0) {
				break
			}
			cursor = page[len(page)-1].TopologicalOrder + 1
		}
		if seen != len(m.sorted) {
			t.Fatalf("paging returned %d snapshots, model has %d", seen, len(m.sorted))
		}
		names := []string{}
		for k := range cls {
			names = append(names, k)
		}
		sort.Strings(names)
		c.Case(strings.Join(trace, " "), cls["list>=2-from-nonzero"], names...)
		c.Sample(strings.Join(trace, " "))
	})
}
