//go:build verif

package storage

import (
	"fmt"
	"sort"
	"strings"
	"sync"
	"sync/atomic"
	"testing"

	"github.com/MixinNetwork/mixin/common"
	"github.com/MixinNetwork/mixin/crypto"
	"github.com/dgraph-io/badger/v4"
	"pgregory.net/rapid"
	kit "verifkit"
)

// ---- inputs ---------------------------------------------------------------

type vpC23Payload struct {
	Hash   crypto.Hash
	Bodies []*common.VersionedTransaction // same payload, different signatures
	Bytes  []string                       // Marshal() of each body
}

var vpC23Key = crypto.NewKeyFromSeed(vpSSeed("C23-key", 0)).Public()

// vpC23MakePayloads builds n payloads; payload i has nbodies[i] differently
// signed bodies (body 0 is unsigned). salt separates cases.
func vpC23MakePayloads(salt string, nbodies []int) []*vpC23Payload {
	out := make([]*vpC23Payload, len(nbodies))
	for i, nb := range nbodies {
		tx := common.NewTransactionV5(common.XINAssetId)
		tx.AddInput(crypto.Blake3Hash([]byte(fmt.Sprintf("vpC23-in-%s-%d", salt, i))), uint(i%3))
		k := vpC23Key
		tx.Outputs = []*common.Output{{Type: common.OutputTypeScript, Amount: common.NewInteger(uint64(i + 1)),
			Keys: []*crypto.Key{&k}, Mask: vpC23Key, Script: common.NewThresholdScript(1)}}
		tx.Extra = []byte(fmt.Sprintf("vpC23 %s %d", salt, i))
		p := &vpC23Payload{}
		for j := 0; j < nb; j++ {
			ver := tx.AsVersioned()
			if j > 0 {
				var sig crypto.Signature
				h1 := crypto.Blake3Hash([]byte(fmt.Sprintf("vpC23-sig-%s-%d-%d", salt, i, j)))
				copy(sig[:32], h1[:])
				copy(sig[32:], h1[:])
				ver.SignaturesMap = []map[uint16]*crypto.Signature{{0: &sig}}
			}
			p.Bodies = append(p.Bodies, ver)
			p.Bytes = append(p.Bytes, string(ver.Marshal()))
		}
		p.Hash = p.Bodies[0].PayloadHash()
		for _, b := range p.Bodies {
			if b.PayloadHash() != p.Hash {
				panic("vpC23: bodies of one payload must share the payload hash")
			}
		}
		out[i] = p
	}
	return out
}

func vpC23OpenStore(t testing.TB) *BadgerStore {
	s := vpSOpenStore(t, t.TempDir())
	t.Cleanup(func() { _ = s.Close() })
	return s
}

// ---- sequential model ------------------------------------------------------

// The model is a set of counters and clocks per payload hash; it does not try to
// predict what a retrieval returns, only the bounds the statement gives.
type vpC23Hash struct {
	queueCalls int
	returns    int
	lastQueue  int // op sequence numbers, 0 = never
	lastReturn int
	lastRemove int
	present    bool            // a store/queue happened after the last removal
	submitted  map[string]bool // bodies submitted since the last removal
	everStored bool
}

type vpC23Model struct {
	seq int
	h   map[crypto.Hash]*vpC23Hash
}

func (m *vpC23Model) get(h crypto.Hash) *vpC23Hash {
	e := m.h[h]
	if e == nil {
		e = &vpC23Hash{submitted: map[string]bool{}}
		m.h[h] = e
	}
	return e
}

func vpC23CheckBody(t *rapid.T, what string, h crypto.Hash, ver *common.VersionedTransaction, allowed map[string]bool) {
	if ver == nil {
		t.Fatalf("%s: no body for %s", what, h)
	}
	if ver.PayloadHash() != h {
		t.Fatalf("%s: body with payload hash %s under %s", what, ver.PayloadHash(), h)
	}
	if !allowed[string(ver.Marshal())] {
		t.Fatalf("%s: body of %s is none of the %d submitted bodies", what, h, len(allowed))
	}
}

var vpC23Limits = []int{0, 1, 2, 3, 255, 1000}

func TestVP_C23_history(t *testing.T) {
	c := kit.New(t, "C23", "rapid T.Repeat on a fresh store per history: 3..10 payloads with 1..3 differently signed bodies each; ops queue/store/retrieve(limit in {0,1,2,3,255,1000})/remove(1..4 hashes, also never-seen ones)/get; after every op the history invariants R1..R5 of the design are evaluated against counters kept per payload hash (not a copy of the implementation: retrieval content and order are never predicted); non-trivial = history with a retrieval while a store-only hash exists, a requeue after a retrieval and a removal; distinct by the op trace")
	c.Require("retrieve-with-store-only", "requeue-after-return", "remove", "requeue-returned-again", "limit-binding", "alt-body", "get-after-remove-nil", "queue-after-remove")
	c.Assume("CacheTTL (7200 s) never elapses during a history", "single-threaded histories: any error from a cache call is a failure")
	kit.SetChecks(kit.N(1000, 12000))
	kit.SetSteps(40)
	var caseNo int64
	shared := vpC23OpenStore(t)
	rapid.Check(t, func(t *rapid.T) {
		atomic.AddInt64(&caseNo, 1)
		s := vpC23Fresh(t, shared)
		np := rapid.IntRange(3, 10).Draw(t, "payloads")
		nb := make([]int, np)
		for i := range nb {
			nb[i] = rapid.IntRange(1, 3).Draw(t, "bodies")
		}
		ps := vpC23MakePayloads("h", nb)
		m := &vpC23Model{h: map[crypto.Hash]*vpC23Hash{}}
		var trace []string
		cls := map[string]bool{}
		pick := func() (*vpC23Payload, int) {
			p := ps[rapid.IntRange(0, np-1).Draw(t, "p")]
			return p, rapid.IntRange(0, len(p.Bodies)-1).Draw(t, "b")
		}
		checkGet := func(p *vpC23Payload, why string) {
			e := m.get(p.Hash)
			ver, err := s.CacheGetTransaction(p.Hash)
			if err != nil {
				t.Fatalf("get(%s) %s: %v", p.Hash, why, err)
			}
			if !e.present {
				if ver != nil {
					t.Fatalf("R5: get(%s) %s returns a body although it was removed (or never submitted) and not stored/queued since", p.Hash, why)
				}
				if e.lastRemove > 0 {
					cls["get-after-remove-nil"] = true
				}
				return
			}
			vpC23CheckBody(t, "R4 get "+why, p.Hash, ver, e.submitted)
		}
		t.Repeat(map[string]func(*rapid.T){
			"queue": func(t *rapid.T) {
				p, b := pick()
				m.seq++
				if err := s.CacheQueueTransaction(p.Bodies[b]); err != nil {
					t.Fatalf("queue: %v", err)
				}
				e := m.get(p.Hash)
				if e.lastReturn > 0 && e.lastReturn > e.lastQueue {
					cls["requeue-after-return"] = true
				}
				if e.lastRemove > 0 && e.lastRemove > e.lastQueue && e.lastRemove > e.lastReturn {
					cls["queue-after-remove"] = true
				}
				if b > 0 {
					cls["alt-body"] = true
				}
				e.queueCalls++
				e.lastQueue = m.seq
				e.present = true
				e.submitted[p.Bytes[b]] = true
				trace = append(trace, fmt.Sprintf("q%x.%d", p.Hash[:2], b))
				checkGet(p, "after queue")
			},
			"store": func(t *rapid.T) {
				p, b := pick()
				m.seq++
				if err := s.CacheStoreTransaction(p.Bodies[b]); err != nil {
					t.Fatalf("store: %v", err)
				}
				e := m.get(p.Hash)
				e.present = true
				e.everStored = true
				e.submitted[p.Bytes[b]] = true
				if b > 0 {
					cls["alt-body"] = true
				}
				trace = append(trace, fmt.Sprintf("s%x.%d", p.Hash[:2], b))
				checkGet(p, "after store")
			},
			"retrieve": func(t *rapid.T) {
				limit := rapid.SampledFrom(vpC23Limits).Draw(t, "limit")
				m.seq++
				may, must := 0, map[crypto.Hash]bool{}
				for h, e := range m.h {
					if e.queueCalls > e.returns {
						may++
					}
					if e.lastQueue > e.lastReturn && e.lastQueue > e.lastRemove {
						must[h] = true
					}
					if e.present && e.queueCalls == 0 {
						cls["retrieve-with-store-only"] = true
					}
				}
				txs, err := s.CacheRetrieveTransactions(limit)
				if err != nil {
					t.Fatalf("retrieve(%d): %v", limit, err)
				}
				if len(txs) > limit {
					t.Fatalf("R1: retrieve(%d) returned %d transactions", limit, len(txs))
				}
				seen := map[crypto.Hash]bool{}
				for _, ver := range txs {
					h := ver.PayloadHash()
					if seen[h] {
						t.Fatalf("R1: retrieve(%d) returned %s twice", limit, h)
					}
					seen[h] = true
					e := m.h[h]
					if e == nil || e.queueCalls == 0 {
						t.Fatalf("R2: %s was returned but never queued (stored only: %v)", h, e != nil && e.everStored)
					}
					if e.returns+1 > e.queueCalls {
						t.Fatalf("R2: %s returned %d times after %d queue calls", h, e.returns+1, e.queueCalls)
					}
					vpC23CheckBody(t, "R4 returned", h, ver, e.submitted)
					got, err := s.CacheGetTransaction(h)
					if err != nil {
						t.Fatalf("get after retrieval: %v", err)
					}
					vpC23CheckBody(t, "R4 get after retrieval", h, got, e.submitted)
					if e.lastReturn > 0 {
						cls["requeue-returned-again"] = true
					}
				}
				if limit >= may {
					for h := range must {
						if !seen[h] {
							t.Fatalf("R3: %s was queued after its last return/removal and limit %d >= %d possibly pending hashes, but the retrieval returned %d others", h, limit, may, len(txs))
						}
					}
				} else {
					cls["limit-binding"] = true
				}
				for h := range seen {
					e := m.h[h]
					e.returns++
					e.lastReturn = m.seq
				}
				trace = append(trace, fmt.Sprintf("r%d=%d", limit, len(txs)))
			},
			"remove": func(t *rapid.T) {
				n := rapid.IntRange(1, 4).Draw(t, "n")
				var hs []crypto.Hash
				var pp []*vpC23Payload
				for i := 0; i < n; i++ {
					if rapid.IntRange(0, 9).Draw(t, "unknown") == 0 {
						hs = append(hs, crypto.Blake3Hash([]byte(fmt.Sprintf("vpC23-unknown-%d-%d", m.seq, i))))
						continue
					}
					p, _ := pick()
					hs = append(hs, p.Hash)
					pp = append(pp, p)
				}
				m.seq++
				if err := s.CacheRemoveTransactions(hs); err != nil {
					t.Fatalf("remove: %v", err)
				}
				for _, p := range pp {
					e := m.get(p.Hash)
					e.lastRemove = m.seq
					e.present = false
					e.submitted = map[string]bool{}
				}
				for _, p := range pp {
					checkGet(p, "after remove")
				}
				cls["remove"] = true
				trace = append(trace, fmt.Sprintf("x%d", len(hs)))
			},
			"get": func(t *rapid.T) {
				p, _ := pick()
				checkGet(p, "plain")
				trace = append(trace, fmt.Sprintf("g%x", p.Hash[:2]))
			},
		})
		// closing drain: everything that must still be pending comes out, once.
		m.seq++
		must := map[crypto.Hash]bool{}
		for h, e := range m.h {
			if e.lastQueue > e.lastReturn && e.lastQueue > e.lastRemove {
				must[h] = true
			}
		}
		txs, err := s.CacheRetrieveTransactions(1000)
		if err != nil {
			t.Fatalf("drain: %v", err)
		}
		seen := map[crypto.Hash]bool{}
		for _, ver := range txs {
			h := ver.PayloadHash()
			e := m.h[h]
			if seen[h] || e == nil || e.returns+1 > e.queueCalls {
				t.Fatalf("R1/R2 in drain: %s (dup=%v)", h, seen[h])
			}
			seen[h] = true
		}
		for h := range must {
			if !seen[h] {
				t.Fatalf("R3 in drain: %s still queued but not returned by retrieve(1000)", h)
			}
		}
		again, err := s.CacheRetrieveTransactions(1000)
		if err != nil || len(again) != 0 {
			t.Fatalf("second drain returned %d transactions (%v): a queueing was returned twice", len(again), err)
		}
		var names []string
		for k := range cls {
			names = append(names, k)
		}
		sort.Strings(names)
		nt := cls["retrieve-with-store-only"] && cls["requeue-after-return"] && cls["remove"]
		c.Case(strings.Join(trace, " "), nt, names...)
		c.Sample(strings.Join(trace, " "))
	})
}

// vpC23Fresh empties the cache database of the store shared by all cases of
// one test, so that every case starts from an empty cache (opening a new Badger
// directory per case costs ~0.2 s).
func vpC23Fresh(t *rapid.T, s *BadgerStore) *BadgerStore {
	var keys [][]byte
	err := s.cacheDB.View(func(txn *badger.Txn) error {
		opts := badger.DefaultIteratorOptions
		opts.PrefetchValues = false
		it := txn.NewIterator(opts)
		defer it.Close()
		for it.Rewind(); it.Valid(); it.Next() {
			keys = append(keys, it.Item().KeyCopy(nil))
		}
		return nil
	})
	if err == nil && len(keys) > 0 {
		err = s.cacheDB.Update(func(txn *badger.Txn) error {
			for _, k := range keys {
				if err := txn.Delete(k); err != nil {
					return err
				}
			}
			return nil
		})
	}
	if err != nil {
		t.Fatalf("emptying the cache database: %v", err)
	}
	return s
}

// ---- concurrent variant ----------------------------------------------------

type vpC23Op struct {
	Kind  byte // q s r x g
	P, B  int
	Limit int
	Hs    []int
	// results
	Start, End int64
	Err        error
	Returned   []*common.VersionedTransaction
	Got        *common.VersionedTransaction
}

func vpC23GenOps(t *rapid.T, np int, ps []*vpC23Payload, removable int, label string) []*vpC23Op {
	n := rapid.IntRange(5, 25).Draw(t, label+"_n")
	ops := make([]*vpC23Op, n)
	for i := range ops {
		op := &vpC23Op{Kind: rapid.SampledFrom([]byte("qqqqssrrrxg")).Draw(t, label+"_kind")}
		op.P = rapid.IntRange(0, np-1).Draw(t, label+"_p")
		op.B = rapid.IntRange(0, len(ps[op.P].Bodies)-1).Draw(t, label+"_b")
		switch op.Kind {
		case 'r':
			op.Limit = rapid.SampledFrom(vpC23Limits).Draw(t, label+"_limit")
		case 'x':
			if removable == 0 {
				op.Kind = 'g'
				break
			}
			k := rapid.IntRange(1, 3).Draw(t, label+"_nx")
			for j := 0; j < k; j++ {
				op.Hs = append(op.Hs, rapid.IntRange(0, removable-1).Draw(t, label+"_x"))
			}
		}
		ops[i] = op
	}
	return ops
}

// TestVP_C23_concurrent runs drawn op lists on 2..8 goroutines against one store
// and judges only what does not depend on the (unknown) interleaving.
func TestVP_C23_concurrent(t *testing.T) {
	c := kit.New(t, "C23", "rapid: 4..10 payloads (the first 0..3 may be removed, the others never), op lists of 5..25 ops drawn up front for each of 2..8 goroutines, run concurrently on one store (build with -race); a call that returns an error (badger.ErrConflict after the built-in retries) counts as not done / returned nothing; judged: R1 per retrieval, R2 totals (returns <= queue attempts, never-queued never returned), R4 bodies, get on never-removed hashes never loses a submitted body, and a quiescent drain returns every hash whose last successful queue call started after every return of it, each at most once, and a second drain is empty; non-trivial = at least one hash returned by two different goroutines' retrievals or a conflict error observed; distinct by per-goroutine op lists")
	c.Require("multi-return", "drained")
	c.Assume("each cache call is one Badger transaction; interleavings inside a call are whatever the scheduler produced, not enumerated")
	kit.SetChecks(kit.N(60, 600))
	var caseNo int64
	shared := vpC23OpenStore(t)
	rapid.Check(t, func(t *rapid.T) {
		atomic.AddInt64(&caseNo, 1)
		s := vpC23Fresh(t, shared)
		np := rapid.IntRange(4, 10).Draw(t, "payloads")
		nb := make([]int, np)
		for i := range nb {
			nb[i] = rapid.IntRange(1, 3).Draw(t, "bodies")
		}
		ps := vpC23MakePayloads("k", nb)
		removable := rapid.IntRange(0, 3).Draw(t, "removable")
		g := rapid.IntRange(2, 8).Draw(t, "goroutines")
		lists := make([][]*vpC23Op, g)
		var fp []string
		for i := range lists {
			lists[i] = vpC23GenOps(t, np, ps, removable, fmt.Sprintf("g%d", i))
			var sb strings.Builder
			for _, op := range lists[i] {
				fmt.Fprintf(&sb, "%c%d.%d.%d", op.Kind, op.P, op.B, op.Limit)
			}
			fp = append(fp, sb.String())
		}
		var clock int64
		var wg sync.WaitGroup
		start := make(chan struct{})
		for i := range lists {
			wg.Add(1)
			go func(ops []*vpC23Op) {
				defer wg.Done()
				<-start
				for _, op := range ops {
					op.Start = atomic.AddInt64(&clock, 1)
					switch op.Kind {
					case 'q':
						op.Err = s.CacheQueueTransaction(ps[op.P].Bodies[op.B])
					case 's':
						op.Err = s.CacheStoreTransaction(ps[op.P].Bodies[op.B])
					case 'r':
						op.Returned, op.Err = s.CacheRetrieveTransactions(op.Limit)
					case 'x':
						hs := make([]crypto.Hash, len(op.Hs))
						for j, k := range op.Hs {
							hs[j] = ps[k].Hash
						}
						op.Err = s.CacheRemoveTransactions(hs)
					case 'g':
						op.Got, op.Err = s.CacheGetTransaction(ps[op.P].Hash)
					}
					op.End = atomic.AddInt64(&clock, 1)
				}
			}(lists[i])
		}
		close(start)
		wg.Wait()

		byHash := map[crypto.Hash]int{}
		all := make([]map[string]bool, np)
		for i, p := range ps {
			byHash[p.Hash] = i
			all[i] = map[string]bool{}
			for _, b := range p.Bytes {
				all[i][b] = true
			}
		}
		queueAttempts := make([]int, np)
		lastQueueOKStart := make([]int64, np)
		firstSubmitEnd := make([]int64, np) // earliest completed successful store/queue
		returns := make([]int, np)
		lastReturnEnd := make([]int64, np)
		returners := make([]map[int]bool, np)
		conflicts := 0
		for gi, ops := range lists {
			for _, op := range ops {
				if op.Err != nil {
					conflicts++
				}
				switch op.Kind {
				case 'q':
					queueAttempts[op.P]++
					if op.Err == nil {
						if op.Start > lastQueueOKStart[op.P] {
							lastQueueOKStart[op.P] = op.Start
						}
						if firstSubmitEnd[op.P] == 0 || op.End < firstSubmitEnd[op.P] {
							firstSubmitEnd[op.P] = op.End
						}
					}
				case 's':
					if op.Err == nil && (firstSubmitEnd[op.P] == 0 || op.End < firstSubmitEnd[op.P]) {
						firstSubmitEnd[op.P] = op.End
					}
				case 'r':
					if op.Err != nil {
						continue // returned nothing, as the kernel treats it
					}
					if len(op.Returned) > op.Limit {
						t.Fatalf("R1: retrieve(%d) returned %d", op.Limit, len(op.Returned))
					}
					seen := map[int]bool{}
					for _, ver := range op.Returned {
						i, ok := byHash[ver.PayloadHash()]
						if !ok {
							t.Fatalf("retrieval returned unknown payload %s", ver.PayloadHash())
						}
						if seen[i] {
							t.Fatalf("R1: retrieval returned %s twice", ver.PayloadHash())
						}
						seen[i] = true
						if !all[i][string(ver.Marshal())] {
							t.Fatalf("R4: returned body of %s is none of the submitted ones", ver.PayloadHash())
						}
						returns[i]++
						if op.End > lastReturnEnd[i] {
							lastReturnEnd[i] = op.End
						}
						if returners[i] == nil {
							returners[i] = map[int]bool{}
						}
						returners[i][gi] = true
					}
				}
			}
		}
		for _, ops := range lists {
			for _, op := range ops {
				if op.Kind != 'g' || op.Err != nil {
					continue
				}
				if op.Got != nil {
					if op.Got.PayloadHash() != ps[op.P].Hash || !all[op.P][string(op.Got.Marshal())] {
						t.Fatalf("R4: get(%s) answered a foreign body", ps[op.P].Hash)
					}
				} else if op.P >= removable && firstSubmitEnd[op.P] != 0 && firstSubmitEnd[op.P] < op.Start {
					t.Fatalf("R4: get(%s) = nil although a store/queue of it completed earlier and it is never removed", ps[op.P].Hash)
				}
			}
		}
		// quiescent drain
		drained := map[int]bool{}
		for round := 0; ; round++ {
			txs, err := s.CacheRetrieveTransactions(1000)
			if err != nil {
				t.Fatalf("quiescent drain: %v", err)
			}
			if len(txs) == 0 {
				break
			}
			if round > 0 {
				t.Fatalf("second quiescent retrieve(1000) still returned %d transactions", len(txs))
			}
			for _, ver := range txs {
				i, ok := byHash[ver.PayloadHash()]
				if !ok || drained[i] {
					t.Fatalf("drain returned %s unknown or twice", ver.PayloadHash())
				}
				drained[i] = true
				returns[i]++
			}
		}
		classes := []string{}
		multi := false
		for i := range ps {
			if returns[i] > queueAttempts[i] {
				t.Fatalf("R2: %s returned %d times in total but queued only %d times", ps[i].Hash, returns[i], queueAttempts[i])
			}
			if i >= removable && lastQueueOKStart[i] > lastReturnEnd[i] && !drained[i] {
				t.Fatalf("drain: %s was queued (call started at %d) after its last return (ended %d), never removed, but the quiescent drain did not return it", ps[i].Hash, lastQueueOKStart[i], lastReturnEnd[i])
			}
			if i >= removable && firstSubmitEnd[i] != 0 {
				got, err := s.CacheGetTransaction(ps[i].Hash)
				if err != nil || got == nil || !all[i][string(got.Marshal())] {
					t.Fatalf("R4: body of never-removed %s lost after the run (%v)", ps[i].Hash, err)
				}
			}
			if len(returners[i]) > 1 {
				multi = true
			}
		}
		// R5 at quiescence: remove everything, every get answers nil.
		hs := make([]crypto.Hash, np)
		for i, p := range ps {
			hs[i] = p.Hash
		}
		if err := s.CacheRemoveTransactions(hs); err != nil {
			t.Fatalf("final remove: %v", err)
		}
		for _, p := range ps {
			if got, err := s.CacheGetTransaction(p.Hash); err != nil || got != nil {
				t.Fatalf("R5: get(%s) after removal = %v, %v", p.Hash, got != nil, err)
			}
		}
		if multi {
			classes = append(classes, "multi-return")
		}
		if conflicts > 0 {
			classes = append(classes, "conflict-error")
			c.ClassN("conflict-errors", conflicts)
		}
		if len(drained) > 0 {
			classes = append(classes, "drained")
		}
		classes = append(classes, fmt.Sprintf("goroutines-%d", g))
		c.Case(strings.Join(fp, "|"), multi || conflicts > 0, classes...)
		c.Sample(map[string]any{"goroutines": g, "payloads": np, "removable": removable, "conflicts": conflicts, "drained": len(drained)})
	})
}
