//go:build verif

package storage

import (
	"bytes"
	"fmt"
	"math/big"
	"strings"
	"testing"

	"github.com/MixinNetwork/mixin/common"
	"github.com/MixinNetwork/mixin/crypto"
	"pgregory.net/rapid"
	kit "verifkit"
)

// vpC05Ledger grows a ledger holding unspent outputs of every output type the
// store can hold: script, node accept (genesis and later), node pledge, node
// remove, withdrawal claim, custodian update.
func vpC05Ledger(t *rapid.T, tag string) *vpLedger {
	l := vpLNewLedger(7, tag, 6)
	for i := 0; i < 3; i++ {
		l.StepDeposit(t, true)
	}
	l.Grow(t, rapid.IntRange(4, 12).Draw(t, "grow"))
	if rapid.Bool().Draw(t, "with_remove") {
		l.StepNodeRemove(t, rapid.IntRange(0, 6).Draw(t, "remove_node"))
	}
	if rapid.Bool().Draw(t, "with_submit") {
		l.StepSubmit(t, true)
		l.StepClaim(t, true)
	}
	if rapid.Bool().Draw(t, "with_pledge") {
		l.StepPledge(t, true)
		if rapid.Bool().Draw(t, "with_accept") {
			l.StepAccept(t, true)
		}
	}
	if rapid.IntRange(0, 2).Draw(t, "with_drained_asset") == 0 {
		vpC05Drain(t, l)
	}
	return l
}

// vpC05Drain withdraws everything of one non-XIN asset, so that the ledger
// knows the asset while its supply is exactly zero.
func vpC05Drain(t *rapid.T, l *vpLedger) {
	a := &l.Assets[rapid.IntRange(1, len(l.Assets)-1).Draw(t, "drain_asset")]
	all := l.Unspent(&a.Id, false, false)
	free := l.Unspent(&a.Id, true, true)
	if len(free) == 0 || len(free) != len(all) || len(free) > 200 || l.pendingDeposits(a.Id).Sign() != 0 {
		return
	}
	total := new(big.Int)
	var signers [][]int
	for _, u := range free {
		if u.Type != common.OutputTypeScript {
			return
		}
		total.Add(total, vpLBig(u.Amount))
		signers = append(signers, vpLRange(u.threshold()))
	}
	l.Seq++
	tx := l.BuildSpend(a.Id, free, []vpLOut{{Type: common.OutputTypeWithdrawalSubmit, Amount: vpLInt(total), Withdraw: &common.WithdrawalData{Address: "drain" + fmt.Sprint(l.Seq), Tag: ""}}}, nil, nil)
	ver := l.SignMaps(tx, free, signers)
	if err := l.Admit(ver, l.Tick(1000), "submit"); err != nil {
		t.Fatalf("withdrawal of the whole supply of %s rejected: %v", a.Name, err)
	}
	l.FinalizeOne(t, []crypto.Hash{ver.PayloadHash()})
	if l.total(a.Id).Sign() != 0 {
		t.Fatalf("drained asset %s still has supply %s in the model", a.Name, l.total(a.Id))
	}
	l.Drained = append(l.Drained, a.Id)
}

var vpC05OutTypes = []uint8{common.OutputTypeScript, common.OutputTypeScript, common.OutputTypeWithdrawalSubmit, common.OutputTypeNodePledge,
	common.OutputTypeNodeAccept, 0xa5, common.OutputTypeNodeRemove, common.OutputTypeWithdrawalClaim, common.OutputTypeNodeCancel,
	common.OutputTypeCustodianUpdateNodes, common.OutputTypeCustodianSlashNodes, 0x7f}

func vpC05Amount(t *rapid.T, label string) common.Integer {
	switch rapid.IntRange(0, 7).Draw(t, label+"_class") {
	case 0:
		return common.NewInteger(0)
	case 1:
		return vpLInt(big.NewInt(rapid.Int64Range(1, 100000).Draw(t, label+"_units")))
	case 2:
		return common.NewIntegerFromString("0.0001")
	case 3:
		return common.KernelNodePledgeAmount
	case 4:
		e := uint(rapid.IntRange(40, 600).Draw(t, label+"_exp"))
		return vpLInt(new(big.Int).Lsh(big.NewInt(1), e))
	case 5:
		// close to the 65535-byte amount encoding limit
		return vpLInt(new(big.Int).Lsh(big.NewInt(1), uint(rapid.IntRange(4000, 520000).Draw(t, label+"_hugeexp"))))
	default:
		return common.NewInteger(uint64(rapid.IntRange(1, 20000).Draw(t, label+"_coins")))
	}
}

func vpC05Key(t *rapid.T, l *vpLedger, label string) *crypto.Key {
	var k crypto.Key
	switch rapid.IntRange(0, 4).Draw(t, label+"_class") {
	case 0:
		copy(k[:], rapid.SliceOfN(rapid.Byte(), 32, 32).Draw(t, label+"_raw"))
	case 1: // zero key
	case 2: // a key that is already bound to some output
		for _, id := range l.Order {
			if u := l.UTXOs[id]; len(u.Keys) > 0 {
				k = *u.Keys[0]
				break
			}
		}
	default:
		k = crypto.NewKeyFromSeed(vpLSeed(label, rapid.IntRange(0, 1<<30).Draw(t, label+"_seed"))).Public()
	}
	return &k
}

func vpC05Script(t *rapid.T, label string) common.Script {
	switch rapid.IntRange(0, 6).Draw(t, label) {
	case 0:
		return nil
	case 1:
		return common.Script{common.OperatorCmp, common.OperatorSum, 0x40}
	case 2:
		return common.Script{common.OperatorCmp, common.OperatorSum, 0x41}
	case 3:
		return common.Script{common.OperatorCmp}
	case 4:
		return common.Script{0, 1, 2, 3}
	default:
		return common.NewThresholdScript(uint8(rapid.IntRange(0, 3).Draw(t, label+"_th")))
	}
}

func vpC05Extra(t *rapid.T, l *vpLedger, label string) []byte {
	n := rapid.SampledFrom([]int{0, 0, 1, 31, 32, 63, 64, 65, 95, 96, 97, 128, 256, 257, 1023, 1024, 5000}).Draw(t, label+"_len")
	switch rapid.IntRange(0, 3).Draw(t, label+"_class") {
	case 0:
		if len(l.GenesisTxs) > 0 {
			return append([]byte{}, l.GenesisTxs[rapid.IntRange(0, len(l.GenesisTxs)-1).Draw(t, label+"_g")].Extra...)
		}
	case 1:
		if l.Pledging != nil {
			return append([]byte{}, l.Txs[l.Pledging.Tx].Ver.Extra...)
		}
	}
	return rapid.SliceOfN(rapid.Byte(), n, n).Draw(t, label+"_bytes")
}

// vpC05Build draws one structurally arbitrary transaction re-pointed at the
// ledger's live state. It returns nil when the encoder refuses the structure.
func vpC05Build(t *rapid.T, l *vpLedger) (*common.VersionedTransaction, []string) {
	var classes []string
	assets := []crypto.Hash{l.Assets[0].Id, l.Assets[0].Id, l.Assets[1].Id, l.Assets[2].Id, crypto.Blake3Hash([]byte("nowhere"))}
	tx := common.NewTransactionV5(assets[rapid.IntRange(0, len(assets)-1).Draw(t, "asset")])
	nin := rapid.IntRange(1, 4).Draw(t, "nin")
	live := l.Unspent(nil, false, false)
	var ordinary []*vpLUTXO
	sum := new(big.Int)
	for i := 0; i < nin; i++ {
		in := &common.Input{}
		switch rapid.IntRange(0, 9).Draw(t, "in_class") {
		case 0:
			in.Deposit = &common.DepositData{Chain: l.Assets[1].Chain, AssetKey: rapid.SampledFrom([]string{"", " x", l.Assets[1].Key, "k"}).Draw(t, "dep_key"),
				Transaction: rapid.SampledFrom([]string{"", "0xabc", " t", "a:1"}).Draw(t, "dep_tx"), Index: uint64(rapid.IntRange(0, 3).Draw(t, "dep_idx")), Amount: vpC05Amount(t, "dep_amt")}
			classes = append(classes, "in-deposit")
		case 1:
			in.Mint = &common.MintData{Group: rapid.SampledFrom([]string{"UNIVERSAL", "KERNELNODE", ""}).Draw(t, "mint_group"), Batch: uint64(rapid.IntRange(0, 5).Draw(t, "mint_batch")), Amount: vpC05Amount(t, "mint_amt")}
			classes = append(classes, "in-mint")
		case 2:
			in.Genesis = rapid.SliceOfN(rapid.Byte(), 1, 40).Draw(t, "genesis")
			classes = append(classes, "in-genesis")
		case 3:
			in.Hash = crypto.Blake3Hash([]byte(fmt.Sprint("missing", i)))
			in.Index = uint(rapid.IntRange(0, 1024).Draw(t, "missing_idx"))
			classes = append(classes, "in-missing")
		default:
			u := live[rapid.IntRange(0, len(live)-1).Draw(t, "in_pick")]
			in.Hash, in.Index = u.Hash, u.Index
			if rapid.IntRange(0, 7).Draw(t, "in_both") == 0 { // special data riding on an ordinary reference
				in.Mint = &common.MintData{Group: "UNIVERSAL", Batch: 1, Amount: vpC05Amount(t, "both_amt")}
			}
			ordinary = append(ordinary, u)
			sum.Add(sum, vpLBig(u.Amount))
			classes = append(classes, fmt.Sprintf("in-utxo-%#x", u.Type))
		}
		tx.Inputs = append(tx.Inputs, in)
	}
	// outputs
	nout := rapid.IntRange(1, 4).Draw(t, "nout")
	balanced := sum.Sign() > 0 && rapid.IntRange(0, 3).Draw(t, "balanced") != 0
	var parts []*big.Int
	if balanced && sum.Cmp(big.NewInt(int64(nout))) >= 0 {
		parts = vpLSplit(t, sum, nout, "bal_part")
		classes = append(classes, "balanced")
	}
	for i := 0; i < nout; i++ {
		o := &common.Output{Type: vpC05OutTypes[rapid.IntRange(0, len(vpC05OutTypes)-1).Draw(t, "out_type")]}
		if parts != nil && i < len(parts) {
			o.Amount = vpLInt(parts[i])
		} else {
			o.Amount = vpC05Amount(t, "out_amt")
		}
		shape := rapid.IntRange(0, 3).Draw(t, "out_shape")
		if shape != 0 {
			for k := rapid.IntRange(0, 3).Draw(t, "out_nkeys"); k > 0; k-- {
				o.Keys = append(o.Keys, vpC05Key(t, l, "out_key"))
			}
			o.Script = vpC05Script(t, "out_script")
			o.Mask = *vpC05Key(t, l, "out_mask")
		}
		if rapid.IntRange(0, 4).Draw(t, "out_wd") == 0 || o.Type == common.OutputTypeWithdrawalSubmit && rapid.Bool().Draw(t, "wd_on_submit") {
			o.Withdrawal = &common.WithdrawalData{Address: rapid.SampledFrom([]string{"", "addr", " a"}).Draw(t, "wd_addr"), Tag: rapid.SampledFrom([]string{"", "tag"}).Draw(t, "wd_tag")}
		}
		if rapid.IntRange(0, 9).Draw(t, "storage_out") == 0 { // storage output shape
			o.Type = common.OutputTypeScript
			o.Script = common.Script{common.OperatorCmp, common.OperatorSum, 0x40}
			o.Keys = []*crypto.Key{vpC05Key(t, l, "st_key")}
			classes = append(classes, "storage-output")
		}
		tx.Outputs = append(tx.Outputs, o)
	}
	tx.Extra = vpC05Extra(t, l, "extra")
	for k := rapid.IntRange(0, 2).Draw(t, "nrefs"); k > 0; k-- {
		if rapid.Bool().Draw(t, "ref_real") && len(l.TxOrder) > 0 {
			tx.References = append(tx.References, l.TxOrder[rapid.IntRange(0, len(l.TxOrder)-1).Draw(t, "ref_pick")])
		} else {
			tx.References = append(tx.References, crypto.Blake3Hash([]byte("noref")))
		}
	}
	signed := &common.SignedTransaction{Transaction: *tx}
	msg := tx.AsVersioned().PayloadHash()
	switch rapid.IntRange(0, 6).Draw(t, "auth") {
	case 0: // no signature maps at all
		classes = append(classes, "auth-none")
	case 1: // aggregate with arbitrary signers
		as := &common.AggregatedSignature{}
		copy(as.Signature[:], rapid.SliceOfN(rapid.Byte(), 64, 64).Draw(t, "agg_sig"))
		m := -1
		for k := rapid.IntRange(0, 5).Draw(t, "agg_n"); k > 0; k-- {
			m += rapid.IntRange(1, 40).Draw(t, "agg_gap")
			as.Signers = append(as.Signers, m)
		}
		signed.AggregatedSignature = as
		classes = append(classes, "auth-aggregate")
	default: // maps: honest where possible, with count and index perturbations
		oi := 0
		for _, in := range tx.Inputs {
			m := map[uint16]*crypto.Signature{}
			if in.Deposit == nil && in.Mint == nil && len(in.Genesis) == 0 && oi < len(ordinary) && ordinary[oi].Hash == in.Hash && ordinary[oi].Index == in.Index {
				u := ordinary[oi]
				oi++
				if u.Spendable {
					for pos := range u.Keys {
						sig := l.ownerKey(u, pos).Sign(msg)
						m[uint16(pos)] = &sig
					}
				}
			} else {
				if in.Deposit == nil && in.Mint == nil && len(in.Genesis) == 0 && oi < len(ordinary) {
					oi++
				}
			}
			if len(m) == 0 || rapid.IntRange(0, 5).Draw(t, "sig_custodian") == 0 {
				sig := l.Custodian.PrivateSpendKey.Sign(msg)
				m[uint16(rapid.SampledFrom([]int{0, 0, 0, 1, 300, 65535}).Draw(t, "sig_idx"))] = &sig
			}
			signed.SignaturesMap = append(signed.SignaturesMap, m)
		}
		switch rapid.IntRange(0, 5).Draw(t, "maps_count") {
		case 0:
			signed.SignaturesMap = signed.SignaturesMap[:len(signed.SignaturesMap)-1]
			classes = append(classes, "auth-maps-short")
		case 1:
			signed.SignaturesMap = append(signed.SignaturesMap, map[uint16]*crypto.Signature{})
			classes = append(classes, "auth-maps-long")
		default:
			classes = append(classes, "auth-maps")
		}
	}
	var ver *common.VersionedTransaction
	var enc []byte
	if p := vpLCatch(func() { ver = signed.AsVersioned(); enc = ver.Marshal() }); p != nil {
		return nil, append(classes, "not-encodable")
	}
	dec, err := common.UnmarshalVersionedTransaction(enc)
	if err != nil {
		return nil, append(classes, "not-decodable")
	}
	return dec, classes
}

// vpC05Template draws a valid (or nearly valid) transaction of a drawn kind and
// applies 0..3 structural mutations, so that validation is entered deeply.
func vpC05Template(t *rapid.T, l *vpLedger) (*common.VersionedTransaction, []string) {
	var classes []string
	var signed *common.SignedTransaction
	xin := common.XINAssetId
	scriptXIN := func() *vpLUTXO {
		for _, u := range l.Unspent(&xin, false, true) {
			if u.Type == common.OutputTypeScript {
				return u
			}
		}
		return nil
	}
	byType := func(typ uint8) *vpLUTXO {
		var c []*vpLUTXO
		for _, u := range l.Unspent(nil, false, false) {
			if u.Type == typ {
				c = append(c, u)
			}
		}
		if len(c) == 0 {
			return nil
		}
		return c[rapid.IntRange(0, len(c)-1).Draw(t, "bytype_pick")]
	}
	signOwners := func(tx *common.Transaction, ins []*vpLUTXO) *common.SignedTransaction {
		sg := &common.SignedTransaction{Transaction: *tx}
		msg := tx.AsVersioned().PayloadHash()
		for _, u := range ins {
			m := map[uint16]*crypto.Signature{}
			if u.Spendable {
				for pos := range u.Keys {
					sig := l.ownerKey(u, pos).Sign(msg)
					m[uint16(pos)] = &sig
				}
			} else {
				sig := l.Custodian.PrivateSpendKey.Sign(msg)
				m[0] = &sig
			}
			sg.SignaturesMap = append(sg.SignaturesMap, m)
		}
		return sg
	}
	kind := rapid.IntRange(0, 9).Draw(t, "template")
	classes = append(classes, fmt.Sprintf("template-%d", kind))
	switch kind {
	case 0: // transfer
		p := l.DrawSpend(t, 3, 3)
		if p == nil {
			return nil, append(classes, "template-empty")
		}
		tx := l.BuildSpend(p.Asset, p.Ins, p.Outs, nil, nil)
		if rapid.Bool().Draw(t, "tmpl_agg") {
			v, err := l.SignAggregate(tx, p.Ins, p.Signers)
			if err != nil {
				return nil, append(classes, "template-empty")
			}
			signed = &v.SignedTransaction
		} else {
			signed = &l.SignMaps(tx, p.Ins, p.Signers).SignedTransaction
		}
	case 1, 2, 3, 9: // pledge / accept / cancel / custodian update shaped
		var in *vpLUTXO
		if kind == 1 || kind == 9 {
			in = scriptXIN()
		} else {
			in = byType(common.OutputTypeNodePledge)
			if in == nil {
				in = scriptXIN()
			}
		}
		if in == nil {
			return nil, append(classes, "template-empty")
		}
		signer := vpLNodeAddr(vpLSeed("c05-signer", l.Seq))
		payee := vpLNodeAddr(vpLSeed("c05-payee", l.Seq))
		extra := append(append([]byte{}, signer.PublicSpendKey[:]...), payee.PublicSpendKey[:]...)
		if l.Pledging != nil && kind != 1 {
			extra = append([]byte{}, l.Txs[l.Pledging.Tx].Ver.Extra...)
			signer = l.Pledging.Signer
		}
		var outs []vpLOut
		switch kind {
		case 1:
			outs = []vpLOut{{Type: common.OutputTypeNodePledge, Amount: in.Amount}}
		case 2:
			outs = []vpLOut{{Type: common.OutputTypeNodeAccept, Amount: in.Amount}}
		case 3:
			fee := in.Amount.Div(100)
			if fee.Sign() <= 0 || in.Amount.Cmp(fee) <= 0 {
				return nil, append(classes, "template-empty")
			}
			outs = []vpLOut{{Type: common.OutputTypeNodeCancel, Amount: fee}, {Type: common.OutputTypeScript, Owners: []int{0}, Threshold: 1, Amount: in.Amount.Sub(fee)}}
			// third word: the view key the cancel change is checked with; the
			// sender chooses these 32 bytes freely
			third := l.Accts[0].PrivateViewKey[:]
			switch rapid.IntRange(0, 5).Draw(t, "cancel_third") {
			case 0:
				third = bytes.Repeat([]byte{0xff}, 32)
				classes = append(classes, "cancel-third-word-noncanonical")
			case 1: // the group order: smallest non-canonical scalar
				third = []byte{0xed, 0xd3, 0xf5, 0x5c, 0x1a, 0x63, 0x12, 0x58, 0xd6, 0x9c, 0xf7, 0xa2, 0xde, 0xf9, 0xde, 0x14, 0, 0, 0, 0, 0, 0, 0, 0, 0, 0, 0, 0, 0, 0, 0, 0x10}
				classes = append(classes, "cancel-third-word-noncanonical")
			case 2:
				third = make([]byte, 32)
			}
			extra = append(extra, third...)
		case 9:
			outs = []vpLOut{{Type: common.OutputTypeCustodianUpdateNodes, Owners: []int{0}, Threshold: 64, Amount: in.Amount}}
			extra = append([]byte{}, l.GenesisTxs[len(l.GenesisTxs)-1].Extra...)
			if rapid.Bool().Draw(t, "cust_trunc") {
				extra = extra[:rapid.IntRange(0, len(extra)).Draw(t, "cust_len")]
			}
		}
		tx := l.BuildSpend(xin, []*vpLUTXO{in}, outs, nil, extra)
		signed = signOwners(tx, []*vpLUTXO{in})
		if kind == 2 || kind == 3 {
			sig := signer.PrivateSpendKey.Sign(tx.AsVersioned().PayloadHash())
			// the signer's signature usually sits under key index 0; other
			// indexes are just as decodable
			at := rapid.SampledFrom([]uint16{0, 0, 0, 1, 2, 255, 65535}).Draw(t, "tmpl_sig_index")
			if at != 0 {
				classes = append(classes, "node-sig-index-nonzero")
			}
			signed.SignaturesMap = []map[uint16]*crypto.Signature{{at: &sig}}
		}
	case 4: // remove shaped
		in := byType(common.OutputTypeNodeAccept)
		if in == nil {
			return nil, append(classes, "template-empty")
		}
		src := l.Txs[in.Hash].Ver
		tx := l.BuildSpend(xin, []*vpLUTXO{in}, []vpLOut{{Type: common.OutputTypeNodeRemove, Owners: []int{1}, Threshold: 1, Amount: in.Amount}}, nil, append([]byte{}, src.Extra...))
		signed = &common.SignedTransaction{Transaction: *tx}
		if rapid.Bool().Draw(t, "remove_maps") {
			signed = signOwners(tx, []*vpLUTXO{in})
		}
	case 5, 6: // submit / claim shaped
		p := l.DrawSpendOf(t, 2, 1, true)
		if p == nil || p.Sum.Cmp(big.NewInt(20000)) < 0 {
			return nil, append(classes, "template-empty")
		}
		parts := vpLSplit(t, p.Sum, 2, "tmpl_part")
		var outs []vpLOut
		var refs []crypto.Hash
		var extra []byte
		asset := p.Asset
		if kind == 5 {
			outs = []vpLOut{{Type: common.OutputTypeWithdrawalSubmit, Amount: vpLInt(parts[0]), Withdraw: &common.WithdrawalData{Address: "a", Tag: ""}}, {Type: common.OutputTypeScript, Owners: []int{0}, Threshold: 1, Amount: vpLInt(parts[1])}}
		} else {
			outs = []vpLOut{{Type: common.OutputTypeWithdrawalClaim, Amount: vpLInt(parts[0])}, {Type: common.OutputTypeScript, Owners: []int{0}, Threshold: 1, Amount: vpLInt(parts[1])}}
			if len(l.Submits) > 0 && rapid.Bool().Draw(t, "claim_ref_submit") {
				refs = []crypto.Hash{l.Submits[0]}
			} else {
				refs = []crypto.Hash{l.TxOrder[rapid.IntRange(0, len(l.TxOrder)-1).Draw(t, "claim_ref")]}
			}
			body := []byte("proof")
			sig := l.Custodian.PrivateSpendKey.Sign(crypto.Blake3Hash(body))
			extra = append(sig[:], body...)
		}
		tx := l.BuildSpend(asset, p.Ins, outs, refs, extra)
		signed = &l.SignMaps(tx, p.Ins, p.Signers).SignedTransaction
	case 7: // deposit
		a := &l.Assets[rapid.IntRange(0, 2).Draw(t, "tmpl_dep_asset")]
		if len(l.Drained) > 0 && rapid.Bool().Draw(t, "tmpl_dep_drained") {
			for i := range l.Assets {
				if l.Assets[i].Id == l.Drained[0] {
					a = &l.Assets[i]
					classes = append(classes, "deposit-of-drained-asset")
				}
			}
		}
		l.Seq++
		v := l.BuildDeposit(a, common.NewInteger(1), vpLOut{Owners: []int{0}, Threshold: 1}, fmt.Sprintf("0xt%d", l.Seq), 0, nil)
		signed = &v.SignedTransaction
	case 8: // mint
		tx := common.NewTransactionV5(xin)
		tx.AddUniversalMintInput(l.MintBatch+uint64(rapid.IntRange(0, 2).Draw(t, "tmpl_mint_batch")), common.NewInteger(5))
		l.addOutputs(tx, []vpLOut{{Type: common.OutputTypeScript, Owners: []int{0}, Threshold: 1, Amount: common.NewInteger(5)}})
		signed = &common.SignedTransaction{Transaction: *tx}
		_ = signed.SignRaw(l.Signers[0].PrivateSpendKey)
	}
	// copy so that mutations never alias ledger state
	st := *signed
	st.Inputs = append([]*common.Input{}, st.Inputs...)
	st.Outputs = nil
	for _, o := range signed.Outputs {
		oc := *o
		oc.Keys = append([]*crypto.Key{}, o.Keys...)
		st.Outputs = append(st.Outputs, &oc)
	}
	resign := false
	for m := rapid.IntRange(0, 3).Draw(t, "nmut"); m > 0; m-- {
		mk := rapid.IntRange(1, 14).Draw(t, "mutation")
		classes = append(classes, fmt.Sprintf("mut-%d", mk))
		k := rapid.IntRange(0, len(st.Outputs)-1).Draw(t, "mut_out")
		switch mk {
		case 1:
			st.SignaturesMap = nil
			st.AggregatedSignature = nil
		case 2:
			if len(st.SignaturesMap) > 0 {
				st.SignaturesMap = st.SignaturesMap[:len(st.SignaturesMap)-1]
			}
		case 3:
			st.Outputs[k].Type = vpC05OutTypes[rapid.IntRange(0, len(vpC05OutTypes)-1).Draw(t, "mut_type")]
			resign = true
		case 4:
			st.Outputs[k].Amount = vpC05Amount(t, "mut_amt")
			resign = true
		case 5:
			st.Extra = vpC05Extra(t, l, "mut_extra")
			resign = true
		case 6:
			o := &common.Output{Type: vpC05OutTypes[rapid.IntRange(0, len(vpC05OutTypes)-1).Draw(t, "mut_newtype")], Amount: vpC05Amount(t, "mut_newamt")}
			st.Outputs = append(st.Outputs, o)
			resign = true
		case 7:
			live := l.Unspent(nil, false, false)
			u := live[rapid.IntRange(0, len(live)-1).Draw(t, "mut_in")]
			st.Inputs[rapid.IntRange(0, len(st.Inputs)-1).Draw(t, "mut_in_at")] = &common.Input{Hash: u.Hash, Index: u.Index}
			classes = append(classes, fmt.Sprintf("in-utxo-%#x", u.Type))
			resign = true
		case 8:
			st.Outputs[k].Type = common.OutputTypeScript
			st.Outputs[k].Script = common.Script{common.OperatorCmp, common.OperatorSum, 0x40}
			st.Outputs[k].Keys = []*crypto.Key{vpC05Key(t, l, "mut_stkey")}
			st.Outputs[k].Mask = crypto.NewKeyFromSeed(vpLSeed("m")).Public()
			st.Outputs[k].Amount = vpC05Amount(t, "mut_stamt")
			classes = append(classes, "storage-output")
			resign = true
		case 9:
			if len(st.Outputs) > 1 {
				st.Outputs[0], st.Outputs[len(st.Outputs)-1] = st.Outputs[len(st.Outputs)-1], st.Outputs[0]
				resign = true
			}
		case 10:
			if len(st.References) > 0 {
				st.References = nil
			} else {
				st.References = []crypto.Hash{l.TxOrder[rapid.IntRange(0, len(l.TxOrder)-1).Draw(t, "mut_ref")]}
			}
			resign = true
		case 11:
			st.Asset = l.Assets[rapid.IntRange(0, 2).Draw(t, "mut_asset")].Id
			resign = true
		case 12:
			in := *st.Inputs[0]
			if rapid.Bool().Draw(t, "mut_special") {
				in.Mint = &common.MintData{Group: "UNIVERSAL", Batch: l.MintBatch + 1, Amount: vpC05Amount(t, "mut_mintamt")}
			} else {
				in.Deposit = &common.DepositData{Chain: l.Assets[1].Chain, AssetKey: l.Assets[1].Key, Transaction: "0xm", Amount: vpC05Amount(t, "mut_depamt")}
			}
			st.Inputs[0] = &in
			resign = true
		case 13:
			if st.Outputs[k].Withdrawal == nil {
				st.Outputs[k].Withdrawal = &common.WithdrawalData{Address: "w"}
			} else {
				st.Outputs[k].Withdrawal = nil
			}
			resign = true
		case 14:
			if len(st.Outputs[k].Keys) > 0 && rapid.Bool().Draw(t, "mut_keys_drop") {
				st.Outputs[k].Keys = nil
			} else {
				st.Outputs[k].Keys = append(st.Outputs[k].Keys, vpC05Key(t, l, "mut_key"))
			}
			resign = true
		}
	}
	// after payload mutations re-sign honestly where possible so that the
	// mutated structure, not a stale signature, decides the outcome
	if resign && st.SignaturesMap != nil && rapid.IntRange(0, 3).Draw(t, "resign") != 0 {
		msg := st.Transaction.AsVersioned().PayloadHash()
		for i, in := range st.Inputs {
			if i >= len(st.SignaturesMap) {
				break
			}
			u := l.UTXOs[fmt.Sprintf("%s:%d", in.Hash, in.Index)]
			m := map[uint16]*crypto.Signature{}
			if in.Deposit == nil && in.Mint == nil && u != nil && u.Spendable {
				for pos := range u.Keys {
					sig := l.ownerKey(u, pos).Sign(msg)
					m[uint16(pos)] = &sig
				}
			} else {
				key := l.Custodian.PrivateSpendKey
				if l.Pledging != nil && rapid.Bool().Draw(t, "resign_signer") {
					key = l.Pledging.Signer.PrivateSpendKey
				}
				sig := key.Sign(msg)
				m[0] = &sig
			}
			st.SignaturesMap[i] = m
		}
	}
	// reshape the signature maps of an otherwise complete transaction: entries
	// moved to other key indexes, an emptied map, a surplus map, a signature
	// repeated under a second index (all decodable; validators that address a map
	// by a fixed index or assume its entry count must reject, not crash)
	if len(st.SignaturesMap) > 0 && rapid.IntRange(0, 3).Draw(t, "sigmap_reshape") == 0 {
		classes = append(classes, "sigmap-reshaped")
		at := rapid.IntRange(0, len(st.SignaturesMap)-1).Draw(t, "sigmap_at")
		m := st.SignaturesMap[at]
		nm := map[uint16]*crypto.Signature{}
		switch rapid.IntRange(0, 3).Draw(t, "sigmap_kind") {
		case 0: // every entry shifted to another index
			shift := rapid.SampledFrom([]uint16{1, 2, 63, 255, 256, 65534}).Draw(t, "sigmap_shift")
			for i, sg := range m {
				nm[i+shift] = sg
			}
		case 1: // emptied
		case 2: // first entry repeated under a second index
			for i, sg := range m {
				nm[i] = sg
				nm[i+1+uint16(rapid.IntRange(0, 3).Draw(t, "sigmap_dup"))] = sg
				break
			}
		default: // surplus map appended
			for i, sg := range m {
				nm[i] = sg
			}
			extra := map[uint16]*crypto.Signature{}
			for i, sg := range m {
				extra[i] = sg
			}
			st.SignaturesMap = append(append([]map[uint16]*crypto.Signature{}, st.SignaturesMap...), extra)
		}
		maps := append([]map[uint16]*crypto.Signature{}, st.SignaturesMap...)
		maps[at] = nm
		st.SignaturesMap = maps
	}
	var enc []byte
	var ver *common.VersionedTransaction
	if p := vpLCatch(func() { ver = st.AsVersioned(); enc = ver.Marshal() }); p != nil {
		return nil, append(classes, "not-encodable")
	}
	dec, err := common.UnmarshalVersionedTransaction(enc)
	if err != nil {
		return nil, append(classes, "not-decodable")
	}
	return dec, classes
}

func vpC05Reached(err error) string {
	if err == nil {
		return "accepted"
	}
	s := err.Error()
	for _, early := range []string{"invalid tx version", "invalid tx type", "invalid tx inputs or outputs", "invalid input index", "invalid extra size", "invalid transaction size", "invalid signatures map", "invalid tx signature number", "too many references", "reference not found"} {
		if strings.HasPrefix(s, early) {
			return "early"
		}
	}
	return "deep"
}

func TestVP_C05_never_panics(t *testing.T) {
	c := kit.New(t, "C05", "rapid: 30% free-form and 70% template-derived (valid transfer/pledge/accept/cancel/remove/submit/claim/deposit/mint/custodian-update shapes with 0..3 structural mutations, re-signed) version-5 transactions (free-form: 1..4 inputs: live outputs of every stored type incl. pledge/accept/remove/claim/custodian, spent/missing refs, deposit/mint/genesis data also riding on ordinary refs; 1..4 outputs of every type byte incl. unknown ones, amounts 0..2^520000, keys valid/invalid/reused, scripts valid/malformed, withdrawal data, storage-output shape; extras 0..5000 bytes incl. real node extras; references real/unknown; authorization: none, aggregate with arbitrary signers, per-input maps honest or misplaced with missing/surplus maps), round-tripped through Marshal/Unmarshal so only decodable inputs are judged, validated at drawn snapshot times >= genesis custodian time with fork on/off; oracle: Validate returns (no panic); non-trivial = reached validateInputs or later (error class 'deep' or accepted); distinct by full encoding hash")
	c.Require("deep", "accepted", "early", "in-utxo-0x0", "in-utxo-0xa4", "in-utxo-0xa3", "in-utxo-0xa6", "in-utxo-0xa9", "in-utxo-0xb1", "in-deposit", "in-mint", "auth-none", "auth-aggregate", "auth-maps-short", "storage-output", "type-9", "type-6", "type-7", "type-18", "type-19", "type-5", "type-3", "template-3", "template-9", "mut-1", "mut-2", "mut-8", "mut-12", "sigmap-reshaped", "node-sig-index-nonzero", "cancel-third-word-noncanonical", "deposit-of-drained-asset")
	kit.SetChecks(kit.N(120, 8000))
	rapid.Check(t, func(t *rapid.T) {
		l := vpC05Ledger(t, "c05")
		defer l.Close()
		n := rapid.IntRange(10, 40).Draw(t, "ntx")
		for i := 0; i < n; i++ {
			var ver *common.VersionedTransaction
			var classes []string
			if rapid.IntRange(0, 9).Draw(t, "generator") < 3 {
				ver, classes = vpC05Build(t, l)
			} else {
				ver, classes = vpC05Template(t, l)
			}
			if ver == nil {
				c.Class(classes[len(classes)-1])
				continue
			}
			ts := l.Epoch + 1 + uint64(rapid.Int64Range(0, int64(l.Clock-l.Epoch)+2000000000).Draw(t, "snap_time"))
			if rapid.Bool().Draw(t, "snap_late") {
				// after everything the ledger holds (the state "now"), where the
				// latest membership records are visible to the validators
				ts = l.Clock + uint64(rapid.Int64Range(1, 2000000000).Draw(t, "snap_after"))
			}
			fork := rapid.Bool().Draw(t, "fork")
			var err error
			if p := vpLCatch(func() { err = ver.Validate(l.Store, ts, fork) }); p != nil {
				t.Fatalf("Validate panicked: %v\ntransaction type %d, encoding %x", p, ver.TransactionType(), ver.Marshal())
			}
			reached := vpC05Reached(err)
			classes = append(classes, reached, fmt.Sprintf("type-%d", ver.TransactionType()))
			c.Case(crypto.Blake3Hash(ver.Marshal()).String(), reached != "early", classes...)
			c.Sample(map[string]any{"type": ver.TransactionType(), "inputs": len(ver.Inputs), "outputs": len(ver.Outputs), "extra": len(ver.Extra), "result": fmt.Sprint(err)})
		}
	})
}

// Regression witnesses of the two repaired defects (C05-F1, C05-F2).
func TestVP_C05_regress(t *testing.T) {
	c := kit.New(t, "C05", "deterministic witnesses: node-removal-typed transaction spending a script output with no signature maps; XIN storage output of 2^100 and 2^64*0.0001 units")
	l := vpLNewLedger(7, "c05r", 3)
	defer l.Close()
	a := &l.Assets[0]
	dep := l.BuildDeposit(a, common.NewInteger(10), vpLOut{Owners: []int{0}, Threshold: 1}, "0xr1", 0, nil)
	if err := l.Admit(dep, l.Tick(10), "deposit"); err != nil {
		t.Fatal(err)
	}
	snap := l.MakeSnapshot(0, []crypto.Hash{dep.PayloadHash()}, l.Tick(10))
	if err := l.Finalize(snap); err != nil {
		t.Fatal(err)
	}
	u := l.UTXOs[fmt.Sprintf("%s:0", dep.PayloadHash())]
	// F1
	tx := l.BuildSpend(a.Id, []*vpLUTXO{u}, []vpLOut{{Type: common.OutputTypeNodeRemove, Owners: []int{1}, Threshold: 1, Amount: u.Amount}}, nil, nil)
	ver := (&common.SignedTransaction{Transaction: *tx}).AsVersioned()
	var err error
	if p := vpLCatch(func() { err = ver.Validate(l.Store, l.Clock, false) }); p != nil {
		t.Fatalf("C05-F1 returned: Validate panicked on a node-remove typed transaction without signature maps: %v", p)
	} else if err == nil {
		t.Fatalf("unsigned node-remove typed spend accepted")
	}
	c.Case("F1", true)
	// F2
	for _, amt := range []*big.Int{new(big.Int).Lsh(big.NewInt(1), 100), new(big.Int).Mul(new(big.Int).Lsh(big.NewInt(1), 64), big.NewInt(10000)), new(big.Int).Lsh(big.NewInt(1), 300)} {
		tx2 := common.NewTransactionV5(common.XINAssetId)
		tx2.AddInput(u.Hash, u.Index)
		tx2.AddOutputWithType(common.OutputTypeScript, []*common.Address{&l.Accts[0]}, common.Script{common.OperatorCmp, common.OperatorSum, 0x40}, vpLInt(amt), vpLSeed("f2"))
		tx2.Extra = make([]byte, 300)
		v2 := l.SignMaps(tx2, []*vpLUTXO{u}, [][]int{{0}})
		if p := vpLCatch(func() { err = v2.Validate(l.Store, l.Clock, false) }); p != nil {
			t.Fatalf("C05-F2 returned: Validate panicked on a storage output of %s units: %v", amt, p)
		}
		c.Case("F2-"+amt.String(), true)
	}
	c.Sample("witnesses F1 and F2 return errors")
}
