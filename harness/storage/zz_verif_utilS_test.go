//go:build verif

package storage

// Small helpers shared by the storage-only harnesses C18/C23/C26/C27/C28(c)/C35.
// All identifiers are prefixed vpS. Keep this file small and always compiling:
// it is part of every storage check.

import (
	"bytes"
	"encoding/json"
	"fmt"
	"sort"
	"sync"

	"github.com/MixinNetwork/mixin/common"
	"github.com/MixinNetwork/mixin/config"
	"github.com/MixinNetwork/mixin/crypto"
	"github.com/dgraph-io/badger/v4"
)

const vpSEpochSeconds = int64(1700000000) // 2023-11-14, far in the past

// vpSCustom is the configuration the production loader would produce for an
// otherwise empty file (CacheTTL default 7200 s).
func vpSCustom() *config.Custom {
	c := &config.Custom{}
	c.Node.CacheTTL = 3600 * 2
	c.Node.KernelOprationPeriod = 700
	c.Node.MemoryCacheSize = 1024 * 4
	return c
}

// vpSFataler is satisfied by *testing.T and *rapid.T.
type vpSFataler interface {
	Fatalf(format string, args ...any)
}

// vpSOpenStore opens (or reopens) a BadgerStore at dir.
func vpSOpenStore(t vpSFataler, dir string) *BadgerStore {
	s, err := NewBadgerStore(vpSCustom(), dir)
	if err != nil {
		t.Fatalf("NewBadgerStore(%s): %v", dir, err)
	}
	return s
}

// vpSOpenSnapshotsOnly opens only the snapshot database (with the production
// openDB options) for harnesses that never touch the cache database; opening a
// Badger directory costs ~0.2 s (64 MB memtable arena), so this halves a reopen.
// SyncWrites is off (production: on): the harnesses model a crash as an orderly
// close and reopen at a call boundary, for which fsync per commit changes nothing
// but costs most of the run time on a loaded machine.
// Close such a store with vpSCloseSnapshotsOnly, not with Close.
func vpSOpenSnapshotsOnly(t vpSFataler, dir string) *BadgerStore {
	custom := vpSCustom()
	db, err := openDB(dir+"/snapshots", false, custom)
	if err != nil {
		t.Fatalf("openDB(%s): %v", dir, err)
	}
	return &BadgerStore{custom: custom, snapshotsDB: db, mutex: new(sync.RWMutex)}
}

func vpSCloseSnapshotsOnly(s *BadgerStore) error {
	s.closing = true
	return s.snapshotsDB.Close()
}

// vpSWipe deletes every key of the snapshot database (and the in-memory
// custodian cache), so that one opened store can serve many cases.
func vpSWipe(t vpSFataler, s *BadgerStore) {
	s.custodians.Range(func(k, _ any) bool { s.custodians.Delete(k); return true })
	for {
		var keys [][]byte
		err := s.snapshotsDB.View(func(txn *badger.Txn) error {
			opts := badger.DefaultIteratorOptions
			opts.PrefetchValues = false
			it := txn.NewIterator(opts)
			defer it.Close()
			for it.Rewind(); it.Valid() && len(keys) < 5000; it.Next() {
				keys = append(keys, it.Item().KeyCopy(nil))
			}
			return nil
		})
		if err != nil {
			t.Fatalf("wipe: %v", err)
		}
		if len(keys) == 0 {
			return
		}
		err = s.snapshotsDB.Update(func(txn *badger.Txn) error {
			for _, k := range keys {
				if err := txn.Delete(k); err != nil {
					return err
				}
			}
			return nil
		})
		if err != nil {
			t.Fatalf("wipe: %v", err)
		}
	}
}

// vpSCatch runs f and returns the recovered panic rendered as a string ("" when
// f returned normally). panic(nil) is reported as a non-empty string too.
func vpSCatch(f func()) (p string) {
	defer func() {
		if r := recover(); r != nil {
			p = fmt.Sprint(r)
			if p == "" {
				p = "panic"
			}
		}
	}()
	f()
	return ""
}

func vpSSeed(tag string, i int) []byte {
	h1 := crypto.Blake3Hash([]byte(fmt.Sprintf("vpS-seed-%s-%d-a", tag, i)))
	h2 := crypto.Blake3Hash([]byte(fmt.Sprintf("vpS-seed-%s-%d-b", tag, i)))
	return append(h1[:], h2[:]...)
}

// vpSNodeAddress derives an address that follows the node key rule (view key is
// the deterministic hash derivation of the public spend key).
func vpSNodeAddress(seed []byte) common.Address {
	a := common.NewAddressFromSeed(seed)
	a.PrivateViewKey = a.PublicSpendKey.DeterministicHashDerive()
	a.PublicViewKey = a.PrivateViewKey.Public()
	return a
}

// vpSGenesis builds an in-memory genesis with n nodes from fixed seeds.
func vpSGenesis(n int) *common.Genesis {
	type node struct {
		Signer    *common.Address `json:"signer"`
		Payee     *common.Address `json:"payee"`
		Custodian *common.Address `json:"custodian"`
		Balance   common.Integer  `json:"balance"`
	}
	doc := struct {
		Epoch     int64           `json:"epoch"`
		Nodes     []*node         `json:"nodes"`
		Custodian *common.Address `json:"custodian"`
	}{Epoch: vpSEpochSeconds}
	for i := 0; i < n; i++ {
		s := vpSNodeAddress(vpSSeed("signer", i))
		p := vpSNodeAddress(vpSSeed("payee", i))
		c := common.NewAddressFromSeed(vpSSeed("custodian", i))
		doc.Nodes = append(doc.Nodes, &node{Signer: &s, Payee: &p, Custodian: &c, Balance: common.KernelNodePledgeAmount})
	}
	cu := common.NewAddressFromSeed(vpSSeed("custodian-domain", 0))
	doc.Custodian = &cu
	b, err := json.Marshal(doc)
	if err != nil {
		panic(err)
	}
	var gns common.Genesis
	if err := json.Unmarshal(b, &gns); err != nil {
		panic(err)
	}
	return &gns
}

type vpSLoaded struct {
	Genesis   *common.Genesis
	NetworkId crypto.Hash
	Epoch     uint64
	NodeIds   []crypto.Hash // chain ids of the genesis nodes, genesis order
	Rounds    []*common.Round
	Snapshots []*common.SnapshotWithTopologicalOrder
	Txs       []*common.VersionedTransaction
}

// vpSLoadGenesis loads a 7-node genesis the way kernel.Node.LoadGenesis does.
func vpSLoadGenesis(t vpSFataler, s *BadgerStore) *vpSLoaded {
	gns := vpSGenesis(7)
	rounds, snaps, txs, err := gns.BuildSnapshots()
	if err != nil {
		t.Fatalf("BuildSnapshots: %v", err)
	}
	if err := s.LoadGenesis(rounds, snaps, txs); err != nil {
		t.Fatalf("LoadGenesis: %v", err)
	}
	l := &vpSLoaded{Genesis: gns, NetworkId: gns.NetworkId(), Epoch: gns.EpochTimestamp(), Rounds: rounds, Snapshots: snaps, Txs: txs}
	for _, in := range gns.Nodes {
		l.NodeIds = append(l.NodeIds, in.Signer.Hash().ForNetwork(l.NetworkId))
	}
	return l
}

// vpSDump returns a digest of every key/value pair of the snapshot database.
func vpSDump(s *BadgerStore) crypto.Hash {
	var buf bytes.Buffer
	err := s.snapshotsDB.View(func(txn *badger.Txn) error {
		it := txn.NewIterator(badger.DefaultIteratorOptions)
		defer it.Close()
		for it.Rewind(); it.Valid(); it.Next() {
			item := it.Item()
			k := item.KeyCopy(nil)
			v, err := item.ValueCopy(nil)
			if err != nil {
				return err
			}
			fmt.Fprintf(&buf, "%d:%x=%d:%x;", len(k), k, len(v), v)
		}
		return nil
	})
	if err != nil {
		panic(err)
	}
	return crypto.Blake3Hash(buf.Bytes())
}

func vpSSortHashes(hs []crypto.Hash) {
	sort.Slice(hs, func(i, j int) bool { return bytes.Compare(hs[i][:], hs[j][:]) < 0 })
}
